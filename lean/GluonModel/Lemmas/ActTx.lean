/-
C03 helper lemmas, part 5: the transaction monad of the action level, and the table-level effect of
the helpers of internal/state/updates_mailbox.go and actions.go (remove, add, move), for message
lists of any length.
-/
import GluonModel.Lemmas.ActCreate

namespace Gluon.C03
open Gluon.DB Gluon.Act

/-! ### `ATx` plumbing -/

theorem bindA_ok {α β : Type} (x : ATx α) (f : α → ATx β) (s : State) (r : β × State) :
    (x >>= f) s = .ok r ↔ ∃ a s1, x s = .ok (a, s1) ∧ f a s1 = .ok r := by
  simp only [bind, StateT.bind, Except.bind]
  cases hx : x s with
  | error e => simp
  | ok v =>
    obtain ⟨a, s1⟩ := v
    simp only [Except.ok.injEq, Prod.mk.injEq]
    constructor
    · intro h; exact ⟨a, s1, ⟨rfl, rfl⟩, h⟩
    · rintro ⟨a', s', ⟨rfl, rfl⟩, h⟩; exact h

theorem pureA_ok {α : Type} (a : α) (s : State) (r : α × State) : (pure a : ATx α) s = .ok r ↔ r = (a, s) := by
  simp only [pure, StateT.pure, Except.pure, Except.ok.injEq]
  exact eq_comm

theorem liftTx_ok {α : Type} (t : Tx α) (s : State) (a : α) (s' : State) :
    liftTx t s = .ok (a, s') ↔ ∃ db', t s.db = .ok (a, db') ∧ s' = { s with db := db' } := by
  unfold liftTx
  cases ht : t s.db with
  | error e => simp
  | ok v =>
    obtain ⟨a1, db1⟩ := v
    simp only [Except.ok.injEq, Prod.mk.injEq]
    constructor
    · rintro ⟨rfl, rfl⟩; exact ⟨db1, ⟨rfl, rfl⟩, rfl⟩
    · rintro ⟨db', ⟨rfl, rfl⟩, rfl⟩; exact ⟨rfl, rfl⟩

theorem liftRead_ok {α : Type} (f : DB → Except DbErr α) (s : State) (a : α) (s' : State) :
    liftRead f s = .ok (a, s') ↔ f s.db = .ok a ∧ s' = s := by
  unfold liftRead
  cases hf : f s.db with
  | error e => simp
  | ok v =>
    simp only [Except.ok.injEq, Prod.mk.injEq]
    constructor
    · rintro ⟨rfl, rfl⟩; exact ⟨rfl, rfl⟩
    · rintro ⟨rfl, rfl⟩; exact ⟨rfl, rfl⟩

theorem failA_ok {α : Type} (e : Err) (s : State) (r : α × State) : (fail e : ATx α) s = .ok r ↔ False := by
  simp [fail]

/-- the components of the model state outside the message index, and the mailbox attributes -/
def SameRest (s s' : State) : Prop :=
  s'.store = s.store ∧ s'.nextId = s.nextId ∧ s'.nextRid = s.nextRid ∧ s'.db.mboxAttrs = s.db.mboxAttrs

theorem SameRest.refl (s : State) : SameRest s s := ⟨rfl, rfl, rfl, rfl⟩
theorem SameRest.trans {a b c : State} (h1 : SameRest a b) (h2 : SameRest b c) : SameRest a c :=
  ⟨h2.1.trans h1.1, h2.2.1.trans h1.2.1, h2.2.2.1.trans h1.2.2.1, h2.2.2.2.trans h1.2.2.2⟩

/-- the index changed at most in the table of `mb`, by `g` (nothing at all if that table does not exist) -/
def TabEff (mb : MailboxId) (g : MTable → MTable) (s s' : State) : Prop :=
  SameRest s s' ∧ (∀ t, s.db.table? mb = some t → proj s'.db = (proj s.db).setTable mb (g t)) ∧
    (s.db.table? mb = none → proj s'.db = proj s.db)

theorem TabEff.comp {mb : MailboxId} {g g' : MTable → MTable} {a b c : State} (h1 : TabEff mb g a b) (h2 : TabEff mb g' b c) :
    TabEff mb (fun t => g' (g t)) a c := by
  refine ⟨h1.1.trans h2.1, ?_, ?_⟩
  · intro t ht
    have hb := h1.2.1 t ht
    have hbt : b.db.table? mb = some (g t) := by
      have := congrArg (fun P => P.table? mb) hb
      simpa [Proj.table?_setTable] using this
    rw [h2.2.1 _ hbt, hb, Proj.setTable_setTable]
  · intro hn
    have hb := h1.2.2 hn
    have hbt : b.db.table? mb = none := by
      have := congrArg (fun P => P.table? mb) hb
      simpa using this.trans hn
    rw [h2.2.2 hbt, hb]

theorem TabEff.noop (mb : MailboxId) (g : MTable → MTable) (s : State) (hg : ∀ t, s.db.table? mb = some t → g t = t) : TabEff mb g s s := by
  refine ⟨SameRest.refl s, ?_, fun _ => rfl⟩
  intro t ht
  rw [hg t ht, Proj.setTable_same _ _ _ (by simpa using ht)]

theorem TabEff.congr {mb : MailboxId} {g g' : MTable → MTable} {s s' : State} (h : TabEff mb g s s')
    (hg : ∀ t, s.db.table? mb = some t → g t = g' t) : TabEff mb g' s s' :=
  ⟨h.1, fun t ht => by rw [← hg t ht]; exact h.2.1 t ht, h.2.2⟩

theorem rmRows_congr (ids ids' : List MessageId) (t : MTable)
    (h : ∀ r ∈ t.rows, ids.contains r.msgId = ids'.contains r.msgId) : rmRows ids t = rmRows ids' t := by
  unfold rmRows
  congr 1
  apply List.filter_congr
  intro r hr
  rw [h r hr]

theorem rmRows_nil (t : MTable) : rmRows [] t = t := by
  cases t
  simp [rmRows]

theorem rmRows_rmRows (ids : List MessageId) (t : MTable) : rmRows ids (rmRows ids t) = rmRows ids t := by
  unfold rmRows
  simp [List.filter_filter]

/-! ### updates_mailbox.go -/

variable (E : Env) (hE : E.sites = factSites)

include hE in
/-- `RemoveMessagesFromMailbox` -/
theorem removeA_eff (mb : MailboxId) (ids : List MessageId) (s s' : State) (ups : List Upd)
    (h : removeMessagesFromMailbox E mb ids s = .ok (ups, s')) : TabEff mb (rmRows ids) s s' := by
  unfold Act.removeMessagesFromMailbox at h
  by_cases hemp : ids = []
  · subst hemp
    simp only [List.isEmpty_nil, Bool.not_true, Bool.false_eq_true, if_false] at h
    rw [pureA_ok] at h
    cases h
    exact TabEff.noop mb _ s (fun t _ => rmRows_nil t)
  · have : (!ids.isEmpty) = true := by cases ids with | nil => exact absurd rfl hemp | cons _ _ => rfl
    simp only [this, if_true] at h
    rw [bindA_ok] at h
    obtain ⟨a, s1, h1, h2⟩ := h
    rw [pureA_ok] at h2
    cases h2
    rw [liftTx_ok] at h1
    obtain ⟨db', h3, rfl⟩ := h1
    rw [hE] at h3
    obtain ⟨t, ht, hp, ha⟩ := remove_effect mb ids hemp s.db db' h3
    refine ⟨⟨rfl, rfl, rfl, ha⟩, ?_, ?_⟩
    · intro t' ht'; rw [ht] at ht'; cases ht'; exact hp
    · intro hn; rw [ht] at hn; cases hn

/-- `GetMailboxMessageCountAndUID` + the two limit checks: needs the table, changes nothing -/
theorem checkAdd_ok (mb : MailboxId) (n : Nat) (s s' : State) (h : checkAdd E mb n s = .ok ((), s')) :
    s' = s ∧ ∃ t, s.db.table? mb = some t := by
  unfold checkAdd at h
  rw [bindA_ok] at h
  obtain ⟨cu, s1, h1, h2⟩ := h
  rw [liftRead_ok] at h1
  obtain ⟨h1, rfl⟩ := h1
  have htab : ∃ t, s1.db.table? mb = some t := by
    unfold getMailboxMessageCountAndUID getMailboxMessageCount at h1
    simp only [bind, Except.bind] at h1
    cases hg : s1.db.getTable mb with
    | error e => rw [hg] at h1; simp at h1
    | ok t => exact ⟨t, getTable_ok hg⟩
  refine ⟨?_, htab⟩
  generalize limitErr E cu n = c at h2
  cases c with
  | some e => simp [fail] at h2
  | none => simp only at h2; rw [pureA_ok] at h2; cases h2; rfl

include hE in
/-- `AddMessagesToMailbox` -/
theorem addA_eff (mb : MailboxId) (pairs : List (MessageId × RemoteId)) (s s' : State) (res : List SnapRow × Upd)
    (h : addMessagesToMailbox E mb pairs s = .ok (res, s')) :
    (∃ t, s.db.table? mb = some t) ∧ TabEff mb (addRows pairs) s s' := by
  unfold Act.addMessagesToMailbox at h
  rw [bindA_ok] at h
  obtain ⟨_, s1, h1, h2⟩ := h
  obtain ⟨rfl, htab⟩ := checkAdd_ok E mb _ _ _ h1
  refine ⟨htab, ?_⟩
  rw [bindA_ok] at h2
  obtain ⟨rows, s2, h3, h4⟩ := h2
  rw [pureA_ok] at h4
  cases h4
  rw [liftTx_ok] at h3
  obtain ⟨db', h3, rfl⟩ := h3
  rw [hE] at h3
  by_cases hemp : pairs = []
  · subst hemp
    have := add_nil mb s1.db db' rows h3
    subst this
    exact TabEff.noop mb _ _ (fun t _ => by simp [addRows, newRows])
  · obtain ⟨t, ht, hp, ha⟩ := add_effect mb pairs hemp s1.db db' rows h3
    refine ⟨⟨rfl, rfl, rfl, ha⟩, ?_, ?_⟩
    · intro t' ht'; rw [ht] at ht'; cases ht'; exact hp
    · intro hn; rw [ht] at hn; cases hn

/-! ### actions.go -/

/-- removing the messages of the list that `MailboxFilterContains` found = removing all of the list -/
theorem filter_have (db : DB) (mb : MailboxId) (pairs : List (MessageId × RemoteId)) (have_ : List MessageId)
    (h : mailboxFilterContains factSites db mb pairs = .ok have_) (t : MTable) (ht : db.table? mb = some t) :
    rmRows ((pairs.filter fun p => have_.contains p.1).map (·.1)) t = rmRows (pairs.map (·.1)) t := by
  by_cases hemp : pairs = []
  · subst hemp; rfl
  · obtain ⟨t', ht', hc⟩ := filterContains_char db mb pairs have_ h hemp
    rw [ht] at ht'; cases ht'
    apply rmRows_congr
    intro r hr
    rw [Bool.eq_iff_iff]
    simp only [List.contains_iff_mem, List.mem_map, List.mem_filter]
    constructor
    · rintro ⟨p, ⟨hp, _⟩, hpr⟩; exact ⟨p, hp, hpr⟩
    · rintro ⟨p, hp, hpr⟩
      refine ⟨p, ⟨hp, ?_⟩, hpr⟩
      rw [hc]
      exact ⟨List.mem_map.mpr ⟨p, hp, rfl⟩, r, hr, hpr.symm⟩

/-- all messages of the list have a row in the table: `MailboxFilterContains` keeps the whole list -/
theorem filter_all (db : DB) (mb : MailboxId) (pairs : List (MessageId × RemoteId)) (have_ : List MessageId)
    (h : mailboxFilterContains factSites db mb pairs = .ok have_) (t : MTable) (ht : db.table? mb = some t)
    (hall : ∀ p ∈ pairs, ∃ r ∈ t.rows, r.msgId = p.1) : (pairs.filter fun p => have_.contains p.1) = pairs := by
  by_cases hemp : pairs = []
  · subst hemp; rfl
  · obtain ⟨t', ht', hc⟩ := filterContains_char db mb pairs have_ h hemp
    rw [ht] at ht'; cases ht'
    rw [List.filter_eq_self]
    intro p hp
    simp only [List.contains_iff_mem]
    rw [hc]
    exact ⟨List.mem_map.mpr ⟨p, hp, rfl⟩, hall p hp⟩

theorem TabEff.table_of {mb : MailboxId} {g : MTable → MTable} {s s' : State} (h : TabEff mb g s s')
    (ht : ∃ t', s'.db.table? mb = some t') : ∃ t, s.db.table? mb = some t := by
  cases hs : s.db.table? mb with
  | some t => exact ⟨t, rfl⟩
  | none =>
    have := congrArg (fun P => P.table? mb) (h.2.2 hs)
    simp only [proj_table?] at this
    obtain ⟨t', ht'⟩ := ht
    rw [this, hs] at ht'; cases ht'

include hE in
/-- `actionRemoveMessagesFromMailboxUnchecked` -/
theorem removeUnchecked_eff (mb : MailboxId) (pairs : List (MessageId × RemoteId)) (s s' : State) (ups : List Upd)
    (h : actionRemoveUnchecked E pairs mb s = .ok (ups, s')) : TabEff mb (rmRows (pairs.map (·.1))) s s' :=
  removeA_eff E hE mb _ s s' ups h

include hE in
/-- `actionRemoveMessagesFromMailbox` (EXPUNGE): the named messages leave the mailbox, those not in it are ignored -/
theorem actionRemove_eff (mb : MailboxId) (pairs : List (MessageId × RemoteId)) (s s' : State) (ups : List Upd)
    (h : actionRemove E pairs mb s = .ok (ups, s')) : TabEff mb (rmRows (pairs.map (·.1))) s s' := by
  unfold actionRemove at h
  rw [bindA_ok] at h
  obtain ⟨have_, s1, h1, h2⟩ := h
  rw [liftRead_ok] at h1
  obtain ⟨h1, rfl⟩ := h1
  rw [hE] at h1
  by_cases hemp : (pairs.filter fun p => have_.contains p.1).isEmpty = true
  · simp only [hemp, if_true] at h2
    rw [pureA_ok] at h2
    cases h2
    apply TabEff.noop
    intro t ht
    rw [← filter_have _ mb pairs have_ h1 t ht]
    have : (pairs.filter fun p => have_.contains p.1) = [] := by simpa using hemp
    rw [this]; exact rmRows_nil t
  · simp only [hemp, Bool.false_eq_true, if_false] at h2
    have := removeUnchecked_eff E hE mb _ s1 s' ups h2
    exact this.congr (fun t ht => filter_have s1.db mb pairs have_ h1 t ht)

include hE in
/-- `actionAddMessagesToMailbox` (COPY): instances the mailbox already holds are removed, then all named
    messages are appended under fresh UIDs in list order -/
theorem actionAdd_eff (mb : MailboxId) (pairs : List (MessageId × RemoteId)) (s s' : State) (res : List Upd × List SnapRow)
    (h : actionAdd E pairs mb s = .ok (res, s')) :
    (∃ t, s.db.table? mb = some t) ∧ TabEff mb (fun t => addRows pairs (rmRows (pairs.map (·.1)) t)) s s' := by
  unfold actionAdd at h
  rw [bindA_ok] at h
  obtain ⟨have_, s1, h1, h2⟩ := h
  rw [liftRead_ok] at h1
  obtain ⟨h1, rfl⟩ := h1
  rw [hE] at h1
  simp only at h2
  rw [bindA_ok] at h2
  obtain ⟨ups, s2, h3, h4⟩ := h2
  rw [bindA_ok] at h4
  obtain ⟨ru, s3, h5, h6⟩ := h4
  rw [pureA_ok] at h6
  cases h6
  have e1 : TabEff mb (rmRows ((pairs.filter fun p => have_.contains p.1).map (·.1))) s1 s2 := by
    by_cases hemp : (pairs.filter fun p => have_.contains p.1).isEmpty = true
    · simp only [hemp, Bool.not_true, Bool.false_eq_true, if_false] at h3
      rw [pureA_ok] at h3
      cases h3
      have : (pairs.filter fun p => have_.contains p.1) = [] := by simpa using hemp
      rw [this]
      exact TabEff.noop mb _ _ (fun t _ => rmRows_nil t)
    · have hne : (!(pairs.filter fun p => have_.contains p.1).isEmpty) = true := by simpa using hemp
      simp only [hne, if_true] at h3
      exact removeUnchecked_eff E hE mb _ s1 s2 ups h3
  obtain ⟨htab2, e2⟩ := addA_eff E hE mb pairs s2 _ ru h5
  have htab := e1.table_of htab2
  refine ⟨htab, ?_⟩
  exact (e1.comp e2).congr (fun t ht => by rw [filter_have s1.db mb pairs have_ h1 t ht])

end Gluon.C03
