/-
MessagesCreated, part 2: the invariant of the loop over `update.Messages`.
-/
import GluonModel.Lemmas.ConnCreated

namespace Gluon.ConnUpd

/-- facts about `messagesToCreate` after the messages `done` were looked at -/
structure TcInv (db : DB) (done : List NewMsg) (tc : List Msg) : Prop where
  fresh : ∀ c ∈ tc, db.msgByRid c.rid = none
  live : ∀ c ∈ tc, c.deleted = false
  iidLo : ∀ c ∈ tc, db.nextMsg ≤ c.iid
  iidHi : ∀ c ∈ tc, c.iid < db.nextMsg + tc.length
  rid : nodupKeys (fun c : Msg => c.rid) tc = true
  iid : nodupKeys (fun c : Msg => c.iid) tc = true
  flags : ∀ c ∈ tc, ∃ f, firstOf done c.rid = some f ∧ c.flags = dedup f.flags
  complete : ∀ m ∈ done, db.msgByRid m.rid = none → ∃ c ∈ tc, c.rid = m.rid

/-- facts about `messageForMBox`; `slack i k` is 1 when mailbox `k` already holds the message being
    distributed (`i`), which is when the list may be one longer than the number of finished messages -/
structure FmInv (db : DB) (done : List NewMsg) (tc : List Msg) (bound : Nat → Nat) (fm : FM) : Prop where
  nodup : (fmKeys fm).Nodup
  mbox : ∀ k ∈ fmKeys fm, ∃ B ∈ db.mboxes, B.iid = k
  sound : ∀ k, ∀ p ∈ pairsOf fm k, (∃ x ∈ db.msgs ++ tc, x.rid = p.2 ∧ x.iid = p.1) ∧
      ∃ m ∈ done, m.rid = p.2 ∧ ∃ B ∈ db.mboxes, B.iid = k ∧ m.mboxes.contains B.rid = true
  pairNd : ∀ k, nodupKeys (fun p : Nat × RID => p.1) (pairsOf fm k) = true
  len : ∀ k, (pairsOf fm k).length ≤ bound k

theorem firstOf_append (done : List NewMsg) (m : NewMsg) (r : RID) :
    firstOf (done ++ [m]) r = (firstOf done r).or (if m.rid == r then some m else none) := by
  simp only [firstOf, List.find?_append, List.find?_cons, List.find?_nil]
  cases done.find? (fun x => x.rid == r) with
  | some f => rfl
  | none =>
    simp only [Option.none_or]
    cases (m.rid == r) <;> rfl

theorem nodupKeys_append_one {α κ : Type} [BEq κ] [LawfulBEq κ] (f : α → κ) : ∀ (l : List α) (a : α),
    nodupKeys f l = true → (∀ y ∈ l, (f y == f a) = false) → nodupKeys f (l ++ [a]) = true := by
  intro l
  induction l with
  | nil => intro a _ _; simp [nodupKeys]
  | cons x xs ih =>
    intro a hn hne
    rw [nodupKeys_cons] at hn
    rw [List.cons_append, nodupKeys_cons]
    refine ⟨?_, ih a hn.2 (fun y hy => hne y (List.mem_cons_of_mem _ hy))⟩
    intro y hy
    rw [List.mem_append, List.mem_singleton] at hy
    rcases hy with hy | rfl
    · exact hn.1 y hy
    · have := hne x (List.mem_cons_self)
      cases h : (f y == f x) with
      | false => rfl
      | true =>
        have e : f y = f x := eq_of_beq h
        rw [e] at this; simp at this

/-- what `mscResolve` returns: the id under which the message will be known, and the grown list -/
theorem mscResolve_inv (db : DB) (hi : InvP db) (done : List NewMsg) (acc : MscAcc) (m : NewMsg)
    (h : TcInv db done acc.toCreate) :
    TcInv db (done ++ [m]) (mscResolve db acc m).2.toCreate ∧
    (mscResolve db acc m).2.forMbox = acc.forMbox ∧
    (∃ x ∈ db.msgs ++ (mscResolve db acc m).2.toCreate, x.rid = m.rid ∧ x.iid = (mscResolve db acc m).1) ∧
    (∀ c ∈ acc.toCreate, c ∈ (mscResolve db acc m).2.toCreate) := by
  have hflags_mono : ∀ c ∈ acc.toCreate, ∃ f, firstOf (done ++ [m]) c.rid = some f ∧ c.flags = dedup f.flags := by
    intro c hc
    obtain ⟨f, hf, hfl⟩ := h.flags c hc
    exact ⟨f, by rw [firstOf_append, hf]; rfl, hfl⟩
  unfold mscResolve
  cases hfind : acc.toCreate.find? (fun c => c.rid == m.rid) with
  | some c =>
    obtain ⟨hcm, hcr⟩ := find?_key_mem _ _ _ hfind
    have hcr' : c.rid = m.rid := by simpa using hcr
    simp only
    refine ⟨⟨h.fresh, h.live, h.iidLo, h.iidHi, h.rid, h.iid, hflags_mono, ?_⟩, trivial, ?_, fun c hc => hc⟩
    · intro m' hm' hnone
      rw [List.mem_append, List.mem_singleton] at hm'
      rcases hm' with hm' | rfl
      · exact h.complete m' hm' hnone
      · exact ⟨c, hcm, hcr'⟩
    · exact ⟨c, List.mem_append_right _ hcm, hcr', rfl⟩
  | none =>
    simp only
    cases hg : db.msgByRid m.rid with
    | some g =>
      obtain ⟨hgm, hgr⟩ := msgByRid_some hg
      simp only
      refine ⟨⟨h.fresh, h.live, h.iidLo, h.iidHi, h.rid, h.iid, hflags_mono, ?_⟩, trivial, ?_, fun c hc => hc⟩
      · intro m' hm' hnone
        rw [List.mem_append, List.mem_singleton] at hm'
        rcases hm' with hm' | rfl
        · exact h.complete m' hm' hnone
        · rw [hg] at hnone; cases hnone
      · exact ⟨g, List.mem_append_left _ hgm, hgr, rfl⟩
    | none =>
      simp only
      have hnotin : ∀ y ∈ acc.toCreate, (y.rid == m.rid) = false := by
        intro y hy
        rw [List.find?_eq_none] at hfind
        have := hfind y hy
        simpa using this
      refine ⟨⟨?_, ?_, ?_, ?_, ?_, ?_, ?_, ?_⟩, trivial, ?_, fun c hc => List.mem_append_left _ hc⟩
      · intro c hc
        rw [List.mem_append, List.mem_singleton] at hc
        rcases hc with hc | rfl
        · exact h.fresh c hc
        · exact hg
      · intro c hc
        rw [List.mem_append, List.mem_singleton] at hc
        rcases hc with hc | rfl
        · exact h.live c hc
        · rfl
      · intro c hc
        rw [List.mem_append, List.mem_singleton] at hc
        rcases hc with hc | rfl
        · exact h.iidLo c hc
        · simp
      · intro c hc
        rw [List.mem_append, List.mem_singleton] at hc
        simp only [List.length_append, List.length_singleton]
        rcases hc with hc | rfl
        · have := h.iidHi c hc; omega
        · simp
      · apply nodupKeys_append_one _ _ _ h.rid
        intro y hy; exact hnotin y hy
      · apply nodupKeys_append_one _ _ _ h.iid
        intro y hy
        have := h.iidHi y hy
        simp only [beq_eq_false_iff_ne, ne_eq]
        omega
      · intro c hc
        rw [List.mem_append, List.mem_singleton] at hc
        rcases hc with hc | rfl
        · exact hflags_mono c hc
        · refine ⟨m, ?_, rfl⟩
          rw [firstOf_append]
          have : firstOf done m.rid = none := by
            cases hfo : firstOf done m.rid with
            | none => rfl
            | some f =>
              exfalso
              have hfm := find?_key_mem _ _ _ hfo
              have hfr : f.rid = m.rid := by simpa using hfm.2
              obtain ⟨c, hc, hcr⟩ := h.complete f hfm.1 (by rw [hfr]; exact hg)
              have := hnotin c hc
              rw [hcr, hfr] at this
              simp at this
          rw [this]; simp
      · intro m' hm' hnone
        rw [List.mem_append, List.mem_singleton] at hm'
        rcases hm' with hm' | rfl
        · obtain ⟨c, hc, hcr⟩ := h.complete m' hm' hnone
          exact ⟨c, List.mem_append_left _ hc, hcr⟩
        · exact ⟨_, List.mem_append_right _ (List.mem_singleton.2 rfl), rfl⟩
      · exact ⟨_, List.mem_append_right _ (List.mem_append_right _ (List.mem_singleton.2 rfl)), rfl, rfl⟩

def slack (fm : FM) (i k : Nat) : Nat := if (pairsOf fm k).any (fun q => q.1 == i) then 1 else 0

def FmComplete (db : DB) (done : List NewMsg) (fm : FM) : Prop :=
  ∀ m ∈ done, ∀ b ∈ m.mboxes, ∀ B, db.mboxByRid b = some B → ∃ p ∈ pairsOf fm B.iid, p.2 = m.rid

theorem FmInv.mono {db : DB} {done done' : List NewMsg} {tc tc' : List Msg} {bound bound' : Nat → Nat} {fm : FM}
    (h : FmInv db done tc bound fm) (hd : ∀ m ∈ done, m ∈ done') (ht : ∀ c ∈ tc, c ∈ tc') (hb : ∀ k, bound k ≤ bound' k) :
    FmInv db done' tc' bound' fm := by
  refine ⟨h.nodup, h.mbox, ?_, h.pairNd, fun k => Nat.le_trans (h.len k) (hb k)⟩
  intro k p hp
  obtain ⟨⟨x, hx, hxr, hxi⟩, m, hm, hmr, hB⟩ := h.sound k p hp
  refine ⟨⟨x, ?_, hxr, hxi⟩, m, hd m hm, hmr, hB⟩
  rw [List.mem_append] at hx ⊢
  rcases hx with hx | hx
  · exact Or.inl hx
  · exact Or.inr (ht x hx)

/-- internal ids are unique across the old messages and the ones to be created -/
def IidUnique (l : List Msg) : Prop := ∀ x ∈ l, ∀ y ∈ l, x.iid = y.iid → x = y

theorem iidUnique_of (db : DB) (hi : InvP db) (done : List NewMsg) (tc : List Msg) (h : TcInv db done tc) :
    IidUnique (db.msgs ++ tc) := by
  intro x hx y hy he
  rw [List.mem_append] at hx hy
  rcases hx with hx | hx <;> rcases hy with hy | hy
  · exact eq_of_key_eq (fun g : Msg => g.iid) db.msgs x y hi.msgIid hx hy he
  · have := hi.msgLt x hx; have := h.iidLo y hy; omega
  · have := hi.msgLt y hy; have := h.iidLo x hx; omega
  · exact eq_of_key_eq (fun g : Msg => g.iid) tc x y h.iid hx hy he

theorem mscMailboxes_inv (db : DB) (ignore : Bool) (done : List NewMsg) (m : NewMsg) (tc : List Msg) (i : Nat)
    (hx : ∃ x ∈ db.msgs ++ tc, x.rid = m.rid ∧ x.iid = i) (huniq : IidUnique (db.msgs ++ tc)) :
    ∀ (bs : List RID) (fm : FM), (∀ b ∈ bs, b ∈ m.mboxes) → (∀ b ∈ bs, ignore = true ∨ db.known b = true) →
      FmInv db (done ++ [m]) tc (fun k => done.length + slack fm i k) fm →
      ∃ fm', mscMailboxes db ignore (i, m.rid) bs fm = .ok fm' ∧
        FmInv db (done ++ [m]) tc (fun k => done.length + slack fm' i k) fm' ∧
        (∀ k p, p ∈ pairsOf fm k → p ∈ pairsOf fm' k) ∧
        (∀ b ∈ bs, ∀ B, db.mboxByRid b = some B → ∃ p ∈ pairsOf fm' B.iid, p.2 = m.rid) := by
  intro bs
  induction bs with
  | nil =>
    intro fm _ _ h
    exact ⟨fm, rfl, h, fun _ _ hp => hp, by intro b hb; cases hb⟩
  | cons b bs ih =>
    intro fm hsub hok h
    have hsub' : ∀ b' ∈ bs, b' ∈ m.mboxes := fun b' hb' => hsub b' (List.mem_cons_of_mem _ hb')
    have hok' : ∀ b' ∈ bs, ignore = true ∨ db.known b' = true := fun b' hb' => hok b' (List.mem_cons_of_mem _ hb')
    simp only [mscMailboxes]
    cases hB : db.mboxByRid b with
    | none =>
      have hig : ignore = true := by
        rcases hok b (List.mem_cons_self) with h1 | h1
        · exact h1
        · simp [DB.known, hB] at h1
      subst hig
      simp only [if_true]
      obtain ⟨fm', h1, h2, h3, h4⟩ := ih fm hsub' hok' h
      refine ⟨fm', h1, h2, h3, ?_⟩
      intro b' hb' B' hB'
      rw [List.mem_cons] at hb'
      rcases hb' with rfl | hb'
      · rw [hB] at hB'; cases hB'
      · exact h4 b' hb' B' hB'
    | some B =>
      obtain ⟨hBm, hBr⟩ := mboxByRid_some hB
      simp only
      -- the accumulator after the pair was recorded
      have hpo := pairsOf_addPair fm B.iid (i, m.rid)
      have hinv1 : FmInv db (done ++ [m]) tc (fun k => done.length + slack (addPair fm B.iid (i, m.rid)) i k)
          (addPair fm B.iid (i, m.rid)) := by
        refine ⟨?_, ?_, ?_, ?_, ?_⟩
        · rw [fmKeys_addPair]
          split
          · exact h.nodup
          · rename_i hany
            rw [List.nodup_append]
            refine ⟨h.nodup, by simp, ?_⟩
            intro a ha c hc
            rw [List.mem_singleton] at hc
            subst hc
            intro e; subst e
            apply hany
            rw [List.any_eq_true]
            simp only [fmKeys, List.mem_map] at ha
            obtain ⟨e, he, hek⟩ := ha
            exact ⟨e, he, by simpa using hek⟩
        · intro k hk
          rw [fmKeys_addPair] at hk
          split at hk
          · exact h.mbox k hk
          · rw [List.mem_append, List.mem_singleton] at hk
            rcases hk with hk | rfl
            · exact h.mbox k hk
            · exact ⟨B, hBm, rfl⟩
        · intro k p hp
          rw [hpo k] at hp
          split at hp
          · rename_i hk
            subst hk
            split at hp
            · exact h.sound B.iid p hp
            · rw [List.mem_append, List.mem_singleton] at hp
              rcases hp with hp | rfl
              · exact h.sound B.iid p hp
              · refine ⟨hx, m, List.mem_append_right _ (List.mem_singleton.2 rfl), rfl, B, hBm, rfl, ?_⟩
                rw [hBr, List.contains_iff_mem]
                exact hsub b (List.mem_cons_self)
          · exact h.sound k p hp
        · intro k
          rw [hpo k]
          split
          · split
            · exact h.pairNd B.iid
            · rename_i hany
              apply nodupKeys_append_one _ _ _ (h.pairNd B.iid)
              intro y hy
              have : (pairsOf fm B.iid).any (fun q => q.1 == i) = false := Bool.eq_false_iff.2 hany
              rw [List.any_eq_false] at this
              simpa using this y hy
          · exact h.pairNd k
        · intro k
          have hl := h.len k
          simp only [slack] at hl ⊢
          rw [hpo k]
          by_cases hk : k = B.iid
          · subst hk
            simp only [if_true]
            by_cases hany : (pairsOf fm B.iid).any (fun q => q.1 == i) = true
            · simp only [hany, if_true] at hl ⊢; exact hl
            · have hany' : (pairsOf fm B.iid).any (fun q => q.1 == i) = false := Bool.eq_false_iff.2 hany
              simp only [hany', Bool.false_eq_true, if_false] at hl ⊢
              have : ((pairsOf fm B.iid) ++ [(i, m.rid)]).any (fun q => q.1 == i) = true := by simp
              simp only [this, if_true, List.length_append, List.length_singleton]
              omega
          · simp only [hk, if_false]; exact hl
      obtain ⟨fm', h1, h2, h3, h4⟩ := ih _ hsub' hok' hinv1
      have hmono1 : ∀ k p, p ∈ pairsOf fm k → p ∈ pairsOf (addPair fm B.iid (i, m.rid)) k := by
        intro k p hp
        rw [hpo k]
        split
        · rename_i hk
          subst hk
          split
          · exact hp
          · exact List.mem_append_left _ hp
        · exact hp
      refine ⟨fm', h1, h2, fun k p hp => h3 k p (hmono1 k p hp), ?_⟩
      intro b' hb' B' hB'
      rw [List.mem_cons] at hb'
      rcases hb' with rfl | hb'
      · rw [hB] at hB'
        cases hB'
        -- the pair for this mailbox is there (new, or the one recorded for an earlier occurrence)
        have : ∃ p ∈ pairsOf (addPair fm B.iid (i, m.rid)) B.iid, p.2 = m.rid := by
          rw [hpo B.iid]
          simp only [if_true]
          split
          · rename_i hany
            rw [List.any_eq_true] at hany
            obtain ⟨q, hq, hqi⟩ := hany
            refine ⟨q, hq, ?_⟩
            obtain ⟨⟨x', hx'm, hx'r, hx'i⟩, _⟩ := h.sound B.iid q hq
            obtain ⟨x, hxm, hxr, hxi⟩ := hx
            have : x' = x := huniq x' hx'm x hxm (by rw [hx'i, hxi]; simpa using hqi)
            rw [← hx'r, this, hxr]
          · exact ⟨(i, m.rid), List.mem_append_right _ (List.mem_singleton.2 rfl), rfl⟩
        obtain ⟨p, hp, hpr⟩ := this
        exact ⟨p, h3 B.iid p hp, hpr⟩
      · exact h4 b' hb' B' hB'

theorem mscStep_inv (cfg : Cfg) (db : DB) (hi : InvP db) (ignore : Bool) (done : List NewMsg) (acc : MscAcc) (m : NewMsg)
    (hm : m.mboxes.contains cfg.recoveryRID = false ∧ ∀ b ∈ m.mboxes, ignore = true ∨ db.known b = true)
    (htc : TcInv db done acc.toCreate) (hfm : FmInv db done acc.toCreate (fun _ => done.length) acc.forMbox)
    (hc : FmComplete db done acc.forMbox) :
    ∃ acc', mscStep cfg db ignore acc m = .ok acc' ∧ TcInv db (done ++ [m]) acc'.toCreate ∧
      FmInv db (done ++ [m]) acc'.toCreate (fun _ => (done ++ [m]).length) acc'.forMbox ∧
      FmComplete db (done ++ [m]) acc'.forMbox := by
  obtain ⟨htc1, hfmEq, hx, hsub⟩ := mscResolve_inv db hi done acc m htc
  have huniq := iidUnique_of db hi (done ++ [m]) _ htc1
  have hfm1 : FmInv db (done ++ [m]) (mscResolve db acc m).2.toCreate
      (fun k => done.length + slack (mscResolve db acc m).2.forMbox (mscResolve db acc m).1 k)
      (mscResolve db acc m).2.forMbox := by
    rw [hfmEq]
    exact hfm.mono (fun m' hm' => List.mem_append_left _ hm') hsub (fun k => Nat.le_add_right _ _)
  obtain ⟨fm', h1, h2, h3, h4⟩ := mscMailboxes_inv db ignore done m _ _ hx huniq m.mboxes _ (fun b hb => hb) hm.2 hfm1
  refine ⟨{ (mscResolve db acc m).2 with forMbox := fm' }, ?_, htc1, ?_, ?_⟩
  · unfold mscStep
    simp only [hm.1, Bool.false_eq_true, if_false, h1]
  · refine h2.mono (fun _ h => h) (fun _ h => h) ?_
    intro k
    simp only [slack, List.length_append, List.length_singleton]
    split <;> omega
  · intro m' hm' b hb B hB
    rw [List.mem_append, List.mem_singleton] at hm'
    rcases hm' with hm' | rfl
    · obtain ⟨p, hp, hpr⟩ := hc m' hm' b hb B hB
      rw [← hfmEq] at hp
      exact ⟨p, h3 B.iid p hp, hpr⟩
    · exact h4 b hb B hB

theorem mscLoop_inv (cfg : Cfg) (db : DB) (hi : InvP db) (ignore : Bool) : ∀ (ms done : List NewMsg) (acc : MscAcc),
    (∀ m ∈ ms, m.mboxes.contains cfg.recoveryRID = false ∧ ∀ b ∈ m.mboxes, ignore = true ∨ db.known b = true) →
    TcInv db done acc.toCreate → FmInv db done acc.toCreate (fun _ => done.length) acc.forMbox →
    FmComplete db done acc.forMbox →
    ∃ acc', mscLoop cfg db ignore acc ms = .ok acc' ∧ TcInv db (done ++ ms) acc'.toCreate ∧
      FmInv db (done ++ ms) acc'.toCreate (fun _ => (done ++ ms).length) acc'.forMbox ∧
      FmComplete db (done ++ ms) acc'.forMbox := by
  intro ms
  induction ms with
  | nil =>
    intro done acc _ h1 h2 h3
    refine ⟨acc, rfl, ?_, ?_, ?_⟩ <;> simpa using ‹_›
  | cons m ms ih =>
    intro done acc hms h1 h2 h3
    obtain ⟨acc1, hs, t1, t2, t3⟩ := mscStep_inv cfg db hi ignore done acc m (hms m (List.mem_cons_self)) h1 h2 h3
    obtain ⟨acc', hl, u1, u2, u3⟩ := ih (done ++ [m]) acc1 (fun m' hm' => hms m' (List.mem_cons_of_mem _ hm')) t1 t2 t3
    have e : done ++ [m] ++ ms = done ++ m :: ms := by simp
    rw [e] at u1 u2 u3
    exact ⟨acc', by simp only [mscLoop, hs, hl], u1, u2, u3⟩

theorem tcInv_nil (db : DB) : TcInv db [] [] where
  fresh := by intro c hc; cases hc
  live := by intro c hc; cases hc
  iidLo := by intro c hc; cases hc
  iidHi := by intro c hc; cases hc
  rid := rfl
  iid := rfl
  flags := by intro c hc; cases hc
  complete := by intro m hm; cases hm

theorem fmInv_nil (db : DB) : FmInv db [] [] (fun _ => ([] : List NewMsg).length) [] where
  nodup := List.nodup_nil
  mbox := by intro k hk; cases hk
  sound := by intro k p hp; simp [pairsOf] at hp
  pairNd := by intro k; rfl
  len := by intro k; simp [pairsOf]

end Gluon.ConnUpd
