/- `SameView`: a responder acts on a snapshot that shows the mailbox exactly as the change acts on the
   mailbox (C02, `change_step`). -/
import GluonModel.Lemmas.ConvergeStep

namespace Gluon

theorem SameView.nil : SameView [] [] := trivial

theorem SameView.cons_iff {x : SMsg} {s : Snap} {m : VMsg} {v : View} :
    SameView (x :: s) (m :: v) ↔ MsgMatch x m ∧ SameView s v := Iff.rfl

theorem SameView.ids_eq {s : Snap} {v : View} (h : SameView s v) : s.ids = v.ids := by
  induction s generalizing v with
  | nil => cases v with
    | nil => rfl
    | cons m v => exact absurd h (by simp [SameView])
  | cons x s ih => cases v with
    | nil => exact absurd h (by simp [SameView])
    | cons m v =>
      obtain ⟨h1, h2⟩ := h
      simp only [Snap.ids, View.ids, List.map_cons] at ih ⊢
      rw [h1.1, ih h2]

theorem SameView.uids_eq {s : Snap} {v : View} (h : SameView s v) : s.uids = v.uids := by
  induction s generalizing v with
  | nil => cases v with
    | nil => rfl
    | cons m v => exact absurd h (by simp [SameView])
  | cons x s ih => cases v with
    | nil => exact absurd h (by simp [SameView])
    | cons m v =>
      obtain ⟨h1, h2⟩ := h
      simp only [Snap.uids, View.uids, List.map_cons] at ih ⊢
      rw [h1.2.1, ih h2]

theorem SameView.length_eq {s : Snap} {v : View} (h : SameView s v) : s.length = v.length := by
  have := congrArg List.length h.ids_eq
  simpa [Snap.ids, View.ids] using this

theorem SameView.inv {s : Snap} {v : View} (h : SameView s v) (hwf : v.Wf) : Snap.Inv s :=
  ⟨by rw [h.uids_eq]; exact hwf.asc, by rw [h.ids_eq]; exact hwf.nodup⟩

theorem SameView.append {s1 s2 : Snap} {v1 v2 : View} (h1 : SameView s1 v1) (h2 : SameView s2 v2) :
    SameView (s1 ++ s2) (v1 ++ v2) := by
  induction s1 generalizing v1 with
  | nil => cases v1 with
    | nil => simpa using h2
    | cons m v => exact absurd h1 (by simp [SameView])
  | cons x s ih => cases v1 with
    | nil => exact absurd h1 (by simp [SameView])
    | cons m v => exact ⟨h1.1, ih h1.2⟩

theorem SameView.eraseP {s : Snap} {v : View} (h : SameView s v) (id : MsgId) :
    SameView (s.eraseP (·.id == id)) (v.eraseP (·.id == id)) := by
  induction s generalizing v with
  | nil => cases v with
    | nil => exact trivial
    | cons m v => exact absurd h (by simp [SameView])
  | cons x s ih => cases v with
    | nil => exact absurd h (by simp [SameView])
    | cons m v =>
      obtain ⟨h1, h2⟩ := h
      simp only [List.eraseP_cons, h1.1]
      by_cases hm : (m.id == id) = true
      · simpa [hm] using h2
      · simp only [hm]
        exact ⟨h1, ih h2⟩

theorem SameView.map {s : Snap} {v : View} (h : SameView s v) (G : SMsg → SMsg) (H : VMsg → VMsg)
    (hGH : ∀ x m, MsgMatch x m → MsgMatch (G x) (H m)) : SameView (s.map G) (v.map H) := by
  induction s generalizing v with
  | nil => cases v with
    | nil => exact trivial
    | cons m v => exact absurd h (by simp [SameView])
  | cons x s ih => cases v with
    | nil => exact absurd h (by simp [SameView])
    | cons m v => exact ⟨hGH x m h.1, ih h.2⟩

/-- position-wise reading of `SameView` -/
theorem sameView_iff_getElem {s : Snap} {v : View} :
    SameView s v ↔ s.length = v.length ∧ ∀ (i : Nat) (x : SMsg) (m : VMsg), s[i]? = some x → v[i]? = some m → MsgMatch x m := by
  induction s generalizing v with
  | nil => cases v with
    | nil => simp [SameView]
    | cons m v => simp [SameView]
  | cons x s ih => cases v with
    | nil => simp [SameView]
    | cons m v =>
      simp only [SameView.cons_iff, ih, List.length_cons, Nat.add_right_cancel_iff]
      constructor
      · rintro ⟨h1, hl, h2⟩
        refine ⟨hl, ?_⟩
        intro i y n hy hn
        cases i with
        | zero => simp at hy hn; subst hy hn; exact h1
        | succ i => simp at hy hn; exact h2 i y n hy hn
      · rintro ⟨hl, h⟩
        exact ⟨h 0 x m (by simp) (by simp), hl, fun i y n hy hn => h (i + 1) y n (by simpa using hy) (by simpa using hn)⟩

/-- with distinct ids, the message found for an id is the only one with that id -/
theorem Snap.look_unique {s : Snap} (hnd : s.ids.Nodup) {x : SMsg} (hx : x ∈ s) : s.look x.id = some x := by
  induction s with
  | nil => cases hx
  | cons a t ih =>
    simp only [Snap.ids, List.map_cons, List.nodup_cons] at hnd
    rcases List.mem_cons.mp hx with rfl | hx
    · simp [Snap.look]
    · have : a.id ≠ x.id := fun h => hnd.1 (h ▸ List.mem_map_of_mem hx)
      have hb : (a.id == x.id) = false := by simpa using this
      simp only [Snap.look, List.find?_cons, hb]
      exact ih hnd.2 hx

/-- what a FETCH responder does to one snapshot entry -/
def fetchUpd (op : FlagOp) (fl : Flags) (other : Bool) (x : SMsg) : SMsg :=
  let n := newFlags x.flags op fl other
  let f := if x.flags.contains Flags.recent then Flags.add1 n Flags.recent else n
  { x with flags := f, toExpunge := f.contains Flags.deleted }

/-- under the snapshot invariant a FETCH responder is a map over the snapshot -/
theorem snapStep_fetch_map {s : Snap} (hinv : Snap.Inv s) (sid : StateId) (id : MsgId) (fl : Flags) (op : FlagOp)
    (a b other : Bool) :
    snapStep sid s (.fetch id fl op a b other) =
      .ok (s.map fun x => if x.id == id then fetchUpd op fl other x else x) := by
  simp only [snapStep]
  congr 1
  cases hl : s.look id with
  | none =>
    have hno := Snap.look_eq_none_iff.mp hl
    simp only [Snap.has, List.any_eq_false] at hno
    symm
    calc s.map (fun x => if x.id == id then fetchUpd op fl other x else x) = s.map (fun x => x) := by
          apply List.map_congr_left
          intro x hx
          simp [hno x hx]
      _ = s := List.map_id' s
  | some m =>
    simp only [Snap.setFlags]
    apply List.map_congr_left
    intro x hx
    by_cases hxi : (x.id == id) = true
    · have hxe : x.id = id := by simpa using hxi
      have := Snap.look_unique hinv.nodup hx
      rw [hxe, hl] at this
      simp only [Option.some.injEq] at this
      subst this
      simp [hxi, fetchUpd]
    · simp [hxi]

theorem MsgMatch.fetchUpd {x : SMsg} {m : VMsg} (h : MsgMatch x m) (id : MsgId) (op : FlagOp) (fl : Flags)
    (other : Bool) :
    MsgMatch (if x.id == id then Gluon.fetchUpd op fl other x else x)
      (if m.id == id then { m with flags := Flags.remove1 (newFlags m.flags op fl other) Flags.recent } else m) := by
  obtain ⟨h1, h2, h3⟩ := h
  rw [h1]
  by_cases hm : (m.id == id) = true
  · simp only [hm, if_true]
    refine ⟨h1, h2, ?_⟩
    simp only [Gluon.fetchUpd]
    have hn := FlagsEq.newFlags h3 op fl other
    have hv := (FlagsEq.remove1_recent (newFlags m.flags op fl other)).symm
    split
    · exact (FlagsEq.add1_recent _).trans (hn.trans hv)
    · exact hn.trans hv
  · simp only [hm, Bool.false_eq_true, if_false]
    exact ⟨h1, h2, h3⟩

theorem exFlags_eq (sid t : StateId) (fl : Flags) : FlagsEq (exFlags sid t fl) fl := by
  simp only [exFlags]
  split
  · exact FlagsEq.remove1_recent fl
  · exact FlagsEq.refl fl

/-- an EXISTS whose message is new and whose UID is above the snapshot appends at the end, whoever
    created it -/
theorem snapStep_exists_at_end {s : Snap} (sid : StateId) (id : MsgId) (uid : UID) (fl : Flags) (t : StateId)
    (o : Option StateId) (hno : s.has id = false) (hlt : ∀ x ∈ s, x.uid < uid) :
    snapStep sid s (.exists id uid fl t o) = .ok (s ++ [Snap.mkMsg id uid (exFlags sid t fl)]) := by
  simp only [snapStep, hno, Bool.false_eq_true, if_false]
  split
  · simp only [Snap.insert]
    split
    · next l hl =>
      have := hlt l (List.mem_of_getLast? hl)
      have hge : ¬ l.uid ≥ uid := by omega
      simp [hge]
    · rfl
  · exact Snap.insertOutOfOrder_at_end hlt

/-- **One change, one responder**: on a snapshot that shows the mailbox `v`, the responder of an
    admissible change does not fail and produces a snapshot that shows `v.apply c`. -/
theorem snapStep_sameView {s : Snap} {v : View} (h : SameView s v) (hwf : v.Wf) (sid : StateId)
    (c : Change) (r : Responder) (hadm : c.AdmissibleV v) (hr : RespOf c r) :
    ∃ s', snapStep sid s r = .ok s' ∧ SameView s' (v.apply c) := by
  have hinv := h.inv hwf
  cases c with
  | add id uid fl =>
    cases r with
    | «exists» id' uid' fl' t o =>
      obtain ⟨rfl, rfl, hfl⟩ := hr
      obtain ⟨hlt, hnin⟩ := hadm
      have hno : s.has id' = false := by
        rw [Snap.not_has_iff, h.ids_eq]; exact hnin
      have hlt' : ∀ x ∈ s, x.uid < uid' := by
        intro x hx
        have : x.uid ∈ v.uids := by rw [← h.uids_eq]; exact List.mem_map_of_mem hx
        obtain ⟨m, hm, hmu⟩ := List.mem_map.mp this
        rw [← hmu]; exact hlt m hm
      refine ⟨_, snapStep_exists_at_end sid id' uid' fl' t o hno hlt', ?_⟩
      simp only [View.apply]
      refine SameView.append h ⟨⟨rfl, rfl, ?_⟩, trivial⟩
      simp only [Snap.mkMsg]
      exact (exFlags_eq sid t fl').trans (hfl.trans (FlagsEq.remove1_recent fl).symm)
    | expunge _ => exact absurd hr (by simp [RespOf])
    | fetch _ _ _ _ _ _ => exact absurd hr (by simp [RespOf])
  | remove id =>
    cases r with
    | expunge id' =>
      have : id' = id := hr
      subst this
      exact ⟨_, rfl, h.eraseP id'⟩
    | «exists» _ _ _ _ _ => exact absurd hr (by simp [RespOf])
    | fetch _ _ _ _ _ _ => exact absurd hr (by simp [RespOf])
  | setFlags id op fl other =>
    cases r with
    | fetch id' fl' op' a b other' =>
      obtain ⟨rfl, rfl, rfl, rfl⟩ := hr
      refine ⟨_, snapStep_fetch_map hinv sid id' fl' op' a b other', ?_⟩
      simp only [View.apply]
      exact h.map _ _ (fun x m hxm => hxm.fetchUpd id' op' fl' other')
    | «exists» _ _ _ _ _ => exact absurd hr (by simp [RespOf])
    | expunge _ => exact absurd hr (by simp [RespOf])

/-! ### the mailbox invariant is kept by admissible changes -/

theorem View.mem_apply_uid {v : View} {c : Change} {m : VMsg} (hm : m ∈ v.apply c) :
    (∃ m' ∈ v, m'.uid = m.uid ∧ m'.id = m.id) ∨ (∃ id fl, c = .add id m.uid fl ∧ m.id = id) := by
  cases c with
  | add id uid fl =>
    simp only [View.apply, List.mem_append, List.mem_singleton] at hm
    rcases hm with hm | rfl
    · exact Or.inl ⟨m, hm, rfl, rfl⟩
    · exact Or.inr ⟨id, fl, rfl, rfl⟩
  | remove id => exact Or.inl ⟨m, List.mem_of_mem_eraseP hm, rfl, rfl⟩
  | setFlags id op fl other =>
    simp only [View.apply, List.mem_map] at hm
    obtain ⟨m', hm', rfl⟩ := hm
    refine Or.inl ⟨m', hm', ?_⟩
    split <;> simp

theorem View.wf_apply {v : View} (hwf : v.Wf) {c : Change} (hadm : c.AdmissibleV v) : (v.apply c).Wf := by
  cases c with
  | add id uid fl =>
    obtain ⟨hlt, hnin⟩ := hadm
    constructor
    · simp only [View.apply, View.uids, List.map_append, List.map_cons, List.map_nil, List.pairwise_append]
      refine ⟨hwf.asc, by simp, ?_⟩
      intro a ha b hb
      obtain ⟨m, hm, rfl⟩ := List.mem_map.mp ha
      simp only [List.mem_singleton] at hb
      subst hb
      exact hlt m hm
    · simp only [View.apply, View.ids, List.map_append, List.map_cons, List.map_nil, List.nodup_append]
      refine ⟨hwf.nodup, by simp, ?_⟩
      intro a ha b hb
      simp only [List.mem_singleton] at hb
      subst hb
      intro hab; subst hab
      exact hnin ha
  | remove id =>
    have hsub : (v.eraseP (·.id == id)).Sublist v := List.eraseP_sublist
    exact ⟨hwf.asc.sublist (hsub.map _), hwf.nodup.sublist (hsub.map _)⟩
  | setFlags id op fl other =>
    have hu : (v.apply (.setFlags id op fl other)).uids = v.uids := by
      simp only [View.apply, View.uids, List.map_map]
      apply List.map_congr_left
      intro m _
      simp only [Function.comp]
      split <;> rfl
    have hi : (v.apply (.setFlags id op fl other)).ids = v.ids := by
      simp only [View.apply, View.ids, List.map_map]
      apply List.map_congr_left
      intro m _
      simp only [Function.comp]
      split <;> rfl
    exact ⟨by rw [hu]; exact hwf.asc, by rw [hi]; exact hwf.nodup⟩

theorem Mbox.admissibleV {mb : Mbox} (hwf : mb.Wf) {c : Change} (h : mb.Admissible c) : c.AdmissibleV mb.view := by
  cases c with
  | add id uid fl =>
    exact ⟨fun m hm => Nat.lt_of_lt_of_le (hwf.below m hm) h.1, h.2⟩
  | remove id => trivial
  | setFlags _ _ _ _ => trivial

theorem Mbox.uidNext_mono (mb : Mbox) {c : Change} (h : mb.Admissible c) : mb.uidNext ≤ (mb.apply c).uidNext := by
  cases c with
  | add id uid fl => have := h.1; simp only [Mbox.apply]; omega
  | remove id => exact Nat.le_refl _
  | setFlags _ _ _ _ => exact Nat.le_refl _

theorem Mbox.wf_apply {mb : Mbox} (hwf : mb.Wf) {c : Change} (h : mb.Admissible c) : (mb.apply c).Wf := by
  refine ⟨View.wf_apply hwf.view (Mbox.admissibleV hwf h), ?_⟩
  intro m hm
  simp only [Mbox.apply] at hm
  rcases View.mem_apply_uid hm with ⟨m', hm', hu, _⟩ | ⟨id, fl, rfl, _⟩
  · rw [← hu]
    exact Nat.lt_of_lt_of_le (hwf.below m' hm') (Mbox.uidNext_mono mb h)
  · simp [Mbox.apply]

end Gluon
