/- What a responder sends explains exactly what it did to the snapshot (C01). -/
import GluonModel.Lemmas.SnapInv
import GluonModel.Lemmas.MergeSound

namespace Gluon
open Mirror

theorem Flags.equals_refl (f : Flags) : Flags.equals f f = true := by
  simp [Flags.equals]

theorem Flags.equals_trans {a b c : Flags} (h1 : Flags.equals a b = true) (h2 : Flags.equals b c = true) :
    Flags.equals a c = true := by
  simp only [Flags.equals, Bool.and_eq_true, beq_iff_eq, List.all_eq_true, List.contains_iff_mem] at *
  exact ⟨h1.1.trans h2.1, fun x hx => h2.2 x (h1.2 x hx)⟩

/-- what the client knows about a position is true of the message there -/
def EntryOK (e : MEntry) (s : SMsg) : Prop :=
  (∀ u, e.uid = some u → u = s.uid) ∧ (∀ f, e.flags = some f → Flags.equals f s.flags = true)

/-- the client's reconstruction agrees with the snapshot the server answers from: same count,
    every learnt UID and flag set is the snapshot's, and the RECENT count never ran ahead -/
structure Agree (m : Mirror) (s : Snap) : Prop where
  len : m.msgs.length = s.length
  ok : ∀ (i : Nat) (e : MEntry) (x : SMsg), m.msgs[i]? = some e → s[i]? = some x → EntryOK e x
  recent : m.recentLB ≤ s.countFlag Flags.recent

namespace Snap

theorem get?_spec {s : Snap} {id : MsgId} {seq : Nat} {x : SMsg} (h : s.get? id = some (seq, x)) :
    1 ≤ seq ∧ s[seq - 1]? = some x ∧ x.id = id ∧ s.findIdx? (·.id == id) = some (seq - 1) := by
  simp only [get?] at h
  split at h
  · simp at h
  · next i hi =>
    split at h
    · simp at h
    · next m hm =>
      simp only [Option.some.injEq, Prod.mk.injEq] at h
      obtain ⟨rfl, rfl⟩ := h
      obtain ⟨hlt, hp, _⟩ := List.findIdx?_eq_some_iff_getElem.mp hi
      have : s[i] = m := by
        have := List.getElem?_eq_getElem hlt
        rw [this] at hm; simpa using hm
      refine ⟨by omega, by simpa using hm, ?_, by simpa using hi⟩
      rw [← this]; simpa using hp

theorem get?_none {s : Snap} {id : MsgId} (h : s.get? id = none) : s.has id = false := by
  simp only [get?] at h
  split at h
  · next hi =>
    simp only [List.findIdx?_eq_none_iff] at hi
    simp only [has, List.any_eq_false]
    intro x hx; simpa using hi x hx
  · next i hi =>
    obtain ⟨hlt, _, _⟩ := List.findIdx?_eq_some_iff_getElem.mp hi
    split at h
    · next hm => rw [List.getElem?_eq_getElem hlt] at hm; simp at hm
    · simp at h

/-- with distinct ids, the position of an id is unique -/
theorem idx_unique {s : Snap} (hnd : (ids s).Nodup) {i j : Nat} {x y : SMsg}
    (hi : s[i]? = some x) (hj : s[j]? = some y) (hid : x.id = y.id) : i = j := by
  have hil := (List.getElem?_eq_some_iff.mp hi).1
  have hjl := (List.getElem?_eq_some_iff.mp hj).1
  have hxi : s[i] = x := (List.getElem?_eq_some_iff.mp hi).2
  have hyj : s[j] = y := (List.getElem?_eq_some_iff.mp hj).2
  have h1 : (ids s)[i]'(by simpa [ids] using hil) = x.id := by simp [ids, hxi]
  have h2 : (ids s)[j]'(by simpa [ids] using hjl) = y.id := by simp [ids, hyj]
  exact (List.getElem_inj hnd).mp (by rw [h1, h2, hid])

theorem countFlag_append (s t : Snap) (f : Flag) : countFlag (s ++ t) f = countFlag s f + countFlag t f := by
  simp [countFlag, List.countP_append]

end Snap

/-- the (model of the) client's own knowledge after a `.SILENT` store: it no longer trusts the
    flags it had for that position (the server sends nothing) -/
def Mirror.forgetFlags (m : Mirror) (seq : Nat) : Mirror :=
  match m.msgs[seq - 1]? with
  | none => m
  | some e => { m with msgs := m.msgs.set (seq - 1) { e with flags := none } }

theorem Snap.countFlag_setFlags_ge (s : Snap) (id : MsgId) (fl : Flags) :
    Snap.countFlag s Flags.recent ≤ Snap.countFlag (s.setFlags id fl) Flags.recent := by
  simp only [Snap.countFlag, Snap.setFlags, List.countP_map]
  apply List.countP_mono_left
  intro a _ ha
  simp only [Function.comp]
  split
  · simp only [ha]
    simp only [Flags.add1]
    split <;> simp_all
  · exact ha

/-- EXISTS of a message placed at the end: the client's mirror follows -/
theorem handle_exists_explicable {m : Mirror} {snap : Snap} (hag : Agree m snap) (hinv : Snap.Inv snap)
    (id : MsgId) (uid : UID) (fl : Flags) (t : StateId) (o : Option StateId) (close : Bool) (sid : StateId)
    (hend : snap.has id = false → ∀ x ∈ snap, x.uid < uid)
    (herr : ((Responder.exists id uid fl t o).handle close sid snap).err = none) :
    ∃ m', m.applyAll ((Responder.exists id uid fl t o).handle close sid snap).out = some m' ∧
      Agree m' ((Responder.exists id uid fl t o).handle close sid snap).snap ∧
      Snap.Inv ((Responder.exists id uid fl t o).handle close sid snap).snap := by
  simp only [Responder.handle] at herr ⊢
  split
  · exact ⟨m, rfl, hag, hinv⟩
  · next hhas =>
    have hhas' : snap.has id = false := by simpa using hhas
    have hlt := hend hhas'
    simp only [hhas, Bool.false_eq_true, if_false] at herr
    generalize hfl : (if (t != sid) = true then Flags.remove1 fl Flags.recent else fl) = fl' at herr ⊢
    have hins : (if (o == some sid) = true then snap.insert id uid fl' else snap.insertOutOfOrder id uid fl')
        = .ok (snap ++ [Snap.mkMsg id uid fl']) := by
      split
      · simp only [Snap.insert]
        split
        · next l hl =>
          have hl' : l ∈ snap := List.mem_of_getLast? hl
          have := hlt l hl'
          have hge : ¬ l.uid ≥ uid := by omega
          simp [hge]
        · rfl
      · exact Snap.insertOutOfOrder_at_end hlt
    have hinv' : Snap.Inv (snap ++ [Snap.mkMsg id uid fl']) := by
      have hlt' : ∀ x ∈ snap, x.uid < (Snap.mkMsg id uid fl').uid := by simpa [Snap.mkMsg] using hlt
      rw [← Snap.ins_at_end hlt']
      exact ⟨Snap.uids_ins_pairwise hinv.asc (fun x hx => by have := hlt' x hx; omega),
             Snap.ids_ins_nodup hinv.nodup (by simpa [Snap.mkMsg] using Snap.not_has_iff.mp hhas')⟩
    rw [hins]
    simp only
    -- the mirror after EXISTS (len+1)
    have hex : m.apply (.exists (snap.length + 1)) =
        some { m with msgs := m.msgs ++ [{}] } := by
      refine apply_exists_iff.mpr ⟨by simp [hag.len], ?_⟩
      have : snap.length + 1 - m.msgs.length = 1 := by rw [hag.len]; omega
      simp [this]
    have hag1 : ∀ lb, lb ≤ Snap.countFlag (snap ++ [Snap.mkMsg id uid fl']) Flags.recent →
        Agree { msgs := m.msgs ++ [{}], recentLB := lb } (snap ++ [Snap.mkMsg id uid fl']) := by
      intro lb hlb
      refine ⟨by simp [hag.len], ?_, hlb⟩
      intro i e x he hx
      by_cases hi : i < snap.length
      · rw [List.getElem?_append_left (by rw [hag.len]; exact hi)] at he
        rw [List.getElem?_append_left hi] at hx
        exact hag.ok i e x he hx
      · have hi' : m.msgs.length ≤ i := by rw [hag.len]; omega
        rw [List.getElem?_append_right hi'] at he
        have : e = {} := by
          cases hk : i - m.msgs.length with
          | zero => simp [hk] at he; exact he.symm
          | succ k => simp [hk] at he
        subst this
        exact ⟨by simp, by simp⟩
    have hcnt : Snap.countFlag snap Flags.recent ≤ Snap.countFlag (snap ++ [Snap.mkMsg id uid fl']) Flags.recent := by
      rw [Snap.countFlag_append]; omega
    split
    · next hpos =>
      refine ⟨{ msgs := m.msgs ++ [{}], recentLB := Snap.countFlag (snap ++ [Snap.mkMsg id uid fl']) Flags.recent }, ?_,
        hag1 _ (Nat.le_refl _), hinv'⟩
      simp only [List.length_append, List.length_singleton, applyAll, hex]
      have : ({ m with msgs := m.msgs ++ [{}] } : Mirror).apply
          (.recent (Snap.countFlag (snap ++ [Snap.mkMsg id uid fl']) Flags.recent)) =
          some { msgs := m.msgs ++ [{}], recentLB := Snap.countFlag (snap ++ [Snap.mkMsg id uid fl']) Flags.recent } :=
        apply_recent_iff.mpr ⟨by have := hag.recent; simp only; omega, rfl⟩
      simp [this]
    · refine ⟨{ m with msgs := m.msgs ++ [{}] }, ?_, hag1 _ (by have := hag.recent; omega), hinv'⟩
      simp only [List.length_append, List.length_singleton, applyAll, hex]

theorem Snap.remove_of_get? {s : Snap} {id : MsgId} {seq : Nat} {x : SMsg} (h : s.get? id = some (seq, x)) :
    s.remove id = some (s.eraseIdx (seq - 1)) := by
  obtain ⟨_, _, _, hf⟩ := Snap.get?_spec h
  simp [Snap.remove, hf]

/-- EXPUNGE: outside a CLOSE context the removal is announced with the right sequence number -/
theorem handle_expunge_explicable {m : Mirror} {snap : Snap} (hag : Agree m snap) (hinv : Snap.Inv snap)
    (id : MsgId) (sid : StateId) :
    ∃ m', m.applyAll ((Responder.expunge id).handle false sid snap).out = some m' ∧
      Agree m' ((Responder.expunge id).handle false sid snap).snap ∧
      Snap.Inv ((Responder.expunge id).handle false sid snap).snap ∧
      ((Responder.expunge id).handle false sid snap).err = none := by
  simp only [Responder.handle]
  split
  · exact ⟨m, rfl, hag, hinv, rfl⟩
  · next seq x hget =>
    obtain ⟨hseq, hx, _, _⟩ := Snap.get?_spec hget
    rw [Snap.remove_of_get? hget]
    simp only [Bool.false_eq_true, if_false]
    have hlt : seq - 1 < snap.length := (List.getElem?_eq_some_iff.mp hx).1
    refine ⟨{ msgs := m.msgs.eraseIdx (seq - 1), recentLB := 0 }, ?_, ?_, Snap.inv_eraseIdx hinv _, trivial⟩
    · have : ¬ (seq = 0 ∨ m.msgs.length < seq) := by rw [hag.len]; omega
      simp [applyAll, apply, this]
    · refine ⟨?_, ?_, Nat.zero_le _⟩
      · rw [List.length_eraseIdx, List.length_eraseIdx, hag.len]
      · intro i e y he hy
        rw [List.getElem?_eraseIdx] at he hy
        split at he
        · next hi => simp only [hi, if_true] at hy; exact hag.ok i e y he hy
        · next hi => simp only [hi, if_false] at hy; exact hag.ok (i + 1) e y he hy

theorem Snap.getElem?_setFlags (s : Snap) (id : MsgId) (fl : Flags) (i : Nat) :
    (s.setFlags id fl)[i]? = (s[i]?).map (fun m =>
      if m.id == id then
        let f := if m.flags.contains Flags.recent then Flags.add1 fl Flags.recent else fl
        { m with flags := f, toExpunge := f.contains Flags.deleted }
      else m) := by
  simp [Snap.setFlags]

theorem Snap.get?_setFlags {s : Snap} {id : MsgId} {seq : Nat} {x : SMsg} (fl : Flags)
    (h : s.get? id = some (seq, x)) :
    ∃ x', (s.setFlags id fl).get? id = some (seq, x') ∧ x'.uid = x.uid ∧ (s.setFlags id fl)[seq - 1]? = some x' := by
  obtain ⟨hseq, hx, hid, hf⟩ := Snap.get?_spec h
  have hf' : (s.setFlags id fl).findIdx? (·.id == id) = some (seq - 1) := by
    simp only [Snap.setFlags, List.findIdx?_map]
    rw [← hf]
    congr 1
    funext m
    simp only [Function.comp]
    split <;> rfl
  have hx' := Snap.getElem?_setFlags s id fl (seq - 1)
  rw [hx] at hx'
  simp only [Option.map_some] at hx'
  refine ⟨_, ?_, ?_, hx'⟩
  · simp only [Snap.get?, hf', hx']
    congr 2
    omega
  · split <;> rfl

/-- FETCH: a flag change is announced with the snapshot's new flags (or, for the session's own
    `.SILENT` store, the client discards what it knew about that message's flags) -/
theorem handle_fetch_explicable {m : Mirror} {snap : Snap} (hag : Agree m snap) (hinv : Snap.Inv snap)
    (id : MsgId) (fl : Flags) (op : FlagOp) (asUID asSilent other close : Bool) (sid : StateId) :
    let h := (Responder.fetch id fl op asUID asSilent other).handle close sid snap
    let m0 := if asSilent then (match snap.get? id with | some (seq, _) => m.forgetFlags seq | none => m) else m
    ∃ m', m0.applyAll h.out = some m' ∧ Agree m' h.snap ∧ Snap.Inv h.snap ∧ h.err = none := by
  intro h m0
  cases hget : snap.get? id with
  | none =>
    simp only [h, m0, Responder.handle, hget]
    refine ⟨m, ?_, hag, hinv, trivial⟩
    cases asSilent <;> simp [applyAll]
  | some p =>
    obtain ⟨seq, x⟩ := p
    obtain ⟨hseq, hx, hid, hf⟩ := Snap.get?_spec hget
    simp only [h, m0, Responder.handle, hget]
    generalize hnew : (if other = true then
        Flags.set (match op with
          | .add => Flags.add x.flags fl
          | .rem => Flags.remove x.flags fl
          | .set => Flags.norm fl) Flags.deleted (x.flags.contains Flags.deleted)
      else (match op with
          | .add => Flags.add x.flags fl
          | .rem => Flags.remove x.flags fl
          | .set => Flags.norm fl)) = new1
    obtain ⟨x', hget', huid', hx'⟩ := Snap.get?_setFlags new1 hget
    simp only [hget']
    have hinv' := Snap.inv_setFlags hinv id new1
    have hlen' : (snap.setFlags id new1).length = snap.length := by simp [Snap.setFlags]
    have hrec' : ∀ lb, lb ≤ Snap.countFlag snap Flags.recent → lb ≤ Snap.countFlag (snap.setFlags id new1) Flags.recent :=
      fun lb h => Nat.le_trans h (Snap.countFlag_setFlags_ge snap id new1)
    -- positions other than seq-1 are untouched
    have hother : ∀ i y, i ≠ seq - 1 → (snap.setFlags id new1)[i]? = some y → snap[i]? = some y := by
      intro i y hi hy
      rw [Snap.getElem?_setFlags] at hy
      cases hsi : snap[i]? with
      | none => simp [hsi] at hy
      | some z =>
        simp only [hsi, Option.map_some, Option.some.injEq] at hy
        by_cases hz : (z.id == id) = true
        · exfalso
          have : z.id = x.id := by rw [hid]; simpa using hz
          exact hi (Snap.idx_unique hinv.nodup hsi hx this)
        · simp only [hz] at hy
          rw [← hy]; simp
    have hlt : seq - 1 < m.msgs.length := by rw [hag.len]; exact (List.getElem?_eq_some_iff.mp hx).1
    obtain ⟨e, he⟩ : ∃ e, m.msgs[seq - 1]? = some e := ⟨_, List.getElem?_eq_getElem hlt⟩
    have hek := hag.ok _ e x he hx
    -- agreement when the client's entry for the position is replaced by `e'`
    have hagree : ∀ (e' : MEntry), EntryOK e' x' →
        Agree { m with msgs := m.msgs.set (seq - 1) e' } (snap.setFlags id new1) := by
      intro e' hok
      refine ⟨by simp [hag.len, hlen'], ?_, hrec' _ hag.recent⟩
      intro i e2 y he2 hy
      by_cases hi : i = seq - 1
      · subst hi
        rw [List.getElem?_set_self hlt] at he2
        rw [hx'] at hy
        simp only [Option.some.injEq] at he2 hy
        subst he2 hy
        exact hok
      · rw [List.getElem?_set_ne (Ne.symm hi)] at he2
        exact hag.ok i e2 y he2 (hother i y hi hy)
    cases asSilent with
    | true =>
      simp only [if_true]
      -- silent: nothing is sent; the client has dropped its flag knowledge for the position
      have hm0 : (m.forgetFlags seq) = { m with msgs := m.msgs.set (seq - 1) { e with flags := none } } := by
        simp only [Mirror.forgetFlags, he]
      have hag0 : Agree (m.forgetFlags seq) (snap.setFlags id new1) := by
        rw [hm0]
        exact hagree _ ⟨fun u hu => by rw [huid']; exact hek.1 u hu, by simp⟩
      split
      · exact ⟨_, rfl, hag0, hinv', rfl⟩
      · exact ⟨_, rfl, hag0, hinv', rfl⟩
    | false =>
      simp only [Bool.false_eq_true, if_false]
      split
      · next heq =>
        -- flags unchanged as a set: nothing sent, what the client knew stays true
        refine ⟨m, rfl, ?_, hinv', rfl⟩
        have := hagree e ⟨fun u hu => by rw [huid']; exact hek.1 u hu,
          fun f hf => Flags.equals_trans (hek.2 f hf) heq⟩
        have hset : m.msgs.set (seq - 1) e = m.msgs := by
          apply List.ext_getElem?
          intro i
          by_cases hi : i = seq - 1
          · subst hi; rw [List.getElem?_set_self hlt, he]
          · rw [List.getElem?_set_ne (Ne.symm hi)]
        rw [hset] at this
        exact this
      · -- FETCH seq (FLAGS new [UID uid])
        have hs0 : seq ≠ 0 := by omega
        have hlearn : e.learn (some x'.flags) (if asUID = true then some x'.uid else none) =
            some { uid := (if asUID = true then some x'.uid else none).or e.uid, flags := some x'.flags } := by
          simp only [MEntry.learn]
          cases hau : asUID with
          | false => simp
          | true =>
            cases heu : e.uid with
            | none => simp
            | some u0 =>
              have : u0 = x'.uid := by rw [huid']; exact hek.1 u0 heu
              simp [this]
        refine ⟨{ m with msgs := m.msgs.set (seq - 1) ⟨(if asUID = true then some x'.uid else none).or e.uid, some x'.flags⟩ },
          ?_, hagree _ ?_, hinv', rfl⟩
        · simp only [applyAll]
          rw [apply_fetch_mk hs0 he hlearn]
        · refine ⟨?_, fun f hf => by simp at hf; subst hf; exact Flags.equals_refl _⟩
          intro u hu
          cases hau : asUID with
          | true => simp [hau] at hu; exact hu.symm
          | false =>
            simp [hau] at hu
            rw [huid']; exact hek.1 u hu

/-- every responder keeps the snapshot invariant (any context, any UID placement, error or not) -/
theorem handle_inv (r : Responder) (close : Bool) (sid : StateId) {snap : Snap} (hinv : Snap.Inv snap) :
    Snap.Inv (r.handle close sid snap).snap := by
  cases r with
  | «exists» id uid fl t o =>
    simp only [Responder.handle]
    split
    · exact hinv
    · next hhas =>
      have hhas' : snap.has id = false := by simpa using hhas
      split
      · exact hinv
      · next snap' hins =>
        have : Snap.Inv snap' := by
          split at hins
          · exact Snap.inv_insert hinv hhas' hins
          · exact Snap.inv_insertOutOfOrder hinv hhas' hins
        split <;> exact this
  | expunge id =>
    simp only [Responder.handle]
    split
    · exact hinv
    · split
      · exact hinv
      · next snap' hr => split <;> exact Snap.inv_remove hinv hr
  | fetch id fl op a b c =>
    simp only [Responder.handle]
    split
    · exact hinv
    · split
      · exact Snap.inv_setFlags hinv _ _
      · split
        · exact Snap.inv_setFlags hinv _ _
        · split <;> exact Snap.inv_setFlags hinv _ _

theorem handleAll_inv (close : Bool) (sid : StateId) (rs : List Responder) {snap : Snap} (hinv : Snap.Inv snap) :
    Snap.Inv (handleAll close sid snap rs).1 := by
  induction rs generalizing snap with
  | nil => exact hinv
  | cons r rs ih =>
    simp only [handleAll]
    split
    · exact handle_inv r close sid hinv
    · exact ih (handle_inv r close sid hinv)

/-- the message a queued EXISTS adds goes to the end of the snapshot (its UID is above all others) -/
def ExistsAtEnd (r : Responder) (snap : Snap) : Prop :=
  match r with
  | .exists id uid _ _ _ => snap.has id = false → ∀ x ∈ snap, x.uid < uid
  | _ => True

/-- one responder, outside CLOSE, not a `.SILENT` fetch, adding at the end: what it sends leads the
    client's mirror to the new snapshot -/
theorem handle_explicable_core {m : Mirror} {snap : Snap} (hag : Agree m snap) (hinv : Snap.Inv snap)
    (r : Responder) (sid : StateId) (hend : ExistsAtEnd r snap) (hsil : r.isSilent = false)
    (herr : (r.handle false sid snap).err = none) :
    ∃ m', m.applyAll (r.handle false sid snap).out = some m' ∧ Agree m' (r.handle false sid snap).snap := by
  cases r with
  | «exists» id uid fl t o =>
    obtain ⟨m', h1, h2, _⟩ := handle_exists_explicable hag hinv id uid fl t o false sid hend herr
    exact ⟨m', h1, h2⟩
  | expunge id =>
    obtain ⟨m', h1, h2, _⟩ := handle_expunge_explicable hag hinv id sid
    exact ⟨m', h1, h2⟩
  | fetch id fl op a b c =>
    have hb : b = false := by simpa [Responder.isSilent] using hsil
    subst hb
    obtain ⟨m', h1, h2, _⟩ := handle_fetch_explicable hag hinv id fl op a false c false sid
    exact ⟨m', by simpa using h1, h2⟩

/-- `ExistsAtEnd` along the whole popped queue, each responder judged against the snapshot it meets -/
def AllAtEnd (close : Bool) (sid : StateId) : Snap → List Responder → Prop
  | _, [] => True
  | snap, r :: rs => ExistsAtEnd r snap ∧ AllAtEnd close sid (r.handle close sid snap).snap rs

theorem handleAll_explicable {m : Mirror} {snap : Snap} (hag : Agree m snap) (hinv : Snap.Inv snap)
    (sid : StateId) (rs : List Responder) (hend : AllAtEnd false sid snap rs)
    (hsil : ∀ r ∈ rs, r.isSilent = false) (herr : (handleAll false sid snap rs).2.2.2 = none) :
    ∃ m', m.applyAll (handleAll false sid snap rs).2.1 = some m' ∧ Agree m' (handleAll false sid snap rs).1 := by
  induction rs generalizing m snap with
  | nil => exact ⟨m, rfl, hag⟩
  | cons r rs ih =>
    simp only [handleAll] at herr ⊢
    obtain ⟨he1, he2⟩ := hend
    cases hre : (r.handle false sid snap).err with
    | some e => simp [hre] at herr
    | none =>
      simp only [hre] at herr ⊢
      obtain ⟨m1, hm1, hag1⟩ := handle_explicable_core hag hinv r sid he1 (hsil r List.mem_cons_self) hre
      obtain ⟨m2, hm2, hag2⟩ := ih hag1 (handle_inv r false sid hinv) he2
        (fun x hx => hsil x (List.mem_cons_of_mem _ hx)) herr
      refine ⟨m2, ?_, hag2⟩
      rw [applyAll_append, hm1]
      exact hm2

end Gluon
