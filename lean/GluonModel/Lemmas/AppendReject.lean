/-
Helper lemmas for C20, part 9: a rejected APPEND and the recovery mailbox.
-/
import GluonModel.Lemmas.AppendOk
import GluonModel.Spec.AppendSpec

namespace Gluon.Append

/-- a rejected APPEND: `AppendRegular` failed (not for size) in `s1`, then the recovery transaction ran -/
theorem append_rejected_cases {H : Nat → Nat} {s s' : St} {n : String} {l : Lit} {e : Err} {known : Bool}
    (h : append H s n l = (.rejected e known, s')) :
    n ≠ recName ∧ e ≠ .size ∧ ∃ x, appendRegular s n l = (.error e, x) ∧
      (withTx x (fun s => actionCreateRecovered H s l)).2 = s' ∧
      ((withTx x (fun s => actionCreateRecovered H s l)).1 = .ok known ∨
        (known = false ∧ ∃ e2, (withTx x (fun s => actionCreateRecovered H s l)).1 = .error e2)) := by
  unfold append at h
  split at h
  · simp at h
  · next hrn =>
    have hn : n ≠ recName := ne_recName_of_not_isRecName (by simpa using hrn)
    split at h
    · simp at h
    · split at h
      · simp at h
      · split at h
        · simp at h
        · next e1 s1 h1 =>
          split at h
          · simp at h
          · next hsz =>
            split at h
            · next k s2 h2 =>
              simp at h
              obtain ⟨⟨ha, hb⟩, hc⟩ := h
              subst ha hb hc
              exact ⟨hn, by simpa using hsz, s1, h1, by rw [h2], Or.inl (by rw [h2])⟩
            · next e2 s2 h2 =>
              simp at h
              obtain ⟨⟨ha, hb⟩, hc⟩ := h
              subst ha hb hc
              exact ⟨hn, by simpa using hsz, s1, h1, by rw [h2], Or.inr ⟨rfl, e2, by rw [h2]⟩⟩

theorem mem_recLits {s : St} {l : Lit} : l ∈ recLits s ↔ ∃ p ∈ recMsgs s, s.store.lookup p.2 = some l := by
  simp [recLits, List.mem_filterMap]

theorem inRecovery_iff {s : St} {l : Lit} : inRecovery s l = true ↔ ∃ p ∈ recMsgs s, s.store.lookup p.2 = some l := by
  simp [inRecovery, List.any_eq_true]

/-- the partial form: a message with the same content hash is in the recovery mailbox afterwards -/
theorem reject_recovered_partial {H : Nat → Nat} {s s' : St} {n : String} {l : Lit} {e : Err} {known : Bool}
    (hr : RecInv H s) (h : append H s n l = (.rejected e known, s')) (hd : Digestible l)
    (hs : s'.staleHash = false) :
    ∃ l', inRecovery s' l' = true ∧ H l'.hv = H l.hv ∧ (l' = l ∨ l' ∈ recLits s) := by
  obtain ⟨hn, _, x, hx, hs', _⟩ := append_rejected_cases h
  have hf := appendRegular_frame s n l hn
  rw [hx] at hf
  simp only at hf
  have hx' : RecInv H x := RecInv.frame hf hr
  have sp := createRecovered_spec H x l
  rw [hs'] at sp
  rcases sp.cases with ⟨_, _, c3, c4, c5⟩ | ⟨_, ⟨u, c2⟩, c3, _, _⟩ | ⟨_, _, _, _, _, _, c6⟩
  · rcases c5 with ⟨_, _, _, hk⟩ | ⟨_, hbad⟩
    · obtain ⟨i, hi⟩ := hx'.map.range1 _ hk
      obtain ⟨u, l', h1, h2, _, h4⟩ := hx'.hashed (by rw [← c4]; exact hs) i _ hi
      refine ⟨l', ?_, h4, Or.inr ?_⟩
      · rw [inRecovery_iff]
        refine ⟨(u, i), by rw [c3]; exact h1, ?_⟩
        rw [sp.store i (hx'.fresh _ h1)]; exact h2
      · rw [mem_recLits]
        refine ⟨(u, i), by rw [← hf.recm]; exact h1, ?_⟩
        have : i < s.nextId := hr.fresh (u, i) (by rw [← hf.recm]; exact h1)
        rw [← hf.store i this]; exact h2
    · rcases hbad with hb | hb
      · rw [hd.1] at hb; simp at hb
      · rw [hd.2] at hb; simp at hb
  · refine ⟨l, ?_, rfl, Or.inl rfl⟩
    rw [inRecovery_iff]
    exact ⟨(u, x.nextId), by rw [c2]; simp, c3⟩
  · rw [c6] at hs; simp at hs

/-- a rejected message whose hash cannot be computed: `actionCreateRecoveredMessage` ignores the
    error of `MessageHashesMap.Insert` and stores the message anyway — it is in the recovery mailbox
    afterwards, byte for byte, unless the recovery insert's own store / database write failed -/
theorem reject_unhashable {H : Nat → Nat} {s s' : St} {n : String} {l : Lit} {e : Err} {known : Bool}
    (h : append H s n l = (.rejected e known, s')) (hp : l.parseOk = true) (hh : l.hashOk = false) :
    known = false ∧ (inRecovery s' l = true ∨
      ∃ x e2, appendRegular s n l = (.error e, x) ∧ (withTx x (fun s => actionCreateRecovered H s l)).1 = .error e2) := by
  obtain ⟨_, _, x, hx, hs', hk⟩ := append_rejected_cases h
  have sp := createRecovered_spec H x l
  rcases sp.cases with ⟨_, _, _, _, c5⟩ | ⟨c1, ⟨u, c2⟩, c3, _, _⟩ | ⟨_, c2, _⟩
  · rcases c5 with ⟨_, _, c, _⟩ | ⟨⟨e2, he2⟩, _⟩
    · rw [hh] at c; simp at c
    · refine ⟨?_, Or.inr ⟨x, e2, hx, he2⟩⟩
      rcases hk with hk | ⟨hk, _⟩
      · rw [he2] at hk; simp at hk
      · exact hk
  · refine ⟨?_, Or.inl ?_⟩
    · rcases hk with hk | ⟨hk, _⟩
      · rw [c1] at hk; simp at hk; exact hk
      · exact hk
    · rw [inRecovery_iff, ← hs']
      exact ⟨(u, x.nextId), by rw [c2]; simp, c3⟩
  · rw [hh] at c2; simp at c2

theorem nodup_map_inj {α β} (f : α → β) : ∀ (l : List α), (l.map f).Nodup → ∀ a ∈ l, ∀ b ∈ l, f a = f b → a = b := by
  intro l
  induction l with
  | nil => intro _ a ha; simp at ha
  | cons x r ih =>
    intro hnd a ha b hb hab
    simp only [List.map_cons, List.nodup_cons] at hnd
    rcases List.mem_cons.mp ha with rfl | ha' <;> rcases List.mem_cons.mp hb with rfl | hb'
    · rfl
    · exact absurd (hab ▸ List.mem_map_of_mem hb') hnd.1
    · exact absurd (hab ▸ List.mem_map_of_mem ha') hnd.1
    · exact ih hnd.2 a ha' b hb' hab

/-- at most once per content hash -/
theorem recovery_once_per_hash {H : Nat → Nat} {s : St} (hr : RecInv H s) (hl : s.lostHash = false)
    (p q : Nat × Nat) (hp : p ∈ recMsgs s) (hq : q ∈ recMsgs s) (lp lq : Lit)
    (h1 : s.store.lookup p.2 = some lp) (h2 : s.store.lookup q.2 = some lq) (o1 : lp.hashOk = true) (o2 : lq.hashOk = true)
    (e : H lp.hv = H lq.hv) : p = q := by
  have a := hr.covered hl p hp lp h1 o1
  have b := hr.covered hl q hq lq h2 o2
  rw [e] at a
  exact nodup_map_inj _ _ hr.nodup p hp q hq (hr.map.inj _ _ _ a b)

end Gluon.Append
