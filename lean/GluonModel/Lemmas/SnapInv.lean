/- The snapshot invariant (`Snap.Inv`: UIDs strictly ascending, ids distinct) is preserved by every
   snapshot operation, and what lookups mean under it. -/
import GluonModel.Model.Responder

namespace Gluon
namespace Snap

theorem inv_nil : Snap.Inv ([] : Snap) := ⟨by simp [uids], by simp [ids]⟩

theorem uids_setFlags (s : Snap) (id : MsgId) (fl : Flags) : uids (s.setFlags id fl) = uids s := by
  simp only [uids, setFlags, List.map_map]
  apply List.map_congr_left
  intro m _
  simp only [Function.comp]
  split <;> rfl

theorem ids_setFlags (s : Snap) (id : MsgId) (fl : Flags) : ids (s.setFlags id fl) = ids s := by
  simp only [ids, setFlags, List.map_map]
  apply List.map_congr_left
  intro m _
  simp only [Function.comp]
  split <;> rfl

theorem inv_setFlags {s : Snap} (h : Snap.Inv s) (id : MsgId) (fl : Flags) : Snap.Inv (s.setFlags id fl) :=
  ⟨by rw [uids_setFlags]; exact h.asc, by rw [ids_setFlags]; exact h.nodup⟩

theorem inv_eraseIdx {s : Snap} (h : Snap.Inv s) (i : Nat) : Snap.Inv (s.eraseIdx i) := by
  have hsub : (s.eraseIdx i).Sublist s := List.eraseIdx_sublist s i
  exact ⟨h.asc.sublist (hsub.map _), h.nodup.sublist (hsub.map _)⟩

theorem inv_remove {s s' : Snap} (h : Snap.Inv s) {id : MsgId} (hr : s.remove id = some s') : Snap.Inv s' := by
  simp only [remove] at hr
  split at hr
  · simp at hr
  · simp at hr; subst hr; exact inv_eraseIdx h _

theorem not_has_iff {s : Snap} {id : MsgId} : s.has id = false ↔ id ∉ ids s := by
  simp [has, ids]

/-- sorted insertion, the recursive reading of `take lb ++ [m] ++ drop lb` -/
def ins (m : SMsg) : Snap → Snap
  | [] => [m]
  | a :: t => if a.uid < m.uid then a :: ins m t else m :: a :: t

theorem take_drop_eq_ins (m : SMsg) (s : Snap) :
    s.take (lowerBound s m.uid) ++ [m] ++ s.drop (lowerBound s m.uid) = ins m s := by
  induction s with
  | nil => simp [lowerBound, ins]
  | cons a t ih =>
    simp only [lowerBound, List.takeWhile_cons, ins]
    by_cases h : a.uid < m.uid
    · simp only [h, decide_true, if_true, List.length_cons, List.take_succ_cons, List.drop_succ_cons,
        List.cons_append]
      simp only [lowerBound] at ih
      rw [ih]
    · simp [h]

theorem mem_ins {m x : SMsg} {s : Snap} : x ∈ ins m s ↔ x = m ∨ x ∈ s := by
  induction s with
  | nil => simp [ins]
  | cons a t ih =>
    simp only [ins]
    split
    · simp only [List.mem_cons, ih]; grind
    · simp only [List.mem_cons]

theorem uids_ins_pairwise {m : SMsg} {s : Snap} (h : (uids s).Pairwise (· < ·)) (hne : ∀ x ∈ s, x.uid ≠ m.uid) :
    (uids (ins m s)).Pairwise (· < ·) := by
  induction s with
  | nil => simp [ins, uids]
  | cons a t ih =>
    simp only [uids, List.map_cons, List.pairwise_cons] at h
    have hne' : ∀ x ∈ t, x.uid ≠ m.uid := fun x hx => hne x (List.mem_cons_of_mem _ hx)
    have hat : a.uid ≠ m.uid := hne a List.mem_cons_self
    simp only [ins]
    split
    · next hlt =>
      simp only [uids, List.map_cons, List.pairwise_cons]
      refine ⟨?_, ih h.2 hne'⟩
      intro b hb
      obtain ⟨x, hx, rfl⟩ := List.mem_map.mp hb
      rcases mem_ins.mp hx with rfl | hx
      · exact hlt
      · exact h.1 x.uid (List.mem_map_of_mem hx)
    · next hge =>
      have hlt : m.uid < a.uid := by omega
      simp only [uids, List.map_cons, List.pairwise_cons]
      refine ⟨?_, h.1, h.2⟩
      intro b hb
      rcases List.mem_cons.mp hb with rfl | hb
      · exact hlt
      · have := h.1 b hb
        omega

theorem ids_ins_nodup {m : SMsg} {s : Snap} (h : (ids s).Nodup) (hid : m.id ∉ ids s) : (ids (ins m s)).Nodup := by
  induction s with
  | nil => simp [ins, ids]
  | cons a t ih =>
    simp only [ids, List.map_cons, List.nodup_cons, List.mem_cons, not_or] at h hid
    simp only [ins]
    split
    · simp only [ids, List.map_cons, List.nodup_cons]
      refine ⟨?_, ih h.2 hid.2⟩
      intro hmem
      obtain ⟨x, hx, hxe⟩ := List.mem_map.mp hmem
      rcases mem_ins.mp hx with rfl | hx
      · exact hid.1 hxe
      · exact h.1 (hxe ▸ List.mem_map_of_mem hx)
    · simp only [ids, List.map_cons, List.nodup_cons, List.mem_cons, not_or]
      exact ⟨⟨hid.1, hid.2⟩, h.1, h.2⟩

theorem insertOutOfOrder_ok {s s' : Snap} {id uid fl} (hi : s.insertOutOfOrder id uid fl = .ok s') :
    s' = ins (mkMsg id uid fl) s ∧ ∀ x ∈ s, x.uid ≠ uid := by
  simp only [insertOutOfOrder] at hi
  split at hi
  · simp at hi
  · next hno =>
    simp only [Except.ok.injEq] at hi
    subst hi
    refine ⟨?_, ?_⟩
    · have := take_drop_eq_ins (mkMsg id uid fl) s
      simpa [mkMsg] using this
    · intro x hx
      simp at hno
      exact hno x hx

theorem inv_insertOutOfOrder {s s' : Snap} (h : Snap.Inv s) {id uid fl} (hid : s.has id = false)
    (hi : s.insertOutOfOrder id uid fl = .ok s') : Snap.Inv s' := by
  obtain ⟨rfl, hne⟩ := insertOutOfOrder_ok hi
  exact ⟨uids_ins_pairwise h.asc (by simpa [mkMsg] using hne),
         ids_ins_nodup h.nodup (by simpa [mkMsg] using not_has_iff.mp hid)⟩

theorem ins_at_end {m : SMsg} {s : Snap} (h : ∀ x ∈ s, x.uid < m.uid) : ins m s = s ++ [m] := by
  induction s with
  | nil => simp [ins]
  | cons a t ih =>
    have ha : a.uid < m.uid := h a List.mem_cons_self
    simp only [ins, ha, if_true, List.cons_append]
    rw [ih (fun x hx => h x (List.mem_cons_of_mem _ hx))]

/-- in an ascending list, everything is below a UID that is above the last element -/
theorem all_lt_of_last {s : Snap} (hasc : (uids s).Pairwise (· < ·)) {l : SMsg} (hl : s.getLast? = some l)
    {uid : UID} (h : l.uid < uid) : ∀ x ∈ s, x.uid < uid := by
  intro x hx
  obtain ⟨pre, rfl⟩ : ∃ pre, s = pre ++ [l] := List.getLast?_eq_some_iff.mp hl
  simp only [uids, List.map_append, List.map_cons, List.map_nil, List.pairwise_append] at hasc
  rcases List.mem_append.mp hx with hx | hx
  · have := hasc.2.2 x.uid (List.mem_map_of_mem hx) l.uid (by simp)
    omega
  · simp only [List.mem_singleton] at hx; subst hx; exact h

theorem insert_ok {s s' : Snap} (hasc : (uids s).Pairwise (· < ·)) {id uid fl} (hi : s.insert id uid fl = .ok s') :
    s' = s ++ [mkMsg id uid fl] ∧ ∀ x ∈ s, x.uid < uid := by
  simp only [insert] at hi
  split at hi
  · next l hl =>
    split at hi
    · simp at hi
    · next hge =>
      simp only [Except.ok.injEq] at hi
      exact ⟨hi.symm, all_lt_of_last hasc hl (by omega)⟩
  · next hl =>
    simp only [Except.ok.injEq] at hi
    have : s = [] := by simpa using hl
    subst this
    exact ⟨hi.symm, by simp⟩

theorem inv_insert {s s' : Snap} (h : Snap.Inv s) {id uid fl} (hid : s.has id = false)
    (hi : s.insert id uid fl = .ok s') : Snap.Inv s' := by
  obtain ⟨rfl, hlt⟩ := insert_ok h.asc hi
  have hlt' : ∀ x ∈ s, x.uid < (mkMsg id uid fl).uid := by simpa [mkMsg] using hlt
  rw [← ins_at_end hlt']
  exact ⟨uids_ins_pairwise h.asc (fun x hx => by have := hlt' x hx; omega),
         ids_ins_nodup h.nodup (by simpa [mkMsg] using not_has_iff.mp hid)⟩

theorem insertOutOfOrder_at_end {s : Snap} {id uid fl} (h : ∀ x ∈ s, x.uid < uid) :
    s.insertOutOfOrder id uid fl = .ok (s ++ [mkMsg id uid fl]) := by
  simp only [insertOutOfOrder]
  have hno : (s.any fun x => x.uid == uid) = false := by
    simp only [List.any_eq_false, beq_iff_eq]
    intro x hx
    have := h x hx
    omega
  simp only [hno, Bool.false_eq_true, if_false]
  have h' : ∀ x ∈ s, x.uid < (mkMsg id uid fl).uid := by simpa [mkMsg] using h
  have := take_drop_eq_ins (mkMsg id uid fl) s
  simp only [mkMsg] at this h' ⊢
  rw [this, ins_at_end h']

end Snap
end Gluon
