/- Lemmas for C12 `paramlist_wellformed`: the reader inverts the writer. -/
import GluonModel.Model.ParamList

namespace Gluon.Mime

/-- the text that follows starts with a delimiter (or is empty) -/
def DelimStart (r : Bytes) : Prop :=
  r = [] ∨ ∃ c cs, r = c :: cs ∧ (c = SP ∨ c = LP ∨ c = RP ∨ c = DQ)

/-- no delimiter inside -/
def IsWord (w : Bytes) : Prop := ∀ c ∈ w, c ≠ SP ∧ c ≠ LP ∧ c ≠ RP ∧ c ≠ DQ

theorem lex_idle_sp (r : Bytes) : lex .idle (SP :: r) = lex .idle r := by
  simp [lex]

theorem lex_atom_delim (a r : Bytes) (h : DelimStart r) :
    lex (.atom a) r = (lex .idle r).map (Tok.atom a.reverse :: ·) := by
  rcases h with rfl | ⟨c, cs, rfl, hc⟩
  · simp [lex]
  · rcases hc with rfl | rfl | rfl | rfl
    · simp [lex]
    · simp [lex, LP, SP, Option.map_map, Function.comp_def]
    · simp [lex, LP, RP, SP, Option.map_map, Function.comp_def]
    · simp [lex, LP, RP, SP, DQ]

theorem lex_idle_lp (r : Bytes) : lex .idle (LP :: r) = (lex .idle r).map (Tok.lp :: ·) := by
  simp [lex, LP, SP]

theorem lex_idle_rp (r : Bytes) : lex .idle (RP :: r) = (lex .idle r).map (Tok.rp :: ·) := by
  simp [lex, LP, RP, SP]

theorem lex_idle_dq (r : Bytes) : lex .idle (DQ :: r) = lex (.str [] false) r := by
  simp [lex, LP, RP, SP, DQ]

theorem lex_atom_word (w : Bytes) : ∀ (a r : Bytes), IsWord w →
    lex (.atom a) (w ++ r) = lex (.atom (w.reverse ++ a)) r := by
  induction w with
  | nil => intro a r _; simp
  | cons c w ih =>
    intro a r hw
    have hc := hw c (by simp)
    have hw' : IsWord w := fun x hx => hw x (by simp [hx])
    obtain ⟨h1, h2, h3, h4⟩ := hc
    simp only [List.cons_append, lex]
    simp only [beq_iff_eq, h1, h2, h3, h4, if_false]
    rw [ih _ _ hw']
    simp

theorem lex_idle_word (c : UInt8) (w r : Bytes) (hw : IsWord (c :: w)) (hb : c ≠ LBR)
    (hr : DelimStart r) :
    lex .idle (c :: w ++ r) = (lex .idle r).map (Tok.atom (c :: w) :: ·) := by
  obtain ⟨h1, h2, h3, h4⟩ := hw c (by simp)
  have hw' : IsWord w := fun x hx => hw x (by simp [hx])
  simp only [List.cons_append, lex]
  simp only [beq_iff_eq, h1, h2, h3, h4, hb, if_false]
  rw [lex_atom_word w _ _ hw', lex_atom_delim _ _ hr]
  simp

theorem lex_str_body (body : Bytes) : ∀ (a : Bytes) (esc : Bool) (r : Bytes),
    strBodyOK esc body = true →
    lex (.str a esc) (body ++ DQ :: r) = (lex .idle r).map (Tok.str (a.reverse ++ body) :: ·) := by
  induction body with
  | nil =>
    intro a esc r h
    cases esc
    · simp [lex, DQ, BSL]
    · simp [strBodyOK] at h
  | cons c body ih =>
    intro a esc r h
    cases esc
    · simp only [strBodyOK] at h
      simp only [List.cons_append, lex, Bool.false_eq_true, if_false]
      by_cases hb : c = BSL
      · simp only [hb, beq_self_eq_true, if_true] at h ⊢
        rw [ih _ _ _ h]; simp
      · have hb' : (c == BSL) = false := by simpa using hb
        simp only [hb', Bool.false_eq_true, if_false] at h ⊢
        by_cases hq : c = DQ
        · simp [hq] at h
        · have hq' : (c == DQ) = false := by simpa using hq
          simp only [hq', Bool.false_eq_true, if_false] at h ⊢
          rw [ih _ _ _ h]; simp
    · simp only [strBodyOK] at h
      simp only [List.cons_append, lex, if_true]
      rw [ih _ _ _ h]; simp

/-- shape of an accepted quoted string -/
theorem quotedOK_decomp (b : Bytes) (h : quotedOK b = true) :
    b = DQ :: (unq b ++ [DQ]) ∧ strBodyOK false (unq b) = true := by
  simp only [quotedOK, Bool.and_eq_true, decide_eq_true_eq, beq_iff_eq] at h
  obtain ⟨⟨⟨hlen, hh⟩, hl⟩, hb⟩ := h
  refine ⟨?_, hb⟩
  match b, hlen, hh, hl with
  | c :: t, hlen, hh, hl =>
    simp only [List.head?_cons, Option.some.injEq] at hh
    subst hh
    have ht : t ≠ [] := by
      intro h0; subst h0; simp at hlen
    have hl' : t.getLast? = some DQ := by
      rw [List.getLast?_cons_of_ne_nil ht] at hl
      exact hl
    simp only [unq, List.drop_succ_cons, List.drop_zero]
    congr 1
    obtain ⟨ys, rfl⟩ := List.getLast?_eq_some_iff.mp hl'
    simp

theorem lex_idle_quoted (b r : Bytes) (h : quotedOK b = true) :
    lex .idle (b ++ r) = (lex .idle r).map (Tok.str (unq b) :: ·) := by
  obtain ⟨hd, hb⟩ := quotedOK_decomp b h
  generalize unq b = body at hd hb
  subst hd
  have : (DQ :: (body ++ [DQ])) ++ r = DQ :: (body ++ DQ :: r) := by simp
  rw [this, lex_idle_dq]
  have := lex_str_body body [] false r hb
  simpa using this

/-! ### digits -/

theorem isDigit_ofNat (k : Nat) (h : k < 10) : isDigit (UInt8.ofNat (48 + k)) = true := by
  have : (UInt8.ofNat (48 + k)).toNat = 48 + k := by
    rw [UInt8.toNat_ofNat']
    omega
  simp only [isDigit, this, Bool.and_eq_true, decide_eq_true_eq]
  omega

theorem natDigitsAux_digits (fuel : Nat) : ∀ (n : Nat) (acc : Bytes), (∀ c ∈ acc, isDigit c = true) →
    ∀ c ∈ natDigitsAux fuel n acc, isDigit c = true := by
  induction fuel with
  | zero => intro n acc h; simpa [natDigitsAux] using h
  | succ f ih =>
    intro n acc h
    simp only [natDigitsAux]
    have hacc : ∀ c ∈ UInt8.ofNat (48 + n % 10) :: acc, isDigit c = true := by
      intro c hc
      rcases List.mem_cons.mp hc with rfl | hc
      · exact isDigit_ofNat _ (Nat.mod_lt _ (by omega))
      · exact h c hc
    split
    · exact hacc
    · exact ih _ _ hacc

theorem natDigitsAux_ne_nil (fuel : Nat) (n : Nat) (acc : Bytes) (h : acc ≠ [] ∨ fuel ≠ 0) :
    natDigitsAux fuel n acc ≠ [] := by
  induction fuel generalizing n acc with
  | zero => simpa [natDigitsAux] using h
  | succ f ih =>
    simp only [natDigitsAux]
    split
    · simp
    · exact ih _ _ (Or.inl (by simp))

theorem natDigits_digits (n : Nat) : ∀ c ∈ natDigits n, isDigit c = true :=
  natDigitsAux_digits _ _ _ (by simp)

theorem natDigits_ne_nil (n : Nat) : natDigits n ≠ [] :=
  natDigitsAux_ne_nil _ _ _ (Or.inr (by omega))

theorem isDigit_not_special (c : UInt8) (h : isDigit c = true) :
    c ≠ SP ∧ c ≠ LP ∧ c ≠ RP ∧ c ≠ DQ ∧ c ≠ LBR ∧ c ≠ 78 := by
  simp only [isDigit, Bool.and_eq_true, decide_eq_true_eq] at h
  refine ⟨?_, ?_, ?_, ?_, ?_, ?_⟩ <;> (intro hc; subst hc; revert h; decide)

theorem lex_idle_digits (n : Nat) (r : Bytes) (hr : DelimStart r) :
    lex .idle (natDigits n ++ r) = (lex .idle r).map (Tok.atom (natDigits n) :: ·) := by
  have hd := natDigits_digits n
  have hne := natDigits_ne_nil n
  match hm : natDigits n with
  | [] => exact absurd hm hne
  | c :: w =>
    rw [hm] at hd
    have hw : IsWord (c :: w) := fun x hx =>
      let h := isDigit_not_special x (hd x hx); ⟨h.1, h.2.1, h.2.2.1, h.2.2.2.1⟩
    exact lex_idle_word c w r hw (isDigit_not_special c (hd c (by simp))).2.2.2.2.1 hr

theorem lex_idle_NIL (r : Bytes) (hr : DelimStart r) :
    lex .idle (NIL ++ r) = (lex .idle r).map (Tok.atom NIL :: ·) := by
  have hw : IsWord NIL := by
    intro c hc
    simp only [NIL, List.mem_cons, List.not_mem_nil, or_false] at hc
    rcases hc with rfl | rfl | rfl <;> decide
  exact lex_idle_word 78 [73, 76] r hw (by decide) hr

theorem classify_NIL : classify NIL = Sexp.nil := by simp [classify]

theorem classify_digits (n : Nat) : classify (natDigits n) = Sexp.num (natDigits n) := by
  have hd := natDigits_digits n
  have hne := natDigits_ne_nil n
  have h1 : (natDigits n == NIL) = false := by
    match hm : natDigits n with
    | [] => exact absurd hm hne
    | c :: w =>
      rw [hm] at hd
      have := (isDigit_not_special c (hd c (by simp))).2.2.2.2.2
      simp [NIL, this]
  have h2 : (natDigits n).all isDigit = true := by simpa using hd
  simp [classify, h1, h2]

/-! ### tokens of a call tree -/

mutual
  def Call.toks (q : Bytes → Bytes) (hide : Bool) : Call → List Tok
    | .str ext v =>
      if vis hide ext then [if v.length = 0 then Tok.atom NIL else Tok.str (unq (q v))] else []
    | .num ext n => if vis hide ext then [Tok.atom (natDigits n)] else []
    | .sp _ => []
    | .onWrite _ => []
    | .child ext body => if vis hide ext then [Tok.lp] ++ Call.toksList q hide body ++ [Tok.rp] else []
  def Call.toksList (q : Bytes → Bytes) (hide : Bool) : List Call → List Tok
    | [] => []
    | c :: cs => Call.toks q hide c ++ Call.toksList q hide cs
end

theorem delimStart_cons_sp (r : Bytes) : DelimStart (SP :: r) := Or.inr ⟨SP, r, rfl, Or.inl rfl⟩
theorem delimStart_cons_lp (r : Bytes) : DelimStart (LP :: r) := Or.inr ⟨LP, r, rfl, Or.inr (Or.inl rfl)⟩
theorem delimStart_cons_rp (r : Bytes) : DelimStart (RP :: r) :=
  Or.inr ⟨RP, r, rfl, Or.inr (Or.inr (Or.inl rfl))⟩

/-- after any call the list is no longer at its first item, so what follows starts with a
    separator, a parenthesis, or is the rest -/
theorem delimStart_writeList_false (q : Bytes → Bytes) (hide : Bool) (cs : List Call) (r : Bytes)
    (hr : DelimStart r) : DelimStart (Call.writeList q hide false cs ++ r) := by
  induction cs with
  | nil => simpa [Call.writeList] using hr
  | cons c cs ih =>
    have hn : c.nextFirst false = false := by cases c <;> rfl
    simp only [Call.writeList, hn]
    cases c with
    | str ext v =>
      simp only [Call.write]; split
      · simp only [sep, Bool.false_eq_true, if_false, List.append_assoc, List.cons_append, List.nil_append]
        exact delimStart_cons_sp _
      · simpa using ih
    | num ext n =>
      simp only [Call.write]; split
      · simp only [sep, Bool.false_eq_true, if_false, List.append_assoc, List.cons_append, List.nil_append]
        exact delimStart_cons_sp _
      · simpa using ih
    | sp ext =>
      simp only [Call.write]; split
      · simp only [List.cons_append, List.nil_append]; exact delimStart_cons_sp _
      · simpa using ih
    | onWrite ext =>
      simp only [Call.write]; split
      · simp only [sep, Bool.false_eq_true, if_false, List.cons_append, List.nil_append]
        exact delimStart_cons_sp _
      · simpa using ih
    | child ext body =>
      simp only [Call.write]; split
      · simp only [List.append_assoc, List.cons_append, List.nil_append]; exact delimStart_cons_lp _
      · simpa using ih

theorem lex_idle_sep (first : Bool) (r : Bytes) : lex .idle (sep first ++ r) = lex .idle r := by
  cases first <;> simp [sep, lex_idle_sp]

mutual
  theorem lex_write_call (q : Bytes → Bytes) (hq : QuoteOK q) (hide : Bool) :
      (c : Call) → (first : Bool) → (r : Bytes) → (c.nextFirst first = false → DelimStart r) →
      lex .idle (c.write q hide first ++ r) = (lex .idle r).map (c.toks q hide ++ ·)
    | .str ext v, first, r, h => by
      have hr := h rfl
      simp only [Call.write, Call.toks]
      split
      · rw [List.append_assoc, lex_idle_sep]
        split
        · rw [lex_idle_NIL _ hr]; simp
        · rw [lex_idle_quoted _ _ (hq v)]; simp
      · simp
    | .num ext n, first, r, h => by
      have hr := h rfl
      simp only [Call.write, Call.toks]
      split
      · rw [List.append_assoc, lex_idle_sep, lex_idle_digits _ _ hr]; simp
      · simp
    | .sp ext, first, r, _ => by
      simp only [Call.write, Call.toks]
      split
      · simp [lex_idle_sp]
      · simp
    | .onWrite ext, first, r, _ => by
      simp only [Call.write, Call.toks]
      split
      · simp [lex_idle_sep]
      · simp
    | .child ext body, first, r, _ => by
      simp only [Call.write, Call.toks]
      split
      · have ih := lex_write_list q hq hide body true (RP :: r) (delimStart_cons_rp r)
        have e : [LP] ++ Call.writeList q hide true body ++ [RP] ++ r
            = LP :: (Call.writeList q hide true body ++ RP :: r) := by simp
        rw [e, lex_idle_lp, ih, lex_idle_rp]
        simp [Option.map_map, Function.comp_def]
      · simp
  theorem lex_write_list (q : Bytes → Bytes) (hq : QuoteOK q) (hide : Bool) :
      (cs : List Call) → (first : Bool) → (r : Bytes) → DelimStart r →
      lex .idle (Call.writeList q hide first cs ++ r) = (lex .idle r).map (Call.toksList q hide cs ++ ·)
    | [], first, r, _ => by simp [Call.writeList, Call.toksList]
    | c :: cs, first, r, hr => by
      simp only [Call.writeList, Call.toksList, List.append_assoc]
      rw [lex_write_call q hq hide c first _ (fun hf => by
        rw [hf]; exact delimStart_writeList_false q hide cs r hr)]
      rw [lex_write_list q hq hide cs _ r hr]
      simp [Option.map_map, Function.comp_def]
end

mutual
  theorem parseToks_call (q : Bytes → Bytes) (hide : Bool) :
      (c : Call) → (st : List (List Sexp)) → (cur : List Sexp) → (ts : List Tok) →
      parseToks st cur (c.toks q hide ++ ts) = parseToks st ((c.shape q hide).reverse ++ cur) ts
    | .str ext v, st, cur, ts => by
      simp only [Call.toks, Call.shape]
      split
      · split <;> simp [parseToks, classify_NIL]
      · simp
    | .num ext n, st, cur, ts => by
      simp only [Call.toks, Call.shape]
      split
      · simp [parseToks, classify_digits]
      · simp
    | .sp ext, st, cur, ts => by simp [Call.toks, Call.shape]
    | .onWrite ext, st, cur, ts => by simp [Call.toks, Call.shape]
    | .child ext body, st, cur, ts => by
      simp only [Call.toks, Call.shape]
      split
      · have ih := parseToks_list q hide body (cur :: st) [] (Tok.rp :: ts)
        simp only [List.append_assoc, List.cons_append, List.nil_append, parseToks]
        rw [ih]
        simp [parseToks]
      · simp
  theorem parseToks_list (q : Bytes → Bytes) (hide : Bool) :
      (cs : List Call) → (st : List (List Sexp)) → (cur : List Sexp) → (ts : List Tok) →
      parseToks st cur (Call.toksList q hide cs ++ ts)
        = parseToks st ((Call.shapeList q hide cs).reverse ++ cur) ts
    | [], st, cur, ts => by simp [Call.toksList, Call.shapeList]
    | c :: cs, st, cur, ts => by
      simp only [Call.toksList, Call.shapeList, List.append_assoc]
      rw [parseToks_call q hide c, parseToks_list q hide cs]
      simp
end

/-- the reader inverts the writer, for either output and any initial `firstItem` -/
theorem parseSexp_writeList (q : Bytes → Bytes) (hq : QuoteOK q) (hide first : Bool) (cs : List Call) :
    parseSexp (Call.writeList q hide first cs) = some (Call.shapeList q hide cs) := by
  have h1 := lex_write_list q hq hide cs first [] (Or.inl rfl)
  have h2 := parseToks_list q hide cs [] [] []
  simp only [List.append_nil] at h1 h2
  simp [parseSexp, h1, lex, h2, parseToks]

/-! ### a concrete quoting function meeting `QuoteOK` (non-vacuity of the hypothesis) -/

/-- a quoting function that backslash-escapes `"` and `\` -/
def escQ : Bytes → Bytes
  | [] => []
  | c :: cs => if c == DQ || c == BSL then BSL :: c :: escQ cs else c :: escQ cs

def exampleQuote (v : Bytes) : Bytes := DQ :: (escQ v ++ [DQ])

theorem escQ_ok (v : Bytes) : strBodyOK false (escQ v) = true := by
  induction v with
  | nil => rfl
  | cons c cs ih =>
    simp only [escQ]
    split
    · next h =>
      simp only [strBodyOK, beq_self_eq_true, if_true]
      exact ih
    · next h =>
      simp only [Bool.or_eq_true, not_or, Bool.not_eq_true] at h
      simp only [strBodyOK, h.1, h.2, Bool.false_eq_true, if_false]
      exact ih

end Gluon.Mime
