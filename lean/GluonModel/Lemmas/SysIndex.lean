/- Basic facts about the index of the system model: reading a mailbox / a message's flags after a write. -/
import GluonModel.Lemmas.SysApply

namespace Gluon.Sys
open Gluon

namespace Index

@[simp] theorem length_setBox (idx : Index) (mb : Nat) (b : Box) : (idx.setBox mb b).boxes.length = idx.boxes.length := by
  simp [setBox]

theorem box_setBox_same {idx : Index} {mb : Nat} (h : mb < idx.boxes.length) (b : Box) : (idx.setBox mb b).box mb = b := by
  simp [box, setBox, List.getElem?_set, h]

theorem box_setBox_other {idx : Index} {mb mb' : Nat} (h : mb' ≠ mb) (b : Box) : (idx.setBox mb b).box mb' = idx.box mb' := by
  simp [box, setBox, List.getElem?_set, Ne.symm h]

theorem box_setBox (idx : Index) (mb mb' : Nat) (b : Box) :
    (idx.setBox mb b).box mb' = if mb' = mb ∧ mb < idx.boxes.length then b else idx.box mb' := by
  by_cases h : mb' = mb
  · subst h
    by_cases hl : mb' < idx.boxes.length
    · simp [hl, box_setBox_same hl]
    · simp only [hl, and_false, if_false]
      simp [box, setBox, List.getElem?_set, hl]
  · simp [h, box_setBox_other h]

@[simp] theorem msgFlags_setBox (idx : Index) (mb : Nat) (b : Box) (id : MsgId) : (idx.setBox mb b).msgFlags id = idx.msgFlags id := rfl

@[simp] theorem nextId_setBox (idx : Index) (mb : Nat) (b : Box) : (idx.setBox mb b).nextId = idx.nextId := rfl

@[simp] theorem box_mapMsgFlags (idx : Index) (ids : List MsgId) (f : Flags → Flags) (mb : Nat) :
    (idx.mapMsgFlags ids f).box mb = idx.box mb := rfl

@[simp] theorem boxes_mapMsgFlags (idx : Index) (ids : List MsgId) (f : Flags → Flags) :
    (idx.mapMsgFlags ids f).boxes = idx.boxes := rfl

@[simp] theorem nextId_mapMsgFlags (idx : Index) (ids : List MsgId) (f : Flags → Flags) :
    (idx.mapMsgFlags ids f).nextId = idx.nextId := rfl

theorem msgFlags_mapMsgFlags (idx : Index) (ids : List MsgId) (f : Flags → Flags) (id : MsgId) :
    (idx.mapMsgFlags ids f).msgFlags id = if ids.contains id then f (idx.msgFlags id) else idx.msgFlags id := by
  unfold mapMsgFlags msgFlags
  simp only
  induction ids with
  | nil => simp
  | cons a t ih =>
    simp only [List.map_cons, List.cons_append, List.find?_cons, List.contains_cons]
    by_cases h : a = id
    · subst h; simp
    · have h' : (a == id) = false := by simpa using h
      have h'' : (id == a) = false := by simpa using Ne.symm h
      simp only [h', h'', Bool.false_or]
      exact ih

@[simp] theorem box_setMsgFlags (idx : Index) (id : MsgId) (fl : Flags) (mb : Nat) : (idx.setMsgFlags id fl).box mb = idx.box mb := rfl

@[simp] theorem boxes_setMsgFlags (idx : Index) (id : MsgId) (fl : Flags) : (idx.setMsgFlags id fl).boxes = idx.boxes := rfl

@[simp] theorem nextId_setMsgFlags (idx : Index) (id : MsgId) (fl : Flags) : (idx.setMsgFlags id fl).nextId = idx.nextId := rfl

theorem msgFlags_setMsgFlags (idx : Index) (id : MsgId) (fl : Flags) (id' : MsgId) :
    (idx.setMsgFlags id fl).msgFlags id' = if id' = id then fl else idx.msgFlags id' := by
  unfold setMsgFlags msgFlags
  simp only [List.find?_cons]
  by_cases h : id = id'
  · subst h; simp
  · have h' : (id == id') = false := by simpa using h
    simp [h', Ne.symm h]

/-- the view only depends on the rows of the mailbox and the flag lists of the messages in it -/
theorem view_congr {idx idx' : Index} {mb : Nat} (hb : idx'.box mb = idx.box mb)
    (hf : ∀ r ∈ (idx.box mb).rows, idx'.msgFlags r.id = idx.msgFlags r.id) : idx'.view mb = idx.view mb := by
  unfold view
  rw [hb]
  apply List.map_congr_left
  intro r hr
  simp [rowFlags, hf r hr]

theorem mbox_congr {idx idx' : Index} {mb : Nat} (hb : idx'.box mb = idx.box mb)
    (hf : ∀ r ∈ (idx.box mb).rows, idx'.msgFlags r.id = idx.msgFlags r.id) : idx'.mbox mb = idx.mbox mb := by
  unfold mbox; rw [view_congr hb hf, hb]

theorem view_ids (idx : Index) (mb : Nat) : (idx.view mb).ids = (idx.box mb).rows.map (·.id) := by
  simp [view, View.ids, List.map_map, Function.comp_def]

theorem view_uids (idx : Index) (mb : Nat) : (idx.view mb).uids = (idx.box mb).rows.map (·.uid) := by
  simp [view, View.uids, List.map_map, Function.comp_def]

theorem box_has_iff (b : Box) (id : MsgId) : b.has id = true ↔ id ∈ b.rows.map (·.id) := by
  simp [Box.has]

theorem box_default (idx : Index) {mb : Nat} (h : idx.boxes.length ≤ mb) : idx.box mb = {} := by
  simp [box, List.getElem?_eq_none h]

end Index

theorem sameView_snapOf (v : View) : SameView (snapOf v) v := by
  induction v with
  | nil => trivial
  | cons a t ih => exact ⟨⟨rfl, rfl, FlagsEq.refl _⟩, ih⟩

end Gluon.Sys
