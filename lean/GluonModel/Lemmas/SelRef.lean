/-
Lemmas for `Theorems/C03Proto.lean`: the session layer `Model/SelState.lean` against the reference protocol state
`Spec/MailboxRefProto.lean`, on top of the action-level refinement `Lemmas/ActStepRef.lean`.
-/
import GluonModel.Model.SelState
import GluonModel.Spec.MailboxRefProto
import GluonModel.Lemmas.ActStepRef

namespace Gluon.C03
open Gluon.DB Gluon.Act

/-- the code's `(snap, ro)` and the reference's protocol state say the same: the same mailbox is open, and while one is
    open the read-only flag is the mode it was opened in (after CLOSE `state.ro` is stale and meaningless) -/
def ProtoRel (sess : Sel.Sess) (p : MailboxRef.Proto) : Prop :=
  sess.snap = p.selected ∧ (p.selected.isSome → sess.ro = p.readOnly)

/-- a command of the session layer as a command of the reference -/
def toRefS : Sel.Cmd → MailboxRef.SessCmd
  | .select n => .select n
  | .examine n => .examine n
  | .close msgs pending => .close ((Sel.notPending msgs pending).map (·.1))
  | .store msgs a fl => .store (msgs.map (·.1)) (storeOp a) fl
  | .expunge msgs pending => .expunge ((Sel.notPending msgs pending).map (·.1))
  | .copy dst msgs => .copy dst (msgs.map (·.1))
  | .move dst msgs => .move dst (msgs.map (·.1))

/-- the named hypotheses of the `_partial` theorems, per command (those of `StepOk`) -/
def SessOk : Sel.Cmd → Prop
  | .store _ _ fl => NoForward fl
  | _ => True

theorem sel_open_ok {s : State} {sess : Sel.Sess} {name : String} {ro : Bool}
    (h : (Sel.openMailbox s sess name ro).1 = .of .ok) :
    (Sel.openMailbox s sess name ro).2 = { snap := some name, ro := ro } ∧ (abs s).hasMailbox name = true := by
  unfold Sel.openMailbox at h ⊢
  cases hg : getMailboxByName s.db name with
  | error e => rw [hg] at h; cases e <;> simp at h
  | ok mbox =>
    obtain ⟨hrow, hname⟩ := getMailboxByName_ok hg
    simp only []
    refine ⟨by rw [hname], ?_⟩
    rw [← hname]; exact abs_hasMailbox s mbox hrow

theorem sel_open_failed {s : State} {sess : Sel.Sess} {name : String} {ro : Bool}
    (h : (Sel.openMailbox s sess name ro).1 ≠ .of .ok) : (Sel.openMailbox s sess name ro).2 = sess := by
  unfold Sel.openMailbox at h ⊢
  cases hg : getMailboxByName s.db name with
  | error e => cases e <;> rfl
  | ok mbox => rw [hg] at h; exact absurd rfl h

/-- COPY / MOVE answered OK: the destination exists -/
theorem sel_copy_ok_dst (E : Env) (s : State) (src dst : String) (msgs : Pairs) (q : Second)
    (h : (Act.step E s (.copy src dst msgs) q).1 = .ok) : (abs s).hasMailbox dst = true := by
  simp only [Act.step] at h
  cases hd : destination E s dst with
  | error a =>
    rw [hd] at h
    unfold destination at hd
    split at hd
    · cases hd; cases h
    · cases hg : getMailboxByName s.db dst with
      | error e => rw [hg] at hd; cases e <;> cases hd <;> cases h
      | ok m => rw [hg] at hd; cases hd
  | ok d => obtain ⟨hrow, hname⟩ := destination_ok hd; rw [← hname]; exact abs_hasMailbox s d hrow

theorem sel_move_ok_dst (E : Env) (s : State) (src dst : String) (msgs : Pairs) (q : Second)
    (h : (Act.step E s (.move src dst msgs) q).1 = .ok) : (abs s).hasMailbox dst = true := by
  simp only [Act.step] at h
  cases hd : destination E s dst with
  | error a =>
    rw [hd] at h
    unfold destination at hd
    split at hd
    · cases hd; cases h
    · cases hg : getMailboxByName s.db dst with
      | error e => rw [hg] at hd; cases e <;> cases hd <;> cases h
      | ok m => rw [hg] at hd; cases hd
  | ok d => obtain ⟨hrow, hname⟩ := destination_ok hd; rw [← hname]; exact abs_hasMailbox s d hrow


/-! ### the guarded handlers -/

theorem sel_guarded_ok {E : Env} {s : State} {sess : Sel.Sess} {q : Second} {c : String → Act.Cmd}
    (h : (Sel.guarded E s sess q c).1 = .of .ok) :
    ∃ mb, sess.snap = some mb ∧ sess.ro = false ∧ (Act.step E s (c mb) q).1 = .ok ∧
      (Sel.guarded E s sess q c).2 = (sess, (Act.step E s (c mb) q).2) := by
  unfold Sel.guarded Sel.selectedMailbox at h ⊢
  cases hs : sess.snap with
  | none => rw [hs] at h; cases h
  | some mb =>
    rw [hs] at h
    simp only [] at h ⊢
    cases hro : sess.ro with
    | true => rw [hro] at h; cases h
    | false =>
      rw [hro] at h
      simp only [Bool.false_eq_true, if_false] at h
      refine ⟨mb, rfl, rfl, by injection h, ?_⟩
      simp only [Bool.false_eq_true, if_false]

theorem sel_guarded_failed {E : Env} {s : State} {sess : Sel.Sess} {q : Second} {c : String → Act.Cmd}
    (h : (Sel.guarded E s sess q c).1 ≠ .of .ok) (h2 : (Sel.guarded E s sess q c).1 ≠ .of (.no .secondTx)) :
    (Sel.guarded E s sess q c).2 = (sess, s) := by
  unfold Sel.guarded Sel.selectedMailbox at h h2 ⊢
  cases hs : sess.snap with
  | none => rfl
  | some mb =>
    rw [hs] at h h2
    simp only [] at h h2 ⊢
    cases hro : sess.ro with
    | true => rfl
    | false =>
      rw [hro] at h h2
      simp only [Bool.false_eq_true, if_false] at h h2 ⊢
      have h' : (Act.step E s (c mb) q).1 ≠ .ok := fun e => h (by rw [e])
      have h2' : (Act.step E s (c mb) q).1 ≠ .no .secondTx := fun e => h2 (by rw [e])
      rw [step_unchanged E s (c mb) q h' h2']

/-- a read-only session: the guarded handlers refuse and change nothing -/
theorem sel_guarded_read_only {E : Env} {s : State} {sess : Sel.Sess} {q : Second} {c : String → Act.Cmd} {mb : String}
    (hs : sess.snap = some mb) (hro : sess.ro = true) : Sel.guarded E s sess q c = (.readOnly, sess, s) := by
  unfold Sel.guarded Sel.selectedMailbox
  rw [hs]; simp only []; rw [hro]; rfl

/-! ### one command answered OK is one step of the reference, in the reference's protocol state -/

theorem sess_step_ref (E : Env) (hE : EnvOk E) (s : State) (hG : Good E s) (sess : Sel.Sess) (p : MailboxRef.Proto)
    (hrel : ProtoRel sess p) (c : Sel.Cmd) (q : Second) (hc : SessOk c) (h : (Sel.step E s sess c q).1 = .of .ok) :
    MailboxRef.permits (abs s) p (toRefS c) = true ∧
      abs (Sel.step E s sess c q).2.2 = (MailboxRef.effect (abs s) p (toRefS c)).2 ∧
      ProtoRel (Sel.step E s sess c q).2.1 (MailboxRef.effect (abs s) p (toRefS c)).1 ∧
      Good E (Sel.step E s sess c q).2.2 := by
  obtain ⟨hsel, hmode⟩ := hrel
  cases c with
  | select n =>
    simp only [Sel.step] at h ⊢
    obtain ⟨h1, h2⟩ := sel_open_ok h
    rw [h1]
    exact ⟨h2, rfl, ⟨rfl, fun _ => rfl⟩, hG⟩
  | examine n =>
    simp only [Sel.step] at h ⊢
    obtain ⟨h1, h2⟩ := sel_open_ok h
    rw [h1]
    exact ⟨h2, rfl, ⟨rfl, fun _ => rfl⟩, hG⟩
  | store msgs a fl =>
    simp only [Sel.step] at h ⊢
    obtain ⟨mb, hs, hro, hok, heq⟩ := sel_guarded_ok h
    rw [heq]
    have hp : p.selected = some mb := by rw [← hsel, hs]
    have hpr : p.readOnly = false := by rw [← hmode (by rw [hp]; rfl), hro]
    obtain ⟨ha, hg⟩ := step_ref E hE s hG (.store mb msgs a fl) q hc hok
    refine ⟨by simp [MailboxRef.permits, toRefS, hp, hpr], ?_, ?_, hg⟩
    · simp only [toRefS, MailboxRef.effect, hp]
      exact ha
    · simp only [toRefS, MailboxRef.effect, hp]
      exact ⟨hsel, hmode⟩
  | expunge msgs pending =>
    simp only [Sel.step] at h ⊢
    obtain ⟨mb, hs, hro, hok, heq⟩ := sel_guarded_ok h
    rw [heq]
    have hp : p.selected = some mb := by rw [← hsel, hs]
    have hpr : p.readOnly = false := by rw [← hmode (by rw [hp]; rfl), hro]
    obtain ⟨ha, hg⟩ := step_ref E hE s hG (.expunge mb (Sel.notPending msgs pending)) q trivial hok
    refine ⟨by simp [MailboxRef.permits, toRefS, hp, hpr], ?_, ?_, hg⟩
    · simp only [toRefS, MailboxRef.effect, hp]
      exact ha
    · simp only [toRefS, MailboxRef.effect, hp]
      exact ⟨hsel, hmode⟩
  | copy dst msgs =>
    simp only [Sel.step] at h ⊢
    obtain ⟨mb, hs, hro, hok, heq⟩ := sel_guarded_ok h
    rw [heq]
    have hp : p.selected = some mb := by rw [← hsel, hs]
    obtain ⟨ha, hg⟩ := step_ref E hE s hG (.copy mb dst msgs) q trivial hok
    refine ⟨by simp [MailboxRef.permits, toRefS, hp, sel_copy_ok_dst E s mb dst msgs q hok], ?_, ⟨hsel, hmode⟩, hg⟩
    simp only [toRefS, MailboxRef.effect]
    exact ha
  | move dst msgs =>
    simp only [Sel.step] at h ⊢
    obtain ⟨mb, hs, hro, hok, heq⟩ := sel_guarded_ok h
    rw [heq]
    have hp : p.selected = some mb := by rw [← hsel, hs]
    have hpr : p.readOnly = false := by rw [← hmode (by rw [hp]; rfl), hro]
    obtain ⟨ha, hg⟩ := step_ref E hE s hG (.move mb dst msgs) q trivial hok
    refine ⟨by simp [MailboxRef.permits, toRefS, hp, hpr, sel_move_ok_dst E s mb dst msgs q hok], ?_, ?_, hg⟩
    · simp only [toRefS, MailboxRef.effect, hp]
      exact ha
    · simp only [toRefS, MailboxRef.effect, hp]
      exact ⟨hsel, hmode⟩
  | close msgs pending =>
    simp only [Sel.step] at h ⊢
    unfold Sel.selectedMailbox at h ⊢
    cases hs : sess.snap with
    | none => rw [hs] at h; cases h
    | some mb =>
      rw [hs] at h
      have hp : p.selected = some mb := by rw [← hsel, hs]
      have hpm : sess.ro = p.readOnly := hmode (by rw [hp]; rfl)
      simp only [] at h ⊢
      cases hro : sess.ro with
      | true =>
        simp only [if_true]
        refine ⟨by simp [MailboxRef.permits, toRefS, hp], ?_, ⟨?_, ?_⟩, hG⟩
        · simp only [toRefS, MailboxRef.effect, hp, ← hpm, hro, if_true]
        · simp only [toRefS, MailboxRef.effect, hp]
        · simp only [toRefS, MailboxRef.effect, hp]; intro hh; cases hh
      | false =>
        rw [hro] at h
        simp only [Bool.false_eq_true, if_false] at h ⊢
        cases hok : (Act.step E s (.expunge mb (Sel.notPending msgs pending)) q).1.isOk with
        | false => rw [hok] at h; simp only [Bool.false_eq_true, if_false] at h; injection h with h; rw [h] at hok; cases hok
        | true =>
          simp only [if_true]
          have hok' : (Act.step E s (.expunge mb (Sel.notPending msgs pending)) q).1 = .ok := by
            cases hx : (Act.step E s (.expunge mb (Sel.notPending msgs pending)) q).1 <;> rw [hx] at hok <;> first | rfl | cases hok
          obtain ⟨ha, hg⟩ := step_ref E hE s hG (.expunge mb (Sel.notPending msgs pending)) q trivial hok'
          refine ⟨by simp [MailboxRef.permits, toRefS, hp], ?_, ⟨?_, ?_⟩, hg⟩
          · simp only [toRefS, MailboxRef.effect, hp, ← hpm, hro, Bool.false_eq_true, if_false]
            exact ha
          · simp only [toRefS, MailboxRef.effect, hp]
          · simp only [toRefS, MailboxRef.effect, hp]; intro hh; cases hh

/-- a command not answered OK changes neither the session's protocol state nor the model state — unless the failure is in
    the second transaction of `stateDBWrite` -/
theorem sess_step_failed (E : Env) (s : State) (sess : Sel.Sess) (c : Sel.Cmd) (q : Second)
    (h : (Sel.step E s sess c q).1 ≠ .of .ok) (h2 : (Sel.step E s sess c q).1 ≠ .of (.no .secondTx)) :
    (Sel.step E s sess c q).2 = (sess, s) := by
  cases c with
  | select n => simp only [Sel.step] at h ⊢; rw [sel_open_failed h]
  | examine n => simp only [Sel.step] at h ⊢; rw [sel_open_failed h]
  | store msgs a fl => simp only [Sel.step] at h h2 ⊢; exact sel_guarded_failed h h2
  | expunge msgs pending => simp only [Sel.step] at h h2 ⊢; exact sel_guarded_failed h h2
  | copy dst msgs => simp only [Sel.step] at h h2 ⊢; exact sel_guarded_failed h h2
  | move dst msgs => simp only [Sel.step] at h h2 ⊢; exact sel_guarded_failed h h2
  | close msgs pending =>
    simp only [Sel.step] at h h2 ⊢
    unfold Sel.selectedMailbox at h h2 ⊢
    cases hs : sess.snap with
    | none => rfl
    | some mb =>
      rw [hs] at h h2
      simp only [] at h h2 ⊢
      cases hro : sess.ro with
      | true => rw [hro] at h; simp at h
      | false =>
        rw [hro] at h h2
        simp only [Bool.false_eq_true, if_false] at h h2 ⊢
        cases hok : (Act.step E s (.expunge mb (Sel.notPending msgs pending)) q).1.isOk with
        | true => rw [hok] at h; simp at h
        | false =>
          rw [hok] at h2
          simp only [Bool.false_eq_true, if_false] at h2 ⊢
          have h' : (Act.step E s (.expunge mb (Sel.notPending msgs pending)) q).1 ≠ .ok := fun e => by rw [e] at hok; cases hok
          have h2' : (Act.step E s (.expunge mb (Sel.notPending msgs pending)) q).1 ≠ .no .secondTx := fun e => h2 (by rw [e])
          rw [step_unchanged E s _ q h' h2']



/-! ### EXPUNGE and the entries whose removal is pending -/

theorem mailbox?_updMailbox (s : MailboxRef.State) (name : String) (f : MailboxRef.Mailbox → MailboxRef.Mailbox) :
    (s.updMailbox name f).mailbox? name = (s.mailbox? name).map f := by
  unfold MailboxRef.State.updMailbox MailboxRef.State.mailbox?
  simp only []
  induction s.mailboxes with
  | nil => rfl
  | cons p r ih =>
    obtain ⟨k, v⟩ := p
    by_cases hk : k = name
    · subst hk; simp [List.lookup_cons]
    · have hk' : (name == k) = false := by simpa using fun e : name = k => hk e.symm
      have hk2 : (k == name) = false := by simpa using hk
      simp only [List.map_cons, hk2, Bool.false_eq_true, if_false, List.lookup_cons, hk']
      exact ih

/-- an entry of the mailbox whose message is not among the removed ones is still there after `expungeMsgs` -/
theorem expungeMsgs_keeps (s : MailboxRef.State) (mb : String) (msgs : List MailboxRef.MsgRef) (b : MailboxRef.Mailbox)
    (hb : s.mailbox? mb = some b) (e : MailboxRef.Entry) (he : e ∈ b.entries) (hn : e.msg ∉ msgs) :
    ∃ b', (MailboxRef.expungeMsgs s mb msgs).mailbox? mb = some b' ∧ e ∈ b'.entries := by
  unfold MailboxRef.expungeMsgs
  rw [mailbox?_updMailbox, hb]
  refine ⟨b.remove msgs, rfl, ?_⟩
  unfold MailboxRef.Mailbox.remove
  simp only [List.mem_filter]
  exact ⟨he, by simpa using hn⟩

theorem notPending_spares (msgs : Pairs) (pending : List MessageId) (m : MessageId) (hm : m ∈ pending) :
    m ∉ (Sel.notPending msgs pending).map (·.1) := by
  unfold Sel.notPending
  intro h
  rw [List.mem_map] at h
  obtain ⟨p, hp, rfl⟩ := h
  rw [List.mem_filter] at hp
  have := hp.2
  simp at this
  exact this hm

/-! ### histories of several sessions -/

theorem sel_isOk_iff (a : Sel.Answer) : a.isOk = true ↔ a = .of .ok := by
  constructor
  · intro h
    cases a with
    | readOnly => cases h
    | of x => cases x <;> first | rfl | cases h
  · intro h; rw [h]; rfl

/-- the events of a history as the reference sees them: who issued which command, and was it answered OK -/
def answered (E : Env) : Sel.World → List (Nat × Sel.Cmd × Second) → List (Nat × MailboxRef.SessCmd × Bool)
  | _, [] => []
  | w, e :: rest =>
    (e.1, toRefS e.2.1, (Sel.step E w.st (w.sess e.1) e.2.1 e.2.2).1.isOk) :: answered E (Sel.stepW E w e) rest

/-- the named hypotheses along a history of several sessions -/
def SessHistOk (E : Env) : Sel.World → List (Nat × Sel.Cmd × Second) → Prop
  | _, [] => True
  | w, e :: rest =>
    SessOk e.2.1 ∧ (Sel.step E w.st (w.sess e.1) e.2.1 e.2.2).1 ≠ .of (.no .secondTx) ∧ SessHistOk E (Sel.stepW E w e) rest

theorem runW_ref (E : Env) (hE : EnvOk E) (es : List (Nat × Sel.Cmd × Second)) :
    ∀ (w : Sel.World) (r : MailboxRef.World), Good E w.st → r.st = abs w.st → (∀ i, ProtoRel (w.sess i) (r.proto i)) →
      SessHistOk E w es →
      abs (Sel.runW E w es).st = (MailboxRef.worldRun r (answered E w es)).st ∧
        (∀ i, ProtoRel ((Sel.runW E w es).sess i) ((MailboxRef.worldRun r (answered E w es)).proto i)) ∧
        MailboxRef.worldPermits r (answered E w es) = true ∧ Good E (Sel.runW E w es).st := by
  induction es with
  | nil => intro w r hG hst hrel _; exact ⟨hst.symm, hrel, rfl, hG⟩
  | cons e rest ih =>
    intro w r hG hst hrel hH
    obtain ⟨hc, h2, hH'⟩ := hH
    obtain ⟨i, c, q⟩ := e
    simp only [Sel.runW, List.foldl_cons, answered, MailboxRef.worldRun, MailboxRef.worldPermits] at hc h2 hH' ⊢
    by_cases hok : (Sel.step E w.st (w.sess i) c q).1 = .of .ok
    · obtain ⟨hperm, habs, hrel', hG'⟩ := sess_step_ref E hE w.st hG (w.sess i) (r.proto i) (hrel i) c q hc hok
      have hisok : (Sel.step E w.st (w.sess i) c q).1.isOk = true := (sel_isOk_iff _).mpr hok
      rw [hisok]
      have := ih (Sel.stepW E w (i, c, q)) (MailboxRef.worldStep r (i, toRefS c, true)) hG'
        (by simp only [MailboxRef.worldStep, MailboxRef.sessStep, if_true, Sel.stepW, hst]; exact habs.symm)
        (by
          intro j
          simp only [MailboxRef.worldStep, MailboxRef.sessStep, if_true, Sel.stepW, hst]
          by_cases hj : j = i
          · simp only [hj, if_true]; exact hrel'
          · simp only [hj, if_false]; exact hrel j)
        hH'
      obtain ⟨a1, a2, a3, a4⟩ := this
      refine ⟨a1, a2, ?_, a4⟩
      rw [hst, hperm]
      simpa using a3
    · have hisok : (Sel.step E w.st (w.sess i) c q).1.isOk = false := by
        cases hx : (Sel.step E w.st (w.sess i) c q).1.isOk with
        | false => rfl
        | true => exact absurd ((sel_isOk_iff _).mp hx) hok
      rw [hisok]
      have hun := sess_step_failed E w.st (w.sess i) c q hok h2
      have hw : Sel.stepW E w (i, c, q) = { st := w.st, sess := fun j => if j = i then w.sess i else w.sess j } := by
        simp only [Sel.stepW, hun]
      have := ih (Sel.stepW E w (i, c, q)) (MailboxRef.worldStep r (i, toRefS c, false)) (by rw [hw]; exact hG)
        (by rw [hw]; simp only [MailboxRef.worldStep, MailboxRef.sessStep, Bool.false_eq_true, if_false]; exact hst)
        (by
          intro j
          rw [hw]
          simp only [MailboxRef.worldStep, MailboxRef.sessStep, Bool.false_eq_true, if_false]
          by_cases hj : j = i
          · simp only [hj, if_true]; exact hrel i
          · simp only [hj, if_false]; exact hrel j)
        hH'
      obtain ⟨a1, a2, a3, a4⟩ := this
      exact ⟨a1, a2, by simpa using a3, a4⟩

end Gluon.C03
