/- `Delivers idx idx' ups`: an index write `idx ⟶ idx'` that hands on the updates `ups` keeps the history invariant of
   every session, whatever mailbox it has selected, once the responders of `ups` are appended to its queue.
   Composition, and the three primitive writes: rows removed, rows added, flags changed. -/
import GluonModel.Lemmas.SysIndex

namespace Gluon.Sys
open Gluon

structure Delivers (idx idx' : Index) (ups : List Update) : Prop where
  len : idx'.boxes.length = idx.boxes.length
  next : idx.nextId ≤ idx'.nextId
  hist : ∀ (sid : StateId) (mb : Nat) (cu cs : Bool) (snap : Snap) (q : List Responder), mb < idx.boxes.length →
    HistInv sid { snap, res := q } (idx.mbox mb) →
    HistInv sid { snap, res := q ++ pendC sid mb cu cs ups } (idx'.mbox mb)
  ids : ∀ (sid : StateId) (mb : Nat) (cu cs : Bool), ∀ r ∈ pendC sid mb cu cs ups, r.isExists = true → r.msgId < idx'.nextId

theorem Delivers.refl (idx : Index) : Delivers idx idx [] :=
  ⟨rfl, Nat.le_refl _, fun _ _ _ _ _ _ _ h => by simpa [pendC_nil] using h, fun _ _ _ _ r hr => by simp [pendC_nil] at hr⟩

theorem Delivers.trans {a b c : Index} {u v : List Update} (h1 : Delivers a b u) (h2 : Delivers b c v) :
    Delivers a c (u ++ v) := by
  refine ⟨h2.len.trans h1.len, Nat.le_trans h1.next h2.next, ?_, ?_⟩
  · intro sid mb cu cs snap q hmb h
    have := h2.hist sid mb cu cs snap _ (by rw [h1.len]; exact hmb) (h1.hist sid mb cu cs snap q hmb h)
    simpa [pendC_append, List.append_assoc] using this
  · intro sid mb cu cs r hr hex
    rw [pendC_append, List.mem_append] at hr
    rcases hr with hr | hr
    · exact Nat.lt_of_lt_of_le (h1.ids sid mb cu cs r hr hex) h2.next
    · exact h2.ids sid mb cu cs r hr hex

/-- the written index may be replaced by one that shows the same tables -/
theorem Delivers.congr_right {a b c : Index} {u : List Update} (h : Delivers a b u)
    (hlen : c.boxes.length = b.boxes.length) (hnext : c.nextId = b.nextId)
    (hv : ∀ mb, ViewEq (b.view mb) (c.view mb)) (hn : ∀ mb, (b.box mb).uidNext = (c.box mb).uidNext) : Delivers a c u :=
  ⟨hlen.trans h.len, hnext ▸ h.next,
   fun sid mb cu cs snap q hmb hh => (h.hist sid mb cu cs snap q hmb hh).congr (hv mb) (hn mb),
   fun sid mb cu cs r hr hex => hnext ▸ h.ids sid mb cu cs r hr hex⟩

/-- the updates may be replaced by updates that contribute the same responders -/
theorem Delivers.congr_ups {a b : Index} {u v : List Update} (h : Delivers a b u)
    (hp : ∀ sid mb cu cs, pendC sid mb cu cs v = pendC sid mb cu cs u) : Delivers a b v :=
  ⟨h.len, h.next, fun sid mb cu cs snap q hmb hh => by rw [hp]; exact h.hist sid mb cu cs snap q hmb hh,
   fun sid mb cu cs r hr hex => h.ids sid mb cu cs r (by rw [← hp]; exact hr) hex⟩

theorem mbox_default_wf : ({ view := [], uidNext := 1 } : Mbox).Wf :=
  ⟨⟨by simp [View.uids], by simp [View.ids]⟩, by simp⟩

/-- a delivering write keeps every mailbox table well formed -/
theorem Delivers.box_wf {idx idx' : Index} {ups : List Update} (h : Delivers idx idx' ups)
    (hwf : ∀ mb, (idx.mbox mb).Wf) (mb : Nat) : (idx'.mbox mb).Wf := by
  by_cases hmb : mb < idx.boxes.length
  · have h0 : HistInv 0 { snap := snapOf (idx.view mb), res := [] } (idx.mbox mb) :=
      HistInv.init (sameView_snapOf _) (hwf mb)
    exact (h.hist 0 mb false false _ _ hmb h0).wf
  · have : idx'.box mb = {} := Index.box_default _ (by rw [h.len]; omega)
    simp only [Index.mbox, Index.view, this]
    exact mbox_default_wf

/-! ### `Mbox.applyAll` -/

theorem Mbox.applyAll_nil (mb : Mbox) : mb.applyAll [] = mb := rfl

theorem Mbox.applyAll_cons (mb : Mbox) (c : Change) (cs : List Change) : mb.applyAll (c :: cs) = (mb.apply c).applyAll cs := rfl

theorem Mbox.applyAll_view (mb : Mbox) (cs : List Change) : (mb.applyAll cs).view = mb.view.applyAll cs := by
  induction cs generalizing mb with
  | nil => rfl
  | cons c cs ih => rw [Mbox.applyAll_cons, ih]; rfl

/-! ### rows removed -/

theorem pendC_expunges (sid : StateId) (mb mb' : Nat) (cu cs : Bool) (ids : List MsgId) :
    pendC sid mb' cu cs (ids.map (.expunge mb)) = if mb' = mb then ids.map .expunge else [] := by
  induction ids with
  | nil => simp [pendC_nil]
  | cons a t ih =>
    rw [List.map_cons, pendC_cons, ih]
    by_cases h : mb' = mb
    · subst h; simp [Update.pend, Update.mboxPasses, Update.responders]
    · simp [Update.pend, Update.mboxPasses, h]

theorem eraseP_eq_filter_of_nodup {v : View} (hnd : v.ids.Nodup) (id : MsgId) :
    v.eraseP (·.id == id) = v.filter (fun m => !(m.id == id)) := by
  induction v with
  | nil => rfl
  | cons a t ih =>
    simp only [View.ids, List.map_cons, List.nodup_cons] at hnd
    by_cases h : a.id = id
    · subst h
      simp only [List.eraseP_cons, beq_self_eq_true, if_true, List.filter_cons, Bool.not_true, Bool.false_eq_true, if_false]
      symm
      apply List.filter_eq_self.mpr
      intro m hm
      have : m.id ≠ a.id := fun e => hnd.1 (e ▸ List.mem_map_of_mem hm)
      simpa using this
    · have h' : (a.id == id) = false := by simpa using h
      simp [List.eraseP_cons, h', List.filter_cons, ih hnd.2]

theorem nodup_ids_filter {v : View} (hnd : v.ids.Nodup) (p : VMsg → Bool) : (View.ids (v.filter p)).Nodup := by
  unfold View.ids at *
  exact (List.filter_sublist.map _).nodup hnd

theorem foldl_eraseP_eq_filter {v : View} (hnd : v.ids.Nodup) (ids : List MsgId) :
    ids.foldl (fun v id => v.eraseP (·.id == id)) v = v.filter (fun m => !ids.contains m.id) := by
  induction ids generalizing v with
  | nil => exact (List.filter_eq_self.mpr (by simp)).symm
  | cons a t ih =>
    rw [List.foldl_cons, eraseP_eq_filter_of_nodup hnd, ih (nodup_ids_filter hnd _), List.filter_filter]
    congr 1
    funext m
    simp only [List.contains_cons]
    cases h1 : (m.id == a) <;> cases h2 : t.contains m.id <;> simp

theorem View.applyAll_removes (v : View) (ids : List MsgId) :
    v.applyAll (ids.map .remove) = ids.foldl (fun v id => v.eraseP (·.id == id)) v := by
  induction ids generalizing v with
  | nil => rfl
  | cons a t ih => simp only [List.map_cons, View.applyAll, List.foldl_cons] at ih ⊢; rw [ih]; rfl

theorem Mbox.applyAll_removes_uidNext (mb : Mbox) (ids : List MsgId) : (mb.applyAll (ids.map .remove)).uidNext = mb.uidNext := by
  induction ids generalizing mb with
  | nil => rfl
  | cons a t ih => rw [List.map_cons, Mbox.applyAll_cons, ih]; rfl

theorem changesOk_removes (mb : Mbox) (ids : List MsgId) :
    ChangesOk mb (ids.map fun id => (Change.remove id, Responder.expunge id)) := by
  induction ids generalizing mb with
  | nil => trivial
  | cons a t ih => exact ⟨trivial, rfl, ih _⟩

theorem view_remove (idx : Index) {mb : Nat} (hmb : mb < idx.boxes.length) (ids : List MsgId) :
    (idx.setBox mb ((idx.box mb).remove ids)).view mb = (idx.view mb).filter (fun m => !ids.contains m.id) := by
  simp only [Index.view, Index.box_setBox_same hmb, Box.remove, List.filter_map]
  apply List.map_congr_left
  intro r _
  simp [Index.rowFlags]

/-- **rows removed** (`RemoveMessagesFromMailbox`): one expunge update per message -/
theorem delivers_remove (idx : Index) (mb : Nat) (ids : List MsgId) :
    Delivers idx (removeFrom idx mb ids).1 (ids.map (.expunge mb)) := by
  refine ⟨by simp [removeFrom], by simp [removeFrom], ?_, ?_⟩
  · intro sid mb' cu cs snap q hmb' h
    rw [pendC_expunges]
    by_cases hm : mb' = mb
    · subst hm
      simp only [if_true]
      have h1 := h.changes _ (changesOk_removes (idx.mbox mb') ids)
      simp only [List.map_map, Function.comp_def, List.map_id'] at h1
      have e1 : (ids.map fun x => (Change.remove x, Responder.expunge x).2) = ids.map Responder.expunge := rfl
      have e2 : (ids.map fun x => (Change.remove x, Responder.expunge x).1) = ids.map Change.remove := rfl
      rw [e1, e2] at h1
      refine h1.congr (ViewEq.of_eq ?_) ?_
      · rw [Mbox.applyAll_view, View.applyAll_removes]
        simp only [removeFrom, Index.mbox]
        rw [view_remove idx hmb']
        exact foldl_eraseP_eq_filter (v := idx.view mb') h.wf.view.nodup ids
      · rw [Mbox.applyAll_removes_uidNext]
        simp [removeFrom, Index.mbox, Index.box_setBox_same hmb', Box.remove]
    · simp only [hm, if_false, List.append_nil]
      have : (removeFrom idx mb ids).1.mbox mb' = idx.mbox mb' :=
        Index.mbox_congr (by simp [removeFrom, Index.box_setBox_other hm]) (fun _ _ => rfl)
      rw [this]; exact h
  · intro sid mb' cu cs r hr hex
    rw [pendC_expunges] at hr
    split at hr
    · obtain ⟨id, _, rfl⟩ := List.mem_map.mp hr
      simp [Responder.isExists] at hex
    · simp at hr

/-! ### rows added -/

/-- the changes and responders of adding `ids` with consecutive UIDs from `u` -/
def addPairs (F : MsgId → Flags) (t : StateId) (st : Option StateId) : UID → List MsgId → List (Change × Responder)
  | _, [] => []
  | u, id :: rest => (.add id u (F id), .exists id u (F id) t st) :: addPairs F t st (u + 1) rest

theorem addPairs_snd (F : MsgId → Flags) (t : StateId) (st : Option StateId) (d : Bool) (u : UID) (ids : List MsgId) :
    (addPairs F t st u ids).map (·.2) = (Box.rowsFrom d u ids).map fun r => Responder.exists r.id r.uid (F r.id) t st := by
  induction ids generalizing u with
  | nil => rfl
  | cons a rest ih => simp [addPairs, Box.rowsFrom, ih]

theorem changesOk_addPairs (F : MsgId → Flags) (t : StateId) (st : Option StateId) (M : Mbox) (ids : List MsgId)
    (hnd : ids.Nodup) (hnot : ∀ id ∈ ids, id ∉ M.view.ids) : ChangesOk M (addPairs F t st M.uidNext ids) := by
  induction ids generalizing M with
  | nil => trivial
  | cons a rest ih =>
    simp only [List.nodup_cons] at hnd
    refine ⟨⟨Nat.le_refl _, hnot a List.mem_cons_self⟩, ⟨rfl, rfl, FlagsEq.refl _⟩, ?_⟩
    have := ih (M.apply (.add a M.uidNext (F a))) hnd.2 (by
      intro id hid hmem
      simp only [Mbox.apply, View.apply, View.ids, List.map_append, List.map_cons, List.map_nil, List.mem_append,
        List.mem_singleton] at hmem
      rcases hmem with hmem | hmem
      · exact hnot id (List.mem_cons_of_mem _ hid) hmem
      · subst hmem; exact hnd.1 hid)
    simpa [Mbox.apply] using this

theorem applyAll_addPairs (F : MsgId → Flags) (t : StateId) (st : Option StateId) (d : Bool) (M : Mbox) (ids : List MsgId) :
    (M.applyAll ((addPairs F t st M.uidNext ids).map (·.1))).view =
        M.view ++ (Box.rowsFrom d M.uidNext ids).map (fun r => { id := r.id, uid := r.uid, flags := Flags.remove1 (F r.id) Flags.recent }) ∧
    (M.applyAll ((addPairs F t st M.uidNext ids).map (·.1))).uidNext = M.uidNext + ids.length := by
  induction ids generalizing M with
  | nil => simp [addPairs, Mbox.applyAll_nil, Box.rowsFrom]
  | cons a rest ih =>
    simp only [addPairs, List.map_cons, Mbox.applyAll_cons]
    have := ih (M.apply (.add a M.uidNext (F a)))
    simp only [Mbox.apply, View.apply] at this ⊢
    obtain ⟨h1, h2⟩ := this
    constructor
    · rw [h1]; simp [Box.rowsFrom]
    · rw [h2]; simp only [List.length_cons]; omega

theorem pendC_exists (sid : StateId) (mb mb' : Nat) (cu cs : Bool) (items : List (MsgId × UID × Flags)) (st : Option StateId) :
    pendC sid mb' cu cs [.exists mb items st] =
      if mb' = mb then items.map fun it => .exists it.1 it.2.1 it.2.2 (st.getD 0) st else [] := by
  simp only [pendC, List.flatMap_cons, List.flatMap_nil, List.append_nil, Update.pend, Update.mboxPasses, Update.responders]
  by_cases h : mb' = mb <;> simp [h]

theorem rowsFrom_ids (d : Bool) (u : UID) (ids : List MsgId) : (Box.rowsFrom d u ids).map (·.id) = ids := by
  induction ids generalizing u with
  | nil => rfl
  | cons a t ih => simp [Box.rowsFrom, ih]

theorem rowsFrom_deleted (d : Bool) (u : UID) (ids : List MsgId) : ∀ r ∈ Box.rowsFrom d u ids, r.deleted = d := by
  induction ids generalizing u with
  | nil => simp [Box.rowsFrom]
  | cons a t ih =>
    intro r hr
    simp only [Box.rowsFrom, List.mem_cons] at hr
    rcases hr with rfl | hr
    · rfl
    · exact ih _ r hr

/-- the flags a row with mark `d` shows -/
def markFlags (idx : Index) (d : Bool) (id : MsgId) : Flags := if d then Flags.add1 (idx.msgFlags id) Flags.deleted else idx.msgFlags id

/-- **rows added** (`AddMessagesToMailbox`; `d` = the `\\Deleted` mark of the new rows): one EXISTS update carrying
    every new row -/
theorem delivers_add (idx : Index) {mb : Nat} (hmb : mb < idx.boxes.length) (ids : List MsgId) (d : Bool) (st : Option StateId)
    (hnd : ids.Nodup) (hnot : ∀ id ∈ ids, (idx.box mb).has id = false) (hlt : ∀ id ∈ ids, id < idx.nextId) :
    Delivers idx (idx.setBox mb ((idx.box mb).add ids d)) [.exists mb (addItems idx mb ids d) st] := by
  refine ⟨by simp, by simp, ?_, ?_⟩
  · intro sid mb' cu cs snap q hmb' h
    rw [pendC_exists]
    by_cases hm : mb' = mb
    · subst hm
      simp only [if_true]
      have hnot' : ∀ id ∈ ids, id ∉ (idx.mbox mb').view.ids := by
        intro id hid hmem
        have := hnot id hid
        have hmem' : id ∈ (idx.view mb').ids := hmem
        rw [Index.view_ids, ← Index.box_has_iff, this] at hmem'
        cases hmem'
      have hok := changesOk_addPairs (markFlags idx d) (st.getD 0) st (idx.mbox mb') ids hnd hnot'
      have h1 := h.changes _ hok
      rw [addPairs_snd (d := d)] at h1
      have e : (addItems idx mb' ids d).map (fun it => Responder.exists it.1 it.2.1 it.2.2 (st.getD 0) st) =
          (Box.rowsFrom d (idx.mbox mb').uidNext ids).map fun r => Responder.exists r.id r.uid (markFlags idx d r.id) (st.getD 0) st := by
        simp only [addItems, Box.newRows, Index.mbox, List.map_map, Function.comp_def]
        apply List.map_congr_left
        intro r hr
        simp [Index.rowFlags, markFlags, rowsFrom_deleted _ _ _ r hr]
      rw [e]
      obtain ⟨hv, hn⟩ := applyAll_addPairs (markFlags idx d) (st.getD 0) st d (idx.mbox mb') ids
      refine h1.congr ?_ ?_
      · rw [hv]
        simp only [Index.mbox, Index.view, Index.box_setBox_same hmb', Box.add, Box.newRows, List.map_append]
        apply ViewEq.append
        · exact ViewEq.of_eq (List.map_congr_left fun r _ => by simp [Index.rowFlags])
        · apply ViewEq.map
          intro r hr
          refine ⟨rfl, rfl, ?_⟩
          simp only [Index.rowFlags, markFlags, rowsFrom_deleted _ _ _ r hr, Index.msgFlags_setBox]
          exact FlagsEq.remove1_recent _
      · rw [hn]; simp [Index.mbox, Index.box_setBox_same hmb', Box.add]
    · simp only [hm, if_false, List.append_nil]
      have : (idx.setBox mb ((idx.box mb).add ids d)).mbox mb' = idx.mbox mb' :=
        Index.mbox_congr (by simp [Index.box_setBox_other hm]) (fun _ _ => rfl)
      rw [this]; exact h
  · intro sid mb' cu cs r hr hex
    rw [pendC_exists] at hr
    split at hr
    · obtain ⟨it, hit, rfl⟩ := List.mem_map.mp hr
      simp only [addItems, List.mem_map] at hit
      obtain ⟨row, hrow, rfl⟩ := hit
      simp only [Responder.msgId, Index.nextId_setBox]
      apply hlt
      have : row.id ∈ (Box.rowsFrom d (idx.box mb).uidNext ids).map (·.id) := List.mem_map_of_mem hrow
      rwa [rowsFrom_ids] at this
    · simp at hr

/-! ### flags changed -/

/-- what one flag change does to every named row of a table -/
def flagMap (ids : List MsgId) (op : FlagOp) (fl : Flags) (other : Bool) (v : View) : View :=
  v.map fun m => if ids.contains m.id then { m with flags := Flags.remove1 (newFlags m.flags op fl other) Flags.recent } else m

theorem View.applyAll_setFlags (v : View) (ids : List MsgId) (hnd : ids.Nodup) (op : FlagOp) (fl : Flags) (other : Bool) :
    v.applyAll (ids.map fun id => .setFlags id op fl other) = flagMap ids op fl other v := by
  induction ids generalizing v with
  | nil => simp [View.applyAll, flagMap]
  | cons a t ih =>
    simp only [List.nodup_cons] at hnd
    simp only [List.map_cons, View.applyAll, List.foldl_cons] at ih ⊢
    rw [ih _ hnd.2]
    simp only [flagMap, View.apply, List.map_map]
    apply List.map_congr_left
    intro m _
    simp only [Function.comp_def, List.contains_cons]
    by_cases h : m.id = a
    · have hna : t.contains m.id = false := by
        rw [h]; simpa using hnd.1
      simp [h, hna] at *
      simp [hna]
    · have h' : (m.id == a) = false := by simpa using h
      simp [h']

theorem Mbox.applyAll_setFlags_uidNext (mb : Mbox) (ids : List MsgId) (op : FlagOp) (fl : Flags) (other : Bool) :
    (mb.applyAll (ids.map fun id => .setFlags id op fl other)).uidNext = mb.uidNext := by
  induction ids generalizing mb with
  | nil => rfl
  | cons a t ih => rw [List.map_cons, Mbox.applyAll_cons, ih]; rfl

theorem changesOk_setFlags (mb : Mbox) (ids : List MsgId) (op : FlagOp) (fl : Flags) (a b other : Bool) :
    ChangesOk mb (ids.map fun id => (Change.setFlags id op fl other, Responder.fetch id fl op a b other)) := by
  induction ids generalizing mb with
  | nil => trivial
  | cons x t ih => exact ⟨trivial, ⟨rfl, rfl, rfl, rfl⟩, ih _⟩

/-- **flags changed**: an update that contributes, to a session on mailbox `mb`, one FETCH responder `(op, fl, o mb)` per
    named message, against an index write after which every table shows the named rows with the flags so changed -/
theorem delivers_flags {idx idx' : Index} {u : Update} {ids : List MsgId} {op : FlagOp} {fl : Flags} (o : Nat → Bool)
    (hnd : ids.Nodup)
    (hpend : ∀ sid mb cu cs, ∃ a b, u.pend sid mb cu cs = ids.map fun id => Responder.fetch id fl op a b (o mb))
    (hlen : idx'.boxes.length = idx.boxes.length) (hnext : idx'.nextId = idx.nextId)
    (hn : ∀ mb, (idx'.box mb).uidNext = (idx.box mb).uidNext)
    (hview : ∀ mb, ViewEq (flagMap ids op fl (o mb) (idx.view mb)) (idx'.view mb)) :
    Delivers idx idx' [u] := by
  refine ⟨hlen, Nat.le_of_eq hnext.symm, ?_, ?_⟩
  · intro sid mb cu cs snap q _ h
    obtain ⟨a, b, hp⟩ := hpend sid mb cu cs
    have hpc : pendC sid mb cu cs [u] = ids.map fun id => Responder.fetch id fl op a b (o mb) := by
      simp [pendC, hp]
    rw [hpc]
    have h1 := h.changes _ (changesOk_setFlags (idx.mbox mb) ids op fl a b (o mb))
    simp only [List.map_map, Function.comp_def] at h1
    refine h1.congr ?_ ?_
    · rw [Mbox.applyAll_view]
      have := View.applyAll_setFlags (idx.mbox mb).view ids hnd op fl (o mb)
      simp only [Index.mbox] at this ⊢
      rw [this]; exact hview mb
    · rw [Mbox.applyAll_setFlags_uidNext]; simp [Index.mbox, hn]
  · intro sid mb cu cs r hr hex
    obtain ⟨a, b, hp⟩ := hpend sid mb cu cs
    simp only [pendC, List.flatMap_cons, List.flatMap_nil, List.append_nil, hp, List.mem_map] at hr
    obtain ⟨id, _, rfl⟩ := hr
    simp [Responder.isExists] at hex

end Gluon.Sys
