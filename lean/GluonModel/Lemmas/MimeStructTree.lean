/- Lemmas for C12 `structure_of_built_message`: the writer calls of imap.Structure on a message
   rendered from a MIME tree are the tree's. -/
import GluonModel.Spec.MimeStructure
import GluonModel.Lemmas.MimeTree

set_option linter.unusedSimpArgs false

namespace Gluon.Mime

theorem kidSecsList_length (sb : Bytes) : ∀ (kids : List MTree) (o : Nat),
    (MTree.kidSecsList sb o kids).length = kids.length
  | [], _ => by simp [MTree.kidSecsList]
  | t :: ts, o => by simp [MTree.kidSecsList, kidSecsList_length sb ts]

theorem kidSecs_of_noKids : (t : MTree) → t.hasKids = false → ∀ o, t.kidSecs o = []
  | .leaf _ _, _, _ => by simp [MTree.kidSecs]
  | .multi _ _ kids, h, _ => by
    cases kids with
    | nil => simp [MTree.kidSecs, MTree.kidSecsList]
    | cons t ts => simp [MTree.hasKids] at h
  | .msg _ inner, h, o => by
    simp only [MTree.hasKids] at h
    simp only [MTree.kidSecs]
    exact kidSecs_of_noKids inner h _

mutual
  theorem structCalls_ctx (env : HdrEnv) (det : HdrDetail) : (t : MTree) → t.Good env → t.DetOK det → t.NoEmbMulti →
      ∀ (pre post : Bytes) (fuel : Nat), t.size ≤ fuel →
      structCalls env det (pre ++ (t.render ++ post)) fuel (t.rootSec pre.length) = .ok (t.calls det)
    | .leaf h b, hg, hd, _, pre, post, fuel, hf => by
      obtain ⟨fuel, rfl⟩ : ∃ f, fuel = f + 1 := ⟨fuel - 1, by simp only [MTree.size] at hf; omega⟩
      simp only [MTree.DetOK] at hd
      simp only [structCalls]
      rw [children_ctx env _ hg pre post _ (by simp [MTree.chain])]
      simp only [MTree.rootSec, MTree.render, hdr_leaf, rest_leaf, MTree.kidSecs, MTree.calls]
      have e : pre ++ (h ++ b ++ post) = pre ++ (h ++ (b ++ post)) := by simp
      rw [e, goSlice_ctx pre h (b ++ post) _ _ rfl rfl]
      simp only [List.length_nil, if_true]
      have e2 : pre ++ (h ++ (b ++ post)) = (pre ++ h) ++ (b ++ post) := by simp
      rw [e2, goSlice_ctx (pre ++ h) b post _ _ (by simp) (by simp; omega)]
      simp only [hd, embCalls, Bool.false_eq_true, if_false]
    | .multi h bnd kids, hg, hd, hn, pre, post, fuel, hf => by
      simp only [MTree.NoEmbMulti] at hn
      obtain ⟨fuel, rfl⟩ : ∃ f, fuel = f + 1 := ⟨fuel - 1, by simp only [MTree.size] at hf; omega⟩
      simp only [MTree.DetOK] at hd
      have hgl : MTree.GoodList env (startBoundary bnd) kids := by
        simp only [MTree.Good] at hg; exact hg.2.2.2
      simp only [structCalls]
      rw [children_ctx env _ hg pre post _ (by simp [MTree.chain])]
      simp only [MTree.rootSec, MTree.render, hdr_multi, rest_multi, MTree.kidSecs, MTree.calls]
      have e : pre ++ (h ++ renderParts (startBoundary bnd) (MTree.restList kids) ++ post)
          = pre ++ (h ++ (renderParts (startBoundary bnd) (MTree.restList kids) ++ post)) := by simp
      rw [e, goSlice_ctx pre h _ _ _ rfl rfl]
      simp only [kidSecsList_length]
      cases kids with
      | nil =>
        simp only [List.length_nil, if_true, MTree.restList]
        have e2 : pre ++ (h ++ (renderParts (startBoundary bnd) [] ++ post))
            = (pre ++ h) ++ (renderParts (startBoundary bnd) [] ++ post) := by simp
        rw [e2, goSlice_ctx (pre ++ h) _ post _ _ (by simp) (by simp; omega)]
        simp only [hd.1, embCalls, Bool.false_eq_true, if_false]
      | cons t ts =>
        have hnz : ¬ (t :: ts).length = 0 := by simp
        simp only [hnz, if_false]
        have e3 : pre ++ (h ++ (renderParts (startBoundary bnd) (MTree.restList (t :: ts)) ++ post))
            = (pre ++ h ++ startBoundary bnd ++ CRLF)
              ++ (partsTail (startBoundary bnd) (MTree.restList (t :: ts)) ++ post) := by
          simp only [renderParts, MTree.restList, afterDelim_cons, List.append_assoc]
        have hP : (pre ++ h ++ startBoundary bnd ++ CRLF).length
            = pre.length + h.length + (startBoundary bnd).length + 2 := by
          simp [CRLF]; omega
        rw [e3, ← hP]
        rw [structList_ctx env det _ (t :: ts) hgl hd.2 hn _ post fuel (by simp only [MTree.size] at hf; omega)]
    | .msg h inner, hg, hd, hn, pre, post, fuel, hf => by
      simp only [MTree.NoEmbMulti] at hn
      obtain ⟨fuel, rfl⟩ : ∃ f, fuel = f + 1 := ⟨fuel - 1, by simp only [MTree.size] at hf; omega⟩
      simp only [MTree.DetOK] at hd
      have hgi : inner.Good env := by simp only [MTree.Good] at hg; exact hg.2.2.2
      simp only [structCalls]
      rw [children_ctx env _ hg pre post _ (by
        have := chain_lt_size (.msg h inner)
        have := size_le_render env _ hg
        simp; omega)]
      simp only [MTree.rootSec, MTree.render, hdr_msg, rest_msg, MTree.calls, MTree.kidSecs,
        kidSecs_of_noKids inner hn.1]
      have e : pre ++ (h ++ (inner.hdr ++ inner.rest) ++ post)
          = pre ++ (h ++ ((inner.hdr ++ inner.rest) ++ post)) := by simp
      rw [e, goSlice_ctx pre h _ _ _ rfl rfl]
      simp only [List.length_nil, if_true]
      have e2 : pre ++ (h ++ ((inner.hdr ++ inner.rest) ++ post))
          = (pre ++ h) ++ ((inner.hdr ++ inner.rest) ++ post) := by simp
      rw [e2, goSlice_ctx (pre ++ h) _ post _ _ (by simp) (by simp; omega)]
      simp only [hd.1, embCalls, if_true]
      rw [parseSec_ctx env (pre ++ h) inner.hdr inner.rest post _ _ (good_hdrAt env inner hgi)
        (by simp) (by simp; omega)]
      simp only
      have e3 : (pre ++ h) ++ ((inner.hdr ++ inner.rest) ++ post)
          = (pre ++ h) ++ (inner.hdr ++ (inner.rest ++ post)) := by simp
      rw [e3, goSlice_ctx (pre ++ h) inner.hdr _ _ _ (by simp) (by simp)]
      simp only [childCall]
      have ih := structCalls_ctx env det inner hgi hd.2 hn.2 (pre ++ h) post fuel (by simp only [MTree.size] at hf; omega)
      simp only [MTree.rootSec, MTree.render, List.length_append] at ih
      have hsec : (⟨pre.length + h.length, pre.length + h.length + inner.hdr.length,
          pre.length + (h ++ (inner.hdr ++ inner.rest)).length⟩ : Sec)
          = ⟨pre.length + h.length, pre.length + h.length + inner.hdr.length,
              pre.length + h.length + (inner.hdr.length + inner.rest.length)⟩ := by
        congr 1
        simp; omega
      have e4 : (pre ++ h) ++ (inner.hdr ++ (inner.rest ++ post))
          = (pre ++ h) ++ ((inner.hdr ++ inner.rest) ++ post) := by simp
      rw [hsec, e4, ih]
  theorem structList_ctx (env : HdrEnv) (det : HdrDetail) (sb : Bytes) : (kids : List MTree) →
      MTree.GoodList env sb kids → MTree.DetOKList det kids → MTree.NoEmbMultiList kids →
      ∀ (P post : Bytes) (fuel : Nat), MTree.sizeList kids ≤ fuel →
      mapE (childCall (structCalls env det (P ++ (partsTail sb (MTree.restList kids) ++ post)) fuel))
          (MTree.kidSecsList sb P.length kids)
        = .ok (MTree.callsList det kids)
    | [], _, _, _, _, _, _, _ => by simp [MTree.kidSecsList, MTree.callsList, mapE]
    | t :: ts, hg, hd, hn, P, post, fuel, hf => by
      simp only [MTree.NoEmbMultiList] at hn
      simp only [MTree.GoodList] at hg
      obtain ⟨hgt, _, hgts⟩ := hg
      simp only [MTree.DetOKList] at hd
      simp only [MTree.sizeList] at hf
      simp only [MTree.kidSecsList, MTree.callsList, MTree.restList, partsTail, mapE, childCall]
      have e1 : P ++ (t.hdr ++ t.rest ++ (CRLF ++ (sb ++ afterDelim sb (MTree.restList ts))) ++ post)
          = P ++ (t.render ++ ((CRLF ++ (sb ++ afterDelim sb (MTree.restList ts))) ++ post)) := by
        simp [MTree.render]
      rw [e1, structCalls_ctx env det t hgt hd.1 hn.1 P _ fuel (by omega)]
      simp only
      cases ts with
      | nil => simp [MTree.kidSecsList, MTree.callsList, mapE]
      | cons q ts' =>
        have e2 : P ++ (t.render ++ ((CRLF ++ (sb ++ afterDelim sb (MTree.restList (q :: ts')))) ++ post))
            = (P ++ t.render ++ CRLF ++ sb ++ CRLF) ++ (partsTail sb (MTree.restList (q :: ts')) ++ post) := by
          simp only [MTree.restList, afterDelim_cons, List.append_assoc]
        have hP' : (P ++ t.render ++ CRLF ++ sb ++ CRLF).length = P.length + t.render.length + 2 + sb.length + 2 := by
          simp [CRLF]; omega
        have ih := structList_ctx env det sb (q :: ts') hgts hd.2 hn.2 (P ++ t.render ++ CRLF ++ sb ++ CRLF) post fuel (by omega)
        rw [e2, ← hP']
        rw [ih]
end

/-- `imap.Structure` on a well-built message makes exactly the tree's calls -/
theorem structureTexts_built (env : HdrEnv) (det : HdrDetail) (q : Bytes → Bytes) (t : MTree)
    (hg : t.Good env) (hd : t.DetOK det) (hn : t.NoEmbMulti) :
    structureTexts env det q t.render
      = .ok (Call.writeList q true true [.child false (t.calls det)],
             Call.writeList q false true [.child false (t.calls det)]) := by
  unfold structureTexts
  have e : t.render = [] ++ ((t.hdr ++ t.rest) ++ []) := by simp [MTree.render]
  have hps := parseSec_ctx env [] t.hdr t.rest [] 0 t.render.length (good_hdrAt env t hg) rfl
    (by simp [MTree.render])
  rw [← e] at hps
  rw [hps]
  simp only
  have hs := structCalls_ctx env det t hg hd hn [] [] (t.render.length + 1) (size_le_render env t hg)
  simp only [List.nil_append, List.append_nil, List.length_nil] at hs
  have hroot : (⟨0, 0 + t.hdr.length, t.render.length⟩ : Sec) = t.rootSec 0 := by
    simp [MTree.rootSec]
  rw [hroot, hs]

end Gluon.Mime
