/-
Helper lemmas for C20, part 13: a recovered message *can* be copied / moved out — when the remote
and the storage accept the calls, the bytes arrive in the destination.
-/
import GluonModel.Lemmas.AppendOut

namespace Gluon.Append

theorem popD_eq {α} (l : List α) (d : α) : popD l d = (l.head?.getD d, l.tail) := by
  cases l <;> rfl

/-- the remote and the local storage accept the next call of each kind -/
structure NextCallsOk (sc : Script) : Prop where
  create : sc.create.head?.getD .ok = .ok
  add : sc.add.head?.getD .ok = .ok
  storeSet : sc.storeSet.head?.getD false = false
  dbCreate : sc.dbCreate.head?.getD false = false

theorem importRecovered_can {s : St} {id : Nat} {l : Lit} (hst : s.store.lookup id = some l) (hp : l.parseOk = true)
    (hf : idOfRid s.db (2 * s.nextRid) = none) (hc : NextCallsOk s.sc) :
    ∃ s', importRecovered s id = (.ok (s.nextId, false), s') ∧ s'.db.boxes = s.db.boxes ∧
      s'.store.lookup s.nextId = some { l with gid := .id s.nextId } ∧ s'.sc.add = s.sc.add ∧ s'.lim = s.lim ∧
      s'.db.rows = (s.nextId, { rid := 2 * s.nextRid }) :: s.db.rows := by
  unfold importRecovered
  simp only [hst, remoteCreate, popD_eq, hc.create, hf, hp, storeSet, hc.storeSet, dbFault, hc.dbCreate]
  simp
  rw [hc.dbCreate]
  exact ⟨_, rfl, rfl, lookup_cons_self _ _ _, rfl, rfl, rfl⟩

theorem addRecovered_can {s : St} {dst : String} {bd : Mbox} {nid : Nat} (hd : getBox s.db dst = some bd)
    (hn : boxHas bd nid = false) (hl : checkLimits s bd 1 = true) (ha : s.sc.add.head?.getD .ok = .ok) :
    ∃ s', addRecovered s dst [nid] = (.ok [bd.uidNext], s') ∧ s'.store = s.store ∧
      getBox s'.db dst = some { bd with msgs := bd.msgs ++ [(bd.uidNext, nid)], uidNext := bd.uidNext + 1 } := by
  unfold addRecovered
  simp only [hd, remoteAdd, popD_eq, ha, ROut.toErr, hn]
  simp [checkLimits] at hl
  simp [dbAddMessages, hd, checkLimits, hl.1, hl.2, hn, hasDup, Mbox.add]
  have hg := getBox_updBox_self s.db dst (fun b => { b with msgs := b.msgs ++ [(b.uidNext, nid)], uidNext := b.uidNext + 1 }) (fun _ => rfl)
  rw [hd] at hg
  simpa using hg

theorem getBox_boxes {db db' : Db} (h : db'.boxes = db.boxes) (n : String) : getBox db' n = getBox db n := by
  simp [getBox, h]

theorem checkLimits_lim {s s' : St} (h : s'.lim = s.lim) (b : Mbox) (n : Nat) : checkLimits s' b n = checkLimits s b n := by
  simp [checkLimits, h]

/-- COPY of one recovered message out of the recovery mailbox succeeds and delivers the bytes -/
theorem copy_can {s : St} {bs bd : Mbox} {u id : Nat} {l : Lit} {dst : String}
    (hb : getBox s.db recName = some bs) (hsel : bs.msgs.find? (·.1 == u) = some (u, id))
    (hst : s.store.lookup id = some l) (hp : l.parseOk = true) (hrn : isRecName dst = false)
    (hd : getBox s.db dst = some bd) (hlim : checkLimits s bd 1 = true) (hf : IdsFresh s) (hc : NextCallsOk s.sc) :
    ∃ s', copy s recName [u] dst = (.ok [u] [bd.uidNext], s') ∧
      Holds s' dst bd.uidNext { l with gid := .id s.nextId } ∧ recMsgs s' = recMsgs s := by
  have hbd : boxHas bd s.nextId = false := hf.2 bd (List.mem_of_find?_eq_some hd)
  obtain ⟨s1, h1, h1b, h1s, h1a, h1l, _⟩ :=
    importRecovered_can (s := { s with txIns := false, txErase := false }) (id := id) (l := l) hst hp hf.1 hc
  simp only at h1 h1b h1s h1a h1l
  obtain ⟨s2, h2, h2s, h2b⟩ := addRecovered_can (s := s1) (dst := dst) (bd := bd) (nid := s.nextId)
    (by rw [getBox_boxes h1b]; exact hd) hbd (by rw [checkLimits_lim h1l]; exact hlim) (by rw [h1a]; exact hc.add)
  have hcopy : copy s recName [u] dst = (.ok [u] [bd.uidNext], s2) := by
    unfold copy
    simp only [hb, hrn, hd, selectUids, List.filterMap_cons, hsel, List.filterMap_nil, List.map_cons, List.map_nil,
      beq_self_eq_true, ↓reduceIte, withTx, copyOutOfRecovery, importAll, h1, Bool.false_and, Bool.false_eq_true, h2, txFinish]
    simp [copyUidItem]
  refine ⟨s2, hcopy, ⟨_, s.nextId, h2b, by simp, by rw [h2s]; exact h1s⟩, (copy_out_spec hcopy).1⟩

/-- MOVE of one recovered message out of the recovery mailbox succeeds and delivers the bytes -/
theorem move_can {s : St} {bs bd : Mbox} {u id : Nat} {l : Lit} {dst : String}
    (hb : getBox s.db recName = some bs) (hsel : bs.msgs.find? (·.1 == u) = some (u, id))
    (hst : s.store.lookup id = some l) (hp : l.parseOk = true) (hrn : isRecName dst = false)
    (hd : getBox s.db dst = some bd) (hlim : checkLimits s bd 1 = true) (hf : IdsFresh s) (hc : NextCallsOk s.sc) :
    ∃ s', move s recName [u] dst = (.ok [u] [bd.uidNext], s') ∧
      Holds s' dst bd.uidNext { l with gid := .id s.nextId } ∧
      recMsgs s' = (recMsgs s).filter (fun p => !([id].contains p.2)) := by
  have hdn : dst ≠ recName := ne_recName_of_not_isRecName hrn
  have hbd : boxHas bd s.nextId = false := hf.2 bd (List.mem_of_find?_eq_some hd)
  obtain ⟨s1, h1, h1b, h1s, h1a, h1l, _⟩ :=
    importRecovered_can (s := { s with txIns := false, txErase := false }) (id := id) (l := l) hst hp hf.1 hc
  simp only at h1 h1b h1s h1a h1l
  -- the state in which the destination is written
  have hfe := hmErase_fields
    { s1 with db := (updBox { s1.db with rows := s1.db.rows.map (fun p => if p.1 == id then (p.1, { p.2 with deleted := true }) else p) } recName (fun b => b.remove [id])) } [id]
  obtain ⟨s2, h2, h2s, h2b⟩ := addRecovered_can
    (s := { hmErase { s1 with db := (updBox { s1.db with rows := s1.db.rows.map (fun p => if p.1 == id then (p.1, { p.2 with deleted := true }) else p) } recName (fun b => b.remove [id])) } [id] with txErase := true })
    (dst := dst) (bd := bd) (nid := s.nextId)
    (by
      simp only [hfe.1]
      rw [getBox_updBox_ne _ _ _ _ (fun b => remove_name b [id]) hdn]
      rw [getBox_boxes (db := s.db) (by simp [h1b])]; exact hd)
    hbd
    (by rw [checkLimits_lim (s := s) (by simp only [hfe.2.2.2.2.2.2.2.2.1]; exact h1l)]; exact hlim)
    (by simp only [hfe.2.2.2.2.2.2.2.1]; rw [h1a]; exact hc.add)
  have hmove : move s recName [u] dst = (.ok [u] [bd.uidNext], s2) := by
    unfold move
    simp only [hb, hrn, hd, selectUids, List.filterMap_cons, hsel, List.filterMap_nil, List.map_cons, List.map_nil,
      beq_self_eq_true, ↓reduceIte, withTx, moveOutOfRecovery, importAll, h1, Bool.true_and, Bool.not_false, Bool.false_eq_true, h2, txFinish]
    simp [copyUidItem]
  refine ⟨s2, hmove, ⟨_, s.nextId, h2b, by simp, ?_⟩, ?_⟩
  · rw [h2s]; simp only [hfe.2.1]; exact h1s
  · obtain ⟨_, hh⟩ := move_out_spec hmove
    obtain ⟨_, bs', hbs', _, hr⟩ := hh _ _ rfl
    rw [hb] at hbs'
    cases hbs'
    rw [hr]
    simp [selectUids, hsel]

theorem reachable_run {H : Nat → Nat} (cmds : List Cmd) : ∀ s, Reachable H s → Reachable H (run H s cmds).2 := by
  induction cmds with
  | nil => intro s h; exact h
  | cons c r ih => intro s h; exact ih _ (Reachable.step c h)

end Gluon.Append
