/-
MessagesCreated: the last loop of `applyMessagesCreated` ranges over a Go *map* (`messageForMBox`),
so the order in which the mailboxes are visited is unspecified.  `assignAll` visits them in the
order of the list.  Here: every visit only reads and writes its own mailbox, hence

* `assignAll` fails iff one of the entries fails by itself (`assignErrs ≠ []`), and the error it
  reports is one of `assignErrs`;
* for two orders of the same entries (a permutation; keys pairwise different) the index after a
  success is the same, failure happens for the one iff for the other, and the possible errors are
  the same up to order;
* the keys of the accumulator built by `mscLoop` are pairwise different (no hypothesis on the index).
* with an index inside its invariant (`InvP`) the only error a mailbox can raise is a limit error, so
  the acknowledged error does not depend on the order either.
-/
import GluonModel.Lemmas.ConnCreated4

namespace Gluon.ConnUpd

/-- the index of a successful result -/
def okDB {α : Type} : Except Err (DB × α) → Option DB
  | .ok (d, _) => some d
  | .error _ => none

/-- the error of a failed result -/
def errOf {α : Type} : Except Err α → Option Err
  | .ok _ => none
  | .error e => some e

/-! ### one visit as a point update of its own mailbox -/

def appendRows (n : Nat) (rows : List Row) (m : Mbox) : Mbox := { m with seq := m.seq + n, rows := m.rows ++ rows }

/-- what an accepted entry does to its mailbox (looked up in `db`) -/
def stepFn (db : DB) (e : Nat × List (Nat × RID)) : Mbox → Mbox :=
  if (assignToAdd db e).isEmpty then id
  else
    match db.mboxByIid e.1 with
    | none => id
    | some mb => appendRows (assignToAdd db e).length (mkRows (mb.seq + 1) (assignToAdd db e))

/-- the index after entry `e` was accepted -/
def stepDB (db : DB) (e : Nat × List (Nat × RID)) : DB := db.updMbox e.1 (stepFn db e)

theorem stepFn_iid (db : DB) (e : Nat × List (Nat × RID)) (m : Mbox) : (stepFn db e m).iid = m.iid := by
  unfold stepFn
  split
  · rfl
  · cases db.mboxByIid e.1 <;> rfl

theorem updMbox_id (db : DB) (k : Nat) : db.updMbox k id = db := by
  unfold DB.updMbox
  have : db.mboxes.map (fun m => if m.iid == k then id m else m) = db.mboxes :=
    map_id_of_forall _ _ (by intro m _; split <;> rfl)
  rw [this]

theorem updMbox_comm (db : DB) (a b : Nat) (f g : Mbox → Mbox) (hf : ∀ m, (f m).iid = m.iid)
    (hg : ∀ m, (g m).iid = m.iid) (hab : a ≠ b) :
    (db.updMbox a f).updMbox b g = (db.updMbox b g).updMbox a f := by
  unfold DB.updMbox
  simp only [List.map_map]
  congr 1
  apply List.map_congr_left
  intro m _
  simp only [Function.comp]
  by_cases ha : m.iid = a
  · have hb : ¬ m.iid = b := by rw [ha]; exact hab
    simp [ha, hf, hab]
  · by_cases hb : m.iid = b
    · simp [hb, hg, Ne.symm hab]
    · simp [ha, hb]

theorem assignToAdd_congr (db db' : DB) (e : Nat × List (Nat × RID)) (h : db'.mboxByIid e.1 = db.mboxByIid e.1) :
    assignToAdd db' e = assignToAdd db e := by
  unfold assignToAdd
  rw [h]

theorem stepFn_congr (db db' : DB) (e : Nat × List (Nat × RID)) (h : db'.mboxByIid e.1 = db.mboxByIid e.1) :
    stepFn db' e = stepFn db e := by
  unfold stepFn
  rw [assignToAdd_congr db db' e h, h]

/-- a visit leaves the other mailboxes alone -/
theorem stepDB_mboxByIid_ne (db : DB) (e : Nat × List (Nat × RID)) (j : Nat) (h : j ≠ e.1) :
    (stepDB db e).mboxByIid j = db.mboxByIid j :=
  mboxByIid_updMbox_ne db e.1 _ (stepFn_iid db e) j h

/-- two visits of different mailboxes commute -/
theorem stepDB_comm (db : DB) (a b : Nat × List (Nat × RID)) (hab : a.1 ≠ b.1) :
    stepDB (stepDB db a) b = stepDB (stepDB db b) a := by
  have h1 : stepFn (stepDB db a) b = stepFn db b :=
    stepFn_congr db _ b (stepDB_mboxByIid_ne db a b.1 (Ne.symm hab))
  have h2 : stepFn (stepDB db b) a = stepFn db a :=
    stepFn_congr db _ a (stepDB_mboxByIid_ne db b a.1 hab)
  show (stepDB db a).updMbox b.1 (stepFn (stepDB db a) b) = (stepDB db b).updMbox a.1 (stepFn (stepDB db b) a)
  rw [h1, h2]
  exact updMbox_comm db a.1 b.1 _ _ (stepFn_iid db a) (stepFn_iid db b) hab

/-! ### `addMessages`: its verdict only depends on the mailbox it is about -/

theorem addMessages_ok_db {cfg : Cfg} {db : DB} {k : Nat} {l : List (Nat × RID)} {db1 : DB} {ev : Ev}
    (h : addMessages cfg db k l = .ok (db1, ev)) :
    ∃ mb, db.mboxByIid k = some mb ∧ db1 = db.updMbox k (appendRows l.length (mkRows (mb.seq + 1) l)) := by
  unfold addMessages at h
  cases hm : db.mboxByIid k with
  | none => simp [hm] at h
  | some mb =>
    simp only [hm] at h
    split at h
    · cases h
    · split at h
      · cases h
      · split at h
        · cases h
        · simp only [Except.ok.injEq, Prod.mk.injEq] at h
          exact ⟨mb, rfl, h.1.symm⟩

theorem addMessages_err_congr (cfg : Cfg) (db db' : DB) (k : Nat) (l : List (Nat × RID))
    (h : db'.mboxByIid k = db.mboxByIid k) : errOf (addMessages cfg db' k l) = errOf (addMessages cfg db k l) := by
  unfold addMessages
  rw [h]
  cases db.mboxByIid k with
  | none => rfl
  | some mb =>
    simp only
    split
    · rfl
    · split
      · rfl
      · split <;> rfl

theorem assignErrOne_eq (cfg : Cfg) (db : DB) (e : Nat × List (Nat × RID)) :
    assignErrOne cfg db e =
      if (assignToAdd db e).isEmpty then none else errOf (addMessages cfg db e.1 (assignToAdd db e)) := by
  unfold assignErrOne
  split
  · rfl
  · cases addMessages cfg db e.1 (assignToAdd db e) <;> rfl

/-- the error an entry raises by itself only depends on its own mailbox -/
theorem assignErrOne_congr (cfg : Cfg) (db db' : DB) (e : Nat × List (Nat × RID))
    (h : db'.mboxByIid e.1 = db.mboxByIid e.1) : assignErrOne cfg db' e = assignErrOne cfg db e := by
  rw [assignErrOne_eq, assignErrOne_eq, assignToAdd_congr db db' e h, addMessages_err_congr cfg db db' e.1 _ h]

theorem filterMap_congr_mem {α β : Type} (f g : α → Option β) : ∀ l : List α, (∀ x ∈ l, f x = g x) →
    l.filterMap f = l.filterMap g := by
  intro l
  induction l with
  | nil => intro _; rfl
  | cons a l ih =>
    intro h
    simp only [List.filterMap_cons, h a List.mem_cons_self, ih (fun x hx => h x (List.mem_cons_of_mem _ hx))]

theorem assignErrs_stepDB (cfg : Cfg) (db : DB) (a : Nat × List (Nat × RID)) (l : FM) (h : a.1 ∉ fmKeys l) :
    assignErrs cfg (stepDB db a) l = assignErrs cfg db l := by
  unfold assignErrs
  apply filterMap_congr_mem
  intro e he
  apply assignErrOne_congr
  apply stepDB_mboxByIid_ne
  intro hk
  exact h (by rw [← hk]; exact List.mem_map_of_mem he)

/-! ### `assignAll`, one entry at a time -/

theorem assignAll_cons_skip (cfg : Cfg) (db : DB) (e : Nat × List (Nat × RID)) (rest : FM)
    (h : (assignToAdd db e).isEmpty = true) : assignAll cfg db (e :: rest) = assignAll cfg db rest := by
  obtain ⟨k, pairs⟩ := e
  unfold assignToAdd at h
  cases hm : db.mboxByIid k with
  | none =>
    simp only [hm] at h
    simp only [assignAll, hm, h, if_true]
  | some m =>
    simp only [hm] at h
    simp only [assignAll, hm, h, if_true]

theorem assignAll_cons_err (cfg : Cfg) (db : DB) (e : Nat × List (Nat × RID)) (rest : FM) (err : Err)
    (h : (assignToAdd db e).isEmpty = false) (ha : addMessages cfg db e.1 (assignToAdd db e) = .error err) :
    assignAll cfg db (e :: rest) = .error err := by
  obtain ⟨k, pairs⟩ := e
  unfold assignToAdd at h ha
  cases hm : db.mboxByIid k with
  | none =>
    simp only [hm] at h ha
    simp only [assignAll, hm, h, Bool.false_eq_true, if_false, ha]
  | some m =>
    simp only [hm] at h ha
    simp only [assignAll, hm, h, Bool.false_eq_true, if_false, ha]

theorem assignAll_cons_ok (cfg : Cfg) (db : DB) (e : Nat × List (Nat × RID)) (rest : FM) (db1 : DB) (ev : Ev)
    (h : (assignToAdd db e).isEmpty = false) (ha : addMessages cfg db e.1 (assignToAdd db e) = .ok (db1, ev)) :
    (∀ err, assignAll cfg db1 rest = .error err → assignAll cfg db (e :: rest) = .error err) ∧
    (∀ db2 evs, assignAll cfg db1 rest = .ok (db2, evs) → assignAll cfg db (e :: rest) = .ok (db2, ev :: evs)) := by
  obtain ⟨k, pairs⟩ := e
  unfold assignToAdd at h ha
  cases hm : db.mboxByIid k with
  | none =>
    simp only [hm] at h ha
    constructor
    · intro err hr
      simp only [assignAll, hm, h, Bool.false_eq_true, if_false, ha, hr]
    · intro db2 evs hr
      simp only [assignAll, hm, h, Bool.false_eq_true, if_false, ha, hr]
  | some m =>
    simp only [hm] at h ha
    constructor
    · intro err hr
      simp only [assignAll, hm, h, Bool.false_eq_true, if_false, ha, hr]
    · intro db2 evs hr
      simp only [assignAll, hm, h, Bool.false_eq_true, if_false, ha, hr]

theorem stepDB_of_skip (db : DB) (e : Nat × List (Nat × RID)) (h : (assignToAdd db e).isEmpty = true) :
    stepDB db e = db := by
  unfold stepDB stepFn
  rw [if_pos h]
  exact updMbox_id db e.1

theorem stepDB_of_ok (cfg : Cfg) (db : DB) (e : Nat × List (Nat × RID)) (db1 : DB) (ev : Ev)
    (h : (assignToAdd db e).isEmpty = false) (ha : addMessages cfg db e.1 (assignToAdd db e) = .ok (db1, ev)) :
    db1 = stepDB db e := by
  obtain ⟨mb, hmb, hdb⟩ := addMessages_ok_db ha
  rw [hdb]
  unfold stepDB stepFn
  simp only [h, Bool.false_eq_true, if_false, hmb]

/-- **What `assignAll` computes** (keys pairwise different): either no entry fails by itself and the
    result is the index after all visits, or it stops with an error that one of the entries raises by
    itself against the *initial* index. -/
theorem assignAll_char (cfg : Cfg) : ∀ (l : FM) (db : DB), (fmKeys l).Nodup →
    (assignErrs cfg db l = [] ∧ ∃ evs, assignAll cfg db l = .ok (l.foldl stepDB db, evs)) ∨
    (∃ e, e ∈ assignErrs cfg db l ∧ assignAll cfg db l = .error e) := by
  intro l
  induction l with
  | nil =>
    intro db _
    exact Or.inl ⟨rfl, [], rfl⟩
  | cons a rest ih =>
    intro db hnd
    simp only [fmKeys, List.map_cons, List.nodup_cons] at hnd
    have hka : a.1 ∉ fmKeys rest := hnd.1
    cases hemp : (assignToAdd db a).isEmpty with
    | true =>
      have hone : assignErrOne cfg db a = none := by rw [assignErrOne_eq, if_pos hemp]
      have herrs : assignErrs cfg db (a :: rest) = assignErrs cfg db rest := by
        simp only [assignErrs, List.filterMap_cons, hone]
      rw [herrs, assignAll_cons_skip cfg db a rest hemp, List.foldl_cons, stepDB_of_skip db a hemp]
      exact ih db hnd.2
    | false =>
      have hne : ¬ ((assignToAdd db a).isEmpty = true) := by rw [hemp]; exact Bool.false_ne_true
      cases hadd : addMessages cfg db a.1 (assignToAdd db a) with
      | error err =>
        have hone : assignErrOne cfg db a = some err := by rw [assignErrOne_eq, if_neg hne, hadd]; rfl
        refine Or.inr ⟨err, ?_, assignAll_cons_err cfg db a rest err hemp hadd⟩
        simp only [assignErrs, List.filterMap_cons, hone, List.mem_cons, true_or]
      | ok r =>
        obtain ⟨db1, ev⟩ := r
        have hone : assignErrOne cfg db a = none := by rw [assignErrOne_eq, if_neg hne, hadd]; rfl
        have hdb1 : db1 = stepDB db a := stepDB_of_ok cfg db a db1 ev hemp hadd
        have herrs : assignErrs cfg db (a :: rest) = assignErrs cfg db1 rest := by
          rw [hdb1, assignErrs_stepDB cfg db a rest hka]
          simp only [assignErrs, List.filterMap_cons, hone]
        obtain ⟨hcont_err, hcont_ok⟩ := assignAll_cons_ok cfg db a rest db1 ev hemp hadd
        rw [herrs, List.foldl_cons, ← hdb1]
        rcases ih db1 hnd.2 with ⟨h0, evs, hok⟩ | ⟨e, he, herr⟩
        · exact Or.inl ⟨h0, ev :: evs, hcont_ok _ evs hok⟩
        · exact Or.inr ⟨e, he, hcont_err e herr⟩

/-- `assignAll` fails iff one of the entries fails by itself -/
theorem assignAll_fails_iff (cfg : Cfg) (l : FM) (db : DB) (hnd : (fmKeys l).Nodup) :
    (∃ e, assignAll cfg db l = .error e) ↔ assignErrs cfg db l ≠ [] := by
  rcases assignAll_char cfg l db hnd with ⟨h0, evs, hok⟩ | ⟨e, he, herr⟩
  · constructor
    · rintro ⟨e, he⟩; rw [hok] at he; cases he
    · intro h; exact absurd h0 h
  · constructor
    · intro _ h0; rw [h0] at he; cases he
    · intro _; exact ⟨e, herr⟩

/-- …and the error it reports is the error of one of them -/
theorem assignAll_err_mem (cfg : Cfg) (l : FM) (db : DB) (hnd : (fmKeys l).Nodup) (e : Err)
    (h : assignAll cfg db l = .error e) : e ∈ assignErrs cfg db l := by
  rcases assignAll_char cfg l db hnd with ⟨_, evs, hok⟩ | ⟨e', he, herr⟩
  · rw [hok] at h; cases h
  · rw [herr] at h
    cases h
    exact he

theorem okDB_assignAll (cfg : Cfg) (l : FM) (db : DB) (hnd : (fmKeys l).Nodup) :
    okDB (assignAll cfg db l) = if assignErrs cfg db l = [] then some (l.foldl stepDB db) else none := by
  rcases assignAll_char cfg l db hnd with ⟨h0, evs, hok⟩ | ⟨e, he, herr⟩
  · rw [hok, if_pos h0]; rfl
  · have : assignErrs cfg db l ≠ [] := by intro h0; rw [h0] at he; cases he
    rw [herr, if_neg this]; rfl

theorem errOf_assignAll_isSome (cfg : Cfg) (l : FM) (db : DB) (hnd : (fmKeys l).Nodup) :
    (errOf (assignAll cfg db l)).isSome = !(assignErrs cfg db l).isEmpty := by
  rcases assignAll_char cfg l db hnd with ⟨h0, evs, hok⟩ | ⟨e, he, herr⟩
  · rw [hok, h0]; rfl
  · rw [herr]
    cases hl : assignErrs cfg db l with
    | nil => rw [hl] at he; cases he
    | cons _ _ => rfl

/-! ### permutations -/

theorem fmKeys_perm {l l' : FM} (h : l.Perm l') : (fmKeys l).Perm (fmKeys l') := h.map _

theorem fmKeys_nodup_perm {l l' : FM} (h : l.Perm l') (hnd : (fmKeys l).Nodup) : (fmKeys l').Nodup :=
  (fmKeys_perm h).nodup_iff.1 hnd

/-- the visits of a permutation of the entries lead to the same index -/
theorem foldl_stepDB_perm {l l' : FM} (h : l.Perm l') : ∀ db : DB, (fmKeys l).Nodup →
    l.foldl stepDB db = l'.foldl stepDB db := by
  induction h with
  | nil => intro _ _; rfl
  | cons a _ ih =>
    intro db hnd
    simp only [fmKeys, List.map_cons, List.nodup_cons] at hnd
    simp only [List.foldl_cons]
    exact ih _ hnd.2
  | swap a b l =>
    intro db hnd
    simp only [fmKeys, List.map_cons, List.nodup_cons, List.mem_cons, not_or] at hnd
    simp only [List.foldl_cons]
    rw [stepDB_comm db b a hnd.1.1]
  | trans h1 _ ih1 ih2 =>
    intro db hnd
    rw [ih1 db hnd, ih2 db (fmKeys_nodup_perm h1 hnd)]

/-- the errors the entries raise by themselves: the same up to order -/
theorem assignErrs_perm (cfg : Cfg) (db : DB) {l l' : FM} (h : l.Perm l') :
    (assignErrs cfg db l).Perm (assignErrs cfg db l') := h.filterMap _

theorem assignErrs_perm_mem (cfg : Cfg) (db : DB) {l l' : FM} (h : l.Perm l') (e : Err) :
    e ∈ assignErrs cfg db l ↔ e ∈ assignErrs cfg db l' := (assignErrs_perm cfg db h).mem_iff

theorem assignErrs_perm_nil (cfg : Cfg) (db : DB) {l l' : FM} (h : l.Perm l') :
    assignErrs cfg db l = [] ↔ assignErrs cfg db l' = [] := by
  have hp := assignErrs_perm cfg db h
  constructor
  · intro h0; rw [h0] at hp; exact hp.symm.eq_nil
  · intro h0; rw [h0] at hp; exact hp.eq_nil

/-- **The order of the visits is immaterial for the index**: same index on success, failure for the
    one order iff for the other -/
theorem okDB_assignAll_perm (cfg : Cfg) (db : DB) {l l' : FM} (h : l.Perm l') (hnd : (fmKeys l).Nodup) :
    okDB (assignAll cfg db l) = okDB (assignAll cfg db l') := by
  rw [okDB_assignAll cfg l db hnd, okDB_assignAll cfg l' db (fmKeys_nodup_perm h hnd), foldl_stepDB_perm h db hnd]
  by_cases h0 : assignErrs cfg db l = []
  · rw [if_pos h0, if_pos ((assignErrs_perm_nil cfg db h).1 h0)]
  · rw [if_neg h0, if_neg (fun h1 => h0 ((assignErrs_perm_nil cfg db h).2 h1))]

theorem errOf_assignAll_perm (cfg : Cfg) (db : DB) {l l' : FM} (h : l.Perm l') (hnd : (fmKeys l).Nodup) :
    (errOf (assignAll cfg db l)).isSome = (errOf (assignAll cfg db l')).isSome := by
  rw [errOf_assignAll_isSome cfg l db hnd, errOf_assignAll_isSome cfg l' db (fmKeys_nodup_perm h hnd)]
  by_cases h0 : assignErrs cfg db l = []
  · rw [h0, (assignErrs_perm_nil cfg db h).1 h0]
  · have h1 : assignErrs cfg db l' ≠ [] := fun h1 => h0 ((assignErrs_perm_nil cfg db h).2 h1)
    cases hl : assignErrs cfg db l with
    | nil => exact absurd hl h0
    | cons _ _ =>
      cases hl' : assignErrs cfg db l' with
      | nil => exact absurd hl' h1
      | cons _ _ => rfl

/-- …and the error reported under the other order is one of the errors of the entries -/
theorem assignAll_perm_err_mem (cfg : Cfg) (db : DB) {l l' : FM} (h : l'.Perm l) (hnd : (fmKeys l).Nodup) (e : Err)
    (he : assignAll cfg db l' = .error e) : e ∈ assignErrs cfg db l :=
  (assignErrs_perm_mem cfg db h e).1 (assignAll_err_mem cfg l' db (fmKeys_nodup_perm h.symm hnd) e he)

/-! ### the keys of `messageForMBox` are pairwise different (no hypothesis on the index) -/

theorem addPair_keys_nodup (fm : FM) (mb : Nat) (p : Nat × RID) (h : (fmKeys fm).Nodup) :
    (fmKeys (addPair fm mb p)).Nodup := by
  rw [fmKeys_addPair]
  split
  · exact h
  · rename_i hany
    have hnot : mb ∉ fmKeys fm := by
      intro hm
      apply hany
      simp only [fmKeys, List.mem_map] at hm
      obtain ⟨e, he, hek⟩ := hm
      rw [List.any_eq_true]
      exact ⟨e, he, by simp [hek]⟩
    rw [List.nodup_append]
    refine ⟨h, by simp, ?_⟩
    intro a ha b hb
    rw [List.mem_singleton] at hb
    rw [hb]
    intro hab
    exact hnot (hab ▸ ha)

theorem mscMailboxes_keys_nodup (db : DB) (ignore : Bool) (p : Nat × RID) : ∀ (bs : List RID) (fm fm' : FM),
    (fmKeys fm).Nodup → mscMailboxes db ignore p bs fm = .ok fm' → (fmKeys fm').Nodup := by
  intro bs
  induction bs with
  | nil =>
    intro fm fm' h hok
    simp only [mscMailboxes, Except.ok.injEq] at hok
    rw [← hok]; exact h
  | cons b bs ih =>
    intro fm fm' h hok
    unfold mscMailboxes at hok
    cases hm : db.mboxByRid b with
    | none =>
      simp only [hm] at hok
      split at hok
      · exact ih fm fm' h hok
      · cases hok
    | some mb =>
      simp only [hm] at hok
      exact ih _ fm' (addPair_keys_nodup fm mb.iid p h) hok

theorem mscResolve_forMbox (db : DB) (acc : MscAcc) (m : NewMsg) : (mscResolve db acc m).2.forMbox = acc.forMbox := by
  unfold mscResolve
  split
  · rfl
  · split <;> rfl

theorem mscStep_keys_nodup (cfg : Cfg) (db : DB) (ignore : Bool) (acc acc' : MscAcc) (m : NewMsg)
    (h : (fmKeys acc.forMbox).Nodup) (hok : mscStep cfg db ignore acc m = .ok acc') : (fmKeys acc'.forMbox).Nodup := by
  unfold mscStep at hok
  split at hok
  · simp only [Except.ok.injEq] at hok
    rw [← hok]; exact h
  · simp only at hok
    cases hmm : mscMailboxes db ignore ((mscResolve db acc m).1, m.rid) m.mboxes (mscResolve db acc m).2.forMbox with
    | error e => rw [hmm] at hok; cases hok
    | ok fm =>
      rw [hmm] at hok
      simp only [Except.ok.injEq] at hok
      rw [← hok]
      apply mscMailboxes_keys_nodup db ignore _ m.mboxes _ fm _ hmm
      rw [mscResolve_forMbox]; exact h

theorem mscLoop_keys_nodup' (cfg : Cfg) (db : DB) (ignore : Bool) : ∀ (ms : List NewMsg) (acc acc' : MscAcc),
    (fmKeys acc.forMbox).Nodup → mscLoop cfg db ignore acc ms = .ok acc' → (fmKeys acc'.forMbox).Nodup := by
  intro ms
  induction ms with
  | nil =>
    intro acc acc' h hok
    simp only [mscLoop, Except.ok.injEq] at hok
    rw [← hok]; exact h
  | cons m ms ih =>
    intro acc acc' h hok
    unfold mscLoop at hok
    cases hs : mscStep cfg db ignore acc m with
    | error e => rw [hs] at hok; cases hok
    | ok acc1 =>
      rw [hs] at hok
      exact ih acc1 acc' (mscStep_keys_nodup cfg db ignore acc acc1 m h hs) hok

/-- the accumulator `messageForMBox` built by the first loop of `applyMessagesCreated` has one entry
    per mailbox — for every index (no invariant needed), every batch -/
theorem mscLoop_keys_nodup (cfg : Cfg) (db : DB) (ignore : Bool) (ms : List NewMsg) (acc : MscAcc)
    (hok : mscLoop cfg db ignore { toCreate := [], forMbox := [] } ms = .ok acc) : (fmKeys acc.forMbox).Nodup :=
  mscLoop_keys_nodup' cfg db ignore ms { toCreate := [], forMbox := [] } acc List.nodup_nil hok

/-! ### `applyMessagesCreated` under another iteration order -/

/-- the order `ord` picks is immaterial for the index and for success / failure, and the acknowledged
    error is one of `mscPossibleErrs` -/
theorem applyMessagesCreatedIn_spec (ord : FM → FM) (hperm : ∀ l, (ord l).Perm l)
    (cfg : Cfg) (db : DB) (ignore : Bool) (msgs : List NewMsg) :
    (applyMessagesCreatedIn ord cfg db ignore msgs).db = (applyMessagesCreated cfg db ignore msgs).db ∧
    (applyMessagesCreatedIn ord cfg db ignore msgs).err.isSome = (applyMessagesCreated cfg db ignore msgs).err.isSome ∧
    ∀ e, (applyMessagesCreatedIn ord cfg db ignore msgs).err = some e → e ∈ mscPossibleErrs cfg db ignore msgs := by
  unfold applyMessagesCreatedIn applyMessagesCreated mscPossibleErrs
  cases hl : mscLoop cfg db ignore { toCreate := [], forMbox := [] } msgs with
  | error e0 =>
    refine ⟨rfl, rfl, ?_⟩
    intro e he
    simp only [Res.fail, Option.some.injEq] at he
    simp [he]
  | ok acc =>
    simp only
    split
    · refine ⟨rfl, rfl, ?_⟩
      intro e he
      simp [Res.ok] at he
    · have hnd := mscLoop_keys_nodup cfg db ignore msgs acc hl
      have hp := hperm acc.forMbox
      generalize ({ db with msgs := db.msgs ++ acc.toCreate, nextMsg := db.nextMsg + acc.toCreate.length } : DB) = db1
      have hnd' : (fmKeys (ord acc.forMbox)).Nodup := fmKeys_nodup_perm hp.symm hnd
      rcases assignAll_char cfg acc.forMbox db1 hnd with ⟨h0, evs, hok⟩ | ⟨e, he, herr⟩
      · rcases assignAll_char cfg (ord acc.forMbox) db1 hnd' with ⟨h0', evs', hok'⟩ | ⟨e', he', herr'⟩
        · rw [hok, hok', foldl_stepDB_perm hp db1 hnd']
          refine ⟨rfl, rfl, ?_⟩
          intro e he
          simp [Res.ok] at he
        · rw [(assignErrs_perm_nil cfg db1 hp).2 h0] at he'
          cases he'
      · rcases assignAll_char cfg (ord acc.forMbox) db1 hnd' with ⟨h0', evs', hok'⟩ | ⟨e', he', herr'⟩
        · rw [(assignErrs_perm_nil cfg db1 hp).1 h0'] at he
          cases he
        · rw [herr, herr']
          refine ⟨rfl, rfl, ?_⟩
          intro e2 he2
          simp only [Res.fail, Option.some.injEq] at he2
          rw [← he2]
          exact (assignErrs_perm_mem cfg db1 hp e').1 he'

/-! ### with a sane index the only error a mailbox can raise is a limit -/

theorem mscMailboxes_ok_known (db : DB) (ignore : Bool) (p : Nat × RID) : ∀ (bs : List RID) (fm fm' : FM),
    mscMailboxes db ignore p bs fm = .ok fm' → ∀ b ∈ bs, ignore = true ∨ db.known b = true := by
  intro bs
  induction bs with
  | nil => intro _ _ _ b hb; cases hb
  | cons b bs ih =>
    intro fm fm' hok b' hb'
    unfold mscMailboxes at hok
    cases hm : db.mboxByRid b with
    | none =>
      simp only [hm] at hok
      split at hok
      · rename_i hig; exact Or.inl hig
      · cases hok
    | some mb =>
      simp only [hm] at hok
      rcases List.mem_cons.1 hb' with rfl | hb'
      · right; simp [DB.known, hm]
      · exact ih _ fm' hok b' hb'

theorem mscStep_ok_known (cfg : Cfg) (db : DB) (ignore : Bool) (acc acc' : MscAcc) (m : NewMsg)
    (hok : mscStep cfg db ignore acc m = .ok acc') (hrec : m.mboxes.contains cfg.recoveryRID = false) :
    ∀ b ∈ m.mboxes, ignore = true ∨ db.known b = true := by
  unfold mscStep at hok
  simp only [hrec, Bool.false_eq_true, if_false] at hok
  cases hmm : mscMailboxes db ignore ((mscResolve db acc m).1, m.rid) m.mboxes (mscResolve db acc m).2.forMbox with
  | error e => rw [hmm] at hok; cases hok
  | ok fm => exact mscMailboxes_ok_known db ignore _ m.mboxes _ fm hmm

theorem mscLoop_ok_known (cfg : Cfg) (db : DB) (ignore : Bool) : ∀ (ms : List NewMsg) (acc acc' : MscAcc),
    mscLoop cfg db ignore acc ms = .ok acc' →
    ∀ m ∈ ms, m.mboxes.contains cfg.recoveryRID = false → ∀ b ∈ m.mboxes, ignore = true ∨ db.known b = true := by
  intro ms
  induction ms with
  | nil => intro _ _ _ m hm; cases hm
  | cons m ms ih =>
    intro acc acc' hok m' hm'
    unfold mscLoop at hok
    cases hs : mscStep cfg db ignore acc m with
    | error e => rw [hs] at hok; cases hok
    | ok acc1 =>
      rw [hs] at hok
      rcases List.mem_cons.1 hm' with rfl | hm'
      · exact mscStep_ok_known cfg db ignore acc acc1 _ hs
      · exact ih acc1 acc' hok m' hm'

/-- messages that name the recovery mailbox are skipped by the loop -/
theorem mscLoop_filter (cfg : Cfg) (db : DB) (ignore : Bool) : ∀ (ms : List NewMsg) (acc : MscAcc),
    mscLoop cfg db ignore acc ms =
      mscLoop cfg db ignore acc (ms.filter (fun m => !m.mboxes.contains cfg.recoveryRID)) := by
  intro ms
  induction ms with
  | nil => intro _; rfl
  | cons m ms ih =>
    intro acc
    cases hrec : m.mboxes.contains cfg.recoveryRID with
    | true =>
      have hs : mscStep cfg db ignore acc m = .ok acc := by unfold mscStep; simp only [hrec, if_true]
      rw [List.filter_cons_of_neg (by simp only [hrec]; decide), ← ih acc]
      simp only [mscLoop, hs]
    | false =>
      rw [List.filter_cons_of_pos (by simp only [hrec]; decide)]
      unfold mscLoop
      cases mscStep cfg db ignore acc m with
      | error e => rfl
      | ok acc1 => exact ih acc1

theorem addMessages_err_limit (cfg : Cfg) (db : DB) (k : Nat) (l : List (Nat × RID)) (B : Mbox)
    (hB : db.mboxByIid k = some B) (h3 : hasDupMsg l = false)
    (h4 : l.all (fun p => B.rows.all (fun r => r.msg != p.1 && r.rid != p.2)) = true) (err : Err)
    (he : errOf (addMessages cfg db k l) = some err) : err = .limit := by
  have h34 : (hasDupMsg l || l.any (fun p => B.rows.any (fun r => r.msg == p.1 || r.rid == p.2))) = false := by
    rw [h3, Bool.false_or, List.any_eq_false]
    intro p hp
    rw [List.all_eq_true] at h4
    have := h4 p hp
    rw [List.all_eq_true] at this
    rw [Bool.not_eq_true, List.any_eq_false]
    intro r hr
    have := this r hr
    simp only [Bool.and_eq_true, bne_iff_ne, ne_eq] at this
    simp [this.1, this.2]
  unfold addMessages at he
  simp only [hB, h34, Bool.false_eq_true, if_false] at he
  split at he
  · simp only [errOf, Option.some.injEq] at he; exact he.symm
  · split at he
    · simp only [errOf, Option.some.injEq] at he; exact he.symm
    · simp [errOf] at he

/-- **With an index inside its invariant no mailbox raises anything but a limit error** (the UNIQUE
    constraints cannot fire: the remote-id copies in the rows agree with the message table), so the
    acknowledged error does not depend on the iteration order at all. -/
theorem assignErrs_limit_of_inv (cfg : Cfg) (db : DB) (hi : InvP db) (ignore : Bool) (ms : List NewMsg) (acc : MscAcc)
    (hl : mscLoop cfg db ignore { toCreate := [], forMbox := [] } ms = .ok acc) :
    ∀ e ∈ assignErrs cfg { db with msgs := db.msgs ++ acc.toCreate, nextMsg := db.nextMsg + acc.toCreate.length }
      acc.forMbox, e = .limit := by
  have hknown := mscLoop_ok_known cfg db ignore ms _ acc hl
  rw [mscLoop_filter] at hl
  have hms : ∀ m ∈ ms.filter (fun m => !m.mboxes.contains cfg.recoveryRID),
      m.mboxes.contains cfg.recoveryRID = false ∧ ∀ b ∈ m.mboxes, ignore = true ∨ db.known b = true := by
    intro m hm
    rw [List.mem_filter] at hm
    have hrec : m.mboxes.contains cfg.recoveryRID = false := by simpa using hm.2
    exact ⟨hrec, hknown m hm.1 hrec⟩
  obtain ⟨acc', hloop, htc, hfm, _⟩ := mscLoop_inv cfg db hi ignore _ [] { toCreate := [], forMbox := [] } hms
    (tcInv_nil db) (fmInv_nil db) (by intro m hm; cases hm)
  simp only [List.nil_append] at htc hfm
  rw [hl] at hloop
  cases hloop
  intro err herr
  simp only [assignErrs, List.mem_filterMap] at herr
  obtain ⟨e, he, hone⟩ := herr
  obtain ⟨B, hB, hBi⟩ := hfm.mbox e.1 (List.mem_map_of_mem he)
  have hlook : DB.mboxByIid { db with msgs := db.msgs ++ acc.toCreate, nextMsg := db.nextMsg + acc.toCreate.length } e.1
      = some B := by rw [← hBi]; exact mboxByIid_of_mem hi hB
  -- the constraint part of `okToAdd` does not depend on the limits: take limits that leave room
  have hok := okToAdd_of { cfg with maxMessages := B.rows.length + (ms.filter (fun m => !m.mboxes.contains cfg.recoveryRID)).length,
                                    maxUID := B.seq + 1 + (ms.filter (fun m => !m.mboxes.contains cfg.recoveryRID)).length }
    db hi _ acc.toCreate acc.forMbox htc hfm B hB (by simp [roomFor])
  rw [hBi, pairsOf_of_mem acc.forMbox hfm.nodup e he] at hok
  have hta : assignToAdd { db with msgs := db.msgs ++ acc.toCreate, nextMsg := db.nextMsg + acc.toCreate.length } e
      = toAddOf B e.2 := by
    unfold assignToAdd
    rw [hlook]
    rfl
  rw [assignErrOne_eq, hta] at hone
  split at hone
  · cases hone
  · exact addMessages_err_limit cfg _ e.1 _ B hlook hok.2.2.1 hok.2.2.2 err hone

/-- under the invariant the acknowledged error is the same for every iteration order -/
theorem applyMessagesCreatedIn_err_of_inv (ord : FM → FM) (hperm : ∀ l, (ord l).Perm l)
    (cfg : Cfg) (db : DB) (hi : InvP db) (ignore : Bool) (msgs : List NewMsg) :
    (applyMessagesCreatedIn ord cfg db ignore msgs).err = (applyMessagesCreated cfg db ignore msgs).err := by
  obtain ⟨_, hsome, hmem⟩ := applyMessagesCreatedIn_spec ord hperm cfg db ignore msgs
  obtain ⟨_, _, hmem'⟩ := applyMessagesCreatedIn_spec id (fun l => List.Perm.refl l) cfg db ignore msgs
  have hid : applyMessagesCreatedIn id cfg db ignore msgs = applyMessagesCreated cfg db ignore msgs := rfl
  rw [hid] at hmem'
  cases hl : mscLoop cfg db ignore { toCreate := [], forMbox := [] } msgs with
  | error e0 => simp only [applyMessagesCreatedIn, applyMessagesCreated, hl]
  | ok acc =>
    have hlim := assignErrs_limit_of_inv cfg db hi ignore msgs acc hl
    have hposs : ∀ e ∈ mscPossibleErrs cfg db ignore msgs, e = .limit := by
      intro e he
      unfold mscPossibleErrs at he
      simp only [hl] at he
      split at he
      · cases he
      · exact hlim e he
    cases h1 : (applyMessagesCreatedIn ord cfg db ignore msgs).err with
    | none =>
      cases h2 : (applyMessagesCreated cfg db ignore msgs).err with
      | none => rfl
      | some e2 => rw [h1, h2] at hsome; cases hsome
    | some e1 =>
      cases h2 : (applyMessagesCreated cfg db ignore msgs).err with
      | none => rw [h1, h2] at hsome; cases hsome
      | some e2 => rw [hposs e1 (hmem e1 h1), hposs e2 (hmem' e2 h2)]

/-! ### the first loop can only fail with "not found" -/

theorem mscMailboxes_err (db : DB) (ignore : Bool) (p : Nat × RID) : ∀ (bs : List RID) (fm : FM) (e : Err),
    mscMailboxes db ignore p bs fm = .error e → e = .notFound := by
  intro bs
  induction bs with
  | nil => intro fm e h; simp [mscMailboxes] at h
  | cons b bs ih =>
    intro fm e h
    unfold mscMailboxes at h
    cases hm : db.mboxByRid b with
    | none =>
      simp only [hm] at h
      split at h
      · exact ih fm e h
      · simp only [Except.error.injEq] at h; exact h.symm
    | some mb =>
      simp only [hm] at h
      exact ih _ e h

theorem mscLoop_err (cfg : Cfg) (db : DB) (ignore : Bool) : ∀ (ms : List NewMsg) (acc : MscAcc) (e : Err),
    mscLoop cfg db ignore acc ms = .error e → e = .notFound := by
  intro ms
  induction ms with
  | nil => intro acc e h; simp [mscLoop] at h
  | cons m ms ih =>
    intro acc e h
    unfold mscLoop at h
    cases hs : mscStep cfg db ignore acc m with
    | ok acc1 => rw [hs] at h; exact ih acc1 e h
    | error e1 =>
      rw [hs] at h
      simp only [Except.error.injEq] at h
      subst h
      unfold mscStep at hs
      split at hs
      · cases hs
      · simp only at hs
        cases hmm : mscMailboxes db ignore ((mscResolve db acc m).1, m.rid) m.mboxes (mscResolve db acc m).2.forMbox with
        | ok fm => rw [hmm] at hs; cases hs
        | error e2 =>
          rw [hmm] at hs
          simp only [Except.error.injEq] at hs
          rw [← hs]
          exact mscMailboxes_err db ignore _ m.mboxes _ e2 hmm

/-- with an index inside its invariant: "not found" (an unknown mailbox, first loop) or a limit -/
theorem mscPossibleErrs_of_inv (cfg : Cfg) (db : DB) (hi : InvP db) (ignore : Bool) (msgs : List NewMsg) :
    ∀ e ∈ mscPossibleErrs cfg db ignore msgs, e = .notFound ∨ e = .limit := by
  intro e he
  unfold mscPossibleErrs at he
  cases hl : mscLoop cfg db ignore { toCreate := [], forMbox := [] } msgs with
  | error e0 =>
    simp only [hl, List.mem_singleton] at he
    rw [he]
    exact Or.inl (mscLoop_err cfg db ignore msgs _ e0 hl)
  | ok acc =>
    simp only [hl] at he
    split at he
    · cases he
    · exact Or.inr (assignErrs_limit_of_inv cfg db hi ignore msgs acc hl e he)

end Gluon.ConnUpd
