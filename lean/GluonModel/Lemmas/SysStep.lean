/- Every step of the system model keeps the system invariant `SysInv`, under `NoOvertake` for the step. -/
import GluonModel.Lemmas.SysCmd

namespace Gluon.Sys
open Gluon

/-! ### what a session's responders can be after it applied updates -/

theorem apply_res_subset {sid : StateId} {cu cs : Bool} {s : Sess} {mb : Nat} {u : Update} (hsel : s.sel = some mb) :
    ∀ r ∈ (s.apply sid cu cs u).res, r ∈ s.res ∨ r ∈ u.pend sid mb cu cs := by
  intro r hr
  unfold Sess.apply at hr
  rw [hsel] at hr
  simp only at hr
  split at hr
  · next h =>
    simp only [Bool.and_eq_true] at h
    rcases List.mem_append.mp hr with h1 | h1
    · exact Or.inl h1
    · exact Or.inr (by simp [Update.pend, h.1, h1])
  · exact Or.inl hr

theorem applyAll_res_subset {sid : StateId} {cu cs : Bool} {s : Sess} {mb : Nat} {us : List Update} (hsel : s.sel = some mb) :
    ∀ r ∈ (s.applyAll sid cu cs us).res, r ∈ s.res ∨ r ∈ pendC sid mb cu cs us := by
  induction us generalizing s with
  | nil => intro r hr; exact Or.inl hr
  | cons u us ih =>
    intro r hr
    simp only [Sess.applyAll, List.foldl_cons] at hr ih
    rcases ih (s := s.apply sid cu cs u) (by rw [apply_sel]; exact hsel) r hr with h | h
    · rcases apply_res_subset hsel r h with h' | h'
      · exact Or.inl h'
      · exact Or.inr (by rw [pendC_cons]; exact List.mem_append_left _ h')
    · exact Or.inr (by rw [pendC_cons]; exact List.mem_append_right _ h)

/-- whether updates contribute anything does not depend on the context flags -/
theorem pendC_nil_ctx {sid : StateId} {mb : Nat} {cu cs cu' cs' : Bool} {us : List Update}
    (h : pendC sid mb cu cs us = []) : pendC sid mb cu' cs' us = [] := by
  induction us with
  | nil => rfl
  | cons u us ih =>
    rw [pendC_cons, List.append_eq_nil_iff] at h
    rw [pendC_cons, ih h.2, List.append_nil]
    have h1 := h.1
    unfold Update.pend at h1 ⊢
    split
    · next hm =>
      simp only [hm, if_true] at h1
      cases u with
      | «exists» mb' items st => simpa [Update.responders] using h1
      | expunge mb' id => simp [Update.responders] at h1
      | remoteFlag id add flag => simp [Update.responders] at h1
      | flags mb' origin parts =>
        simp only [Update.responders, List.flatMap_eq_nil_iff, List.map_eq_nil_iff] at h1 ⊢
        exact h1
    · rfl

/-! ### the per-session invariant under the session-level steps -/

theorem SessInv.flush {idx : Index} {i : Nat} {s : Sess} (h : SessInv idx i s) (p : Bool) :
    SessInv idx i (s.flush (sidOf i) p).1 := by
  unfold SessInv at h ⊢
  simp only [Sess.flush]
  cases hs : s.sel with
  | none => trivial
  | some mb =>
    rw [hs] at h
    obtain ⟨hmb, hh, hi⟩ := h
    simp only
    refine ⟨hmb, ?_, ?_⟩
    · unfold Sess.virt at hh ⊢
      cases p with
      | true => exact hh.flush_true_frame.1
      | false => exact hh.flush_false_frame.1
    · unfold Sess.virt at hh
      constructor
      · intro x hx
        simp only at hx
        have key : s.snap.has x.id = true ∨ ∃ r ∈ s.res, r.isExists = true ∧ r.msgId = x.id := by
          cases p with
          | true => exact hh.flush_true_frame.2.2.1 x hx
          | false => exact hh.flush_false_frame.2.2.1 x hx
        rcases key with h1 | ⟨r, hr, hex, hid⟩
        · simp only [Snap.has, List.any_eq_true] at h1
          obtain ⟨y, hy, hyid⟩ := h1
          have : y.id = x.id := by simpa using hyid
          rw [← this]; exact hi.snap y hy
        · rw [← hid]; exact hi.queue r (List.mem_append_left _ hr) hex
      · intro r hr hex
        simp only at hr
        rcases List.mem_append.mp hr with h1 | h1
        · apply hi.queue r _ hex
          apply List.mem_append_left
          cases p with
          | true => rw [hh.flush_true_frame.2.2.2] at h1; cases h1
          | false => exact hh.flush_false_frame.2.2.2 r h1 hex
        · exact hi.queue r (List.mem_append_right _ h1) hex

theorem SessInv.drain {idx : Index} {i : Nat} {s : Sess} (h : SessInv idx i s) (k : Nat) :
    SessInv idx i (s.drain (sidOf i) k) := by
  unfold SessInv at h ⊢
  rw [drain_sel]
  cases hs : s.sel with
  | none => trivial
  | some mb =>
    rw [hs] at h
    obtain ⟨hmb, hh, hi⟩ := h
    refine ⟨hmb, drain_hist hs hh, ?_⟩
    constructor
    · intro x hx
      simp only [Sess.drain, applyAll_snap] at hx
      exact hi.snap x hx
    · intro r hr hex
      simp only [Sess.drain, applyAll_inbox] at hr
      apply hi.queue r _ hex
      have hsplit : pendOf (sidOf i) mb s.inbox = pendOf (sidOf i) mb (s.inbox.take k) ++ pendOf (sidOf i) mb (s.inbox.drop k) := by
        rw [← pendOf_append, List.take_append_drop]
      rw [hsplit]
      rcases List.mem_append.mp hr with h1 | h1
      · rcases applyAll_res_subset (s := { s with inbox := s.inbox.drop k }) hs r h1 with h2 | h2
        · exact List.mem_append_left _ h2
        · exact List.mem_append_right _ (List.mem_append_left _ h2)
      · exact List.mem_append_right _ (List.mem_append_right _ h1)

/-- another party's write reaches the session's queue -/
theorem SessInv.enqueue {idx idx' : Index} {ups : List Update} (hd : Delivers idx idx' ups) {i : Nat} {s : Sess}
    (h : SessInv idx i s) : SessInv idx' i (s.enqueue ups) := by
  unfold SessInv at h ⊢
  simp only [Sess.enqueue]
  cases hs : s.sel with
  | none => trivial
  | some mb =>
    rw [hs] at h
    obtain ⟨hmb, hh, hi⟩ := h
    simp only
    refine ⟨by rw [hd.len]; exact hmb, ?_, ?_⟩
    · unfold Sess.virt at hh ⊢
      simp only
      rw [pendOf_append, ← List.append_assoc]
      exact hd.hist (sidOf i) mb false false s.snap _ hmb hh
    · constructor
      · intro x hx
        exact Nat.lt_of_lt_of_le (hi.snap x hx) hd.next
      · intro r hr hex
        simp only at hr
        rw [pendOf_append, ← List.append_assoc] at hr
        rcases List.mem_append.mp hr with h1 | h1
        · exact Nat.lt_of_lt_of_le (hi.queue r h1 hex) hd.next
        · exact hd.ids (sidOf i) mb false false r h1 hex

/-- the issuer applies its own command's updates at once -/
theorem SessInv.own {idx idx' : Index} {ups : List Update} (hd : Delivers idx idx' ups) {i : Nat} {s : Sess} (silent : Bool)
    (hno : ∀ mb, s.sel = some mb → pendOf (sidOf i) mb s.inbox = [] ∨ pendOf (sidOf i) mb ups = [])
    (h : SessInv idx i s) : SessInv idx' i (s.applyAll (sidOf i) false silent ups) := by
  unfold SessInv at h ⊢
  rw [applyAll_sel]
  cases hs : s.sel with
  | none => trivial
  | some mb =>
    rw [hs] at h
    obtain ⟨hmb, hh, hi⟩ := h
    simp only
    unfold Sess.virt at hh
    -- the virtual queue with the command's responders put where `QueueOrApplyStateUpdate` puts them
    have hmid : HistInv (sidOf i) { snap := s.snap, res := s.res ++ pendC (sidOf i) mb false silent ups ++ pendOf (sidOf i) mb s.inbox }
        (idx'.mbox mb) := by
      rcases hno mb hs with h0 | h0
      · rw [h0, List.append_nil] at hh ⊢
        exact hd.hist (sidOf i) mb false silent s.snap _ hmb hh
      · have h0' : pendC (sidOf i) mb false silent ups = [] := pendC_nil_ctx h0
        rw [h0', List.append_nil]
        have := hd.hist (sidOf i) mb false silent s.snap _ hmb hh
        rwa [h0', List.append_nil] at this
    refine ⟨by rw [hd.len]; exact hmb, ?_, ?_⟩
    · unfold Sess.virt
      rw [applyAll_snap, applyAll_inbox]
      exact applyAll_hist hs hmid
    · constructor
      · intro x hx
        rw [applyAll_snap] at hx
        exact Nat.lt_of_lt_of_le (hi.snap x hx) hd.next
      · intro r hr hex
        rw [applyAll_inbox] at hr
        rcases List.mem_append.mp hr with h1 | h1
        · rcases applyAll_res_subset hs r h1 with h2 | h2
          · exact Nat.lt_of_lt_of_le (hi.queue r (List.mem_append_left _ h2) hex) hd.next
          · exact hd.ids (sidOf i) mb false silent r h2 hex
        · exact Nat.lt_of_lt_of_le (hi.queue r (List.mem_append_right _ h1) hex) hd.next

theorem SessInv.endFlushes {idx : Index} {i : Nat} {s : Sess} (h : SessInv idx i s) (e : Effect) :
    SessInv idx i (endFlushes (sidOf i) e s).1 := by
  unfold Sys.endFlushes
  cases hf : e.flush1 with
  | none =>
    simp only
    split
    · exact h.flush false
    · exact h
  | some p =>
    simp only
    split
    · exact (h.flush p).flush false
    · exact h.flush p

/-! ### one step -/

theorem getElem?_set_self' {α} {l : List α} {i : Nat} {x y : α} (h : l[i]? = some y) : (l.set i x)[i]? = some x := by
  have : i < l.length := by
    rcases Nat.lt_or_ge i l.length with h' | h'
    · exact h'
    · rw [List.getElem?_eq_none h'] at h; cases h
  simp [List.getElem?_set, this]

theorem Sess.closeEnd_ok {sid : StateId} {me1 : Sess}
    (h : ∀ er, (Gluon.flush true true sid me1.snap me1.res).result ≠ .err er) :
    me1.closeEnd sid = ({ me1 with sel := none, snap := [], res := [] }, {}) := by
  unfold Sess.closeEnd
  cases hr : (Gluon.flush true true sid me1.snap me1.res).result with
  | err er => exact absurd hr (h er)
  | ok out => simp only [hr]
  | mergePanic => simp only [hr]

/-- under the session invariant CLOSE ends well: the flush does not fail, the mailbox is closed -/
theorem SessInv.closeEnd {idx : Index} {i : Nat} {s : Sess} {mb : Nat} (h : SessInv idx i s) (hs : s.sel = some mb) :
    s.closeEnd (sidOf i) = ({ s with sel := none, snap := [], res := [] }, {}) := by
  apply Sess.closeEnd_ok
  intro er
  unfold SessInv at h
  rw [hs] at h
  have hh := h.2.1
  unfold Sess.virt at hh
  exact hh.close_flush_not_err er

/-- **one step keeps the invariant** -/
theorem step_inv {s : Sys} (h : SysInv s) (op : SysOp) (hv : op.Valid) (hno : OpNoOvertake s op) :
    SysInv (step s op).1 := by
  cases op with
  | drain i k =>
    simp only [step]
    cases hi : s.sess[i]? with
    | none => exact h
    | some me =>
      simp only
      refine ⟨h.wf, ?_⟩
      intro j x hx
      simp only [Sys.setSess, List.getElem?_set] at hx
      split at hx
      · next hij =>
        subst hij
        split at hx
        · simp only [Option.some.injEq] at hx; subst hx
          exact (h.sess i me hi).drain k
        · cases hx
      · exact h.sess j x hx
  | flush i p =>
    simp only [step]
    cases hi : s.sess[i]? with
    | none => exact h
    | some me =>
      simp only
      cases hs : me.sel with
      | none => exact h
      | some mb =>
        simp only
        refine ⟨h.wf, ?_⟩
        intro j x hx
        simp only [Sys.setSess, List.getElem?_set] at hx
        split at hx
        · next hij =>
          subst hij
          split at hx
          · simp only [Option.some.injEq] at hx; subst hx
            exact (h.sess i me hi).flush p
          · cases hx
        · exact h.sess j x hx
  | unselect i =>
    simp only [step]
    cases hi : s.sess[i]? with
    | none => exact h
    | some me =>
      simp only
      cases hs : me.sel with
      | none => exact h
      | some mb =>
        simp only
        refine ⟨h.wf, ?_⟩
        intro j x hx
        simp only [Sys.setSess, List.getElem?_set] at hx
        split at hx
        · next hij =>
          subst hij
          split at hx
          · simp only [Option.some.injEq] at hx; subst hx
            simp [SessInv]
          · cases hx
        · exact h.sess j x hx
  | select i mb =>
    simp only [step]
    cases hi : s.sess[i]? with
    | none => exact h
    | some me =>
      simp only
      split
      · exact h
      · next hmb =>
        refine ⟨h.wf, ?_⟩
        intro j x hx
        simp only [Sys.setSess, List.getElem?_set] at hx
        split at hx
        · next hij =>
          subst hij
          split at hx
          · simp only [Option.some.injEq] at hx; subst hx
            have hp := hno me hi
            simp only [SessInv]
            refine ⟨(by omega : mb < s.idx.boxes.length), ?_, ?_⟩
            · unfold Sess.virt
              simp only [List.nil_append, hp]
              exact HistInv.init (sameView_snapOf _) (h.wf.box mb)
            · constructor
              · intro y hy
                simp only [snapOf, List.mem_map] at hy
                obtain ⟨m, hm, rfl⟩ := hy
                simp only [Index.view, List.mem_map] at hm
                obtain ⟨r, hr, rfl⟩ := hm
                exact h.wf.fresh mb r hr
              · intro r hr
                simp only [List.nil_append, hp] at hr
                cases hr
          · cases hx
        · exact h.sess j x hx
  | conn c =>
    simp only [step]
    have g := good_connEffect h.wf c hv
    refine ⟨g.2, ?_⟩
    intro j x hx
    simp only [List.getElem?_map] at hx
    cases hj : s.sess[j]? with
    | none => simp [hj] at hx
    | some sj =>
      simp only [hj, Option.map_some, Option.some.injEq] at hx
      subst hx
      exact (h.sess j sj hj).enqueue g.1
  | close i =>
    simp only [step]
    cases hi : s.sess[i]? with
    | none => exact h
    | some me =>
      simp only
      have hme := h.sess i me hi
      cases he : effect s.idx me (sidOf i) .expunge with
      | none => exact h
      | some e =>
        simp only
        have hselb : ∀ mb, me.sel = some mb → mb < s.idx.boxes.length := by
          intro mb hs
          unfold SessInv at hme
          rw [hs] at hme
          exact hme.1
        have hsnap : ∀ mb, me.sel = some mb → ∀ x ∈ me.snap, x.id < s.idx.nextId := by
          intro mb hs x hx
          unfold SessInv at hme
          rw [hs] at hme
          exact hme.2.2.snap x hx
        have g := good_effect h.wf hselb hsnap he
        have hsess1 : ∀ j x, (s.sess.mapIdx fun j sj =>
            if j = i then sj.applyAll (sidOf i) false e.silent e.ups else sj.enqueue e.ups)[j]? = some x →
            SessInv e.idx j x := by
          intro j x hx
          rw [List.getElem?_mapIdx] at hx
          cases hj : s.sess[j]? with
          | none => simp [hj] at hx
          | some sj =>
            simp only [hj, Option.map_some, Option.some.injEq] at hx
            subst hx
            by_cases hij : j = i
            · subst hij
              simp only [if_true]
              rw [hi] at hj
              simp only [Option.some.injEq] at hj
              subst hj
              exact hme.own g.1 e.silent (fun mb hs => hno me mb e hi hs he)
            · simp only [hij, if_false]
              exact (h.sess j sj hj).enqueue g.1
        have hm1 : (s.sess.mapIdx fun j sj =>
            if j = i then sj.applyAll (sidOf i) false e.silent e.ups else sj.enqueue e.ups)[i]? =
            some (me.applyAll (sidOf i) false e.silent e.ups) := by
          rw [List.getElem?_mapIdx, hi]; simp
        rw [hm1]
        simp only [Option.getD_some]
        have hme1 := hsess1 i _ hm1
        obtain ⟨mb, hsel⟩ : ∃ mb, me.sel = some mb := by
          cases hs : me.sel with
          | none => simp [effect, hs] at he
          | some mb => exact ⟨mb, rfl⟩
        rw [hme1.closeEnd (mb := mb) (by rw [applyAll_sel]; exact hsel)]
        refine ⟨g.2, ?_⟩
        intro j x hx
        simp only [List.getElem?_set] at hx
        split at hx
        · next hij =>
          subst hij
          split at hx
          · simp only [Option.some.injEq] at hx; subst hx
            simp [SessInv]
          · cases hx
        · exact hsess1 j x hx
  | cmd i c =>
    simp only [step]
    cases hi : s.sess[i]? with
    | none => exact h
    | some me =>
      simp only
      have hme := h.sess i me hi
      cases he : effect s.idx me (sidOf i) c with
      | none =>
        simp only
        -- refused: at most the trailing flush
        split
        · exact h
        · exact h
        · refine ⟨h.wf, ?_⟩
          intro j x hx
          simp only [Sys.setSess, List.getElem?_set] at hx
          split at hx
          · next hij =>
            subst hij
            split at hx
            · simp only [Option.some.injEq] at hx; subst hx
              exact hme.flush false
            · cases hx
          · exact h.sess j x hx
      | some e =>
        simp only
        have hselb : ∀ mb, me.sel = some mb → mb < s.idx.boxes.length := by
          intro mb hs
          unfold SessInv at hme
          rw [hs] at hme
          exact hme.1
        have hsnap : ∀ mb, me.sel = some mb → ∀ x ∈ me.snap, x.id < s.idx.nextId := by
          intro mb hs x hx
          unfold SessInv at hme
          rw [hs] at hme
          exact hme.2.2.snap x hx
        have g := good_effect h.wf hselb hsnap he
        refine ⟨g.2, ?_⟩
        -- the sessions after `QueueOrApplyStateUpdate`
        have hsess1 : ∀ j x, (s.sess.mapIdx fun j sj =>
            if j = i then sj.applyAll (sidOf i) false e.silent e.ups else sj.enqueue e.ups)[j]? = some x →
            SessInv e.idx j x := by
          intro j x hx
          rw [List.getElem?_mapIdx] at hx
          cases hj : s.sess[j]? with
          | none => simp [hj] at hx
          | some sj =>
            simp only [hj, Option.map_some, Option.some.injEq] at hx
            subst hx
            by_cases hij : j = i
            · subst hij
              simp only [if_true]
              rw [hi] at hj
              simp only [Option.some.injEq] at hj
              subst hj
              exact hme.own g.1 e.silent (fun mb hs => hno me mb e hi hs he)
            · simp only [hij, if_false]
              exact (h.sess j sj hj).enqueue g.1
        intro j x hx
        simp only [List.getElem?_set] at hx
        split at hx
        · next hij =>
          subst hij
          split at hx
          · simp only [Option.some.injEq] at hx
            subst hx
            apply SessInv.endFlushes
            have hm1 : (s.sess.mapIdx fun j sj =>
                if j = i then sj.applyAll (sidOf i) false e.silent e.ups else sj.enqueue e.ups)[i]? =
                some (me.applyAll (sidOf i) false e.silent e.ups) := by
              rw [List.getElem?_mapIdx, hi]; simp
            rw [hm1]
            exact hsess1 i _ hm1
          · cases hx
        · exact hsess1 j x hx



end Gluon.Sys
