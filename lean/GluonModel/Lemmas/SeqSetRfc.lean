/-
C16 helper lemmas, part 7: the executable reference selection (`selectSeq`, a list) agrees with the
RFC 3501 rule written as predicates (`ValidSeq`, `SelectedSeq`); and the length of a view with
32-bit UIDs.
-/
import GluonModel.Lemmas.SeqSetText

namespace Gluon
namespace SeqSet
open SeqSetSpec

theorem mem_entriesFrom (v : View) (n k u : Nat) :
    (k, u) ∈ entriesFrom n v ↔ n ≤ k ∧ v[k - n]? = some u := by
  induction v generalizing n with
  | nil => simp [entriesFrom]
  | cons x rest ih =>
    simp only [entriesFrom, List.mem_cons, Prod.mk.injEq, ih (n + 1)]
    constructor
    · rintro (⟨rfl, rfl⟩ | ⟨h1, h2⟩)
      · simp
      · refine ⟨by omega, ?_⟩
        have e : k - n = (k - (n + 1)) + 1 := by omega
        rw [e, List.getElem?_cons_succ]; exact h2
    · rintro ⟨h1, h2⟩
      by_cases hk : k = n
      · left
        subst hk
        simp only [Nat.sub_self, List.getElem?_cons_zero, Option.some.injEq] at h2
        exact ⟨rfl, h2.symm⟩
      · right
        refine ⟨by omega, ?_⟩
        have e : k - n = (k - (n + 1)) + 1 := by omega
        rw [e, List.getElem?_cons_succ] at h2; exact h2

theorem mem_seqBetween (v : View) (lo hi k u : Nat) :
    (k, u) ∈ seqBetween v lo hi ↔ (lo ≤ k ∧ k ≤ hi) ∧ 1 ≤ k ∧ v[k - 1]? = some u := by
  simp only [seqBetween, entries, List.mem_filter, mem_entriesFrom, Bool.and_eq_true, decide_eq_true_eq]
  constructor
  · rintro ⟨⟨h1, h2⟩, h3, h4⟩; exact ⟨⟨h3, h4⟩, h1, h2⟩
  · rintro ⟨⟨h3, h4⟩, h1, h2⟩; exact ⟨⟨h1, h2⟩, h3, h4⟩

theorem seqVal_some_bounds {v : View} {a : SNum} {x : Nat} (h : seqVal v a = some x) : 1 ≤ x ∧ x ≤ v.length := by
  cases a with
  | star =>
    simp only [seqVal] at h
    by_cases hz : v.length = 0
    · simp [hz] at h
    · simp only [hz, if_false, Option.some.injEq] at h; omega
  | num n =>
    simp only [seqVal] at h
    by_cases hc : 1 ≤ n ∧ n ≤ v.length
    · simp only [hc, and_self, if_true, Option.some.injEq] at h; omega
    · simp [hc] at h

/-- sequence number `k` occurs in the slice `[lo, hi]` of a view iff it lies in the interval -/
theorem exists_mem_seqBetween (v : View) (lo hi k : Nat) (h1 : 1 ≤ lo) (h2 : hi ≤ v.length) :
    (∃ u, (k, u) ∈ seqBetween v lo hi) ↔ lo ≤ k ∧ k ≤ hi := by
  constructor
  · rintro ⟨u, hu⟩; exact ((mem_seqBetween v lo hi k u).mp hu).1
  · rintro ⟨h3, h4⟩
    have hlt : k - 1 < v.length := by omega
    exact ⟨v[k - 1], (mem_seqBetween v lo hi k _).mpr ⟨⟨h3, h4⟩, by omega, List.getElem?_eq_getElem hlt⟩⟩

def selectedByItem (v : View) (it : SItem) (k : Nat) : Prop :=
  match it with
  | .one a => seqVal v a = some k
  | .range a b => ∃ x y, seqVal v a = some x ∧ seqVal v b = some y ∧ min x y ≤ k ∧ k ≤ max x y

theorem selectedSeq_iff (v : View) (S : SSet) (k : Nat) :
    SelectedSeq v S k ↔ ∃ it ∈ S, selectedByItem v it k := by
  unfold SelectedSeq selectedByItem; rfl

theorem selectSeqItem_mem_iff (v : View) (it : SItem) (l : List Sel) (h : selectSeqItem v it = some l) (k : Nat) :
    (∃ u, (k, u) ∈ l) ↔ selectedByItem v it k := by
  cases it with
  | one a =>
    simp only [selectSeqItem] at h
    cases ha : seqVal v a with
    | none => simp [ha] at h
    | some x =>
      simp only [ha, Option.some.injEq] at h
      subst h
      obtain ⟨b1, b2⟩ := seqVal_some_bounds ha
      rw [exists_mem_seqBetween v x x k b1 b2]
      simp only [selectedByItem, ha, Option.some.injEq]
      omega
  | range a b =>
    simp only [selectSeqItem] at h
    cases ha : seqVal v a with
    | none => simp [ha] at h
    | some x =>
      cases hb : seqVal v b with
      | none => simp [ha, hb] at h
      | some y =>
        simp only [ha, hb, Option.some.injEq] at h
        subst h
        obtain ⟨a1, a2⟩ := seqVal_some_bounds ha
        obtain ⟨b1, b2⟩ := seqVal_some_bounds hb
        rw [exists_mem_seqBetween v (min x y) (max x y) k (by omega) (by omega)]
        simp only [selectedByItem, ha, hb, Option.some.injEq]
        constructor
        · intro h; exact ⟨x, y, rfl, rfl, h.1, h.2⟩
        · rintro ⟨x', y', rfl, rfl, h1, h2⟩; exact ⟨h1, h2⟩

/-- the list computed by `selectSeq` contains exactly the sequence numbers the RFC rule selects -/
theorem selectSeq_mem_iff (v : View) (S : SSet) (l : List Sel) (h : selectSeq v S = some l) (k : Nat) :
    (∃ u, (k, u) ∈ l) ↔ SelectedSeq v S k := by
  rw [selectedSeq_iff]
  induction S generalizing l with
  | nil =>
    simp only [selectSeq, Option.some.injEq] at h
    subst h; simp
  | cons it rest ih =>
    simp only [selectSeq] at h
    cases h1 : selectSeqItem v it with
    | none => simp [h1] at h
    | some l1 =>
      cases h2 : selectSeq v rest with
      | none => simp [h1, h2] at h
      | some l2 =>
        simp only [h1, h2, Option.some.injEq] at h
        subst h
        have i1 := selectSeqItem_mem_iff v it l1 h1 k
        have i2 := ih l2 h2
        simp only [List.mem_append, List.mem_cons, exists_or, exists_eq_or_imp]
        rw [i1, i2]

/-- `selectSeq` succeeds exactly on the sets that are valid for the view -/
theorem selectSeq_isSome_iff (v : View) (S : SSet) : (selectSeq v S).isSome ↔ ValidSeq v S := by
  unfold ValidSeq
  induction S with
  | nil => simp [selectSeq]
  | cons it rest ih =>
    simp only [selectSeq, List.mem_cons, forall_eq_or_imp]
    rw [← ih]
    have hitem : (selectSeqItem v it).isSome ↔ ∀ a ∈ it.nums, (seqVal v a).isSome := by
      cases it with
      | one a =>
        simp only [selectSeqItem, SItem.nums, List.mem_singleton, forall_eq]
        cases seqVal v a <;> simp
      | range a b =>
        simp only [selectSeqItem, SItem.nums, List.mem_cons, List.not_mem_nil, or_false, forall_eq_or_imp, forall_eq]
        cases seqVal v a <;> cases seqVal v b <;> simp
    rw [← hitem]
    cases selectSeqItem v it <;> cases selectSeq v rest <;> simp

/-! ### the length of a view -/

theorem length_le_of_asc (l : List Nat) (k B : Nat) (hp : l.Pairwise (· < ·))
    (hb : ∀ x ∈ l, k ≤ x ∧ x < B) : l.length ≤ B - k := by
  induction l generalizing k with
  | nil => simp
  | cons a rest ih =>
    have hp' := List.pairwise_cons.mp hp
    have ha := hb a (by simp)
    have := ih (k + 1) hp'.2 (fun x hx => by
      have h1 := hp'.1 x hx
      have h2 := hb x (by simp [hx])
      omega)
    simp only [List.length_cons]
    omega

/-- strictly ascending non-zero 32-bit UIDs: fewer than 2^32 messages -/
theorem length_lt_of_u32 (s : Snap) (hasc : Asc s) (h : ∀ m ∈ s, 1 ≤ m.uid ∧ m.uid < 4294967296) :
    s.length < 4294967296 := by
  have := length_le_of_asc s.uids 1 4294967296 hasc (by
    intro x hx
    simp only [Snap.uids, List.mem_map] at hx
    obtain ⟨m, hm, rfl⟩ := hx
    exact h m hm)
  rw [uids_length] at this
  omega

end SeqSet
end Gluon
