/- C12: depth and size of the expected section tree are those of the MIME tree (Spec/MimeDepth.lean). -/
import GluonModel.Spec.MimeDepth
import GluonModel.Lemmas.MimeTree

namespace Gluon.Mime

mutual
  theorem expectKids_shape : (t : MTree) → (o : Nat) →
      STree.depthList (t.expectKids o) = t.pathDepth ∧ STree.countList (t.expectKids o) = t.partsBelow
    | .leaf _ _, _ => by simp [MTree.expectKids, STree.depthList, STree.countList, MTree.pathDepth, MTree.partsBelow]
    | .multi h bnd kids, o => by
      simp only [MTree.expectKids, MTree.pathDepth, MTree.partsBelow]
      exact expectList_shape (startBoundary bnd) kids _
    | .msg h inner, o => by
      simp only [MTree.expectKids, MTree.pathDepth, MTree.partsBelow]
      exact expectKids_shape inner _
  theorem expectList_shape (sb : Bytes) : (kids : List MTree) → (o : Nat) →
      STree.depthList (MTree.expectList sb o kids) = MTree.pathDepthList kids ∧
      STree.countList (MTree.expectList sb o kids) = MTree.partsBelowList kids
    | [], _ => by simp [MTree.expectList, STree.depthList, STree.countList, MTree.pathDepthList, MTree.partsBelowList]
    | t :: ts, o => by
      have h1 := expectKids_shape t o
      have h2 := expectList_shape sb ts (o + t.render.length + 2 + sb.length + 2)
      simp only [MTree.expectList, STree.depthList, STree.countList, MTree.pathDepthList, MTree.partsBelowList,
        expect_eq, STree.depth, STree.count, h1.1, h1.2, h2.1, h2.2, and_self]
end

theorem expect_shape (t : MTree) (o : Nat) :
    (t.expect o).depth = t.pathDepth ∧ (t.expect o).count = t.partsBelow + 1 := by
  have h := expectKids_shape t o
  simp only [expect_eq, STree.depth, STree.count, h.1, h.2, and_self]

theorem chainOf_pathDepth (hdr bnd : Nat → Bytes) (leaf : MTree) :
    ∀ n, (MTree.chainOf hdr bnd leaf n).pathDepth = n + leaf.pathDepth
  | 0 => by simp [MTree.chainOf]
  | n + 1 => by
    have ih := chainOf_pathDepth hdr bnd leaf n
    simp only [MTree.chainOf, MTree.pathDepth, MTree.pathDepthList, ih]
    omega

end Gluon.Mime
