/- Helper lemmas about `popAux` / `popResponders` and `handle` (used by C05, C01, C02). -/
import GluonModel.Model.Responder

namespace Gluon

@[simp] theorem Responder.isExpunge_exists (id uid fl t o) : (Responder.exists id uid fl t o).isExpunge = false := rfl
@[simp] theorem Responder.isExpunge_expunge (id) : (Responder.expunge id).isExpunge = true := rfl
@[simp] theorem Responder.isExpunge_fetch (id fl op a b c) : (Responder.fetch id fl op a b c).isExpunge = false := rfl

@[simp] theorem Responder.unsilent_exists (id uid fl t o) :
    (Responder.exists id uid fl t o).unsilent = .exists id uid fl t o := rfl
@[simp] theorem Responder.unsilent_expunge (id) : (Responder.expunge id).unsilent = .expunge id := rfl
@[simp] theorem Responder.unsilent_fetch (id fl op a b c) :
    (Responder.fetch id fl op a b c).unsilent = .fetch id fl op a false c := rfl

@[simp] theorem Responder.unsilent_unsilent (r : Responder) : r.unsilent.unsilent = r.unsilent := by
  cases r <;> rfl
@[simp] theorem Responder.isExpunge_unsilent (r : Responder) : r.unsilent.isExpunge = r.isExpunge := by
  cases r <;> rfl
@[simp] theorem Responder.isExists_unsilent (r : Responder) : r.unsilent.isExists = r.isExists := by
  cases r <;> rfl
@[simp] theorem Responder.msgId_unsilent (r : Responder) : r.unsilent.msgId = r.msgId := by
  cases r <;> rfl
@[simp] theorem Responder.isSilent_unsilent (r : Responder) : r.unsilent.isSilent = false := by
  cases r <;> rfl

theorem Responder.unsilent_of_isExists {r : Responder} (h : r.isExists = true) : r.unsilent = r := by
  cases r <;> simp_all [Responder.isExists]

/-- the `heldExpunge` set after `popAux` has walked over `l` -/
def hexpAfter (hexp : List MsgId) : List Responder → List MsgId
  | [] => hexp
  | .expunge id :: rs => hexpAfter (id :: hexp) rs
  | _ :: rs => hexpAfter hexp rs

/-- the `heldExists` set after `popAux` has walked over `l` -/
def hexAfter (hexp hex : List MsgId) : List Responder → List MsgId
  | [] => hex
  | .expunge id :: rs => hexAfter (id :: hexp) hex rs
  | .exists id .. :: rs =>
    if holdsExists hexp hex id then hexAfter hexp (id :: hex) rs else hexAfter hexp hex rs
  | .fetch .. :: rs => hexAfter hexp hex rs

/-! one-step equations of `popAux` / `hexAfter` -/

theorem popAux_expunge (hexp hex : List MsgId) (id : MsgId) (rs : List Responder) :
    popAux hexp hex (.expunge id :: rs) =
      ((popAux (id :: hexp) hex rs).1, .expunge id :: (popAux (id :: hexp) hex rs).2) := by
  simp [popAux]

theorem popAux_exists_held {hexp hex : List MsgId} {id : MsgId} (h : holdsExists hexp hex id = true)
    (uid : UID) (fl : Flags) (t : StateId) (o : Option StateId) (rs : List Responder) :
    popAux hexp hex (.exists id uid fl t o :: rs) =
      ((popAux hexp (id :: hex) rs).1, .exists id uid fl t o :: (popAux hexp (id :: hex) rs).2) := by
  simp only [popAux, h, if_true]

theorem popAux_exists_popped {hexp hex : List MsgId} {id : MsgId} (h : holdsExists hexp hex id = false)
    (uid : UID) (fl : Flags) (t : StateId) (o : Option StateId) (rs : List Responder) :
    popAux hexp hex (.exists id uid fl t o :: rs) =
      (.exists id uid fl t o :: (popAux hexp hex rs).1, (popAux hexp hex rs).2) := by
  simp only [popAux, h, Bool.false_eq_true, if_false]

theorem popAux_fetch_held {hexp hex : List MsgId} {id : MsgId} (h : id ∈ hex)
    (fl : Flags) (op : FlagOp) (a b c : Bool) (rs : List Responder) :
    popAux hexp hex (.fetch id fl op a b c :: rs) =
      ((popAux hexp hex rs).1, .fetch id fl op a false c :: (popAux hexp hex rs).2) := by
  have : hex.contains id = true := by simpa using h
  simp only [popAux, this, if_true, Responder.unsilent]

theorem popAux_fetch_popped {hexp hex : List MsgId} {id : MsgId} (h : id ∉ hex)
    (fl : Flags) (op : FlagOp) (a b c : Bool) (rs : List Responder) :
    popAux hexp hex (.fetch id fl op a b c :: rs) =
      (.fetch id fl op a b c :: (popAux hexp hex rs).1, (popAux hexp hex rs).2) := by
  have : hex.contains id = false := by simpa using h
  simp only [popAux, this, Bool.false_eq_true, if_false]

theorem hexAfter_exists_held {hexp hex : List MsgId} {id : MsgId} (h : holdsExists hexp hex id = true)
    (uid : UID) (fl : Flags) (t : StateId) (o : Option StateId) (rs : List Responder) :
    hexAfter hexp hex (.exists id uid fl t o :: rs) = hexAfter hexp (id :: hex) rs := by
  simp only [hexAfter, h, if_true]

theorem hexAfter_exists_popped {hexp hex : List MsgId} {id : MsgId} (h : holdsExists hexp hex id = false)
    (uid : UID) (fl : Flags) (t : StateId) (o : Option StateId) (rs : List Responder) :
    hexAfter hexp hex (.exists id uid fl t o :: rs) = hexAfter hexp hex rs := by
  simp only [hexAfter, h, Bool.false_eq_true, if_false]

theorem holdsExists_of_ne_nil {hexp hex : List MsgId} (hne : hex ≠ []) (id : MsgId) :
    holdsExists hexp hex id = true := by
  cases hex with
  | nil => exact absurd rfl hne
  | cons a t => simp [holdsExists]

theorem holdsExists_of_mem {hexp hex : List MsgId} {id : MsgId} (h : id ∈ hexp) :
    holdsExists hexp hex id = true := by
  simp [holdsExists, h]

theorem holdsExists_false_iff {hexp hex : List MsgId} {id : MsgId} :
    holdsExists hexp hex id = false ↔ hex = [] ∧ id ∉ hexp := by
  cases hex <;> simp [holdsExists]

theorem popAux_append (hexp hex : List MsgId) (l1 l2 : List Responder) :
    popAux hexp hex (l1 ++ l2) =
      ((popAux hexp hex l1).1 ++ (popAux (hexpAfter hexp l1) (hexAfter hexp hex l1) l2).1,
       (popAux hexp hex l1).2 ++ (popAux (hexpAfter hexp l1) (hexAfter hexp hex l1) l2).2) := by
  induction l1 generalizing hexp hex with
  | nil => simp [popAux, hexpAfter, hexAfter]
  | cons r rs ih =>
    cases r with
    | «exists» id uid fl t o =>
      cases h : holdsExists hexp hex id
      · rw [List.cons_append, popAux_exists_popped h, popAux_exists_popped h, hexAfter_exists_popped h, ih]
        simp [hexpAfter]
      · rw [List.cons_append, popAux_exists_held h, popAux_exists_held h, hexAfter_exists_held h, ih]
        simp [hexpAfter]
    | expunge id =>
      rw [List.cons_append, popAux_expunge, popAux_expunge, ih]
      simp [hexpAfter, hexAfter]
    | fetch id fl op a b c =>
      by_cases h : id ∈ hex
      · rw [List.cons_append, popAux_fetch_held h, popAux_fetch_held h, ih]
        simp [hexpAfter, hexAfter]
      · rw [List.cons_append, popAux_fetch_popped h, popAux_fetch_popped h, ih]
        simp [hexpAfter, hexAfter]

theorem hexpAfter_append (hexp : List MsgId) (l1 l2 : List Responder) :
    hexpAfter hexp (l1 ++ l2) = hexpAfter (hexpAfter hexp l1) l2 := by
  induction l1 generalizing hexp with
  | nil => rfl
  | cons r rs ih => cases r <;> simp [hexpAfter, ih]

theorem hexAfter_append (hexp hex : List MsgId) (l1 l2 : List Responder) :
    hexAfter hexp hex (l1 ++ l2) = hexAfter (hexpAfter hexp l1) (hexAfter hexp hex l1) l2 := by
  induction l1 generalizing hexp hex with
  | nil => rfl
  | cons r rs ih =>
    cases r with
    | «exists» id uid fl t o =>
      cases h : holdsExists hexp hex id
      · rw [List.cons_append, hexAfter_exists_popped h, hexAfter_exists_popped h, ih]; simp [hexpAfter]
      · rw [List.cons_append, hexAfter_exists_held h, hexAfter_exists_held h, ih]; simp [hexpAfter]
    | expunge id => simp [hexpAfter, hexAfter, ih]
    | fetch id fl op a b c => simp [hexpAfter, hexAfter, ih]

/-- `heldExpunge` only grows -/
theorem hexpAfter_mem (hexp : List MsgId) (l : List Responder) (id : MsgId) (h : id ∈ hexp) :
    id ∈ hexpAfter hexp l := by
  induction l generalizing hexp with
  | nil => exact h
  | cons r rs ih =>
    cases r with
    | expunge id' => exact ih _ (List.mem_cons_of_mem _ h)
    | «exists» id' uid fl t o => exact ih _ h
    | fetch id' fl op a b c => exact ih _ h

/-- `heldExists` only grows -/
theorem hexAfter_mem (hexp hex : List MsgId) (l : List Responder) (id : MsgId) (h : id ∈ hex) :
    id ∈ hexAfter hexp hex l := by
  induction l generalizing hexp hex with
  | nil => exact h
  | cons r rs ih =>
    cases r with
    | expunge id' => exact ih _ _ h
    | «exists» id' uid fl t o =>
      cases hh : holdsExists hexp hex id'
      · rw [hexAfter_exists_popped hh]; exact ih _ _ h
      · rw [hexAfter_exists_held hh]; exact ih _ _ (List.mem_cons_of_mem _ h)
    | fetch id' fl op a b c => exact ih _ _ h

theorem popAux_fst_no_expunge (hexp hex : List MsgId) (l : List Responder) :
    ∀ r ∈ (popAux hexp hex l).1, r.isExpunge = false := by
  induction l generalizing hexp hex with
  | nil => simp [popAux]
  | cons r rs ih =>
    intro x hx
    cases r with
    | «exists» id uid fl t o =>
      cases h : holdsExists hexp hex id
      · rw [popAux_exists_popped h] at hx
        rcases List.mem_cons.mp hx with rfl | hx
        · rfl
        · exact ih _ _ x hx
      · rw [popAux_exists_held h] at hx; exact ih _ _ x hx
    | expunge id => rw [popAux_expunge] at hx; exact ih _ _ x hx
    | fetch id fl op a b c =>
      by_cases h : id ∈ hex
      · rw [popAux_fetch_held h] at hx; exact ih _ _ x hx
      · rw [popAux_fetch_popped h] at hx
        rcases List.mem_cons.mp hx with rfl | hx
        · rfl
        · exact ih _ _ x hx

theorem popAux_snd_expunges (hexp hex : List MsgId) (l : List Responder) :
    (popAux hexp hex l).2.filter (·.isExpunge) = l.filter (·.isExpunge) := by
  induction l generalizing hexp hex with
  | nil => simp [popAux]
  | cons r rs ih =>
    cases r with
    | «exists» id uid fl t o =>
      cases h : holdsExists hexp hex id
      · rw [popAux_exists_popped h]; simp [ih]
      · rw [popAux_exists_held h]; simp [ih]
    | expunge id => rw [popAux_expunge]; simp [List.filter_cons, ih]
    | fetch id fl op a b c =>
      by_cases h : id ∈ hex
      · rw [popAux_fetch_held h]; simp [ih]
      · rw [popAux_fetch_popped h]; simp [ih]

/-- the popped responders are a subsequence of the queue, verbatim -/
theorem popAux_fst_sublist (hexp hex : List MsgId) (l : List Responder) : (popAux hexp hex l).1.Sublist l := by
  induction l generalizing hexp hex with
  | nil => simp [popAux]
  | cons r rs ih =>
    cases r with
    | «exists» id uid fl t o =>
      cases h : holdsExists hexp hex id
      · rw [popAux_exists_popped h]; exact (ih _ _).cons_cons _
      · rw [popAux_exists_held h]; exact (ih _ _).cons _
    | expunge id => rw [popAux_expunge]; exact (ih _ _).cons _
    | fetch id fl op a b c =>
      by_cases h : id ∈ hex
      · rw [popAux_fetch_held h]; exact (ih _ _).cons _
      · rw [popAux_fetch_popped h]; exact (ih _ _).cons_cons _

/-- the retained responders are a subsequence of the queue, a retained fetch un-silenced -/
theorem popAux_snd_sublist (hexp hex : List MsgId) (l : List Responder) :
    (popAux hexp hex l).2.Sublist (l.map Responder.unsilent) := by
  induction l generalizing hexp hex with
  | nil => simp [popAux]
  | cons r rs ih =>
    cases r with
    | «exists» id uid fl t o =>
      cases h : holdsExists hexp hex id
      · rw [popAux_exists_popped h]; exact (ih _ _).cons _
      · rw [popAux_exists_held h]; exact (ih _ _).cons_cons _
    | expunge id => rw [popAux_expunge]; exact (ih _ _).cons_cons _
    | fetch id fl op a b c =>
      by_cases h : id ∈ hex
      · rw [popAux_fetch_held h]; exact (ih _ _).cons_cons _
      · rw [popAux_fetch_popped h]; exact (ih _ _).cons _

/-- every retained responder is a queued one, possibly un-silenced -/
theorem popAux_snd_mem (hexp hex : List MsgId) (l : List Responder) {r : Responder}
    (h : r ∈ (popAux hexp hex l).2) : ∃ r0 ∈ l, r = r0.unsilent := by
  have := (popAux_snd_sublist hexp hex l).subset h
  obtain ⟨r0, h0, rfl⟩ := List.mem_map.mp this
  exact ⟨r0, h0, rfl⟩

/-- once an EXISTS is held back, no later EXISTS is popped -/
theorem popAux_fst_no_exists (hexp hex : List MsgId) (l : List Responder) (hne : hex ≠ []) :
    ∀ r ∈ (popAux hexp hex l).1, r.isExists = false := by
  induction l generalizing hexp hex with
  | nil => simp [popAux]
  | cons r rs ih =>
    intro x hx
    cases r with
    | «exists» id uid fl t o =>
      rw [popAux_exists_held (holdsExists_of_ne_nil hne id)] at hx
      exact ih _ _ (List.cons_ne_nil _ _) x hx
    | expunge id => rw [popAux_expunge] at hx; exact ih _ _ hne x hx
    | fetch id fl op a b c =>
      by_cases h : id ∈ hex
      · rw [popAux_fetch_held h] at hx; exact ih _ _ hne x hx
      · rw [popAux_fetch_popped h] at hx
        rcases List.mem_cons.mp hx with rfl | hx
        · rfl
        · exact ih _ _ hne x hx

/-- once an EXISTS is held back, every later EXISTS is retained -/
theorem popAux_snd_exists (hexp hex : List MsgId) (l : List Responder) (hne : hex ≠ []) :
    ∀ r ∈ l, r.isExists = true → r ∈ (popAux hexp hex l).2 := by
  induction l generalizing hexp hex with
  | nil => simp
  | cons r rs ih =>
    intro x hx hxe
    cases r with
    | «exists» id uid fl t o =>
      rw [popAux_exists_held (holdsExists_of_ne_nil hne id)]
      rcases List.mem_cons.mp hx with rfl | hx
      · exact List.mem_cons_self
      · exact List.mem_cons_of_mem _ (ih _ _ (List.cons_ne_nil _ _) x hx hxe)
    | expunge id =>
      rw [popAux_expunge]
      rcases List.mem_cons.mp hx with rfl | hx
      · simp [Responder.isExists] at hxe
      · exact List.mem_cons_of_mem _ (ih _ _ hne x hx hxe)
    | fetch id fl op a b c =>
      rcases List.mem_cons.mp hx with rfl | hx
      · simp [Responder.isExists] at hxe
      · by_cases h : id ∈ hex
        · rw [popAux_fetch_held h]; exact List.mem_cons_of_mem _ (ih _ _ hne x hx hxe)
        · rw [popAux_fetch_popped h]; exact ih _ _ hne x hx hxe

/-- nothing is popped for a message whose EXISTS is held back -/
theorem popAux_fst_not_held (hexp hex : List MsgId) (l : List Responder) :
    ∀ r ∈ (popAux hexp hex l).1, r.msgId ∉ hex := by
  induction l generalizing hexp hex with
  | nil => simp [popAux]
  | cons r rs ih =>
    intro x hx
    cases r with
    | «exists» id uid fl t o =>
      cases h : holdsExists hexp hex id
      · rw [popAux_exists_popped h] at hx
        rcases List.mem_cons.mp hx with rfl | hx
        · rw [(holdsExists_false_iff.mp h).1]; simp
        · exact ih _ _ x hx
      · rw [popAux_exists_held h] at hx
        exact fun hm => ih _ _ x hx (List.mem_cons_of_mem _ hm)
    | expunge id => rw [popAux_expunge] at hx; exact ih _ _ x hx
    | fetch id fl op a b c =>
      by_cases h : id ∈ hex
      · rw [popAux_fetch_held h] at hx; exact ih _ _ x hx
      · rw [popAux_fetch_popped h] at hx
        rcases List.mem_cons.mp hx with rfl | hx
        · exact h
        · exact ih _ _ x hx

/-- a responder that is neither EXPUNGE nor EXISTS, of a message whose EXISTS is held back, is
    retained (un-silenced) -/
theorem popAux_snd_fetch (hexp hex : List MsgId) (l : List Responder) (id : MsgId) (hid : id ∈ hex) :
    ∀ r ∈ l, r.isExists = false → r.isExpunge = false → r.msgId = id → r.unsilent ∈ (popAux hexp hex l).2 := by
  induction l generalizing hexp hex with
  | nil => simp
  | cons r rs ih =>
    intro x hx hxe hxd hxi
    cases r with
    | «exists» id' uid fl t o =>
      rcases List.mem_cons.mp hx with rfl | hx
      · simp [Responder.isExists] at hxe
      · cases hh : holdsExists hexp hex id'
        · rw [popAux_exists_popped hh]; exact ih _ _ hid x hx hxe hxd hxi
        · rw [popAux_exists_held hh]
          exact List.mem_cons_of_mem _ (ih _ _ (List.mem_cons_of_mem _ hid) x hx hxe hxd hxi)
    | expunge id' =>
      rw [popAux_expunge]
      rcases List.mem_cons.mp hx with rfl | hx
      · simp at hxd
      · exact List.mem_cons_of_mem _ (ih _ _ hid x hx hxe hxd hxi)
    | fetch id' fl op a b c =>
      rcases List.mem_cons.mp hx with rfl | hx
      · simp only [Responder.msgId] at hxi
        subst hxi
        rw [popAux_fetch_held hid]
        exact List.mem_cons_self
      · by_cases h : id' ∈ hex
        · rw [popAux_fetch_held h]; exact List.mem_cons_of_mem _ (ih _ _ hid x hx hxe hxd hxi)
        · rw [popAux_fetch_popped h]; exact ih _ _ hid x hx hxe hxd hxi

end Gluon
