/- Helper lemmas about `popAux` / `popResponders` and `handle` (used by C05, C01). -/
import GluonModel.Model.Responder

namespace Gluon

@[simp] theorem Responder.isExpunge_exists (id uid fl t o) : (Responder.exists id uid fl t o).isExpunge = false := rfl
@[simp] theorem Responder.isExpunge_expunge (id) : (Responder.expunge id).isExpunge = true := rfl
@[simp] theorem Responder.isExpunge_fetch (id fl op a b c) : (Responder.fetch id fl op a b c).isExpunge = false := rfl

/-- the `skipIDs` set after `popAux` has walked over `l` -/
def skipAfter (skip : List MsgId) : List Responder → List MsgId
  | [] => skip
  | .expunge id :: rs => skipAfter (if skip.contains id then skip else id :: skip) rs
  | .exists id .. :: rs => if skip.contains id then skipAfter (skip.filter (· != id)) rs else skipAfter skip rs
  | .fetch .. :: rs => skipAfter skip rs

theorem popAux_append (skip : List MsgId) (l1 l2 : List Responder) :
    popAux skip (l1 ++ l2) =
      ((popAux skip l1).1 ++ (popAux (skipAfter skip l1) l2).1,
       (popAux skip l1).2 ++ (popAux (skipAfter skip l1) l2).2) := by
  induction l1 generalizing skip with
  | nil => simp [popAux, skipAfter]
  | cons r rs ih =>
    cases r with
    | «exists» id uid fl t o =>
      by_cases h : id ∈ skip
      · simp [popAux, skipAfter, h, ih]
      · simp [popAux, skipAfter, h, ih]
    | expunge id => simp [popAux, skipAfter, ih]
    | fetch id fl op a b c => simp [popAux, skipAfter, ih]

theorem popAux_fst_no_expunge (skip : List MsgId) (l : List Responder) :
    ∀ r ∈ (popAux skip l).1, r.isExpunge = false := by
  induction l generalizing skip with
  | nil => simp [popAux]
  | cons r rs ih =>
    cases r with
    | «exists» id uid fl t o =>
      by_cases h : id ∈ skip
      · simpa [popAux, h] using ih _
      · intro x hx
        simp [popAux, h] at hx
        rcases hx with rfl | hx
        · rfl
        · exact ih _ x hx
    | expunge id => simpa [popAux] using ih _
    | fetch id fl op a b c =>
      intro x hx
      simp [popAux] at hx
      rcases hx with rfl | hx
      · rfl
      · exact ih _ x hx

theorem popAux_snd_expunges (skip : List MsgId) (l : List Responder) :
    (popAux skip l).2.filter (·.isExpunge) = l.filter (·.isExpunge) := by
  induction l generalizing skip with
  | nil => simp [popAux]
  | cons r rs ih =>
    cases r with
    | «exists» id uid fl t o =>
      by_cases h : id ∈ skip
      · simp [popAux, h, ih]
      · simp [popAux, h, ih]
    | expunge id => simp [popAux, List.filter_cons, ih]
    | fetch id fl op a b c => simp [popAux, ih]

theorem popAux_fst_sublist (skip : List MsgId) (l : List Responder) : (popAux skip l).1.Sublist l := by
  induction l generalizing skip with
  | nil => simp [popAux]
  | cons r rs ih =>
    cases r with
    | «exists» id uid fl t o =>
      by_cases h : id ∈ skip
      · simpa [popAux, h] using (ih _).cons _
      · simp [popAux, h, ih]
    | expunge id => simpa [popAux] using (ih _).cons _
    | fetch id fl op a b c => simp [popAux, ih]

theorem popAux_snd_sublist (skip : List MsgId) (l : List Responder) : (popAux skip l).2.Sublist l := by
  induction l generalizing skip with
  | nil => simp [popAux]
  | cons r rs ih =>
    cases r with
    | «exists» id uid fl t o =>
      by_cases h : id ∈ skip
      · simp [popAux, h, ih]
      · simpa [popAux, h] using (ih skip).cons _
    | expunge id => simp [popAux, ih]
    | fetch id fl op a b c => simpa [popAux] using (ih skip).cons _

/-- an id stays in the skip set while no `exists` for it is walked over -/
theorem skipAfter_mem (skip : List MsgId) (l : List Responder) (id : MsgId)
    (hid : id ∈ skip) (hl : ∀ r ∈ l, ¬ (r.isExists = true ∧ r.msgId = id)) :
    id ∈ skipAfter skip l := by
  induction l generalizing skip with
  | nil => simpa [skipAfter]
  | cons r rs ih =>
    have hrs : ∀ r ∈ rs, ¬ (r.isExists = true ∧ r.msgId = id) := fun x hx => hl x (List.mem_cons_of_mem _ hx)
    cases r with
    | «exists» id' uid fl t o =>
      have hne : id' ≠ id := by
        intro h
        exact hl (.exists id' uid fl t o) (List.mem_cons_self) ⟨rfl, h⟩
      by_cases h : id' ∈ skip
      · have h' : skip.contains id' = true := by simpa using h
        simp only [skipAfter, h', if_true]
        apply ih _ _ hrs
        simp [List.mem_filter, hid]
        exact fun h => hne h.symm
      · have h' : ¬ skip.contains id' = true := by simpa using h
        simp only [skipAfter, h']
        exact ih _ hid hrs
    | expunge id' =>
      simp only [skipAfter]
      apply ih _ _ hrs
      split
      · exact hid
      · exact List.mem_cons_of_mem _ hid
    | fetch id' fl op a b c =>
      simp only [skipAfter]
      exact ih _ hid hrs

end Gluon
