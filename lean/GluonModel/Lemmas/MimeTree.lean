/- Lemmas for C12 `sections_of_built_message`: Parse + Walk on a message rendered from a MIME tree
   yields exactly the tree's sections. -/
import GluonModel.Lemmas.MimeRender

set_option linter.unusedSimpArgs false

namespace Gluon.Mime

/-! ### unfolding lemmas -/

theorem hdr_leaf (h b : Bytes) : (MTree.leaf h b).hdr = h := rfl
theorem hdr_multi (h bnd : Bytes) (kids : List MTree) : (MTree.multi h bnd kids).hdr = h := rfl
theorem hdr_msg (h : Bytes) (inner : MTree) : (MTree.msg h inner).hdr = h := rfl
theorem rest_leaf (h b : Bytes) : (MTree.leaf h b).rest = b := by simp [MTree.rest]
theorem rest_multi (h bnd : Bytes) (kids : List MTree) :
    (MTree.multi h bnd kids).rest = renderParts (startBoundary bnd) (MTree.restList kids) := by
  simp [MTree.rest]
theorem rest_msg (h : Bytes) (inner : MTree) : (MTree.msg h inner).rest = inner.hdr ++ inner.rest := by
  simp [MTree.rest]

/-! ### slices in context -/

theorem goSlice_ctx (pre x post : Bytes) (b e : Nat) (hb : b = pre.length) (he : e = pre.length + x.length) :
    goSlice (pre ++ (x ++ post)) b e = .ok x := by
  subst hb he
  rw [goSlice_ok _ _ _ (by omega) (by simp)]
  rw [List.drop_left' rfl]
  have : pre.length + x.length - pre.length = x.length := by omega
  rw [this, List.take_left' rfl]

theorem parseSec_ctx (env : HdrEnv) (pre h rest post : Bytes) (b e : Nat) (hat : HdrAt env h rest)
    (hb : b = pre.length) (he : e = pre.length + (h ++ rest).length) :
    parseSec env (pre ++ ((h ++ rest) ++ post)) b e = .ok ⟨b, b + h.length, e⟩ := by
  unfold parseSec
  rw [goSlice_ctx pre (h ++ rest) post b e hb he]
  simp only [hat.1, hat.2, if_true]

/-! ### facts from `Good` -/

theorem good_hdrAt (env : HdrEnv) (t : MTree) (h : t.Good env) : HdrAt env t.hdr t.rest := by
  cases t with
  | leaf hd b => simp only [MTree.Good] at h; exact h.1
  | multi hd bnd kids => simp only [MTree.Good] at h; exact h.1
  | msg hd inner => simp only [MTree.Good] at h; exact h.1

theorem goodList_fresh (env : HdrEnv) (sb : Bytes) : ∀ (kids : List MTree), MTree.GoodList env sb kids →
    ∀ p ∈ MTree.restList kids, Fresh sb p := by
  intro kids
  induction kids with
  | nil => intro _ p hp; simp [MTree.restList] at hp
  | cons t ts ih =>
    intro h p hp
    simp only [MTree.GoodList] at h
    simp only [MTree.restList, List.mem_cons] at hp
    rcases hp with rfl | hp
    · exact h.2.1
    · exact ih h.2.2 p hp

/-- the parts after the first delimiter line -/
def partsTail (sb : Bytes) : List Bytes → Bytes
  | [] => []
  | p :: ps => p ++ (CRLF ++ (sb ++ afterDelim sb ps))

theorem afterDelim_cons (sb p : Bytes) (ps : List Bytes) :
    afterDelim sb (p :: ps) = CRLF ++ partsTail sb (p :: ps) := rfl

/-! ### Children() in context -/

theorem partSecs_kids (env : HdrEnv) (sb : Bytes) : ∀ (kids : List MTree) (P post : Bytes) (body orel : Nat),
    P.length = body + orel → MTree.GoodList env sb kids →
    partSecs env (P ++ (partsTail sb (MTree.restList kids) ++ post)) body
        (expectedParts sb orel (MTree.restList kids))
      = .ok (MTree.kidSecsList sb (body + orel) kids) := by
  intro kids
  induction kids with
  | nil => intro P post body orel _ _; rfl
  | cons t ts ih =>
    intro P post body orel hP hg
    simp only [MTree.GoodList] at hg
    obtain ⟨hgt, _, hgts⟩ := hg
    simp only [MTree.restList, expectedParts, partSecs, MTree.kidSecsList, partsTail, Part.len]
    have e1 : P ++ (t.hdr ++ t.rest ++ (CRLF ++ (sb ++ afterDelim sb (MTree.restList ts))) ++ post)
        = P ++ ((t.hdr ++ t.rest) ++ ((CRLF ++ (sb ++ afterDelim sb (MTree.restList ts))) ++ post)) := by
      simp
    rw [e1, parseSec_ctx env P t.hdr t.rest _ _ _ (good_hdrAt env t hgt) (by omega) (by omega)]
    simp only
    have hroot : (⟨body + orel, body + orel + t.hdr.length,
        body + orel + (orel + (t.hdr ++ t.rest).length - orel)⟩ : Sec) = t.rootSec (body + orel) := by
      simp only [MTree.rootSec, MTree.render]
      congr 1
      omega
    rw [hroot]
    cases ts with
    | nil => simp [MTree.restList, expectedParts, partSecs, MTree.kidSecsList]
    | cons q ts' =>
      have e2 : P ++ ((t.hdr ++ t.rest) ++ ((CRLF ++ (sb ++ afterDelim sb (MTree.restList (q :: ts')))) ++ post))
          = (P ++ (t.hdr ++ t.rest) ++ CRLF ++ sb ++ CRLF) ++ (partsTail sb (MTree.restList (q :: ts')) ++ post) := by
        simp only [MTree.restList, afterDelim_cons, List.append_assoc]
      have hP' : (P ++ (t.hdr ++ t.rest) ++ CRLF ++ sb ++ CRLF).length
          = body + (orel + (t.hdr ++ t.rest).length + 2 + sb.length + 2) := by
        simp [CRLF] at hP ⊢; omega
      rw [e2, ih (P ++ (t.hdr ++ t.rest) ++ CRLF ++ sb ++ CRLF) post body _ hP' hgts]
      simp only [MTree.render]
      congr 3
      omega

/-- length of the chain of directly embedded messages below a node -/
def MTree.chain : MTree → Nat
  | .leaf _ _ => 0
  | .multi _ _ _ => 0
  | .msg _ inner => inner.chain + 1

theorem children_ctx (env : HdrEnv) : (t : MTree) → t.Good env → ∀ (pre post : Bytes) (fuel : Nat),
    t.chain < fuel →
    children env (pre ++ (t.render ++ post)) fuel (t.rootSec pre.length) = .ok (t.kidSecs pre.length)
  | .leaf h b, hg, pre, post, fuel, hf => by
    obtain ⟨fuel, rfl⟩ : ∃ f, fuel = f + 1 := ⟨fuel - 1, by omega⟩
    simp only [MTree.Good] at hg
    simp only [children, MTree.rootSec, MTree.render, hdr_leaf, hdr_multi, hdr_msg, rest_leaf, rest_multi, rest_msg, MTree.kidSecs]
    have e : pre ++ (h ++ b ++ post) = pre ++ (h ++ (b ++ post)) := by simp
    rw [e, goSlice_ctx pre h (b ++ post) _ _ rfl rfl]
    simp only [hg.2]
  | .multi h bnd kids, hg, pre, post, fuel, hf => by
    obtain ⟨fuel, rfl⟩ : ∃ f, fuel = f + 1 := ⟨fuel - 1, by omega⟩
    simp only [MTree.Good] at hg
    obtain ⟨_, hne, hct, hgl⟩ := hg
    simp only [children, MTree.rootSec, MTree.render, hdr_leaf, hdr_multi, hdr_msg, rest_leaf, rest_multi, rest_msg, MTree.kidSecs]
    have e : pre ++ (h ++ renderParts (startBoundary bnd) (MTree.restList kids) ++ post)
        = pre ++ (h ++ (renderParts (startBoundary bnd) (MTree.restList kids) ++ post)) := by simp
    rw [e, goSlice_ctx pre h _ _ _ rfl rfl]
    simp only [ctOf, hne, if_false, hct]
    have e2 : pre ++ (h ++ (renderParts (startBoundary bnd) (MTree.restList kids) ++ post))
        = (pre ++ h) ++ (renderParts (startBoundary bnd) (MTree.restList kids) ++ post) := by simp
    rw [e2, goSlice_ctx (pre ++ h) _ post _ _ (by simp) (by simp; omega)]
    simp only
    rw [scanAll_rendered bnd _ (goodList_fresh env _ kids hgl)]
    simp only
    cases kids with
    | nil => rfl
    | cons t ts =>
      have e3 : (pre ++ h) ++ (renderParts (startBoundary bnd) (MTree.restList (t :: ts)) ++ post)
          = (pre ++ h ++ startBoundary bnd ++ CRLF)
            ++ (partsTail (startBoundary bnd) (MTree.restList (t :: ts)) ++ post) := by
        simp only [renderParts, MTree.restList, afterDelim_cons, List.append_assoc]
      have hP : (pre ++ h ++ startBoundary bnd ++ CRLF).length
          = (pre.length + h.length) + ((startBoundary bnd).length + 2) := by
        simp [CRLF]; omega
      rw [e3, partSecs_kids env _ (t :: ts) _ post (pre.length + h.length) _ hP hgl]
      congr 2
  | .msg h inner, hg, pre, post, fuel, hf => by
    obtain ⟨fuel, rfl⟩ : ∃ f, fuel = f + 1 := ⟨fuel - 1, by omega⟩
    simp only [MTree.Good] at hg
    obtain ⟨_, hne, hct, hgi⟩ := hg
    simp only [MTree.chain] at hf
    simp only [children, MTree.rootSec, MTree.render, hdr_leaf, hdr_multi, hdr_msg, rest_leaf, rest_multi, rest_msg, MTree.kidSecs]
    have e : pre ++ (h ++ (inner.hdr ++ inner.rest) ++ post)
        = pre ++ (h ++ ((inner.hdr ++ inner.rest) ++ post)) := by simp
    rw [e, goSlice_ctx pre h _ _ _ rfl rfl]
    simp only [ctOf, hne, if_false, hct]
    have e2 : pre ++ (h ++ ((inner.hdr ++ inner.rest) ++ post))
        = (pre ++ h) ++ ((inner.hdr ++ inner.rest) ++ post) := by simp
    rw [e2, parseSec_ctx env (pre ++ h) inner.hdr inner.rest post _ _ (good_hdrAt env inner hgi)
      (by simp) (by simp; omega)]
    simp only
    have ih := children_ctx env inner hgi (pre ++ h) post fuel (by omega)
    simp only [MTree.rootSec, MTree.render, List.length_append] at ih
    have hsec : (⟨pre.length + h.length, pre.length + h.length + inner.hdr.length,
        pre.length + (h ++ (inner.hdr ++ inner.rest)).length⟩ : Sec)
        = ⟨pre.length + h.length, pre.length + h.length + inner.hdr.length,
            pre.length + h.length + (inner.hdr.length + inner.rest.length)⟩ := by
      congr 1
      simp; omega
    rw [hsec, ih]

/-! ### Walk in context -/

theorem expect_eq (t : MTree) (o : Nat) : t.expect o = .node (t.rootSec o) (t.expectKids o) := by
  cases t <;> simp [MTree.expect, MTree.expectKids]

mutual
  def MTree.size : MTree → Nat
    | .leaf _ _ => 1
    | .multi _ _ kids => MTree.sizeList kids + 1
    | .msg _ inner => inner.size + 1
  def MTree.sizeList : List MTree → Nat
    | [] => 0
    | t :: ts => t.size + MTree.sizeList ts
end

theorem chain_lt_size : (t : MTree) → t.chain < t.size
  | .leaf _ _ => by simp [MTree.chain, MTree.size]
  | .multi _ _ _ => by simp [MTree.chain, MTree.size]
  | .msg _ inner => by have := chain_lt_size inner; simp [MTree.chain, MTree.size]; omega

mutual
  theorem size_le_render (env : HdrEnv) : (t : MTree) → t.Good env → t.size ≤ t.render.length + 1
    | .leaf _ _, _ => by simp [MTree.size]
    | .multi h bnd kids, hg => by
      simp only [MTree.Good] at hg
      have := sizeList_le env (startBoundary bnd) kids hg.2.2.2
      simp [MTree.size, MTree.render, hdr_leaf, hdr_multi, hdr_msg, rest_leaf, rest_multi, rest_msg, renderParts]
      omega
    | .msg h inner, hg => by
      simp only [MTree.Good] at hg
      have := size_le_render env inner hg.2.2.2
      simp [MTree.size, MTree.render, hdr_leaf, hdr_multi, hdr_msg, rest_leaf, rest_multi, rest_msg] at this ⊢
      omega
  theorem sizeList_le (env : HdrEnv) (sb : Bytes) : (kids : List MTree) → MTree.GoodList env sb kids →
      MTree.sizeList kids ≤ (afterDelim sb (MTree.restList kids)).length
    | [], _ => by simp [MTree.sizeList]
    | t :: ts, hg => by
      simp only [MTree.GoodList] at hg
      have h1 := size_le_render env t hg.1
      have h2 := sizeList_le env sb ts hg.2.2
      simp [MTree.sizeList, MTree.restList, afterDelim, CRLF, MTree.render] at h1 h2 ⊢
      omega
end

/-- `Walk` of a node, given the walk of its children -/
theorem walk_of_kids (env : HdrEnv) (t : MTree) (hg : t.Good env) (pre post : Bytes) (fuel : Nat)
    (hk : mapE (walk env (pre ++ (t.render ++ post)) fuel) (t.kidSecs pre.length) = .ok (t.expectKids pre.length)) :
    walk env (pre ++ (t.render ++ post)) (fuel + 1) (t.rootSec pre.length) = .ok (t.expect pre.length) := by
  simp only [walk]
  rw [children_ctx env t hg pre post _ (by
    have := chain_lt_size t
    have := size_le_render env t hg
    simp; omega)]
  simp only [hk, expect_eq]

mutual
  theorem walkKids_ctx (env : HdrEnv) : (t : MTree) → t.Good env → ∀ (pre post : Bytes) (fuel : Nat),
      t.size ≤ fuel + 1 →
      mapE (walk env (pre ++ (t.render ++ post)) fuel) (t.kidSecs pre.length) = .ok (t.expectKids pre.length)
    | .leaf _ _, _, _, _, _, _ => by simp [MTree.kidSecs, MTree.expectKids, mapE]
    | .multi h bnd kids, hg, pre, post, fuel, hf => by
      simp only [MTree.Good] at hg
      obtain ⟨_, _, _, hgl⟩ := hg
      simp only [MTree.kidSecs, MTree.expectKids, MTree.render, hdr_leaf, hdr_multi, hdr_msg, rest_leaf, rest_multi, rest_msg]
      cases kids with
      | nil => simp [MTree.kidSecsList, MTree.expectList, mapE]
      | cons t ts =>
        have e3 : pre ++ (h ++ renderParts (startBoundary bnd) (MTree.restList (t :: ts)) ++ post)
            = (pre ++ h ++ startBoundary bnd ++ CRLF)
              ++ (partsTail (startBoundary bnd) (MTree.restList (t :: ts)) ++ post) := by
          simp only [renderParts, MTree.restList, afterDelim_cons, List.append_assoc]
        have hP : (pre ++ h ++ startBoundary bnd ++ CRLF).length
            = pre.length + h.length + (startBoundary bnd).length + 2 := by
          simp [CRLF]; omega
        rw [e3, ← hP]
        exact walkList_ctx env _ (t :: ts) hgl _ post fuel (by simp only [MTree.size] at hf; omega)
    | .msg h inner, hg, pre, post, fuel, hf => by
      simp only [MTree.Good] at hg
      obtain ⟨_, _, _, hgi⟩ := hg
      simp only [MTree.kidSecs, MTree.expectKids, MTree.render, hdr_leaf, hdr_multi, hdr_msg, rest_leaf, rest_multi, rest_msg]
      have e2 : pre ++ (h ++ (inner.hdr ++ inner.rest) ++ post)
          = (pre ++ h) ++ (inner.render ++ post) := by simp [MTree.render]
      have hl : (pre ++ h).length = pre.length + h.length := by simp
      rw [e2, ← hl]
      exact walkKids_ctx env inner hgi (pre ++ h) post fuel (by simp only [MTree.size] at hf; omega)
  theorem walkList_ctx (env : HdrEnv) (sb : Bytes) : (kids : List MTree) → MTree.GoodList env sb kids →
      ∀ (P post : Bytes) (fuel : Nat), MTree.sizeList kids ≤ fuel →
      mapE (walk env (P ++ (partsTail sb (MTree.restList kids) ++ post)) fuel) (MTree.kidSecsList sb P.length kids)
        = .ok (MTree.expectList sb P.length kids)
    | [], _, _, _, _, _ => by simp [MTree.kidSecsList, MTree.expectList, mapE]
    | t :: ts, hg, P, post, fuel, hf => by
      simp only [MTree.GoodList] at hg
      obtain ⟨hgt, _, hgts⟩ := hg
      simp only [MTree.sizeList] at hf
      have hpos : 0 < t.size := by cases t <;> simp [MTree.size]
      obtain ⟨fuel, rfl⟩ : ∃ f, fuel = f + 1 := ⟨fuel - 1, by omega⟩
      simp only [MTree.kidSecsList, MTree.expectList, MTree.restList, partsTail, mapE]
      have e1 : P ++ (t.hdr ++ t.rest ++ (CRLF ++ (sb ++ afterDelim sb (MTree.restList ts))) ++ post)
          = P ++ (t.render ++ ((CRLF ++ (sb ++ afterDelim sb (MTree.restList ts))) ++ post)) := by
        simp [MTree.render]
      rw [e1, walk_of_kids env t hgt P _ fuel (walkKids_ctx env t hgt P _ fuel (by omega))]
      simp only
      cases ts with
      | nil => simp [MTree.kidSecsList, MTree.expectList, mapE]
      | cons q ts' =>
        have e2 : P ++ (t.render ++ ((CRLF ++ (sb ++ afterDelim sb (MTree.restList (q :: ts')))) ++ post))
            = (P ++ t.render ++ CRLF ++ sb ++ CRLF) ++ (partsTail sb (MTree.restList (q :: ts')) ++ post) := by
          simp only [MTree.restList, afterDelim_cons, List.append_assoc]
        have hP' : (P ++ t.render ++ CRLF ++ sb ++ CRLF).length = P.length + t.render.length + 2 + sb.length + 2 := by
          simp [CRLF]; omega
        rw [e2, ← hP', walkList_ctx env sb (q :: ts') hgts _ post (fuel + 1) (by omega)]
end

/-- Parse + Walk of a well-built message is the tree it was built from -/
theorem parseWalk_built (env : HdrEnv) (t : MTree) (hg : t.Good env) :
    parseWalk env t.render = .ok (t.expect 0) := by
  unfold parseWalk
  have e : t.render = [] ++ ((t.hdr ++ t.rest) ++ []) := by simp [MTree.render]
  have hps := parseSec_ctx env [] t.hdr t.rest [] 0 t.render.length (good_hdrAt env t hg) rfl
    (by simp [MTree.render])
  rw [← e] at hps
  rw [hps]
  simp only
  have hk := walkKids_ctx env t hg [] [] t.render.length (size_le_render env t hg)
  have hw := walk_of_kids env t hg [] [] t.render.length hk
  simp only [List.nil_append, List.append_nil, List.length_nil] at hw
  have hroot : (⟨0, 0 + t.hdr.length, t.render.length⟩ : Sec) = t.rootSec 0 := by
    simp [MTree.rootSec]
  rw [hroot, hw]

end Gluon.Mime
