/-
Lemmas about the update loop model (`ConnUpd.runLoop`) and the one-shot waiter, for C06
(`ack_once`, `pipeline_continues`).
-/
import GluonModel.Model.ConnUpdates

namespace Gluon.ConnUpd

def isDone (i : Nat) : LoopEv → Bool
  | .done j _ => j == i
  | _ => false

def isTaken (i : Nat) : LoopEv → Bool
  | .taken j => j == i
  | _ => false

def countDone (i : Nat) (evs : List LoopEv) : Nat := (evs.filter (isDone i)).length
def countTaken (i : Nat) (evs : List LoopEv) : Nat := (evs.filter (isTaken i)).length

/-- the shape the source has today: one `Done` per `apply`, the loop goes on after an error -/
def shapeOK : LoopShape := { doneCalls := 1, exitsOnError := false }

/-- events of one iteration -/
def iter (i : Nat) (e : Option Err) : List LoopEv :=
  LoopEv.taken i :: ([LoopEv.done i e] ++ (if e.isSome then [LoopEv.reported i] else []))

theorem runLoop_ok_cons (cfg : Cfg) (db : DB) (i : Nat) (u : Update) (us : List Update) :
    runLoop shapeOK cfg db i (u :: us)
      = (iter i (apply cfg db u).err ++ (runLoop shapeOK cfg (apply cfg db u).db (i + 1) us).1,
         (runLoop shapeOK cfg (apply cfg db u).db (i + 1) us).2) := by
  simp [runLoop, shapeOK, iter, List.replicate]

theorem countDone_iter (i j : Nat) (e : Option Err) : countDone j (iter i e) = if i = j then 1 else 0 := by
  cases e <;> by_cases h : i = j <;> simp [countDone, iter, isDone, h]

theorem countTaken_iter (i j : Nat) (e : Option Err) : countTaken j (iter i e) = if i = j then 1 else 0 := by
  cases e <;> by_cases h : i = j <;> simp [countTaken, iter, isTaken, h]

theorem countDone_append (j : Nat) (a b : List LoopEv) : countDone j (a ++ b) = countDone j a + countDone j b := by
  simp [countDone, List.filter_append]

theorem countTaken_append (j : Nat) (a b : List LoopEv) : countTaken j (a ++ b) = countTaken j a + countTaken j b := by
  simp [countTaken, List.filter_append]

/-- every index in `[i0, i0 + |us|)` is acknowledged exactly once and taken exactly once; no other
    index occurs -/
theorem runLoop_counts (cfg : Cfg) (us : List Update) : ∀ (db : DB) (i0 j : Nat),
    countDone j (runLoop shapeOK cfg db i0 us).1 = (if i0 ≤ j ∧ j < i0 + us.length then 1 else 0) ∧
    countTaken j (runLoop shapeOK cfg db i0 us).1 = (if i0 ≤ j ∧ j < i0 + us.length then 1 else 0) := by
  induction us with
  | nil => intro db i0 j; simp [runLoop, countDone, countTaken]
  | cons u us ih =>
    intro db i0 j
    rw [runLoop_ok_cons]
    simp only [countDone_append, countTaken_append, countDone_iter, countTaken_iter, List.length_cons]
    have h := ih (apply cfg db u).db (i0 + 1) j
    rw [h.1, h.2]
    constructor <;> (repeat' split) <;> omega

/-- the state the loop ends in is the fold of `apply` over all updates: errors do not stop it -/
def applyAll (cfg : Cfg) : DB → List Update → DB
  | db, [] => db
  | db, u :: us => applyAll cfg (apply cfg db u).db us

theorem runLoop_final (cfg : Cfg) (us : List Update) : ∀ (db : DB) (i0 : Nat),
    (runLoop shapeOK cfg db i0 us).2 = applyAll cfg db us := by
  induction us with
  | nil => intro db i0; simp [runLoop, applyAll]
  | cons u us ih => intro db i0; rw [runLoop_ok_cons]; simp [applyAll, ih]

/-- events for other indices do not touch the waiter of update `i` -/
theorem feedWaiter_skip (i : Nat) (evs : List LoopEv) (o : DoneOutcome) (h : countDone i evs = 0) :
    feedWaiter i evs o = o := by
  induction evs generalizing o with
  | nil => rfl
  | cons e es ih =>
    have hes : countDone i es = 0 := by
      simp only [countDone, List.filter_cons] at h ⊢
      split at h <;> simp_all
    cases e with
    | taken j => cases o <;> simp [feedWaiter, ih _ hes]
    | reported j => cases o <;> simp [feedWaiter, ih _ hes]
    | done j e' =>
      have hj : (j == i) = false := by
        simp only [countDone, List.filter_cons, isDone] at h
        cases hji : (j == i) with
        | false => rfl
        | true => simp [hji] at h
      cases o <;> simp [feedWaiter, hj, ih _ hes]

/-- the `k`-th result of the run -/
def nthErr (cfg : Cfg) : DB → List Update → Nat → Option (Option Err)
  | _, [], _ => none
  | db, u :: _, 0 => some (apply cfg db u).err
  | db, u :: us, k + 1 => nthErr cfg (apply cfg db u).db us k

theorem feedWaiter_iter_self (i : Nat) (e : Option Err) (rest : List LoopEv) (w : Waiter) :
    feedWaiter i (iter i e ++ rest) (.ok w) = feedWaiter i rest (w.done e) := by
  cases e <;> simp [iter, feedWaiter]

theorem feedWaiter_iter_other (i j : Nat) (e : Option Err) (rest : List LoopEv) (o : DoneOutcome) (h : j ≠ i) :
    feedWaiter i (iter j e ++ rest) o = feedWaiter i rest o := by
  have hb : (j == i) = false := by simp [h]
  cases e <;> cases o <;> simp [iter, feedWaiter, hb]

/-- the waiter of the `k`-th update receives exactly the `Done` of the `k`-th `apply` -/
theorem feedWaiter_run (cfg : Cfg) (us : List Update) : ∀ (db : DB) (i0 k : Nat) (e : Option Err),
    nthErr cfg db us k = some e →
    feedWaiter (i0 + k) (runLoop shapeOK cfg db i0 us).1 (.ok Waiter.new) = Waiter.new.done e := by
  induction us with
  | nil => intro db i0 k e h; simp [nthErr] at h
  | cons u us ih =>
    intro db i0 k e h
    rw [runLoop_ok_cons]
    cases k with
    | zero =>
      simp only [nthErr, Option.some.injEq] at h
      subst h
      simp only [Nat.add_zero]
      rw [feedWaiter_iter_self]
      apply feedWaiter_skip
      have := (runLoop_counts cfg us (apply cfg db u).db (i0 + 1) i0).1
      rw [this]; simp; omega
    | succ k =>
      simp only [nthErr] at h
      have hne : i0 ≠ i0 + (k + 1) := by omega
      rw [feedWaiter_iter_other _ _ _ _ _ hne]
      have := ih (apply cfg db u).db (i0 + 1) k e h
      have heq : i0 + 1 + k = i0 + (k + 1) := by omega
      rw [heq] at this
      exact this

theorem nthErr_isSome (cfg : Cfg) (us : List Update) : ∀ (db : DB) (k : Nat), k < us.length →
    ∃ e, nthErr cfg db us k = some e := by
  induction us with
  | nil => intro db k h; simp at h
  | cons u us ih =>
    intro db k h
    cases k with
    | zero => exact ⟨_, rfl⟩
    | succ k => simp only [nthErr]; exact ih _ k (by simpa using h)

end Gluon.ConnUpd
