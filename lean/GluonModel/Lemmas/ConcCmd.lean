/- Invariant, progress and measure of the command pipeline; the IDLE forwarder (Model/ConcCmd.lean). -/
import GluonModel.Model.ConcCmd

namespace Gluon.Conc

/-! ### command pipeline -/

theorem cmdinv_init (cap n : Nat) (h : 0 < cap) : CmdInv (CmdState.init cap n true) :=
  ⟨h, rfl, by simp [CmdState.init], by simp [CmdState.init], by simp [CmdState.init]⟩

theorem cmdinv_step (s : CmdState) (st : CmdStep) (inv : CmdInv s) : CmdInv (s.step st) := by
  obtain ⟨hc, hd, hg, hf, hcl⟩ := inv
  cases st with
  | push =>
    simp only [CmdState.step]
    split
    · next h =>
      refine ⟨hc, hd, hg, ?_, ?_⟩
      · intro hfin
        have := hf hfin
        have := hcl this.1
        omega
      · intro hclosed
        have := hcl hclosed
        omega
    · exact ⟨hc, hd, hg, hf, hcl⟩
  | close =>
    simp only [CmdState.step]
    split
    · next h =>
      refine ⟨hc, hd, hg, ?_, fun _ => h.1⟩
      intro hfin
      have := hf hfin
      simp_all
    · exact ⟨hc, hd, hg, hf, hcl⟩
  | recv f =>
    simp only [CmdState.step]
    split
    · next hcons =>
      split
      · next hb =>
        refine ⟨hc, hd, ?_, ?_, hcl⟩
        · cases f <;> simp
        · cases f <;> simp
      · next hb =>
        split
        · next hclosed =>
          refine ⟨hc, hd, by simp, ?_, hcl⟩
          intro _
          exact ⟨hclosed, by show s.buf = 0; omega⟩
        · exact ⟨hc, hd, hg, hf, hcl⟩
    · next hcons =>
      split
      · next hb =>
        refine ⟨hc, hd, hg, ?_, hcl⟩
        intro hfin
        simp [hcons] at hfin
      · next hb =>
        split
        · next hclosed =>
          refine ⟨hc, hd, by simp, ?_, hcl⟩
          intro _
          exact ⟨hclosed, by show s.buf = 0; omega⟩
        · exact ⟨hc, hd, hg, hf, hcl⟩
    · exact ⟨hc, hd, hg, hf, hcl⟩
    · exact ⟨hc, hd, hg, hf, hcl⟩

theorem cmdinv_run (s : CmdState) (steps : List CmdStep) (inv : CmdInv s) : CmdInv (s.run steps) := by
  induction steps generalizing s with
  | nil => exact inv
  | cons st rest ih => exact ih (s.step st) (cmdinv_step s st inv)

/-- with a draining receiver: unless everything is over, some step is enabled and uses up measure -/
theorem cmd_progress (s : CmdState) (inv : CmdInv s) (h : ¬ s.done) :
    ∃ st, (s.step st).measure < s.measure := by
  obtain ⟨hc, hd, hg, hf, hcl⟩ := inv
  by_cases hclosed : s.closed = true
  · -- producers are done: the receiver empties the channel and finishes
    have hnf : s.consumer ≠ .finished := fun e => h ⟨hclosed, e⟩
    refine ⟨.recv false, ?_⟩
    cases hcons : s.consumer with
    | gone => exact absurd hcons hg
    | finished => exact absurd hcons hnf
    | ranging =>
      by_cases hb : 0 < s.buf
      · simp [CmdState.step, CmdState.measure, hcons, hb, hclosed]; omega
      · simp [CmdState.step, CmdState.measure, hcons, hb, hclosed]
    | draining =>
      by_cases hb : 0 < s.buf
      · simp [CmdState.step, CmdState.measure, hcons, hb, hclosed]; omega
      · simp [CmdState.step, CmdState.measure, hcons, hb, hclosed]
  · have hclosed' : s.closed = false := by simpa using hclosed
    have hnf : s.consumer ≠ .finished := fun e => hclosed ((hf e).1)
    by_cases hp : s.toProduce = 0
    · refine ⟨.close, ?_⟩
      simp [CmdState.step, CmdState.measure, hp, hclosed']
    · by_cases hroom : s.buf < s.cap
      · refine ⟨.push, ?_⟩
        have : 0 < s.toProduce := by omega
        simp [CmdState.step, CmdState.measure, this, hroom, hclosed']; omega
      · -- the channel is full: the receiver (serve loop or drainer) takes one
        have hb : 0 < s.buf := by omega
        refine ⟨.recv false, ?_⟩
        cases hcons : s.consumer with
        | gone => exact absurd hcons hg
        | finished => exact absurd hcons hnf
        | ranging => simp [CmdState.step, CmdState.measure, hcons, hb, hclosed']; omega
        | draining => simp [CmdState.step, CmdState.measure, hcons, hb, hclosed']; omega

theorem cmd_finishes_aux (k : Nat) : ∀ s : CmdState, CmdInv s → s.measure ≤ k →
    ∃ more : List CmdStep, more.length ≤ k ∧ (s.run more).done := by
  induction k with
  | zero =>
    intro s inv hm
    refine ⟨[], by simp, ?_⟩
    obtain ⟨hc, hd, hg, hf, hcl⟩ := inv
    simp only [CmdState.measure] at hm
    have hclosed : s.closed = true := by
      cases hcl' : s.closed with
      | true => rfl
      | false => simp [hcl'] at hm
    cases hcons : s.consumer with
    | gone => exact absurd hcons hg
    | finished => exact ⟨hclosed, hcons⟩
    | ranging => simp [hcons] at hm
    | draining => simp [hcons] at hm
  | succ k ih =>
    intro s inv hm
    by_cases hdone : s.done
    · exact ⟨[], by simp, hdone⟩
    · obtain ⟨st, hlt⟩ := cmd_progress s inv hdone
      obtain ⟨more, hlen, hfin⟩ := ih (s.step st) (cmdinv_step s st inv) (by omega)
      exact ⟨st :: more, by simp; omega, hfin⟩

/-- nobody receives, and more is outstanding than the channel takes: the producers never finish -/
theorem cmd_stuck_run (s : CmdState) (steps : List CmdStep) (hgone : s.consumer = .gone)
    (hopen : s.closed = false) (hmany : s.cap < s.toProduce + s.buf) (hbuf : s.buf ≤ s.cap) :
    (s.run steps).closed = false ∧ 0 < (s.run steps).toProduce := by
  induction steps generalizing s with
  | nil => exact ⟨hopen, by simp [CmdState.run]; omega⟩
  | cons st rest ih =>
    have key : (s.step st).consumer = .gone ∧ (s.step st).closed = false ∧
        (s.step st).cap < (s.step st).toProduce + (s.step st).buf ∧ (s.step st).buf ≤ (s.step st).cap := by
      cases st with
      | push =>
        simp only [CmdState.step]
        split
        · next h => exact ⟨hgone, hopen, by simp; omega, by simp; omega⟩
        · exact ⟨hgone, hopen, hmany, hbuf⟩
      | close =>
        simp only [CmdState.step]
        split
        · next h => exfalso; omega
        · exact ⟨hgone, hopen, hmany, hbuf⟩
      | recv f =>
        have hsame : s.step (.recv f) = s := by simp [CmdState.step, hgone]
        rw [hsame]
        exact ⟨hgone, hopen, hmany, hbuf⟩
    exact ih (s.step st) key.1 key.2.1 key.2.2.1 key.2.2.2

/-! ### IDLE forwarder -/

theorem idle_deferred_inv (steps : List IdleStep) :
    let s := (IdleState.init true).run steps
    s.deferred = true ∧ (s.returned = true → s.chClosed = true ∧ s.fwd ≠ .notStarted) := by
  suffices h : ∀ s : IdleState,
      (s.deferred = true ∧ (s.returned = true → s.chClosed = true ∧ s.fwd ≠ .notStarted)) →
      ((s.run steps).deferred = true ∧
        ((s.run steps).returned = true → (s.run steps).chClosed = true ∧ (s.run steps).fwd ≠ .notStarted)) by
    exact h _ ⟨rfl, by simp [IdleState.init]⟩
  induction steps with
  | nil => intro s h; exact h
  | cons st rest ih =>
    intro s ⟨hd, hr⟩
    apply ih (s.step st)
    cases st with
    | start =>
      simp only [IdleState.step]
      split
      · next h => exact ⟨hd, by intro hret; simp_all⟩
      · exact ⟨hd, hr⟩
    | fnReturn err =>
      simp only [IdleState.step]
      split
      · next h => exact ⟨hd, fun _ => ⟨by simp [hd], h.1⟩⟩
      · exact ⟨hd, hr⟩
    | fwdPoll =>
      simp only [IdleState.step]
      split
      · next h =>
        refine ⟨hd, ?_⟩
        intro hret
        exact ⟨(hr hret).1, by simp⟩
      · exact ⟨hd, hr⟩

theorem idle_fixed_run (s : IdleState) (steps : List IdleStep) (h : ∀ st, s.step st = s) :
    s.run steps = s := by
  induction steps with
  | nil => rfl
  | cons st rest ih => simp only [IdleState.run, List.foldl_cons, h st]; exact ih

theorem inj_cfg_run (s : InjState) (steps : List InjStep) :
    (s.run steps).watchOuter = s.watchOuter ∧ (s.run steps).watchInner = s.watchInner := by
  induction steps generalizing s with
  | nil => exact ⟨rfl, rfl⟩
  | cons st rest ih =>
    have h1 : (s.step st).watchOuter = s.watchOuter ∧ (s.step st).watchInner = s.watchInner := by
      cases st <;> simp only [InjState.step] <;> (try split) <;> (try simp)
    have h2 := ih (s.step st)
    simp only [InjState.run, List.foldl_cons] at h2 ⊢
    exact ⟨h2.1.trans h1.1, h2.2.trans h1.2⟩

theorem inj_fixed_run (s : InjState) (steps : List InjStep) (h : ∀ st, s.step st = s) :
    s.run steps = s := by
  induction steps with
  | nil => rfl
  | cons st rest ih => simp only [InjState.run, List.foldl_cons, h st]; exact ih

end Gluon.Conc
