/-
C16 helper lemmas, part 6: the whole pipeline `selectText` (text → parser → snapshot), and the
soundness of the (sequence number, message) pairs the resolve functions return.
-/
import GluonModel.Lemmas.SeqSetParse

namespace Gluon
namespace SeqSet
open SeqSetSpec

/-- the text is an RFC 3501 `sequence-set`: at least one item, no zero -/
def RFCSet (S : SSet) : Prop := S ≠ [] ∧ ∀ it ∈ S, wfItem it

theorem exists_big_of_not_fits (S : SSet) (h : ¬ S.all fitsItem = true) :
    ∃ it ∈ S, ∃ n, SNum.num n ∈ it.nums ∧ 4294967295 < n := by
  have h' : S.all fitsItem = false := by simpa using h
  obtain ⟨it, hit, hf⟩ := List.all_eq_false.mp h'
  have key : ∀ a : SNum, ¬ fitsNum a = true → ∃ n, a = .num n ∧ 4294967295 < n := by
    intro a ha
    cases a with
    | star => simp [fitsNum] at ha
    | num n => simp only [fitsNum, decide_eq_true_eq] at ha; exact ⟨n, rfl, by omega⟩
  refine ⟨it, hit, ?_⟩
  cases it with
  | one a =>
    obtain ⟨n, rfl, hn⟩ := key a (by simpa [fitsItem] using hf)
    exact ⟨n, by simp [SItem.nums], hn⟩
  | range a b =>
    simp only [fitsItem, Bool.and_eq_true] at hf
    by_cases ha : fitsNum a = true
    · have hb : ¬ fitsNum b = true := fun hb => hf ⟨ha, hb⟩
      obtain ⟨n, rfl, hn⟩ := key b hb
      exact ⟨n, by simp [SItem.nums], hn⟩
    · obtain ⟨n, rfl, hn⟩ := key a ha
      exact ⟨n, by simp [SItem.nums], hn⟩

theorem selectText_ok {uidMode : Bool} {s : Snap} {text : Input} {set : List SeqRange} {rest : Input}
    {ms : List SeqMsg} (h : parseSeqSet text = some (set, rest))
    (hres : (if uidMode then getMessagesInUIDRange s set else getMessagesInSeqRange s set) = .ok ms) :
    selectText uidMode s text = .selected ms := by
  simp only [selectText, h, hres]

theorem selectText_err {uidMode : Bool} {s : Snap} {text : Input} {set : List SeqRange} {rest : Input}
    {e : Err} (h : parseSeqSet text = some (set, rest))
    (hres : (if uidMode then getMessagesInUIDRange s set else getMessagesInSeqRange s set) = .error e) :
    selectText uidMode s text = .failed e := by
  simp only [selectText, h, hres]

theorem selectText_bad {uidMode : Bool} {s : Snap} {text : Input} (h : parseSeqSet text = none) :
    selectText uidMode s text = .bad := by
  simp only [selectText, h]

/-! ### the messages returned sit at the sequence numbers returned -/

def SoundAt (s : Snap) (m : SeqMsg) : Prop := 1 ≤ m.seq ∧ s[m.seq - 1]? = some m.msg

theorem goSlice_inv {α : Type} {l : List α} {lo hi : Int} {x : List α} (h : goSlice l lo hi = .ok x) :
    0 ≤ lo ∧ lo ≤ hi ∧ hi ≤ (l.length : Int) ∧ x = (l.drop lo.toNat).take (hi.toNat - lo.toNat) := by
  unfold goSlice at h
  by_cases c : 0 ≤ lo ∧ lo ≤ hi ∧ hi ≤ (l.length : Int)
  · rw [if_pos c] at h
    cases h
    exact ⟨c.1, c.2.1, c.2.2, rfl⟩
  · rw [if_neg c] at h; cases h

theorem goIndex_inv {α : Type} {l : List α} {i : Int} {x : α} (h : goIndex l i = .ok x) :
    0 ≤ i ∧ l[i.toNat]? = some x := by
  unfold goIndex at h
  by_cases c : i < 0
  · rw [if_pos c] at h; cases h
  · rw [if_neg c] at h
    cases hx : l[i.toNat]? with
    | none => simp [hx] at h
    | some y => simp only [hx, Except.ok.injEq] at h; subst h; exact ⟨by omega, rfl⟩

theorem seqOne_sound (s : Snap) (hl : s.length < 4294967296) (iv : Interval) (ms : List SeqMsg)
    (h : seqOne s iv = .ok ms) : ∀ m ∈ ms, SoundAt s m := by
  unfold seqOne at h
  by_cases he : iv.b = iv.e
  · rw [if_pos he] at h
    unfold getWithSeqID at h
    simp only [] at h
    by_cases c : s.length = 0 ∨ (iv.b : Int) - 1 ≥ (s.length : Int)
    · rw [if_pos c] at h; cases h
    · rw [if_neg c] at h
      cases hg : goIndex s ((iv.b : Int) - 1) with
      | error e => simp [hg] at h
      | ok x =>
        obtain ⟨h0, hx⟩ := goIndex_inv hg
        simp only [hg, Except.ok.injEq] at h
        subst h
        intro m hm
        simp only [List.mem_singleton] at hm
        subst hm
        have e : ((iv.b : Int) - 1).toNat = iv.b - 1 := by omega
        rw [e] at hx
        exact ⟨by simp only []; omega, hx⟩
  · rw [if_neg he] at h
    by_cases hx : (!existsWithSeqID s iv.b || !existsWithSeqID s iv.e) = true
    · rw [if_pos hx] at h; cases h
    · rw [if_neg hx] at h
      unfold seqRange at h
      cases hg : goSlice s (u32Pred iv.b : Nat) (iv.e : Nat) with
      | error e => simp [hg] at h
      | ok x =>
        obtain ⟨_, h2, h3, rfl⟩ := goSlice_inv hg
        simp only [hg, Except.ok.injEq] at h
        subst h
        by_cases hz : iv.b = 0
        · -- the lower index is 2^32-1: the slice can only be the empty one at the very end
          rw [hz, u32Pred_zero] at h2 ⊢
          have e0 : ((iv.e : Nat) : Int).toNat - ((4294967295 : Nat) : Int).toNat = 0 := by omega
          rw [e0]
          intro m hm
          simp [number] at hm
        · have hb : 1 ≤ iv.b := by omega
          rw [u32Pred_pos hb] at h2 ⊢
          have e1 : ((iv.b : Nat) : Int) = ((iv.b - 1 : Nat) : Int) + 1 := by omega
          rw [e1]
          simp only [Int.toNat_natCast]
          exact number_sound s (iv.b - 1) (iv.e - (iv.b - 1)) (by omega) hl

theorem uidOne_sound (s : Snap) (hasc : Asc s) (hl : s.length < 4294967296) (iv : Interval) (hle : iv.b ≤ iv.e) :
    ∀ ms, uidOne s iv = .ok ms → ∀ m ∈ ms, SoundAt s m := by
  intro ms h
  have := uidOne_eq s hasc iv.b iv.e hle
  rw [this] at h
  cases h
  have h1 := lb_le_length s (iv.e + 1)
  have h2 := lb_mono s (show iv.b ≤ iv.e + 1 by omega)
  exact number_sound s (lb s iv.b) _ (by omega) hl

theorem collect_sound (s : Snap) (one : Interval → Except Err (List SeqMsg)) (ivs : List Interval)
    (hone : ∀ iv ∈ ivs, ∀ ms, one iv = .ok ms → ∀ m ∈ ms, SoundAt s m) (ms : List SeqMsg)
    (h : collect one ivs = .ok ms) : ∀ m ∈ ms, SoundAt s m := by
  intro m hm
  obtain ⟨iv, hiv, ms', hms', hmem⟩ := collect_mem h m hm
  exact hone iv hiv ms' hms' m hmem

end SeqSet
end Gluon
