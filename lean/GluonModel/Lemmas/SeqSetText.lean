/-
C16 helper lemmas, part 6: the whole pipeline `selectText` (text → parser → snapshot), and the
soundness of the (sequence number, message) pairs the resolve functions return.
-/
import GluonModel.Lemmas.SeqSetParse

namespace Gluon
namespace SeqSet
open SeqSetSpec

/-- the text is an RFC 3501 `sequence-set`: at least one item, no zero -/
def RFCSet (S : SSet) : Prop := S ≠ [] ∧ ∀ it ∈ S, wfItem it

theorem exists_big_of_not_fits (S : SSet) (h : ¬ S.all fitsItem = true) :
    ∃ it ∈ S, ∃ n, SNum.num n ∈ it.nums ∧ 4294967295 < n := by
  have h' : S.all fitsItem = false := by simpa using h
  obtain ⟨it, hit, hf⟩ := List.all_eq_false.mp h'
  have key : ∀ a : SNum, ¬ fitsNum a = true → ∃ n, a = .num n ∧ 4294967295 < n := by
    intro a ha
    cases a with
    | star => simp [fitsNum] at ha
    | num n => simp only [fitsNum, decide_eq_true_eq] at ha; exact ⟨n, rfl, by omega⟩
  refine ⟨it, hit, ?_⟩
  cases it with
  | one a =>
    obtain ⟨n, rfl, hn⟩ := key a (by simpa [fitsItem] using hf)
    exact ⟨n, by simp [SItem.nums], hn⟩
  | range a b =>
    simp only [fitsItem, Bool.and_eq_true] at hf
    by_cases ha : fitsNum a = true
    · have hb : ¬ fitsNum b = true := fun hb => hf ⟨ha, hb⟩
      obtain ⟨n, rfl, hn⟩ := key b hb
      exact ⟨n, by simp [SItem.nums], hn⟩
    · obtain ⟨n, rfl, hn⟩ := key a ha
      exact ⟨n, by simp [SItem.nums], hn⟩

theorem selectText_ok {uidMode : Bool} {s : Snap} {text : Input} {set : List SeqRange} {rest : Input}
    {ms : List SeqMsg} (h : parseSeqSet text = some (set, rest))
    (hres : getMessagesInRange uidMode s set = .ok ms) :
    selectText uidMode s text = .selected ms := by
  simp only [selectText, h, hres]

theorem selectText_err {uidMode : Bool} {s : Snap} {text : Input} {set : List SeqRange} {rest : Input}
    {e : Err} (h : parseSeqSet text = some (set, rest))
    (hres : getMessagesInRange uidMode s set = .error e) :
    selectText uidMode s text = .failed e := by
  simp only [selectText, h, hres]

theorem getMessagesInRange_ok {uidMode : Bool} {s : Snap} {set : List SeqRange} {msgs : List SeqMsg}
    (h : (if uidMode then getMessagesInUIDRange s set else getMessagesInSeqRange s set) = .ok msgs) :
    getMessagesInRange uidMode s set = .ok (uniqueById [] msgs) := by
  simp only [getMessagesInRange, h]

theorem getMessagesInRange_err {uidMode : Bool} {s : Snap} {set : List SeqRange} {e : Err}
    (h : (if uidMode then getMessagesInUIDRange s set else getMessagesInSeqRange s set) = .error e) :
    getMessagesInRange uidMode s set = .error e := by
  simp only [getMessagesInRange, h]

theorem selectText_bad {uidMode : Bool} {s : Snap} {text : Input} (h : parseSeqSet text = none) :
    selectText uidMode s text = .bad := by
  simp only [selectText, h]

/-! ### the messages returned sit at the sequence numbers returned -/

def SoundAt (s : Snap) (m : SeqMsg) : Prop := 1 ≤ m.seq ∧ s[m.seq - 1]? = some m.msg

theorem goSlice_inv {α : Type} {l : List α} {lo hi : Int} {x : List α} (h : goSlice l lo hi = .ok x) :
    0 ≤ lo ∧ lo ≤ hi ∧ hi ≤ (l.length : Int) ∧ x = (l.drop lo.toNat).take (hi.toNat - lo.toNat) := by
  unfold goSlice at h
  by_cases c : 0 ≤ lo ∧ lo ≤ hi ∧ hi ≤ (l.length : Int)
  · rw [if_pos c] at h
    cases h
    exact ⟨c.1, c.2.1, c.2.2, rfl⟩
  · rw [if_neg c] at h; cases h

theorem goIndex_inv {α : Type} {l : List α} {i : Int} {x : α} (h : goIndex l i = .ok x) :
    0 ≤ i ∧ l[i.toNat]? = some x := by
  unfold goIndex at h
  by_cases c : i < 0
  · rw [if_pos c] at h; cases h
  · rw [if_neg c] at h
    cases hx : l[i.toNat]? with
    | none => simp [hx] at h
    | some y => simp only [hx, Except.ok.injEq] at h; subst h; exact ⟨by omega, rfl⟩

theorem seqOne_sound (s : Snap) (hl : s.length < 4294967296) (iv : Interval) (ms : List SeqMsg)
    (h : seqOne s iv = .ok ms) : ∀ m ∈ ms, SoundAt s m := by
  unfold seqOne at h
  by_cases he : iv.b = iv.e
  · rw [if_pos he] at h
    unfold getWithSeqID at h
    simp only [] at h
    by_cases c : s.length = 0 ∨ (iv.b : Int) - 1 ≥ (s.length : Int)
    · rw [if_pos c] at h; cases h
    · rw [if_neg c] at h
      cases hg : goIndex s ((iv.b : Int) - 1) with
      | error e => simp [hg] at h
      | ok x =>
        obtain ⟨h0, hx⟩ := goIndex_inv hg
        simp only [hg, Except.ok.injEq] at h
        subst h
        intro m hm
        simp only [List.mem_singleton] at hm
        subst hm
        have e : ((iv.b : Int) - 1).toNat = iv.b - 1 := by omega
        rw [e] at hx
        exact ⟨by simp only []; omega, hx⟩
  · rw [if_neg he] at h
    by_cases hx : (!existsWithSeqID s iv.b || !existsWithSeqID s iv.e) = true
    · rw [if_pos hx] at h; cases h
    · rw [if_neg hx] at h
      unfold seqRange at h
      cases hg : goSlice s (u32Pred iv.b : Nat) (iv.e : Nat) with
      | error e => simp [hg] at h
      | ok x =>
        obtain ⟨_, h2, h3, rfl⟩ := goSlice_inv hg
        simp only [hg, Except.ok.injEq] at h
        subst h
        by_cases hz : iv.b = 0
        · -- the lower index is 2^32-1: the slice can only be the empty one at the very end
          rw [hz, u32Pred_zero] at h2 ⊢
          have e0 : ((iv.e : Nat) : Int).toNat - ((4294967295 : Nat) : Int).toNat = 0 := by omega
          rw [e0]
          intro m hm
          simp [number] at hm
        · have hb : 1 ≤ iv.b := by omega
          rw [u32Pred_pos hb] at h2 ⊢
          have e1 : ((iv.b : Nat) : Int) = ((iv.b - 1 : Nat) : Int) + 1 := by omega
          rw [e1]
          simp only [Int.toNat_natCast]
          exact number_sound s (iv.b - 1) (iv.e - (iv.b - 1)) (by omega) hl

theorem uidOne_sound (s : Snap) (hasc : Asc s) (hl : s.length < 4294967296) (iv : Interval) (hle : iv.b ≤ iv.e) :
    ∀ ms, uidOne s iv = .ok ms → ∀ m ∈ ms, SoundAt s m := by
  intro ms h
  have := uidOne_eq s hasc iv.b iv.e hle
  rw [this] at h
  cases h
  have h1 := lb_le_length s (iv.e + 1)
  have h2 := lb_mono s (show iv.b ≤ iv.e + 1 by omega)
  exact number_sound s (lb s iv.b) _ (by omega) hl

theorem collect_sound (s : Snap) (one : Interval → Except Err (List SeqMsg)) (ivs : List Interval)
    (hone : ∀ iv ∈ ivs, ∀ ms, one iv = .ok ms → ∀ m ∈ ms, SoundAt s m) (ms : List SeqMsg)
    (h : collect one ivs = .ok ms) : ∀ m ∈ ms, SoundAt s m := by
  intro m hm
  obtain ⟨iv, hiv, ms', hms', hmem⟩ := collect_mem h m hm
  exact hone iv hiv ms' hms' m hmem

/-! ### the de-duplication of `snapshot.getMessagesInRange` -/

theorem uniqueById_sublist (seen : List MsgId) (ms : List SeqMsg) : (uniqueById seen ms).Sublist ms := by
  induction ms generalizing seen with
  | nil => simp [uniqueById]
  | cons m rest ih =>
    by_cases h : m.msg.id ∈ seen
    · simp only [uniqueById, List.contains_iff_mem, h, if_true]
      exact (ih seen).trans (List.sublist_cons_self m rest)
    · simp only [uniqueById, List.contains_iff_mem, h, if_false]
      exact (ih _).cons_cons m

theorem uniqueById_not_seen (seen : List MsgId) (ms : List SeqMsg) : ∀ m ∈ uniqueById seen ms, m.msg.id ∉ seen := by
  induction ms generalizing seen with
  | nil => simp [uniqueById]
  | cons m rest ih =>
    by_cases h : m.msg.id ∈ seen
    · simp only [uniqueById, List.contains_iff_mem, h, if_true]
      exact ih seen
    · simp only [uniqueById, List.contains_iff_mem, h, if_false, List.mem_cons]
      intro x hx
      rcases hx with rfl | hx
      · exact h
      · have := ih _ x hx
        simp only [List.mem_cons, not_or] at this
        exact this.2

/-- every internal id occurs at most once in the result -/
theorem uniqueById_nodup (seen : List MsgId) (ms : List SeqMsg) : ((uniqueById seen ms).map (·.msg.id)).Nodup := by
  induction ms generalizing seen with
  | nil => simp [uniqueById]
  | cons m rest ih =>
    by_cases h : m.msg.id ∈ seen
    · simp only [uniqueById, List.contains_iff_mem, h, if_true]
      exact ih seen
    · simp only [uniqueById, List.contains_iff_mem, h, if_false, List.map_cons, List.nodup_cons]
      refine ⟨?_, ih _⟩
      intro hmem
      simp only [List.mem_map] at hmem
      obtain ⟨x, hx, hid⟩ := hmem
      have := uniqueById_not_seen _ rest x hx
      simp only [List.mem_cons, not_or] at this
      exact this.1 hid

/-- every id of the input that was not seen before is still there -/
theorem uniqueById_covers (seen : List MsgId) (ms : List SeqMsg) (m : SeqMsg) (hm : m ∈ ms) (h : m.msg.id ∉ seen) :
    ∃ m' ∈ uniqueById seen ms, m'.msg.id = m.msg.id := by
  induction ms generalizing seen with
  | nil => simp at hm
  | cons x rest ih =>
    simp only [List.mem_cons] at hm
    by_cases hx : x.msg.id ∈ seen
    · simp only [uniqueById, List.contains_iff_mem, hx, if_true]
      rcases hm with rfl | hm
      · exact absurd hx h
      · exact ih seen hm h
    · simp only [uniqueById, List.contains_iff_mem, hx, if_false, List.mem_cons]
      rcases hm with rfl | hm
      · exact ⟨m, Or.inl rfl, rfl⟩
      · by_cases he : m.msg.id = x.msg.id
        · exact ⟨x, Or.inl rfl, he.symm⟩
        · obtain ⟨m', hm', hid⟩ := ih (x.msg.id :: seen) hm (by simp [he, h])
          exact ⟨m', Or.inr hm', hid⟩

/-- on a snapshot with pairwise distinct ids, two genuine (sequence number, message) pairs with the
    same internal id are the same pair -/
theorem sound_same_id (s : Snap) (hnd : s.ids.Nodup) (m m' : SeqMsg) (h : SoundAt s m) (h' : SoundAt s m')
    (hid : m'.msg.id = m.msg.id) : m' = m := by
  obtain ⟨h1, h2⟩ := h
  obtain ⟨h1', h2'⟩ := h'
  have hlt : m.seq - 1 < s.ids.length := by
    have := (List.getElem?_eq_some_iff.mp h2).1
    simpa [Snap.ids] using this
  have e1 : s.ids[m.seq - 1]? = some m.msg.id := by simp [Snap.ids, h2]
  have e2 : s.ids[m'.seq - 1]? = some m'.msg.id := by simp [Snap.ids, h2']
  have : m.seq - 1 = m'.seq - 1 := (List.getElem?_inj hlt hnd).mp (by rw [e1, e2, hid])
  have hseq : m'.seq = m.seq := by omega
  have hmsg : m'.msg = m.msg := by
    rw [← hseq] at h2
    rw [h2'] at h2
    exact Option.some.inj h2
  cases m; cases m'; simp_all

/-- **the de-duplicated selection has the same members, each once** (snapshot invariant: ids distinct) -/
theorem uniqueById_spec (s : Snap) (hnd : s.ids.Nodup) (msgs : List SeqMsg) (hs : ∀ m ∈ msgs, SoundAt s m) :
    ((uniqueById [] msgs).map (·.msg.id)).Nodup ∧ (uniqueById [] msgs).Sublist msgs ∧
      ∀ m, m ∈ uniqueById [] msgs ↔ m ∈ msgs := by
  refine ⟨uniqueById_nodup [] msgs, uniqueById_sublist [] msgs, ?_⟩
  intro m
  constructor
  · exact fun h => (uniqueById_sublist [] msgs).subset h
  · intro h
    obtain ⟨m', hm', hid⟩ := uniqueById_covers [] msgs m h (by simp)
    have := sound_same_id s hnd m m' (hs m h) (hs m' ((uniqueById_sublist [] msgs).subset hm')) hid
    rw [← this]; exact hm'

/-! ### `asSet`: each selected message once -/

theorem firstOccFrom_sublist (seen l : List Sel) : (firstOccFrom seen l).Sublist l := by
  induction l generalizing seen with
  | nil => simp [firstOccFrom]
  | cons e rest ih =>
    by_cases h : e ∈ seen
    · simp only [firstOccFrom, List.contains_iff_mem, h, if_true]
      exact (ih seen).trans (List.sublist_cons_self e rest)
    · simp only [firstOccFrom, List.contains_iff_mem, h, if_false]
      exact (ih _).cons_cons e

theorem firstOccFrom_not_seen (seen l : List Sel) : ∀ e ∈ firstOccFrom seen l, e ∉ seen := by
  induction l generalizing seen with
  | nil => simp [firstOccFrom]
  | cons x rest ih =>
    by_cases h : x ∈ seen
    · simp only [firstOccFrom, List.contains_iff_mem, h, if_true]; exact ih seen
    · simp only [firstOccFrom, List.contains_iff_mem, h, if_false, List.mem_cons]
      intro e he
      rcases he with rfl | he
      · exact h
      · have := ih _ e he
        simp only [List.mem_cons, not_or] at this
        exact this.2

theorem firstOccFrom_nodup (seen l : List Sel) : (firstOccFrom seen l).Nodup := by
  induction l generalizing seen with
  | nil => simp [firstOccFrom]
  | cons x rest ih =>
    by_cases h : x ∈ seen
    · simp only [firstOccFrom, List.contains_iff_mem, h, if_true]; exact ih seen
    · simp only [firstOccFrom, List.contains_iff_mem, h, if_false, List.nodup_cons]
      refine ⟨?_, ih _⟩
      intro hmem
      have := firstOccFrom_not_seen _ rest x hmem
      simp at this

theorem mem_firstOccFrom (seen l : List Sel) (e : Sel) : e ∈ firstOccFrom seen l ↔ e ∈ l ∧ e ∉ seen := by
  induction l generalizing seen with
  | nil => simp [firstOccFrom]
  | cons x rest ih =>
    by_cases h : x ∈ seen
    · simp only [firstOccFrom, List.contains_iff_mem, h, if_true, ih seen, List.mem_cons]
      constructor
      · rintro ⟨h1, h2⟩; exact ⟨Or.inr h1, h2⟩
      · rintro ⟨h1 | h1, h2⟩
        · subst h1; exact absurd h h2
        · exact ⟨h1, h2⟩
    · simp only [firstOccFrom, List.contains_iff_mem, h, if_false, List.mem_cons, ih (x :: seen), not_or]
      constructor
      · rintro (rfl | ⟨h1, h2, h3⟩)
        · exact ⟨Or.inl rfl, h⟩
        · exact ⟨Or.inr h1, h3⟩
      · rintro ⟨h1 | h1, h2⟩
        · exact Or.inl h1
        · by_cases hx : e = x
          · exact Or.inl hx
          · exact Or.inr ⟨h1, hx, h2⟩

/-- `asSet l` is `l` as a set: duplicate-free, the same members, a sublist of `l` -/
theorem asSet_spec (l : List Sel) : (asSet l).Nodup ∧ (asSet l).Sublist l ∧ ∀ e, e ∈ asSet l ↔ e ∈ l := by
  refine ⟨firstOccFrom_nodup [] l, firstOccFrom_sublist [] l, ?_⟩
  intro e
  simp [asSet, mem_firstOccFrom]

/-- on genuine pairs over a snapshot with distinct ids, "same internal id" is "same (seq, uid)" -/
theorem sound_id_iff_obs (s : Snap) (hnd : s.ids.Nodup) (m m' : SeqMsg) (h : SoundAt s m) (h' : SoundAt s m') :
    m'.msg.id = m.msg.id ↔ obs m' = obs m := by
  constructor
  · intro hid; rw [sound_same_id s hnd m m' h h' hid]
  · intro ho
    have hseq : m'.seq = m.seq := by simpa [obs] using congrArg Prod.fst ho
    have h2 := h.2
    rw [← hseq, h'.2] at h2
    have hmsg : m'.msg = m.msg := Option.some.inj h2
    rw [hmsg]

/-- the de-duplication by internal id is the de-duplication of what the client sees -/
theorem uniqueById_obs (s : Snap) (hnd : s.ids.Nodup) (seenM ms : List SeqMsg)
    (hs1 : ∀ m ∈ seenM, SoundAt s m) (hs2 : ∀ m ∈ ms, SoundAt s m) :
    (uniqueById (seenM.map (·.msg.id)) ms).map obs = firstOccFrom (seenM.map obs) (ms.map obs) := by
  induction ms generalizing seenM with
  | nil => simp [uniqueById, firstOccFrom]
  | cons m rest ih =>
    have hm := hs2 m (by simp)
    have hrest : ∀ x ∈ rest, SoundAt s x := fun x hx => hs2 x (by simp [hx])
    have hiff : m.msg.id ∈ seenM.map (·.msg.id) ↔ obs m ∈ seenM.map obs := by
      simp only [List.mem_map]
      constructor
      · rintro ⟨x, hx, hid⟩; exact ⟨x, hx, (sound_id_iff_obs s hnd m x hm (hs1 x hx)).mp hid⟩
      · rintro ⟨x, hx, ho⟩; exact ⟨x, hx, (sound_id_iff_obs s hnd m x hm (hs1 x hx)).mpr ho⟩
    by_cases h : m.msg.id ∈ seenM.map (·.msg.id)
    · have h' := hiff.mp h
      simp only [uniqueById, firstOccFrom, List.map_cons, List.contains_iff_mem, h, h', if_true]
      exact ih seenM hs1 hrest
    · have h' : ¬ obs m ∈ seenM.map obs := fun hc => h (hiff.mpr hc)
      simp only [uniqueById, firstOccFrom, List.map_cons, List.contains_iff_mem, h, h', if_false]
      have := ih (m :: seenM) (by
        intro x hx
        simp only [List.mem_cons] at hx
        rcases hx with rfl | hx
        · exact hm
        · exact hs1 x hx) hrest
      simp only [List.map_cons] at this
      rw [this]

/-! ### what FETCH / STORE / COPY / MOVE / UID EXPUNGE work on -/

theorem seqResolve_sound (s : Snap) (hl : s.length < 4294967296) (set : List SeqRange) (ms : List SeqMsg)
    (h : getMessagesInSeqRange s set = .ok ms) : ∀ m ∈ ms, SoundAt s m := by
  rw [getMessagesInSeqRange_eq] at h
  exact collect_sound s (seqOne s) _ (fun iv _ ms' h' => seqOne_sound s hl iv ms' h') ms h

theorem uidResolve_sound (s : Snap) (hasc : Asc s) (hl : s.length < 4294967296) (set : List SeqRange) (ms : List SeqMsg)
    (h : getMessagesInUIDRange s set = .ok ms) : ∀ m ∈ ms, SoundAt s m := by
  by_cases hne : s.length = 0
  · simp only [getMessagesInUIDRange, hne, if_true, Except.ok.injEq] at h
    subst h; intro m hm; simp at hm
  · rw [getMessagesInUIDRange_eq s hne] at h
    refine collect_sound s (uidOne s) _ ?_ ms h
    intro iv hiv
    simp only [List.mem_map] at hiv
    obtain ⟨r, _, rfl⟩ := hiv
    exact uidOne_sound s hasc hl _ (ivOf_le _ r)

/-- `getMessagesInRange` on top of a successful resolve: the same messages, each once, in the order
    of their first occurrence -/
theorem range_selection (uidMode : Bool) (s : Snap) (inv : Snap.Inv s) (hl : s.length < 4294967296)
    (set : List SeqRange) (msgs : List SeqMsg)
    (h : (if uidMode then getMessagesInUIDRange s set else getMessagesInSeqRange s set) = .ok msgs) :
    ∃ ms, getMessagesInRange uidMode s set = .ok ms ∧ (ms.map (·.msg.id)).Nodup ∧ ms.Sublist msgs ∧
      (∀ m, m ∈ ms ↔ m ∈ msgs) ∧ ms.map obs = asSet (msgs.map obs) := by
  have hs : ∀ m ∈ msgs, SoundAt s m := by
    cases uidMode with
    | true => exact uidResolve_sound s inv.asc hl set msgs (by simpa using h)
    | false => exact seqResolve_sound s hl set msgs (by simpa using h)
  obtain ⟨h1, h2, h3⟩ := uniqueById_spec s inv.nodup msgs hs
  refine ⟨_, getMessagesInRange_ok h, h1, h2, h3, ?_⟩
  have := uniqueById_obs s inv.nodup [] msgs (by simp) hs
  simpa [asSet] using this

end SeqSet
end Gluon
