/-
Helper lemmas for C20, part 3: what the recovery insert (`actionCreateRecoveredMessage` inside its
transaction) and the erasing actions do to the recovery mailbox, the store and the hash map.
-/
import GluonModel.Lemmas.AppendFrame

namespace Gluon.Append

/-- the fields a storage primitive leaves alone -/
structure Same (s s' : St) : Prop where
  i2h : s'.idToHash = s.idToHash
  hs : s'.hashes = s.hashes
  stale : s'.staleHash = s.staleHash
  lost : s'.lostHash = s.lostHash
  txi : s'.txIns = s.txIns
  txe : s'.txErase = s.txErase
  nid : s'.nextId = s.nextId

theorem storeSet_same (s : St) (id : Nat) (l : Lit) :
    Same s (storeSet s id l).2 ∧ (storeSet s id l).2.db = s.db ∧
    ((storeSet s id l).1 = false → (storeSet s id l).2.store = s.store) ∧
    ((storeSet s id l).1 = true → (storeSet s id l).2.store = (id, l) :: s.store) := by
  unfold storeSet
  simp only
  split <;> exact ⟨⟨rfl, rfl, rfl, rfl, rfl, rfl, rfl⟩, rfl, by simp, by simp⟩

theorem dbCreateAndAdd_same (s : St) (n : String) (id rid : Nat) :
    Same s (dbCreateAndAdd s n id rid).2 ∧ (dbCreateAndAdd s n id rid).2.store = s.store := by
  unfold dbCreateAndAdd dbFault
  simp only
  split
  · next h => simp at h; obtain ⟨_, h⟩ := h; subst h; exact ⟨⟨rfl, rfl, rfl, rfl, rfl, rfl, rfl⟩, rfl⟩
  · next h =>
    simp at h; obtain ⟨_, h⟩ := h; subst h
    split <;> exact ⟨⟨rfl, rfl, rfl, rfl, rfl, rfl, rfl⟩, rfl⟩

theorem dbCreateAndAdd_names (s : St) (n : String) (id rid : Nat) : names (dbCreateAndAdd s n id rid).2 = names s := by
  unfold dbCreateAndAdd dbFault
  simp only
  split
  · next h => simp at h; obtain ⟨_, h⟩ := h; subst h; rfl
  · next h =>
    simp at h; obtain ⟨_, h⟩ := h; subst h
    split
    · rfl
    · exact names_upd n (fun b => { b with msgs := b.msgs ++ [(b.uidNext, id)], uidNext := b.uidNext + 1 }) (fun _ => rfl) rfl

theorem storeRecovered_names (S : St) (id : Nat) (l : Lit) : names (storeRecovered S id l).2 = names S := by
  have hs := storeSet_same S id l
  unfold storeRecovered
  cases hst : storeSet S id l with
  | mk b s1 =>
    rw [hst] at hs
    simp only at hs
    have h1 : names s1 = names S := by simp [names, hs.2.1]
    cases b with
    | false => exact h1
    | true =>
      simp only
      have := dbCreateAndAdd_names s1 recName id (recRid id)
      cases hdb : dbCreateAndAdd s1 recName id (recRid id) with
      | mk x s2 =>
        rw [hdb] at this
        cases x <;> exact this.trans h1

theorem dbCreateAndAdd_ok {s s' : St} {n : String} {id rid u : Nat} (h : dbCreateAndAdd s n id rid = (.ok u, s')) :
    ∃ b, getBox s.db n = some b ∧ u = b.uidNext ∧
      getBox s'.db n = some { b with msgs := b.msgs ++ [(b.uidNext, id)], uidNext := b.uidNext + 1 } := by
  unfold dbCreateAndAdd dbFault at h
  simp only at h
  split at h
  · simp at h
  · next h0 =>
    simp at h0; obtain ⟨_, h0⟩ := h0; subst h0
    split at h
    · simp at h
    · next b hb =>
      simp at h
      obtain ⟨h1, h2⟩ := h
      subst h2
      refine ⟨b, hb, h1.symm, ?_⟩
      have := getBox_updBox_self s.db n (fun b => { b with msgs := b.msgs ++ [(b.uidNext, id)], uidNext := b.uidNext + 1 }) (fun _ => rfl)
      simp only at hb
      simp [getBox_rows, this, hb]

theorem dbCreateAndAdd_rec_ok {s s' : St} {id rid u : Nat} (h : dbCreateAndAdd s recName id rid = (.ok u, s')) :
    recMsgs s' = recMsgs s ++ [(u, id)] := by
  obtain ⟨b, h1, h2, h3⟩ := dbCreateAndAdd_ok h
  simp [recMsgs, h1, h3, h2]

/-- the effect of the recovery insert (`Mailbox.Append`'s fallback transaction) on what the invariants read -/
structure RecIns (H : Nat → Nat) (l : Lit) (s s' : St) (r : Except Err Bool) : Prop where
  nid : s'.nextId = s.nextId + 1
  lost : s'.lostHash = s.lostHash
  store : ∀ i, i < s.nextId → s'.store.lookup i = s.store.lookup i
  nms : names s' = names s
  cases :
    -- nothing recorded: parse error, known message, or a failure without a hash
    (s'.idToHash = s.idToHash ∧ s'.hashes = s.hashes ∧ recMsgs s' = recMsgs s ∧ s'.staleHash = s.staleHash ∧
      ((r = .ok true ∧ l.parseOk = true ∧ l.hashOk = true ∧ H l.hv ∈ s.hashes) ∨
       ((∃ e, r = .error e) ∧ (l.parseOk = false ∨ l.hashOk = false)))) ∨
    -- stored
    (r = .ok false ∧ (∃ u, recMsgs s' = recMsgs s ++ [(u, s.nextId)]) ∧ s'.store.lookup s.nextId = some l ∧
      s'.staleHash = s.staleHash ∧
      ((l.hashOk = true ∧ H l.hv ∉ s.hashes ∧ s'.idToHash = (s.nextId, H l.hv) :: s.idToHash ∧ s'.hashes = H l.hv :: s.hashes) ∨
       (l.hashOk = false ∧ s'.idToHash = s.idToHash ∧ s'.hashes = s.hashes))) ∨
    -- hash inserted, then the write failed and the transaction rolled back (#19)
    ((∃ e, r = .error e) ∧ l.hashOk = true ∧ H l.hv ∉ s.hashes ∧ s'.idToHash = (s.nextId, H l.hv) :: s.idToHash ∧
      s'.hashes = H l.hv :: s.hashes ∧ recMsgs s' = recMsgs s ∧ s'.staleHash = true)

theorem storeRecovered_spec (S : St) (id : Nat) (l : Lit) :
    Same S (storeRecovered S id l).2 ∧ (∀ i, i < id → (storeRecovered S id l).2.store.lookup i = S.store.lookup i) ∧
    (((storeRecovered S id l).1 = .ok false ∧ (∃ u, recMsgs (storeRecovered S id l).2 = recMsgs S ++ [(u, id)]) ∧
        (storeRecovered S id l).2.store.lookup id = some l) ∨ (∃ e, (storeRecovered S id l).1 = .error e)) := by
  have hs := storeSet_same S id l
  unfold storeRecovered
  cases hst : storeSet S id l with
  | mk b s1 =>
    rw [hst] at hs
    simp only at hs
    cases b with
    | false =>
      exact ⟨hs.1, fun i _ => by simp only; rw [hs.2.2.1 rfl], Or.inr ⟨_, rfl⟩⟩
    | true =>
      have hd := dbCreateAndAdd_same s1 recName id (recRid id)
      have hstore : s1.store = (id, l) :: S.store := hs.2.2.2 rfl
      simp only
      cases hdb : dbCreateAndAdd s1 recName id (recRid id) with
      | mk x s2 =>
        rw [hdb] at hd
        simp only at hd
        have hsame : Same S s2 := ⟨hd.1.i2h.trans hs.1.i2h, hd.1.hs.trans hs.1.hs, hd.1.stale.trans hs.1.stale,
          hd.1.lost.trans hs.1.lost, hd.1.txi.trans hs.1.txi, hd.1.txe.trans hs.1.txe, hd.1.nid.trans hs.1.nid⟩
        have hlk : ∀ i, i < id → s2.store.lookup i = S.store.lookup i := fun i hi => by
          have : i ≠ id := by omega
          rw [hd.2, hstore, lookup_cons_ne _ _ this]
        cases x with
        | error e => exact ⟨hsame, hlk, Or.inr ⟨_, rfl⟩⟩
        | ok u =>
          refine ⟨hsame, hlk, Or.inl ⟨rfl, ⟨u, ?_⟩, ?_⟩⟩
          · have := dbCreateAndAdd_rec_ok hdb
            simp only
            rw [this]
            simp [recMsgs, hs.2.1]
          · simp only; rw [hd.2, hstore, lookup_cons_self]

/-- `storeRecovered` as the tail of the transaction `withTx s …` -/
theorem storeRecovered_tx (s S : St) (l : Lit) (hdb : S.db = s.db) (hst : S.store = s.store)
    (hnid : S.nextId = s.nextId + 1) (hlost : S.lostHash = s.lostHash) (hstale : S.staleHash = s.staleHash)
    (hte : S.txErase = false) :
    ∀ r : R Bool, r = txFinish s (storeRecovered S s.nextId l) →
    r.2.nextId = s.nextId + 1 ∧ r.2.lostHash = s.lostHash ∧ (∀ i, i < s.nextId → r.2.store.lookup i = s.store.lookup i) ∧
    r.2.idToHash = S.idToHash ∧ r.2.hashes = S.hashes ∧ names r.2 = names s ∧
    ((r.1 = .ok false ∧ (∃ u, recMsgs r.2 = recMsgs s ++ [(u, s.nextId)]) ∧ r.2.store.lookup s.nextId = some l ∧
        r.2.staleHash = s.staleHash) ∨
     ((∃ e, r.1 = .error e) ∧ recMsgs r.2 = recMsgs s ∧ r.2.staleHash = (s.staleHash || S.txIns))) := by
  intro r hr
  obtain ⟨hsame, hlk, hres⟩ := storeRecovered_spec S s.nextId l
  have hnm := storeRecovered_names S s.nextId l
  cases hx : storeRecovered S s.nextId l with
  | mk x s1 =>
    rw [hx] at hsame hlk hres hr hnm
    simp only at hsame hlk hres
    cases x with
    | ok a =>
      simp only [txFinish] at hr
      subst hr
      rcases hres with ⟨ha, ⟨u, hu⟩, hl⟩ | ⟨e, he⟩
      · simp at ha
        subst ha
        refine ⟨by simp [hsame.nid, hnid], by simp [hsame.lost, hlost], fun i hi => by simp [hlk i hi, hst],
          hsame.i2h, hsame.hs, by simp only; rw [hnm]; simp [names, hdb], Or.inl ⟨rfl, ⟨u, ?_⟩, hl, by simp [hsame.stale, hstale]⟩⟩
        simp only
        rw [hu, recMsgs_db hdb]
      · simp at he
    | error e =>
      simp only [txFinish] at hr
      subst hr
      refine ⟨by simp [hsame.nid, hnid], by simp [hsame.lost, hlost, hsame.txe, hte], fun i hi => by simp [hlk i hi, hst],
        hsame.i2h, hsame.hs, rfl, Or.inr ⟨⟨e, rfl⟩, by simp [recMsgs], by simp [hsame.stale, hstale, hsame.txi]⟩⟩

theorem createRecovered_spec (H : Nat → Nat) (s : St) (l : Lit) :
    RecIns H l s (withTx s (fun s => actionCreateRecovered H s l)).2 (withTx s (fun s => actionCreateRecovered H s l)).1 := by
  unfold withTx actionCreateRecovered hmInsert
  simp only
  by_cases hp : l.parseOk = true
  · by_cases hh : l.hashOk = true
    · by_cases hk : (H l.hv) ∈ s.hashes
      · simp only [hp, hh, hk, List.contains_iff_mem]
        simp [txFinish]
        exact ⟨rfl, rfl, fun _ _ => rfl, rfl, Or.inl ⟨rfl, rfl, rfl, rfl, Or.inl ⟨rfl, hp, hh, hk⟩⟩⟩
      · simp only [hp, hh, hk, List.contains_iff_mem]
        simp
        obtain ⟨h1, h2, h3, h4, h5, h7, h6⟩ := storeRecovered_tx s
          { s with nextId := s.nextId + 1, idToHash := (s.nextId, H l.hv) :: s.idToHash, hashes := H l.hv :: s.hashes,
                   txIns := true, txErase := false } l rfl rfl rfl rfl rfl rfl _ rfl
        refine ⟨h1, h2, h3, h7, ?_⟩
        rcases h6 with ⟨a, b, c, d⟩ | ⟨a, b, c⟩
        · exact Or.inr (Or.inl ⟨a, b, c, d, Or.inl ⟨hh, hk, h4, h5⟩⟩)
        · exact Or.inr (Or.inr ⟨a, hh, hk, h4, h5, b, by simpa using c⟩)
    · simp only [hp, hh]
      simp
      obtain ⟨h1, h2, h3, h4, h5, h7, h6⟩ := storeRecovered_tx s
        { s with nextId := s.nextId + 1, txIns := false, txErase := false } l rfl rfl rfl rfl rfl rfl _ rfl
      refine ⟨h1, h2, h3, h7, ?_⟩
      rcases h6 with ⟨a, b, c, d⟩ | ⟨⟨e, he⟩, b, c⟩
      · exact Or.inr (Or.inl ⟨a, b, c, d, Or.inr ⟨by simpa using hh, h4, h5⟩⟩)
      · exact Or.inl ⟨h4, h5, b, by simpa using c, Or.inr ⟨⟨e, he⟩, Or.inr (by simpa using hh)⟩⟩
  · simp [hp, txFinish]
    exact ⟨by simp, by simp, by simp, rfl, Or.inl ⟨by simp, by simp, by simp [recMsgs], by simp, Or.inr ⟨⟨_, rfl⟩, Or.inl (by simpa using hp)⟩⟩⟩

end Gluon.Append
