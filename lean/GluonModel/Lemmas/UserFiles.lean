/- Helper lemmas for `Theorems/C18Files.lean`: `url.PathEscape` followed by SQLite's URI-filename decoding is the identity. -/
import GluonModel.Model.UserFiles

namespace Gluon.UserFiles

set_option maxRecDepth 100000 in
theorem byte_table : ∀ b, b < 256 →
    (keep b = true → b ≠ 37 ∧ endsName b = false) ∧
    unhex (hexDigit (b / 16)) = some (b / 16) ∧ unhex (hexDigit (b % 16)) = some (b % 16) ∧
    endsName (hexDigit (b / 16)) = false ∧ endsName (hexDigit (b % 16)) = false := by
  decide

/-- more fuel than bytes changes nothing -/
theorem pctDecodeF_fuel : ∀ (n : Nat) (t : Bytes), t.length ≤ n → pctDecodeF n t = pctDecodeF t.length t := by
  intro n
  induction n using Nat.strongRecOn with
  | _ n ih =>
    intro t ht
    match n, t with
    | 0, [] => rfl
    | _ + 1, [] => rfl
    | n + 1, b :: tl =>
      have hl : tl.length ≤ n := by simpa using ht
      have e1 := ih n (Nat.lt_succ_self n) tl hl
      simp only [List.length_cons, pctDecodeF]
      by_cases hb : b = 37
      · simp only [hb, if_true]
        match tl, hl, e1 with
        | [], _, _ => cases n <;> simp [pctDecodeF]
        | [c], _, e1 => simp only [e1]
        | h :: l :: rest, hl, e1 =>
          have hr : rest.length ≤ n := by simp at hl; omega
          have e2 := ih n (Nat.lt_succ_self n) rest hr
          have e3 := ih (rest.length + 2) (by simp at hl; omega) rest (by omega)
          simp only [List.length_cons] at e1 ⊢
          rw [e1, e2, e3]
      · simp only [hb, if_false, e1]

theorem pctDecode_cons_ne (b : Nat) (t : Bytes) (h : b ≠ 37) : pctDecode (b :: t) = b :: pctDecode t := by
  simp [pctDecode, pctDecodeF, h]

theorem pctDecode_pct (h l x y : Nat) (t : Bytes) (hh : unhex h = some x) (hl : unhex l = some y) :
    pctDecode (37 :: h :: l :: t) = (16 * x + y) :: pctDecode t := by
  simp only [pctDecode, List.length_cons, pctDecodeF, if_true, hh, hl]
  rw [pctDecodeF_fuel _ t (by omega)]

theorem pctDecode_nil : pctDecode [] = [] := rfl

theorem plain_cons {b : Nat} {p : Bytes} (h : Plain (b :: p)) : (0 < b ∧ b < 256) ∧ Plain p :=
  ⟨h b (List.mem_cons_self ..), fun c hc => h c (List.mem_cons_of_mem _ hc)⟩

theorem pctDecode_pathEscape (p : Bytes) (hp : Plain p) : pctDecode (pathEscape p) = p := by
  induction p with
  | nil => simp [pathEscape, pctDecode_nil]
  | cons b rest ih =>
    have ⟨hb, hr⟩ := plain_cons hp
    have tb := byte_table b hb.2
    unfold pathEscape
    by_cases hk : keep b = true
    · simp only [hk, if_true]
      rw [pctDecode_cons_ne b _ (tb.1 hk).1, ih hr]
    · simp only [hk]
      rw [if_neg (by simp), pctDecode_pct _ _ (b / 16) (b % 16) _ tb.2.1 tb.2.2.1, ih hr]
      congr 1
      omega

theorem pathEscape_noEnd (p : Bytes) (hp : Plain p) : ∀ c ∈ pathEscape p, endsName c = false := by
  induction p with
  | nil => simp [pathEscape]
  | cons b rest ih =>
    have ⟨hb, hr⟩ := plain_cons hp
    have tb := byte_table b hb.2
    unfold pathEscape
    by_cases hk : keep b = true
    · simp only [hk, if_true]
      intro c hc
      rcases List.mem_cons.mp hc with rfl | hc
      · exact (tb.1 hk).2
      · exact ih hr c hc
    · simp only [hk]
      rw [if_neg (by simp)]
      intro c hc
      rcases List.mem_cons.mp hc with rfl | hc
      · decide
      rcases List.mem_cons.mp hc with rfl | hc
      · exact tb.2.2.2.1
      rcases List.mem_cons.mp hc with rfl | hc
      · exact tb.2.2.2.2
      · exact ih hr c hc

theorem takeWhile_append_stop (f : Nat → Bool) (x y : Bytes) (c : Nat) (hx : ∀ b ∈ x, f b = true) (hc : f c = false) :
    (x ++ c :: y).takeWhile f = x := by
  induction x with
  | nil => simp [hc]
  | cons a r ih =>
    have ha := hx a (List.mem_cons_self ..)
    simp only [List.cons_append, List.takeWhile, ha]
    rw [ih (fun b hb => hx b (List.mem_cons_of_mem _ hb))]

theorem dropWhile_append_stop (f : Nat → Bool) (x y : Bytes) (c : Nat) (hx : ∀ b ∈ x, f b = true) (hc : f c = false) :
    (x ++ c :: y).dropWhile f = c :: y := by
  induction x with
  | nil => simp [hc]
  | cons a r ih =>
    have ha := hx a (List.mem_cons_self ..)
    simp only [List.cons_append, List.dropWhile, ha]
    exact ih (fun b hb => hx b (List.mem_cons_of_mem _ hb))

/-- a prefix that is cut at its first stop byte does not depend on what follows a stop byte -/
theorem takeWhile_indep (f : Nat → Bool) (x y y' : Bytes) (c : Nat) (hc : f c = false) :
    (x ++ c :: y).takeWhile f = (x ++ c :: y').takeWhile f := by
  induction x with
  | nil => simp [hc]
  | cons a r ih =>
    simp only [List.cons_append, List.takeWhile]
    cases f a <;> simp [ih]

theorem weakEscape_append (s t : Bytes) : weakEscape (s ++ t) = weakEscape s ++ weakEscape t := by
  induction s with
  | nil => simp [weakEscape]
  | cons b r ih =>
    simp only [List.cons_append, weakEscape]
    split
    · simp [ih]
    · split <;> simp [ih]

theorem drop_scheme (r : Bytes) : (dsn r).drop scheme.length = r ++ 63 :: query := by
  simp [dsn, List.append_assoc]

end Gluon.UserFiles
