/- Lemmas for C12 `scan_of_rendered_parts`: symbolic execution of the scanner on a rendered
   multipart body under BoundaryFresh. -/
import GluonModel.Spec.MimeRender
import GluonModel.Lemmas.MimeScan

namespace Gluon.Mime

/-! ### bytes.Index on concatenations -/

theorem indexFrom_append (pat : Bytes) : ∀ (s r : Bytes) (k i : Nat), indexFrom pat s k = some i →
    indexFrom pat (s ++ r) k = some i := by
  intro s
  induction s with
  | nil =>
    intro r k i h
    simp only [indexFrom] at h
    split at h
    · next hp =>
      cases h
      have hp' : pat = [] := by simpa using hp
      subst hp'
      cases r <;> simp [indexFrom]
    · cases h
  | cons c s ih =>
    intro r k i h
    simp only [indexFrom] at h
    simp only [List.cons_append, indexFrom]
    split at h
    · next hp =>
      cases h
      have : pat.isPrefixOf (c :: (s ++ r)) = true := by
        rw [List.isPrefixOf_iff_prefix] at hp ⊢
        exact hp.trans (by simp)
      simp [this]
    · next hp =>
      have hlen := indexFrom_some pat s (k + 1) i h
      have : ¬ pat.isPrefixOf (c :: (s ++ r)) = true := by
        intro hq
        apply hp
        rw [List.isPrefixOf_iff_prefix] at hq ⊢
        exact List.prefix_of_prefix_length_le hq (by simp)
          (by simp; omega)
      simp only [this]
      exact ih r (k + 1) i h

theorem index_append (s r pat : Bytes) (i : Nat) (h : index s pat = some i) :
    index (s ++ r) pat = some i :=
  indexFrom_append pat s r 0 i h

theorem index_self_prefix (pat r : Bytes) : index (pat ++ r) pat = some 0 := by
  unfold index
  match h : pat ++ r with
  | [] =>
    have : pat = [] := by
      cases pat with
      | nil => rfl
      | cons a b => simp at h
    simp [indexFrom, this]
  | c :: s =>
    have : pat.isPrefixOf (c :: s) = true := by
      rw [List.isPrefixOf_iff_prefix, ← h]
      exact List.prefix_append pat r
    simp [indexFrom, this]

/-! ### pieces of one `readToBoundary` round -/

theorem getElem?_mid (a b : Bytes) (c : UInt8) (i : Nat) (h : i = a.length) :
    (a ++ c :: b)[i]? = some c := by
  subst h; simp

theorem nlAfterBoundary_crlf (rest : Bytes) : nlAfterBoundary (CR :: LF :: rest) = some 1 := by
  simp [nlAfterBoundary, countCR, CR, LF]

/-- `getPreviousLineBreakIndex` right after `… CR LF` -/
theorem prevLineBreak_crlf (pre p rest : Bytes) :
    prevLineBreak (pre ++ (p ++ (CR :: LF :: rest))) pre.length (pre.length + (p.length + 2)) = .ok (some 2) := by
  unfold prevLineBreak
  have hne : ¬ pre.length = pre.length + (p.length + 2) := by omega
  simp only [hne, if_false]
  have e1 : (pre ++ (p ++ (CR :: LF :: rest)))[pre.length + (p.length + 2) - 1]? = some LF := by
    have : pre ++ (p ++ (CR :: LF :: rest)) = (pre ++ p ++ [CR]) ++ LF :: rest := by simp
    rw [this]
    exact getElem?_mid _ _ _ _ (by simp)
  have e2 : (pre ++ (p ++ (CR :: LF :: rest)))[pre.length + (p.length + 2) - 2]? = some CR := by
    have : pre ++ (p ++ (CR :: LF :: rest)) = (pre ++ p) ++ CR :: (LF :: rest) := by simp
    rw [this]
    exact getElem?_mid _ _ _ _ (by simp; omega)
  have h1 : ¬ pre.length + (p.length + 2) < 1 := by omega
  have h2 : ¬ pre.length + (p.length + 2) < 2 := by omega
  have h3 : pre.length + (p.length + 2) - pre.length ≥ 2 := by omega
  simp only [goAtSub, h1, h2, if_false, e1, e2, beq_self_eq_true, if_true, h3]

/-- one round that ends at a delimiter line (`more = true`) -/
theorem rtbLoop_step_more (data sb : Bytes) (ss progress idx pnl nl fuel : Nat)
    (h1 : progress < data.length)
    (h2 : index (data.drop progress) sb = some idx)
    (h3 : prevLineBreak data progress (progress + idx) = .ok (some pnl))
    (h4 : isEndBoundary (data.drop progress) data.length progress idx sb.length = .ok false)
    (h5 : nlAfterBoundary ((data.drop progress).drop (idx + sb.length)) = some nl)
    (h6 : ss + pnl ≤ progress + idx) :
    rtbLoop data sb ss (fuel + 1) progress
      = .ok ⟨some (ss, progress + idx - pnl), true, progress + idx + sb.length + nl + 1⟩ := by
  have hi := index_some _ _ _ h2
  simp only [List.length_drop] at hi
  simp only [rtbLoop, h1, not_true_eq_false, if_false]
  rw [goSliceFrom_ok _ _ (by omega)]
  simp only [h2, h3, h4]
  rw [goSliceFrom_ok _ _ (by simp; omega)]
  simp only [h5, rtbFinish]
  have : ¬ progress + idx < pnl := by omega
  simp only [this, if_false]
  rw [goSlice_ok _ _ _ (by omega) (by omega)]

/-- one round that ends at the closing delimiter followed by a line break -/
theorem rtbLoop_step_end (data sb : Bytes) (ss progress idx pnl nl fuel : Nat)
    (h1 : progress < data.length)
    (h2 : index (data.drop progress) sb = some idx)
    (h3 : prevLineBreak data progress (progress + idx) = .ok (some pnl))
    (h4 : isEndBoundary (data.drop progress) data.length progress idx sb.length = .ok true)
    (h5 : nlAfterBoundary ((data.drop progress).drop (idx + sb.length + 2)) = some nl)
    (h7 : progress + idx + sb.length + 2 ≤ data.length)
    (h6 : ss + pnl ≤ progress + idx) :
    rtbLoop data sb ss (fuel + 1) progress
      = .ok ⟨some (ss, progress + idx - pnl), false, progress + idx + sb.length + 2 + nl + 1⟩ := by
  have hnl := nlAfterBoundary_lt _ _ h5
  simp only [rtbLoop, h1, not_true_eq_false, if_false]
  rw [goSliceFrom_ok _ _ (by omega)]
  simp only [h2, h3, h4]
  rw [goSliceFrom_ok _ _ (by simp; omega)]
  have hne : ((data.drop progress).drop (idx + sb.length + 2)).length ≠ 0 := by omega
  simp only [hne, ne_eq, not_false_eq_true, if_true, h5, rtbFinish]
  have : ¬ progress + idx < pnl := by omega
  simp only [this, if_false]
  rw [goSlice_ok _ _ _ (by omega) (by omega)]

/-! ### the rounds on a rendered multipart body -/

theorem isEnd_false_crlf (a rest : Bytes) (n progress : Nat) (idx bl : Nat) (h : idx + bl = a.length) :
    isEndBoundary (a ++ (CR :: LF :: rest)) n progress idx bl = .ok false := by
  unfold isEndBoundary
  split
  · rw [goSlice_ok _ _ _ (by omega) (by simp; omega)]
    have : ((a ++ (CR :: LF :: rest)).drop (idx + bl)).take (idx + bl + 2 - (idx + bl)) = [CR, LF] := by
      rw [List.drop_left' h.symm]
      have : idx + bl + 2 - (idx + bl) = 2 := by omega
      rw [this]; rfl
    rw [this]
    rfl
  · rfl

theorem isEnd_true_dashes (a rest : Bytes) (n progress : Nat) (idx bl : Nat) (h : idx + bl = a.length)
    (hn : progress + idx + bl + 2 ≤ n) :
    isEndBoundary (a ++ (DASH :: DASH :: rest)) n progress idx bl = .ok true := by
  unfold isEndBoundary
  simp only [hn, if_true]
  rw [goSlice_ok _ _ _ (by omega) (by simp; omega)]
  have : ((a ++ (DASH :: DASH :: rest)).drop (idx + bl)).take (idx + bl + 2 - (idx + bl)) = [DASH, DASH] := by
    rw [List.drop_left' h.symm]
    have : idx + bl + 2 - (idx + bl) = 2 := by omega
    rw [this]; rfl
  rw [this]
  rfl

/-- a part followed by CRLF, the delimiter and CRLF: the round returns exactly the part -/
theorem rtb_part_more (sb pre p rest : Bytes) (hf : Fresh sb p) (fuel : Nat) :
    rtbLoop (pre ++ (p ++ (CRLF ++ (sb ++ (CRLF ++ rest))))) sb pre.length (fuel + 1) pre.length
      = .ok ⟨some (pre.length, pre.length + p.length), true, pre.length + p.length + 2 + sb.length + 2⟩ := by
  have hdrop : (pre ++ (p ++ (CRLF ++ (sb ++ (CRLF ++ rest))))).drop pre.length
      = (p ++ (CRLF ++ sb)) ++ (CR :: LF :: rest) := by
    rw [List.drop_left' rfl]; simp [CRLF]
  have hlen : (p ++ (CRLF ++ sb)).length = p.length + 2 + sb.length := by simp [CRLF]; omega
  have h := rtbLoop_step_more (pre ++ (p ++ (CRLF ++ (sb ++ (CRLF ++ rest))))) sb pre.length pre.length
    (p.length + 2) 2 1 fuel (by simp [CRLF]; omega)
    (by rw [hdrop]; exact index_append _ _ _ _ hf)
    (by simpa [CRLF] using prevLineBreak_crlf pre p (sb ++ (CRLF ++ rest)))
    (by rw [hdrop]; exact isEnd_false_crlf _ _ _ _ _ _ (by rw [hlen]))
    (by rw [hdrop, List.drop_left' (by rw [hlen])]; exact nlAfterBoundary_crlf rest)
    (by omega)
  rw [h]
  congr 2

/-- the last part, followed by CRLF and the closing delimiter line -/
theorem rtb_part_end (sb pre p : Bytes) (hf : Fresh sb p) (fuel : Nat) :
    rtbLoop (pre ++ (p ++ (CRLF ++ (sb ++ ([DASH, DASH] ++ CRLF))))) sb pre.length (fuel + 1) pre.length
      = .ok ⟨some (pre.length, pre.length + p.length), false, pre.length + p.length + 2 + sb.length + 2 + 1 + 1⟩ := by
  have hdrop : (pre ++ (p ++ (CRLF ++ (sb ++ ([DASH, DASH] ++ CRLF))))).drop pre.length
      = (p ++ (CRLF ++ sb)) ++ (DASH :: DASH :: CRLF) := by
    rw [List.drop_left' rfl]; simp [CRLF]
  have hlen : (p ++ (CRLF ++ sb)).length = p.length + 2 + sb.length := by simp [CRLF]; omega
  have h := rtbLoop_step_end (pre ++ (p ++ (CRLF ++ (sb ++ ([DASH, DASH] ++ CRLF))))) sb pre.length pre.length
    (p.length + 2) 2 1 fuel (by simp [CRLF]; omega)
    (by rw [hdrop]; exact index_append _ _ _ _ hf)
    (by simpa [CRLF] using prevLineBreak_crlf pre p (sb ++ ([DASH, DASH] ++ CRLF)))
    (by rw [hdrop]; exact isEnd_true_dashes _ _ _ _ _ _ (by rw [hlen]) (by simp [CRLF]; omega))
    (by
      rw [hdrop]
      have : p.length + 2 + sb.length + 2 = ((p ++ (CRLF ++ sb)) ++ [DASH, DASH]).length := by simp [CRLF]; omega
      have e : (p ++ (CRLF ++ sb)) ++ (DASH :: DASH :: CRLF) = ((p ++ (CRLF ++ sb)) ++ [DASH, DASH]) ++ CRLF := by simp
      rw [e, List.drop_left' this.symm]
      exact nlAfterBoundary_crlf [])
    (by simp [CRLF]; omega)
    (by omega)
  rw [h]
  congr 2

/-- the first round (in `NewByteScanner`): the delimiter at offset 0 -/
theorem rtb_initial_more (sb rest : Bytes) (fuel : Nat) :
    rtbLoop (sb ++ (CRLF ++ rest)) sb 0 (fuel + 1) 0 = .ok ⟨some (0, 0), true, sb.length + 2⟩ := by
  have h := rtbLoop_step_more (sb ++ (CRLF ++ rest)) sb 0 0 0 0 1 fuel (by simp [CRLF]; omega)
    (by simpa using index_self_prefix sb (CRLF ++ rest))
    (by simp [prevLineBreak])
    (by simpa [CRLF] using isEnd_false_crlf sb rest (sb ++ (CRLF ++ rest)).length 0 0 sb.length (by simp))
    (by simpa [CRLF] using nlAfterBoundary_crlf rest)
    (by omega)
  rw [h]
  congr 2
  · omega

theorem rtb_initial_end (sb : Bytes) (fuel : Nat) :
    rtbLoop (sb ++ ([DASH, DASH] ++ CRLF)) sb 0 (fuel + 1) 0 = .ok ⟨some (0, 0), false, sb.length + 2 + 1 + 1⟩ := by
  have h := rtbLoop_step_end (sb ++ ([DASH, DASH] ++ CRLF)) sb 0 0 0 0 1 fuel (by simp [CRLF])
    (by simpa using index_self_prefix sb ([DASH, DASH] ++ CRLF))
    (by simp [prevLineBreak])
    (by simpa [CRLF] using isEnd_true_dashes sb CRLF (sb ++ ([DASH, DASH] ++ CRLF)).length 0 0 sb.length (by simp) (by simp [CRLF]))
    (by
      have e : sb ++ ([DASH, DASH] ++ CRLF) = (sb ++ [DASH, DASH]) ++ CRLF := by simp
      have : 0 + sb.length + 2 = (sb ++ [DASH, DASH]).length := by simp
      rw [List.drop_zero, e, List.drop_left' this.symm]
      exact nlAfterBoundary_crlf [])
    (by simp [CRLF])
    (by omega)
  rw [h]
  congr 2
  · omega

/-! ### ScanAll on a rendered body -/

theorem scanLoop_rendered (sb : Bytes) : ∀ (ps : List Bytes) (pre p : Bytes) (acc : List Part) (fuel : Nat),
    (∀ x ∈ p :: ps, Fresh sb x) → ps.length < fuel →
    scanLoop (pre ++ (p ++ (CRLF ++ (sb ++ afterDelim sb ps)))) sb fuel pre.length acc
      = .ok (acc ++ expectedParts sb pre.length (p :: ps)) := by
  intro ps
  induction ps with
  | nil =>
    intro pre p acc fuel hf hfuel
    obtain ⟨fuel, rfl⟩ : ∃ f, fuel = f + 1 := ⟨fuel - 1, by omega⟩
    simp only [scanLoop, readToBoundary, afterDelim]
    rw [rtb_part_end sb pre p (hf p (by simp))]
    simp [expectedParts]
  | cons q ps ih =>
    intro pre p acc fuel hf hfuel
    obtain ⟨fuel, rfl⟩ : ∃ f, fuel = f + 1 := ⟨fuel - 1, by omega⟩
    simp only [scanLoop, readToBoundary, afterDelim]
    rw [rtb_part_more sb pre p _ (hf p (by simp))]
    simp only [if_true]
    have e : pre ++ (p ++ (CRLF ++ (sb ++ (CRLF ++ (q ++ (CRLF ++ (sb ++ afterDelim sb ps)))))))
        = (pre ++ p ++ CRLF ++ sb ++ CRLF) ++ (q ++ (CRLF ++ (sb ++ afterDelim sb ps))) := by simp
    have el : (pre ++ p ++ CRLF ++ sb ++ CRLF).length = pre.length + p.length + 2 + sb.length + 2 := by
      simp [CRLF]; omega
    rw [e, ← el]
    rw [ih (pre ++ p ++ CRLF ++ sb ++ CRLF) q _ fuel (fun x hx => hf x (by simp at hx ⊢; exact Or.inr hx)) (by simp at hfuel; omega)]
    rw [el]
    simp [expectedParts]

theorem afterDelim_length (sb : Bytes) (ps : List Bytes) : ps.length < (afterDelim sb ps).length := by
  induction ps with
  | nil => simp [afterDelim, CRLF]
  | cons p ps ih => simp [afterDelim, CRLF] at ih ⊢; omega

/-- `NewByteScanner(body, boundary).ScanAll()` on a rendered multipart body returns exactly the
    rendered parts (offset, start and end of each), provided every part is `Fresh` -/
theorem scanAll_rendered (boundary : Bytes) (ps : List Bytes)
    (hf : ∀ p ∈ ps, Fresh (startBoundary boundary) p) :
    scanAll (renderParts (startBoundary boundary) ps) boundary
      = .ok (expectedParts (startBoundary boundary) ((startBoundary boundary).length + 2) ps) := by
  generalize hsb : startBoundary boundary = sb at hf ⊢
  unfold scanAll
  rw [hsb]
  cases ps with
  | nil =>
    simp only [renderParts, afterDelim, readToBoundary]
    rw [rtb_initial_end]
    simp only
    have hl : (sb ++ ([DASH, DASH] ++ CRLF)).length = sb.length + 2 + 1 + 1 := by simp [CRLF]
    rw [← hl]
    simp [scanLoop, readToBoundary, rtbLoop, expectedParts]
  | cons p ps =>
    simp only [renderParts, afterDelim, readToBoundary]
    rw [rtb_initial_more]
    simp only
    have e : sb ++ (CRLF ++ (p ++ (CRLF ++ (sb ++ afterDelim sb ps))))
        = (sb ++ CRLF) ++ (p ++ (CRLF ++ (sb ++ afterDelim sb ps))) := by simp
    have el : (sb ++ CRLF).length = sb.length + 2 := by simp [CRLF]
    rw [e, ← el]
    have := scanLoop_rendered sb ps (sb ++ CRLF) p [] _ hf
      (show ps.length < ((sb ++ CRLF) ++ (p ++ (CRLF ++ (sb ++ afterDelim sb ps)))).length + 1 by
        have := afterDelim_length sb ps
        simp; omega)
    simpa using this

end Gluon.Mime
