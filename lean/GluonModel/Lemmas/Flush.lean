/- Projections of `flush` in terms of `popResponders`, `handleAll`, `merge`. -/
import GluonModel.Lemmas.Members

namespace Gluon

theorem flush_rem (p c : Bool) (sid : StateId) (snap : Snap) (res : List Responder) :
    (flush p c sid snap res).rem = (popResponders p res).2 := by
  unfold flush
  simp only
  split
  · rfl
  · split
    · rfl
    · split <;> rfl

theorem flush_snap (p c : Bool) (sid : StateId) (snap : Snap) (res : List Responder) :
    (flush p c sid snap res).snap = (handleAll c sid snap (popResponders p res).1).1 := by
  unfold flush
  simp only
  split
  · rfl
  · split
    · rfl
    · split <;> rfl

theorem flush_result_ok {p c : Bool} {sid : StateId} {snap : Snap} {res : List Responder} {out : List Resp}
    (h : (flush p c sid snap res).result = .ok out) :
    (handleAll c sid snap (popResponders p res).1).2.2.2 = none ∧
    ((c = true ∧ out = []) ∨
     (c = false ∧ Resp.merge (handleAll c sid snap (popResponders p res).1).2.1 = .ok out)) := by
  unfold flush at h
  simp only at h
  split at h
  · simp at h
  · next he =>
    refine ⟨he, ?_⟩
    split at h
    · next hc => simp at h; exact Or.inl ⟨hc, h⟩
    · next hc =>
      right
      refine ⟨by simpa using hc, ?_⟩
      split at h
      · next hm => simp at h; subst h; exact hm
      · simp at h

theorem any_eq_of_filter_eq {α} {p : α → Bool} {l1 l2 : List α} (h : l1.filter p = l2.filter p) :
    l1.any p = l2.any p := by
  have key : ∀ l : List α, l.any p = !(l.filter p).isEmpty := by
    intro l
    induction l with
    | nil => rfl
    | cons a t ih =>
      cases hp : p a <;> simp [hp, ih]
  rw [key, key, h]

end Gluon
