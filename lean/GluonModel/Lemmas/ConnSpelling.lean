/-
Lemmas for C06 about the spelling of flags: `imap.FlagSet` as a list of spellings
(`Model/ConnFlagSpelling.lean`) against the flag *names* of `Model/ConnUpdates.lean`.
-/
import GluonModel.Model.ConnFlagSpelling
import GluonModel.Lemmas.ConnBasic

namespace Gluon.ConnUpd

/-- the names of a list of spellings -/
def keysOf (l : List String) : List Flag := l.map flagKey

theorem fsHas_iff (fs : List String) (f : String) : fsHas fs f = true ↔ flagKey f ∈ keysOf fs := by
  simp only [fsHas, keysOf, List.any_eq_true, List.mem_map, beq_iff_eq]

theorem fsHas_false_iff (fs : List String) (f : String) : fsHas fs f = false ↔ flagKey f ∉ keysOf fs := by
  rw [← fsHas_iff]; cases fsHas fs f <;> simp

theorem keysOf_append (a b : List String) : keysOf (a ++ b) = keysOf a ++ keysOf b := by
  simp [keysOf]

/-- `FlagSet.add` never loses a flag and adds at most the one given -/
theorem mem_keysOf_fsAdd (fs : List String) (f : String) (k : Flag) :
    k ∈ keysOf (fsAdd fs f) ↔ k ∈ keysOf fs ∨ k = flagKey f := by
  unfold fsAdd
  split
  · rename_i h
    have hk := (fsHas_iff fs f).1 h
    constructor
    · intro hx; exact Or.inl hx
    · rintro (hx | rfl)
      · exact hx
      · exact hk
  · simp [keysOf]

theorem mem_keysOf_foldl (l : List String) : ∀ (acc : List String) (k : Flag),
    k ∈ keysOf (l.foldl fsAdd acc) ↔ k ∈ keysOf acc ∨ k ∈ keysOf l := by
  induction l with
  | nil => intro acc k; simp [keysOf]
  | cons a as ih =>
    intro acc k
    simp only [List.foldl_cons]
    rw [ih, mem_keysOf_fsAdd]
    simp only [keysOf, List.map_cons, List.mem_cons]
    constructor
    · rintro ((h | h) | h)
      · exact Or.inl h
      · exact Or.inr (Or.inl h)
      · exact Or.inr (Or.inr h)
    · rintro (h | h | h)
      · exact Or.inl (Or.inl h)
      · exact Or.inl (Or.inr h)
      · exact Or.inr h

/-- **`NewFlagSet` holds exactly the flags it was given**, whatever their spelling, order, repeats -/
theorem mem_keysOf_fsOf (l : List String) (k : Flag) : k ∈ keysOf (fsOf l) ↔ k ∈ keysOf l := by
  unfold fsOf
  rw [mem_keysOf_foldl]
  simp [keysOf]

theorem fsHas_fsOf (t : List String) (f : String) : fsHas (fsOf t) f = (keysOf t).contains (flagKey f) := by
  cases h : fsHas (fsOf t) f
  · have := (fsHas_false_iff _ _).1 h
    rw [mem_keysOf_fsOf] at this
    symm
    simpa [List.contains_iff_mem] using this
  · have := (fsHas_iff _ _).1 h
    rw [mem_keysOf_fsOf] at this
    symm
    simpa [List.contains_iff_mem] using this

theorem fsHas_eq_contains (s : List String) (f : String) : fsHas s f = (keysOf s).contains (flagKey f) := by
  cases h : fsHas s f
  · have := (fsHas_false_iff _ _).1 h
    symm
    simpa [List.contains_iff_mem] using this
  · have := (fsHas_iff _ _).1 h
    symm
    simpa [List.contains_iff_mem] using this

/-! ### no flag twice -/

theorem fsNodup_append_single (fs : List String) (f : String) (hn : fsNodup fs = true) (hf : fsHas fs f = false) :
    fsNodup (fs ++ [f]) = true := by
  induction fs with
  | nil => simp [fsNodup, fsHas]
  | cons a as ih =>
    simp only [fsNodup, Bool.and_eq_true, Bool.not_eq_true'] at hn
    simp only [List.cons_append, fsNodup, Bool.and_eq_true, Bool.not_eq_true']
    have hfa : fsHas as f = false := by
      simp only [fsHas, List.any_cons, Bool.or_eq_false_iff] at hf
      exact hf.2
    have hka : (flagKey a == flagKey f) = false := by
      simp only [fsHas, List.any_cons, Bool.or_eq_false_iff] at hf
      exact hf.1
    refine ⟨?_, ih hn.2 hfa⟩
    simp only [fsHas, List.any_append, List.any_cons, List.any_nil, Bool.or_false, Bool.or_eq_false_iff]
    refine ⟨hn.1, ?_⟩
    simp only [beq_eq_false_iff_ne, ne_eq] at hka ⊢
    exact fun h => hka h.symm

theorem fsNodup_foldl (l : List String) : ∀ acc : List String, fsNodup acc = true → fsNodup (l.foldl fsAdd acc) = true := by
  induction l with
  | nil => intro acc h; exact h
  | cons a as ih =>
    intro acc h
    simp only [List.foldl_cons]
    apply ih
    unfold fsAdd
    split
    · exact h
    · rename_i hh
      exact fsNodup_append_single acc a h (by simpa using hh)

/-- **a `FlagSet` never holds one flag in two spellings** -/
theorem fsNodup_fsOf (l : List String) : fsNodup (fsOf l) = true := fsNodup_foldl l [] rfl

/-! ### `user.setMessageFlags`: spellings against names -/

/-- the three results of `Model.setMessageFlags` on names: flags afterwards, names removed, names added -/
def setMessageFlagsNames (cur target : List Flag) : List Flag × List Flag × List Flag :=
  (cur.filter (fun f => target.contains f) ++ (dedup target).filter (fun f => !cur.contains f),
   cur.filter (fun f => !target.contains f),
   (dedup target).filter (fun f => !cur.contains f))

/-- `setMessageFlagsNames` is what `Model.setMessageFlags` computes -/
theorem setMessageFlags_eq_names (db : DB) (iid : Nat) (m : Msg) (hm : db.msgByIid iid = some m) (target : List Flag) :
    setMessageFlags db iid target =
      .ok (db.updMsg iid (fun x => { x with flags := (setMessageFlagsNames m.flags target).1 }),
           (setMessageFlagsNames m.flags target).2.1.map (Ev.fetchRem iid) ++
           (setMessageFlagsNames m.flags target).2.2.map (Ev.fetchAdd iid)) := by
  simp [setMessageFlags, hm, setMessageFlagsNames]

theorem filter_map_key (l : List String) (p : Flag → Bool) :
    (l.filter (fun f => p (flagKey f))).map flagKey = (l.map flagKey).filter p := by
  induction l with
  | nil => rfl
  | cons a as ih =>
    simp only [List.filter_cons, List.map_cons]
    cases p (flagKey a) <;> simp [ih]

/-- the flags kept: exactly the kept names, in the same order, each in its stored spelling -/
theorem kept_names (stored target : List String) :
    keysOf (stored.filter (fun f => fsHas (fsOf target) f)) =
      (keysOf stored).filter (fun k => (keysOf target).contains k) := by
  have : (fun f => fsHas (fsOf target) f) = (fun f => (fun k => (keysOf target).contains k) (flagKey f)) := by
    funext f; exact fsHas_fsOf target f
  rw [this]
  exact filter_map_key stored _

/-- the flags removed: exactly the removed names (one `RemoteRemoveMessageFlagsStateUpdate` each) -/
theorem removed_names (stored target : List String) :
    keysOf (setMessageFlagsSp stored target).2.1 = (setMessageFlagsNames (keysOf stored) (keysOf target)).2.1 := by
  simp only [setMessageFlagsSp, setMessageFlagsNames]
  have : (fun f => !fsHas (fsOf target) f) = (fun f => (fun k => !(keysOf target).contains k) (flagKey f)) := by
    funext f; rw [fsHas_fsOf]
  rw [this]
  exact filter_map_key stored (fun k => !(keysOf target).contains k)

/-- the flags added: the added names, as a set (the order of a map iteration is not specified) -/
theorem added_names (stored target : List String) (k : Flag) :
    k ∈ keysOf (setMessageFlagsSp stored target).2.2 ↔ k ∈ (setMessageFlagsNames (keysOf stored) (keysOf target)).2.2 := by
  simp only [setMessageFlagsSp, setMessageFlagsNames, keysOf, List.mem_map, List.mem_filter, mem_dedup,
    Bool.not_eq_true']
  constructor
  · rintro ⟨f, ⟨hft, hfs⟩, rfl⟩
    have h1 : flagKey f ∈ keysOf (fsOf target) := List.mem_map.2 ⟨f, hft, rfl⟩
    rw [mem_keysOf_fsOf] at h1
    have h2 := (fsHas_false_iff stored f).1 hfs
    refine ⟨?_, ?_⟩
    · simpa [keysOf] using h1
    · simpa [keysOf] using h2
  · rintro ⟨hk, hns⟩
    have h1 : k ∈ keysOf (fsOf target) := by
      rw [mem_keysOf_fsOf]; simpa [keysOf] using hk
    obtain ⟨f, hf, rfl⟩ := List.mem_map.1 h1
    refine ⟨f, ⟨hf, ?_⟩, rfl⟩
    rw [fsHas_false_iff]
    simpa [keysOf] using hns

/-- restating: every stored flag is wanted and every wanted flag is stored — by name -/
theorem setMessageFlagsSp_restating (stored target : List String)
    (h : sameSet (keysOf stored) (keysOf target) = true) :
    setMessageFlagsSp stored target = (stored, [], []) := by
  rw [sameSet_iff] at h
  have hrem : stored.filter (fun f => !fsHas (fsOf target) f) = [] := by
    rw [List.filter_eq_nil_iff]
    intro f hf
    have : flagKey f ∈ keysOf target := (h _).1 (List.mem_map.2 ⟨f, hf, rfl⟩)
    have : fsHas (fsOf target) f = true := by
      rw [fsHas_iff, mem_keysOf_fsOf]; exact this
    simp [this]
  have hadd : (fsOf target).filter (fun f => !fsHas stored f) = [] := by
    rw [List.filter_eq_nil_iff]
    intro f hf
    have h1 : flagKey f ∈ keysOf (fsOf target) := List.mem_map.2 ⟨f, hf, rfl⟩
    rw [mem_keysOf_fsOf] at h1
    have : fsHas stored f = true := (fsHas_iff _ _).2 ((h _).2 h1)
    simp [this]
  have hkeep : stored.filter (fun f => fsHas (fsOf target) f) = stored := by
    rw [List.filter_eq_self]
    intro f hf
    rw [fsHas_iff, mem_keysOf_fsOf]
    exact (h _).1 (List.mem_map.2 ⟨f, hf, rfl⟩)
  simp only [setMessageFlagsSp, hrem, hadd, hkeep, List.append_nil]

/-- the flags afterwards: the names `Model.setMessageFlags` leaves, as a set -/
theorem after_names (stored target : List String) :
    sameSet (keysOf (setMessageFlagsSp stored target).1) (setMessageFlagsNames (keysOf stored) (keysOf target)).1 = true := by
  rw [sameSet_iff]
  intro k
  have hk := kept_names stored target
  have ha := added_names stored target k
  simp only [setMessageFlagsSp, setMessageFlagsNames] at ha ⊢
  rw [keysOf_append, hk, List.mem_append, List.mem_append, ha]

/-- what the seeded class of defect computes instead (for the non-vacuity example of
    `C06.restating_flags_any_spelling` only): the spellings compared as strings -/
def diffByString (stored target : List String) : List String × List String × List String :=
  let t := fsOf target
  (stored.filter (fun f => t.contains f) ++ t.filter (fun f => !stored.contains f),
   stored.filter (fun f => !t.contains f), t.filter (fun f => !stored.contains f))

end Gluon.ConnUpd
