/- Applying updates to a session (`Sess.apply`: the update's filter, then its responders) against what the
   updates were expected to contribute (`pendC`): the message filter only drops responders that do nothing. -/
import GluonModel.Lemmas.SysFrame

namespace Gluon.Sys
open Gluon

theorem pendC_nil (sid : StateId) (mb : Nat) (cu cs : Bool) : pendC sid mb cu cs [] = [] := rfl

theorem pendC_cons (sid : StateId) (mb : Nat) (cu cs : Bool) (u : Update) (us : List Update) :
    pendC sid mb cu cs (u :: us) = u.pend sid mb cu cs ++ pendC sid mb cu cs us := by
  simp [pendC]

theorem pendC_append (sid : StateId) (mb : Nat) (cu cs : Bool) (us vs : List Update) :
    pendC sid mb cu cs (us ++ vs) = pendC sid mb cu cs us ++ pendC sid mb cu cs vs := by
  simp [pendC]

theorem pendOf_append (sid : StateId) (mb : Nat) (us vs : List Update) :
    pendOf sid mb (us ++ vs) = pendOf sid mb us ++ pendOf sid mb vs := pendC_append ..

theorem apply_sel (sid : StateId) (cu cs : Bool) (s : Sess) (u : Update) : (s.apply sid cu cs u).sel = s.sel := by
  unfold Sess.apply; split
  · rfl
  · split <;> rfl

theorem apply_snap (sid : StateId) (cu cs : Bool) (s : Sess) (u : Update) : (s.apply sid cu cs u).snap = s.snap := by
  unfold Sess.apply; split
  · rfl
  · split <;> rfl

theorem apply_inbox (sid : StateId) (cu cs : Bool) (s : Sess) (u : Update) : (s.apply sid cu cs u).inbox = s.inbox := by
  unfold Sess.apply; split
  · rfl
  · split <;> rfl

theorem applyAll_sel (sid : StateId) (cu cs : Bool) (s : Sess) (us : List Update) :
    (s.applyAll sid cu cs us).sel = s.sel := by
  induction us generalizing s with
  | nil => rfl
  | cons u us ih => simp only [Sess.applyAll, List.foldl_cons] at ih ⊢; rw [ih, apply_sel]

theorem applyAll_snap (sid : StateId) (cu cs : Bool) (s : Sess) (us : List Update) :
    (s.applyAll sid cu cs us).snap = s.snap := by
  induction us generalizing s with
  | nil => rfl
  | cons u us ih => simp only [Sess.applyAll, List.foldl_cons] at ih ⊢; rw [ih, apply_snap]

theorem applyAll_inbox (sid : StateId) (cu cs : Bool) (s : Sess) (us : List Update) :
    (s.applyAll sid cu cs us).inbox = s.inbox := by
  induction us generalizing s with
  | nil => rfl
  | cons u us ih => simp only [Sess.applyAll, List.foldl_cons] at ih ⊢; rw [ih, apply_inbox]

/-- the responders of an update whose message filter can fail all name that one message and are no EXISTS -/
theorem responders_touchesOnly {sid : StateId} {mb : Nat} {cu cs : Bool} {u : Update} {snap : Snap}
    {res : List Responder} (h : u.msgPasses snap res = false) :
    ∃ id, hasOrPending snap res id = false ∧ ∀ r ∈ u.responders sid mb cu cs, r.touchesOnly id := by
  cases u with
  | «exists» _ _ _ => simp [Update.msgPasses] at h
  | flags _ _ _ => simp [Update.msgPasses] at h
  | expunge m id =>
    refine ⟨id, h, ?_⟩
    intro r hr
    simp only [Update.responders, List.mem_singleton] at hr
    subst hr; exact ⟨rfl, rfl⟩
  | remoteFlag id add flag =>
    refine ⟨id, h, ?_⟩
    intro r hr
    simp only [Update.responders, List.mem_singleton] at hr
    subst hr; exact ⟨rfl, rfl⟩

theorem hasOrPending_false {snap : Snap} {res : List Responder} {id : MsgId} (h : hasOrPending snap res id = false) :
    snap.has id = false ∧ ∀ r ∈ res, ¬ (r.isExists = true ∧ r.msgId = id) := by
  simp only [hasOrPending, Bool.or_eq_false_iff, List.any_eq_false, Bool.and_eq_true, beq_iff_eq] at h
  exact ⟨h.1, fun r hr hc => h.2 r hr hc⟩

/-- one update: what `Sess.apply` appends is what was expected, up to responders that do nothing -/
theorem apply_hist {sid : StateId} {cu cs : Bool} {s : Sess} {mb : Nat} {u : Update} {tail : List Responder} {M : Mbox}
    (hsel : s.sel = some mb)
    (h : HistInv sid { snap := s.snap, res := s.res ++ u.pend sid mb cu cs ++ tail } M) :
    HistInv sid { snap := s.snap, res := (s.apply sid cu cs u).res ++ tail } M := by
  unfold Sess.apply
  rw [hsel]
  simp only
  by_cases hm : u.mboxPasses mb = true
  · by_cases hp : u.msgPasses s.snap s.res = true
    · simp only [hm, hp, Bool.and_self, if_true]
      simpa [Update.pend, hm] using h
    · simp only [hm, hp, Bool.and_false, Bool.false_eq_true, if_false]
      have hp' : u.msgPasses s.snap s.res = false := by simpa using hp
      obtain ⟨id, hno, hr⟩ := responders_touchesOnly (sid := sid) (mb := mb) (cu := cu) (cs := cs) hp'
      obtain ⟨h1, h2⟩ := hasOrPending_false hno
      simp only [Update.pend, hm, if_true] at h
      exact h.drop_noop hr h1 h2
  · simp only [hm, Bool.false_and, Bool.false_eq_true, if_false]
    simpa [Update.pend, hm] using h

/-- a list of updates -/
theorem applyAll_hist {sid : StateId} {cu cs : Bool} {s : Sess} {mb : Nat} {us : List Update} {tail : List Responder}
    {M : Mbox} (hsel : s.sel = some mb)
    (h : HistInv sid { snap := s.snap, res := s.res ++ pendC sid mb cu cs us ++ tail } M) :
    HistInv sid { snap := s.snap, res := (s.applyAll sid cu cs us).res ++ tail } M := by
  induction us generalizing s with
  | nil => simpa [Sess.applyAll, pendC_nil] using h
  | cons u us ih =>
    simp only [Sess.applyAll, List.foldl_cons]
    have h1 : HistInv sid { snap := s.snap, res := (s.apply sid cu cs u).res ++ (pendC sid mb cu cs us ++ tail) } M := by
      apply apply_hist hsel
      simpa [pendC_cons, List.append_assoc] using h
    have := ih (s := s.apply sid cu cs u) (by rw [apply_sel]; exact hsel)
      (by rw [apply_snap]; simpa [List.append_assoc] using h1)
    rw [apply_snap] at this
    exact this

/-- **`drain` keeps the session invariant**: taking updates from the queue does not change the virtual session
    except for responders that do nothing -/
theorem drain_hist {sid : StateId} {s : Sess} {mb : Nat} {k : Nat} {M : Mbox} (hsel : s.sel = some mb)
    (h : HistInv sid (s.virt sid mb) M) : HistInv sid ((s.drain sid k).virt sid mb) M := by
  unfold Sess.drain Sess.virt
  simp only [applyAll_snap, applyAll_inbox]
  have : HistInv sid { snap := s.snap, res := s.res ++ pendC sid mb false false (s.inbox.take k) ++ pendOf sid mb (s.inbox.drop k) } M := by
    have e : s.res ++ pendC sid mb false false (s.inbox.take k) ++ pendOf sid mb (s.inbox.drop k)
        = s.res ++ pendOf sid mb s.inbox := by
      rw [List.append_assoc]
      unfold pendOf
      rw [← pendC_append, List.take_append_drop]
    rw [e]; exact h
  exact applyAll_hist (s := { s with inbox := s.inbox.drop k }) hsel this

theorem drain_sel (sid : StateId) (k : Nat) (s : Sess) : (s.drain sid k).sel = s.sel := by
  unfold Sess.drain; rw [applyAll_sel]

end Gluon.Sys
