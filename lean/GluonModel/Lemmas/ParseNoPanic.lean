/-
No Go runtime panic in the parser: `NoPanic p` for every parsing function, by composition (type class
resolution over the structure of the `do` blocks) and by hand at the two guarded panic sites of
`ParseLiteral`.
-/
import GluonModel.Model.Parse.Grammar

namespace Gluon.Parse

set_option synthInstance.maxSize 4096
set_option synthInstance.maxHeartbeats 400000

/-- `p` never ends in a Go runtime panic -/
class NoPanic (p : P α) : Prop where
  np : ∀ s s', p s ≠ .err .panic s'

instance : NoPanic (pure a : P α) := ⟨fun s s' h => by cases h⟩
instance (x : P α) (f : α → P β) [hx : NoPanic x] [hf : ∀ a, NoPanic (f a)] : NoPanic (x >>= f) := ⟨by
  intro s s' h
  have : (x >>= f) s = match x s with
      | .ok a s' => f a s'
      | .err e s' => .err e s'
      | .fuel => .fuel := rfl
  rw [this] at h
  cases hxs : x s with
  | ok a s1 => rw [hxs] at h; exact (hf a).np s1 s' h
  | err e s1 =>
    rw [hxs] at h
    simp only at h
    cases h
    exact hx.np s s' hxs
  | fuel => rw [hxs] at h; cases h⟩
instance (c : Prop) [Decidable c] (p q : P α) [hp : NoPanic p] [hq : NoPanic q] : NoPanic (if c then p else q) := ⟨by
  intro s s' h
  split at h
  · exact hp.np s s' h
  · exact hq.np s s' h⟩
instance : NoPanic (outOfFuel : P α) := ⟨fun s s' h => by cases h⟩
instance : NoPanic (makeError : P α) := ⟨fun s s' h => by cases h⟩
instance : NoPanic (makeErrorAt : P α) := ⟨fun s s' h => by cases h⟩
instance : NoPanic advance := ⟨fun s s' h => by unfold advance at h; split at h <;> cases h⟩
instance : NoPanic (check t) := ⟨fun s s' h => by cases h⟩
instance : NoPanic (checkWith f) := ⟨fun s s' h => by cases h⟩
instance : NoPanic prevVal := ⟨fun s s' h => by cases h⟩
instance : NoPanic curVal := ⟨fun s s' h => by cases h⟩
instance : NoPanic bumpConts := ⟨fun s s' h => by cases h⟩

instance : NoPanic (consumeWith f) := ⟨by
  intro s s' h
  unfold consumeWith at h
  split at h
  · exact NoPanic.np (p := advance) s s' h
  · cases h⟩
instance : NoPanic (consume t) := inferInstanceAs (NoPanic (consumeWith _))
instance : NoPanic (matchesWith f) := ⟨by
  intro s s' h
  unfold matchesWith at h
  split at h
  · exact NoPanic.np (p := advance >>= fun _ => pure true) s s' h
  · cases h⟩
instance : NoPanic (matchesTy t) := inferInstanceAs (NoPanic (matchesWith _))

theorem np_consumeBytes (l : Bytes) : NoPanic (consumeBytes l) := by
  induction l with
  | nil => exact inferInstanceAs (NoPanic (pure ()))
  | cons c cs ih =>
    refine ⟨fun s s' h => ?_⟩
    unfold consumeBytes at h
    split at h
    · cases h
    · exact NoPanic.np (p := advance >>= fun _ => consumeBytes cs) s s' h
instance : NoPanic (consumeBytes l) := np_consumeBytes l

theorem np_consumeBytesFold (l : Bytes) : NoPanic (consumeBytesFold l) := by
  induction l with
  | nil => exact inferInstanceAs (NoPanic (pure ()))
  | cons c cs ih =>
    refine ⟨fun s s' h => ?_⟩
    unfold consumeBytesFold at h
    split at h
    · cases h
    · exact NoPanic.np (p := advance >>= fun _ => consumeBytesFold cs) s s' h
instance : NoPanic (consumeBytesFold l) := np_consumeBytesFold l

theorem np_collectLoop (f : TokTy → Bool) (n : Nat) : NoPanic (collectLoop f n) := by
  induction n with
  | zero => exact inferInstanceAs (NoPanic outOfFuel)
  | succ n ih => unfold collectLoop; infer_instance
instance : NoPanic (collectLoop f n) := np_collectLoop f n
instance : NoPanic (collectWhile f n) := np_collectLoop f n
instance : NoPanic (collectWhilePrev f n) := by unfold collectWhilePrev; infer_instance

theorem np_numberLoop (n : Nat) : ∀ acc, NoPanic (numberLoop n acc) := by
  induction n with
  | zero => intro acc; exact inferInstanceAs (NoPanic outOfFuel)
  | succ n ih => intro acc; unfold numberLoop; infer_instance
instance : NoPanic (numberLoop n acc) := np_numberLoop n acc
instance : NoPanic (parseNumber n) := by unfold parseNumber; infer_instance


theorem np_numberNLoop (n : Nat) : ∀ acc, NoPanic (numberNLoop n acc) := by
  induction n with
  | zero => intro acc; exact inferInstanceAs (NoPanic (pure acc))
  | succ n ih => intro acc; unfold numberNLoop; infer_instance
instance : NoPanic (numberNLoop n acc) := np_numberNLoop n acc
instance : NoPanic (parseNumberN n) := by unfold parseNumberN; infer_instance
instance : NoPanic (parseAtom n) := by unfold parseAtom; infer_instance

theorem np_quotedLoop (n : Nat) : NoPanic (quotedLoop n) := by
  induction n with
  | zero => exact inferInstanceAs (NoPanic outOfFuel)
  | succ n ih => unfold quotedLoop; infer_instance
instance : NoPanic (quotedLoop n) := np_quotedLoop n
instance : NoPanic (parseQuoted n) := by unfold parseQuoted; infer_instance

instance : NoPanic (bumpContsIf b) := by unfold bumpContsIf; infer_instance

/-- the two panic sites of `ParseLiteral` (`make([]byte, size)`, `dst[0]`) are guarded by the size checks -/
instance : NoPanic (parseLiteral fuel) := by
  unfold parseLiteral
  have key : ∀ size : Int, NoPanic (if size < 0 then makeError
      else if size ≥ literalCap then makeError
      else do
        consume .rcurly
        consume .cr
        bumpContsIf (← check .lf)
        consume .lf
        if size = 0 then pure []
        else do
          goMakeBytes size
          let lit ← scannerConsumeBytes size.toNat
          advance
          pure lit : P Bytes) := by
    intro size
    by_cases h0 : size < 0
    · simp only [h0, if_true]; infer_instance
    · by_cases h1 : size ≥ literalCap
      · simp only [h0, h1, if_false, if_true]; infer_instance
      · simp only [h0, h1, if_false]
        unfold literalCap at h1
        by_cases hz : size = 0
        · simp only [hz, if_true]; infer_instance
        · simp only [hz, if_false]
          haveI : NoPanic (goMakeBytes size) := ⟨by
            intro s s' h
            unfold goMakeBytes at h
            have : ¬ (size < 0 || size > 281474976710656) = true := by
              simp only [Bool.or_eq_true, decide_eq_true_eq, not_or]; omega
            simp only [this, Bool.false_eq_true, if_false] at h
            cases h⟩
          haveI : NoPanic (scannerConsumeBytes size.toNat) := ⟨by
            intro s s' h
            unfold scannerConsumeBytes at h
            have : ¬ size.toNat = 0 := by omega
            simp only [this, if_false] at h
            split at h <;> cases h⟩
          infer_instance
  infer_instance

instance : NoPanic (parseString n) := by unfold parseString; infer_instance
instance : NoPanic (parseAString n) := by unfold parseAString; infer_instance
instance : NoPanic (tryParseString n) := by unfold tryParseString; infer_instance


theorem np_sepLoop (sep : TokTy) (item : P α) [NoPanic item] (n : Nat) : NoPanic (sepLoop sep item n) := by
  induction n with
  | zero => exact inferInstanceAs (NoPanic outOfFuel)
  | succ n ih => unfold sepLoop; infer_instance
instance (sep : TokTy) (item : P α) [NoPanic item] : NoPanic (sepLoop sep item n) := np_sepLoop sep item n

instance : NoPanic (readKeyword fuel) := by unfold readKeyword; infer_instance
instance : NoPanic (parseMailbox fuel) := by unfold parseMailbox; infer_instance
instance : NoPanic (parseListMailbox fuel) := by unfold parseListMailbox; infer_instance
instance : NoPanic (parseFlag fuel) := by unfold parseFlag; infer_instance
instance : NoPanic (parseFlagList fuel) := by unfold parseFlagList; infer_instance
instance : NoPanic (tryParseFlagList fuel) := by unfold tryParseFlagList; infer_instance
instance : NoPanic (parseNZNumber fuel) := by unfold parseNZNumber; infer_instance
instance : NoPanic (parseSeqNumber fuel) := by unfold parseSeqNumber; infer_instance
instance : NoPanic (parseSeqRange fuel) := by unfold parseSeqRange; infer_instance
instance : NoPanic (parseSeqSet fuel) := by unfold parseSeqSet; infer_instance
instance : NoPanic parseDateDayFixed := by unfold parseDateDayFixed; infer_instance
instance : NoPanic parseDateMonth := by
  unfold parseDateMonth
  have : ∀ o : Option Int, NoPanic (match o with | some m => (pure m : P Int) | none => makeError) := by
    intro o; cases o <;> infer_instance
  infer_instance
instance : NoPanic parseDateYear := by unfold parseDateYear; infer_instance
instance : NoPanic parseZone := by unfold parseZone; infer_instance
instance : NoPanic parseTime := by unfold parseTime; infer_instance
instance : NoPanic parseDateTime := by
  unfold parseDateTime
  have : ∀ (year month day : Int) (t : Int × Int × Int), NoPanic (match t with
      | (h, m, s) => do
        consume .sp
        let zone ← parseZone
        consume .dquote
        pure (DateTime.mk year month day h m s zone) : P DateTime) := by
    intro y mo d t; obtain ⟨h, m, s⟩ := t; infer_instance
  infer_instance
instance : NoPanic parseDateText := by unfold parseDateText; infer_instance
instance : NoPanic parseDate := by unfold parseDate; infer_instance
instance : NoPanic (parseMailboxCmd mk fuel) := by unfold parseMailboxCmd; infer_instance
instance : NoPanic (parseLogin fuel) := by unfold parseLogin; infer_instance
instance : NoPanic (parseRename fuel) := by unfold parseRename; infer_instance
instance : NoPanic (parseListCmd mk fuel) := by unfold parseListCmd; infer_instance
instance : NoPanic (parseStatusAttribute fuel) := by unfold parseStatusAttribute; infer_instance
instance : NoPanic (parseStatus fuel) := by unfold parseStatus; infer_instance
instance : NoPanic (parseStoreFlags fuel) := by
  unfold parseStoreFlags
  have : ∀ o : Option (List BStr), NoPanic (match o with
      | some fl => (pure fl : P (List BStr))
      | none => do
        let f ← parseFlag fuel
        let r ← sepLoop .sp (parseFlag fuel) fuel
        pure (f :: r)) := by
    intro o; cases o <;> infer_instance
  infer_instance
instance : NoPanic (parseStore fuel) := by unfold parseStore; infer_instance
instance : NoPanic (parseCopyMove mk fuel) := by unfold parseCopyMove; infer_instance
instance : NoPanic (parseHeaderList fuel) := by unfold parseHeaderList; infer_instance
instance : NoPanic (parseHeaderFields fuel) := by unfold parseHeaderFields; infer_instance
instance : NoPanic (handleSectionMessageText t fuel) := by unfold handleSectionMessageText; infer_instance
instance : NoPanic (parseSectionText fuel) := by unfold parseSectionText; infer_instance
instance : NoPanic (parseSectionMsgText fuel) := by unfold parseSectionMsgText; infer_instance
theorem np_sectionPartLoop (fuel n : Nat) : NoPanic (sectionPartLoop fuel n) := by
  induction n with
  | zero => exact inferInstanceAs (NoPanic outOfFuel)
  | succ n ih => unfold sectionPartLoop; infer_instance
instance : NoPanic (sectionPartLoop fuel n) := np_sectionPartLoop fuel n
instance : NoPanic (parseSectionPart fuel) := by unfold parseSectionPart; infer_instance
instance : NoPanic (parseSectionSpec fuel) := by unfold parseSectionSpec; infer_instance
instance : NoPanic (handleBodyFetchAttribute fuel) := by unfold handleBodyFetchAttribute; infer_instance
instance : NoPanic (handleRFC822FetchAttribute fuel) := by unfold handleRFC822FetchAttribute; infer_instance
instance : NoPanic (handleFetchAttribute name fuel) := by unfold handleFetchAttribute; infer_instance
instance : NoPanic (parseFetchAttribute fuel) := by unfold parseFetchAttribute; infer_instance
instance : NoPanic (parseFetchAttributes fuel) := by unfold parseFetchAttributes; infer_instance
instance : NoPanic (parseFetch fuel) := by unfold parseFetch; infer_instance
instance : NoPanic (consumeIf b t) := by unfold consumeIf; infer_instance
instance : NoPanic appendDateTime := by unfold appendDateTime; infer_instance
instance : NoPanic (parseAppend fuel) := by unfold parseAppend; infer_instance
instance (p : P α) [NoPanic p] : NoPanic (spThen p) := by unfold spThen; infer_instance
instance (recKey : P SearchKey) [NoPanic recKey] : NoPanic (handleSearchKey recKey k fuel) := by unfold handleSearchKey; infer_instance
instance (recKey : P SearchKey) [NoPanic recKey] : NoPanic (parseSearchKeyList recKey fuel) := by unfold parseSearchKeyList; infer_instance
theorem np_parseSearchKey (d fuel : Nat) : NoPanic (parseSearchKey d fuel) := by
  induction d with
  | zero => unfold parseSearchKey; infer_instance
  | succ d ih => unfold parseSearchKey; infer_instance
instance : NoPanic (parseSearchKey d fuel) := np_parseSearchKey d fuel
instance : NoPanic (searchFirst fuel) := by unfold searchFirst; infer_instance
instance : NoPanic (parseSearch fuel) := by
  unfold parseSearch
  have : ∀ x : BStr × List SearchKey, NoPanic (match x with
      | (charset, first) => do
        let more ← sepLoop .sp (parseSearchKey searchBudget fuel) fuel
        let keys := first ++ more
        if keys.isEmpty then makeError
        else pure (Cmd.search charset keys) : P Cmd) := by
    intro x; obtain ⟨a, b⟩ := x; infer_instance
  infer_instance
instance : NoPanic (dispatchUID c fuel) := by unfold dispatchUID; infer_instance
instance : NoPanic (parseUID fuel) := by unfold parseUID; infer_instance
instance : NoPanic (parseNString fuel) := by
  unfold parseNString
  have : ∀ o : Option Bytes, NoPanic (match o with
      | some s => (pure (some s) : P (Option BStr))
      | none => do
        consumeBytesFold (kw "NIL")
        pure none) := by
    intro o; cases o <;> infer_instance
  infer_instance
theorem np_idLoop (fuel n : Nat) : ∀ m, NoPanic (idLoop fuel n m) := by
  induction n with
  | zero => intro m; exact inferInstanceAs (NoPanic outOfFuel)
  | succ n ih =>
    intro m
    unfold idLoop
    have : ∀ o : Option Bytes, NoPanic (match o with
        | none => (pure m : P (List (BStr × BStr)))
        | some key => do
          consume .sp
          let v ← parseNString fuel
          let atEnd ← check .rparen
          consumeIf (!atEnd) .sp
          idLoop fuel n (mapInsert m key (v.getD []))) := by
      intro o; cases o <;> infer_instance
    infer_instance
instance : NoPanic (idLoop fuel n m) := np_idLoop fuel n m
instance : NoPanic (parseID fuel) := by unfold parseID; infer_instance
instance : NoPanic (parseTag fuel) := by unfold parseTag; infer_instance
instance : NoPanic (dispatchCommand c fuel) := by unfold dispatchCommand; infer_instance
instance : NoPanic (parseCommand fuel) := by unfold parseCommand; infer_instance
instance : NoPanic (parseLine fuel) := by unfold parseLine; infer_instance

/-- parse_no_panic -/
theorem parse_noPanic (fuel : Nat) (input : Bytes) (s : PState) : parse fuel input ≠ .err .panic s :=
  NoPanic.np (p := parseLine fuel) _ s


end Gluon.Parse
