/- `parse_print` from an arbitrary parser state (the state a previous `Parse` call left), and the
induction over a pipelined stream. -/
import GluonModel.Lemmas.ParseId
import GluonModel.Model.Parse.Pipeline

namespace Gluon.Parse

/-- `Advance` at the start of `Parse`: whatever the previous call left as current token becomes the
previous token; the first unread byte becomes the current token -/
theorem advance_any (s : PState) : advance s = .ok () (load ⟨s.cur, s.curByte, s.conts⟩ s.rest) := by
  unfold advance load
  cases h : s.rest <;> rfl

theorem parseLine_done_from (fuel : Nat) (hf : 14 < fuel) (c : Choices) (tail : Bytes) (s : PState)
    (hs : s.rest = kwCase c (kw "done") ++ [13, 10] ++ tail) :
    ∃ s', parseLine fuel s = .ok ⟨[], .done⟩ s' ∧ s'.rest = tail := by
  unfold parseLine
  rw [bind_ok (advance_any s), hs]
  have hchars := kwCase_char c (kw "done") (allLower_spec (by decide))
  have hlb := lowerBytes_kwCase c (kw "done")
  have hlen := kwCase_length c (kw "done")
  generalize kwCase c (kw "done") = w at hchars hlb hlen
  match w, hlen with
  | [a, b, d, e], _ =>
    have htag : ∀ x ∈ [a, b, d, e], isTagChar (tokTy x) = true := by
      intro x hx
      have := hchars x hx
      simp only [isCharTok, beq_iff_eq] at this
      rw [this]; rfl
    obtain ⟨c1, e1⟩ := rt_consumeCollectPrev isTagChar a [b, d, e] (htag a (by simp))
      (fun x hx => htag x (by simp [hx])) fuel (by simp; omega) ⟨s.cur, s.curByte, s.conts⟩ (13 :: 10 :: tail) (by rfl)
    have e1' : parseTag fuel (load ⟨s.cur, s.curByte, s.conts⟩ ([a, b, d, e] ++ [13, 10] ++ tail)) =
        .ok [a, b, d, e] (load c1 (13 :: 10 :: tail)) := by unfold parseTag; simpa using e1
    rw [bind_ok e1']
    have hdone : lowerBytes [a, b, d, e] = kw "done" := by rw [hlb]; decide
    simp only [hdone, if_true, bind_pure]
    rw [consume_load (by rfl)]
    simp only [bind_check, load_cur_ty, headTy_cons]
    exact ⟨_, rfl, rfl⟩

theorem parseLine_frame_from (t : BStr) (ht : TagOK t) (w : Bytes) (v : Cmd) (ok : Bytes → Prop)
    (fuel : Nat) (hf : t.length < fuel)
    (hcmd : RT (parseCommand fuel) w v ok) (hok : ∀ r, ok (13 :: r)) (tail : Bytes) (s : PState)
    (hs : s.rest = t ++ (32 :: (w ++ [13, 10])) ++ tail) :
    ∃ s', parseLine fuel s = .ok ⟨t, v⟩ s' ∧ s'.rest = tail := by
  unfold parseLine
  rw [bind_ok (advance_any s), hs]
  have h1 : RT (do
      consume .sp
      let p ← parseCommand fuel
      pure (Command.mk t p)) (32 :: w) (Command.mk t v) ok := by
    refine RT.bind (w1 := [32]) (rt_consume rfl anyRest) ?_ (fun _ _ => trivial)
    exact RT.map _ hcmd
  obtain ⟨c1, e1⟩ := rt_parseTag t ht fuel hf ⟨s.cur, s.curByte, s.conts⟩ (32 :: (w ++ [13, 10]) ++ tail) (by rfl)
  obtain ⟨c2, e2⟩ := h1 c1 (13 :: 10 :: tail) (hok _)
  have hw : t ++ 32 :: (w ++ [13, 10]) ++ tail = t ++ (32 :: (w ++ [13, 10]) ++ tail) := by simp
  rw [hw, bind_ok e1]
  simp only [ht.2.2, if_false]
  have hw2 : 32 :: (w ++ [13, 10]) ++ tail = 32 :: w ++ 13 :: 10 :: tail := by simp
  rw [hw2, bind_ok e2]
  rw [consume_load (by rfl)]
  simp only [bind_check, load_cur_ty, headTy_cons]
  exact ⟨_, rfl, rfl⟩

/-- `parse_print` from any state: only the unread input matters -/
theorem parseLine_print_from (fuel : Nat) (c : Choices) (cmd : Command) (h : CommandOK fuel cmd) (tail : Bytes)
    (s : PState) (hs : s.rest = print c cmd ++ tail) :
    ∃ s', parseLine fuel s = .ok cmd s' ∧ s'.rest = tail := by
  obtain ⟨hf, h⟩ := h
  obtain ⟨tag, payload⟩ := cmd
  rcases h with ⟨hd, ht⟩ | ⟨ht, htl, hc⟩
  · simp only at hd ht
    subst hd ht
    exact parseLine_done_from fuel hf c tail s hs
  · simp only at ht htl hc
    have hnd : payload ≠ .done := by
      intro e
      subst e
      exact hc
    have hp : print c ⟨tag, payload⟩ = tag ++ (32 :: (printCmd c payload ++ [13, 10])) := by
      cases payload <;> first | rfl | exact absurd rfl hnd
    rw [hp] at hs
    exact parseLine_frame_from tag ht (printCmd c payload) payload (nextIs .cr) fuel htl
      (rt_parseCommand fuel hf c payload hc) (fun _ => rfl) tail s hs

/-- the wire form of a pipeline: the i-th command printed with the i-th choice stream -/
def printStream : List (Choices × Command) → Bytes
  | [] => []
  | (c, cmd) :: r => print c cmd ++ printStream r

theorem parseStream_print (fuel : Nat) (l : List (Choices × Command))
    (h : ∀ x ∈ l, CommandOK fuel x.2) (tail : Bytes) (s : PState)
    (hs : s.rest = printStream l ++ tail) :
    ∃ s', parseStream fuel l.length s = (l.map (·.2), s') ∧ s'.rest = tail := by
  induction l generalizing s with
  | nil => exact ⟨s, rfl, by simpa [printStream] using hs⟩
  | cons x r ih =>
    obtain ⟨c, cmd⟩ := x
    have hs' : s.rest = print c cmd ++ (printStream r ++ tail) := by
      rw [hs]; simp [printStream]
    obtain ⟨s1, e1, r1⟩ := parseLine_print_from fuel c cmd (h (c, cmd) (by simp)) _ s hs'
    obtain ⟨s2, e2, r2⟩ := ih (fun y hy => h y (by simp [hy])) s1 r1
    refine ⟨s2, ?_, r2⟩
    simp only [List.length_cons, parseStream, e1, e2, List.map_cons]

end Gluon.Parse
