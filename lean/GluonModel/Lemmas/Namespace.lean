/- Lemmas about the names-level namespace model (Model/Namespace.lean). -/
import GluonModel.Model.Namespace
import GluonModel.Spec.Namespace
import GluonModel.Lemmas.MatchPaths

namespace Gluon.NS
open Gluon Gluon.Match

instance : DecidableEq (Except Err Names) := fun a b =>
  match a, b with
  | .ok x, .ok y => if h : x = y then isTrue (by rw [h]) else isFalse (by intro e; cases e; exact h rfl)
  | .error x, .error y => if h : x = y then isTrue (by rw [h]) else isFalse (by intro e; cases e; exact h rfl)
  | .ok _, .error _ => isFalse (by intro e; cases e)
  | .error _, .ok _ => isFalse (by intro e; cases e)

theorem inferiors_core (d : Char) (parent : Name) (names : List Name) :
    (listInferiors d parent names).Perm (names.filter fun n => (listSuperiors d n).contains parent) ∧
    (∀ n, n ∈ listInferiors d parent names ↔ n ∈ names ∧ ∃ rest, n = parent ++ d :: rest) := by
  have hperm : (listInferiors d parent names).Perm (names.filter fun n => (listSuperiors d n).contains parent) := by
    simp only [listInferiors]
    exact (List.reverse_perm _).trans (sortNames_perm _)
  refine ⟨hperm, ?_⟩
  intro n
  rw [hperm.mem_iff]
  simp only [List.mem_filter, List.contains_iff_mem, listSuperiors_eq, Spec.mem_superiors_iff, Spec.IsSuperior]

/-! ### one row renamed -/

theorem renameRow_ok {S S' : Names} {old new : Name} (h : renameRow S old new = .ok S') :
    new ∉ S ∧ S' = S.map (fun z => if z = old then new else z) := by
  simp only [renameRow] at h
  split at h
  · cases h
  next hc => cases h; exact ⟨by simpa using hc, rfl⟩

theorem nodup_map_replace {S : Names} {old new : Name} (hS : S.Nodup) (hn : new ∉ S) :
    (S.map (fun z => if z = old then new else z)).Nodup := by
  induction S with
  | nil => simp
  | cons x xs ih =>
    simp only [List.nodup_cons, List.mem_cons, not_or] at hS hn
    simp only [List.map_cons, List.nodup_cons, List.mem_map]
    refine ⟨?_, ih hS.2 hn.2⟩
    rintro ⟨z, hz, e⟩
    by_cases hx : x = old
    · subst hx
      simp only [if_true] at e
      by_cases hzx : z = x
      · subst hzx; exact hS.1 hz
      · simp only [hzx, if_false] at e; subst e; exact hn.2 hz
    · simp only [hx, if_false] at e
      by_cases hzo : z = old
      · simp only [hzo, if_true] at e; exact hn.1 e
      · simp only [hzo, if_false] at e; subst e; exact hS.1 hz

/-! ### the inferiors loop -/

/-- on success the loop is the simultaneous replacement of every listed inferior -/
theorem renameInferiors_ok (oldName newName : Name) : ∀ (L : List Name) (S S' : Names),
    L.Nodup → (∀ x ∈ L, x ∈ S) → S.Nodup → renameInferiors S oldName newName L = .ok S' →
    S' = S.map (fun z => if z ∈ L then newName ++ z.drop oldName.length else z) ∧ S'.Nodup := by
  intro L
  induction L with
  | nil =>
    intro S S' _ _ hS h
    simp only [renameInferiors] at h
    cases h
    exact ⟨by simp, hS⟩
  | cons inf rest ih =>
    intro S S' hL hsub hS h
    simp only [renameInferiors] at h
    cases hr : renameRow S inf (newName ++ inf.drop oldName.length) with
    | error e => rw [hr] at h; cases h
    | ok S1 =>
      rw [hr] at h
      simp only at h
      obtain ⟨hnew, rfl⟩ := renameRow_ok hr
      simp only [List.nodup_cons] at hL
      have hS1 := nodup_map_replace (old := inf) hS hnew
      have hsub1 : ∀ x ∈ rest, x ∈ S.map (fun z => if z = inf then newName ++ inf.drop oldName.length else z) := by
        intro x hx
        have hxS := hsub x (by simp [hx])
        have hne : x ≠ inf := fun e => hL.1 (e ▸ hx)
        exact List.mem_map.mpr ⟨x, hxS, by simp [hne]⟩
      obtain ⟨e, hnd⟩ := ih _ S' hL.2 hsub1 hS1 h
      refine ⟨?_, hnd⟩
      rw [e, List.map_map]
      apply List.map_congr_left
      intro z hz
      simp only [Function.comp]
      by_cases hzi : z = inf
      · subst hzi
        have : newName ++ z.drop oldName.length ∉ rest := fun hm => hnew (hsub _ (by simp [hm]))
        simp [this]
      · simp [hzi]

/-! ### creating the missing superiors -/

theorem superiors_nodup (d : Char) (n : Name) : (listSuperiors d n).Nodup := by
  rw [listSuperiors_eq]
  exact (Spec.superiors_sorted d n).imp (fun h e => by rw [e] at h; exact Nat.lt_irrefl _ h)

theorem nodup_append_missing {S : Names} (d : Char) (n : Name) (hS : S.Nodup) :
    (S ++ (listSuperiors d n).filter (fun s => !S.contains s)).Nodup := by
  rw [List.nodup_append]
  refine ⟨hS, (superiors_nodup d n).filter _, ?_⟩
  intro a ha b hb e
  subst e
  simp at hb
  exact hb.2 ha

theorem mem_append_missing {S : Names} (d : Char) (n x : Name) :
    x ∈ S ++ (listSuperiors d n).filter (fun s => !S.contains s) ↔ x ∈ S ∨ x ∈ Spec.superiors d n := by
  simp only [List.mem_append, List.mem_filter, listSuperiors_eq]
  constructor
  · rintro (h | ⟨h, _⟩)
    · exact Or.inl h
    · exact Or.inr h
  · rintro (h | h)
    · exact Or.inl h
    · by_cases hx : x ∈ S
      · exact Or.inl hx
      · exact Or.inr ⟨h, by simpa using hx⟩

end Gluon.NS
