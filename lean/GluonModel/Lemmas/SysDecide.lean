/- Executable forms of the schedule hypotheses of the system model (`NoOvertake`, `QueueEmpty`), so that concrete
   traces can be checked by evaluation. -/
import GluonModel.Lemmas.SysStep

namespace Gluon.Sys
open Gluon

theorem opNoOvertakeB_iff (s : Sys) (op : SysOp) : opNoOvertakeB s op = true ↔ OpNoOvertake s op := by
  cases op with
  | cmd i c =>
    simp only [opNoOvertakeB, OpNoOvertake]
    cases hi : s.sess[i]? with
    | none => simp
    | some me =>
      simp only [Option.some.injEq]
      cases hs : me.sel with
      | none =>
        simp only [true_iff]
        intro me' mb' e' h1 h2
        subst h1; rw [hs] at h2; cases h2
      | some mb =>
        cases he : effect s.idx me (sidOf i) c with
        | none =>
          simp only [true_iff]
          intro me' mb' e' h1 h2 h3
          subst h1; rw [hs] at h2
          simp only [Option.some.injEq] at h2
          subst h2; rw [he] at h3; cases h3
        | some e =>
          simp only [Bool.or_eq_true, List.isEmpty_iff]
          constructor
          · intro h me' mb' e' h1 h2 h3
            subst h1
            rw [hs] at h2
            simp only [Option.some.injEq] at h2
            subst h2
            rw [he] at h3
            simp only [Option.some.injEq] at h3
            subst h3
            exact h
          · intro h
            exact h me mb e rfl hs he
  | close i =>
    simp only [opNoOvertakeB, OpNoOvertake]
    cases hi : s.sess[i]? with
    | none => simp
    | some me =>
      simp only [Option.some.injEq]
      cases hs : me.sel with
      | none =>
        simp only [true_iff]
        intro me' mb' e' h1 h2
        subst h1; rw [hs] at h2; cases h2
      | some mb =>
        cases he : effect s.idx me (sidOf i) .expunge with
        | none =>
          simp only [true_iff]
          intro me' mb' e' h1 h2 h3
          subst h1; rw [hs] at h2
          simp only [Option.some.injEq] at h2
          subst h2; rw [he] at h3; cases h3
        | some e =>
          simp only [Bool.or_eq_true, List.isEmpty_iff]
          constructor
          · intro h me' mb' e' h1 h2 h3
            subst h1
            rw [hs] at h2
            simp only [Option.some.injEq] at h2
            subst h2
            rw [he] at h3
            simp only [Option.some.injEq] at h3
            subst h3
            exact h
          · intro h
            exact h me mb e rfl hs he
  | select i mb =>
    simp only [opNoOvertakeB, OpNoOvertake]
    cases hi : s.sess[i]? with
    | none => simp
    | some me =>
      simp only [List.isEmpty_iff, Option.some.injEq]
      constructor
      · intro h me' h1; subst h1; exact h
      · intro h; exact h me rfl
  | conn c => simp [opNoOvertakeB, OpNoOvertake]
  | drain i k => simp [opNoOvertakeB, OpNoOvertake]
  | flush i p => simp [opNoOvertakeB, OpNoOvertake]
  | unselect i => simp [opNoOvertakeB, OpNoOvertake]

instance (s : Sys) (op : SysOp) : Decidable (OpNoOvertake s op) := decidable_of_iff _ (opNoOvertakeB_iff s op)

instance NoOvertake.dec : (s : Sys) → (ops : List SysOp) → Decidable (NoOvertake s ops)
  | _, [] => isTrue trivial
  | s, op :: ops =>
    have : Decidable (NoOvertake (step s op).1 ops) := NoOvertake.dec _ ops
    by unfold NoOvertake; exact inferInstance

def opQueueEmptyB (s : Sys) : SysOp → Bool
  | .cmd i _ => match s.sess[i]? with | none => true | some me => me.inbox.isEmpty
  | .select i _ => match s.sess[i]? with | none => true | some me => me.inbox.isEmpty
  | .close i => match s.sess[i]? with | none => true | some me => me.inbox.isEmpty
  | _ => true

theorem opQueueEmptyB_iff (s : Sys) (op : SysOp) : opQueueEmptyB s op = true ↔ OpQueueEmpty s op := by
  cases op <;> simp only [opQueueEmptyB, OpQueueEmpty]
  case cmd i c =>
    cases hi : s.sess[i]? with
    | none => simp
    | some me =>
      simp only [List.isEmpty_iff, Option.some.injEq]
      exact ⟨fun h me' h1 => h1 ▸ h, fun h => h me rfl⟩
  case select i mb =>
    cases hi : s.sess[i]? with
    | none => simp
    | some me =>
      simp only [List.isEmpty_iff, Option.some.injEq]
      exact ⟨fun h me' h1 => h1 ▸ h, fun h => h me rfl⟩
  case close i =>
    cases hi : s.sess[i]? with
    | none => simp
    | some me =>
      simp only [List.isEmpty_iff, Option.some.injEq]
      exact ⟨fun h me' h1 => h1 ▸ h, fun h => h me rfl⟩

instance (s : Sys) (op : SysOp) : Decidable (OpQueueEmpty s op) := decidable_of_iff _ (opQueueEmptyB_iff s op)

instance QueueEmpty.dec : (s : Sys) → (ops : List SysOp) → Decidable (QueueEmpty s ops)
  | _, [] => isTrue trivial
  | s, op :: ops =>
    have : Decidable (QueueEmpty (step s op).1 ops) := QueueEmpty.dec _ ops
    by unfold QueueEmpty; exact inferInstance

/-- an empty queue contributes nothing -/
theorem OpQueueEmpty.noOvertake {s : Sys} {op : SysOp} (h : OpQueueEmpty s op) : OpNoOvertake s op := by
  cases op with
  | cmd i c => intro me mb e h1 _ _; left; rw [h me h1]; rfl
  | select i mb => intro me h1; rw [h me h1]; rfl
  | close i => intro me mb e h1 _ _; left; rw [h me h1]; rfl
  | conn c => trivial
  | drain i k => trivial
  | flush i p => trivial
  | unselect i => trivial

theorem QueueEmpty.noOvertake {s : Sys} {ops : List SysOp} (h : QueueEmpty s ops) : NoOvertake s ops := by
  induction ops generalizing s with
  | nil => trivial
  | cons op ops ih => exact ⟨h.1.noOvertake, ih h.2⟩

end Gluon.Sys
