/-
MessagesCreated, part 5: the effect lemma, and MessageUpdated in full.
-/
import GluonModel.Lemmas.ConnCreated4

namespace Gluon.ConnUpd

theorem eff_MSC (cfg : Cfg) (db : DB) (hi : InvP db) (ignore : Bool) (ms : List NewMsg)
    (hv : Valid cfg db (.messagesCreated ignore ms) = true) (hng : ∀ m ∈ ms, db.ghost m.rid = false) :
    Applied (.messagesCreated ignore ms) db (applyMessagesCreated cfg db ignore ms) := by
  simp only [Valid, Bool.and_eq_true, List.all_eq_true] at hv
  obtain ⟨⟨_, hvalid⟩, hroom⟩ := hv
  have hms : ∀ m ∈ ms, m.mboxes.contains cfg.recoveryRID = false ∧ ∀ b ∈ m.mboxes, ignore = true ∨ db.known b = true := by
    intro m hm
    have := hvalid m hm
    simp only [validNew, Bool.and_eq_true, Bool.not_eq_true', List.all_eq_true, Bool.or_eq_true] at this
    exact ⟨this.1.1, this.2⟩
  obtain ⟨acc', hloop, htc, hfm, hc⟩ := mscLoop_inv cfg db hi ignore ms [] { toCreate := [], forMbox := [] } hms
    (tcInv_nil db) (fmInv_nil db) (by intro m hm; cases hm)
  simp only [List.nil_append] at htc hfm hc
  have hokAll : ∀ B ∈ db.mboxes, okToAdd cfg B (toAddOf B (pairsOf acc'.forMbox B.iid)) :=
    fun B hB => okToAdd_of cfg db hi ms acc'.toCreate acc'.forMbox htc hfm B hB (hroom B hB)
  unfold applyMessagesCreated
  rw [hloop]
  simp only
  by_cases hempty : (acc'.toCreate.isEmpty && acc'.forMbox.isEmpty) = true
  · simp only [hempty, if_true]
    refine ⟨rfl, ?_⟩
    simp only [Res.ok, effectOK]
    simp only [Bool.and_eq_true, List.isEmpty_iff] at hempty
    apply created_effect cfg db hi ms acc'.toCreate acc'.forMbox db htc hfm hc hng
    · rw [hempty.1]; simp
    · rfl
    · rfl
    · intro B hB
      rw [hempty.2]
      simp only [pairsOf, List.find?_nil, toAddOf, List.filter_nil, growMany_nil]
      exact mboxByIid_of_mem hi hB
    · exact hokAll
  · have hne : (acc'.toCreate.isEmpty && acc'.forMbox.isEmpty) = false := Bool.eq_false_iff.2 hempty
    simp only [hne, Bool.false_eq_true, if_false]
    have hpre : ∀ e ∈ acc'.forMbox, ∃ B,
        DB.mboxByIid { db with msgs := db.msgs ++ acc'.toCreate, nextMsg := db.nextMsg + acc'.toCreate.length } e.1 = some B ∧
        okToAdd cfg B (toAddOf B e.2) := by
      intro e he
      obtain ⟨B, hB, hBi⟩ := hfm.mbox e.1 (List.mem_map_of_mem he)
      refine ⟨B, ?_, ?_⟩
      · rw [← hBi]
        exact mboxByIid_of_mem hi hB
      · have := hokAll B hB
        rw [hBi, pairsOf_of_mem acc'.forMbox hfm.nodup e he] at this
        exact this
    obtain ⟨db2, evs, hass, hfr, hpt⟩ := assignAll_spec cfg acc'.forMbox _ hfm.nodup hpre
    rw [hass]
    refine ⟨rfl, ?_⟩
    simp only [Res.ok, effectOK]
    apply created_effect cfg db hi ms acc'.toCreate acc'.forMbox db2 htc hfm hc hng
    · exact hfr.msgs
    · exact hfr.delSubs
    · exact hfr.keys
    · intro B hB
      rw [hpt B.iid]
      have : DB.mboxByIid { db with msgs := db.msgs ++ acc'.toCreate, nextMsg := db.nextMsg + acc'.toCreate.length } B.iid
          = some B := mboxByIid_of_mem hi hB
      rw [this]
      rfl
    · exact hokAll

/-- `MessageUpdated`, all three cases -/
theorem eff_MSU (cfg : Cfg) (db : DB) (hi : InvP db) (m : NewMsg) (ac : Bool)
    (hv : Valid cfg db (.messageUpdated m ac) = true) :
    Applied (.messageUpdated m ac) db (applyMessageUpdated cfg db m ac) := by
  simp only [Valid, Bool.and_eq_true, Bool.not_eq_true', List.all_eq_true] at hv
  obtain ⟨⟨⟨hp, hng⟩, hroom⟩, hcase⟩ := hv
  cases hm : db.msgByRid m.rid with
  | none =>
    simp only [hm] at hcase
    subst hcase
    have hvalid : Valid cfg db (.messagesCreated true [m]) = true := by
      simp only [Valid, List.isEmpty_cons, Bool.not_false, List.all_cons, List.all_nil, Bool.and_true, validNew, hp,
        hng, Bool.true_or, Bool.true_and, List.length_singleton, Bool.and_eq_true, List.all_eq_true]
      refine ⟨?_, hroom⟩
      intro b _; trivial
    have hnoghost : ∀ m' ∈ [m], db.ghost m'.rid = false := by
      intro m' hm'
      rw [List.mem_singleton] at hm'
      subst hm'
      simp [DB.ghost, hm]
    have := eff_MSC cfg db hi true [m] hvalid hnoghost
    unfold applyMessageUpdated
    simp only [hm, if_true]
    refine ⟨this.1, ?_⟩
    have h2 := this.2
    simp only [effectOK] at h2 ⊢
    simp only [hm]
    exact h2
  | some g =>
    simp only [hm, Bool.and_eq_true, Bool.not_eq_true'] at hcase
    obtain ⟨⟨hd, hknown⟩, hnd⟩ := hcase
    by_cases hlit : (g.lit == m.lit) = true
    · exact eff_MSU_same cfg db hi m ac g hm hd hlit hknown hnd hroom
    · exact eff_MSU_new cfg db hi m ac g hm (Bool.eq_false_iff.2 hlit) hknown hnd hroom hng

end Gluon.ConnUpd
