/- Invariants of the lock-table transition system (`Model/StoreLock.lean`). -/
import GluonModel.Model.StoreLock

set_option linter.unusedSimpArgs false
set_option linter.unusedVariables false

namespace Gluon.Store.Lock

/-! ### lists: `set`, `getElem?`, `countP` -/

section ListHelpers
variable {α : Type}

theorem get_set_eq (l : List α) (t : Nat) (x : α) (h : t < l.length) : (l.set t x)[t]? = some x := by
  simp [h]

theorem get_set_ne (l : List α) (t t' : Nat) (x : α) (h : t ≠ t') : (l.set t x)[t']? = l[t']? := by
  simp [List.getElem?_set, h]

theorem lt_of_get {l : List α} {t : Nat} {a : α} (h : l[t]? = some a) : t < l.length :=
  (List.getElem?_eq_some_iff.mp h).1

theorem countP_set (f : α → Bool) : ∀ (l : List α) (t : Nat) (x a : α), l[t]? = some a →
    (l.set t x).countP f + (if f a then 1 else 0) = l.countP f + (if f x then 1 else 0)
  | [], t, x, a, h => by simp at h
  | b :: l, 0, x, a, h => by
    simp at h; subst h
    simp [List.countP_cons]; omega
  | b :: l, t+1, x, a, h => by
    have ih := countP_set f l t x a (by simpa using h)
    simp [List.countP_cons] at *; omega

theorem countP_set_same (f : α → Bool) (l : List α) (t : Nat) (x a : α) (h : l[t]? = some a)
    (hf : f x = f a) : (l.set t x).countP f = l.countP f := by
  have := countP_set f l t x a h
  rw [hf] at this; omega

theorem countP_pos_of_get (f : α → Bool) {l : List α} {t : Nat} {a : α} (h : l[t]? = some a)
    (hf : f a = true) : 1 ≤ l.countP f := by
  have : 0 < l.countP f := List.countP_pos_iff.mpr ⟨a, List.mem_iff_getElem?.mpr ⟨t, h⟩, hf⟩
  omega

theorem countP_two_of_get (f : α → Bool) : ∀ {l : List α} {t1 t2 : Nat} {a b : α}, t1 ≠ t2 →
    l[t1]? = some a → l[t2]? = some b → f a = true → f b = true → 2 ≤ l.countP f
  | [], _, _, _, _, _, h, _, _, _ => by simp at h
  | c :: l, 0, 0, _, _, hne, _, _, _, _ => absurd rfl hne
  | c :: l, 0, t2+1, a, b, _, h1, h2, fa, fb => by
    simp at h1; subst h1
    have := countP_pos_of_get f (l := l) (t := t2) (by simpa using h2) fb
    rw [List.countP_cons]; simp only [fa, if_true]; omega
  | c :: l, t1+1, 0, a, b, _, h1, h2, fa, fb => by
    simp at h2; subst h2
    have := countP_pos_of_get f (l := l) (t := t1) (by simpa using h1) fa
    rw [List.countP_cons]; simp only [fb, if_true]; omega
  | c :: l, t1+1, t2+1, a, b, hne, h1, h2, fa, fb => by
    have := countP_two_of_get f (l := l) (t1 := t1) (t2 := t2) (by omega) (by simpa using h1) (by simpa using h2) fa fb
    simp [List.countP_cons]; omega

theorem countP_zero_of_none (f : α → Bool) {l : List α} (h : ∀ (t : Nat) (a : α), l[t]? = some a → f a = false) :
    l.countP f = 0 := by
  apply Nat.eq_zero_of_not_pos
  intro hp
  obtain ⟨a, ha, hf⟩ := List.countP_pos_iff.mp hp
  obtain ⟨t, ht⟩ := List.mem_iff_getElem?.mp ha
  rw [h t a ht] at hf
  exact absurd hf (by simp)

end ListHelpers

/-! ### what a program counter refers to -/

def PC.refs (r : Nat) : PC → Bool
  | .acquired _ r' _ => r' == r
  | .holding _ r' _ => r' == r
  | .unlocked _ r' => r' == r
  | _ => false

def PC.holdsR (r : Nat) : PC → Bool
  | .holding _ r' .read => r' == r
  | _ => false

def PC.holdsW (r : Nat) : PC → Bool
  | .holding _ r' .write => r' == r
  | _ => false

def PC.on : PC → Option (Id × Nat)
  | .acquired id r _ => some (id, r)
  | .holding id r _ => some (id, r)
  | .unlocked id r => some (id, r)
  | _ => none

theorem refs_of_on {pc : PC} {id : Id} {r : Nat} (h : pc.on = some (id, r)) : pc.refs r = true := by
  cases pc <;> simp_all [PC.on, PC.refs]

theorem on_of_refs {pc : PC} {r : Nat} (h : pc.refs r = true) : ∃ id, pc.on = some (id, r) := by
  cases pc <;> simp_all [PC.on, PC.refs]

/-! ### the RWMutex of every lock object is consistent with who is inside — in *every* schedule -/

structure LockInv (s : State) : Prop where
  readers : ∀ r, (s.objs r).readers = s.pcs.countP (PC.holdsR r)
  writerT : ∀ r, (s.objs r).writer = true → s.pcs.countP (PC.holdsW r) = 1 ∧ s.pcs.countP (PC.holdsR r) = 0
  writerF : ∀ r, (s.objs r).writer = false → s.pcs.countP (PC.holdsW r) = 0

theorem lockInv_init (n : Nat) : LockInv (init n) := by
  have hR : ∀ r, (List.replicate n PC.idle).countP (PC.holdsR r) = 0 := by
    intro r; apply countP_zero_of_none
    intro t a h
    have := List.mem_iff_getElem?.mpr ⟨t, h⟩
    rw [List.mem_replicate] at this
    rw [this.2]; rfl
  have hW : ∀ r, (List.replicate n PC.idle).countP (PC.holdsW r) = 0 := by
    intro r; apply countP_zero_of_none
    intro t a h
    have := List.mem_iff_getElem?.mpr ⟨t, h⟩
    rw [List.mem_replicate] at this
    rw [this.2]; rfl
  exact ⟨fun r => by simp [init, hR], fun r h => by simp [init] at h, fun r _ => by simp [init, hW]⟩

/-- a step that moves one goroutine between two non-holding (or identical-holding) positions and
    leaves every mutex alone keeps the lock invariant -/
theorem LockInv.of_same {s s' : State} (h : LockInv s) (t : Nat) (pc pc' : PC)
    (hpc : s.pcs[t]? = some pc) (hpcs : s'.pcs = s.pcs.set t pc')
    (hR : ∀ r, pc'.holdsR r = pc.holdsR r) (hW : ∀ r, pc'.holdsW r = pc.holdsW r)
    (hoR : ∀ x, (s'.objs x).readers = (s.objs x).readers)
    (hoW : ∀ x, (s'.objs x).writer = (s.objs x).writer) : LockInv s' := by
  have cR : ∀ r, s'.pcs.countP (PC.holdsR r) = s.pcs.countP (PC.holdsR r) := fun r => by
    rw [hpcs]; exact countP_set_same _ _ _ _ _ hpc (hR r)
  have cW : ∀ r, s'.pcs.countP (PC.holdsW r) = s.pcs.countP (PC.holdsW r) := fun r => by
    rw [hpcs]; exact countP_set_same _ _ _ _ _ hpc (hW r)
  refine ⟨fun r => ?_, fun r hw => ?_, fun r hw => ?_⟩
  · rw [hoR, cR]; exact h.readers r
  · rw [hoW] at hw; rw [cR, cW]; exact h.writerT r hw
  · rw [hoW] at hw; rw [cW]; exact h.writerF r hw

theorem setCounter_readers (objs : Nat → Obj) (r : Nat) (c : Int) (x : Nat) :
    (setCounter objs r c x).readers = (objs x).readers := by
  unfold setCounter; split <;> rfl

theorem setCounter_writer (objs : Nat → Obj) (r : Nat) (c : Int) (x : Nat) :
    (setCounter objs r c x).writer = (objs x).writer := by
  unfold setCounter; split <;> rfl

theorem setCounter_counter_same (objs : Nat → Obj) (r : Nat) (c : Int) :
    (setCounter objs r c r).counter = c := by
  simp [setCounter]

theorem setCounter_counter_other (objs : Nat → Obj) (r : Nat) (c : Int) (x : Nat) (h : x ≠ r) :
    (setCounter objs r c x).counter = (objs x).counter := by
  simp [setCounter, h]

theorem lockInv_acquire {s s' : State} {t : Nat} {id : Id} {m : Mode} {src : Src} (h : LockInv s)
    (hs : stepAcquire s t id m src = some s') : LockInv s' := by
  unfold stepAcquire at hs
  split at hs
  · next hpc =>
    split at hs
    · simp only [Option.some.injEq] at hs; subst hs
      exact h.of_same t _ _ hpc rfl (fun _ => rfl) (fun _ => rfl)
        (fun x => setCounter_readers _ _ _ x) (fun x => setCounter_writer _ _ _ x)
    · split at hs
      · simp only [Option.some.injEq] at hs; subst hs
        exact h.of_same t _ _ hpc rfl (fun _ => rfl) (fun _ => rfl)
          (fun x => setCounter_readers _ _ _ x) (fun x => setCounter_writer _ _ _ x)
      · split at hs
        · simp only [Option.some.injEq] at hs; subst hs
          exact h.of_same t _ _ hpc rfl (fun _ => rfl) (fun _ => rfl)
            (fun x => setCounter_readers _ _ _ x) (fun x => setCounter_writer _ _ _ x)
        · exact absurd hs (by simp)
  · exact absurd hs (by simp)

theorem lockInv_dec {s s' : State} {t : Nat} (h : LockInv s) (hs : stepDec s t = some s') : LockInv s' := by
  unfold stepDec at hs
  split at hs
  · next id r hpc =>
    simp only [Option.some.injEq] at hs; subst hs
    refine h.of_same t _ _ hpc rfl ?_ ?_ (fun x => setCounter_readers _ _ _ x) (fun x => setCounter_writer _ _ _ x)
    · intro r'; split <;> rfl
    · intro r'; split <;> rfl
  · exact absurd hs (by simp)

theorem lockInv_cleanup {s s' : State} {t : Nat} (h : LockInv s) (hs : stepCleanup s t = some s') : LockInv s' := by
  unfold stepCleanup at hs
  split at hs
  · next id r hpc =>
    split at hs
    · simp only [Option.some.injEq] at hs; subst hs
      exact h.of_same t _ _ hpc rfl (fun _ => rfl) (fun _ => rfl) (fun _ => rfl) (fun _ => rfl)
    · simp only [Option.some.injEq] at hs; subst hs
      exact h.of_same t _ _ hpc rfl (fun _ => rfl) (fun _ => rfl) (fun _ => rfl) (fun _ => rfl)
  · exact absurd hs (by simp)

theorem lockInv_release {s s' : State} {t : Nat} (h : LockInv s) (hs : stepRelease s t = some s') : LockInv s' := by
  unfold stepRelease at hs
  split at hs
  · exact absurd hs (by simp)
  · next s1 hd =>
    have h1 := lockInv_dec h hd
    split at hs
    · exact lockInv_cleanup h1 hs
    · simp only [Option.some.injEq] at hs; subst hs; exact h1

theorem lockInv_lock {s s' : State} {t : Nat} (h : LockInv s) (hs : stepLock s t = some s') : LockInv s' := by
  unfold stepLock at hs
  split at hs
  · -- write lock
    next id r hpc =>
    split at hs
    · next hcond =>
      simp only [Option.some.injEq] at hs; subst hs
      obtain ⟨hr0, hw0⟩ := hcond
      have cW0 := h.writerF r hw0
      have cR0 : s.pcs.countP (PC.holdsR r) = 0 := by rw [← h.readers r]; exact hr0
      have cR : ∀ r', (s.pcs.set t (.holding id r .write)).countP (PC.holdsR r') = s.pcs.countP (PC.holdsR r') :=
        fun r' => countP_set_same _ _ _ _ _ hpc rfl
      have cW : ∀ r', r' ≠ r → (s.pcs.set t (.holding id r .write)).countP (PC.holdsW r') = s.pcs.countP (PC.holdsW r') := by
        intro r' hne
        apply countP_set_same _ _ _ _ _ hpc
        simp [PC.holdsW]; exact fun h' => hne h'.symm
      have cWr : (s.pcs.set t (.holding id r .write)).countP (PC.holdsW r) = 1 := by
        have := countP_set (PC.holdsW r) s.pcs t (.holding id r .write) _ hpc
        simp [PC.holdsW] at this; omega
      refine ⟨fun x => ?_, fun x hw => ?_, fun x hw => ?_⟩
      · simp only; rw [cR]; by_cases hx : x = r
        · subst hx; simp; exact h.readers x
        · simp [hx]; exact h.readers x
      · simp only at hw ⊢; rw [cR]; by_cases hx : x = r
        · subst hx; exact ⟨cWr, cR0⟩
        · simp only [hx, if_false] at hw; rw [cW x hx]; exact h.writerT x hw
      · simp only at hw ⊢; by_cases hx : x = r
        · subst hx; simp at hw
        · simp only [hx, if_false] at hw; rw [cW x hx]; exact h.writerF x hw
    · exact absurd hs (by simp)
  · -- read lock
    next id r hpc =>
    split at hs
    · next hw0 =>
      simp only [Option.some.injEq] at hs; subst hs
      have cW0 := h.writerF r hw0
      have cW : ∀ r', (s.pcs.set t (.holding id r .read)).countP (PC.holdsW r') = s.pcs.countP (PC.holdsW r') :=
        fun r' => countP_set_same _ _ _ _ _ hpc rfl
      have cR : ∀ r', r' ≠ r → (s.pcs.set t (.holding id r .read)).countP (PC.holdsR r') = s.pcs.countP (PC.holdsR r') := by
        intro r' hne
        apply countP_set_same _ _ _ _ _ hpc
        simp [PC.holdsR]; exact fun h' => hne h'.symm
      have cRr : (s.pcs.set t (.holding id r .read)).countP (PC.holdsR r) = s.pcs.countP (PC.holdsR r) + 1 := by
        have := countP_set (PC.holdsR r) s.pcs t (.holding id r .read) _ hpc
        simp [PC.holdsR] at this; omega
      refine ⟨fun x => ?_, fun x hw => ?_, fun x hw => ?_⟩
      · simp only; by_cases hx : x = r
        · subst hx; simp; rw [cRr, h.readers x]
        · simp [hx]; rw [cR x hx]; exact h.readers x
      · simp only at hw ⊢; rw [cW]; by_cases hx : x = r
        · subst hx; simp at hw; rw [hw0] at hw; exact absurd hw (by simp)
        · simp only [hx, if_false] at hw; rw [cR x hx]; exact h.writerT x hw
      · simp only at hw ⊢; rw [cW]; by_cases hx : x = r
        · subst hx; exact cW0
        · simp only [hx, if_false] at hw; exact h.writerF x hw
    · exact absurd hs (by simp)
  · exact absurd hs (by simp)

theorem lockInv_unlock {s s' : State} {t : Nat} (h : LockInv s) (hs : stepUnlock s t = some s') : LockInv s' := by
  unfold stepUnlock at hs
  split at hs
  · -- write unlock
    next id r hpc =>
    simp only [Option.some.injEq] at hs; subst hs
    have hpos := countP_pos_of_get (PC.holdsW r) hpc (by simp [PC.holdsW])
    have hwT : (s.objs r).writer = true := by
      cases hw : (s.objs r).writer with
      | true => rfl
      | false => have := h.writerF r hw; omega
    obtain ⟨cW1, cR0⟩ := h.writerT r hwT
    have cR : ∀ r', (s.pcs.set t (.unlocked id r)).countP (PC.holdsR r') = s.pcs.countP (PC.holdsR r') :=
      fun r' => countP_set_same _ _ _ _ _ hpc rfl
    have cW : ∀ r', r' ≠ r → (s.pcs.set t (.unlocked id r)).countP (PC.holdsW r') = s.pcs.countP (PC.holdsW r') := by
      intro r' hne
      apply countP_set_same _ _ _ _ _ hpc
      simp [PC.holdsW]; exact fun h' => hne h'.symm
    have cWr : (s.pcs.set t (.unlocked id r)).countP (PC.holdsW r) = 0 := by
      have := countP_set (PC.holdsW r) s.pcs t (.unlocked id r) _ hpc
      simp [PC.holdsW] at this; omega
    refine ⟨fun x => ?_, fun x hw => ?_, fun x hw => ?_⟩
    · simp only; rw [cR]; by_cases hx : x = r
      · subst hx; simp; exact h.readers x
      · simp [hx]; exact h.readers x
    · simp only at hw ⊢; rw [cR]; by_cases hx : x = r
      · subst hx; simp at hw
      · simp only [hx, if_false] at hw; rw [cW x hx]; exact h.writerT x hw
    · simp only at hw ⊢; by_cases hx : x = r
      · subst hx; exact cWr
      · simp only [hx, if_false] at hw; rw [cW x hx]; exact h.writerF x hw
  · -- read unlock
    next id r hpc =>
    simp only [Option.some.injEq] at hs; subst hs
    have hpos := countP_pos_of_get (PC.holdsR r) hpc (by simp [PC.holdsR])
    have hwF : (s.objs r).writer = false := by
      cases hw : (s.objs r).writer with
      | false => rfl
      | true => have := (h.writerT r hw).2; omega
    have cW : ∀ r', (s.pcs.set t (.unlocked id r)).countP (PC.holdsW r') = s.pcs.countP (PC.holdsW r') :=
      fun r' => countP_set_same _ _ _ _ _ hpc rfl
    have cR : ∀ r', r' ≠ r → (s.pcs.set t (.unlocked id r)).countP (PC.holdsR r') = s.pcs.countP (PC.holdsR r') := by
      intro r' hne
      apply countP_set_same _ _ _ _ _ hpc
      simp [PC.holdsR]; exact fun h' => hne h'.symm
    have cRr : (s.pcs.set t (.unlocked id r)).countP (PC.holdsR r) + 1 = s.pcs.countP (PC.holdsR r) := by
      have := countP_set (PC.holdsR r) s.pcs t (.unlocked id r) _ hpc
      simp [PC.holdsR] at this; omega
    refine ⟨fun x => ?_, fun x hw => ?_, fun x hw => ?_⟩
    · simp only; by_cases hx : x = r
      · subst hx; simp; rw [h.readers x]; omega
      · simp [hx]; rw [cR x hx]; exact h.readers x
    · simp only at hw ⊢; rw [cW]; by_cases hx : x = r
      · subst hx; simp at hw; rw [hwF] at hw; exact absurd hw (by simp)
      · simp only [hx, if_false] at hw; rw [cR x hx]; exact h.writerT x hw
    · simp only at hw ⊢; rw [cW]; by_cases hx : x = r
      · subst hx; exact h.writerF x hwF
      · simp only [hx, if_false] at hw; exact h.writerF x hw
  · exact absurd hs (by simp)

theorem lockInv_step {s s' : State} (a : Step) (h : LockInv s) (hs : step s a = some s') : LockInv s' := by
  cases a with
  | acquire t id m src => exact lockInv_acquire h hs
  | lock t => exact lockInv_lock h hs
  | unlock t => exact lockInv_unlock h hs
  | dec t => exact lockInv_dec h hs
  | cleanup t => exact lockInv_cleanup h hs
  | release t => exact lockInv_release h hs

theorem lockInv_exec : ∀ (sched : List Step) (s s' : State), LockInv s → exec s sched = some s' → LockInv s'
  | [], s, s', h, he => by simp only [exec, Option.some.injEq] at he; subst he; exact h
  | a :: rest, s, s', h, he => by
    simp only [exec] at he
    split at he
    · exact absurd he (by simp)
    · next s1 hs1 => exact lockInv_exec rest s1 s' (lockInv_step a h hs1) he

/-- from the lock invariant: two goroutines holding the same object are both readers -/
theorem objectExclusive_of_lockInv {s : State} (h : LockInv s) : ObjectExclusive s := by
  intro t1 t2 id1 id2 r m1 m2 hne h1 h2
  have key : ∀ (ta tb : Nat) (ida idb : Id) (mb : Mode), ta ≠ tb →
      s.pcs[ta]? = some (PC.holding ida r .write) → s.pcs[tb]? = some (PC.holding idb r mb) → False := by
    intro ta tb ida idb mb hab ha hb
    have hpos := countP_pos_of_get (PC.holdsW r) ha (by simp [PC.holdsW])
    have hwT : (s.objs r).writer = true := by
      cases hw : (s.objs r).writer with
      | true => rfl
      | false => have := h.writerF r hw; omega
    obtain ⟨cW1, cR0⟩ := h.writerT r hwT
    cases mb with
    | write =>
      have := countP_two_of_get (PC.holdsW r) hab ha hb (by simp [PC.holdsW]) (by simp [PC.holdsW])
      omega
    | read =>
      have := countP_pos_of_get (PC.holdsR r) hb (by simp [PC.holdsR])
      omega
  cases m1 with
  | write => exact absurd (key t1 t2 id1 id2 m2 hne h1 h2) id
  | read =>
    cases m2 with
    | write => exact absurd (key t2 t1 id2 id1 .read (Ne.symm hne) h2 h1) id
    | read => exact ⟨rfl, rfl⟩


/-! ### the table, the counters and the pool — when `releaseSyncRef` is never interrupted -/

structure TableInv (s : State) : Prop where
  noStale : ∀ (t : Nat) (id : Id) (r : Nat), s.pcs[t]? ≠ some (PC.stale id r)
  onTable : ∀ (t : Nat) (pc : PC) (id : Id) (r : Nat), s.pcs[t]? = some pc → pc.on = some (id, r) → s.table id = some r
  counter : ∀ (id : Id) (r : Nat), s.table id = some r → (s.objs r).counter = ((s.pcs.countP (PC.refs r) : Nat) : Int)
  bound : ∀ (id : Id) (r : Nat), s.table id = some r → r < s.next
  notPooled : ∀ (id : Id) (r : Nat), s.table id = some r → r ∉ s.pool
  inj : ∀ (id id' : Id) (r : Nat), s.table id = some r → s.table id' = some r → id = id'
  poolBound : ∀ r ∈ s.pool, r < s.next
  poolNodup : s.pool.Nodup

theorem tableInv_init (n : Nat) : TableInv (init n) := by
  have hmem : ∀ (t : Nat) (a : PC), (List.replicate n PC.idle)[t]? = some a → a = PC.idle := by
    intro t a h
    have := List.mem_iff_getElem?.mpr ⟨t, h⟩
    rw [List.mem_replicate] at this
    exact this.2
  refine ⟨?_, ?_, ?_, ?_, ?_, ?_, ?_, ?_⟩
  · intro t id r h; have := hmem t _ h; cases this
  · intro t pc id r h ho; rw [hmem t _ h] at ho; simp [PC.on] at ho
  · intro id r h; simp [init] at h
  · intro id r h; simp [init] at h
  · intro id r h; simp [init] at h
  · intro id id' r h; simp [init] at h
  · intro r h; simp [init] at h
  · simp [init]

/-- an object that is not in the table is referenced by nobody -/
theorem TableInv.refs_zero {s : State} (h : TableInv s) (r : Nat) (hr : ∀ id, s.table id ≠ some r) :
    s.pcs.countP (PC.refs r) = 0 := by
  apply countP_zero_of_none
  intro t a ha
  cases hf : PC.refs r a with
  | false => rfl
  | true =>
    obtain ⟨id, hon⟩ := on_of_refs hf
    exact absurd (h.onTable t a id r ha hon) (hr id)

theorem TableInv.of_same_on {s s' : State} (h : TableInv s) (t : Nat) (pc pc' : PC)
    (hpc : s.pcs[t]? = some pc) (hpcs : s'.pcs = s.pcs.set t pc')
    (hon : pc'.on = pc.on) (hrefs : ∀ r, pc'.refs r = pc.refs r) (hst : ∀ id r, pc' ≠ PC.stale id r)
    (hc : ∀ x, (s'.objs x).counter = (s.objs x).counter) (ht : s'.table = s.table)
    (hn : s'.next = s.next) (hp : s'.pool = s.pool) : TableInv s' := by
  have hlt := lt_of_get hpc
  have cnt : ∀ r, s'.pcs.countP (PC.refs r) = s.pcs.countP (PC.refs r) := fun r => by
    rw [hpcs]; exact countP_set_same _ _ _ _ _ hpc (hrefs r)
  refine ⟨?_, ?_, ?_, ?_, ?_, ?_, ?_, ?_⟩
  · intro t' id r hq
    rw [hpcs] at hq
    by_cases htt : t = t'
    · subst htt; rw [get_set_eq _ _ _ hlt] at hq
      exact hst id r (Option.some.inj hq)
    · rw [get_set_ne _ _ _ _ htt] at hq; exact h.noStale t' id r hq
  · intro t' q id r hq ho
    rw [ht]; rw [hpcs] at hq
    by_cases htt : t = t'
    · subst htt; rw [get_set_eq _ _ _ hlt] at hq
      have : q = pc' := (Option.some.inj hq).symm
      subst this; rw [hon] at ho
      exact h.onTable t pc id r hpc ho
    · rw [get_set_ne _ _ _ _ htt] at hq; exact h.onTable t' q id r hq ho
  · intro id r htab; rw [ht] at htab; rw [hc, cnt]; exact h.counter id r htab
  · intro id r htab; rw [ht] at htab; rw [hn]; exact h.bound id r htab
  · intro id r htab; rw [ht] at htab; rw [hp]; exact h.notPooled id r htab
  · intro id id' r h1 h2; rw [ht] at h1 h2; exact h.inj id id' r h1 h2
  · intro r hr; rw [hp] at hr; rw [hn]; exact h.poolBound r hr
  · rw [hp]; exact h.poolNodup

theorem tableInv_lock {s s' : State} {t : Nat} (h : TableInv s) (hs : stepLock s t = some s') : TableInv s' := by
  unfold stepLock at hs
  split at hs
  · next id r hpc =>
    split at hs
    · simp only [Option.some.injEq] at hs; subst hs
      refine h.of_same_on t _ _ hpc rfl rfl (fun _ => rfl) (fun _ _ => by simp) ?_ rfl rfl rfl
      intro x; simp only; split <;> rfl
    · exact absurd hs (by simp)
  · next id r hpc =>
    split at hs
    · simp only [Option.some.injEq] at hs; subst hs
      refine h.of_same_on t _ _ hpc rfl rfl (fun _ => rfl) (fun _ _ => by simp) ?_ rfl rfl rfl
      intro x; simp only; split <;> rfl
    · exact absurd hs (by simp)
  · exact absurd hs (by simp)

theorem tableInv_unlock {s s' : State} {t : Nat} (h : TableInv s) (hs : stepUnlock s t = some s') : TableInv s' := by
  unfold stepUnlock at hs
  split at hs
  · next id r hpc =>
    simp only [Option.some.injEq] at hs; subst hs
    refine h.of_same_on t _ _ hpc rfl rfl (fun _ => rfl) (fun _ _ => by simp) ?_ rfl rfl rfl
    intro x; simp only; split <;> rfl
  · next id r hpc =>
    simp only [Option.some.injEq] at hs; subst hs
    refine h.of_same_on t _ _ hpc rfl rfl (fun _ => rfl) (fun _ _ => by simp) ?_ rfl rfl rfl
    intro x; simp only; split <;> rfl
  · exact absurd hs (by simp)

/-- installing object `r` (referenced by nobody, not in the table, below `next'`) for `id` (no entry) -/
theorem TableInv.install {s : State} (h : TableInv s) (t : Nat) (id : Id) (m : Mode) (r : Nat)
    (hpc : s.pcs[t]? = some PC.idle) (htab : s.table id = none) (hr : ∀ id', s.table id' ≠ some r)
    (next' : Nat) (hnext : s.next ≤ next') (hrn : r < next') (pool' : List Nat)
    (hsub : ∀ x ∈ pool', x ∈ s.pool) (hnd : pool'.Nodup) (hrp : r ∉ pool') :
    TableInv { s with objs := setCounter s.objs r 1, next := next',
                      table := fun x => if x = id then some r else s.table x,
                      pool := pool', pcs := s.pcs.set t (PC.acquired id r m) } := by
  have hlt := lt_of_get hpc
  have hz := h.refs_zero r hr
  refine ⟨?_, ?_, ?_, ?_, ?_, ?_, ?_, ?_⟩
  · intro t' id' r' hq
    simp only at hq
    by_cases htt : t = t'
    · subst htt; rw [get_set_eq _ _ _ hlt] at hq; simp at hq
    · rw [get_set_ne _ _ _ _ htt] at hq; exact h.noStale t' id' r' hq
  · intro t' q id' r' hq ho
    simp only at hq ⊢
    by_cases htt : t = t'
    · subst htt; rw [get_set_eq _ _ _ hlt] at hq
      have : q = PC.acquired id r m := (Option.some.inj hq).symm
      subst this; simp only [PC.on, Option.some.injEq, Prod.mk.injEq] at ho
      obtain ⟨h1, h2⟩ := ho; subst h1; subst h2; simp
    · rw [get_set_ne _ _ _ _ htt] at hq
      have hold := h.onTable t' q id' r' hq ho
      have : id' ≠ id := by intro he; subst he; rw [htab] at hold; simp at hold
      simp [this, hold]
  · intro id' r' ht'
    simp only at ht' ⊢
    by_cases hid : id' = id
    · subst hid; simp only [if_true, Option.some.injEq] at ht'; subst ht'
      rw [setCounter_counter_same]
      have := countP_set (PC.refs r) s.pcs t (PC.acquired id' r m) _ hpc
      simp [PC.refs] at this
      omega
    · simp only [hid, if_false] at ht'
      have hne : r' ≠ r := by intro he; subst he; exact hr id' ht'
      rw [setCounter_counter_other _ _ _ _ hne]
      rw [countP_set_same _ _ _ _ _ hpc (by simp [PC.refs]; exact fun h' => hne h'.symm)]
      exact h.counter id' r' ht'
  · intro id' r' ht'
    simp only at ht' ⊢
    by_cases hid : id' = id
    · subst hid; simp only [if_true, Option.some.injEq] at ht'; subst ht'; exact hrn
    · simp only [hid, if_false] at ht'; exact Nat.lt_of_lt_of_le (h.bound id' r' ht') hnext
  · intro id' r' ht'
    simp only at ht' ⊢
    by_cases hid : id' = id
    · subst hid; simp only [if_true, Option.some.injEq] at ht'; subst ht'; exact hrp
    · simp only [hid, if_false] at ht'
      exact fun hm => h.notPooled id' r' ht' (hsub _ hm)
  · intro id1 id2 r' h1 h2
    simp only at h1 h2
    by_cases e1 : id1 = id <;> by_cases e2 : id2 = id
    · rw [e1, e2]
    · simp only [e1, if_true, Option.some.injEq] at h1; simp only [e2, if_false] at h2
      subst h1; exact absurd h2 (hr id2)
    · simp only [e2, if_true, Option.some.injEq] at h2; simp only [e1, if_false] at h1
      subst h2; exact absurd h1 (hr id1)
    · simp only [e1, e2, if_false] at h1 h2; exact h.inj id1 id2 r' h1 h2
  · intro x hx; simp only at hx ⊢
    exact Nat.lt_of_lt_of_le (h.poolBound x (hsub x hx)) hnext
  · exact hnd

theorem tableInv_acquire {s s' : State} {t : Nat} {id : Id} {m : Mode} {src : Src} (h : TableInv s)
    (hs : stepAcquire s t id m src = some s') : TableInv s' := by
  unfold stepAcquire at hs
  split at hs
  · next hpc =>
    have hlt := lt_of_get hpc
    split at hs
    · -- the table has an entry: counter + 1
      next r htab =>
      simp only [Option.some.injEq] at hs; subst hs
      refine ⟨?_, ?_, ?_, h.bound, h.notPooled, h.inj, h.poolBound, h.poolNodup⟩
      · intro t' id' r' hq
        simp only at hq
        by_cases htt : t = t'
        · subst htt; rw [get_set_eq _ _ _ hlt] at hq; simp at hq
        · rw [get_set_ne _ _ _ _ htt] at hq; exact h.noStale t' id' r' hq
      · intro t' q id' r' hq ho
        simp only at hq ⊢
        by_cases htt : t = t'
        · subst htt; rw [get_set_eq _ _ _ hlt] at hq
          have : q = PC.acquired id r m := (Option.some.inj hq).symm
          subst this; simp only [PC.on, Option.some.injEq, Prod.mk.injEq] at ho
          obtain ⟨h1, h2⟩ := ho; subst h1; subst h2; exact htab
        · rw [get_set_ne _ _ _ _ htt] at hq; exact h.onTable t' q id' r' hq ho
      · intro id' r' ht'
        simp only at ht' ⊢
        by_cases hne : r' = r
        · subst hne
          rw [setCounter_counter_same, h.counter id' r' ht']
          have := countP_set (PC.refs r') s.pcs t (PC.acquired id r' m) _ hpc
          simp [PC.refs] at this
          omega
        · rw [setCounter_counter_other _ _ _ _ hne]
          rw [countP_set_same _ _ _ _ _ hpc (by simp [PC.refs]; exact fun h' => hne h'.symm)]
          exact h.counter id' r' ht'
    · next htab =>
      split at hs
      · -- fresh object
        simp only [Option.some.injEq] at hs; subst hs
        exact h.install t id m s.next hpc htab
          (fun id' he => absurd (h.bound id' _ he) (Nat.lt_irrefl _))
          (s.next + 1) (Nat.le_succ _) (Nat.lt_succ_self _) s.pool (fun _ hx => hx) h.poolNodup
          (fun hm => absurd (h.poolBound _ hm) (Nat.lt_irrefl _))
      · next r =>
        split at hs
        · next hmem =>
          simp only [Option.some.injEq] at hs; subst hs
          exact h.install t id m r hpc htab
            (fun id' he => h.notPooled id' r he hmem)
            s.next (Nat.le_refl _) (h.poolBound r hmem) (s.pool.erase r)
            (fun _ hx => List.mem_of_mem_erase hx) (h.poolNodup.erase r)
            (fun hm => by have := (h.poolNodup.mem_erase_iff).mp hm; exact this.1 rfl)
        · exact absurd hs (by simp)
  · exact absurd hs (by simp)

/-- `releaseSyncRef` run without interruption, in one piece -/
theorem stepRelease_eq (s : State) (t : Nat) (id : Id) (r : Nat) (hpc : s.pcs[t]? = some (PC.unlocked id r)) :
    stepRelease s t = some
      (if (s.objs r).counter - 1 ≤ 0 then
        { s with objs := setCounter s.objs r ((s.objs r).counter - 1),
                 table := fun x => if x = id then none else s.table x,
                 pool := r :: s.pool, pcs := s.pcs.set t PC.idle }
       else { s with objs := setCounter s.objs r ((s.objs r).counter - 1), pcs := s.pcs.set t PC.idle }) := by
  have hlt := lt_of_get hpc
  unfold stepRelease stepDec
  simp only [hpc]
  by_cases hc : (s.objs r).counter - 1 ≤ 0
  · simp only [hc, if_true, get_set_eq _ _ _ hlt]
    unfold stepCleanup
    simp only [get_set_eq _ _ _ hlt, setCounter_counter_same, hc, if_true, List.set_set]
  · simp only [hc, if_false, get_set_eq _ _ _ hlt]

theorem stepRelease_none (s : State) (t : Nat) (h : ∀ id r, s.pcs[t]? ≠ some (PC.unlocked id r)) :
    stepRelease s t = none := by
  unfold stepRelease stepDec
  split
  · rfl
  · next s1 hd =>
    split at hd
    · next id r hpc => exact absurd hpc (h id r)
    · exact absurd hd (by simp)

theorem tableInv_release {s s' : State} {t : Nat} (h : TableInv s) (hs : stepRelease s t = some s') : TableInv s' := by
  cases hq : s.pcs[t]? with
  | none => rw [stepRelease_none s t (by intro id r; rw [hq]; simp)] at hs; exact absurd hs (by simp)
  | some pc =>
    cases pc with
    | unlocked id r =>
      have hlt := lt_of_get hq
      rw [stepRelease_eq s t id r hq] at hs
      simp only [Option.some.injEq] at hs
      have htab : s.table id = some r := h.onTable t _ id r hq rfl
      have hcnt := h.counter id r htab
      have hset := countP_set (PC.refs r) s.pcs t PC.idle _ hq
      simp [PC.refs] at hset
      -- after the step the counter of r equals the number of references to r
      have hnew : (s.objs r).counter - 1 = (((s.pcs.set t PC.idle).countP (PC.refs r) : Nat) : Int) := by omega
      have hother : ∀ r', r' ≠ r → (s.pcs.set t PC.idle).countP (PC.refs r') = s.pcs.countP (PC.refs r') := by
        intro r' hne
        exact countP_set_same _ _ _ _ _ hq (by simp [PC.refs]; exact fun h' => hne h'.symm)
      have hnoStale : ∀ (t' : Nat) (id' : Id) (r' : Nat), (s.pcs.set t PC.idle)[t']? ≠ some (PC.stale id' r') := by
        intro t' id' r' hq'
        by_cases htt : t = t'
        · subst htt; rw [get_set_eq _ _ _ hlt] at hq'; simp at hq'
        · rw [get_set_ne _ _ _ _ htt] at hq'; exact h.noStale t' id' r' hq'
      by_cases hc : (s.objs r).counter - 1 ≤ 0
      · -- last reference: delete the entry, pool the object
        simp only [hc, if_true] at hs; subst hs
        have hzero : (s.pcs.set t PC.idle).countP (PC.refs r) = 0 := by omega
        refine ⟨hnoStale, ?_, ?_, ?_, ?_, ?_, ?_, ?_⟩
        · intro t' q id' r' hq' ho
          simp only at hq' ⊢
          by_cases htt : t = t'
          · subst htt; rw [get_set_eq _ _ _ hlt] at hq'
            have : q = PC.idle := (Option.some.inj hq').symm
            subst this; simp [PC.on] at ho
          · have hq2 := hq'
            rw [get_set_ne _ _ _ _ htt] at hq'
            have hold := h.onTable t' q id' r' hq' ho
            have : id' ≠ id := by
              intro he; subst he
              rw [htab] at hold
              have hr : r' = r := (Option.some.inj hold).symm
              subst hr
              have := countP_pos_of_get (PC.refs r') hq2 (refs_of_on ho)
              omega
            simp [this, hold]
        · intro id' r' ht'
          simp only at ht' ⊢
          by_cases hid : id' = id
          · simp [hid] at ht'
          · simp only [hid, if_false] at ht'
            have hne : r' ≠ r := by intro he; subst he; exact hid (h.inj id' id r' ht' htab)
            rw [setCounter_counter_other _ _ _ _ hne, hother r' hne]
            exact h.counter id' r' ht'
        · intro id' r' ht'
          simp only at ht' ⊢
          by_cases hid : id' = id
          · simp [hid] at ht'
          · simp only [hid, if_false] at ht'; exact h.bound id' r' ht'
        · intro id' r' ht'
          simp only at ht' ⊢
          by_cases hid : id' = id
          · simp [hid] at ht'
          · simp only [hid, if_false] at ht'
            have hne : r' ≠ r := by intro he; subst he; exact hid (h.inj id' id r' ht' htab)
            simp only [List.mem_cons, not_or]
            exact ⟨hne, h.notPooled id' r' ht'⟩
        · intro id1 id2 r' h1 h2
          simp only at h1 h2
          by_cases e1 : id1 = id
          · simp [e1] at h1
          · by_cases e2 : id2 = id
            · simp [e2] at h2
            · simp only [e1, e2, if_false] at h1 h2; exact h.inj id1 id2 r' h1 h2
        · intro x hx
          simp only [List.mem_cons] at hx ⊢
          rcases hx with rfl | hx
          · exact h.bound id _ htab
          · exact h.poolBound x hx
        · simp only [List.nodup_cons]
          exact ⟨h.notPooled id r htab, h.poolNodup⟩
      · -- other references remain
        simp only [hc, if_false] at hs; subst hs
        refine ⟨hnoStale, ?_, ?_, h.bound, h.notPooled, h.inj, h.poolBound, h.poolNodup⟩
        · intro t' q id' r' hq' ho
          simp only at hq' ⊢
          by_cases htt : t = t'
          · subst htt; rw [get_set_eq _ _ _ hlt] at hq'
            have : q = PC.idle := (Option.some.inj hq').symm
            subst this; simp [PC.on] at ho
          · rw [get_set_ne _ _ _ _ htt] at hq'; exact h.onTable t' q id' r' hq' ho
        · intro id' r' ht'
          simp only at ht' ⊢
          by_cases hne : r' = r
          · subst hne; rw [setCounter_counter_same]; exact hnew
          · rw [setCounter_counter_other _ _ _ _ hne, hother r' hne]
            exact h.counter id' r' ht'
    | idle => rw [stepRelease_none s t (by intro id r; rw [hq]; simp)] at hs; exact absurd hs (by simp)
    | acquired _ _ _ => rw [stepRelease_none s t (by intro id r; rw [hq]; simp)] at hs; exact absurd hs (by simp)
    | holding _ _ _ => rw [stepRelease_none s t (by intro id r; rw [hq]; simp)] at hs; exact absurd hs (by simp)
    | stale _ _ => rw [stepRelease_none s t (by intro id r; rw [hq]; simp)] at hs; exact absurd hs (by simp)

theorem tableInv_step {s s' : State} (a : Step) (ha : a.atomicRelease = true) (h : TableInv s)
    (hs : step s a = some s') : TableInv s' := by
  cases a with
  | acquire t id m src => exact tableInv_acquire h hs
  | lock t => exact tableInv_lock h hs
  | unlock t => exact tableInv_unlock h hs
  | dec t => simp [Step.atomicRelease] at ha
  | cleanup t => simp [Step.atomicRelease] at ha
  | release t => exact tableInv_release h hs

theorem tableInv_exec : ∀ (sched : List Step) (s s' : State), AtomicRelease sched → TableInv s →
    exec s sched = some s' → TableInv s'
  | [], s, s', _, h, he => by simp only [exec, Option.some.injEq] at he; subst he; exact h
  | a :: rest, s, s', hat, h, he => by
    simp only [exec] at he
    split at he
    · exact absurd he (by simp)
    · next s1 hs1 =>
      exact tableInv_exec rest s1 s' (fun b hb => hat b (List.mem_cons_of_mem _ hb))
        (tableInv_step a (hat a List.mem_cons_self) h hs1) he

theorem oneObjectPerId_of_tableInv {s : State} (h : TableInv s) : OneObjectPerId s := by
  intro t1 t2 id r1 r2 m1 m2 h1 h2
  have a := h.onTable t1 _ id r1 h1 rfl
  have b := h.onTable t2 _ id r2 h2 rfl
  rw [a] at b
  exact Option.some.inj b

end Gluon.Store.Lock
