/-
C16 helper lemmas, part 3: UIDs (`binarySearchByUID`, `getWithUID`, `uidRange`, `resolveUIDInterval`,
`getMessagesInUIDRange`) on a snapshot with strictly ascending UIDs.
-/
import GluonModel.Lemmas.SeqSetSeq

namespace Gluon
namespace SeqSet
open SeqSetSpec

/-- strictly ascending UIDs (`Snap.Inv.asc`) -/
abbrev Asc (s : Snap) : Prop := s.uids.Pairwise (· < ·)

theorem asc_cons {a : SMsg} {s : Snap} (h : Asc (a :: s)) : (∀ m ∈ s, a.uid < m.uid) ∧ Asc s := by
  simp only [Asc, Snap.uids, List.map_cons, List.pairwise_cons, List.mem_map, forall_exists_index, and_imp,
    forall_apply_eq_imp_iff₂] at h
  exact ⟨h.1, h.2⟩

/-! ### the insertion point -/

/-- number of messages with a UID below `t` (`Snap.lowerBound`) -/
abbrev lb (s : Snap) (t : Nat) : Nat := Snap.lowerBound s t

theorem lb_nil (t : Nat) : lb [] t = 0 := rfl

theorem lb_cons (a : SMsg) (s : Snap) (t : Nat) : lb (a :: s) t = if a.uid < t then lb s t + 1 else 0 := by
  simp only [lb, Snap.lowerBound, List.takeWhile_cons]
  by_cases h : a.uid < t <;> simp [h]

theorem lb_le_length (s : Snap) (t : Nat) : lb s t ≤ s.length := by
  simp only [lb, Snap.lowerBound]
  exact (List.takeWhile_sublist _).length_le

theorem lb_mono (s : Snap) {t t' : Nat} (h : t ≤ t') : lb s t ≤ lb s t' := by
  induction s with
  | nil => simp [lb_nil]
  | cons a s ih =>
    rw [lb_cons, lb_cons]
    by_cases h1 : a.uid < t
    · have h2 : a.uid < t' := by omega
      simp only [h1, h2, if_true]; omega
    · simp only [h1, if_false]; omega

theorem lb_zero_of_all_ge (s : Snap) (t : Nat) (h : ∀ m ∈ s, t ≤ m.uid) : lb s t = 0 := by
  cases s with
  | nil => rfl
  | cons a s =>
    rw [lb_cons]
    have : ¬ a.uid < t := by have := h a (by simp); omega
    simp [this]

/-- below the insertion point every UID is smaller than `t` -/
theorem lb_lt (s : Snap) (t k : Nat) (h : k < lb s t) : ∃ m, s[k]? = some m ∧ m.uid < t := by
  induction s generalizing k with
  | nil => simp [lb_nil] at h
  | cons a s ih =>
    rw [lb_cons] at h
    by_cases h1 : a.uid < t
    · simp only [h1, if_true] at h
      cases k with
      | zero => exact ⟨a, by simp, h1⟩
      | succ k =>
        obtain ⟨m, hm, hlt⟩ := ih k (by omega)
        exact ⟨m, by simpa using hm, hlt⟩
    · simp [h1] at h

/-- from the insertion point on every UID is at least `t` (ascending UIDs) -/
theorem lb_ge (s : Snap) (t : Nat) (hasc : Asc s) (k : Nat) (m : SMsg) (h : lb s t ≤ k) (hm : s[k]? = some m) :
    t ≤ m.uid := by
  induction s generalizing k with
  | nil => simp at hm
  | cons a s ih =>
    obtain ⟨hall, hs⟩ := asc_cons hasc
    rw [lb_cons] at h
    by_cases h1 : a.uid < t
    · simp only [h1, if_true] at h
      cases k with
      | zero => omega
      | succ k => exact ih hs k (by omega) (by simpa using hm)
    · have hmem : m ∈ a :: s := List.mem_of_getElem? hm
      simp only [List.mem_cons] at hmem
      rcases hmem with rfl | hmem
      · omega
      · have := hall m hmem; omega

/-! ### the binary search -/

theorem bsLoop_eq (s : Snap) (t : Nat) (hasc : Asc s) :
    ∀ fuel i j, i ≤ lb s t → lb s t ≤ j → j ≤ s.length → j - i ≤ fuel → bsLoop s t fuel i j = lb s t := by
  intro fuel
  induction fuel with
  | zero => intro i j h1 h2 _ h4; simp only [bsLoop]; omega
  | succ f ih =>
    intro i j h1 h2 h3 h4
    unfold bsLoop
    by_cases hij : i < j
    · simp only [hij, if_true]
      have hh : (i + j) / 2 < s.length := by omega
      rw [List.getElem?_eq_getElem hh]
      simp only []
      by_cases hc : ((s[(i + j) / 2]).uid : Int) - (t : Int) < 0
      · rw [if_pos hc]
        have : (i + j) / 2 + 1 ≤ lb s t := by
          apply Classical.byContradiction
          intro hn
          have := lb_ge s t hasc ((i + j) / 2) _ (by omega) (List.getElem?_eq_getElem hh)
          omega
        exact ih _ _ this h2 h3 (by omega)
      · rw [if_neg hc]
        have : lb s t ≤ (i + j) / 2 := by
          apply Classical.byContradiction
          intro hn
          obtain ⟨m, hm, hlt⟩ := lb_lt s t ((i + j) / 2) (by omega)
          rw [List.getElem?_eq_getElem hh] at hm
          cases hm
          omega
        exact ih _ _ h1 this (by omega) (by omega)
    · simp only [hij, if_false]; omega

/-- **the binary search returns the insertion point** (on ascending UIDs) -/
theorem binarySearch_fst (s : Snap) (t : Nat) (hasc : Asc s) : (binarySearchByUID s t).1 = lb s t := by
  unfold binarySearchByUID
  exact bsLoop_eq s t hasc s.length 0 s.length (Nat.zero_le _) (lb_le_length s t) (Nat.le_refl _) (by omega)

/-- "found": the message at the insertion point has exactly this UID -/
def foundAt (s : Snap) (t : Nat) : Bool :=
  match s[lb s t]? with
  | some m => decide (m.uid = t)
  | none => false

theorem binarySearch_snd (s : Snap) (t : Nat) (hasc : Asc s) : (binarySearchByUID s t).2 = foundAt s t := by
  have h := bsLoop_eq s t hasc s.length 0 s.length (Nat.zero_le _) (lb_le_length s t) (Nat.le_refl _) (by omega)
  unfold binarySearchByUID foundAt
  simp only [h]
  cases s[lb s t]? with
  | none => rfl
  | some m =>
    simp only []
    by_cases hm : m.uid = t
    · simp [hm]
    · have : ¬ ((m.uid : Int) - (t : Int) = 0) := by omega
      simp [hm, this]

theorem binarySearch_eq (s : Snap) (t : Nat) (hasc : Asc s) : binarySearchByUID s t = (lb s t, foundAt s t) := by
  rw [← binarySearch_fst s t hasc, ← binarySearch_snd s t hasc]

theorem foundAt_cons_lt (a : SMsg) (s : Snap) (t : Nat) (h : a.uid < t) : foundAt (a :: s) t = foundAt s t := by
  unfold foundAt
  rw [lb_cons]
  simp only [h, if_true, List.getElem?_cons_succ]

theorem foundAt_cons_ge (a : SMsg) (s : Snap) (t : Nat) (h : ¬ a.uid < t) : foundAt (a :: s) t = decide (a.uid = t) := by
  unfold foundAt
  rw [lb_cons]
  simp only [h, if_false, List.getElem?_cons_zero]

/-- the upper end of a UID range: one past a hit, the insertion point otherwise -/
theorem lb_succ (s : Snap) (t : Nat) (hasc : Asc s) :
    lb s (t + 1) = if foundAt s t then lb s t + 1 else lb s t := by
  induction s with
  | nil => simp [lb_nil, foundAt]
  | cons a s ih =>
    obtain ⟨hall, hs⟩ := asc_cons hasc
    have ih := ih hs
    rw [lb_cons a s t, lb_cons a s (t + 1)]
    by_cases h1 : a.uid < t
    · have h2 : a.uid < t + 1 := by omega
      rw [foundAt_cons_lt a s t h1, if_pos h1, if_pos h2, ih]
      by_cases hf : foundAt s t = true
      · rw [if_pos hf, if_pos hf]
      · rw [if_neg hf, if_neg hf]
    · rw [foundAt_cons_ge a s t h1, if_neg h1]
      by_cases h2 : a.uid = t
      · have hz : lb s (t + 1) = 0 := lb_zero_of_all_ge s (t + 1) (fun m hm => by have := hall m hm; omega)
        simp [h2, hz]
      · have h3 : ¬ a.uid < t + 1 := by omega
        simp [h3, h2]

theorem foundAt_lt_length (s : Snap) (t : Nat) (h : foundAt s t = true) : lb s t < s.length := by
  unfold foundAt at h
  cases hs : s[lb s t]? with
  | none => simp [hs] at h
  | some m =>
    have := (List.getElem?_eq_some_iff.mp hs).1
    exact this

/-! ### UID ranges of the spec as slices -/

theorem filter_uid_none (v : View) (n lo hi : Nat) (h : ∀ u ∈ v, hi < u) :
    (entriesFrom n v).filter (fun e => decide (lo ≤ e.2) && decide (e.2 ≤ hi)) = [] := by
  induction v generalizing n with
  | nil => simp [entriesFrom]
  | cons u rest ih =>
    have h1 : ¬ u ≤ hi := by have := h u (by simp); omega
    have := ih (n + 1) (fun u hu => h u (by simp [hu]))
    simp [entriesFrom, h1, this]

/-- on ascending UIDs the messages with a UID in `[lo, hi]` are the slice between the two insertion
    points -/
theorem filter_uid_slice (s : Snap) (hasc : Asc s) (n lo hi : Nat) (hle : lo ≤ hi) :
    (entriesFrom n s.uids).filter (fun e => decide (lo ≤ e.2) && decide (e.2 ≤ hi))
      = entriesFrom (n + lb s lo) ((s.uids.drop (lb s lo)).take (lb s (hi + 1) - lb s lo)) := by
  induction s generalizing n with
  | nil => simp [Snap.uids, entriesFrom]
  | cons a s ih =>
    obtain ⟨hall, hs⟩ := asc_cons hasc
    have ih := ih hs
    have hu : Snap.uids (a :: s) = a.uid :: Snap.uids s := rfl
    rw [hu, lb_cons a s lo, lb_cons a s (hi + 1)]
    by_cases h1 : a.uid < lo
    · have h2 : a.uid < hi + 1 := by omega
      have h3 : ¬ lo ≤ a.uid := by omega
      simp only [h1, h2, if_true, entriesFrom, List.filter_cons, h3, decide_false, Bool.false_and,
        Bool.false_eq_true, if_false, List.drop_succ_cons]
      rw [ih (n + 1)]
      have e1 : n + 1 + lb s lo = n + (lb s lo + 1) := by omega
      have e2 : lb s (hi + 1) + 1 - (lb s lo + 1) = lb s (hi + 1) - lb s lo := by omega
      rw [e1, e2]
    · by_cases h2 : a.uid ≤ hi
      · have h3 : a.uid < hi + 1 := by omega
        have h4 : lo ≤ a.uid := by omega
        have hz : lb s lo = 0 := lb_zero_of_all_ge s lo (fun m hm => by have := hall m hm; omega)
        have ih' := ih (n + 1)
        rw [hz] at ih'
        simp only [h1, h3, if_true, if_false, entriesFrom, List.filter_cons, h4, h2, decide_true, Bool.and_self,
          List.drop_zero, Nat.sub_zero, Nat.add_zero, List.take_succ_cons]
        rw [ih']
        simp
      · have h3 : ¬ a.uid < hi + 1 := by omega
        simp only [h1, h3, if_false, Nat.sub_zero, List.take_zero, entriesFrom]
        have hf := filter_uid_none (a.uid :: Snap.uids s) n lo hi (by
          intro u hu
          simp only [List.mem_cons] at hu
          rcases hu with rfl | hu
          · omega
          · simp only [Snap.uids, List.mem_map] at hu
            obtain ⟨m, hm, rfl⟩ := hu
            have := hall m hm; omega)
        simpa [entriesFrom] using hf

theorem uidBetween_slice (s : Snap) (hasc : Asc s) (lo hi : Nat) (hle : lo ≤ hi) :
    uidBetween s.uids lo hi
      = entriesFrom (lb s lo + 1) ((s.uids.drop (lb s lo)).take (lb s (hi + 1) - lb s lo)) := by
  unfold uidBetween entries
  rw [filter_uid_slice s hasc 1 lo hi hle, Nat.add_comm]

/-! ### one interval -/

theorem uidRange_eq (s : Snap) (hasc : Asc s) (lo hi : Nat) (hle : lo ≤ hi) :
    uidRange s lo hi = .ok (number ((lb s lo : Nat) + 1) ((s.drop (lb s lo)).take (lb s (hi + 1) - lb s lo))) := by
  unfold uidRange
  simp only [binarySearch_eq s _ hasc]
  by_cases h : lb s lo ≥ s.length
  · have : s.drop (lb s lo) = [] := List.drop_eq_nil_of_le h
    simp [h, this, number]
  · simp only [h, if_false]
    have hup := lb_succ s hi hasc
    have hmono := lb_mono s (show lo ≤ hi + 1 by omega)
    have hlen := lb_le_length s (hi + 1)
    -- the index after `if ok { indexHi++ }` is the insertion point of hi+1; clipping does nothing
    have e1 : (if foundAt s hi = true then lb s hi + 1 else lb s hi) = lb s (hi + 1) := hup.symm
    have e2 : (if lb s (hi + 1) ≥ s.length then s.length else lb s (hi + 1)) = lb s (hi + 1) := by
      split <;> omega
    rw [e1, e2, goSlice_ok s (lb s lo) (lb s (hi + 1)) hmono hlen]

theorem uidRange_spec (s : Snap) (hasc : Asc s) (hl : s.length < 4294967296) (lo hi : Nat) (hle : lo ≤ hi) :
    ∃ ms, uidRange s lo hi = .ok ms ∧ ms.map obs = uidBetween s.uids lo hi := by
  refine ⟨_, uidRange_eq s hasc lo hi hle, ?_⟩
  have hlen := lb_le_length s (hi + 1)
  have hlen2 := lb_le_length s lo
  have e : ((lb s lo : Nat) : Int) + 1 = ((lb s lo + 1 : Nat) : Int) := by omega
  rw [e, number_obs _ (lb s lo + 1) (by simp; omega), uidBetween_slice s hasc lo hi hle]
  simp [Snap.uids, List.map_drop, List.map_take]

theorem getWithUID_eq (s : Snap) (hasc : Asc s) (t : Nat) :
    getWithUID s t = .ok (if foundAt s t then (s[lb s t]?).map (fun m => ⟨toU32 ((lb s t : Nat) + 1), m⟩) else none) := by
  unfold getWithUID
  simp only [binarySearch_eq s _ hasc]
  by_cases h : foundAt s t = true
  · have hlt := foundAt_lt_length s t h
    simp [h, goIndex_ok s (lb s t) hlt, List.getElem?_eq_getElem hlt]
  · simp [h]

/-- the single-UID branch of the loop returns the same thing as the range branch would -/
theorem uidOne_single_eq (s : Snap) (hasc : Asc s) (t : Nat) :
    uidOne s ⟨t, t⟩ = .ok (number ((lb s t : Nat) + 1) ((s.drop (lb s t)).take (lb s (t + 1) - lb s t))) := by
  unfold uidOne
  simp only [if_true]
  rw [getWithUID_eq s hasc t, lb_succ s t hasc]
  by_cases h : foundAt s t = true
  · have hlt := foundAt_lt_length s t h
    have e : lb s t + 1 - lb s t = 1 := by omega
    have t1 : (s.drop (lb s t)).take 1 = [s[lb s t]] := by
      rw [List.drop_eq_getElem_cons hlt]; rfl
    simp [h, List.getElem?_eq_getElem hlt, e, t1, number]
  · simp [h, number]

theorem uidOne_eq (s : Snap) (hasc : Asc s) (lo hi : Nat) (hle : lo ≤ hi) :
    uidOne s ⟨lo, hi⟩ = .ok (number ((lb s lo : Nat) + 1) ((s.drop (lb s lo)).take (lb s (hi + 1) - lb s lo))) := by
  by_cases h : lo = hi
  · subst h
    exact uidOne_single_eq s hasc lo
  · unfold uidOne
    have hne : ¬ ((⟨lo, hi⟩ : Interval).b = (⟨lo, hi⟩ : Interval).e) := h
    rw [if_neg hne]
    exact uidRange_eq s hasc lo hi hle

theorem uidOne_spec (s : Snap) (hasc : Asc s) (hl : s.length < 4294967296) (lo hi : Nat) (hle : lo ≤ hi) :
    ∃ ms, uidOne s ⟨lo, hi⟩ = .ok ms ∧ ms.map obs = uidBetween s.uids lo hi := by
  refine ⟨_, uidOne_eq s hasc lo hi hle, ?_⟩
  have hlen := lb_le_length s (hi + 1)
  have hlen2 := lb_le_length s lo
  have e : ((lb s lo : Nat) : Int) + 1 = ((lb s lo + 1 : Nat) : Int) := by omega
  rw [e, number_obs _ (lb s lo + 1) (by simp; omega), uidBetween_slice s hasc lo hi hle]
  simp [Snap.uids, List.map_drop, List.map_take]

end SeqSet
end Gluon
