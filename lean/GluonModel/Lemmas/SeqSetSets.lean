/-
C16 helper lemmas, part 4: whole sets — `getMessagesInSeqRange` / `getMessagesInUIDRange` against
`selectSeq` / `selectUID` for sets whose numbers are in the parser's range.
-/
import GluonModel.Lemmas.SeqSetUid

namespace Gluon
namespace SeqSet
open SeqSetSpec

/-- **what the parser lets through** (`parser_range` in Theorems/C16): `*` (0) or 1 … 2^32-1 -/
def InParserRange (set : List SeqRange) : Prop :=
  ∀ r ∈ set, (0 ≤ r.b ∧ r.b < 4294967296) ∧ (0 ≤ r.e ∧ r.e < 4294967296)

/-! ### message sequence numbers -/

theorem seqSet_spec (s : Snap) (set : List SeqRange) (hl : s.length < 4294967296) (hr : InParserRange set) :
    match selectSeq s.uids (absSet set) with
    | some sel => ∃ ms, collect (seqOne s) (set.map (seqIv s)) = .ok ms ∧ ms.map obs = sel
    | none => collect (seqOne s) (set.map (seqIv s)) = .error .noSuchMessage := by
  induction set with
  | nil => simp [absSet, selectSeq, collect]
  | cons r rest ih =>
    have hr1 := hr r (by simp)
    have ih := ih (fun r' h' => hr r' (by simp [h']))
    have hitem := seqItem_spec s r hl ⟨hr1.1.1, hr1.2.1⟩ ⟨hr1.1.2, hr1.2.2⟩
    simp only [absSet, List.map_cons, selectSeq] at ih ⊢
    cases h1 : selectSeqItem s.uids (absRange r) with
    | none =>
      rw [h1] at hitem
      simp only [Agrees] at hitem
      simp only []
      exact collect_cons_err hitem
    | some l =>
      rw [h1] at hitem
      obtain ⟨ms, hms, hobs⟩ := hitem
      cases h2 : selectSeq s.uids (List.map absRange rest) with
      | none =>
        rw [h2] at ih
        simp only []
        exact collect_cons_err2 hms ih
      | some more =>
        rw [h2] at ih
        obtain ⟨ms2, hms2, hobs2⟩ := ih
        simp only []
        exact ⟨ms ++ ms2, collect_cons_ok hms hms2, by simp [hobs, hobs2]⟩

/-- a number beyond the message count makes the spec reject the set -/
theorem selectSeq_none_of_beyond (v : View) (S : SSet) (it : SItem) (hit : it ∈ S) (n : Nat)
    (hn : SNum.num n ∈ it.nums) (h : v.length < n) : selectSeq v S = none := by
  induction S with
  | nil => simp at hit
  | cons it' rest ih =>
    simp only [List.mem_cons] at hit
    simp only [selectSeq]
    rcases hit with rfl | hit
    · have hv : seqVal v (.num n) = none := by
        have : ¬ (1 ≤ n ∧ n ≤ v.length) := by omega
        simp [seqVal, this]
      have : selectSeqItem v it = none := by
        cases it with
        | one a =>
          simp only [SItem.nums, List.mem_singleton] at hn
          subst hn
          exact selectSeqItem_one_none hv
        | range a b =>
          simp only [SItem.nums, List.mem_cons, List.not_mem_nil, or_false] at hn
          rcases hn with rfl | rfl
          · exact selectSeqItem_range_none_left hv
          · exact selectSeqItem_range_none_right hv
      simp [this]
    · rw [ih hit]
      cases selectSeqItem v it' <;> rfl

/-! ### UIDs -/

theorem le_foldl_max (v : List Nat) (a : Nat) : a ≤ v.foldl max a ∧ ∀ u ∈ v, u ≤ v.foldl max a := by
  induction v generalizing a with
  | nil => simp
  | cons x rest ih =>
    obtain ⟨h1, h2⟩ := ih (max a x)
    simp only [List.foldl_cons, List.mem_cons]
    refine ⟨by omega, ?_⟩
    intro u hu
    rcases hu with rfl | hu
    · omega
    · exact h2 u hu

theorem le_maxUID (v : View) : ∀ u ∈ v, u ≤ maxUID v := (le_foldl_max v 0).2

theorem foldl_max_asc (v : List Nat) (a : Nat) (u : Nat) (h : (u :: v).Pairwise (· < ·)) (ha : a ≤ u) :
    (u :: v).foldl max a = ((u :: v).getLast?).getD 0 := by
  induction v generalizing a u with
  | nil => simp; omega
  | cons w r ih =>
    have hp := List.pairwise_cons.mp h
    have huw : u < w := hp.1 w (by simp)
    have e : max a u = u := by omega
    rw [List.foldl_cons, e, ih u w hp.2 (by omega), List.getLast?_cons_cons]

/-- the UID of the last message (`list.last().UID`); 0 on an empty snapshot -/
def lastUid (s : Snap) : Nat := match s.getLast? with | some m => m.uid | none => 0

theorem maxUID_eq_last (s : Snap) (hasc : Asc s) : maxUID s.uids = lastUid s := by
  unfold maxUID lastUid
  cases s with
  | nil => rfl
  | cons a s =>
    have hu : Snap.uids (a :: s) = a.uid :: Snap.uids s := rfl
    rw [hu, foldl_max_asc (Snap.uids s) 0 a.uid (by rw [← hu]; exact hasc) (Nat.zero_le _), ← hu]
    simp only [Snap.uids, List.getLast?_map]
    cases (a :: s).getLast? <;> rfl

/-- the value `resolveUID` returns on a non-empty snapshot (it cannot fail there) -/
def ru (s : Snap) (x : Int) : Nat := if x = 0 then lastUid s else toU32 x

theorem resolveUID_eq (s : Snap) (hne : s.length ≠ 0) (x : Int) : resolveUID s x = .ok (ru s x) := by
  unfold resolveUID ru
  rw [if_neg hne]
  by_cases h : x = 0
  · rw [if_pos h, if_pos h]
    have hlt : s.length - 1 < s.length := by omega
    have e : (s.length : Int) - 1 = ((s.length - 1 : Nat) : Int) := by omega
    rw [e, goIndex_ok s (s.length - 1) hlt]
    simp only [lastUid, List.getLast?_eq_getElem?, List.getElem?_eq_getElem hlt]
  · rw [if_neg h, if_neg h]

theorem getMessagesInUIDRange_eq (s : Snap) (hne : s.length ≠ 0) (set : List SeqRange) :
    getMessagesInUIDRange s set = collect (uidOne s) (set.map (ivOf (ru s))) := by
  unfold getMessagesInUIDRange resolveUIDInterval
  rw [if_neg hne, resolveAll_ok (resolveUID s) (ivOf (ru s)) set
    (fun r _ => resolveOne_eq _ _ (resolveUID_eq s hne) r)]
  rfl

/-- on ascending UIDs the UID loop never fails, whatever Go ints it is given -/
theorem uid_collect_ok (s : Snap) (hasc : Asc s) (val : Int → Nat) (set : List SeqRange) :
    ∃ ms, collect (uidOne s) (set.map (ivOf val)) = .ok ms := by
  induction set with
  | nil => exact ⟨[], rfl⟩
  | cons r rest ih =>
    obtain ⟨more, hmore⟩ := ih
    have hle := ivOf_le val r
    have h1 := uidOne_eq s hasc (ivOf val r).b (ivOf val r).e hle
    exact ⟨_, collect_cons_ok h1 hmore⟩

theorem uidBetween_above_max (v : View) (x : Nat) (h : maxUID v < x) : uidBetween v x x = [] := by
  unfold uidBetween entries
  have : ∀ n, (entriesFrom n v).filter (fun e => decide (x ≤ e.2) && decide (e.2 ≤ x)) = [] := by
    have hall := le_maxUID v
    generalize maxUID v = M at h hall
    induction v with
    | nil => intro n; simp [entriesFrom]
    | cons u rest ih =>
      intro n
      have h1 : ¬ x ≤ u := by have := hall u (by simp); omega
      have := ih (fun u hu => hall u (by simp [hu])) (n + 1)
      simp [entriesFrom, h1, this]
  exact this 1

theorem ru_nat (s : Snap) (n : Nat) (hn : n < 4294967296) : ru s (n : Int) = if n = 0 then lastUid s else n := by
  unfold ru
  by_cases h : n = 0
  · subst h; simp
  · simp [h, toU32_nat hn]

theorem uidVal_absNum (s : Snap) (hasc : Asc s) (n : Nat) :
    uidVal s.uids (absNum (n : Int)) = if n = 0 then lastUid s else n := by
  rw [absNum_nat]
  by_cases h : n = 0
  · simp [h, uidVal, maxUID_eq_last s hasc]
  · simp [h, uidVal]

/-- one parsed item below 2^32, UID mode: the RFC selection, except that `n:*` with `n` above the
    highest UID selects nothing -/
theorem uidItem_spec (s : Snap) (hasc : Asc s) (hl : s.length < 4294967296) (r : SeqRange)
    (hp : 0 ≤ r.b ∧ 0 ≤ r.e) (h32 : r.b < 4294967296 ∧ r.e < 4294967296) :
    ∃ ms, uidOne s (ivOf (ru s) r) = .ok ms ∧
      ms.map obs = if excludedUIDItem s.uids (absRange r) then [] else selectUIDItem s.uids (absRange r) := by
  obtain ⟨b, e⟩ := r
  obtain ⟨hb, he⟩ := hp
  obtain ⟨hb32, he32⟩ := h32
  simp only at hb he hb32 he32
  obtain ⟨b, rfl⟩ := Int.eq_ofNat_of_zero_le hb
  obtain ⟨e, rfl⟩ := Int.eq_ofNat_of_zero_le he
  have hb' : b < 4294967296 := by omega
  have he' : e < 4294967296 := by omega
  have hM := maxUID_eq_last s hasc
  by_cases hbe : b = e
  · subst hbe
    have ha : absRange ⟨(b : Int), (b : Int)⟩ = .one (absNum (b : Int)) := by simp [absRange]
    have hiv : ivOf (ru s) ⟨(b : Int), (b : Int)⟩ = ⟨ru s b, ru s b⟩ := by simp [ivOf]
    rw [ha, hiv]
    simp only [excludedUIDItem, Bool.false_eq_true, if_false, selectUIDItem, uidVal_absNum s hasc, ← ru_nat s b hb']
    exact uidOne_spec s hasc hl _ _ (Nat.le_refl _)
  · have hbe' : ¬ ((b : Int) = (e : Int)) := by omega
    have ha : absRange ⟨(b : Int), (e : Int)⟩ = .range (absNum (b : Int)) (absNum (e : Int)) := by simp [absRange, hbe']
    rw [ha]
    have hvb := uidVal_absNum s hasc b
    have hve := uidVal_absNum s hasc e
    have hrb := ru_nat s b hb'
    have hre := ru_nat s e he'
    by_cases hb0 : b = 0
    · -- `*:e`
      subst hb0
      have he0 : e ≠ 0 := fun h => hbe (by omega)
      have he0' : ¬ ((e : Int) = 0) := by omega
      have e1 : ((0 : Nat) : Int) = 0 := rfl
      rw [e1] at hvb hrb ⊢
      simp only [if_true] at hvb hrb
      simp only [he0, if_false] at hve hre
      have hiv : ivOf (ru s) ⟨0, (e : Int)⟩ = if e > lastUid s then ⟨e, e⟩ else ⟨e, lastUid s⟩ := by
        have h1 : ¬ ((0 : Int) = (e : Int)) := by omega
        simp only [ivOf, h1, if_false, if_true, hre, hrb, ne_eq, not_true_eq_false]
      have hex : excludedUIDItem s.uids (.range (absNum 0) (absNum (e : Int))) = decide (lastUid s < e) := by
        rw [show absNum 0 = .star from rfl, absNum_nat]
        simp [he0, excludedUIDItem, hM]
      rw [hiv, hex]
      by_cases hgt : e > lastUid s
      · simp only [hgt, if_true, decide_true]
        obtain ⟨ms, h1, h2⟩ := uidOne_spec s hasc hl e e (Nat.le_refl _)
        exact ⟨ms, h1, by rw [h2, uidBetween_above_max _ _ (by rw [hM]; exact hgt)]⟩
      · have hng : ¬ (lastUid s < e) := by omega
        simp only [hgt, if_false, decide_false, Bool.false_eq_true, selectUIDItem, hvb, hve]
        rw [Nat.min_eq_right (by omega), Nat.max_eq_left (by omega)]
        exact uidOne_spec s hasc hl _ _ (by omega)
    · have hb0' : ¬ ((b : Int) = 0) := by omega
      simp only [hb0, if_false] at hvb hrb
      by_cases he0 : e = 0
      · -- `b:*`
        subst he0
        have e1 : ((0 : Nat) : Int) = 0 := rfl
        rw [e1] at hve hre ⊢
        simp only [if_true] at hve hre
        have hiv : ivOf (ru s) ⟨(b : Int), 0⟩ = if b > lastUid s then ⟨b, b⟩ else ⟨b, lastUid s⟩ := by
          have h1 : ¬ ((b : Int) = (0 : Int)) := by omega
          simp only [ivOf, h1, if_false, hre, hrb, ne_eq, not_true_eq_false]
        have hex : excludedUIDItem s.uids (.range (absNum (b : Int)) (absNum 0)) = decide (lastUid s < b) := by
          rw [show absNum 0 = .star from rfl, absNum_nat]
          simp [hb0, excludedUIDItem, hM]
        rw [hiv, hex]
        by_cases hgt : b > lastUid s
        · simp only [hgt, if_true, decide_true]
          obtain ⟨ms, h1, h2⟩ := uidOne_spec s hasc hl b b (Nat.le_refl _)
          exact ⟨ms, h1, by rw [h2, uidBetween_above_max _ _ (by rw [hM]; exact hgt)]⟩
        · have hng : ¬ (lastUid s < b) := by omega
          simp only [hgt, if_false, decide_false, Bool.false_eq_true, selectUIDItem, hvb, hve]
          rw [Nat.min_eq_left (by omega), Nat.max_eq_right (by omega)]
          exact uidOne_spec s hasc hl _ _ (by omega)
      · -- `b:e`, both numbers
        have he0' : ¬ ((e : Int) = 0) := by omega
        simp only [he0, if_false] at hve hre
        have hiv : ivOf (ru s) ⟨(b : Int), (e : Int)⟩ = if b > e then ⟨e, b⟩ else ⟨b, e⟩ := by
          simp only [ivOf, hbe', hb0', he0', if_false, if_true, hre, hrb, ne_eq, not_false_eq_true]
        have hex : excludedUIDItem s.uids (.range (absNum (b : Int)) (absNum (e : Int))) = false := by
          rw [absNum_nat, absNum_nat]
          simp [hb0, he0, excludedUIDItem]
        rw [hiv, hex]
        simp only [Bool.false_eq_true, if_false, selectUIDItem, hvb, hve]
        by_cases hgt : b > e
        · simp only [hgt, if_true]
          rw [Nat.min_eq_right (by omega), Nat.max_eq_left (by omega)]
          exact uidOne_spec s hasc hl _ _ (by omega)
        · simp only [hgt, if_false]
          rw [Nat.min_eq_left (by omega), Nat.max_eq_right (by omega)]
          exact uidOne_spec s hasc hl _ _ (by omega)

theorem flatMap_filter_not {α β : Type} (ex : α → Bool) (f : α → List β) (l : List α) :
    l.flatMap (fun x => if ex x then [] else f x) = (l.filter (fun x => !ex x)).flatMap f := by
  induction l with
  | nil => rfl
  | cons a l ih =>
    by_cases h : ex a = true
    · simp [List.flatMap_cons, h, ih]
    · simp [List.flatMap_cons, h, ih]

theorem uidSet_spec (s : Snap) (hasc : Asc s) (hl : s.length < 4294967296)
    (set : List SeqRange) (hr : InParserRange set) :
    ∃ ms, collect (uidOne s) (set.map (ivOf (ru s))) = .ok ms ∧
      ms.map obs = ((absSet set).filter (fun it => !excludedUIDItem s.uids it)).flatMap (selectUIDItem s.uids) := by
  rw [← flatMap_filter_not]
  induction set with
  | nil => exact ⟨[], rfl, rfl⟩
  | cons r rest ih =>
    have hr1 := hr r (by simp)
    obtain ⟨more, hmore, hobs2⟩ := ih (fun r' h' => hr r' (by simp [h']))
    obtain ⟨ms, hms, hobs⟩ := uidItem_spec s hasc hl r ⟨hr1.1.1, hr1.2.1⟩ ⟨hr1.1.2, hr1.2.2⟩
    refine ⟨ms ++ more, collect_cons_ok hms hmore, ?_⟩
    simp only [absSet, List.map_cons, List.flatMap_cons, List.map_append, hobs]
    simp only [absSet] at hobs2
    rw [hobs2]

end SeqSet
end Gluon
