/-
MessagesCreated, part 1: the accumulator `messageForMBox` seen as a finite map, and what
`assignAll` does to every mailbox.
-/
import GluonModel.Lemmas.ConnEffect3

namespace Gluon.ConnUpd

abbrev FM := List (Nat × List (Nat × RID))

/-- the pairs collected for mailbox `k` -/
def pairsOf (fm : FM) (k : Nat) : List (Nat × RID) :=
  match fm.find? (fun e => e.1 == k) with
  | some e => e.2
  | none => []

def fmKeys (fm : FM) : List Nat := fm.map (·.1)

theorem pairsOf_of_not_key (fm : FM) (k : Nat) (h : k ∉ fmKeys fm) : pairsOf fm k = [] := by
  unfold pairsOf
  have : fm.find? (fun e => e.1 == k) = none := by
    rw [List.find?_eq_none]
    intro e he
    simp only [beq_iff_eq]
    intro hk
    exact h (by rw [← hk]; exact List.mem_map_of_mem he)
  rw [this]

theorem fmKeys_addPair (fm : FM) (mb : Nat) (p : Nat × RID) :
    fmKeys (addPair fm mb p) = if fm.any (fun e => e.1 == mb) then fmKeys fm else fmKeys fm ++ [mb] := by
  unfold addPair fmKeys
  split
  · simp only [List.map_map]
    apply List.map_congr_left
    intro e _
    simp only [Function.comp]
    split
    · split <;> rfl
    · rfl
  · simp

theorem pairsOf_addPair (fm : FM) (mb : Nat) (p : Nat × RID) (k : Nat) :
    pairsOf (addPair fm mb p) k =
      if k = mb then (if (pairsOf fm mb).any (fun q => q.1 == p.1) then pairsOf fm mb else pairsOf fm mb ++ [p])
      else pairsOf fm k := by
  unfold addPair
  by_cases hany : fm.any (fun e => e.1 == mb) = true
  · simp only [hany, if_true]
    have hmap : (fm.map (fun e => if e.1 == mb then (if e.2.any (fun q => q.1 == p.1) then e else (e.1, e.2 ++ [p])) else e)).find?
        (fun e => e.1 == k) = (fm.find? (fun e => e.1 == k)).map
          (fun e => if e.1 == mb then (if e.2.any (fun q => q.1 == p.1) then e else (e.1, e.2 ++ [p])) else e) := by
      apply find?_map_pres
      intro e
      split
      · split <;> rfl
      · rfl
    unfold pairsOf
    rw [hmap]
    by_cases hk : k = mb
    · subst hk
      simp only [if_true]
      cases hf : fm.find? (fun e => e.1 == k) with
      | none =>
        exfalso
        rw [List.find?_eq_none] at hf
        rw [List.any_eq_true] at hany
        obtain ⟨e, he, hek⟩ := hany
        exact hf e he hek
      | some e =>
        have hek : (e.1 == k) = true := (find?_key_mem _ _ _ hf).2
        simp only [Option.map_some, hek, if_true]
        split <;> rfl
    · simp only [hk, if_false]
      cases hf : fm.find? (fun e => e.1 == k) with
      | none => rfl
      | some e =>
        have hek : e.1 = k := by simpa using (find?_key_mem _ _ _ hf).2
        have : ¬ e.1 = mb := by rw [hek]; exact hk
        simp [this]
  · have hany' : fm.any (fun e => e.1 == mb) = false := by
      cases h : fm.any (fun e => e.1 == mb) with
      | false => rfl
      | true => exact absurd h hany
    simp only [hany', Bool.false_eq_true, if_false]
    have hnone : fm.find? (fun e => e.1 == mb) = none := by
      rw [List.find?_eq_none]
      intro e he
      have := (List.any_eq_false.1 hany') e he
      exact this
    unfold pairsOf
    rw [List.find?_append]
    by_cases hk : k = mb
    · subst hk
      simp [hnone]
    · have : (mb == k) = false := by simpa using (fun e => hk e.symm)
      simp only [hk, if_false]
      cases hf : fm.find? (fun e => e.1 == k) with
      | none => simp [this]
      | some e => simp

/-- the mailbox after the pairs `l` were inserted -/
def growMany (B : Mbox) (l : List (Nat × RID)) : Mbox :=
  { B with seq := B.seq + l.length, rows := B.rows ++ mkRows (B.seq + 1) l }

theorem growMany_nil (B : Mbox) : growMany B [] = B := by simp [growMany, mkRows]

def toAddOf (B : Mbox) (pairs : List (Nat × RID)) : List (Nat × RID) := pairs.filter (fun p => !B.has p.1)

/-- `addMessages` will accept `l` for mailbox `B` -/
def okToAdd (cfg : Cfg) (B : Mbox) (l : List (Nat × RID)) : Prop :=
  B.rows.length + l.length ≤ cfg.maxMessages ∧ B.seq + 1 + l.length ≤ cfg.maxUID ∧ hasDupMsg l = false ∧
  l.all (fun p => B.rows.all (fun r => r.msg != p.1 && r.rid != p.2)) = true

theorem addMessages_many (cfg : Cfg) (db : DB) (mb : Nat) (l : List (Nat × RID)) (B : Mbox)
    (hB : db.mboxByIid mb = some B) (hok : okToAdd cfg B l) :
    ∃ db' ev, addMessages cfg db mb l = .ok (db', ev) ∧ MboxFrame db db' ∧
      (∀ j, j ≠ mb → db'.mboxByIid j = db.mboxByIid j) ∧ db'.mboxByIid mb = some (growMany B l) := by
  obtain ⟨h1, h2, h3, h4⟩ := hok
  have h1' : ¬ (B.rows.length + l.length > cfg.maxMessages) := by omega
  have h2' : ¬ (B.seq + 1 + l.length > cfg.maxUID) := by omega
  have h34 : (hasDupMsg l || l.any (fun p => B.rows.any (fun r => r.msg == p.1 || r.rid == p.2))) = false := by
    rw [h3, Bool.false_or, List.any_eq_false]
    intro p hp
    rw [List.all_eq_true] at h4
    have := h4 p hp
    rw [List.all_eq_true] at this
    rw [Bool.not_eq_true, List.any_eq_false]
    intro r hr
    have := this r hr
    simp only [Bool.and_eq_true, bne_iff_ne, ne_eq] at this
    simp [this.1, this.2]
  have hf : ∀ m : Mbox, ({ m with seq := m.seq + l.length, rows := m.rows ++ mkRows (B.seq + 1) l } : Mbox).iid = m.iid :=
    fun _ => rfl
  have hadd : addMessages cfg db mb l =
      .ok (db.updMbox mb (fun m => { m with seq := m.seq + l.length, rows := m.rows ++ mkRows (B.seq + 1) l }),
           Ev.exists mb ((mkRows (B.seq + 1) l).map (fun r => (r.msg, r.uid, flagsOf db r.msg)))) := by
    unfold addMessages
    simp only [hB, h1', h2', h34, if_false, Bool.false_eq_true]
  refine ⟨_, _, hadd, MboxFrame.updMbox db mb _ hf (fun _ => rfl), ?_, ?_⟩
  · intro j hj
    exact mboxByIid_updMbox_ne db mb _ hf j hj
  · rw [mboxByIid_updMbox_eq db mb _ hf, hB]
    rfl

theorem assignAll_spec (cfg : Cfg) : ∀ (fm : FM) (db : DB), (fmKeys fm).Nodup →
    (∀ e ∈ fm, ∃ B, db.mboxByIid e.1 = some B ∧ okToAdd cfg B (toAddOf B e.2)) →
    ∃ db' evs, assignAll cfg db fm = .ok (db', evs) ∧ MboxFrame db db' ∧
      ∀ j, db'.mboxByIid j = (db.mboxByIid j).map (fun B => growMany B (toAddOf B (pairsOf fm B.iid))) := by
  intro fm
  induction fm with
  | nil =>
    intro db _ _
    refine ⟨db, [], rfl, MboxFrame.refl db, ?_⟩
    intro j
    cases h : db.mboxByIid j with
    | none => rfl
    | some B => simp [pairsOf, toAddOf, growMany_nil]
  | cons e rest ih =>
    intro db hnd hpre
    obtain ⟨k, pairs⟩ := e
    simp only [fmKeys, List.map_cons, List.nodup_cons] at hnd
    obtain ⟨B, hB, hok⟩ := hpre (k, pairs) (List.mem_cons_self)
    have hBk : B.iid = k := (mboxByIid_some hB).2
    simp only at hB hok
    -- pairsOf for the head and the tail
    have hp_head : pairsOf ((k, pairs) :: rest) k = pairs := by simp [pairsOf]
    have hp_tail : ∀ j, j ≠ k → pairsOf ((k, pairs) :: rest) j = pairsOf rest j := by
      intro j hj
      have : (k == j) = false := by simpa using (fun e => hj e.symm)
      simp [pairsOf, this]
    have hp_rest_k : pairsOf rest k = [] := pairsOf_of_not_key rest k hnd.1
    by_cases hempty : (toAddOf B pairs).isEmpty = true
    · -- nothing to add to this mailbox
      have hpre' : ∀ e ∈ rest, ∃ B', db.mboxByIid e.1 = some B' ∧ okToAdd cfg B' (toAddOf B' e.2) :=
        fun e he => hpre e (List.mem_cons_of_mem _ he)
      obtain ⟨db', evs, hass, hfr, hpt⟩ := ih db hnd.2 hpre'
      refine ⟨db', evs, ?_, hfr, ?_⟩
      · simp only [assignAll, hB]
        have : (pairs.filter (fun p => !B.has p.1)).isEmpty = true := hempty
        simp only [this, if_true]
        exact hass
      · intro j
        rw [hpt j]
        cases hj : db.mboxByIid j with
        | none => rfl
        | some B' =>
          have hB'j : B'.iid = j := (mboxByIid_some hj).2
          simp only [Option.map_some, Option.some.injEq]
          by_cases hjk : j = k
          · have : B' = B := by rw [hjk] at hj; rw [hj] at hB; exact Option.some.inj hB
            subst this
            rw [hB'j, hjk, hp_head, hp_rest_k]
            have : toAddOf B' pairs = [] := List.isEmpty_iff.1 hempty
            rw [this]
            simp [toAddOf]
          · rw [hB'j, hp_tail j hjk]
    · have hne : (pairs.filter (fun p => !B.has p.1)).isEmpty = false := by
        cases h : (pairs.filter (fun p => !B.has p.1)).isEmpty with
        | false => rfl
        | true => exact absurd h hempty
      obtain ⟨db1, ev1, hadd, hfr1, hother, hself⟩ := addMessages_many cfg db k (toAddOf B pairs) B hB hok
      have hpre' : ∀ e ∈ rest, ∃ B', db1.mboxByIid e.1 = some B' ∧ okToAdd cfg B' (toAddOf B' e.2) := by
        intro e he
        have hek : e.1 ≠ k := by
          intro h; apply hnd.1; rw [← h]; exact List.mem_map_of_mem he
        rw [hother e.1 hek]
        exact hpre e (List.mem_cons_of_mem _ he)
      obtain ⟨db', evs, hass, hfr, hpt⟩ := ih db1 hnd.2 hpre'
      refine ⟨db', ev1 :: evs, ?_, hfr1.trans hfr, ?_⟩
      · simp only [assignAll, hB]
        simp only [hne, Bool.false_eq_true, if_false]
        have hadd' : addMessages cfg db k (pairs.filter (fun p => !B.has p.1)) = .ok (db1, ev1) := hadd
        simp only [hadd', hass]
      · intro j
        rw [hpt j]
        by_cases hjk : j = k
        · rw [hjk, hself, hB]
          simp only [Option.map_some, Option.some.injEq]
          have : (growMany B (toAddOf B pairs)).iid = k := hBk
          rw [this, hp_rest_k, hBk, hp_head]
          simp [toAddOf, growMany_nil]
        · rw [hother j hjk]
          cases hj : db.mboxByIid j with
          | none => rfl
          | some B' =>
            have hB'j : B'.iid = j := (mboxByIid_some hj).2
            simp only [Option.map_some, Option.some.injEq]
            rw [hB'j, hp_tail j hjk]

end Gluon.ConnUpd
