/-
Facts about the byte classification of the scanner, proved by evaluating all 256 byte values.
-/
import GluonModel.Lemmas.ParseCore

namespace Gluon.Parse

/-- `tokTy` as a function of the byte's numeric value -/
def tokNat (n : Nat) : TokTy := (scanNat? n).getD .error

theorem tokTy_eq_tokNat (b : UInt8) : tokTy b = tokNat b.toNat := rfl

theorem byte_eq_of_toNat {b : UInt8} {n : Nat} (hn : n < 256) (h : b.toNat = n) : b = n.toUInt8 := by
  apply UInt8.toNat_inj.mp
  simp [Nat.toUInt8, h]
  omega

set_option maxRecDepth 100000 in
theorem scanNat_total : ∀ n, n < 256 → (scanNat? n).isSome = true := by decide +kernel

/-- every byte value is classified: the `fmt.Errorf("unexpected character")` return of `ScanToken` is
unreachable -/
theorem scanByte_total (b : UInt8) : (scanByte? b).isSome = true := scanNat_total _ b.toNat_lt

set_option maxRecDepth 100000 in
theorem tokNat_dquote : ∀ n, n < 256 → (tokNat n = .dquote ↔ n = 34) := by decide +kernel
set_option maxRecDepth 100000 in
theorem tokNat_backslash : ∀ n, n < 256 → (tokNat n = .backslash ↔ n = 92) := by decide +kernel
set_option maxRecDepth 100000 in
theorem tokNat_digit : ∀ n, n < 256 → (tokNat n = .digit ↔ (48 ≤ n ∧ n ≤ 57)) := by decide +kernel
set_option maxRecDepth 100000 in
theorem tokNat_char : ∀ n, n < 256 →
    (tokNat n = .char ↔ ((65 ≤ n ∧ n ≤ 90) ∨ (97 ≤ n ∧ n ≤ 122))) := by decide +kernel
set_option maxRecDepth 100000 in
theorem tokNat_ne_eof : ∀ n, n < 256 → tokNat n ≠ .eof := by decide +kernel

set_option maxRecDepth 100000 in
theorem tokNat_cr : ∀ n, n < 256 → (tokNat n = .cr ↔ n = 13) := by decide +kernel
set_option maxRecDepth 100000 in
theorem tokNat_lf : ∀ n, n < 256 → (tokNat n = .lf ↔ n = 10) := by decide +kernel

theorem tokTy_cr (b : UInt8) : tokTy b = .cr ↔ b = 13 := by
  rw [tokTy_eq_tokNat, tokNat_cr _ b.toNat_lt]
  constructor
  · intro h; exact byte_eq_of_toNat (by decide) h
  · intro h; subst h; rfl

theorem tokTy_lf (b : UInt8) : tokTy b = .lf ↔ b = 10 := by
  rw [tokTy_eq_tokNat, tokNat_lf _ b.toNat_lt]
  constructor
  · intro h; exact byte_eq_of_toNat (by decide) h
  · intro h; subst h; rfl

theorem tokTy_dquote (b : UInt8) : tokTy b = .dquote ↔ b = 34 := by
  rw [tokTy_eq_tokNat, tokNat_dquote _ b.toNat_lt]
  constructor
  · intro h; exact byte_eq_of_toNat (by decide) h
  · intro h; subst h; rfl

theorem tokTy_backslash (b : UInt8) : tokTy b = .backslash ↔ b = 92 := by
  rw [tokTy_eq_tokNat, tokNat_backslash _ b.toNat_lt]
  constructor
  · intro h; exact byte_eq_of_toNat (by decide) h
  · intro h; subst h; rfl

theorem tokTy_digit (b : UInt8) : tokTy b = .digit ↔ (48 ≤ b.toNat ∧ b.toNat ≤ 57) := by
  rw [tokTy_eq_tokNat, tokNat_digit _ b.toNat_lt]

theorem tokTy_char (b : UInt8) :
    tokTy b = .char ↔ ((65 ≤ b.toNat ∧ b.toNat ≤ 90) ∨ (97 ≤ b.toNat ∧ b.toNat ≤ 122)) := by
  rw [tokTy_eq_tokNat, tokNat_char _ b.toNat_lt]

theorem tokTy_ne_eof (b : UInt8) : tokTy b ≠ .eof := tokNat_ne_eof _ b.toNat_lt

/-- a byte is a quoted-string character for the parser unless it is `"`, `\`, CR or LF -/
theorem isQuotedChar_tokTy (b : UInt8) :
    isQuotedChar (tokTy b) = true ↔ (b ≠ 34 ∧ b ≠ 92 ∧ b ≠ 13 ∧ b ≠ 10) := by
  unfold isQuotedChar isQuotedSpecial
  have h1 := tokTy_dquote b
  have h2 := tokTy_backslash b
  have h3 := tokTy_cr b
  have h4 := tokTy_lf b
  have h5 := tokTy_ne_eof b
  simp [← h1, ← h2, ← h3, ← h4, h5, and_assoc]

end Gluon.Parse
