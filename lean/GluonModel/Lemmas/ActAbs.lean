/-
C03 helper lemmas, part 2: the abstraction map `abs` from the model state (index + message store)
to the reference state of Spec/MailboxRef.lean, the invariant it needs, and how the table-level
changes of the index (remove rows, append rows with fresh UIDs, set `deleted`, clear `recent`)
look through `abs`.
-/
import GluonModel.Lemmas.ActFlags
import GluonModel.Lemmas.DBOps
import GluonModel.Model.ActionsAbs

namespace Gluon.C03
open Gluon.DB

/-! ### the part of the index `abs` looks at -/

@[simp] theorem proj_table? (db : DB) (mb : MailboxId) : (proj db).table? mb = db.table? mb := rfl

theorem Proj.table?_setTable (P : Proj) (mb : MailboxId) (t' : MTable) : (P.setTable mb t').table? mb = some t' := by
  simp [Proj.setTable]

theorem Proj.table?_setTable_ne (P : Proj) (mb mb' : MailboxId) (t' : MTable) (h : mb' ≠ mb) :
    (P.setTable mb t').table? mb' = P.table? mb' := by
  simp [Proj.setTable, h]

/-- writing back what is there changes nothing -/
theorem Proj.setTable_same (P : Proj) (mb : MailboxId) (t : MTable) (h : P.table? mb = some t) : P.setTable mb t = P := by
  cases P with
  | mk a tb c d =>
    simp only [Proj.setTable, Proj.mk.injEq, true_and, and_true]
    funext k
    by_cases hk : k = mb
    · subst hk; simpa using h.symm
    · simp [hk]

theorem Proj.setTable_setTable (P : Proj) (mb : MailboxId) (t t' : MTable) : (P.setTable mb t).setTable mb t' = P.setTable mb t' := by
  simp only [Proj.setTable, Proj.mk.injEq, true_and, and_true]
  funext k
  by_cases hk : k = mb <;> simp [hk]

theorem DB.table?_setTable_ne (db : DB) (mb mb' : MailboxId) (t' : MTable) (h : mb' ≠ mb) :
    (db.setTable mb t').table? mb' = db.table? mb' := by
  unfold DB.table? DB.setTable
  simp only
  generalize db.mtables = l
  induction l with
  | nil => rfl
  | cons p rest ih =>
    obtain ⟨k, v⟩ := p
    simp only [List.map_cons, List.lookup_cons]
    by_cases hk : k = mb
    · subst hk
      have hne : (mb' == k) = false := by simpa using h
      simp only [BEq.rfl, ↓reduceIte, List.lookup_cons, hne]
      exact ih
    · have hk' : (k == mb) = false := by simpa using hk
      simp only [hk', Bool.false_eq_true, ↓reduceIte, List.lookup_cons]
      rw [ih]

/-- `DB.setTable` on a table that exists is the function update -/
theorem proj_setTable (db : DB) (mb : MailboxId) (t t' : MTable) (h : db.table? mb = some t) :
    proj (db.setTable mb t') = (proj db).setTable mb t' := by
  simp only [proj, Proj.setTable, Proj.mk.injEq, true_and]
  refine ⟨rfl, ?_, rfl, rfl⟩
  funext k
  by_cases hk : k = mb
  · subst hk; simp [table?_setTable db k t t' h]
  · simp [hk, DB.table?_setTable_ne db mb k t' hk]

/-! ### abs -/

/-! ### the invariant -/

/-- rows in insertion order have strictly ascending UIDs, none above `sqlite_sequence` -/
def SortedT (t : MTable) : Prop := t.rows.Pairwise (fun a b => a.uid < b.uid) ∧ ∀ r ∈ t.rows, r.uid ≤ t.seq

structure PInv (P : Proj) : Prop where
  names : (P.mailboxes.map (·.name)).Nodup
  ids : (P.mailboxes.map (·.id)).Nodup
  sorted : ∀ mb t, P.table? mb = some t → SortedT t

/-- **The invariant of the index the refinement needs**: mailbox names and mailbox ids are keys
    (UNIQUE / PRIMARY KEY of mailboxes_v2) and every message table lists its rows with strictly
    ascending UIDs ≤ its AUTOINCREMENT counter.  `DB.empty` has it, every modelled command keeps it. -/
def Inv (s : Act.State) : Prop := PInv (proj s.db)

theorem PInv.setTable {P : Proj} (h : PInv P) (mb : MailboxId) (t' : MTable) (ht' : SortedT t') : PInv (P.setTable mb t') := by
  refine ⟨h.names, h.ids, ?_⟩
  intro mb' t1 h1
  by_cases hm : mb' = mb
  · subst hm
    rw [Proj.table?_setTable] at h1
    cases h1; exact ht'
  · rw [Proj.table?_setTable_ne P mb mb' t' hm] at h1
    exact h.sorted mb' t1 h1

/-! ### sorted tables -/

theorem sortByUid_of_sorted : ∀ (l : List MMRow), l.Pairwise (fun a b => a.uid < b.uid) → sortByUid l = l := by
  intro l
  induction l with
  | nil => intro _; rfl
  | cons x r ih =>
    intro h
    rw [List.pairwise_cons] at h
    have : sortByUid (x :: r) = insertByUid x (sortByUid r) := rfl
    rw [this, ih h.2]
    cases r with
    | nil => rfl
    | cons y r' =>
      have := h.1 y List.mem_cons_self
      simp [insertByUid]; omega

def rmRows (ids : List MessageId) (t : MTable) : MTable :=
  { t with rows := t.rows.filter fun r => !ids.contains r.msgId }

theorem SortedT.rm {t : MTable} (h : SortedT t) (ids : List MessageId) : SortedT (rmRows ids t) :=
  ⟨List.Pairwise.filter _ h.1, fun r hr => h.2 r (List.mem_filter.mp hr).1⟩

theorem absTable_rm (t : MTable) (h : SortedT t) (ids : List MessageId) :
    absTable (rmRows ids t) = (absTable t).remove ids := by
  unfold absTable MailboxRef.Mailbox.remove
  rw [sortByUid_of_sorted _ (h.rm ids).1, sortByUid_of_sorted _ h.1]
  simp only [rmRows, List.filter_map]
  rfl

/-- the rows `INSERT INTO mailbox_message_<id>` appends: fresh UIDs in list order, `\Recent`, not `\Deleted` -/
def newRows : Nat → List (MessageId × RemoteId) → List MMRow
  | _, [] => []
  | seq, (m, r) :: rest => { uid := seq + 1, deleted := false, recent := true, msgId := m, remoteId := r } :: newRows (seq + 1) rest

def addRows (pairs : List (MessageId × RemoteId)) (t : MTable) : MTable :=
  { rows := t.rows ++ newRows t.seq pairs, seq := t.seq + pairs.length }

theorem appendRows_ok : ∀ (pairs : List (MessageId × RemoteId)) (t t' : MTable), appendRows t pairs = .ok t' → t' = addRows pairs t := by
  intro pairs
  induction pairs with
  | nil => intro t t' h; simp [appendRows] at h; subst h; simp [addRows, newRows]
  | cons p rest ih =>
    intro t t' h
    obtain ⟨m, r⟩ := p
    unfold appendRows at h
    split at h
    · simp at h
    · have := ih _ _ h
      subst this
      simp [addRows, newRows]; omega

theorem newRows_uid : ∀ (pairs : List (MessageId × RemoteId)) (seq : Nat) (r : MMRow), r ∈ newRows seq pairs →
    seq < r.uid ∧ r.uid ≤ seq + pairs.length := by
  intro pairs
  induction pairs with
  | nil => intro seq r h; simp [newRows] at h
  | cons p rest ih =>
    intro seq r h
    obtain ⟨m, x⟩ := p
    simp only [newRows, List.mem_cons] at h
    rcases h with rfl | h
    · simp
    · have := ih _ _ h; simp only [List.length_cons]; omega

theorem newRows_sorted : ∀ (pairs : List (MessageId × RemoteId)) (seq : Nat),
    (newRows seq pairs).Pairwise (fun a b => a.uid < b.uid) := by
  intro pairs
  induction pairs with
  | nil => intro _; simp [newRows]
  | cons p rest ih =>
    intro seq
    obtain ⟨m, x⟩ := p
    simp only [newRows, List.pairwise_cons]
    refine ⟨fun r hr => ?_, ih _⟩
    have := newRows_uid _ _ _ hr
    omega

theorem SortedT.add {t : MTable} (h : SortedT t) (pairs : List (MessageId × RemoteId)) : SortedT (addRows pairs t) := by
  refine ⟨?_, ?_⟩
  · simp only [addRows]
    rw [List.pairwise_append]
    refine ⟨h.1, newRows_sorted _ _, ?_⟩
    intro a ha b hb
    have := h.2 a ha
    have := newRows_uid _ _ _ hb
    omega
  · intro r hr
    simp only [addRows, List.mem_append] at hr ⊢
    rcases hr with hr | hr
    · have := h.2 r hr; omega
    · exact (newRows_uid _ _ _ hr).2

theorem newRows_abs : ∀ (pairs : List (MessageId × RemoteId)) (seq : Nat),
    (newRows seq pairs).map absEntry = MailboxRef.freshEntries (seq + 1) (pairs.map (·.1)) := by
  intro pairs
  induction pairs with
  | nil => intro _; rfl
  | cons p rest ih =>
    intro seq
    obtain ⟨m, x⟩ := p
    simp only [newRows, List.map_cons, MailboxRef.freshEntries, ih]
    rfl

/-- remove the old instances, then append under fresh UIDs = the reference's `Mailbox.add` -/
theorem absTable_add (t : MTable) (h : SortedT t) (pairs : List (MessageId × RemoteId)) :
    absTable (addRows pairs (rmRows (pairs.map (·.1)) t)) = (absTable t).add (pairs.map (·.1)) := by
  have h1 := (h.rm (pairs.map (·.1))).add pairs
  unfold absTable MailboxRef.Mailbox.add
  rw [sortByUid_of_sorted _ h1.1]
  have h2 := absTable_rm t h (pairs.map (·.1))
  unfold absTable at h2
  rw [sortByUid_of_sorted _ (h.rm _).1] at h2
  simp only [addRows, List.map_append, newRows_abs, List.length_map]
  rw [MailboxRef.Mailbox.mk.injEq] at h2
  rw [h2.1]
  have hs : (rmRows (pairs.map (·.1)) t).seq = t.seq := rfl
  rw [hs]
  congr 1
  omega

def setDelRows (ids : List MessageId) (d : Bool) (t : MTable) : MTable :=
  { t with rows := t.rows.map fun r => if ids.contains r.msgId then { r with deleted := d } else r }

theorem pairwise_map_uid (l : List MMRow) (f : MMRow → MMRow) (hf : ∀ r, (f r).uid = r.uid)
    (h : l.Pairwise (fun a b => a.uid < b.uid)) : (l.map f).Pairwise (fun a b => a.uid < b.uid) := by
  rw [List.pairwise_map]
  exact h.imp (by intro a b hab; rw [hf, hf]; exact hab)

theorem SortedT.mapRows {t : MTable} (h : SortedT t) (f : MMRow → MMRow) (hf : ∀ r, (f r).uid = r.uid) :
    SortedT { t with rows := t.rows.map f } := by
  refine ⟨pairwise_map_uid _ f hf h.1, ?_⟩
  intro r hr
  obtain ⟨r0, hr0, rfl⟩ := List.mem_map.mp hr
  rw [hf]; exact h.2 r0 hr0

theorem SortedT.setDel {t : MTable} (h : SortedT t) (ids : List MessageId) (d : Bool) : SortedT (setDelRows ids d t) :=
  h.mapRows _ (by intro r; split <;> rfl)

theorem absTable_mapRows (t : MTable) (h : SortedT t) (f : MMRow → MMRow) (hf : ∀ r, (f r).uid = r.uid)
    (g : MailboxRef.Entry → MailboxRef.Entry) (hg : ∀ r, absEntry (f r) = g (absEntry r)) :
    absTable { t with rows := t.rows.map f } = { absTable t with entries := (absTable t).entries.map g } := by
  unfold absTable
  rw [sortByUid_of_sorted _ (h.mapRows f hf).1, sortByUid_of_sorted _ h.1]
  simp only [List.map_map]
  congr 1
  apply List.map_congr_left
  intro r _
  exact hg r

def setDelEntry (ids : List MessageId) (d : Bool) (e : MailboxRef.Entry) : MailboxRef.Entry :=
  if ids.contains e.msg then { e with deleted := d } else e

theorem absTable_setDel (t : MTable) (h : SortedT t) (ids : List MessageId) (d : Bool) :
    absTable (setDelRows ids d t) = { absTable t with entries := (absTable t).entries.map (setDelEntry ids d) } := by
  apply absTable_mapRows t h
  · intro r; split <;> rfl
  · intro r
    simp only [absEntry, setDelEntry]
    by_cases hc : r.msgId ∈ ids <;> simp [hc]

/-! ### a table change seen through `abs`: the mailbox of that name changes -/

theorem nodup_map_inj {α β : Type} (f : α → β) : ∀ (l : List α), (l.map f).Nodup → ∀ x ∈ l, ∀ y ∈ l, f x = f y → x = y := by
  intro l
  induction l with
  | nil => intro _ x hx; simp at hx
  | cons a r ih =>
    intro h x hx y hy hxy
    rw [List.map_cons, List.nodup_cons] at h
    rcases List.mem_cons.mp hx with hxa | hx' <;> rcases List.mem_cons.mp hy with hya | hy'
    · rw [hxa, hya]
    · exfalso; apply h.1; rw [← hxa, hxy]; exact List.mem_map_of_mem hy'
    · exfalso; apply h.1; rw [← hya, ← hxy]; exact List.mem_map_of_mem hx'
    · exact ih h.2 x hx' y hy' hxy

theorem getMailboxByName_ok {db : DB} {name : String} {row : MboxRow} (h : getMailboxByName db name = .ok row) :
    row ∈ db.mailboxes ∧ row.name = name := by
  unfold getMailboxByName at h
  split at h
  · next m hm =>
    cases h
    exact ⟨List.mem_of_find?_eq_some hm, by simpa using List.find?_some hm⟩
  · simp at h

/-- Replacing the table of mailbox `row` changes, through `abs`, exactly the mailbox called `row.name`. -/
theorem mailboxes_setTable (P : Proj) (hP : PInv P) (row : MboxRow) (hrow : row ∈ P.mailboxes) (t t' : MTable)
    (ht : P.table? row.id = some t) (f : MailboxRef.Mailbox → MailboxRef.Mailbox) (hf : absTable t' = f (absTable t)) :
    (P.setTable row.id t').mailboxes.map (absMailbox (P.setTable row.id t')) =
      (P.mailboxes.map (absMailbox P)).map fun p => if p.1 == row.name then (p.1, f p.2) else p := by
  have hmb : (P.setTable row.id t').mailboxes = P.mailboxes := rfl
  rw [hmb, List.map_map]
  apply List.map_congr_left
  intro m hm
  simp only [Function.comp, absMailbox]
  by_cases hid : m.id = row.id
  · have hmr : m = row := nodup_map_inj (·.id) _ hP.ids m hm row hrow hid
    subst hmr
    rw [Proj.table?_setTable P m.id t', ht]
    simp [hf]
  · have hname : m.name ≠ row.name := fun e => hid (congrArg (·.id) (nodup_map_inj (·.name) _ hP.names m hm row hrow e))
    rw [Proj.table?_setTable_ne P row.id m.id t' hid]
    simp [hname]

end Gluon.C03
