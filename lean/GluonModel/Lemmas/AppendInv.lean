/-
Helper lemmas for C20, part 4: the invariant that ties the recovery mailbox, the message store and
the recovered-message hash map together, and its preservation by the recovery insert.
-/
import GluonModel.Lemmas.AppendRec

namespace Gluon.Append

/-- the two maps of `MessageHashesMap` describe one injective partial function with keys below `b` -/
structure MapInv (m : List (Nat × Nat)) (hs : List Nat) (b : Nat) : Prop where
  keys : ∀ i h, m.lookup i = some h → i < b
  range1 : ∀ h ∈ hs, ∃ i, m.lookup i = some h
  range2 : ∀ i h, m.lookup i = some h → h ∈ hs
  inj : ∀ i j h, m.lookup i = some h → m.lookup j = some h → i = j

theorem MapInv.mono {m hs b b'} (h : MapInv m hs b) (hb : b ≤ b') : MapInv m hs b' :=
  ⟨fun i x hx => Nat.lt_of_lt_of_le (h.keys i x hx) hb, h.range1, h.range2, h.inj⟩

theorem MapInv.insert {m hs b} (h : MapInv m hs b) (id h0 : Nat) (hid : m.lookup id = none) (hb : id < b)
    (h0n : h0 ∉ hs) : MapInv ((id, h0) :: m) (h0 :: hs) b := by
  refine ⟨fun i x hx => ?_, fun x hx => ?_, fun i x hx => ?_, fun i j x hi hj => ?_⟩
  · rw [lookup_cons'] at hx
    by_cases e : i = id
    · subst e; exact hb
    · simp [e] at hx; exact h.keys i x hx
  · rcases List.mem_cons.mp hx with e | e
    · exact ⟨id, by rw [e, lookup_cons_self]⟩
    · obtain ⟨i, hi⟩ := h.range1 x e
      refine ⟨i, ?_⟩
      have : i ≠ id := by intro e'; subst e'; rw [hid] at hi; simp at hi
      rw [lookup_cons_ne _ _ this]; exact hi
  · rw [lookup_cons'] at hx
    by_cases e : i = id
    · simp [e] at hx; subst hx; exact List.mem_cons_self
    · simp [e] at hx; exact List.mem_cons_of_mem _ (h.range2 i x hx)
  · rw [lookup_cons'] at hi hj
    by_cases ei : i = id <;> by_cases ej : j = id
    · rw [ei, ej]
    · simp [ei] at hi; simp [ej] at hj; subst hi; exact absurd (h.range2 j _ hj) h0n
    · simp [ei] at hi; simp [ej] at hj; subst hj; exact absurd (h.range2 i _ hi) h0n
    · simp [ei] at hi; simp [ej] at hj; exact h.inj i j x hi hj

/-- erasing keys, in the relational form `hmErase_lookup` / `hmErase_hashes` give -/
theorem MapInv.erase {m hs b m' hs'} (h : MapInv m hs b) (ids : List Nat)
    (hl : ∀ i, m'.lookup i = if i ∈ ids then none else m.lookup i)
    (hh : ∀ x, x ∈ hs' ↔ x ∈ hs ∧ ∀ i ∈ ids, m.lookup i ≠ some x) : MapInv m' hs' b := by
  refine ⟨fun i x hx => ?_, fun x hx => ?_, fun i x hx => ?_, fun i j x hi hj => ?_⟩
  · rw [hl] at hx; by_cases e : i ∈ ids
    · simp [e] at hx
    · simp [e] at hx; exact h.keys i x hx
  · obtain ⟨h1, h2⟩ := (hh x).mp hx
    obtain ⟨i, hi⟩ := h.range1 x h1
    refine ⟨i, ?_⟩
    rw [hl]
    by_cases e : i ∈ ids
    · exact absurd hi (h2 i e)
    · simp [e, hi]
  · rw [hl] at hx
    by_cases e : i ∈ ids
    · simp [e] at hx
    · simp [e] at hx
      refine (hh x).mpr ⟨h.range2 i x hx, fun j hj hjx => ?_⟩
      have := h.inj i j x hx hjx
      subst this; exact e hj
  · rw [hl] at hi hj
    by_cases ei : i ∈ ids
    · simp [ei] at hi
    · by_cases ej : j ∈ ids
      · simp [ej] at hj
      · simp [ei] at hi; simp [ej] at hj; exact h.inj i j x hi hj

/-- the invariant of the recovery machinery -/
structure RecInv (H : Nat → Nat) (s : St) : Prop where
  map : MapInv s.idToHash s.hashes s.nextId
  fresh : ∀ p ∈ recMsgs s, p.2 < s.nextId
  stored : ∀ p ∈ recMsgs s, ∃ l, s.store.lookup p.2 = some l
  /-- unless a transaction rolled back after inserting a hash: every hash belongs to a stored recovered message -/
  hashed : s.staleHash = false → ∀ i h, s.idToHash.lookup i = some h →
    ∃ u l, (u, i) ∈ recMsgs s ∧ s.store.lookup i = some l ∧ l.hashOk = true ∧ H l.hv = h
  /-- unless a transaction rolled back after erasing a hash: every hashable recovered message has its hash recorded -/
  covered : s.lostHash = false → ∀ p ∈ recMsgs s, ∀ l, s.store.lookup p.2 = some l → l.hashOk = true →
    s.idToHash.lookup p.2 = some (H l.hv)
  nodup : ((recMsgs s).map (·.2)).Nodup

/-- what `RecInv.frame` needs of a frame (the mailbox names are not among it) -/
structure CoreFrame (s s' : St) : Prop where
  recm : recMsgs s' = recMsgs s
  i2h : s'.idToHash = s.idToHash
  hs : s'.hashes = s.hashes
  stale : s'.staleHash = s.staleHash
  lost : s'.lostHash = s.lostHash
  nid : s.nextId ≤ s'.nextId
  store : ∀ i, i < s.nextId → s'.store.lookup i = s.store.lookup i

theorem RecInv.core {H : Nat → Nat} {s s' : St} (f : CoreFrame s s') (h : RecInv H s) : RecInv H s' := by
  have hst : ∀ p ∈ recMsgs s, s'.store.lookup p.2 = s.store.lookup p.2 := fun p hp => f.store _ (h.fresh p hp)
  refine ⟨?_, ?_, ?_, ?_, ?_, ?_⟩
  · rw [f.i2h, f.hs]; exact h.map.mono f.nid
  · rw [f.recm]; exact fun p hp => Nat.lt_of_lt_of_le (h.fresh p hp) f.nid
  · rw [f.recm]; intro p hp; rw [hst p hp]; exact h.stored p hp
  · rw [f.stale, f.i2h, f.recm]
    intro hs i x hx
    obtain ⟨u, l, h1, h2, h3⟩ := h.hashed hs i x hx
    exact ⟨u, l, h1, by rw [hst _ h1]; exact h2, h3⟩
  · rw [f.lost, f.i2h, f.recm]
    intro hs p hp l hl
    rw [hst p hp] at hl
    exact h.covered hs p hp l hl
  · rw [f.recm]; exact h.nodup

theorem RecInv.frame {H : Nat → Nat} {s s' : St} (f : Frame s.nextId s s') (h : RecInv H s) : RecInv H s' :=
  RecInv.core ⟨f.recm, f.i2h, f.hs, f.stale, f.lost, f.nid, f.store⟩ h

theorem RecInv.ins {H : Nat → Nat} {s s' : St} {l : Lit} {r : Except Err Bool} (st : RecIns H l s s' r)
    (h : RecInv H s) : RecInv H s' := by
  have hnone : s.idToHash.lookup s.nextId = none := by
    cases hx : s.idToHash.lookup s.nextId with
    | none => rfl
    | some x => exact absurd (h.map.keys _ _ hx) (Nat.lt_irrefl _)
  have hst : ∀ p ∈ recMsgs s, s'.store.lookup p.2 = s.store.lookup p.2 := fun p hp => st.store _ (h.fresh p hp)
  rcases st.cases with ⟨c1, c2, c3, c4, -⟩ | ⟨-, ⟨u, c2⟩, c3, c4, c5⟩ | ⟨-, c1, c2, c3, c4, c5, c6⟩
  · exact RecInv.frame ⟨c3, c1, c2, c4, st.lost, by rw [st.nid]; exact Nat.le_succ _, st.store, st.nms⟩ h
  · -- stored
    have hmem : ∀ p, p ∈ recMsgs s' ↔ p ∈ recMsgs s ∨ p = (u, s.nextId) := by intro p; rw [c2]; simp
    have hmap : MapInv s'.idToHash s'.hashes s'.nextId := by
      rw [st.nid]
      rcases c5 with ⟨_, b, c, d⟩ | ⟨_, c, d⟩
      · rw [c, d]; exact (h.map.mono (Nat.le_succ _)).insert _ _ hnone (Nat.lt_succ_self _) b
      · rw [c, d]; exact h.map.mono (Nat.le_succ _)
    have hlk : ∀ i, i ≠ s.nextId → s'.idToHash.lookup i = s.idToHash.lookup i := by
      intro i hi
      rcases c5 with ⟨_, _, c, _⟩ | ⟨_, c, _⟩
      · rw [c, lookup_cons_ne _ _ hi]
      · rw [c]
    refine ⟨hmap, ?_, ?_, ?_, ?_, ?_⟩
    · intro p hp
      rw [st.nid]
      rcases (hmem p).mp hp with hp | hp
      · exact Nat.lt_succ_of_lt (h.fresh p hp)
      · subst hp; exact Nat.lt_succ_self _
    · intro p hp
      rcases (hmem p).mp hp with hp | hp
      · rw [hst p hp]; exact h.stored p hp
      · subst hp; exact ⟨l, c3⟩
    · rw [c4]
      intro hs i x hx
      by_cases e : i = s.nextId
      · subst e
        rcases c5 with ⟨a, _, c, _⟩ | ⟨_, c, _⟩
        · rw [c, lookup_cons_self] at hx
          simp at hx
          exact ⟨u, l, (hmem _).mpr (Or.inr rfl), c3, a, hx⟩
        · rw [c, hnone] at hx; simp at hx
      · rw [hlk i e] at hx
        obtain ⟨u', l', h1, h2, h3⟩ := h.hashed hs i x hx
        exact ⟨u', l', (hmem _).mpr (Or.inl h1), by rw [hst _ h1]; exact h2, h3⟩
    · rw [st.lost]
      intro hs p hp l' hl' hok
      rcases (hmem p).mp hp with hp | hp
      · have hne : p.2 ≠ s.nextId := Nat.ne_of_lt (h.fresh p hp)
        rw [hlk _ hne]
        rw [hst p hp] at hl'
        exact h.covered hs p hp l' hl' hok
      · subst hp
        simp only at hl' ⊢
        rw [c3] at hl'
        simp at hl'
        subst hl'
        rcases c5 with ⟨_, _, c, _⟩ | ⟨a, _, _⟩
        · rw [c, lookup_cons_self]
        · rw [a] at hok; simp at hok
    · rw [c2]
      simp only [List.map_append, List.map_cons, List.map_nil]
      refine List.nodup_append.mpr ⟨h.nodup, by simp, ?_⟩
      intro a ha b hb
      simp at hb
      subst hb
      obtain ⟨p, hp, rfl⟩ := List.mem_map.mp ha
      exact Nat.ne_of_lt (h.fresh p hp)
  · -- hash inserted, write failed
    have hlk : ∀ i, i ≠ s.nextId → s'.idToHash.lookup i = s.idToHash.lookup i := fun i hi => by
      rw [c3, lookup_cons_ne _ _ hi]
    refine ⟨?_, ?_, ?_, ?_, ?_, ?_⟩
    · rw [st.nid, c3, c4]; exact (h.map.mono (Nat.le_succ _)).insert _ _ hnone (Nat.lt_succ_self _) c2
    · rw [c5, st.nid]; exact fun p hp => Nat.lt_succ_of_lt (h.fresh p hp)
    · rw [c5]; intro p hp; rw [hst p hp]; exact h.stored p hp
    · rw [c6]; intro hs; simp at hs
    · rw [st.lost, c5]
      intro hs p hp l' hl' hok
      have hne : p.2 ≠ s.nextId := Nat.ne_of_lt (h.fresh p hp)
      rw [hlk _ hne]
      rw [hst p hp] at hl'
      exact h.covered hs p hp l' hl' hok
    · rw [c5]; exact h.nodup

/-! ### erasing -/

theorem RecInv.erase_ok {H : Nat → Nat} {s s' : St} (ids : List Nat) (h : RecInv H s)
    (hl : ∀ i, s'.idToHash.lookup i = if i ∈ ids then none else s.idToHash.lookup i)
    (hh : ∀ x, x ∈ s'.hashes ↔ x ∈ s.hashes ∧ ∀ i ∈ ids, s.idToHash.lookup i ≠ some x)
    (hrec : recMsgs s' = (recMsgs s).filter (fun p => !ids.contains p.2))
    (hst : ∀ i, i < s.nextId → s'.store.lookup i = s.store.lookup i) (hn : s.nextId ≤ s'.nextId)
    (hstale : s'.staleHash = s.staleHash) (hlost : s'.lostHash = s.lostHash) : RecInv H s' := by
  have hmem : ∀ p, p ∈ recMsgs s' ↔ p ∈ recMsgs s ∧ p.2 ∉ ids := by intro p; rw [hrec]; simp
  refine ⟨(h.map.erase ids hl hh).mono hn, ?_, ?_, ?_, ?_, ?_⟩
  · intro p hp; exact Nat.lt_of_lt_of_le (h.fresh p ((hmem p).mp hp).1) hn
  · intro p hp
    have := ((hmem p).mp hp).1
    rw [hst _ (h.fresh p this)]; exact h.stored p this
  · rw [hstale]
    intro hs i x hx
    rw [hl] at hx
    by_cases e : i ∈ ids
    · simp [e] at hx
    · simp [e] at hx
      obtain ⟨u, l, h1, h2, h3⟩ := h.hashed hs i x hx
      exact ⟨u, l, (hmem _).mpr ⟨h1, e⟩, by rw [hst _ (h.fresh _ h1)]; exact h2, h3⟩
  · rw [hlost]
    intro hs p hp l hl' hok
    obtain ⟨h1, h2⟩ := (hmem p).mp hp
    rw [hst _ (h.fresh p h1)] at hl'
    rw [hl]; simp [h2]
    exact h.covered hs p h1 l hl' hok
  · rw [hrec]
    exact h.nodup.sublist (List.Sublist.map _ List.filter_sublist)

theorem RecInv.erase_fail {H : Nat → Nat} {s s' : St} (ids : List Nat) (h : RecInv H s)
    (hl : ∀ i, s'.idToHash.lookup i = if i ∈ ids then none else s.idToHash.lookup i)
    (hh : ∀ x, x ∈ s'.hashes ↔ x ∈ s.hashes ∧ ∀ i ∈ ids, s.idToHash.lookup i ≠ some x)
    (hrec : recMsgs s' = recMsgs s)
    (hst : ∀ i, i < s.nextId → s'.store.lookup i = s.store.lookup i) (hn : s.nextId ≤ s'.nextId)
    (hstale : s'.staleHash = s.staleHash) (hlost : s'.lostHash = true) : RecInv H s' := by
  refine ⟨(h.map.erase ids hl hh).mono hn, ?_, ?_, ?_, ?_, ?_⟩
  · rw [hrec]; intro p hp; exact Nat.lt_of_lt_of_le (h.fresh p hp) hn
  · rw [hrec]; intro p hp
    rw [hst _ (h.fresh p hp)]; exact h.stored p hp
  · rw [hstale, hrec]
    intro hs i x hx
    rw [hl] at hx
    by_cases e : i ∈ ids
    · simp [e] at hx
    · simp [e] at hx
      obtain ⟨u, l, h1, h2, h3⟩ := h.hashed hs i x hx
      exact ⟨u, l, h1, by rw [hst _ (h.fresh _ h1)]; exact h2, h3⟩
  · rw [hlost]; intro hs; simp at hs
  · rw [hrec]; exact h.nodup

theorem recMsgs_remove (s : St) (ids : List Nat) (s' : St)
    (h : s'.db.boxes = updBoxes s.db.boxes recName (fun b => b.remove ids)) :
    recMsgs s' = (recMsgs s).filter (fun p => !ids.contains p.2) := by
  simp only [recMsgs, getBox, h]
  rw [getBox_updBoxes_self _ _ _ (fun b => remove_name b ids)]
  cases List.find? (fun x => x.name == recName) s.db.boxes with
  | none => simp
  | some b => simp [Mbox.remove]

end Gluon.Append
