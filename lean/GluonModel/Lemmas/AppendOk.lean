/-
Helper lemmas for C20, part 8: an APPEND answered OK put a message under the announced UID.
-/
import GluonModel.Lemmas.AppendStep

namespace Gluon.Append

theorem withTx_ok {α} {s s' : St} {f : St → R α} {a : α} (h : withTx s f = (.ok a, s')) :
    f { s with txIns := false, txErase := false } = (.ok a, s') := by
  unfold withTx txFinish at h
  split at h
  · next a' s1 he => simp at h; rw [he]; simp [h]
  · simp at h

theorem dbAddMessages_ok {s s' : St} {n : String} {ids uids : List Nat} (h : dbAddMessages s n ids = (.ok uids, s')) :
    ∃ b b', getBox s.db n = some b ∧ getBox s'.db n = some b' ∧ uids.length = ids.length ∧
      b'.msgs = b.msgs ++ uids.zip ids ∧ s'.store = s.store := by
  unfold dbAddMessages at h
  split at h
  · simp at h
  · next b hb =>
    split at h
    · simp at h
    · split at h
      · simp at h
      · simp at h
        obtain ⟨h1, h2⟩ := h
        subst h1 h2
        refine ⟨b, (b.add ids).1, hb, ?_, (add_msgs b ids).2, (add_msgs b ids).1, rfl⟩
        simp only
        rw [getBox_updBox_self _ _ _ (fun b => add_name b ids), hb]
        rfl

theorem removeUnchecked_store (s : St) (n : String) (ids : List Nat) : (removeUnchecked s n ids).2.store = s.store := by
  unfold removeUnchecked
  split
  · split
    · next e s1 h => unfold remoteRemove at h; simp at h; rw [← h.2]
    · next s1 h => unfold remoteRemove at h; simp at h; rw [← h.2]
  · simp [(hmErase_fields s ids).2.1]

theorem actionAdd_ok {s s' : St} {n : String} {ids uids : List Nat} (h : actionAdd s n ids = (.ok uids, s')) :
    ∃ b', getBox s'.db n = some b' ∧ uids.length = ids.length ∧ (∀ p ∈ uids.zip ids, p ∈ b'.msgs) ∧ s'.store = s.store := by
  unfold actionAdd at h
  split at h
  · simp at h
  · next b hb =>
    simp only at h
    split at h
    · simp at h
    · next s1 h1 =>
      have hs1 : s1.store = s.store := by
        split at h1
        · simp at h1; rw [h1]
        · have := removeUnchecked_store s n (ids.filter (boxHas b)); rw [h1] at this; exact this
      split at h
      · simp at h
      · next s2 h2 =>
        have hs2 : s2.store = s1.store := by
          unfold remoteAdd at h2; simp at h2; rw [← h2.2]
        obtain ⟨b0, b', _, h4, h5, h6, h7⟩ := dbAddMessages_ok h
        exact ⟨b', h4, h5, fun p hp => by rw [h6]; exact List.mem_append_right _ hp, by rw [h7, hs2, hs1]⟩

theorem actionAdd_one_ok {s s' : St} {n : String} {id : Nat} {uids : List Nat} (h : actionAdd s n [id] = (.ok uids, s')) :
    ∃ b', getBox s'.db n = some b' ∧ (uids.headD 0, id) ∈ b'.msgs ∧ s'.store = s.store := by
  obtain ⟨b', h1, h2, h3, h4⟩ := actionAdd_ok h
  refine ⟨b', h1, ?_, h4⟩
  match uids, h2 with
  | [u], _ => exact h3 (u, id) (by simp)

/-- how a message got under the announced UID: freshly stored (`some l'` = the literal written), or an existing message -/
theorem actionCreateMessage_ok {s s' : St} {n : String} {l : Lit} {d : Bool} {uid : Nat}
    (h : actionCreateMessage s n l d = (.ok uid, s')) :
    ∃ b' id, getBox s'.db n = some b' ∧ (uid, id) ∈ b'.msgs := by
  unfold actionCreateMessage at h
  split at h
  · simp at h
  · next rid id l' s1 h1 =>
    split at h
    · next known _ =>
      split at h
      · simp at h
      · split at h
        · simp at h
        · next uids s2 h2 =>
          simp at h
          obtain ⟨h3, h4⟩ := h
          subst h3 h4
          obtain ⟨b', ha, hb, _⟩ := actionAdd_one_ok h2
          exact ⟨b', known, ha, by simpa using hb⟩
    · split at h
      · simp at h
      · split at h
        · simp at h
        · next s2 h2 =>
          obtain ⟨b, _, hu, hb⟩ := dbCreateAndAdd_ok h
          exact ⟨_, id, hb, by subst hu; simp⟩

theorem appendRegular_ok {s s' : St} {n : String} {l : Lit} {uid : Nat} (h : appendRegular s n l = (.ok uid, s')) :
    ∃ b' id, getBox s'.db n = some b' ∧ (uid, id) ∈ b'.msgs := by
  have hc : ∀ l d, withTx s (fun s => actionCreateMessage s n l d) = (.ok uid, s') →
      ∃ b' id, getBox s'.db n = some b' ∧ (uid, id) ∈ b'.msgs := fun l d hh => actionCreateMessage_ok (withTx_ok hh)
  unfold appendRegular at h
  split at h
  · simp at h
  · split at h
    · simp at h
    · split at h
      · exact hc _ _ h
      · split at h
        · exact hc _ _ h
        · simp at h
        · next g _ =>
          split at h
          · exact hc _ _ h
          · split at h
            · exact hc _ _ h
            · split at h
              · simp at h
              · next uids s1 h1 =>
                simp at h
                obtain ⟨h3, h4⟩ := h
                subst h3 h4
                obtain ⟨b', ha, hb, _⟩ := actionAdd_one_ok (withTx_ok h1)
                exact ⟨b', g, ha, by simpa using hb⟩

theorem append_ok {H : Nat → Nat} {s s' : St} {n : String} {l : Lit} {uid : Nat} (h : append H s n l = (.ok uid, s')) :
    ∃ b' id, getBox s'.db n = some b' ∧ (uid, id) ∈ b'.msgs := by
  unfold append at h
  split at h
  · simp at h
  · split at h
    · simp at h
    · split at h
      · simp at h
      · split at h
        · next u s1 h1 =>
          simp at h
          obtain ⟨h3, h4⟩ := h
          subst h3 h4
          exact appendRegular_ok h1
        · split at h
          · simp at h
          · split at h <;> simp at h

end Gluon.Append
