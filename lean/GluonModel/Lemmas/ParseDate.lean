/-
Round-trip lemmas: fixed-width numbers, dates, date-times, APPEND.
-/
import GluonModel.Lemmas.ParseSeq

namespace Gluon.Parse

/-! ### fixed-width numbers, dates -/

theorem rt_numberNLoop (ds : Bytes) (hd : ∀ b ∈ ds, tokTy b = .digit) (k : Nat) (hk : ds.length ≤ k)
    (acc : Int) :
    RT (numberNLoop k acc) ds (ds.foldl numStep acc) (fun r => ds.length = k ∨ nextNot isDigitTok r) := by
  induction ds generalizing k acc with
  | nil =>
    intro c rest hr
    cases k with
    | zero => exact ⟨c, rfl⟩
    | succ n =>
      refine ⟨c, ?_⟩
      have hr' : nextNot isDigitTok rest := by rcases hr with h | h; simp at h; exact h
      simp only [List.nil_append, numberNLoop, matchesTy]
      rw [matchesWith_load_no (f := fun t => t == TokTy.digit) hr']
      rfl
  | cons b ds ih =>
    intro c rest hr
    cases k with
    | zero => simp at hk
    | succ n =>
      have hb : (fun t => t == TokTy.digit) (tokTy b) = true := by simp [hd b (by simp)]
      obtain ⟨c', e⟩ := ih (fun x hx => hd x (by simp [hx])) n (by simpa using hk) (numStep acc b)
        ⟨Tok.ofByte b, b, c.n⟩ rest (by rcases hr with h | h; left; simpa using h; right; exact h)
      refine ⟨c', ?_⟩
      simp only [List.cons_append, numberNLoop, matchesTy]
      rw [matchesWith_load_yes hb]
      simp only [if_true, bind_prevVal, load_prev]
      exact e

theorem rt_parseNumberN (n : Nat) (hn : n ≠ 0) (d : UInt8) (ds : Bytes) (h0 : tokTy d = .digit)
    (hd : ∀ b ∈ ds, tokTy b = .digit) (hk : ds.length + 1 ≤ n) :
    RT (parseNumberN n) (d :: ds) (ds.foldl numStep (byteToInt d))
      (fun r => ds.length + 1 = n ∨ nextNot isDigitTok r) := by
  intro c rest hr
  obtain ⟨c', e⟩ := rt_numberNLoop ds hd (n - 1) (by omega) (byteToInt d) ⟨Tok.ofByte d, d, c.n⟩ rest
    (by rcases hr with h | h; left; omega; right; exact h)
  refine ⟨c', ?_⟩
  unfold parseNumberN consume
  have : (n == 0) = false := by simp [hn]
  simp only [this, Bool.false_eq_true, if_false, List.cons_append]
  rw [consumeWith_load (f := fun t => t == TokTy.digit) (by simp [h0])]
  simp only [bind_prevVal, load_prev]
  exact e

theorem digitByte_tok (k : Nat) (h : k < 10) : tokTy (digitByte k) = .digit := (digit_byte_facts k h).1
theorem digitByte_int (k : Nat) (h : k < 10) : byteToInt (digitByte k) = (k : Int) := (digit_byte_facts k h).2

/-- two digits read by `ParseNumberN(2)` -/
theorem rt_num2 (v : Nat) (h : v < 100) : RT (parseNumberN 2) (pad2 v) (v : Int) anyRest := by
  have h1 : v / 10 % 10 < 10 := by omega
  have h2 : v % 10 < 10 := by omega
  have := rt_parseNumberN 2 (by decide) (digitByte (v / 10 % 10)) [digitByte (v % 10)] (digitByte_tok _ h1)
    (by intro b hb; rw [List.mem_singleton] at hb; subst hb; exact digitByte_tok _ h2) (by simp)
  have e : [digitByte (v % 10)].foldl numStep (byteToInt (digitByte (v / 10 % 10))) = (v : Int) := by
    rw [List.foldl_cons, List.foldl_nil, digitByte_int _ h1, numStep_small _ _ h2 (by omega) (by omega)]
    omega
  rw [e] at this
  exact this.weaken (fun _ _ => Or.inl rfl)

/-- one digit read by `ParseNumberN(2)` when no digit follows -/
theorem rt_num2_short (v : Nat) (h : v < 10) :
    RT (parseNumberN 2) [digitByte v] (v : Int) (nextNot isDigitTok) := by
  have := rt_parseNumberN 2 (by decide) (digitByte v) [] (digitByte_tok _ h) (by simp) (by simp)
  have e : ([] : Bytes).foldl numStep (byteToInt (digitByte v)) = (v : Int) := by
    rw [List.foldl_nil, digitByte_int _ h]
  rw [e] at this
  exact this.weaken (fun _ hr => Or.inr hr)

/-- four digits read by `ParseNumberN(4)` -/
theorem rt_num4 (v : Nat) (h : v < 10000) : RT (parseNumberN 4) (pad4 v) (v : Int) anyRest := by
  have h1 : v / 1000 % 10 < 10 := by omega
  have h2 : v / 100 % 10 < 10 := by omega
  have h3 : v / 10 % 10 < 10 := by omega
  have h4 : v % 10 < 10 := by omega
  have := rt_parseNumberN 4 (by decide) (digitByte (v / 1000 % 10))
    [digitByte (v / 100 % 10), digitByte (v / 10 % 10), digitByte (v % 10)] (digitByte_tok _ h1)
    (by
      intro b hb
      simp only [List.mem_cons, List.mem_nil_iff, or_false] at hb
      rcases hb with hb | hb | hb <;> subst hb
      · exact digitByte_tok _ h2
      · exact digitByte_tok _ h3
      · exact digitByte_tok _ h4) (by simp)
  have e : [digitByte (v / 100 % 10), digitByte (v / 10 % 10), digitByte (v % 10)].foldl numStep
      (byteToInt (digitByte (v / 1000 % 10))) = (v : Int) := by
    rw [List.foldl_cons, List.foldl_cons, List.foldl_cons, List.foldl_nil, digitByte_int _ h1,
      numStep_small _ _ h2 (by omega) (by omega), numStep_small _ _ h3 (by omega) (by omega),
      numStep_small _ _ h4 (by omega) (by omega)]
    omega
  rw [e] at this
  exact this.weaken (fun _ _ => Or.inl rfl)


theorem monthName_facts : ∀ m : Nat, m < 13 → 1 ≤ m →
    (monthName (m : Int)).length = 3 ∧ allLower (monthName (m : Int)) = true ∧
    monthTable.lookup (monthName (m : Int)) = some (m : Int) := by decide +kernel

theorem rt_parseDateMonth (c : Choices) (m : Int) (h1 : 1 ≤ m) (h2 : m ≤ 12) :
    RT parseDateMonth (kwCase c (monthName m)) m anyRest := by
  have hm : ((m.toNat : Nat) : Int) = m := by omega
  obtain ⟨hlen, hlow, hlook⟩ := monthName_facts m.toNat (by omega) (by omega)
  rw [hm] at hlen hlow hlook
  have hchars := kwCase_char c (monthName m) (allLower_spec hlow)
  have hlower := lowerBytes_kwCase c (monthName m)
  rw [lowerBytes_of_lower _ (allLower_spec hlow)] at hlower
  have hl := kwCase_length c (monthName m)
  rw [hlen] at hl
  generalize kwCase c (monthName m) = w at hchars hlower hl
  match w, hl with
  | [x, y, z], _ =>
    intro cx rest _
    have hx : tokTy x = .char := by simpa [isCharTok] using hchars x (by simp)
    have hy : tokTy y = .char := by simpa [isCharTok] using hchars y (by simp)
    have hz : tokTy z = .char := by simpa [isCharTok] using hchars z (by simp)
    refine ⟨⟨Tok.ofByte z, z, cx.n⟩, ?_⟩
    unfold parseDateMonth
    simp only [List.cons_append, List.nil_append]
    rw [consume_load hx]
    simp only [bind_prevVal, load_prev]
    rw [consume_load hy]
    simp only [bind_prevVal, load_prev]
    rw [consume_load hz]
    simp only [bind_prevVal, load_prev, Tok.ofByte, hlower, hlook]
    rfl


/-- a date the printer can write: month 1..12, day below 100 (RFC: 1..31), year below 10000 -/
def DateOK (d : Date) : Prop :=
  0 ≤ d.year ∧ d.year ≤ 9999 ∧ 1 ≤ d.month ∧ d.month ≤ 12 ∧ 0 ≤ d.day ∧ d.day ≤ 99

theorem nextNot_digit_minus (r : Bytes) : nextNot isDigitTok (45 :: r) := by rfl

theorem rt_printDay (e : Nat) (d : Nat) (h : d < 100) :
    RT (parseNumberN 2) (printDay e d) (d : Int) (nextNot isDigitTok) := by
  unfold printDay
  split
  · rename_i hh; exact rt_num2_short d hh.1
  · exact (rt_num2 d h).weaken (fun _ _ => trivial)

theorem rt_parseDateText (c : Choices) (d : Date) (h : DateOK d) :
    RT parseDateText
      (printDay c.here d.day.toNat ++ (45 :: (kwCase c.l (monthName d.month) ++ (45 :: pad4 d.year.toNat))))
      d anyRest := by
  obtain ⟨y0, y1, m0, m1, d0, d1⟩ := h
  obtain ⟨year, month, day⟩ := d
  simp only at y0 y1 m0 m1 d0 d1 ⊢
  unfold parseDateText
  have hd : ((day.toNat : Nat) : Int) = day := by omega
  have hy : ((year.toNat : Nat) : Int) = year := by omega
  have h1 := rt_printDay c.here day.toNat (by omega)
  rw [hd] at h1
  have h4 := rt_num4 year.toNat (by omega)
  rw [hy] at h4
  refine RT.bind h1 ?_ (fun r _ => nextNot_digit_minus _)
  refine RT.bind (w1 := [45]) (rt_consume rfl anyRest) ?_ (fun _ _ => trivial)
  refine RT.bind (rt_parseDateMonth c.l month m0 m1) ?_ (fun _ _ => trivial)
  refine RT.bind (w1 := [45]) (rt_consume rfl anyRest) ?_ (fun _ _ => trivial)
  exact RT.map (fun y => Date.mk y month day) h4

theorem headTy_printDay (e d : Nat) (h : d < 100) (rest : Bytes) : headTy (printDay e d ++ rest) = .digit := by
  unfold printDay pad2
  split
  · rename_i hh; exact digitByte_tok _ hh.1
  · exact digitByte_tok _ (by omega)

/-- date_roundtrip: `ParseDate` reads a printed date (quoted or not) back -/
theorem rt_parseDate (c : Choices) (d : Date) (h : DateOK d) : RT parseDate (printDate c d) d anyRest := by
  unfold parseDate printDate
  simp only
  split
  · -- not quoted
    have h2 : RT (parseDateText >>= fun x => if false = true then consume .dquote >>= fun _ => pure x else pure x)
        (printDay c.here d.day.toNat ++ (45 :: (kwCase c.l (monthName d.month) ++ (45 :: pad4 d.year.toNat))))
        d anyRest := by
      refine RT.bind_nil (rt_parseDateText c d h) ?_ (fun _ h => h)
      simp only [Bool.false_eq_true, if_false]
      exact RT.ret d anyRest
    have := RT.bind (k := fun q => parseDateText >>= fun x => if q = true then consume .dquote >>= fun _ => pure x else pure x)
      (rt_matchesTy_no .dquote) h2
      (fun r _ => by
        rw [List.append_assoc, headTy_printDay _ _ (by have := h.2.2.2.2.2; omega)]; decide)
    simpa using this
  · have h2 : RT (parseDateText >>= fun x => if true = true then consume .dquote >>= fun _ => pure x else pure x)
        ((printDay c.here d.day.toNat ++ (45 :: (kwCase c.l (monthName d.month) ++ (45 :: pad4 d.year.toNat)))) ++ [34])
        d anyRest := by
      refine RT.bind (rt_parseDateText c d h) ?_ (fun _ _ => trivial)
      simp only [if_true]
      exact RT.map _ (rt_consume (b := 34) (t := .dquote) rfl anyRest)
    have := RT.bind (k := fun q => parseDateText >>= fun x => if q = true then consume .dquote >>= fun _ => pure x else pure x)
      (rt_matchesTy_yes (b := 34) (t := .dquote) rfl anyRest) h2 (fun _ _ => trivial)
    simpa using this


/-- a date-time the printer can write: as `DateOK`, two-digit time fields, zone a multiple of one
minute below 100 hours -/
def DateTimeOK (d : DateTime) : Prop :=
  0 ≤ d.year ∧ d.year ≤ 9999 ∧ 1 ≤ d.month ∧ d.month ≤ 12 ∧ 0 ≤ d.day ∧ d.day ≤ 99 ∧
  0 ≤ d.hour ∧ d.hour ≤ 99 ∧ 0 ≤ d.min ∧ d.min ≤ 99 ∧ 0 ≤ d.sec ∧ d.sec ≤ 99 ∧
  d.zone % 60 = 0 ∧ -360000 < d.zone ∧ d.zone < 360000

theorem rt_parseDateDayFixed (e : Nat) (d : Nat) (h : d < 100) :
    RT parseDateDayFixed (printDayFixed e d) (d : Int) anyRest := by
  unfold parseDateDayFixed printDayFixed
  split
  · rename_i hh
    have h2 : RT (consume .digit >>= fun _ => prevVal >>= fun x => pure (byteToInt x)) [digitByte d] (d : Int) anyRest := by
      intro c rest _
      refine ⟨⟨Tok.ofByte (digitByte d), digitByte d, c.n⟩, ?_⟩
      simp only [List.cons_append, List.nil_append]
      rw [consume_load (digitByte_tok d hh.1)]
      simp only [bind_prevVal, load_prev, Tok.ofByte, digitByte_int d hh.1]
      rfl
    have := RT.bind (k := fun b => if b = true then consume .digit >>= fun _ => prevVal >>= fun x => pure (byteToInt x)
        else parseNumberN 2) (rt_matchesTy_yes (b := 32) (t := .sp) rfl anyRest) h2 (fun _ _ => trivial)
    simpa using this
  · have := RT.bind (k := fun b => if b = true then consume .digit >>= fun _ => prevVal >>= fun x => pure (byteToInt x)
        else parseNumberN 2) (rt_matchesTy_no .sp) (rt_num2 d h)
      (fun r _ => by unfold pad2; show tokTy _ ≠ _; rw [digitByte_tok _ (by omega)]; decide)
    simpa using this

theorem rt_parseTime (h m s : Nat) (hh : h < 100) (hm : m < 100) (hs : s < 100) :
    RT parseTime (pad2 h ++ (58 :: (pad2 m ++ (58 :: pad2 s)))) ((h : Int), (m : Int), (s : Int)) anyRest := by
  unfold parseTime
  refine RT.bind (rt_num2 h hh) ?_ (fun _ _ => trivial)
  refine RT.bind (w1 := [58]) (rt_consume rfl anyRest) ?_ (fun _ _ => trivial)
  refine RT.bind (rt_num2 m hm) ?_ (fun _ _ => trivial)
  refine RT.bind (w1 := [58]) (rt_consume rfl anyRest) ?_ (fun _ _ => trivial)
  exact RT.map _ (rt_num2 s hs)

theorem rt_parseZone (z : Int) (h0 : z % 60 = 0) (h1 : -360000 < z) (h2 : z < 360000) :
    RT parseZone ((if z < 0 then 45 else 43) :: (pad2 (z.natAbs / 3600) ++ pad2 (z.natAbs % 3600 / 60)))
      z anyRest := by
  unfold parseZone
  have hzh : z.natAbs / 3600 < 100 := by omega
  have hzm : z.natAbs % 3600 / 60 < 100 := by omega
  by_cases hneg : z < 0
  · simp only [hneg, if_true]
    have hs : RT (do
        if (← matchesTy .plus) then pure (1 : Int)
        else if (← matchesTy .minus) then pure (-1)
        else makeError) [45] (-1 : Int) anyRest := by
      have h2 := RT.bind (k := fun b => if b = true then (pure (-1) : P Int) else makeError)
        (rt_matchesTy_yes (b := 45) (t := .minus) rfl anyRest) (by simpa using RT.ret (-1 : Int) anyRest)
        (fun _ _ => trivial)
      have := RT.bind (k := fun b => if b = true then (pure 1 : P Int) else
          matchesTy .minus >>= fun b => if b = true then pure (-1) else makeError)
        (rt_matchesTy_no .plus) (by simpa using h2) (fun r _ => by show tokTy 45 ≠ _; decide)
      simpa using this
    refine RT.bind (w1 := [45]) hs ?_ (fun _ _ => trivial)
    refine RT.bind (rt_num2 _ hzh) ?_ (fun _ _ => trivial)
    have := RT.map (fun zm : Int => (((z.natAbs / 3600 : Nat) : Int) * 3600 + zm * 60) * (-1)) (rt_num2 _ hzm)
    have e : (((z.natAbs / 3600 : Nat) : Int) * 3600 + ((z.natAbs % 3600 / 60 : Nat) : Int) * 60) * (-1) = z := by
      omega
    rw [e] at this
    exact this
  · simp only [hneg, if_false]
    have hs : RT (do
        if (← matchesTy .plus) then pure (1 : Int)
        else if (← matchesTy .minus) then pure (-1)
        else makeError) [43] (1 : Int) anyRest := by
      have := RT.bind (k := fun b => if b = true then (pure 1 : P Int) else
          matchesTy .minus >>= fun b => if b = true then pure (-1) else makeError)
        (rt_matchesTy_yes (b := 43) (t := .plus) rfl anyRest) (by simpa using RT.ret (1 : Int) anyRest)
        (fun _ _ => trivial)
      simpa using this
    refine RT.bind (w1 := [43]) hs ?_ (fun _ _ => trivial)
    refine RT.bind (rt_num2 _ hzh) ?_ (fun _ _ => trivial)
    have := RT.map (fun zm : Int => (((z.natAbs / 3600 : Nat) : Int) * 3600 + zm * 60) * 1) (rt_num2 _ hzm)
    have e : (((z.natAbs / 3600 : Nat) : Int) * 3600 + ((z.natAbs % 3600 / 60 : Nat) : Int) * 60) * 1 = z := by
      omega
    rw [e] at this
    exact this

/-- datetime_roundtrip -/
theorem rt_parseDateTime (c : Choices) (d : DateTime) (h : DateTimeOK d) :
    RT parseDateTime (printDateTime c d) d anyRest := by
  obtain ⟨y0, y1, m0, m1, d0, d1, hh0, hh1, mi0, mi1, s0, s1, z0, z1, z2⟩ := h
  obtain ⟨year, month, day, hour, min, sec, zone⟩ := d
  simp only at y0 y1 m0 m1 d0 d1 hh0 hh1 mi0 mi1 s0 s1 z0 z1 z2
  unfold parseDateTime printDateTime
  simp only
  have hd : ((day.toNat : Nat) : Int) = day := by omega
  have hy : ((year.toNat : Nat) : Int) = year := by omega
  have hh : ((hour.toNat : Nat) : Int) = hour := by omega
  have hm : ((min.toNat : Nat) : Int) = min := by omega
  have hs : ((sec.toNat : Nat) : Int) = sec := by omega
  have h1 := rt_parseDateDayFixed c.here day.toNat (by omega)
  rw [hd] at h1
  have h4 := rt_num4 year.toNat (by omega)
  rw [hy] at h4
  have ht := rt_parseTime hour.toNat min.toNat sec.toNat (by omega) (by omega) (by omega)
  rw [hh, hm, hs] at ht
  refine RT.bind (w1 := [34]) (rt_consume rfl anyRest) ?_ (fun _ _ => trivial)
  refine RT.bind h1 ?_ (fun _ _ => trivial)
  refine RT.bind (w1 := [45]) (rt_consume rfl anyRest) ?_ (fun _ _ => trivial)
  refine RT.bind (rt_parseDateMonth c.l month m0 m1) ?_ (fun _ _ => trivial)
  refine RT.bind (w1 := [45]) (rt_consume rfl anyRest) ?_ (fun _ _ => trivial)
  refine RT.bind h4 ?_ (fun _ _ => trivial)
  refine RT.bind (w1 := [32]) (rt_consume rfl anyRest) ?_ (fun _ _ => trivial)
  refine RT.bind ht ?_ (fun _ _ => trivial)
  refine RT.bind (w1 := [32]) (rt_consume rfl anyRest) ?_ (fun _ _ => trivial)
  refine RT.bind (rt_parseZone zone z0 z1 z2) ?_ (fun _ _ => trivial)
  exact RT.map _ (rt_consume (b := 34) (t := .dquote) rfl anyRest)


/-! ### APPEND -/

theorem rt_tryParseFlagList_some (c : Choices) (fl : List BStr) (h : ∀ x ∈ fl, FlagOK x) (fuel : Nat)
    (hf : ListFuel fl fuel) : RT (tryParseFlagList fuel) (printFlagList c fl) (some fl) anyRest := by
  unfold tryParseFlagList
  exact RT.check_eq true (fun r _ => by rfl) (by simpa using RT.map some (rt_parseFlagList c fl h fuel hf))

theorem rt_tryParseFlagList_none (fuel : Nat) :
    RT (tryParseFlagList fuel) [] (none : Option (List BStr)) (fun r => headTy r ≠ .lparen) := by
  unfold tryParseFlagList
  exact RT.check_eq false (fun r hr => by simpa using hr) (by simpa using RT.ret (none : Option (List BStr)) _)

theorem rt_appendDateTime_none : RT appendDateTime [] (none : Option DateTime) (nextIs .lcurly) := by
  unfold appendDateTime
  exact RT.check_eq true (fun r hr => by simpa [nextIs] using hr) (by simpa using RT.ret (none : Option DateTime) _)

theorem rt_appendDateTime_some (c : Choices) (d : DateTime) (h : DateTimeOK d) :
    RT appendDateTime (printDateTime c d ++ [32]) (some d) anyRest := by
  unfold appendDateTime
  refine RT.check_eq false (fun r _ => by rfl) ?_
  simp only [Bool.not_false, if_true]
  refine RT.bind (rt_parseDateTime c d h) ?_ (fun _ _ => trivial)
  exact RT.map (fun _ => some d) (rt_consume (b := 32) (t := .sp) rfl anyRest)

def AppendOK (m : BStr) (fl : List BStr) (dt : Option DateTime) (lit : BStr) : Prop :=
  MboxOK m ∧ (∀ x ∈ fl, FlagOK x) ∧ (∀ d, dt = some d → DateTimeOK d) ∧ StrOK lit

theorem rt_parseAppend (c : Choices) (m : BStr) (fl : List BStr) (dt : Option DateTime) (lit : BStr)
    (h : AppendOK m fl dt lit) (fuel : Nat) (hf : m.length + lit.length + 2 < fuel) (hff : ListFuel fl fuel) :
    RT (parseAppend fuel)
      (32 :: (printMailbox c.l.r m ++ (32 ::
        (printAppendFlags c.r.l fl ++ (printAppendDate c.r.r.l dt ++ printLiteral lit)))))
      (.append m fl dt lit) anyRest := by
  obtain ⟨hm, hfl, hdt, hlit⟩ := h
  unfold parseAppend
  refine RT.bind (w1 := [32]) (rt_consume rfl anyRest) ?_ (fun _ _ => trivial)
  refine RT.bind (rt_parseMailbox _ m hm fuel (by omega)) ?_ (fun r _ => nextNot_astring_sp _)
  refine RT.bind (w1 := [32]) (rt_consume rfl anyRest) ?_ (fun _ _ => trivial)
  have hlitRT := rt_parseLiteral lit hlit fuel (by have := natDigits_length_le lit.length; omega)
  -- the date-time and literal part
  have htail : RT (appendDateTime >>= fun dt' => parseLiteral fuel >>= fun l => pure (Cmd.append m fl dt' l))
      (printAppendDate c.r.r.l dt ++ printLiteral lit)
      (.append m fl dt lit) anyRest := by
    cases dt with
    | none =>
      simp only [printAppendDate]
      refine RT.bind rt_appendDateTime_none ?_ (fun r _ => by rfl)
      exact RT.map _ hlitRT
    | some d =>
      simp only [printAppendDate]
      refine RT.bind (rt_appendDateTime_some c.r.r.l d (hdt d rfl)) ?_ (fun _ _ => trivial)
      exact RT.map _ hlitRT
  unfold printAppendFlags
  split
  · rename_i hcase
    have hnil : fl = [] := by cases fl <;> simp_all
    subst hnil
    refine RT.bind (w1 := []) (rt_tryParseFlagList_none fuel) ?_ ?_
    · refine RT.bind (w1 := []) (RT.ret () anyRest) ?_ (fun _ _ => trivial)
      exact htail
    · intro r _
      cases dt with
      | none => simp only [printAppendDate, List.nil_append]; show tokTy 123 ≠ _; decide
      | some d => show tokTy 34 ≠ _; decide
  · refine RT.congr_w (w := printFlagList c.r.l.r fl ++ ([32] ++ (printAppendDate c.r.r.l dt ++ printLiteral lit)))
      ?_ (by show (printFlagList c.r.l.r fl ++ [32]) ++ (printAppendDate c.r.r.l dt ++ printLiteral lit) = _; simp)
    refine RT.bind (rt_tryParseFlagList_some c.r.l.r fl hfl fuel hff) ?_ (fun _ _ => trivial)
    refine RT.bind (w1 := [32]) (rt_consume (t := .sp) rfl anyRest) ?_ (fun _ _ => trivial)
    exact htail


end Gluon.Parse
