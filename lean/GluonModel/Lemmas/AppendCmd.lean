/-
Helper lemmas for C20, part 5: every command preserves the recovery invariant.
-/
import GluonModel.Lemmas.AppendInv

namespace Gluon.Append

/-! ### COPY / MOVE helpers are frames -/

theorem importRecovered_frame {k : Nat} (s : St) (id : Nat) (hk : k ≤ s.nextId) : FrameAt k s (importRecovered s id).2 := by
  unfold importRecovered
  split
  · exact FrameAt.refl _ _
  · next l _ =>
    split
    · next e s1 h => have := remoteCreate_frame k s l; rw [h] at this; exact this
    · next rid nid l' s1 h =>
      have h1 := remoteCreate_frame k s l; rw [h] at h1
      have hid := (remoteCreate_ok h).1
      split
      · exact h1
      · split
        · exact h1
        · split
          · next s2 h2 =>
            have := storeSet_frame (k := k) s1 nid { l' with gid := .id nid } (by omega); rw [h2] at this
            exact h1.trans this
          · next s2 h2 =>
            have h3 := storeSet_frame (k := k) s1 nid { l' with gid := .id nid } (by omega); rw [h2] at h3
            split
            · next s3 h4 => have := dbFault_frame k s2; rw [h4] at this; exact (h1.trans h3).trans this
            · next s3 h4 =>
              have := dbFault_frame k s2; rw [h4] at this
              exact ((h1.trans h3).trans this).trans (rows_frame k s3 _)

theorem importAll_frame {k : Nat} (ids : List Nat) (mark : Bool) :
    ∀ s : St, k ≤ s.nextId → FrameAt k s (importAll s ids mark).2 := by
  induction ids with
  | nil => intro s _; exact FrameAt.refl _ _
  | cons id r ih =>
    intro s hk
    unfold importAll
    split
    · next e s1 h => have := importRecovered_frame (k := k) s id hk; rw [h] at this; exact this
    · next nid dd s1 h =>
      have h1 := importRecovered_frame (k := k) s id hk; rw [h] at h1
      simp only
      have h2 : FrameAt k s1 (if (mark && !dd) = true then
          { s1 with db := { s1.db with rows := s1.db.rows.map (fun p => if p.1 == id then (p.1, { p.2 with deleted := true }) else p) } }
        else s1) := by
        split
        · exact rows_frame k s1 _
        · exact FrameAt.refl _ _
      have hk2 : k ≤ (if (mark && !dd) = true then
          { s1 with db := { s1.db with rows := s1.db.rows.map (fun p => if p.1 == id then (p.1, { p.2 with deleted := true }) else p) } }
        else s1).nextId := Nat.le_trans hk (h1.trans h2).nid
      have h3 := ih _ hk2
      split
      · next e s2 h4 => rw [h4] at h3; exact (h1.trans h2).trans h3
      · next ns s2 h4 => rw [h4] at h3; exact (h1.trans h2).trans h3

theorem addRecovered_frame (k : Nat) (s : St) (n : String) (ids : List Nat) (hn : n ≠ recName) :
    FrameAt k s (addRecovered s n ids).2 := by
  unfold addRecovered
  split
  · exact FrameAt.refl _ _
  · simp only
    split
    · next e s1 h => have := remoteAdd_frame k s; rw [h] at this; exact this
    · next s1 h =>
      have := remoteAdd_frame k s; rw [h] at this
      exact this.trans (dbAddMessages_frame k s1 n _ hn)

theorem copyOutOfRecovery_frame (s : St) (ids : List Nat) (dst : String) (hn : dst ≠ recName) :
    FrameAt s.nextId s (copyOutOfRecovery s ids dst).2 := by
  unfold copyOutOfRecovery
  have h1 := importAll_frame (k := s.nextId) ids false s (Nat.le_refl _)
  split
  · next e s1 h => rw [h] at h1; exact h1
  · next nids s1 h => rw [h] at h1; exact h1.trans (addRecovered_frame _ s1 dst nids hn)

theorem actionMove_frame (k : Nat) (s : St) (src dst : String) (ids : List Nat) (hs : src ≠ recName) (hd : dst ≠ recName) :
    FrameAt k s (actionMove s src dst ids).2 := by
  unfold actionMove
  split
  · split
    · next e s1 h => have := removeUnchecked_frame k s dst ids hd; rw [h] at this; exact this
    · next s1 h =>
      have := removeUnchecked_frame k s dst ids hd; rw [h] at this
      exact this.trans (actionAdd_frame k s1 dst ids hd)
  · split
    · next bd bs _ _ =>
      simp only
      have h1 : FrameAt k s (if (ids.filter (boxHas bd)).isEmpty then ((.ok (), s) : R Unit) else removeUnchecked s dst (ids.filter (boxHas bd))).2 := by
        split
        · exact FrameAt.refl _ _
        · exact removeUnchecked_frame k s dst _ hd
      split
      · next e s1 h => rw [h] at h1; exact h1
      · next s1 h =>
        rw [h] at h1
        split
        · next e s2 h2 => have := remoteMove_frame k s1; rw [h2] at this; exact h1.trans this
        · next s2 h2 =>
          have h3 := remoteMove_frame k s1; rw [h2] at h3
          split
          · exact h1.trans h3
          · split
            · exact h1.trans h3
            · have h4 := updBox_frame k s2 src (fun b => b.remove (ids.filter (boxHas bs))) (fun b => remove_name b _) hs
              split
              · exact (h1.trans h3).trans h4
              · exact ((h1.trans h3).trans h4).trans (updBox_frame k _ dst _ (fun b => add_name b _) hd)
    · exact FrameAt.refl _ _

/-! ### the commands that read the recovery mailbox -/

theorem expunge_rec_inv {H : Nat → Nat} (s : St) (ids : List Nat) (h : RecInv H s) :
    RecInv H (withTx s (fun s => actionRemove s recName ids)).2 := by
  unfold withTx actionRemove
  simp only
  have h0 : RecInv H { s with txIns := false, txErase := false } :=
    RecInv.core (s := s) ⟨rfl, rfl, rfl, rfl, rfl, Nat.le_refl _, fun _ _ => rfl⟩ h
  split
  · simp only [txFinish]
    exact RecInv.core (s := s) ⟨rfl, rfl, rfl, by simp, by simp, Nat.le_refl _, fun _ _ => rfl⟩ h
  · next b hb =>
    split
    · simpa [txFinish] using h0
    · unfold removeUnchecked
      simp only [bne_self_eq_false, Bool.false_eq_true, ↓reduceIte, txFinish]
      have hf := hmErase_fields { s with txIns := false, txErase := false } (ids.filter (boxHas b))
      refine RecInv.erase_ok (ids.filter (boxHas b)) h ?_ ?_ ?_ ?_ ?_ ?_ ?_
      · intro i; exact hmErase_lookup _ _ i
      · intro x; exact hmErase_hashes _ _ x
      · refine (recMsgs_remove { s with txIns := false, txErase := false } (ids.filter (boxHas b)) _ ?_).trans rfl
        simp only [updBox, hf.1]
      · intro i _; simp only [hf.2.1]
      · simp only [hf.2.2.1]; exact Nat.le_refl _
      · simp only [hf.2.2.2.1]
      · simp only [hf.2.2.2.2.1]

theorem moveOut_inv {H : Nat → Nat} (s : St) (ids : List Nat) (dst : String) (hd : dst ≠ recName) (h : RecInv H s) :
    RecInv H (withTx s (fun s => moveOutOfRecovery s ids dst)).2 := by
  unfold withTx moveOutOfRecovery
  simp only
  have h1 := importAll_frame (k := s.nextId) ids true { s with txIns := false, txErase := false } (Nat.le_refl _)
  split
  · next e s1 he =>
    rw [he] at h1
    simp only [txFinish]
    refine RecInv.core (s := s) ⟨rfl, h1.i2h, h1.hs, ?_, ?_, h1.nid, h1.store⟩ h
    · have := h1.stale; have := h1.txi; simp_all
    · have := h1.lost; have := h1.txe; simp_all
  · next nids s1 he =>
    rw [he] at h1
    simp only at h1
    have hf := hmErase_fields { s1 with db := updBox s1.db recName (fun b => b.remove ids) } ids
    have h3 := addRecovered_frame s.nextId
      { hmErase { s1 with db := updBox s1.db recName (fun b => b.remove ids) } ids with txErase := true } dst nids hd
    have hl : ∀ i, (hmErase { s1 with db := updBox s1.db recName (fun b => b.remove ids) } ids).idToHash.lookup i =
        if i ∈ ids then none else s.idToHash.lookup i := by
      intro i; rw [hmErase_lookup]; simp only [h1.i2h]
    have hh : ∀ x, x ∈ (hmErase { s1 with db := updBox s1.db recName (fun b => b.remove ids) } ids).hashes ↔
        x ∈ s.hashes ∧ ∀ i ∈ ids, s.idToHash.lookup i ≠ some x := by
      intro x; rw [hmErase_hashes]; simp only [h1.i2h, h1.hs]
    cases hx : addRecovered { hmErase { s1 with db := updBox s1.db recName (fun b => b.remove ids) } ids with txErase := true } dst nids with
    | mk x s4 =>
      rw [hx] at h3
      simp only at h3
      have hst : ∀ i, i < s.nextId → s4.store.lookup i = s.store.lookup i := by
        intro i hi
        rw [h3.store i hi]
        simp only [hf.2.1]
        exact h1.store i hi
      have hn : s.nextId ≤ s4.nextId := by
        refine Nat.le_trans ?_ h3.nid
        simp only [hf.2.2.1]
        exact h1.nid
      cases x with
      | ok duids =>
        simp only [txFinish]
        refine RecInv.erase_ok ids h ?_ ?_ ?_ hst hn ?_ ?_
        · intro i; rw [h3.i2h]; exact hl i
        · intro x; rw [h3.hs]; exact hh x
        · rw [h3.recm]
          have : recMsgs { hmErase { s1 with db := updBox s1.db recName (fun b => b.remove ids) } ids with txErase := true } =
              recMsgs { s1 with db := updBox s1.db recName (fun b => b.remove ids) } := recMsgs_db hf.1
          rw [this, recMsgs_remove s1 ids _ rfl, h1.recm]
          rfl
        · rw [h3.stale]; simp only [hf.2.2.2.1]; exact h1.stale
        · rw [h3.lost]; simp only [hf.2.2.2.2.1]; exact h1.lost
      | error e =>
        simp only [txFinish]
        refine RecInv.erase_fail ids h ?_ ?_ rfl hst hn ?_ ?_
        · intro i; simp only [h3.i2h]; exact hl i
        · intro x; simp only [h3.hs]; exact hh x
        · simp only [h3.stale, h3.txi, hf.2.2.2.1, hf.2.2.2.2.2.1]
          have := h1.stale; have := h1.txi; simp_all
        · simp only [h3.txe]; simp

end Gluon.Append
