/-
Basic facts about the abstract index of `Model/ConnUpdates.lean`: unique keys, look-ups, the
invariant `Inv` unpacked, point updates.  Used by the C06 lemmas.
-/
import GluonModel.Spec.ConnUpdates

namespace Gluon.ConnUpd

/-! ### unique keys and `find?` -/

theorem nodupKeys_cons {α κ : Type} [BEq κ] (f : α → κ) (x : α) (xs : List α) :
    nodupKeys f (x :: xs) = true ↔ (∀ y ∈ xs, (f y == f x) = false) ∧ nodupKeys f xs = true := by
  simp [nodupKeys, List.any_eq_true]

/-- with unique keys, looking a member up by its key finds that member -/
theorem find?_of_mem {α κ : Type} [BEq κ] [LawfulBEq κ] (f : α → κ) :
    ∀ (l : List α) (x : α), nodupKeys f l = true → x ∈ l → l.find? (fun y => f y == f x) = some x := by
  intro l
  induction l with
  | nil => intro x _ hx; cases hx
  | cons a as ih =>
    intro x hn hx
    rw [nodupKeys_cons] at hn
    rcases List.mem_cons.mp hx with rfl | hx'
    · simp [List.find?_cons]
    · have : (f a == f x) = false := by
        have := hn.1 x hx'
        cases h : (f a == f x) with
        | false => rfl
        | true =>
          have e : f a = f x := eq_of_beq h
          rw [e] at this; simp at this
      simp [List.find?_cons, this, ih x hn.2 hx']

/-- with unique keys, two members with the same key are equal -/
theorem eq_of_key_eq {α κ : Type} [BEq κ] [LawfulBEq κ] (f : α → κ) (l : List α) (x y : α)
    (hn : nodupKeys f l = true) (hx : x ∈ l) (hy : y ∈ l) (h : f x = f y) : x = y := by
  have h1 := find?_of_mem f l x hn hx
  have h2 := find?_of_mem f l y hn hy
  rw [h] at h1
  rw [h1] at h2
  exact Option.some.inj h2

theorem find?_key_mem {α : Type} (p : α → Bool) (l : List α) (x : α) (h : l.find? p = some x) : x ∈ l ∧ p x = true :=
  ⟨List.mem_of_find?_eq_some h, List.find?_some h⟩

/-- mapping with a key-preserving function commutes with a look-up by key -/
theorem find?_map_pres {α : Type} (p : α → Bool) (g : α → α) (hg : ∀ x, p (g x) = p x) :
    ∀ l : List α, (l.map g).find? p = (l.find? p).map g := by
  intro l
  induction l with
  | nil => rfl
  | cons a as ih =>
    simp only [List.map_cons, List.find?_cons, hg]
    cases p a <;> simp [ih]

theorem map_id_of_forall {α : Type} (g : α → α) (l : List α) (h : ∀ x ∈ l, g x = x) : l.map g = l := by
  induction l with
  | nil => rfl
  | cons a as ih =>
    simp only [List.map_cons]
    rw [h a (List.mem_cons_self), ih (fun x hx => h x (List.mem_cons_of_mem _ hx))]

/-! ### `sameSet`, `dedup` -/

theorem sameSet_iff (a b : List String) : sameSet a b = true ↔ ∀ x, x ∈ a ↔ x ∈ b := by
  simp only [sameSet, Bool.and_eq_true, List.all_eq_true, List.contains_iff_mem]
  constructor
  · intro h x; exact ⟨h.1 x, h.2 x⟩
  · intro h; exact ⟨fun x hx => (h x).1 hx, fun x hx => (h x).2 hx⟩

theorem sameSet_refl (a : List String) : sameSet a a = true := (sameSet_iff a a).2 (fun _ => Iff.rfl)

theorem mem_dedup (x : String) : ∀ l : List String, x ∈ dedup l ↔ x ∈ l := by
  intro l
  induction l with
  | nil => simp [dedup]
  | cons a as ih =>
    simp only [dedup]
    split
    · rename_i h
      rw [ih]
      simp only [List.contains_iff_mem] at h
      constructor
      · intro hx; exact List.mem_cons_of_mem _ hx
      · intro hx
        rcases List.mem_cons.mp hx with rfl | hx'
        · exact h
        · exact hx'
    · simp [ih]

/-! ### the invariant, unpacked -/

structure InvP (db : DB) : Prop where
  mboxIid : nodupKeys (fun m : Mbox => m.iid) db.mboxes = true
  mboxRid : nodupKeys (fun m : Mbox => m.rid) db.mboxes = true
  mboxName : nodupKeys (fun m : Mbox => m.name) db.mboxes = true
  msgIid : nodupKeys (fun g : Msg => g.iid) db.msgs = true
  msgRid : nodupKeys (fun g : Msg => g.rid) db.msgs = true
  mboxLt : ∀ m ∈ db.mboxes, m.iid < db.nextMbox
  rowsAsc : ∀ m ∈ db.mboxes, rowsAscending 0 m.rows = true
  rowsLe : ∀ m ∈ db.mboxes, ∀ r ∈ m.rows, r.uid ≤ m.seq
  rowMsg : ∀ m ∈ db.mboxes, nodupKeys (fun r : Row => r.msg) m.rows = true
  rowRid : ∀ m ∈ db.mboxes, nodupKeys (fun r : Row => r.rid) m.rows = true
  rowRef : ∀ m ∈ db.mboxes, ∀ r ∈ m.rows, ∃ g, db.msgByIid r.msg = some g ∧ g.rid = r.rid
  msgLt : ∀ g ∈ db.msgs, g.iid < db.nextMsg
  dsName : nodupKeys (fun e : String × RID => e.1) db.delSubs = true
  dsRid : nodupKeys (fun e : String × RID => e.2) db.delSubs = true

theorem inv_iff (db : DB) : Inv db = true ↔ InvP db := by
  constructor
  · intro h
    simp only [Inv, Bool.and_eq_true, List.all_eq_true, decide_eq_true_eq] at h
    obtain ⟨⟨⟨⟨⟨⟨⟨⟨h1, h2⟩, h3⟩, h4⟩, h5⟩, h6⟩, h7⟩, h8⟩, h9⟩ := h
    refine ⟨h1, h2, h3, h4, h5, ?_, ?_, ?_, ?_, ?_, ?_, h7, h8, h9⟩
    · intro m hm; exact (h6 m hm).1.1.1.1.1
    · intro m hm; exact (h6 m hm).1.1.1.1.2
    · intro m hm r hr; exact (h6 m hm).1.1.1.2 r hr
    · intro m hm; exact (h6 m hm).1.1.2
    · intro m hm; exact (h6 m hm).1.2
    · intro m hm r hr
      have := (h6 m hm).2 r hr
      split at this
      · rename_i g hg; exact ⟨g, hg, by simpa using this⟩
      · simp at this
  · intro h
    simp only [Inv, Bool.and_eq_true, List.all_eq_true, decide_eq_true_eq]
    refine ⟨⟨⟨⟨⟨⟨⟨⟨h.mboxIid, h.mboxRid⟩, h.mboxName⟩, h.msgIid⟩, h.msgRid⟩, ?_⟩, h.msgLt⟩, h.dsName⟩, h.dsRid⟩
    intro m hm
    refine ⟨⟨⟨⟨⟨h.mboxLt m hm, h.rowsAsc m hm⟩, h.rowsLe m hm⟩, h.rowMsg m hm⟩, h.rowRid m hm⟩, ?_⟩
    intro r hr
    obtain ⟨g, hg, hr'⟩ := h.rowRef m hm r hr
    simp [hg, hr']

/-! ### look-ups -/

theorem mboxByRid_some {db : DB} {rid : RID} {m : Mbox} (h : db.mboxByRid rid = some m) : m ∈ db.mboxes ∧ m.rid = rid := by
  have := find?_key_mem _ _ _ h
  exact ⟨this.1, by simpa using this.2⟩

theorem mboxByIid_some {db : DB} {iid : Nat} {m : Mbox} (h : db.mboxByIid iid = some m) : m ∈ db.mboxes ∧ m.iid = iid := by
  have := find?_key_mem _ _ _ h
  exact ⟨this.1, by simpa using this.2⟩

theorem msgByRid_some {db : DB} {rid : RID} {g : Msg} (h : db.msgByRid rid = some g) : g ∈ db.msgs ∧ g.rid = rid := by
  have := find?_key_mem _ _ _ h
  exact ⟨this.1, by simpa using this.2⟩

theorem msgByIid_some {db : DB} {iid : Nat} {g : Msg} (h : db.msgByIid iid = some g) : g ∈ db.msgs ∧ g.iid = iid := by
  have := find?_key_mem _ _ _ h
  exact ⟨this.1, by simpa using this.2⟩

theorem mboxByIid_of_mem {db : DB} (hi : InvP db) {m : Mbox} (hm : m ∈ db.mboxes) : db.mboxByIid m.iid = some m :=
  find?_of_mem (fun m : Mbox => m.iid) db.mboxes m hi.mboxIid hm

theorem mboxByRid_of_mem {db : DB} (hi : InvP db) {m : Mbox} (hm : m ∈ db.mboxes) : db.mboxByRid m.rid = some m :=
  find?_of_mem (fun m : Mbox => m.rid) db.mboxes m hi.mboxRid hm

theorem msgByIid_of_mem {db : DB} (hi : InvP db) {g : Msg} (hg : g ∈ db.msgs) : db.msgByIid g.iid = some g :=
  find?_of_mem (fun g : Msg => g.iid) db.msgs g hi.msgIid hg

theorem msgByRid_of_mem {db : DB} (hi : InvP db) {g : Msg} (hg : g ∈ db.msgs) : db.msgByRid g.rid = some g :=
  find?_of_mem (fun g : Msg => g.rid) db.msgs g hi.msgRid hg

/-! ### point updates that change nothing -/

theorem updMbox_noop {db : DB} (hi : InvP db) {m : Mbox} (hm : m ∈ db.mboxes) (f : Mbox → Mbox) (hf : f m = m) :
    db.updMbox m.iid f = db := by
  have : db.mboxes.map (fun x => if x.iid == m.iid then f x else x) = db.mboxes := by
    apply map_id_of_forall
    intro x hx
    split
    · rename_i h
      have : x = m := eq_of_key_eq (fun m : Mbox => m.iid) db.mboxes x m hi.mboxIid hx hm (by simpa using h)
      rw [this, hf]
    · rfl
  unfold DB.updMbox
  rw [this]

theorem updMsg_noop {db : DB} (hi : InvP db) {g : Msg} (hg : g ∈ db.msgs) (f : Msg → Msg) (hf : f g = g) :
    db.updMsg g.iid f = db := by
  have : db.msgs.map (fun x => if x.iid == g.iid then f x else x) = db.msgs := by
    apply map_id_of_forall
    intro x hx
    split
    · rename_i h
      have : x = g := eq_of_key_eq (fun g : Msg => g.iid) db.msgs x g hi.msgIid hx hg (by simpa using h)
      rw [this, hf]
    · rfl
  unfold DB.updMsg
  rw [this]

end Gluon.ConnUpd
