/-
Helper lemmas for C20, part 10: exactly one mailbox is named "Recovered Messages", in every
reachable state (so "the recovery mailbox" of the model — the first mailbox of that name — is the
only one, as in the code, which finds it by its internal ID).
-/
import GluonModel.Lemmas.AppendReject

namespace Gluon.Append

theorem expunge_rec_names (s : St) (ids : List Nat) :
    names (withTx s (fun s => actionRemove s recName ids)).2 = names s := by
  unfold withTx actionRemove
  simp only
  split
  · rfl
  · next b hb =>
    split
    · rfl
    · unfold removeUnchecked
      simp only [bne_self_eq_false, Bool.false_eq_true, ↓reduceIte, txFinish]
      have hf := hmErase_fields { s with txIns := false, txErase := false } (ids.filter (boxHas b))
      exact (names_upd recName (fun b' => b'.remove (ids.filter (boxHas b))) (fun b' => remove_name b' _)
        (by simp only [updBox, hf.1])).trans rfl

theorem moveOut_names (s : St) (ids : List Nat) (dst : String) (hd : dst ≠ recName) :
    names (withTx s (fun s => moveOutOfRecovery s ids dst)).2 = names s := by
  unfold withTx moveOutOfRecovery
  simp only
  have h1 := importAll_frame (k := s.nextId) ids true { s with txIns := false, txErase := false } (Nat.le_refl _)
  split
  · rfl
  · next nids s1 he =>
    rw [he] at h1
    simp only at h1
    have hf := hmErase_fields { s1 with db := updBox s1.db recName (fun b => b.remove ids) } ids
    have h3 := addRecovered_frame s.nextId
      { hmErase { s1 with db := updBox s1.db recName (fun b => b.remove ids) } ids with txErase := true } dst nids hd
    cases hx : addRecovered { hmErase { s1 with db := updBox s1.db recName (fun b => b.remove ids) } ids with txErase := true } dst nids with
    | mk x s4 =>
      rw [hx] at h3
      simp only at h3
      cases x with
      | error e => rfl
      | ok d =>
        simp only [txFinish]
        rw [h3.nms]
        have : names { hmErase { s1 with db := updBox s1.db recName (fun b => b.remove ids) } ids with txErase := true } =
            names { s1 with db := updBox s1.db recName (fun b => b.remove ids) } := by simp [names, hf.1]
        rw [this, names_upd recName (fun b => b.remove ids) (fun b => remove_name b ids) rfl]
        exact h1.nms

theorem append_names (H : Nat → Nat) (s : St) (n : String) (l : Lit) : names (append H s n l).2 = names s := by
  unfold append
  split
  · rfl
  · next hrn =>
    have hn : n ≠ recName := ne_recName_of_not_isRecName (by simpa using hrn)
    split
    · rfl
    · split
      · rfl
      · have hf := appendRegular_frame s n l hn
        split
        · next u s1 he => rw [he] at hf; exact hf.nms
        · next e s1 he =>
          rw [he] at hf
          split
          · exact hf.nms
          · have := (createRecovered_spec H s1 l).nms
            split
            · next k s2 hk => rw [hk] at this; exact this.trans hf.nms
            · next e2 s2 hk => rw [hk] at this; exact this.trans hf.nms

theorem copy_names (s : St) (src : String) (uids : List Nat) (dst : String) : names (copy s src uids dst).2 = names s := by
  unfold copy
  split
  · rfl
  · next bs _ =>
    split
    · rfl
    · next hrn =>
      have hd : dst ≠ recName := ne_recName_of_not_isRecName (by simpa using hrn)
      split
      · rfl
      · simp only
        have hf : Frame s.nextId s (withTx s (fun s0 => if src == recName then copyOutOfRecovery s0 ((selectUids bs uids).map (·.2)) dst
            else actionAdd s0 dst ((selectUids bs uids).map (·.2)))).2 := by
          refine withTx_frame s _ ?_
          split
          · exact copyOutOfRecovery_frame { s with txIns := false, txErase := false } _ dst hd
          · exact actionAdd_frame _ { s with txIns := false, txErase := false } dst _ hd
        split
        · next e s1 he => rw [he] at hf; exact hf.nms
        · next d s1 he => rw [he] at hf; exact hf.nms

theorem move_names (s : St) (src : String) (uids : List Nat) (dst : String) : names (move s src uids dst).2 = names s := by
  unfold move
  split
  · rfl
  · next bs _ =>
    split
    · rfl
    · next hrn =>
      have hd : dst ≠ recName := ne_recName_of_not_isRecName (by simpa using hrn)
      split
      · rfl
      · simp only
        have hi : names (withTx s (fun s0 => if src == recName then moveOutOfRecovery s0 ((selectUids bs uids).map (·.2)) dst
            else actionMove s0 src dst ((selectUids bs uids).map (·.2)))).2 = names s := by
          by_cases hs : src = recName
          · simp only [hs, beq_self_eq_true, ↓reduceIte]
            exact moveOut_names s _ dst hd
          · have : (src == recName) = false := by simpa using hs
            simp only [this, Bool.false_eq_true, ↓reduceIte]
            exact (withTx_frame s _ (actionMove_frame s.nextId { s with txIns := false, txErase := false } src dst _ hs hd)).nms
        split
        · next e s1 he => rw [he] at hi; exact hi
        · next d s1 he => rw [he] at hi; exact hi

theorem expunge_names (s : St) (src : String) (uids : List Nat) : names (expunge s src uids).2 = names s := by
  unfold expunge
  split
  · rfl
  · next bs _ =>
    simp only
    have hi : names (withTx s (fun s0 => actionRemove s0 src ((selectUids bs uids).map (·.2)))).2 = names s := by
      by_cases hs : src = recName
      · subst hs; exact expunge_rec_names s _
      · exact (withTx_frame s _ (actionRemove_frame s.nextId { s with txIns := false, txErase := false } src _ hs)).nms
    split
    · next e s1 he => rw [he] at hi; exact hi
    · next s1 he => rw [he] at hi; exact hi

theorem restart_names (H : Nat → Nat) (s : St) : names (restart H s) = names s := by
  unfold restart
  have hf := rebuild_fields H s.store (recMsgs s) { s with idToHash := [], hashes := [], staleHash := false }
  simp [names, hf.1]

/-! ### the name "Recovered Messages" is taken exactly once -/

def recCountBoxes (s : St) : Nat := (names s).count recName

theorem hasRecPrefix_recName : hasRecPrefix recName = true := by decide

theorem count_delBoxes (bs : List Mbox) (n m : String) (h : m ≠ n) :
    ((delBoxes bs n).map (·.name)).count m = (bs.map (·.name)).count m := by
  induction bs with
  | nil => simp [delBoxes]
  | cons b r ih =>
    by_cases hb : b.name = n
    · have : b.name ≠ m := by rw [hb]; exact Ne.symm h
      simp [delBoxes, hb, List.count_cons, Ne.symm h]
    · simp [delBoxes, hb, List.count_cons, ih]

theorem count_rename (bs : List Mbox) (o n m : String) (ho : m ≠ o) (hn : m ≠ n) :
    ((updBoxes bs o (fun b => { b with name := n })).map (·.name)).count m = (bs.map (·.name)).count m := by
  induction bs with
  | nil => simp [updBoxes]
  | cons b r ih =>
    by_cases hb : b.name = o
    · simp [updBoxes, hb, List.count_cons, Ne.symm ho, Ne.symm hn]
    · simp [updBoxes, hb, List.count_cons, ih]

theorem step_recCount (H : Nat → Nat) (s : St) (c : Cmd) : recCountBoxes (step H s c).2 = recCountBoxes s := by
  cases c with
  | append n l => simp only [recCountBoxes, step, append_names]
  | copy a u d => simp only [recCountBoxes, step, copy_names]
  | move a u d => simp only [recCountBoxes, step, move_names]
  | expunge a u => simp only [recCountBoxes, step, expunge_names]
  | list => rfl
  | restart => simp only [recCountBoxes, step, restart_names]
  | create n =>
    simp only [step, create]
    split; · rfl
    split; · rfl
    next hp =>
    split; · rfl
    split; · rfl
    have hn : n ≠ recName := by
      intro e; subst e; simp [hasRecPrefix_recName] at hp
    simp [recCountBoxes, names, List.count_append, List.count_cons, hn]
  | delete n =>
    simp only [step, delete]
    split; · rfl
    split; · rfl
    next hrn =>
    have hn : n ≠ recName := ne_recName_of_not_isRecName (by simpa using hrn)
    split; · rfl
    simp only [recCountBoxes, names]
    exact count_delBoxes _ _ _ (Ne.symm hn)
  | rename o n =>
    simp only [step, rename]
    split; · rfl
    next hrn =>
    simp only [Bool.or_eq_true, not_or] at hrn
    have ho : o ≠ recName := ne_recName_of_not_isRecName (by simpa using hrn.1)
    have hn : n ≠ recName := ne_recName_of_not_isRecName (by simpa using hrn.2)
    split; · rfl
    split; · rfl
    split; · rfl
    simp only [recCountBoxes, names, updBox]
    exact count_rename _ _ _ _ (Ne.symm ho) (Ne.symm hn)

theorem reachable_recCount {H : Nat → Nat} {s : St} (h : Reachable H s) : recCountBoxes s = 1 := by
  induction h with
  | init sc lim =>
    have : names (init sc lim) = [recName, "INBOX"] := rfl
    simp only [recCountBoxes, this]
    decide
  | step c _ ih => rw [step_recCount]; exact ih

end Gluon.Append
