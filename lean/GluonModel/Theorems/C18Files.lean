/-
C18, users on disk — "a session only ever sees and affects the mailboxes of the user it authenticated as … for every
mix of users on one server".  The typing of the session model (`Theorems/C18.lean`: every user has data of its own)
rests on `backend.newUser` giving every user its own database.  Which database that is, is decided by how the
application-chosen user id reaches SQLite (`Model/UserFiles.lean`).  The theorems say: with the escaping the source
applies (regenerated fact, `dsn_path_is_escaped`) the file SQLite opens is exactly `<dir>/<id>.db`, the driver reads
exactly the intended parameters, and users with different ids never share a database file; and they show what the model
says about an escaper that lets `?` through (`weak_escaper_merges_users`) — the class of defect the wire oracle `c18auth`
looks for with user ids that are equal up to a metacharacter.
-/
import GluonModel.Lemmas.UserFiles
import GluonModel.Generated.Facts.UserFiles

namespace Gluon.C18

open Gluon Gluon.UserFiles

/-- **The database path is escaped with `url.PathEscape` before it is put into the DSN** (by `decide` over the facts
    regenerated from `internal/db_impl/sqlite3/client.go`): `getDatabasePath` is `<dir>/<id>.db`; the DSN is
    `file:<x>?cache=shared&_fk=1&_journal=WAL` where `<x>` is assigned exactly once, from `url.PathEscape` (package
    `net/url`) applied to the path parameter and to nothing else; `NewClient` checks and opens the same path.  Any other
    expression in that position — a hand-written replacer, an escaper for some characters only, no escaping — is emitted
    as `unknown: …` by the translator; then this theorem stops checking and the check falls back to the deep search. -/
theorem dsn_path_is_escaped :
    Facts.dsnEscaper = "url.PathEscape" ∧ Facts.dsnEscaperImport = "net/url" ∧
    Facts.dsnFormat = "file:%v?cache=shared&_fk=1&_journal=WAL" ∧ Facts.dsnArgWrites = 1 ∧
    Facts.dsnParams = ["dir", "userID", "path"] ∧
    Facts.dbPathParams = ["dir", "userID"] ∧
    Facts.dbPathExpr = "filepath.Join(dir, fmt.Sprintf(\"%v.db\", userID))" ∧
    Facts.newClientPathUses = ["path := getDatabasePath(dir, userID)", "pathExists(path)",
      "sql.Open(\"sqlite3\", getDatabaseConn(dir, userID, path))"] ∧
    Facts.storePathExprs = ["OnDiskStoreBuilder.Delete: path,userID: filepath.Join(path, userID)",
      "OnDiskStoreBuilder.New: path,userID,passphrase: filepath.Join(path, userID)"] := by
  decide

/-- **Removing a user's files selects files by exact name** (facts of `db.DeleteDB`): no `filepath.Glob` / `Match` /
    directory walk — a pattern built from the id (`<id>*`) also selects the database of every user whose id starts
    with that id and reads the id itself as a pattern (found by the oracle `c18auth`, repaired in /repo ce4f1f5). -/
theorem removefiles_selects_no_pattern :
    Facts.deleteDBParams = ["dir", "userID"] ∧
    (∀ c ∈ Facts.deleteDBCallees, c ∈ ["os.MkdirAll", "os.Lstat", "os.Stat", "os.Rename", "os.Remove", "filepath.Join"]) ∧
    "os.Rename" ∈ Facts.deleteDBCallees := by
  decide

/-- `url.PathEscape` is an escaper the URI filename survives: its output has no `?` / `#`, and SQLite's percent-decoding
    gives the path back — for every byte string without NUL. -/
theorem pathEscape_good : GoodEscaper pathEscape :=
  ⟨pathEscape_noEnd, pctDecode_pathEscape⟩

/-- **SQLite opens exactly the path, the driver reads exactly the intended parameters** — for every good escaper and
    every path without NUL, whatever other bytes (`?`, `#`, `%`, `&`, `=`, space, non-ASCII …) it holds. -/
theorem opens_own_file (esc : Bytes → Bytes) (hg : GoodEscaper esc) (p : Bytes) (hp : Plain p) :
    uriFile (dsn (esc p)) = p ∧ uriQuery (dsn (esc p)) = query := by
  have hne := hg.noEnd p hp
  constructor
  · unfold uriFile
    rw [drop_scheme, takeWhile_append_stop _ _ _ _ (fun b hb => by simp [hne b hb]) (by decide)]
    exact hg.decodes p hp
  · unfold uriQuery
    rw [drop_scheme, dropWhile_append_stop _ _ _ _ (fun b hb => by
      have := hne b hb
      simp only [endsName, Bool.or_eq_false_iff] at this
      simpa using this.1) (by decide)]
    rfl

/-- **Users with different ids never share a database file** — for all ids that are byte strings without NUL (one path
    element each: `dbPath`), in every directory: the files SQLite opens for them differ, and each is `<dir>/<id>.db`. -/
theorem distinct_ids_distinct_files (dir id₁ id₂ : Bytes) (hd : Plain dir) (h₁ : Plain id₁) (h₂ : Plain id₂)
    (hne : id₁ ≠ id₂) :
    uriFile (dsn (pathEscape (dbPath dir id₁))) = dbPath dir id₁ ∧
    uriFile (dsn (pathEscape (dbPath dir id₂))) = dbPath dir id₂ ∧
    uriFile (dsn (pathEscape (dbPath dir id₁))) ≠ uriFile (dsn (pathEscape (dbPath dir id₂))) := by
  have plainPath : ∀ id, Plain id → Plain (dbPath dir id) := by
    intro id hid b hb
    simp only [dbPath, List.mem_append, List.mem_cons] at hb
    rcases hb with hb | rfl | hb | rfl | rfl | rfl | hb
    · exact hd b hb
    · decide
    · exact hid b hb
    · decide
    · decide
    · decide
    · cases hb
  have e₁ := (opens_own_file pathEscape pathEscape_good _ (plainPath id₁ h₁)).1
  have e₂ := (opens_own_file pathEscape pathEscape_good _ (plainPath id₂ h₂)).1
  refine ⟨e₁, e₂, ?_⟩
  rw [e₁, e₂]
  intro h
  simp only [dbPath, List.append_cancel_left_eq, List.cons.injEq, true_and] at h
  exact hne (List.append_cancel_right h)

/-- **What an escaper that lets `?` through does** (the negative side, in the model): with `weakEscape` (only `%` and `#`
    are encoded) any two paths that agree up to a `?` are opened as the same file, whatever follows the `?` — the users
    `imap?account=alice` and `imap?account=bob` get one database. -/
theorem weak_escaper_merges_users (s a b : Bytes) :
    uriFile (dsn (weakEscape (s ++ 63 :: a))) = uriFile (dsn (weakEscape (s ++ 63 :: b))) := by
  have w : ∀ t, weakEscape (63 :: t) = 63 :: weakEscape t := by intro t; simp [weakEscape]
  unfold uriFile
  rw [drop_scheme, drop_scheme, weakEscape_append, weakEscape_append, w, w]
  simp only [List.append_assoc, List.cons_append]
  rw [takeWhile_indep _ _ _ (weakEscape b ++ 63 :: query) _ (by decide)]

/-- hence `weakEscape` is not a good escaper -/
theorem weakEscape_not_good : ¬ GoodEscaper weakEscape := by
  intro hg
  have h := hg.noEnd [63] (by unfold Plain; decide) 63
  simp [weakEscape, endsName] at h

-- the hypotheses are satisfiable by non-trivial ids; the model reproduces the cut at `?`
/-- "imap?account=alice", "imap?account=bob" -/
example : Plain [105, 109, 97, 112, 63, 97, 99, 99, 111, 117, 110, 116, 61, 97, 108, 105, 99, 101] ∧ Plain [105, 109, 97, 112, 63, 97, 99, 99, 111, 117, 110, 116, 61, 98, 111, 98] ∧
    ([105, 109, 97, 112, 63, 97, 99, 99, 111, 117, 110, 116, 61, 97, 108, 105, 99, 101] : Bytes) ≠ [105, 109, 97, 112, 63, 97, 99, 99, 111, 117, 110, 116, 61, 98, 111, 98] := by
  unfold Plain; decide
/-- weakEscape: "/d/imap?account=alice.db" is opened as "/d/imap" -/
example : uriFile (dsn (weakEscape (dbPath [47, 100] [105, 109, 97, 112, 63, 97, 99, 99, 111, 117, 110, 116, 61, 97, 108, 105, 99, 101]))) = [47, 100, 47, 105, 109, 97, 112] := by decide
/-- pathEscape: the id "a?b#c%41 é" (UTF-8) in "/d" is opened as "/d/a?b#c%41 é.db" -/
example : uriFile (dsn (pathEscape (dbPath [47, 100] [97, 63, 98, 35, 99, 37, 52, 49, 32, 195, 169]))) = dbPath [47, 100] [97, 63, 98, 35, 99, 37, 52, 49, 32, 195, 169] := by decide
/-- url.PathEscape("/d/a?b") = "%2Fd%2Fa%3Fb" -/
example : pathEscape [47, 100, 47, 97, 63, 98] = [37, 50, 70, 100, 37, 50, 70, 97, 37, 51, 70, 98] := by decide

end Gluon.C18
