/-
C03, the protocol state — a message command changes a mailbox only in a session that has it open READ-WRITE, and the
mode of the open mailbox is the mode of the command that opened it.

Property theorems only; lemmas live in `GluonModel/Lemmas/SelRef.lean`.

* reference  `GluonModel/Spec/MailboxRefProto.lean` on top of `Spec/MailboxRef.lean`: per session the open mailbox and
             whether it was opened with EXAMINE; `permits` = when a command may be answered OK (STORE / EXPUNGE /
             UID EXPUNGE / MOVE only read-write), `effect` = what a command answered OK does (CLOSE expunges only
             read-write), `sessStep`: a command answered NO / BAD changes neither the mailboxes nor the protocol state.
* model      `GluonModel/Model/SelState.lean` (`Gluon.Sel`): `state.State`'s `snap` / `ro`, `State.Select`,
             `State.Examine`, `State.Selected`, the read-only checks of the session handlers, `handleClose`; the
             commands themselves are `Gluon.Act.step` (Theorems/C03.lean).
* relation   `ProtoRel`: the same mailbox is open, and while one is open `state.ro` is the mode it was opened in.

Tie to the source: the wire oracle `c03content` runs histories with EXAMINE sessions and failing SELECT / EXAMINE /
COPY / MOVE / STORE commands in front of content commands on the real server; `judge-c03-content` is `permits` /
`effect` / `sessStep` run on what the server answered, `c03-model` is `Gluon.Sel.step`, compared answer by answer and
checkpoint by checkpoint.
-/
import GluonModel.Lemmas.SelRef
import GluonModel.Theorems.C03

namespace Gluon.C03
open Gluon.DB Gluon.Act

/-! ## a failing SELECT / EXAMINE -/

/-- **A SELECT or EXAMINE that is not answered OK leaves the session where it was** — the mailbox that was open stays
    open and `state.ro` keeps its value, so the mailbox is still in the mode it was opened in; the index is not touched.
    For every index, every session state, every name. -/
theorem failed_open_keeps_protocol_state (E : Env) (s : State) (sess : Sel.Sess) (name : String) (q : Second) :
    ((Sel.step E s sess (.select name) q).1 ≠ .of .ok → (Sel.step E s sess (.select name) q).2 = (sess, s)) ∧
    ((Sel.step E s sess (.examine name) q).1 ≠ .of .ok → (Sel.step E s sess (.examine name) q).2 = (sess, s)) := by
  constructor
  · intro h; simp only [Sel.step] at h ⊢; rw [sel_open_failed h]
  · intro h; simp only [Sel.step] at h ⊢; rw [sel_open_failed h]

/-- a SELECT / EXAMINE answered OK opens the named mailbox in the mode of the command, and the mailbox exists -/
theorem open_sets_mode (E : Env) (s : State) (sess : Sel.Sess) (name : String) (q : Second) :
    ((Sel.step E s sess (.select name) q).1 = .of .ok →
      (Sel.step E s sess (.select name) q).2.1 = { snap := some name, ro := false } ∧ (abs s).hasMailbox name = true) ∧
    ((Sel.step E s sess (.examine name) q).1 = .of .ok →
      (Sel.step E s sess (.examine name) q).2.1 = { snap := some name, ro := true } ∧ (abs s).hasMailbox name = true) := by
  constructor
  · intro h; simp only [Sel.step] at h ⊢; exact sel_open_ok h
  · intro h; simp only [Sel.step] at h ⊢; exact sel_open_ok h

/-! ## a read-only session -/

/-- **In a read-only session STORE, EXPUNGE / UID EXPUNGE, COPY and MOVE are refused (NO "the mailbox is read-only") and
    change nothing** — for every index, every message list, every flag list, every destination. -/
theorem read_only_refuses (E : Env) (s : State) (sess : Sel.Sess) (mb : String) (hs : sess.snap = some mb) (hro : sess.ro = true)
    (q : Second) (msgs : Pairs) (pending : List MessageId) (action : StoreAction) (flags : List String) (dst : String) :
    Sel.step E s sess (.store msgs action flags) q = (.readOnly, sess, s) ∧
    Sel.step E s sess (.expunge msgs pending) q = (.readOnly, sess, s) ∧
    Sel.step E s sess (.copy dst msgs) q = (.readOnly, sess, s) ∧
    Sel.step E s sess (.move dst msgs) q = (.readOnly, sess, s) := by
  simp only [Sel.step]
  exact ⟨sel_guarded_read_only hs hro, sel_guarded_read_only hs hro, sel_guarded_read_only hs hro, sel_guarded_read_only hs hro⟩

/-- **CLOSE of a read-only session removes nothing**: it is answered OK, the mailbox is closed, the index is unchanged —
    whatever the session's view shows as `\Deleted`. -/
theorem read_only_close_removes_nothing (E : Env) (s : State) (sess : Sel.Sess) (mb : String) (hs : sess.snap = some mb)
    (hro : sess.ro = true) (q : Second) (msgs : Pairs) (pending : List MessageId) :
    Sel.step E s sess (.close msgs pending) q = (.of .ok, { sess with snap := none }, s) := by
  simp only [Sel.step, Sel.selectedMailbox, hs, hro, if_true]

/-- **CLOSE of a read-write session is the reference's CLOSE**: answered OK, the messages the view shows as `\Deleted`
    leave the selected mailbox (`expungeMsgs`; `refClose` for a view that is up to date), nothing else changes, the
    mailbox is closed. -/
theorem read_write_close_expunges (E : Env) (hE : EnvOk E) (s : State) (hG : Good E s) (sess : Sel.Sess) (mb : String)
    (hs : sess.snap = some mb) (hro : sess.ro = false) (q : Second) (msgs : Pairs) (pending : List MessageId)
    (h : (Sel.step E s sess (.close msgs pending) q).1 = .of .ok) :
    abs (Sel.step E s sess (.close msgs pending) q).2.2 =
        MailboxRef.expungeMsgs (abs s) mb ((Sel.notPending msgs pending).map (·.1)) ∧
      (Sel.step E s sess (.close msgs pending) q).2.1.snap = none := by
  have hrel : ProtoRel sess { selected := some mb, readOnly := false } := ⟨hs, fun _ => hro⟩
  obtain ⟨_, habs, hrel', _⟩ := sess_step_ref E hE s hG sess _ hrel (.close msgs pending) q trivial h
  constructor
  · rw [habs]; simp [toRefS, MailboxRef.effect]
  · rw [hrel'.1]; simp [toRefS, MailboxRef.effect]

/-- **EXPUNGE / UID EXPUNGE never remove an instance the session has not seen** (gluon 9c5a27f): an entry of the selected
    mailbox whose message has a pending `*expunge` responder in the session — the session still shows the OLD instance of
    that message, `\Deleted`, while the mailbox holds a NEW one under a fresh UID after a COPY / MOVE onto the mailbox
    itself — is still in the mailbox after the command, whatever the session's view marks.  (Without the filter the
    new, non-`\Deleted` instance was removed: the index knows a message by its id only.) -/
theorem expunge_spares_pending (E : Env) (hE : EnvOk E) (s : State) (hG : Good E s) (sess : Sel.Sess) (mb : String)
    (hs : sess.snap = some mb) (hro : sess.ro = false) (q : Second) (msgs : Pairs) (pending : List MessageId)
    (h : (Sel.step E s sess (.expunge msgs pending) q).1 = .of .ok)
    (b : MailboxRef.Mailbox) (hb : (abs s).mailbox? mb = some b) (e : MailboxRef.Entry) (he : e ∈ b.entries)
    (hp : e.msg ∈ pending) :
    ∃ b', (abs (Sel.step E s sess (.expunge msgs pending) q).2.2).mailbox? mb = some b' ∧ e ∈ b'.entries := by
  have hrel : ProtoRel sess { selected := some mb, readOnly := false } := ⟨hs, fun _ => hro⟩
  obtain ⟨_, habs, _, _⟩ := sess_step_ref E hE s hG sess _ hrel (.expunge msgs pending) q trivial h
  rw [habs]
  simp only [toRefS, MailboxRef.effect]
  exact expungeMsgs_keeps (abs s) mb _ b hb e he (notPending_spares msgs pending e.msg hp)

/-- … and neither does CLOSE -/
theorem close_spares_pending (E : Env) (hE : EnvOk E) (s : State) (hG : Good E s) (sess : Sel.Sess) (mb : String)
    (hs : sess.snap = some mb) (hro : sess.ro = false) (q : Second) (msgs : Pairs) (pending : List MessageId)
    (h : (Sel.step E s sess (.close msgs pending) q).1 = .of .ok)
    (b : MailboxRef.Mailbox) (hb : (abs s).mailbox? mb = some b) (e : MailboxRef.Entry) (he : e ∈ b.entries)
    (hp : e.msg ∈ pending) :
    ∃ b', (abs (Sel.step E s sess (.close msgs pending) q).2.2).mailbox? mb = some b' ∧ e ∈ b'.entries := by
  obtain ⟨habs, _⟩ := read_write_close_expunges E hE s hG sess mb hs hro q msgs pending h
  rw [habs]
  exact expungeMsgs_keeps (abs s) mb _ b hb e he (notPending_spares msgs pending e.msg hp)

/-! ## refinement -/

/-- **One command answered OK is one step of the reference in the reference's protocol state** — for every command of
    the session layer (SELECT, EXAMINE, CLOSE, STORE, EXPUNGE / UID EXPUNGE, COPY, MOVE), every argument, every index
    satisfying the invariant and every session whose `(snap, ro)` agrees with the reference's protocol state: the
    reference PERMITS the OK (so STORE / EXPUNGE / MOVE are never answered OK in a mailbox opened with EXAMINE), the new
    content is the reference's `effect` on the old one (so CLOSE expunges exactly in read-write sessions), and the new
    `(snap, ro)` agrees with the reference's new protocol state.
    (`_partial`: `SessOk` — `NoForward` for STORE, as in `store_ref_partial`.) -/
theorem sess_command_ref_partial (E : Env) (hE : EnvOk E) (s : State) (hG : Good E s) (sess : Sel.Sess) (p : MailboxRef.Proto)
    (hrel : ProtoRel sess p) (c : Sel.Cmd) (q : Second) (hc : SessOk c) (h : (Sel.step E s sess c q).1 = .of .ok) :
    MailboxRef.permits (abs s) p (toRefS c) = true ∧
      abs (Sel.step E s sess c q).2.2 = (MailboxRef.effect (abs s) p (toRefS c)).2 ∧
      ProtoRel (Sel.step E s sess c q).2.1 (MailboxRef.effect (abs s) p (toRefS c)).1 ∧
      Good E (Sel.step E s sess c q).2.2 :=
  sess_step_ref E hE s hG sess p hrel c q hc h

/-- **A command answered NO or BAD leaves the mailboxes AND the session's protocol state unchanged** — SELECT / EXAMINE
    of a mailbox that does not exist, a command in a session without a selected mailbox, a refusal of the read-only
    check, a failing command of the action level.
    (`_partial`: the failure is not in the second transaction of `stateDBWrite`, as in `failed_no_effect_partial`.) -/
theorem sess_failed_no_effect_partial (E : Env) (s : State) (sess : Sel.Sess) (c : Sel.Cmd) (q : Second)
    (h : (Sel.step E s sess c q).1 ≠ .of .ok) (h2 : (Sel.step E s sess c q).1 ≠ .of (.no .secondTx)) :
    (Sel.step E s sess c q).2.1 = sess ∧ abs (Sel.step E s sess c q).2.2 = abs s := by
  rw [sess_step_failed E s sess c q h h2]; exact ⟨rfl, rfl⟩

/-- **C03 with protocol states (partial)** — for every history of SELECT / EXAMINE / CLOSE / STORE / EXPUNGE / COPY /
    MOVE commands of any number of sessions, in any order, with any arguments, failing commands anywhere in between:
    the content after the history is the reference run (`worldRun`: a command answered OK has its `effect`, any other
    changes nothing) on the content before; every OK of the history is one the reference permits in the protocol
    state of the issuing session; and at the end every session's `(snap, ro)` agrees with the reference's protocol state
    — the open mailbox is in the mode of the command that opened it, whatever failed since.
    (`_partial`: `SessHistOk` — per command the named hypothesis of its theorem and no failing second transaction.) -/
theorem C03_sessions_partial (E : Env) (hE : EnvOk E) (w : Sel.World) (hG : Good E w.st) (protos : Nat → MailboxRef.Proto)
    (hrel : ∀ i, ProtoRel (w.sess i) (protos i)) (es : List (Nat × Sel.Cmd × Second)) (hH : SessHistOk E w es) :
    abs (Sel.runW E w es).st = (MailboxRef.worldRun ⟨abs w.st, protos⟩ (answered E w es)).st ∧
      (∀ i, ProtoRel ((Sel.runW E w es).sess i) ((MailboxRef.worldRun ⟨abs w.st, protos⟩ (answered E w es)).proto i)) ∧
      MailboxRef.worldPermits ⟨abs w.st, protos⟩ (answered E w es) = true :=
  let r := runW_ref E hE es w ⟨abs w.st, protos⟩ hG rfl hrel hH
  ⟨r.1, r.2.1, r.2.2.1⟩

/-! ## the hypotheses are satisfiable; a history with a failing SELECT in an EXAMINEd mailbox -/

/-- a session that has just logged in agrees with the reference's initial protocol state -/
example : ProtoRel {} {} := ⟨rfl, fun h => by cases h⟩

/-- `s1`: INBOX holds one message (`\Seen`).  EXAMINE INBOX, then SELECT of a mailbox that does not exist -/
def exa : Sel.Sess := (Sel.step E0 s1 {} (.examine "INBOX") {}).2.1

example : (Sel.step E0 s1 {} (.examine "INBOX") {}).1 = .of .ok ∧ exa = { snap := some "INBOX", ro := true } := by
  decide +kernel

/-- the failing SELECT is answered NO and the session still has INBOX open read-only -/
example : Sel.step E0 s1 exa (.select "nosuch") {} = (.of (.no .noSuchMailbox), exa, s1) := by decide +kernel

/-- … so STORE +FLAGS (\Deleted) is still refused and CLOSE removes nothing -/
example : Sel.step E0 s1 exa (.store [(0, "r")] .add ["\\Deleted"]) {} = (.readOnly, exa, s1) := by decide +kernel
example : Sel.step E0 s1 exa (.close [(0, "r")] []) {} = (.of .ok, { snap := none, ro := true }, s1) := by decide +kernel

/-- the mirror image: SELECT INBOX, a failing EXAMINE, then STORE \Deleted and CLOSE do expunge -/
def sel : Sel.Sess := (Sel.step E0 s1 {} (.select "INBOX") {}).2.1

example : Sel.step E0 s1 sel (.examine "nosuch") {} = (.of (.no .noSuchMailbox), sel, s1) := by decide +kernel

example :
    let r1 := Sel.step E0 s1 sel (.store [(0, "r")] .add ["\\Deleted"]) {}
    let r2 := Sel.step E0 r1.2.2 r1.2.1 (.close [(0, "r")] []) {}
    r1.1 = .of .ok ∧ r2.1 = .of .ok ∧ (abs r2.2.2).mailbox? "INBOX" = some { entries := [], uidNext := 2 } := by
  decide +kernel

example : SessOk (.store [(0, "r")] .add ["\\Deleted"]) := by unfold SessOk NoForward; decide

/-- regression example for gluon 9c5a27f (corpus/C03/d5): STORE 1 +FLAGS (\Deleted), COPY 1 onto INBOX itself (message 0
    now sits under UID 2, not `\Deleted`), then EXPUNGE by the session that still shows UID 1 `\Deleted` and holds the
    pending removal of message 0: the new instance stays; without the filter (`pending = []`) it is removed -/
example :
    let r1 := Sel.step E0 s1 sel (.store [(0, "r")] .add ["\\Deleted"]) {}
    let r2 := Sel.step E0 r1.2.2 sel (.copy "INBOX" [(0, "r")]) {}
    let r3 := Sel.step E0 r2.2.2 sel (.expunge [(0, "r")] [0]) {}
    let r3' := Sel.step E0 r2.2.2 sel (.expunge [(0, "r")] []) {}
    r3.1 = .of .ok ∧ (abs r3.2.2).mailbox? "INBOX" = some { entries := [⟨2, 0, false⟩], uidNext := 3 } ∧
      (abs r3'.2.2).mailbox? "INBOX" = some { entries := [], uidNext := 3 } := by
  decide +kernel

end Gluon.C03
