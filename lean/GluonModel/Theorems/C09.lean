/-
C09 — The message store returns exactly the stored bytes or an error.

Property theorems only; lemmas live in `Lemmas/Store.lean`, `Lemmas/StoreToy.lean`,
`Lemmas/StoreLock.lean`.  Models: `Model/Store.lean` (file format, `Set`/`Get`/`Delete`/`List` of
store/disk.go over a directory map, AES-GCM and the LZ4 frame codec as abstract primitives) and
`Model/StoreLock.lean` (the lock table of store/write_controlled_store.go as a transition system).
Constants (`blockSize`, header bytes, "no additional data", "io.EOF swallowed") are regenerated from
the source into `Generated/Facts/Store.lean`; `Spec/StoreGluon.lean` builds `gluonCfg` from them.

Hypotheses are always explicit premises:
  `Laws P`     Open∘Seal = id, |Seal x| = |x| + overhead, LZ4 reader ∘ LZ4 writer = id
  `AEAD P`     idealised integrity: Open succeeds only on outputs of Seal for the same key and nonce
  `LZ4Seq P`   the LZ4 reader finishes exactly at the end mark of a frame
  `Unforged`   a given altered piece is not an output of Seal (whoever altered the file has no key)
  `EmptyIsEOF` the LZ4 reader returns io.EOF on an empty source
and all of them hold for the executable toy primitives of `Spec/StoreToy.lean` (see the examples
at the end), so no theorem here is vacuous.
-/
import GluonModel.Lemmas.Store
import GluonModel.Lemmas.StoreToy
import GluonModel.Lemmas.StoreLock
import GluonModel.Spec.StoreGluon

namespace Gluon.C09

open Gluon.Store

variable {K : Type}

/-! ## Round trip and the directory -/

/-- **Get after Set returns exactly the stored bytes** — for every content `b` of every length
    (empty, one block, any number of blocks: the proof is an induction over the block list), every
    message id, every directory state, every key, every nonce `rand.Read` may have drawn, every
    positive block size. -/
theorem get_set (s : Store K) (hL : Laws s.P) (hb : 0 < s.cfg.blockSize) (nonce : Bytes)
    (hn : nonce.length = s.P.nonceSize) (fs : FS) (id : Id) (b : Bytes) :
    s.get (s.set nonce fs id b) id = .ok b := by
  simp only [Store.get, Store.set, FS.read_write_same, encode]
  rw [decodeFile_sealed hL s.key nonce hn hb _ (cut_shaped hb _), flatten_cut hb, hL.decode_compress]
  rfl

/-- **The constants of the current source** — what the model relies on, decided on the facts
    regenerated from store/disk.go: `blockSize` is positive; the header is the recognised
    `"GLUON-CACHE" ++ little-endian uint32 version`; `Set` cuts at `blockSize`, `Get` reads pieces of
    `blockSize + Overhead()`; `Seal`/`Open` are called with the file's one nonce and **no additional
    data** (nothing binds a block to its position or the file to its length). -/
theorem format_facts :
    0 < Facts.Store.blockSize ∧ Facts.Store.headerShapeKnown = true ∧
    Facts.Store.headerBytes.length = Facts.Store.headerID.length + 4 ∧
    Facts.Store.setCutsAtBlockSize = some true ∧ Facts.Store.pieceIsBlockPlusOverhead = some true ∧
    Facts.Store.sealAADNil = some true ∧ Facts.Store.openAADNil = some true := by
  decide

/-- **A piece that does not open ends the plain-text stream with an error, in the current source** —
    decided on the fact regenerated from the reader goroutine of `onDiskStore.Get`: directly after
    `decrypted, err := c.gcm.Open(…)` comes `if err != nil { writer.CloseWithError(<that error>); return }`.
    This is the statement the model's `openPrefix` renders as `Term.fail` (and not `Term.eof`) for the
    first piece that does not open, on which `alteration_detected_partial`, `wrong_key_detected` and
    `nonce_alteration_detected` rest: were the failure handed to the LZ4 reader as a plain end of
    file, a damaged later block would read like a file cut on the block boundary before it
    (`truncation_at_block_boundary`), i.e. possibly as a strict prefix without error. -/
theorem open_failure_is_pipe_error : Facts.Store.openFailureFailsPipe = some true := by
  decide

/-- **`get_set` for the store as configured in the source** (`blockSize` and header from the
    regenerated facts). -/
theorem get_set_gluon (s : Store K) (hc : s.cfg = gluonCfg) (hL : Laws s.P) (nonce : Bytes)
    (hn : nonce.length = s.P.nonceSize) (fs : FS) (id : Id) (b : Bytes) :
    s.get (s.set nonce fs id b) id = .ok b :=
  get_set s hL (by rw [hc]; exact format_facts.1) nonce hn fs id b

/-- **The file `Set` writes has the predicted size** — header + nonce + compressed stream + one
    AEAD overhead per block of `blockSize` (the number the `store-size` dialect compares with the
    size of the real file). -/
theorem set_file_size (cfg : Config) (P : Prims K) (hL : Laws P) (hb : 0 < cfg.blockSize) (k : K)
    (nonce b : Bytes) :
    (encode cfg P k nonce b).length =
      fileSize cfg.header.length nonce.length cfg.blockSize P.overhead (P.compress b).length := by
  simp only [encode, fileSize, List.length_append, flatten_map_seal_length hL, flatten_cut hb,
    cut_length hb]
  omega

/-- **IDs do not influence each other** — `Set` and `Delete` of other ids leave what `Get` returns
    for `id'` unchanged (whatever it was, error included). -/
theorem ids_independent (s : Store K) (nonce : Bytes) (fs : FS) (id id' : Id) (b : Bytes) (ids : List Id)
    (hne : id' ≠ id) (hnot : id' ∉ ids) :
    s.get (s.set nonce fs id b) id' = s.get fs id' ∧
    s.get (Store.delete fs ids).1 id' = s.get fs id' := by
  constructor
  · simp only [Store.get, Store.set, FS.read_write_other fs id id' _ hne]
  · simp only [Store.get, delete_read_other id' ids fs hnot]

/-- **Overwriting replaces the content** — after a second `Set` the first content is gone: `Get`
    returns the new bytes, the file is exactly the new encoding, and the id is listed once. -/
theorem overwrite_replaces (s : Store K) (hL : Laws s.P) (hb : 0 < s.cfg.blockSize) (n1 n2 : Bytes)
    (hn : n2.length = s.P.nonceSize) (fs : FS) (hwf : fs.WF) (id : Id) (b1 b2 : Bytes) :
    s.get (s.set n2 (s.set n1 fs id b1) id b2) id = .ok b2 ∧
    (s.set n2 (s.set n1 fs id b1) id b2).read id = some (encode s.cfg s.P s.key n2 b2) ∧
    (Store.list (s.set n2 (s.set n1 fs id b1) id b2)).Nodup := by
  refine ⟨get_set s hL hb n2 hn _ id b2, by simp [Store.set], ?_⟩
  exact FS.wf_write _ id _ (FS.wf_write fs id _ hwf)

/-- **Deleted ids are gone** — after a `Delete(ids...)` that reported no error, `Get` of each of
    them is "not found"; and `Delete` of an id that has no file reports an error and changes
    nothing. -/
theorem delete_removes (s : Store K) (fs : FS) (ids : List Id) :
    ((Store.delete fs ids).2 = none → ∀ id ∈ ids, s.get (Store.delete fs ids).1 id = .err .notFound) ∧
    (∀ id, fs.read id = none → Store.delete fs [id] = (fs, some .notFound)) := by
  constructor
  · intro h id hid
    simp only [Store.get, delete_removes_all ids fs h id hid]
  · intro id h
    simp [Store.delete, h]

/-- **Listing yields exactly the stored ids** — an id is listed iff `Get` does not say "not
    found" (iff it has a file); `Set` adds exactly that id, `Delete` removes exactly those ids;
    starting from the empty directory no id is ever listed twice. -/
theorem list_exact (s : Store K) (nonce : Bytes) (fs : FS) (id id' : Id) (b : Bytes) :
    (id ∈ Store.list fs ↔ s.get fs id ≠ .err .notFound) ∧
    (id' ∈ Store.list (s.set nonce fs id b) ↔ id' = id ∨ id' ∈ Store.list fs) ∧
    (id' ∈ Store.list (Store.delete fs [id]).1 ↔ id' ≠ id ∧ id' ∈ Store.list fs) ∧
    (Store.list FS.empty = [] ∧ (fs.WF → (Store.list fs).Nodup ∧ (s.set nonce fs id b).WF ∧ (Store.delete fs [id]).1.WF)) := by
  refine ⟨?_, ?_, ?_, rfl, fun h => ⟨h, FS.wf_write fs id _ h, delete_wf [id] fs h⟩⟩
  · simp only [Store.list, FS.mem_ids_iff_read, Store.get]
    cases hr : fs.read id with
    | none => simp
    | some f => simp [decodeFile_ne_notFound]
  · simp only [Store.list, FS.mem_ids_iff_read, Store.set]
    by_cases h : id' = id
    · subst h; simp
    · simp [FS.read_write_other fs id id' _ h, h]
  · simp only [Store.list, FS.mem_ids_iff_read]
    by_cases h : id' = id
    · subst h
      have := delete_read_none id' [id'] fs
      simp only [Store.delete] at this ⊢
      cases hr : fs.read id' with
      | none => simp [hr]
      | some f => simp
    · rw [delete_read_other id' [id] fs (by simp [h])]
      simp [h]

/-- **While a `Set` is in progress the listing holds exactly the stored ids and the id being stored, and
    nothing else** — for *every* intermediate content `written` of the file (nothing yet, the header, header and
    nonce, any number of sealed blocks): the file a `Set` is writing has the id's own name from the first
    moment on, so a `List` that overlaps a `Set` of another id returns every stored id, possibly the id being
    stored, and never a name that was not given to `Set` (no temporary name, no zero id); no id twice.
    (The `store` dialect's `B`/`E`/`A` operations and the oracle's `listflight` case hold a `Set` open on the
    real store and compare.) -/
theorem list_exact_in_flight (fs : FS) (id id' : Id) (written : Bytes) :
    (id' ∈ Store.list (Store.setInFlight fs id written) ↔ id' = id ∨ id' ∈ Store.list fs) ∧
    (fs.WF → (Store.list (Store.setInFlight fs id written)).Nodup) := by
  refine ⟨?_, fun h => FS.wf_write fs id _ h⟩
  simp only [Store.list, Store.setInFlight, FS.mem_ids_iff_read]
  by_cases h : id' = id
  · subst h; simp
  · simp [FS.read_write_other fs id id' _ h, h]

/-! ## Altered, truncated, foreign files -/

/-- **Whatever is in the file, `Get` only decodes what this key sealed** (needs `AEAD` only) — for
    *every* byte string `f` found under an id: if `Get` returns bytes (and no fallback reader is
    configured), then `f` is header ++ nonce ++ body, and the plain text handed to the LZ4 reader
    consists of blocks `ps` whose ciphertexts `Seal(key, nonce, p)` are, in this order, the first
    pieces of the body.  Integrity of the *bytes* is thereby reduced to: which sequences of
    genuinely sealed blocks does the LZ4 reader accept. -/
theorem get_reads_only_sealed_blocks (cfg : Config) (P : Prims K) (hA : AEAD P) (k : K)
    (hfb : cfg.fallback = none) (f out : Bytes) (h : decodeFile cfg P k f = .ok out) :
    ∃ (nonce body : Bytes) (ps : List Bytes) (t : Term), f = cfg.header ++ nonce ++ body ∧ nonce.length = P.nonceSize ∧
      ps.map (P.aeadSeal k nonce) <+: cut (cfg.blockSize + P.overhead) body ∧
      finish cfg (P.decode ps.flatten t) = .ok out := by
  unfold decodeFile at h
  simp only at h
  split at h
  · split at h
    · exact absurd h (by simp)
    · simp [viaFallback, hfb] at h
  · next hlen =>
    split at h
    · simp [viaFallback, hfb] at h
    · next hhdr =>
      split at h
      · exact absurd h (by simp)
      · next hnl =>
        simp only [ne_eq, Decidable.not_not] at hhdr
        let rest := f.drop cfg.header.length
        let nonce := rest.take P.nonceSize
        let body := rest.drop P.nonceSize
        obtain ⟨used, hpre, hlen', hall⟩ := openPrefix_sound (P.aeadOpen k nonce) (cut (cfg.blockSize + P.overhead) body)
        refine ⟨nonce, body, (openPrefix (P.aeadOpen k nonce) (cut (cfg.blockSize + P.overhead) body)).1,
          (openPrefix (P.aeadOpen k nonce) (cut (cfg.blockSize + P.overhead) body)).2, ?_, ?_, ?_, h⟩
        · rw [List.append_assoc]
          show f = cfg.header ++ (List.take P.nonceSize rest ++ List.drop P.nonceSize rest)
          rw [List.take_append_drop, ← hhdr, List.take_append_drop]
        · show (List.take P.nonceSize (List.drop cfg.header.length f)).length = P.nonceSize
          rw [List.length_take]; omega
        · have : (openPrefix (P.aeadOpen k nonce) (cut (cfg.blockSize + P.overhead) body)).1.map (P.aeadSeal k nonce) = used := by
            apply List.ext_getElem
            · simp [hlen']
            · intro i h1 h2
              simp only [List.getElem_map]
              have := hall i h2 (by simpa using h1)
              exact (hA.open_only_sealed k nonce _ _ this).symm
          rw [this]; exact hpre

/-- **A different passphrase yields an error** — reading a file under a key other than the one
    it was written with fails (the first block does not open; the LZ4 reader gets a pipe error
    before any byte of the frame). -/
theorem wrong_key_detected (cfg : Config) (P : Prims K) (hL : Laws P) (hA : AEAD P) (hZ : LZ4Seq P)
    (hb : 0 < cfg.blockSize) (k k' : K) (hk : k ≠ k') (nonce : Bytes) (hn : nonce.length = P.nonceSize)
    (b : Bytes) : decodeFile cfg P k' (encode cfg P k nonce b) = .err .corrupt := by
  unfold encode
  have hs := cut_shaped hb (P.compress b)
  have hfl := flatten_cut hb (P.compress b)
  cases hps : cut cfg.blockSize (P.compress b) with
  | nil => rw [hps] at hfl; exact absurd hfl.symm (hZ.frame_nonempty b)
  | cons p rest =>
    rw [hps] at hs
    have hcut := cut_sealed hL k nonce (p :: rest) hs hb
    have hp : p ≠ [] := shaped_ne_nil_of_mem hb _ hs p List.mem_cons_self
    have hne : ((p :: rest).map (P.aeadSeal k nonce)).flatten ≠ [] := by
      intro he
      have := congrArg List.length he
      simp only [List.map, List.flatten_cons, List.length_append, hL.seal_length, List.length_nil] at this
      have : p.length = 0 := by omega
      exact hp (List.eq_nil_of_length_eq_zero this)
    rw [cut_of_ne_nil (by omega) _ hne] at hcut
    have hhead : (((p :: rest).map (P.aeadSeal k nonce)).flatten).take (cfg.blockSize + P.overhead) = P.aeadSeal k nonce p := by
      simpa using (List.cons.inj hcut).1
    have := decodeFile_broken (cfg := cfg) hL k' nonce hn hb [] (by simp)
      (((p :: rest).map (P.aeadSeal k nonce)).flatten) hne
      (by rw [hhead]; exact hA.open_other k nonce k' nonce p hn hn (Or.inl hk))
    simp only [List.map_nil, List.flatten_nil, List.nil_append] at this
    rw [this, hZ.no_early_end b [] List.nil_prefix (fun h => hZ.frame_nonempty b h.symm)]
    rfl

/-- **An altered nonce yields an error** — any other nonce of the right length in front of the
    same blocks: the first block does not open. -/
theorem nonce_alteration_detected (cfg : Config) (P : Prims K) (hL : Laws P) (hA : AEAD P) (hZ : LZ4Seq P)
    (hb : 0 < cfg.blockSize) (k : K) (nonce nonce' : Bytes) (hn : nonce.length = P.nonceSize)
    (hn' : nonce'.length = P.nonceSize) (hne' : nonce ≠ nonce') (b : Bytes) :
    decodeFile cfg P k (cfg.header ++ nonce' ++
      ((cut cfg.blockSize (P.compress b)).map (P.aeadSeal k nonce)).flatten) = .err .corrupt := by
  have hs := cut_shaped hb (P.compress b)
  have hfl := flatten_cut hb (P.compress b)
  cases hps : cut cfg.blockSize (P.compress b) with
  | nil => rw [hps] at hfl; exact absurd hfl.symm (hZ.frame_nonempty b)
  | cons p rest =>
    rw [hps] at hs
    have hcut := cut_sealed hL k nonce (p :: rest) hs hb
    have hp : p ≠ [] := shaped_ne_nil_of_mem hb _ hs p List.mem_cons_self
    have hne : ((p :: rest).map (P.aeadSeal k nonce)).flatten ≠ [] := by
      intro he
      have := congrArg List.length he
      simp only [List.map, List.flatten_cons, List.length_append, hL.seal_length, List.length_nil] at this
      have : p.length = 0 := by omega
      exact hp (List.eq_nil_of_length_eq_zero this)
    rw [cut_of_ne_nil (by omega) _ hne] at hcut
    have hhead : (((p :: rest).map (P.aeadSeal k nonce)).flatten).take (cfg.blockSize + P.overhead) = P.aeadSeal k nonce p := by
      simpa using (List.cons.inj hcut).1
    have := decodeFile_broken (cfg := cfg) hL k nonce' hn' hb [] (by simp)
      (((p :: rest).map (P.aeadSeal k nonce)).flatten) hne
      (by rw [hhead]; exact hA.open_other k nonce k nonce' p hn hn' (Or.inr hne'))
    simp only [List.map_nil, List.flatten_nil, List.nil_append] at this
    rw [this, hZ.no_early_end b [] List.nil_prefix (fun h => hZ.frame_nonempty b h.symm)]
    rfl

/-- **An altered or truncated header yields an error** (no fallback reader configured) — a file
    shorter than the header, or whose first bytes are not the header, is rejected before anything
    is decrypted. -/
theorem header_alteration_detected (cfg : Config) (P : Prims K) (k : K) (hfb : cfg.fallback = none) (f : Bytes) :
    (f.length < cfg.header.length → decodeFile cfg P k f = .err .short) ∧
    (cfg.header.length ≤ f.length → f.take cfg.header.length ≠ cfg.header →
      decodeFile cfg P k f = .err .notValid) := by
  constructor
  · intro h
    unfold decodeFile
    simp only [h, if_true, viaFallback, hfb]
    split <;> rfl
  · intro h1 h2
    unfold decodeFile
    have : ¬ f.length < cfg.header.length := by omega
    simp only [this, if_false, h2, ne_eq, not_false_eq_true, if_true, viaFallback, hfb]

/-- **A file cut inside the nonce yields an error.** -/
theorem truncation_in_nonce_detected (cfg : Config) (P : Prims K) (k : K) (r : Bytes)
    (hr : r.length < P.nonceSize) : decodeFile cfg P k (cfg.header ++ r) = .err .nonce := by
  unfold decodeFile
  have h1 : ¬ (cfg.header ++ r).length < cfg.header.length := by simp
  have h2 : (cfg.header ++ r).take cfg.header.length = cfg.header := by simp
  have h3 : (cfg.header ++ r).drop cfg.header.length = r := by simp
  simp only [h1, h2, h3, hr, if_false, if_true, ne_eq, not_true_eq_false]

/-- **A change inside a block is detected** (`_partial`: hypothesis `hU`, *Unforged* — the first
    piece of the file that differs from what was written is not an output of `Seal` under the
    file's key and nonce; that is what AES-GCM integrity promises against anyone without the key) —
    intact blocks `pre`, then arbitrary bytes `tail` (a flipped byte anywhere in block `x`,
    a block cut short, garbage — followed by anything): `Get` returns an error.  Covers every
    truncation that is not on a block boundary. -/
theorem alteration_detected_partial (cfg : Config) (P : Prims K) (hL : Laws P) (hA : AEAD P) (hZ : LZ4Seq P)
    (hb : 0 < cfg.blockSize) (k : K) (nonce : Bytes) (hn : nonce.length = P.nonceSize) (b : Bytes)
    (pre post : List Bytes) (x : Bytes) (hps : cut cfg.blockSize (P.compress b) = pre ++ x :: post)
    (tail : Bytes) (ht : tail ≠ [])
    (hU : Unforged P k nonce (tail.take (cfg.blockSize + P.overhead))) :
    decodeFile cfg P k (cfg.header ++ nonce ++ ((pre.map (P.aeadSeal k nonce)).flatten ++ tail))
      = .err .corrupt := by
  have hs := cut_shaped hb (P.compress b)
  rw [hps] at hs
  have hpre := shaped_prefix_full pre (x :: post) hs (by simp)
  have hbad : P.aeadOpen k nonce (tail.take (cfg.blockSize + P.overhead)) = none := by
    cases ho : P.aeadOpen k nonce (tail.take (cfg.blockSize + P.overhead)) with
    | none => rfl
    | some y => exact absurd (hA.open_only_sealed k nonce _ y ho) (hU y)
  rw [decodeFile_broken hL k nonce hn hb pre hpre tail ht hbad]
  have hstrict := flatten_pre_strict hb pre post x hs
  rw [← hps, flatten_cut hb] at hstrict
  rw [hZ.no_early_end b _ hstrict.1 hstrict.2]
  rfl

/-- **What a file cut on a block boundary reads back as** — keeping only the first blocks `pre`
    (all of them, or none) of a stored file: every kept block opens, nothing signals that blocks
    are missing, and `Get` returns whatever the LZ4 reader makes of a strict prefix of the frame
    followed by a clean end of stream. -/
theorem truncation_at_block_boundary (cfg : Config) (P : Prims K) (hL : Laws P) (hb : 0 < cfg.blockSize)
    (k : K) (nonce : Bytes) (hn : nonce.length = P.nonceSize) (b : Bytes) (pre post : List Bytes)
    (hps : cut cfg.blockSize (P.compress b) = pre ++ post) (hpost : post ≠ []) :
    decodeFile cfg P k (cfg.header ++ nonce ++ (pre.map (P.aeadSeal k nonce)).flatten)
      = finish cfg (P.decode pre.flatten .eof) := by
  have hs := cut_shaped hb (P.compress b)
  rw [hps] at hs
  exact decodeFile_sealed hL k nonce hn hb pre
    (shaped_of_all_full hb pre (shaped_prefix_full pre post hs hpost))

/-- **Truncation on a block boundary is detected** (`_partial`: hypothesis `hPF`,
    *LZ4PrefixRejected* — the LZ4 reader rejects this particular strict prefix of the frame when it
    is followed by end of stream).  The hypothesis is **false for the real reader** whenever the
    cut coincides with an LZ4 data-block boundary, in particular for `pre = []` (next theorem). -/
theorem truncation_detected_partial (cfg : Config) (P : Prims K) (hL : Laws P) (hb : 0 < cfg.blockSize)
    (k : K) (nonce : Bytes) (hn : nonce.length = P.nonceSize) (b : Bytes) (pre post : List Bytes)
    (hps : cut cfg.blockSize (P.compress b) = pre ++ post) (hpost : post ≠ [])
    (hPF : P.decode pre.flatten .eof = .bad) :
    decodeFile cfg P k (cfg.header ++ nonce ++ (pre.map (P.aeadSeal k nonce)).flatten) = .err .corrupt := by
  rw [truncation_at_block_boundary cfg P hL hb k nonce hn b pre post hps hpost, hPF]
  rfl

/-- **A file cut right after the nonce reads back as the empty message, without error**
    (DESIGN.md section 9, #23; the witness against full-strength truncation detection) — with
    `Get` swallowing `io.EOF` (`swallowEOF`, regenerated from the source) and the LZ4 reader
    returning `io.EOF` on an empty source (`EmptyIsEOF`), header ++ nonce — what a crash between
    writing the nonce and the first block leaves, for *every* content — is read as `ok []`. -/
theorem truncate_after_nonce_reads_empty (cfg : Config) (P : Prims K) (k : K) (nonce : Bytes)
    (hn : nonce.length = P.nonceSize) (hsw : cfg.swallowEOF = true) (hE : EmptyIsEOF P) :
    decodeFile cfg P k (cfg.header ++ nonce) = .ok [] := by
  have := decodeFile_wellformed cfg P k nonce [] hn
  simp only [List.append_nil] at this
  rw [this]
  simp only [cut, cutAux, List.length_nil, openPrefix, List.flatten_nil]
  rw [hE]
  simp [finish, hsw]

/-- **…and would be an error if `Get` did not swallow `io.EOF`** — the same file under
    `swallowEOF = false`. -/
theorem truncate_after_nonce_detected_unless_swallowed (cfg : Config) (P : Prims K) (k : K) (nonce : Bytes)
    (hn : nonce.length = P.nonceSize) (hsw : cfg.swallowEOF = false) (hE : EmptyIsEOF P) :
    decodeFile cfg P k (cfg.header ++ nonce) = .err .corrupt := by
  have := decodeFile_wellformed cfg P k nonce [] hn
  simp only [List.append_nil] at this
  rw [this]
  simp only [cut, cutAux, List.length_nil, openPrefix, List.flatten_nil]
  rw [hE]
  simp [finish, hsw]

/-! ### Interrupted `Set`, and results as values -/

/-- **What an interrupted `Set` leaves reads back like a file cut on a block boundary** — the reader handed to
    `Set` failed (or the process died) when the write loop had sealed the full blocks `pre` of the compressed
    stream (`post ≠ []`: at least the last block was still missing): the id is listed (it was given to `Set`, and
    no other name appears), other ids read as before, and `Get` of the id returns whatever the LZ4 reader makes
    of that strict prefix of the frame followed by a clean end of stream — the situation of
    `truncation_at_block_boundary`; whatever was stored under the id before is gone (`O_TRUNC`). -/
theorem interrupted_set_reads_as_truncation (s : Store K) (hL : Laws s.P) (hb : 0 < s.cfg.blockSize)
    (nonce : Bytes) (hn : nonce.length = s.P.nonceSize) (fs : FS) (id : Id) (b : Bytes) (pre post : List Bytes)
    (hps : cut s.cfg.blockSize (s.P.compress b) = pre ++ post) (hpost : post ≠ []) :
    s.get (s.setInterrupted nonce fs id pre) id = finish s.cfg (s.P.decode pre.flatten .eof) ∧
    (∀ id', id' ≠ id → s.get (s.setInterrupted nonce fs id pre) id' = s.get fs id') ∧
    (∀ id', id' ∈ Store.list (s.setInterrupted nonce fs id pre) ↔ id' = id ∨ id' ∈ Store.list fs) := by
  refine ⟨?_, ?_, ?_⟩
  · rw [Store.setInterrupted, get_write]
    exact truncation_at_block_boundary s.cfg s.P hL hb s.key nonce hn b pre post hps hpost
  · intro id' hne
    simp only [Store.get, Store.setInterrupted, FS.read_write_other fs id id' _ hne]
  · intro id'
    exact (list_exact_in_flight fs id id' _).1

/-- **An interrupted `Set` is answered with an error afterwards** (`_partial`: hypothesis `hPF`,
    *LZ4PrefixRejected*, as in `truncation_detected_partial` — false for the real reader when the last sealed
    block ends exactly on an LZ4 data-block boundary, finding C09-F2): `Get` of the id returns an error, never
    a part of the message. -/
theorem interrupted_set_detected_partial (s : Store K) (hL : Laws s.P) (hb : 0 < s.cfg.blockSize)
    (nonce : Bytes) (hn : nonce.length = s.P.nonceSize) (fs : FS) (id : Id) (b : Bytes) (pre post : List Bytes)
    (hps : cut s.cfg.blockSize (s.P.compress b) = pre ++ post) (hpost : post ≠ [])
    (hPF : s.P.decode pre.flatten .eof = .bad) :
    s.get (s.setInterrupted nonce fs id pre) id = .err .corrupt := by
  rw [(interrupted_set_reads_as_truncation s hL hb nonce hn fs id b pre post hps hpost).1, hPF]
  rfl

/-- **A `Set` interrupted before its first block was complete is answered with an error, in the current
    source** — no sealed block on disk (the common case: less than `blockSize` bytes of compressed data had
    arrived): with the regenerated `gluonCfg` (`Get` does not swallow `io.EOF`) and the LZ4 reader returning
    `io.EOF` on an empty source, `Get` returns an error, not the empty message. -/
theorem interrupted_set_before_first_block_detected (s : Store K) (hc : s.cfg = gluonCfg) (hE : EmptyIsEOF s.P)
    (nonce : Bytes) (hn : nonce.length = s.P.nonceSize) (fs : FS) (id : Id) :
    s.get (s.setInterrupted nonce fs id []) id = .err .corrupt := by
  rw [Store.setInterrupted, get_write]
  simp only [List.map_nil, List.flatten_nil, List.append_nil]
  exact truncate_after_nonce_detected_unless_swallowed s.cfg s.P s.key nonce hn (by rw [hc]; decide) hE

/-- **What a call returned is not changed by any later call** — for every history `ops` and every continuation
    `more` (further `Get`s of the same or of other ids, `Set`s, `Delete`s, `List`s): the results of `ops` are
    exactly the first results of `ops ++ more`; in particular the bytes an earlier `Get` returned stay the bytes
    that were stored at that moment, whatever is read, overwritten or deleted afterwards.  In the model this is
    immediate — `Get` returns a value; the point is the tie: the `store` dialect's runner and the oracle's
    `lifetime` case keep every slice the real `Get` returned and compare it again after each later operation
    (a `Get` that hands out memory it re-uses for the next call breaks exactly this). -/
theorem get_result_stable (s : Store K) (fs : FS) (ops more : List Store.Op) :
    s.run fs (ops ++ more) = s.run fs ops ++ s.run (s.final fs ops) more ∧
    (s.run fs (ops ++ more)).take (s.run fs ops).length = s.run fs ops ∧
    (∀ (i : Nat) (id : Id), ops[i]? = some (.get id) →
      ∃ fs', (s.run fs ops)[i]? = some (.got (s.get fs' id)) ∧
             (s.run fs (ops ++ more))[i]? = some (.got (s.get fs' id))) := by
  have happ : ∀ (ops : List Store.Op) (fs : FS),
      s.run fs (ops ++ more) = s.run fs ops ++ s.run (s.final fs ops) more := by
    intro ops
    induction ops with
    | nil => intro fs; rfl
    | cons op rest ih => intro fs; simp only [List.cons_append, Store.run, Store.final, ih]
  refine ⟨happ ops fs, by rw [happ ops fs, List.take_left'] ; rfl, ?_⟩
  intro i id hi
  have hget : ∀ (ops : List Store.Op) (fs : FS) (i : Nat), ops[i]? = some (.get id) →
      ∃ fs', (s.run fs ops)[i]? = some (.got (s.get fs' id)) := by
    intro ops
    induction ops with
    | nil => intro fs i h; simp at h
    | cons op rest ih =>
      intro fs i h
      cases i with
      | zero =>
        simp only [List.getElem?_cons_zero, Option.some.injEq] at h
        subst h
        exact ⟨fs, by simp [Store.run, Store.step]⟩
      | succ j =>
        simp only [List.getElem?_cons_succ] at h
        obtain ⟨fs', h'⟩ := ih (s.step fs op).1 j h
        exact ⟨fs', by simp only [Store.run, List.getElem?_cons_succ, h']⟩
  obtain ⟨fs', h'⟩ := hget ops fs i hi
  refine ⟨fs', h', ?_⟩
  rw [happ ops fs, List.getElem?_append_left, h']
  have := List.getElem?_eq_some_iff.mp h'
  exact this.1

/-- **The file format authenticates blocks one by one, not their order or number** — for *any*
    list of well-shaped plain-text blocks `qs` (full blocks, then one non-empty block), sealed under
    the file's key and nonce and written after the header: every piece opens and `Get` returns
    what the LZ4 reader makes of their concatenation.  Reordering, repeating or dropping whole
    blocks of a stored file produces such a file; nothing in header, nonce or AEAD input says
    which block comes where or how many there are. -/
theorem sealed_blocks_any_order (cfg : Config) (P : Prims K) (hL : Laws P) (hb : 0 < cfg.blockSize)
    (k : K) (nonce : Bytes) (hn : nonce.length = P.nonceSize) (qs : List Bytes)
    (hs : Shaped cfg.blockSize qs) :
    decodeFile cfg P k (cfg.header ++ nonce ++ (qs.map (P.aeadSeal k nonce)).flatten)
      = finish cfg (P.decode qs.flatten .eof) :=
  decodeFile_sealed hL k nonce hn hb qs hs

/-- **Swapping two blocks of a stored file is not detected by the encryption layer** — exchange
    two neighbouring full blocks `x y` of the file `Set` wrote (any content, any position but the
    last block): all pieces open, and the result is left to the LZ4 reader alone, applied to the
    compressed stream with the two segments exchanged. -/
theorem block_swap_not_detected_by_aead (cfg : Config) (P : Prims K) (hL : Laws P) (hb : 0 < cfg.blockSize)
    (k : K) (nonce : Bytes) (hn : nonce.length = P.nonceSize) (b : Bytes) (pre post : List Bytes)
    (x y : Bytes) (hps : cut cfg.blockSize (P.compress b) = pre ++ x :: y :: post) (hpost : post ≠ []) :
    decodeFile cfg P k (cfg.header ++ nonce ++ ((pre ++ y :: x :: post).map (P.aeadSeal k nonce)).flatten)
      = finish cfg (P.decode (pre ++ y :: x :: post).flatten .eof) := by
  have hs := cut_shaped hb (P.compress b)
  rw [hps] at hs
  exact decodeFile_sealed hL k nonce hn hb _ (shaped_swap pre post x y hpost hs)

/-! ### Concrete witnesses (toy primitives that satisfy every hypothesis structure above) -/

/-- **Truncation on a block boundary can return different bytes without an error** (negation of
    full-strength truncation detection, on a concrete instance that satisfies `Laws`, `AEAD`,
    `LZ4Seq`): content `[1,2,3]` is stored; the file cut after its first block reads back as
    `ok [1,2]`, because the cut falls on a piece boundary of the (toy) frame and the reader takes
    end of stream there for end of frame — exactly what pierrec/lz4's `Reader.WriteTo` does at an
    LZ4 block boundary (replayed on the real store by the oracle, finding C09-F2). -/
theorem truncation_not_detected_witness :
    let P := Toy.prims 1 2
    cut 4 (P.compress [1, 2, 3]) = [[77, 2, 1, 2], [1, 3, 0]] ∧
    decodeFile Toy.witnessCfg P 5 ([9] ++ [8] ++ P.aeadSeal 5 [8] [77, 2, 1, 2]) = .ok [1, 2] := by
  decide

/-- **Swapped blocks can return different bytes without an error** (what
    `block_swap_not_detected_by_aead` leaves open, on the same kind of instance): content
    `[1,2,3,4,5,6]` with blocks of 3; exchanging the second and third block of the stored file
    yields a file that reads back as `ok [1,4,5,2,3,6]`.  On the real store the same happens for a
    message crafted so that LZ4 stores it uncompressed with plausible block headers at the swapped
    positions (oracle, finding C09-F3). -/
theorem block_swap_changes_bytes_witness :
    let P := Toy.prims 1 2
    let cfg : Config := { header := [9], blockSize := 3, swallowEOF := true, fallback := none }
    cut 3 (P.compress [1, 2, 3, 4, 5, 6]) = [[77, 2, 1], [2, 2, 3], [4, 2, 5], [6, 0]] ∧
    decodeFile cfg P 5 ([9] ++ [8] ++ ([[77, 2, 1], [4, 2, 5], [2, 2, 3], [6, 0]].map (P.aeadSeal 5 [8])).flatten)
      = .ok [1, 4, 5, 2, 3, 6] := by
  decide

/-! ## The lock table of `WriteControlledStore` -/

open Gluon.Store.Lock

/-- **The lock-table code has a shape the transition system models** — decided on the facts
    regenerated from store/write_controlled_store.go: `acquireSyncRef` runs entirely under `w.lock`
    (one atomic `acquire` step); `Get`/`Set` defer the release before taking the lock, so the
    unlock runs first (`unlock` before `dec`); and `releaseSyncRef` either (the current source)
    decrements the counter *outside* `w.lock` and only then locks, re-checks, deletes and pools —
    the separate `dec` and `cleanup` steps with the window between them, every schedule is a
    behaviour — or takes `w.lock` first, in which case only `AtomicRelease` schedules are
    behaviours (`SourceSchedule`). -/
theorem lock_table_facts :
    Facts.Store.acquireUnderTableLock = some true ∧ Facts.Store.wrappersUnlockBeforeRelease = some true ∧
    (Facts.Store.releaseShape = "decrement; if <= 0 { lock; if counter <= 0 { delete; Put } }" ∨
     Facts.Store.releaseShape = "lock first") := by
  decide

/-- **Per lock object, readers and writers exclude each other — in every schedule** (full
    strength): whatever the interleaving of `acquireSyncRef`, `Lock/RLock`, `Unlock/RUnlock` and the
    two halves of `releaseSyncRef` of any number of goroutines, two goroutines that are inside
    `impl` holding the *same* `syncRef` are both readers. -/
theorem rw_object_exclusive (threads : Nat) (sched : List Step) (s : State)
    (h : exec (init threads) sched = some s) : ObjectExclusive s :=
  objectExclusive_of_lockInv (lockInv_exec sched _ s (lockInv_init threads) h)

/-- **Readers/writer exclusion per message id** (`_partial`: hypothesis `AtomicRelease` — no
    other step is scheduled between the decrement and the cleanup of a `releaseSyncRef`): all
    goroutines inside `impl` for one id hold the same lock object, and if there is more than one
    they are all readers. -/
theorem rw_exclusion_partial (threads : Nat) (sched : List Step) (hat : AtomicRelease sched) (s : State)
    (h : exec (init threads) sched = some s) : Exclusive s := by
  have hT := tableInv_exec sched _ s hat (tableInv_init threads) h
  have hO := rw_object_exclusive threads sched s h
  intro t1 t2 id r1 r2 m1 m2 hne h1 h2
  have hr := oneObjectPerId_of_tableInv hT t1 t2 id r1 r2 m1 m2 h1 h2
  subst hr
  exact ⟨rfl, hO t1 t2 id id r1 m1 m2 hne h1 h2⟩

/-- **Exclusion for the schedules of the source, once `releaseSyncRef` locks first** — if the
    regenerated shape of `releaseSyncRef` is "lock first" (not the case in the current source, where
    `SourceSchedule` admits every schedule and exclusion fails, next theorem), every behaviour of
    the source keeps readers/writer exclusion per id. -/
theorem rw_exclusion_source (hfix : Facts.Store.releaseShape = "lock first") (threads : Nat)
    (sched : List Step) (hs : SourceSchedule sched) (s : State)
    (h : exec (init threads) sched = some s) : Exclusive s :=
  rw_exclusion_partial threads sched (hs hfix) s h

/-- **Without that hypothesis exclusion fails: the ABA schedule** (DESIGN.md section 9, #14;
    negation of full-strength `rw_exclusion`) — four goroutines, one message id: a releaser that
    was descheduled after decrementing the counter to 0 deletes the table entry that meanwhile
    belongs to a *new* lock object, the next `Set` creates a second object, and two writers are
    inside `impl.Set` for the same id at the same time (observed on the real
    `WriteControlledStore` by the oracle's probe, finding C09-F4). -/
theorem rw_exclusion_fails :
    ∃ s, exec (init 4) abaSchedule = some s ∧
      s.pcs[2]? = some (PC.holding 7 1 .write) ∧ s.pcs[3]? = some (PC.holding 7 0 .write) ∧
      ¬ Exclusive s := by
  have hp : (exec (init 4) abaSchedule).map (·.pcs)
      = some [.idle, .idle, PC.holding 7 1 .write, PC.holding 7 0 .write] := by decide
  cases he : exec (init 4) abaSchedule with
  | none => rw [he] at hp; exact absurd hp (by simp)
  | some s =>
    rw [he] at hp
    have hpcs : s.pcs = [.idle, .idle, PC.holding 7 1 .write, PC.holding 7 0 .write] := by simpa using hp
    have h2 : s.pcs[2]? = some (PC.holding 7 1 .write) := by rw [hpcs]; rfl
    have h3 : s.pcs[3]? = some (PC.holding 7 0 .write) := by rw [hpcs]; rfl
    refine ⟨s, rfl, h2, h3, ?_⟩
    intro hex
    have := hex 2 3 7 1 0 .write .write (by decide) h2 h3
    exact absurd this.1 (by decide)

/-! ## Non-vacuity: the hypotheses are satisfiable, the statements have instances -/

/-- the toy primitives satisfy every hypothesis structure used above -/
example : Laws (Toy.prims 12 65536) ∧ AEAD (Toy.prims 12 65536) ∧ LZ4Seq (Toy.prims 12 65536) ∧
    EmptyIsEOF (Toy.prims 12 65536) :=
  ⟨Toy.laws 12 65536 (by decide), Toy.aead 12 65536, Toy.lz4seq 12 65536 (by decide), Toy.emptyIsEOF 12 65536⟩

/-- a three-block round trip, computed -/
example :
    let s : Store Nat := { cfg := Toy.witnessCfg, P := Toy.prims 1 2, key := 5 }
    (cut 4 (s.P.compress [1, 2, 3, 4, 5])).length = 3 ∧
    s.get (s.set [8] FS.empty 1 [1, 2, 3, 4, 5]) 1 = .ok [1, 2, 3, 4, 5] ∧
    s.get (s.set [8] FS.empty 1 []) 1 = .ok [] := by
  decide

/-- an interrupted `Set`, a `List` during a `Set`, and a history, computed: overwriting id 1 fails after the
    first sealed block (the prefix `[77, 2, 1]` of the toy frame is rejected by the toy reader) — `Get` answers
    an error; while id 2 is being stored the listing is exactly {2, 1}; results of a history stay as returned -/
example :
    let s : Store Nat := { cfg := { header := [9], blockSize := 3, swallowEOF := false, fallback := none },
                           P := Toy.prims 1 2, key := 5 }
    cut 3 (s.P.compress [1, 2, 3]) = [[77, 2, 1]] ++ [[2, 1, 3], [0]] ∧
    s.P.decode [77, 2, 1] .eof = .bad ∧
    s.get (s.setInterrupted [8] (s.set [7] FS.empty 1 [4, 4]) 1 [[77, 2, 1]]) 1 = .err .corrupt ∧
    Store.list (Store.setInFlight (s.set [7] FS.empty 1 [4, 4]) 2 [9]) = [2, 1] ∧
    s.run FS.empty [.set 1 [7] [4, 4], .get 1, .set 1 [8] [5], .get 1, .delete [1], .get 1]
      = [.done, .got (.ok [4, 4]), .done, .got (.ok [5]), .deleted none, .got (.err .notFound)] := by
  decide

/-- `Unforged` instance: in the toy, a sealed block with one byte changed is not a sealed block -/
example : Toy.topen 1 5 [8] [78, 2, 1, 2, 5, 8, 82, 92, 4] = none ∧
    Toy.tseal 1 5 [8] [77, 2, 1, 2] = [77, 2, 1, 2, 5, 8, 82, 92, 4] := by decide

/-- an `AtomicRelease` schedule with two readers inside and a writer waiting -/
example :
    let sched : List Step := [.acquire 0 7 .read .fresh, .acquire 1 7 .read .fresh, .acquire 2 7 .write .fresh,
      .lock 0, .lock 1, .unlock 0, .release 0]
    (∀ a ∈ sched, a.atomicRelease = true) ∧
    (exec (init 3) sched).map (·.pcs) = some [.idle, .holding 7 0 .read, .acquired 7 0 .write] := by
  decide

end Gluon.C09
