/-
C12 — Any message bytes yield well-formed ENVELOPE / BODYSTRUCTURE without crashing.

Property theorems only; helper lemmas live in `GluonModel/Lemmas/{MimeScan,ParamList,Structure}`.
Models: `Model/MimeScan.lean` (rfc822.ByteScanner, Split, parse/load/Walk as index ranges, every Go
slice expression with an explicit panic outcome), `Model/ParamList.lean` (imap/params.go writer and
the s-expression reader), `Model/Structure.lean` (imap.Structure / imap.Envelope as trees of writer
calls).  `mime.ParseMediaType`, `rfc822.NewHeader`/`Header.Get`, `rfc5322.ParseAddressList` and
`strconv.Quote` are *parameters* (`env`, `det`, `q`): the theorems hold whatever they return
(`q` under the named hypothesis `QuoteOK`).  Their own crash-freedom is not covered here (search
only; see the c12structure oracle and finding #9).
-/
import GluonModel.Lemmas.MimeScan
import GluonModel.Lemmas.ParamList
import GluonModel.Lemmas.Structure
import GluonModel.Lemmas.MimeTree
import GluonModel.Lemmas.MimeStructTree
import GluonModel.Lemmas.MimeDepth
import GluonModel.Generated.Facts.Mime

namespace Gluon.C12

open Gluon.Mime

/-- **The boundary scanner terminates and never panics** — for every byte string and every
    boundary (including the empty one), `NewByteScanner(data, boundary).ScanAll()` returns a list
    of parts: no slice or index expression of `readToBoundary` / `getPreviousLineBreakIndex` is out
    of range (outcome `panic…`), and the loops finish within `len(data)+1` rounds (outcome `fuel`),
    because `progress` strictly increases. -/
theorem scan_total (data boundary : Bytes) : ∃ parts, scanAll data boundary = .ok parts := by
  obtain ⟨parts, h, _⟩ := scanAll_ok data boundary
  exact ⟨parts, h⟩

/-- **Each `readToBoundary` call makes progress** — started anywhere in `[0, len+1]` it returns
    (no panic, no fuel exhaustion) with `progress` not decreased and at most `len+1`; when it
    reports `more = true` the scanner advanced by more than the boundary length, which is what
    bounds the number of parts by the input length. -/
theorem read_to_boundary_progress (data boundary : Bytes) (progress : Nat) (h : progress ≤ data.length + 1) :
    ∃ r, readToBoundary data (startBoundary boundary) progress = .ok r ∧
      progress ≤ r.progress ∧ r.progress ≤ data.length + 1 ∧
      (r.more = true → progress + (startBoundary boundary).length + 1 ≤ r.progress) := by
  obtain ⟨r, hr, hinv⟩ := readToBoundary_ok data _ (startBoundary_length boundary) progress h
  exact ⟨r, hr, hinv.prog_ge, hinv.prog_le, fun hm => (hinv.more_adv hm).1⟩

/-- **`Split` terminates and never panics** — for every byte string `Split(b)` returns
    `(b[:i], b[i:])`: the two halves concatenate to the input (nothing lost, nothing
    invented), and a non-empty input has a non-empty header half. -/
theorem split_total (b : Bytes) :
    ∃ h t, split b = .ok (h, t) ∧ h ++ t = b ∧ (b.length ≠ 0 → h.length ≠ 0) :=
  split_ok b

/-- **Every scanned part lies inside the scanned body** — for every `Part{Offset, Data}` of
    `ScanAll`, with `Data = data[lo:hi]`: `Offset ≤ lo ≤ hi ≤ len(data)`, hence the range
    `[Offset, Offset+len(Data))` that `Section.load` turns into a child section is inside the
    body; and the parts' ranges are pairwise disjoint and in increasing order. -/
theorem parts_within_parent (data boundary : Bytes) (parts : List Part)
    (h : scanAll data boundary = .ok parts) :
    (∀ p ∈ parts, p.offset ≤ p.lo ∧ p.lo ≤ p.hi ∧ p.hi ≤ data.length ∧ p.offset + p.len ≤ data.length) ∧
    parts.Pairwise (fun a b => a.offset + a.len ≤ b.offset) := by
  obtain ⟨parts', h', hw, hp⟩ := scanAll_ok data boundary
  rw [h] at h'
  cases h'
  refine ⟨?_, hp⟩
  intro p hp
  obtain ⟨a, b, c, _⟩ := hw p hp
  exact ⟨a, b, c, by simp only [Part.len]; omega⟩

/-- **`Part.Offset` is where `Part.Data` starts — only for parts that end at a boundary.**
    A part whose data does not run to the end of the input starts exactly at its recorded
    offset.  (Hypothesis `p.hi < len`: see `part_offset_can_be_wrong` for why it is needed.) -/
theorem part_offset_is_data_start_partial (data boundary : Bytes) (parts : List Part)
    (h : scanAll data boundary = .ok parts) :
    ∀ p ∈ parts, p.hi < data.length → p.lo = p.offset := by
  obtain ⟨parts', h', hw, _⟩ := scanAll_ok data boundary
  rw [h] at h'
  cases h'
  intro p hp hlt
  obtain ⟨_, _, _, d⟩ := hw p hp
  rcases d with d | d
  · exact d
  · omega

/-- **The full statement "`Offset` is where `Data` starts" is false of the current code** —
    `--b␍␊hello --b there` scanned for boundary `b`: the false match `--b` inside the line is
    skipped, no boundary follows, and `readToBoundary` returns `remaining` (= `" there"`, bytes
    14..20) while `ScanAll` records `Offset = 5`.  `Section.load` then makes the child section
    `[5, 11)` = `hello ` instead of `[5, 20)`.  Replayed on the real code by corpus/C12/scan-offset.ops. -/
theorem part_offset_can_be_wrong :
    scanAll [45,45,98,13,10,104,101,108,108,111,32,45,45,98,32,116,104,101,114,101] [98]
      = .ok [⟨5, 14, 20⟩] := by
  rfl

/-- **Sections are nested index ranges, for every message and whatever the header machinery
    answers** — `rfc822.Parse(literal)` followed by `Walk` terminates without panic (every
    `literal[a:b]` in `parse`, `Split`, `load`, `Header()`, `Body()` in range; recursion depth
    bounded by the literal length because only a section with a non-empty header has children), and
    in the resulting tree every section has `0 ≤ header ≤ body ≤ end ≤ len(literal)` and every
    child's `[header, end)` lies inside its parent's `[body, end)`. -/
theorem sections_within_parent (env : HdrEnv) (lit : Bytes) :
    ∃ t, parseWalk env lit = .ok t ∧ t.Nested 0 lit.length :=
  parseWalk_ok env lit

/-- **What the list writer writes, the list reader reads back** — for every tree of writer
    calls (`addString`, `addNumber`, `writeByte(' ')`, `onWrite`, `newChildList … finish`, on the
    dual writer or on the BODYSTRUCTURE-only writer), every initial `firstItem`, both outputs
    (`hide = true`: BODY, `hide = false`: BODYSTRUCTURE / ENVELOPE) and every string argument, if the
    quoting function satisfies `QuoteOK` (its result is `"`…`"` with no unescaped `"` inside), the
    produced text is accepted by the s-expression reader and denotes exactly the item tree of the
    calls: strings stay one token whatever bytes they hold, numbers and NIL are atoms, every
    `(` has its `)`. -/
theorem paramlist_wellformed (q : Bytes → Bytes) (hq : QuoteOK q) (hide first : Bool) (cs : List Call) :
    parseSexp (Call.writeList q hide first cs) = some (Call.shapeList q hide cs) :=
  parseSexp_writeList q hq hide first cs

/-- **`imap.Structure` terminates and never panics** for every literal, whatever the media-type,
    header and address parsers return: BODY and BODYSTRUCTURE texts are produced. -/
theorem structure_total (env : HdrEnv) (det : HdrDetail) (q : Bytes → Bytes) (lit : Bytes) :
    ∃ b s, structureTexts env det q lit = .ok (b, s) := by
  unfold structureTexts
  obtain ⟨root, hr, hh, he, hhb, hbe⟩ := parseSec_ok env lit 0 lit.length (by omega) (by omega)
  rw [hr]
  simp only
  obtain ⟨cs, hcs⟩ := structCalls_ok env det lit (lit.length + 1) root ⟨by omega, hhb, hbe, by omega⟩ (by omega)
  rw [hcs]
  exact ⟨_, _, rfl⟩

/-- **BODY and BODYSTRUCTURE are well-formed parenthesised lists for every message** — whatever
    bytes the message holds and whatever the abstract parsers answer, under `QuoteOK` both texts
    are read back as exactly one balanced list. -/
theorem structure_wellformed (env : HdrEnv) (det : HdrDetail) (q : Bytes → Bytes) (hq : QuoteOK q)
    (lit b s : Bytes) (h : structureTexts env det q lit = .ok (b, s)) :
    isParenList b = true ∧ isParenList s = true := by
  unfold structureTexts at h
  split at h
  · cases h
  · split at h
    · cases h
    · next cs _ =>
      simp only [Except.ok.injEq, Prod.mk.injEq] at h
      obtain ⟨rfl, rfl⟩ := h
      constructor <;>
      · simp only [isParenList]
        rw [paramlist_wellformed q hq]
        simp [Call.shapeList, Call.shape, vis]

/-- **ENVELOPE is a well-formed parenthesised list for every header**, whatever the address
    parser returns (including its fall-back `{Name: raw header value}`), under `QuoteOK`. -/
theorem envelope_wellformed (env : HdrEnv) (det : HdrDetail) (q : Bytes → Bytes) (hq : QuoteOK q)
    (lit e : Bytes) (h : envelopeText env det q lit = .ok e) : isParenList e = true := by
  unfold envelopeText at h
  split at h
  · cases h
  · split at h
    · cases h
    · simp only [Except.ok.injEq] at h
      subst h
      simp only [isParenList]
      rw [paramlist_wellformed q hq]
      simp [Call.shapeList, Call.shape, envelopeCall, vis]

/-- **The scanner finds exactly the rendered parts** — a multipart body rendered as
    `--b CRLF part₁ CRLF --b CRLF … partₙ CRLF --b-- CRLF` is split by
    `NewByteScanner(body, b).ScanAll()` into exactly `part₁ … partₙ`, each with `Offset` = start of
    its data and the right length, provided every part is `Fresh` (BoundaryFresh: the delimiter
    `--b` does not occur in `partᵢ CRLF` before the real delimiter).  Also for zero parts. -/
theorem scan_of_rendered_parts (boundary : Bytes) (ps : List Bytes)
    (hf : ∀ p ∈ ps, Fresh (startBoundary boundary) p) :
    scanAll (renderParts (startBoundary boundary) ps) boundary
      = .ok (expectedParts (startBoundary boundary) ((startBoundary boundary).length + 2) ps) :=
  scanAll_rendered boundary ps hf

/-- **For a well-built message the sections are the MIME tree it was built from** — for every
    MIME tree `t` (leaves, multiparts of any arity and nesting, message/rfc822 at any depth) that is
    `Good` (each node's header block is where `Split` cuts and is accepted by `NewHeader`; the media
    type parser answers "multipart with this boundary" / "message/rfc822" / anything else according
    to the node; every part of every multipart is `Fresh` for its boundary), `rfc822.Parse` +
    `Walk` on the rendered bytes returns exactly the tree's sections: each node's header, body and
    end offsets are those of its rendering (so the reported size of a part is the length of its
    body, and its line count that of its body bytes), a multipart has exactly its parts as
    children, and a message/rfc822 node has the children of the embedded message (the hoisting
    that `Section.load` does — which `imap.Structure` then takes for a multipart, see
    `structure_flattens_embedded_multipart`). -/
theorem sections_of_built_message (env : HdrEnv) (t : MTree) (hg : t.Good env) :
    parseWalk env t.render = .ok (t.expect 0) :=
  parseWalk_built env t hg

/-- **The section tree is as deep and as large as the MIME tree — at every depth, width and size** — for
    every well-built (`Good`) MIME tree, `rfc822.Parse` + `Walk` on the rendered bytes returns a section tree
    whose longest part path has exactly as many numbers as the longest part path of the MIME tree
    (`pathDepth`: one number per multipart level, none for a message/rfc822 level, whose parts are those of
    the embedded message) and which has exactly one section per addressable part plus the root.  No depth,
    no number of sibling parts and no length is excluded: the statement is about every tree, so a parser
    that stops taking parts apart below some level does not satisfy it (the correspondence dialects
    `mime-walk` / `mime-struct` and the c12structure oracle look for such a level on the real code around
    the usual constants; `section_tree_source_shape` pins the source). -/
theorem sections_depth_of_built_message (env : HdrEnv) (t : MTree) (hg : t.Good env) :
    ∃ st, parseWalk env t.render = .ok st ∧ st.depth = t.pathDepth ∧ st.count = t.partsBelow + 1 :=
  ⟨_, parseWalk_built env t hg, (expect_shape t 0).1, (expect_shape t 0).2⟩

/-- **Multiparts nested `n` deep give part paths of `n` numbers, for every `n`** — the `n`-fold nesting
    `multipart( multipart( … leaf … ) )` (any header and boundary per level, as long as the message is
    well-built) is walked to a section tree exactly `n` levels deeper than the innermost part's own. -/
theorem sections_depth_of_nested_multiparts (env : HdrEnv) (hdr bnd : Nat → Bytes) (leaf : MTree) (n : Nat)
    (hg : (MTree.chainOf hdr bnd leaf n).Good env) :
    ∃ st, parseWalk env (MTree.chainOf hdr bnd leaf n).render = .ok st ∧ st.depth = n + leaf.pathDepth := by
  obtain ⟨st, h, hd, _⟩ := sections_depth_of_built_message env _ hg
  exact ⟨st, h, by rw [hd, chainOf_pathDepth]⟩

/-- **For a well-built message BODY / BODYSTRUCTURE are the MIME tree it was built from — unless
    an embedded message is a multipart.**  For every `Good` MIME tree `t` whose message/rfc822 nodes
    are exactly the ones the media type parser calls "message/rfc822" (`DetOK`) and in which no
    message/rfc822 node holds a multipart message with parts (named hypothesis `NoEmbMulti`),
    `imap.Structure` on the rendered bytes makes exactly the writer calls `t.calls det`
    (Spec/MimeStructure.lean), which are read off the tree alone: every node reports the type,
    subtype, parameters and other fields of *its own* header block, size = length of its body, line
    count = lines of its body; a multipart lists exactly its parts followed by its subtype; a
    message/rfc822 part is a single part with its size, the embedded message's envelope, the
    embedded message's structure and its line count.  Under `QuoteOK` the BODYSTRUCTURE and BODY
    texts therefore read back as exactly that tree of items.
    The hypothesis `NoEmbMulti` cannot be dropped: `structure_flattens_embedded_multipart`. -/
theorem structure_of_built_message_partial (env : HdrEnv) (det : HdrDetail) (q : Bytes → Bytes)
    (hq : QuoteOK q) (t : MTree) (hg : t.Good env) (hd : t.DetOK det) (hn : t.NoEmbMulti) :
    ∃ b s, structureTexts env det q t.render = .ok (b, s) ∧
      parseSexp s = some [.list (Call.shapeList q false (t.calls det))] ∧
      parseSexp b = some [.list (Call.shapeList q true (t.calls det))] := by
  refine ⟨_, _, structureTexts_built env det q t hg hd hn, ?_, ?_⟩
  · rw [paramlist_wellformed q hq]
    simp [Call.shapeList, Call.shape, vis]
  · rw [paramlist_wellformed q hq]
    simp [Call.shapeList, Call.shape, vis]

/-- **The source has exactly the statements the model has (regenerated from /repo on every run)** — the
    control skeleton (every `if` condition with its init statement, every loop header and simple statement, in
    source order) of `Section.Children`, `Section.load`, `Section.Walk`, `Section.Part`, `parse`, `Parse`
    (rfc822/parser.go) and of `structure`, `childStructures`, `singlePartStructure` (imap/structure.go) is the one
    `children` / `walk` / `parseSec` (Model/MimeScan.lean) and `structCalls` / `embCalls` (Model/Structure.lean)
    were written from:
    `Children()` loads when it has no children yet and returns them — nothing else stands between a section
    and its parts; `load` takes the children of the embedded message for message/rfc822 and one `parse` per
    scanned part for a multipart — every part, at every level; `Walk` and `childStructures` visit every child;
    `structure` branches on `len(children) == 0` alone.  There is no limit on the nesting depth, on the number
    of parts or on any length in these functions, which is why the theorems above (`sections_within_parent`,
    `sections_of_built_message`, `structure_of_built_message_partial`: for *every* tree) speak about the code.
    A statement added to one of these functions — a depth or size cap with whatever constant, an early return —
    changes this fact and the obligation fails, also where no generated message reaches the constant. -/
theorem section_tree_source_shape :
    Facts.mimeTreeSkeleton = [
      ("rfc822.Section.Children", [
        "if len(section.children) == 0",
        "if err := section.load(); err != nil",
        "return nil, err",
        "return section.children, nil"
      ]),
      ("rfc822.Section.load", [
        "contentType, contentParams, err := section.ContentType()",
        "if err != nil",
        "return err",
        "if MIMEType(contentType) == MessageRFC822",
        "child := parse( section.literal[section.body:section.end], section.identifier, 0, section.end-section.body, )",
        "if err := child.load(); err != nil",
        "return err",
        "section.children = append(section.children, child.children...)",
        "else",
        "if contentType.IsMultiPart()",
        "scanner, err := NewByteScanner(section.literal[section.body:section.end], []byte(contentParams[\"boundary\"]))",
        "if err != nil",
        "return err",
        "res := scanner.ScanAll()",
        "for idx, res := range res",
        "child := parse( section.literal, append(section.identifier, idx+1), section.body+res.Offset, section.body+res.Offset+len(res.Data), )",
        "section.children = append(section.children, child)",
        "return nil"
      ]),
      ("rfc822.Section.Walk", [
        "if err := f(section); err != nil",
        "return err",
        "children, err := section.Children()",
        "if err != nil",
        "return err",
        "for _, child := range children",
        "if err := child.Walk(f); err != nil",
        "return err",
        "return nil"
      ]),
      ("rfc822.Section.Part", [
        "if len(identifier) > 0",
        "children, err := section.Children()",
        "if err != nil",
        "return nil, err",
        "if identifier[0] <= 0 || identifier[0]-1 > len(children)",
        "return nil, ErrNoSuchPart",
        "if len(children) != 0",
        "childIndex := identifier[0] - 1",
        "if childIndex >= len(children)",
        "return nil, fmt.Errorf(\"invalid part index\")",
        "return children[identifier[0]-1].Part(identifier[1:]...)",
        "return section, nil"
      ]),
      ("rfc822.parse", [
        "header, _ := Split(literal[begin:end])",
        "parsedHeader, err := NewHeader(header)",
        "if err != nil",
        "header = nil",
        "parsedHeader = nil",
        "return &Section{ identifier: identifier, literal: literal, parsedHeader: parsedHeader, header: begin, body: begin + len(header), end: end, }"
      ]),
      ("rfc822.Parse", [
        "return parse(literal, []int{}, 0, len(literal))"
      ]),
      ("imap.structure", [
        "children, err := section.Children()",
        "if err != nil",
        "return err",
        "if len(children) == 0",
        "return singlePartStructure(section, fields, writer)",
        "if err := childStructures(section, fields, writer); err != nil",
        "return err",
        "header, err := section.ParseHeader()",
        "if err != nil",
        "return err",
        "_, mimeSubType, mimeParams, err := getMIMEInfo(section)",
        "if err != nil",
        "return err",
        "fields.addString(writer, mimeSubType)",
        "extWriter := writer.toSingleWriterFrom2nd()",
        "fields.addMap(extWriter, mimeParams)",
        "addDispInfo(fields, extWriter, header)",
        "fields.addString(extWriter, header.Get(\"Content-Language\")). addString(extWriter, header.Get(\"Content-Location\"))",
        "return nil"
      ]),
      ("imap.childStructures", [
        "children, err := section.Children()",
        "if err != nil",
        "return err",
        "for _, child := range children",
        "cl := c.newChildList(writer)",
        "if err := structure(child, &cl, writer); err != nil",
        "return err",
        "cl.finish(writer)",
        "return nil"
      ]),
      ("imap.singlePartStructure", [
        "header, err := section.ParseHeader()",
        "if err != nil",
        "return err",
        "mimeType, mimeSubType, mimeParams, err := getMIMEInfo(section)",
        "if err != nil",
        "return err",
        "fields. addString(writer, mimeType). addString(writer, mimeSubType). addMap(writer, mimeParams). addString(writer, header.Get(\"Content-Id\")). addString(writer, header.Get(\"Content-Description\")). addString(writer, header.Get(\"Content-Transfer-Encoding\")). addNumber(writer, len(section.Body()))",
        "if mimeType == \"message\" && mimeSubType == \"rfc822\"",
        "child := rfc822.Parse(section.Body())",
        "header, err := child.ParseHeader()",
        "if err != nil",
        "return err",
        "writer.writeByte(' ')",
        "if err := envelope(header, fields, writer); err != nil",
        "return err",
        "cstruct := fields.newChildList(writer)",
        "if err := structure(child, &cstruct, writer); err != nil",
        "return err",
        "cstruct.finish(writer)",
        "if mimeType == \"text\" || (mimeType == \"message\" && mimeSubType == \"rfc822\")",
        "fields.addNumber(writer, countLines(section.Body()))",
        "extWriter := writer.toSingleWriterFrom2nd()",
        "fields.addString(extWriter, header.Get(\"Content-MD5\"))",
        "addDispInfo(fields, extWriter, header)",
        "fields.addString(extWriter, header.Get(\"Content-Language\")). addString(extWriter, header.Get(\"Content-Location\"))",
        "return nil"
      ])
    ] := by
  rfl

/-- header bytes → what the abstract header machinery answers, for the examples below -/
def exampleEnv : HdrEnv := fun h =>
  if h == [77, 13, 10, 13, 10] then { ok := true, ct := .multipart [98] }          -- "M␍␊␍␊"
  else if h == [82, 13, 10, 13, 10] then { ok := true, ct := .rfc822 }              -- "R␍␊␍␊"
  else { ok := true, ct := .other }

/-- the media type parser's answers for the examples: "R␍␊␍␊" is message/rfc822 -/
def exampleDet : HdrDetail := fun h =>
  if h == [82, 13, 10, 13, 10] then { mimeType := MESSAGE, sub := RFC822 } else {}

/-- message/rfc822( multipart( leaf "A" ) ): an embedded *multipart* message -/
def exampleTree2 : MTree :=
  .msg [82, 13, 10, 13, 10] (.multi [77, 13, 10, 13, 10] [98] [.leaf [13, 10] [65]])

/-- **The full statement (without `NoEmbMulti`) is false of the current code** — the well-built
    message `R␍␊␍␊ M␍␊␍␊ --b␍␊ ␍␊A ␍␊--b--␍␊` (a message/rfc822 whose embedded message is a
    multipart with one part; `Good` and `DetOK` hold) gets the BODYSTRUCTURE
    `((NIL NIL () NIL NIL NIL 1 NIL NIL NIL NIL) "rfc822" () NIL NIL NIL)`: a *multipart* with
    subtype "rfc822" — no size, no envelope, no embedded body structure, no line count — because
    `Section.load` hoists the embedded message's parts and `structure()` branches on
    `len(children) == 0`.  On the real code: oracle class `rfc822-multipart-flattened`,
    corpus/C12/rfc822-multipart-flattened.replay. -/
theorem structure_flattens_embedded_multipart :
    (exampleTree2.Good exampleEnv ∧ exampleTree2.DetOK exampleDet) ∧
    ∃ b s, structureTexts exampleEnv exampleDet exampleQuote exampleTree2.render = .ok (b, s) ∧
      -- `((NIL NIL () NIL NIL NIL 1 NIL NIL NIL NIL) "rfc822" () NIL NIL NIL)`
      s = [40, 40, 78, 73, 76, 32, 78, 73, 76, 32, 40, 41, 32, 78, 73, 76, 32, 78, 73, 76, 32, 78, 73, 76, 32,
           49, 32, 78, 73, 76, 32, 78, 73, 76, 32, 78, 73, 76, 32, 78, 73, 76, 41, 32, 34, 114, 102, 99, 56,
           50, 50, 34, 32, 40, 41, 32, 78, 73, 76, 32, 78, 73, 76, 32, 78, 73, 76, 41] ∧
      parseSexp s = some [.list [
        .list [.nil, .nil, .list [], .nil, .nil, .nil, .num [49], .nil, .nil, .nil, .nil],
        .str RFC822, .list [], .nil, .nil, .nil]] := by
  constructor
  · simp only [exampleTree2, MTree.Good, MTree.GoodList, MTree.DetOK, MTree.DetOKList, HdrAt, Fresh, and_true]
    exact ⟨⟨⟨rfl, rfl⟩, by decide, rfl, ⟨rfl, rfl⟩, by decide, rfl, ⟨⟨rfl, rfl⟩, rfl⟩, rfl⟩, rfl, rfl, rfl⟩
  · obtain ⟨b, s, h⟩ := structure_total exampleEnv exampleDet exampleQuote exampleTree2.render
    have key : (match structureTexts exampleEnv exampleDet exampleQuote exampleTree2.render with
        | .ok (_, s) => s
        | .error _ => []) =
        [40, 40, 78, 73, 76, 32, 78, 73, 76, 32, 40, 41, 32, 78, 73, 76, 32, 78, 73, 76, 32, 78, 73, 76, 32,
           49, 32, 78, 73, 76, 32, 78, 73, 76, 32, 78, 73, 76, 32, 78, 73, 76, 41, 32, 34, 114, 102, 99, 56,
           50, 50, 34, 32, 40, 41, 32, 78, 73, 76, 32, 78, 73, 76, 32, 78, 73, 76, 41] := by
      decide +kernel
    rw [h] at key
    simp only at key
    refine ⟨b, s, h, key, ?_⟩
    rw [key]
    rfl

/-! ### Non-vacuity -/

/-- multipart( leaf "A", message/rfc822( leaf "x" ) ) -/
def exampleTree : MTree :=
  .multi [77, 13, 10, 13, 10] [98]
    [.leaf [13, 10] [65], .msg [82, 13, 10, 13, 10] (.leaf [84, 13, 10, 13, 10] [120])]

/-- the hypotheses of `structure_of_built_message_partial` are satisfiable by a multipart holding
    an embedded message -/
example : exampleTree.DetOK exampleDet := by
  simp only [exampleTree, MTree.DetOK, MTree.DetOKList, and_true]
  exact ⟨rfl, rfl, rfl, rfl⟩

example : exampleTree.NoEmbMulti := by
  simp [exampleTree, MTree.NoEmbMulti, MTree.NoEmbMultiList, MTree.hasKids]

/-- the hypotheses of `sections_of_built_message` are satisfiable by a tree with a multipart and an
    embedded message -/
example : exampleTree.Good exampleEnv := by
  simp only [exampleTree, MTree.Good, MTree.GoodList, HdrAt, Fresh, and_true]
  refine ⟨⟨rfl, rfl⟩, by decide, rfl, ⟨⟨rfl, rfl⟩, rfl⟩, rfl, ⟨⟨rfl, rfl⟩, by decide, rfl, ⟨rfl, rfl⟩, rfl⟩, rfl⟩

/-- header blocks `M␣k␍␊␍␊` announce a multipart with boundary `b k` (one boundary per nesting level) -/
def chainEnv : HdrEnv := fun h =>
  match h with
  | [77, k, 13, 10, 13, 10] => { ok := true, ct := .multipart [98, k] }
  | _ => { ok := true, ct := .other }

/-- three nested multiparts (boundaries `b2`, `b1`, `b0`) around a text part "A" -/
def exampleChain3 : MTree :=
  .multi [77, 50, 13, 10, 13, 10] [98, 50] [.multi [77, 49, 13, 10, 13, 10] [98, 49]
    [.multi [77, 48, 13, 10, 13, 10] [98, 48] [.leaf [13, 10] [65]]]]

example : exampleChain3 = MTree.chainOf (fun k => [77, 48 + k.toUInt8, 13, 10, 13, 10])
    (fun k => [98, 48 + k.toUInt8]) (.leaf [13, 10] [65]) 3 := rfl

/-- the hypothesis of `sections_depth_of_built_message` / `sections_depth_of_nested_multiparts` is
    satisfiable by three nested multiparts around a text part … -/
example : exampleChain3.Good chainEnv := by
  simp only [exampleChain3, MTree.Good, MTree.GoodList, HdrAt, Fresh, and_true]
  refine ⟨⟨rfl, rfl⟩, by decide, rfl, ⟨⟨rfl, rfl⟩, by decide, rfl, ⟨⟨rfl, rfl⟩, by decide, rfl, ⟨⟨rfl, rfl⟩, rfl⟩, rfl⟩, rfl⟩, rfl⟩

/-- … whose walked tree is three levels deep and has four sections -/
example : (exampleChain3.expect 0).depth = 3 ∧ (exampleChain3.expect 0).count = 4 := by
  rw [(expect_shape _ 0).1, (expect_shape _ 0).2]
  exact ⟨rfl, rfl⟩

/-- a quoting function that backslash-escapes `"` and `\` (`exampleQuote`, Lemmas/ParamList.lean)
    satisfies the hypothesis `QuoteOK`: the hypothesis is satisfiable by a function that accepts
    every byte string -/
example : QuoteOK exampleQuote := by
  intro v
  have h1 : unq (exampleQuote v) = escQ v := by simp [unq, exampleQuote]
  have h2 : (exampleQuote v).getLast? = some DQ := by
    simp only [exampleQuote]
    rw [← List.cons_append, List.getLast?_append]
    simp
  simp only [quotedOK, h1, h2, escQ_ok]
  simp [exampleQuote]

/-- a multipart body with two parts and a closing boundary is split into exactly its parts -/
example :
    scanAll [45,45,98,13,10,65,13,10,45,45,98,13,10,66,66,13,10,45,45,98,45,45,13,10] [98]
      = .ok [⟨5, 5, 6⟩, ⟨13, 13, 15⟩] := by rfl

/-- the empty boundary and a boundary at offset 0 without any line break -/
example : scanAll [45,45,10,120,10,45,45,45,45] [] = .ok [⟨3, 3, 4⟩] := by rfl

/-- `Split` stops after the first blank line -/
example : split [97,58,98,13,10,13,10,120] = .ok ([97,58,98,13,10,13,10], [120]) := by rfl

/-- the reader on a concrete writer tree (BODY side hides the extension data) -/
example :
    parseSexp (Call.writeList exampleQuote true true
      [.child false [.str false [116], .num false 12, .str true [34], .child false [], .str false []]])
      = some [.list [.str [116], .num [49, 50], .list [], .nil]] := by rfl

end Gluon.C12
