/-
C02 — At quiescence every session's view converges to the authoritative mailbox.

The mailbox is `Gluon.View` / `Gluon.Mbox` (Spec/MailboxView.lean): the table (message id, UID,
flags without `\Recent`) in UID order with its `UIDNext` counter — what a newly opened session
builds its snapshot from.  A committed change (`Change`: add / remove / setFlags) acts on the table
by `View.apply` and broadcasts one responder (`RespOf`) to every session that has the mailbox
selected.  The session is the model of `responder.handle`, `popResponders`, `State.flushResponses`
(Model/Responder.lean), tied to the code by the `flush` correspondence dialect.

The invariant is `Conv sid snap res v`: handling everything queued, in queue order, fails nowhere
and ends in a snapshot identical to the table `v` (`SameView`: same ids, same UIDs, same order,
same flags ignoring `\Recent`).  Property theorems only; lemmas live in `Lemmas/Converge*.lean`.
-/
import GluonModel.Lemmas.ConvergeFlush

namespace Gluon.C02

open Gluon

/-- **One responder acts on the session exactly as the change acts on the mailbox** — on a snapshot
    that shows the table `v`, in any context, the responder of an admissible change does not fail
    and leaves a snapshot that shows `v.apply c`: an EXISTS appends (its UID is above all others,
    whoever created it), an EXPUNGE erases, a FETCH changes the flags; `\Recent` bookkeeping is
    invisible.  All snapshots, all tables, all changes. -/
theorem handle_as_apply {snap : Snap} {v : View} (h : SameView snap v) (hwf : v.Wf) (close : Bool)
    (sid : StateId) (c : Change) (r : Responder) (hadm : c.AdmissibleV v) (hr : RespOf c r) :
    (r.handle close sid snap).err = none ∧ SameView (r.handle close sid snap).snap (v.apply c) := by
  obtain ⟨s', hs', hsv⟩ := snapStep_sameView h hwf sid c r hadm hr
  obtain ⟨h1, h2⟩ := handle_snap_of_ok (close := close) hs'
  exact ⟨h1, by rw [h2]; exact hsv⟩

/-- **T1 — every committed change is reflected once delivered** — if the session converges to `v`
    and an admissible change `c` is committed, then with `c`'s responder appended to the queue the
    session converges to `v.apply c` (no handler error occurs).  All snapshots, all queues. -/
theorem change_step {sid : StateId} {snap : Snap} {res : List Responder} {v : View}
    (h : Conv sid snap res v) (hwf : v.Wf) {c : Change} {r : Responder} (hadm : c.AdmissibleV v)
    (hr : RespOf c r) : Conv sid snap (res ++ [r]) (v.apply c) :=
  conv_change h hwf hadm hr

/-- **No committed change is missed by the update filter** — if the session converges to `v` and a
    message is in the mailbox, then the session's snapshot holds it or an EXISTS for it is queued
    (`State.hasMessageOrPendingExists`, what `MessageIDStateFilter` asks): the responder of a flag
    change or removal of that message is delivered to the session. -/
theorem change_target_known {sid : StateId} {snap : Snap} {res : List Responder} {v : View}
    (hinv : Snap.Inv snap) (h : Conv sid snap res v) {id : MsgId} (hid : id ∈ v.ids) :
    snap.has id = true ∨ ∃ r ∈ res, r.isExists = true ∧ r.msgId = id := by
  obtain ⟨s', hs', hsv⟩ := conv_iff.mp h
  by_cases hhas : snap.has id = true
  · exact Or.inl hhas
  · right
    have hno : snap.look id = none := Snap.look_eq_none_iff.mpr (by simpa using hhas)
    have hl := look_run hinv hs' id
    rw [hno] at hl
    have hin : s'.has id = true := by
      cases hh : s'.has id with
      | true => rfl
      | false => rw [Snap.not_has_iff, hsv.ids_eq] at hh; exact absurd hid hh
    have hsome : s'.look id ≠ none := fun hn => by
      rw [Snap.look_eq_none_iff] at hn; rw [hn] at hin; cases hin
    rw [hl] at hsome
    -- a fold that starts absent and meets no EXISTS of `id` stays absent
    have key : ∀ l : List Responder, (∀ r ∈ l, ¬ (r.isExists = true ∧ r.msgId = id)) →
        l.foldl (stepId sid id) none = none := by
      intro l
      induction l with
      | nil => intro _; rfl
      | cons r rs ih =>
        intro hl
        have hr := hl r List.mem_cons_self
        have : stepId sid id none r = none := by
          cases r with
          | «exists» id' uid fl t o =>
            have : id' ≠ id := fun e => hr ⟨rfl, e⟩
            simp [stepId, this]
          | expunge id' => simp only [stepId]; split <;> rfl
          | fetch id' fl op a b c => simp only [stepId]; split <;> rfl
        rw [List.foldl_cons, this]
        exact ih (fun x hx => hl x (List.mem_cons_of_mem _ hx))
    apply Classical.byContradiction
    intro hnone
    apply hsome
    apply key
    intro r hr hc
    exact hnone ⟨r, hr, hc⟩

/-- **T2 — deliver everything, then NOOP** — if the session converges to `v`, a
    `permitExpunge = true` flush (NOOP, CHECK, EXPUNGE, …) does not fail, empties the queue and
    leaves a snapshot identical to the mailbox. -/
theorem flush_true_converges {sid : StateId} {snap : Snap} {res : List Responder} {v : View}
    (h : Conv sid snap res v) :
    SameView (flush true false sid snap res).snap v ∧ (flush true false sid snap res).rem = [] ∧
    ∀ e, (flush true false sid snap res).result ≠ .err e := by
  obtain ⟨s', hs', hsv⟩ := conv_iff.mp h
  have hpop : popResponders true res = (res, []) := by simp [popResponders]
  have hrun : run sid snap (popResponders true res).1 = some s' := by rw [hpop]; exact hs'
  refine ⟨by rw [flush_snap_run hrun]; exact hsv, by rw [flush_rem, hpop], flush_result_not_err hrun⟩

/-- **T3, snapshot form (partial) — the observer's own flushes may be placed anywhere** — a
    `permitExpunge = false` flush (FETCH / STORE / SEARCH / COPY and the trailing flush of every
    selected-state command) does not fail, and handling the retained queue afterwards fails
    nowhere and reaches exactly the snapshot that handling the whole queue in order reaches.
    All snapshots under the invariant, all queues inside the named hypotheses
    `UidsOk` (fresh ascending UIDs), `FetchSafe` (no flag change behind a held-back re-add, #10),
    `NoOwnHeld` (no held-back EXISTS of the session's own making, #8). -/
theorem flush_false_replay_eq_partial {sid : StateId} {snap : Snap} {res : List Responder}
    (hinv : Snap.Inv snap) (huid : UidsOk sid snap res) (hsafe : FetchSafe res) (hown : NoOwnHeld sid res) :
    (∀ e, (flush false false sid snap res).result ≠ .err e) ∧
    replayOk sid snap res ∧
    replayOk sid (flush false false sid snap res).snap (flush false false sid snap res).rem ∧
    replay sid (flush false false sid snap res).snap (flush false false sid snap res).rem = replay sid snap res := by
  obtain ⟨s1, sF, hs1, hsF1, hsF, _, _⟩ := flush_false_core sid hinv huid hsafe hown
  have hpop : popResponders false res = popAux [] res := by simp [popResponders]
  have hrun : run sid snap (popResponders false res).1 = some s1 := by rw [hpop]; exact hs1
  have hsnap := flush_snap_run (c := false) hrun
  have hrem : (flush false false sid snap res).rem = (popAux [] res).2 := by rw [flush_rem, hpop]
  rw [hsnap, hrem]
  have h1 := (run_eq_some_iff false sid s1 sF _).mp hsF1
  have h2 := (run_eq_some_iff false sid snap sF _).mp hsF
  exact ⟨flush_result_not_err hrun, h2.1, h1.1, by simp only [replay]; rw [h1.2, h2.2]⟩

/-- **T3 (partial) — a `permitExpunge = false` flush at any point keeps the invariant** — inside
    the named hypotheses, if the session converges to `v` before the flush, it converges to the
    same `v` after it (snapshot after the flush + retained queue), and the flush does not fail. -/
theorem flush_false_keeps_invariant_partial {sid : StateId} {snap : Snap} {res : List Responder} {v : View}
    (hinv : Snap.Inv snap) (h : Conv sid snap res v)
    (huid : UidsOk sid snap res) (hsafe : FetchSafe res) (hown : NoOwnHeld sid res) :
    Conv sid (flush false false sid snap res).snap (flush false false sid snap res).rem v ∧
    ∀ e, (flush false false sid snap res).result ≠ .err e := by
  obtain ⟨he, _, hok, heq⟩ := flush_false_replay_eq_partial hinv huid hsafe hown
  exact ⟨⟨hok, by rw [heq]; exact h.2⟩, he⟩

/-- **The full T3 is false of the code (#10): a flag change behind a held-back re-add is lost** —
    message 1 is removed and re-added (UID 5) and then gets `\Seen`; the observer (snapshot still
    holding the old instance) converges to the mailbox in queue order, all UID hypotheses hold and
    no EXISTS of its own is held back, but a FETCH-style flush pops the `fetch` alone, applies it
    to the OLD instance and retains `expunge; exists`: after that the session no longer converges
    — it ends with message 1 unseen forever. -/
theorem flush_false_counterexample_fetch_after_held_readd :
    let snap : Snap := [Snap.mkMsg 1 1 []]
    let res : List Responder := [.expunge 1, .exists 1 5 [] 2 none, .fetch 1 ["\\seen"] .add false false false]
    let v : View := [{ id := 1, uid := 5, flags := ["\\seen"] }]
    let f := flush false false 1 snap res
    snap.invB = true ∧ Conv 1 snap res v ∧ UidsOk 1 snap res ∧ NoOwnHeld 1 res ∧
    ¬ FetchSafe res ∧
    f.result = .ok [.fetch 1 (some ["\\seen"]) none] ∧ f.rem = [.expunge 1, .exists 1 5 [] 2 none] ∧
    ¬ Conv 1 f.snap f.rem v ∧
    (flush true false 1 f.snap f.rem).snap = [Snap.mkMsg 1 5 []] := by
  decide

/-- **The full T3 is false of the code (#8): a held-back EXISTS of the session's own making makes
    a later flush fail** — session 1 re-adds message 1 itself (UID 5) while the removal of the old
    instance is pending, then another party adds message 2 (UID 6).  In queue order the session
    converges; a FETCH-style flush pops the foreign EXISTS only; when the retained own EXISTS is
    finally handled, the strict-ascending `snap.appendMessage` refuses UID 5 after UID 6: the NOOP
    fails with `ErrOutOfOrderUIDInsertion`, the popped responders are gone and the session never
    shows message 1 again. -/
theorem flush_false_counterexample_own_readd_held :
    let snap : Snap := [Snap.mkMsg 1 1 []]
    let res : List Responder := [.expunge 1, .exists 1 5 [] 1 (some 1), .exists 2 6 [] 2 none]
    let v : View := [{ id := 1, uid := 5, flags := [] }, { id := 2, uid := 6, flags := [] }]
    let f := flush false false 1 snap res
    snap.invB = true ∧ Conv 1 snap res v ∧ UidsOk 1 snap res ∧ FetchSafe res ∧ ¬ NoOwnHeld 1 res ∧
    f.result = .ok [.exists 2] ∧ f.rem = [.expunge 1, .exists 1 5 [] 1 (some 1)] ∧
    ¬ Conv 1 f.snap f.rem v ∧
    (flush true false 1 f.snap f.rem).result = .err .outOfOrder ∧
    (flush true false 1 f.snap f.rem).snap = [Snap.mkMsg 2 6 []] := by
  decide

/-- **The invariant holds along every history** (partial) — start from a session whose snapshot
    shows the mailbox and whose queue is empty; let any finite sequence of rounds happen: admissible
    changes by any party (responder appended to the queue) and flushes of the observer with either
    `permitExpunge`, outside CLOSE, every `permitExpunge = false` flush meeting a queue inside
    `FetchSafe` / `NoOwnHeld` (`RoundsOk`).  Then at the end (hence at every point) the session
    still converges to the mailbox as changed by all the changes. -/
theorem history_invariant_partial {sid : StateId} {snap0 : Snap} {mb0 : Mbox} (h0 : SameView snap0 mb0.view)
    (hwf : mb0.Wf) (rounds : List Round) (hok : RoundsOk sid { snap := snap0, res := [] } mb0 rounds) :
    Conv sid (runRounds sid { snap := snap0, res := [] } mb0 rounds).1.snap
      (runRounds sid { snap := snap0, res := [] } mb0 rounds).1.res
      (mb0.view.applyAll (changesOf rounds)) := by
  have := (HistInv.init (sid := sid) h0 hwf).rounds rounds hok
  rw [← runRounds_view sid]
  exact this.conv

/-- **T4 — C02 for a whole history** (partial: under the named hypotheses of T3 at the
    `permitExpunge = false` flushes) — for every initial snapshot that shows the mailbox, every
    finite history of admissible changes by other sessions, the connector or the session itself,
    and every placement of the observer's own flushes (before, between or after the other parties'
    steps), a final `permitExpunge = true` flush (NOOP) does not fail, empties the queue and leaves
    the snapshot identical to the mailbox `v0` with all changes applied: the same messages with the
    same UIDs in the same order with the same flags (ignoring `\Recent`). -/
theorem converges {sid : StateId} {snap0 : Snap} {mb0 : Mbox} (h0 : SameView snap0 mb0.view)
    (hwf : mb0.Wf) (rounds : List Round) (hok : RoundsOk sid { snap := snap0, res := [] } mb0 rounds) :
    let st := (runRounds sid { snap := snap0, res := [] } mb0 rounds).1
    SameView (flush true false sid st.snap st.res).snap (mb0.view.applyAll (changesOf rounds)) ∧
    (flush true false sid st.snap st.res).rem = [] ∧
    ∀ e, (flush true false sid st.snap st.res).result ≠ .err e :=
  flush_true_converges (history_invariant_partial h0 hwf rounds hok)

/-! ### Non-vacuity: concrete histories meeting the hypotheses -/

namespace Ex
def snap : Snap := [Snap.mkMsg 1 1 [], Snap.mkMsg 2 2 ["\\recent"]]
def res : List Responder :=
  [.expunge 1, .exists 1 5 [] 2 none, .fetch 2 ["\\seen"] .add false false false, .exists 3 6 ["\\recent"] 1 (some 1)]
def v : View := [{ id := 2, uid := 2, flags := ["\\seen"] }, { id := 1, uid := 5, flags := [] },
  { id := 3, uid := 6, flags := [] }]

def snap0 : Snap := [Snap.mkMsg 1 1 [], Snap.mkMsg 2 2 []]
def mb0 : Mbox := { view := [{ id := 1, uid := 1, flags := [] }, { id := 2, uid := 2, flags := [] }], uidNext := 3 }
def rounds : List Round :=
  [.change (.remove 1) (.expunge 1),
   .change (.add 1 5 []) (.exists 1 5 ["\\recent"] 2 none),
   .flush false,
   .change (.setFlags 2 .add ["\\seen"] false) (.fetch 2 ["\\seen"] .add true false false),
   .flush false,
   .change (.add 3 6 ["\\flagged"]) (.exists 3 6 ["\\flagged"] 7 (some 7)),
   .flush false]
end Ex

/-- a queue with a held-back removal + re-add of message 1, a flag change of message 2 and a new
    message 3 (the session's own): the hypotheses of T3 hold, the theorem applies, and the
    FETCH-style flush really splits the queue -/
example :
    Conv 1 (flush false false 1 Ex.snap Ex.res).snap (flush false false 1 Ex.snap Ex.res).rem Ex.v ∧
    (flush false false 1 Ex.snap Ex.res).rem = [.expunge 1, .exists 1 5 [] 2 none] ∧
    (flush false false 1 Ex.snap Ex.res).snap.length = 3 :=
  ⟨(flush_false_keeps_invariant_partial (v := Ex.v) ⟨by decide, by decide⟩ (by decide) (by decide)
      (by decide) (by decide)).1, by decide, by decide⟩

/-- a whole history: message 1 is moved out and back in (held back by the observer's FETCHes), message
    2 gets `\Seen`, message 3 is appended by the observer itself, the observer flushes in between;
    `converges` applies and the re-add is still held back when the final NOOP comes -/
example :
    (runRounds 7 { snap := Ex.snap0, res := [] } Ex.mb0 Ex.rounds).1.res
      = [.expunge 1, .exists 1 5 ["\\recent"] 2 none] ∧
    SameView (flush true false 7 (runRounds 7 { snap := Ex.snap0, res := [] } Ex.mb0 Ex.rounds).1.snap
        (runRounds 7 { snap := Ex.snap0, res := [] } Ex.mb0 Ex.rounds).1.res).snap
      [{ id := 2, uid := 2, flags := ["\\seen"] }, { id := 1, uid := 5, flags := [] },
       { id := 3, uid := 6, flags := ["\\flagged"] }] :=
  ⟨by decide,
   (converges (sid := 7) (snap0 := Ex.snap0) (mb0 := Ex.mb0) (by decide) ⟨⟨by decide, by decide⟩, by decide⟩
      Ex.rounds (by decide)).1⟩

end Gluon.C02
