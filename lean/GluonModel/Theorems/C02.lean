/-
C02 — At quiescence every session's view converges to the authoritative mailbox.

The mailbox is `Gluon.View` / `Gluon.Mbox` (Spec/MailboxView.lean): the table (message id, UID,
flags without `\Recent`) in UID order with its `UIDNext` counter — what a newly opened session
builds its snapshot from.  A committed change (`Change`: add / remove / setFlags) acts on the table
by `View.apply` and broadcasts one responder (`RespOf`) to every session that has the mailbox
selected.  The session is the model of `responder.handle`, `popResponders`, `State.flushResponses`
(Model/Responder.lean), tied to the code by the `flush` correspondence dialect.

The invariant is `Conv sid snap res v`: handling everything queued, in queue order, fails nowhere
and ends in a snapshot identical to the table `v` (`SameView`: same ids, same UIDs, same order,
same flags ignoring `\Recent`).  Property theorems only; lemmas live in `Lemmas/Converge*.lean`.
-/
import GluonModel.Lemmas.ConvergeFlush

namespace Gluon.C02

open Gluon

/-- **One responder acts on the session exactly as the change acts on the mailbox** — on a snapshot
    that shows the table `v`, in any context, the responder of an admissible change does not fail
    and leaves a snapshot that shows `v.apply c`: an EXISTS appends (its UID is above all others,
    whoever created it), an EXPUNGE erases, a FETCH changes the flags; `\Recent` bookkeeping is
    invisible.  All snapshots, all tables, all changes. -/
theorem handle_as_apply {snap : Snap} {v : View} (h : SameView snap v) (hwf : v.Wf) (close : Bool)
    (sid : StateId) (c : Change) (r : Responder) (hadm : c.AdmissibleV v) (hr : RespOf c r) :
    (r.handle close sid snap).err = none ∧ SameView (r.handle close sid snap).snap (v.apply c) := by
  obtain ⟨s', hs', hsv⟩ := snapStep_sameView h hwf sid c r hadm hr
  obtain ⟨h1, h2⟩ := handle_snap_of_ok (close := close) hs'
  exact ⟨h1, by rw [h2]; exact hsv⟩

/-- **T1 — every committed change is reflected once delivered** — if the session converges to `v`
    and an admissible change `c` is committed, then with `c`'s responder appended to the queue the
    session converges to `v.apply c` (no handler error occurs).  All snapshots, all queues. -/
theorem change_step {sid : StateId} {snap : Snap} {res : List Responder} {v : View}
    (h : Conv sid snap res v) (hwf : v.Wf) {c : Change} {r : Responder} (hadm : c.AdmissibleV v)
    (hr : RespOf c r) : Conv sid snap (res ++ [r]) (v.apply c) :=
  conv_change h hwf hadm hr

/-- **No committed change is missed by the update filter** — if the session converges to `v` and a
    message is in the mailbox, then the session's snapshot holds it or an EXISTS for it is queued
    (`State.hasMessageOrPendingExists`, what `MessageIDStateFilter` asks): the responder of a flag
    change or removal of that message is delivered to the session. -/
theorem change_target_known {sid : StateId} {snap : Snap} {res : List Responder} {v : View}
    (hinv : Snap.Inv snap) (h : Conv sid snap res v) {id : MsgId} (hid : id ∈ v.ids) :
    snap.has id = true ∨ ∃ r ∈ res, r.isExists = true ∧ r.msgId = id := by
  obtain ⟨s', hs', hsv⟩ := conv_iff.mp h
  by_cases hhas : snap.has id = true
  · exact Or.inl hhas
  · right
    have hno : snap.look id = none := Snap.look_eq_none_iff.mpr (by simpa using hhas)
    have hl := look_run hinv hs' id
    rw [hno] at hl
    have hin : s'.has id = true := by
      cases hh : s'.has id with
      | true => rfl
      | false => rw [Snap.not_has_iff, hsv.ids_eq] at hh; exact absurd hid hh
    have hsome : s'.look id ≠ none := fun hn => by
      rw [Snap.look_eq_none_iff] at hn; rw [hn] at hin; cases hin
    rw [hl] at hsome
    -- a fold that starts absent and meets no EXISTS of `id` stays absent
    have key : ∀ l : List Responder, (∀ r ∈ l, ¬ (r.isExists = true ∧ r.msgId = id)) →
        l.foldl (stepId sid id) none = none := by
      intro l
      induction l with
      | nil => intro _; rfl
      | cons r rs ih =>
        intro hl
        have hr := hl r List.mem_cons_self
        have : stepId sid id none r = none := by
          cases r with
          | «exists» id' uid fl t o =>
            have : id' ≠ id := fun e => hr ⟨rfl, e⟩
            simp [stepId, this]
          | expunge id' => simp only [stepId]; split <;> rfl
          | fetch id' fl op a b c => simp only [stepId]; split <;> rfl
        rw [List.foldl_cons, this]
        exact ih (fun x hx => hl x (List.mem_cons_of_mem _ hx))
    apply Classical.byContradiction
    intro hnone
    apply hsome
    apply key
    intro r hr hc
    exact hnone ⟨r, hr, hc⟩

/-- **T2 — deliver everything, then NOOP** — if the session converges to `v`, a
    `permitExpunge = true` flush (NOOP, CHECK, EXPUNGE, …) does not fail, empties the queue and
    leaves a snapshot identical to the mailbox. -/
theorem flush_true_converges {sid : StateId} {snap : Snap} {res : List Responder} {v : View}
    (h : Conv sid snap res v) :
    SameView (flush true false sid snap res).snap v ∧ (flush true false sid snap res).rem = [] ∧
    ∀ e, (flush true false sid snap res).result ≠ .err e := by
  obtain ⟨s', hs', hsv⟩ := conv_iff.mp h
  have hpop : popResponders true res = (res, []) := by simp [popResponders]
  have hrun : run sid snap (popResponders true res).1 = some s' := by rw [hpop]; exact hs'
  refine ⟨by rw [flush_snap_run hrun]; exact hsv, by rw [flush_rem, hpop], flush_result_not_err hrun⟩

/-- **T3, snapshot form — the observer's own flushes may be placed anywhere** — a
    `permitExpunge = false` flush (FETCH / STORE / SEARCH / COPY and the trailing flush of every
    selected-state command) does not fail, and handling the retained queue afterwards fails
    nowhere and reaches exactly the snapshot that handling the whole queue in order reaches.
    All snapshots under the invariant, all queues whose EXISTS carry fresh ascending UIDs
    (`UidsOk`: what the database's `UIDNext` guarantees; see `flush_false_needs_fresh_uids`).
    (Before the repair "while a re-added message is held back, later EXISTS and its flag changes are
    held back too" this needed two more hypotheses, see the regression examples below.) -/
theorem flush_false_replay_eq {sid : StateId} {snap : Snap} {res : List Responder}
    (hinv : Snap.Inv snap) (huid : UidsOk sid snap res) :
    (∀ e, (flush false false sid snap res).result ≠ .err e) ∧
    replayOk sid snap res ∧
    replayOk sid (flush false false sid snap res).snap (flush false false sid snap res).rem ∧
    replay sid (flush false false sid snap res).snap (flush false false sid snap res).rem = replay sid snap res := by
  obtain ⟨s1, sF, hs1, hsF1, hsF, _, _⟩ := flush_false_core sid hinv huid
  have hpop : popResponders false res = popAux [] [] res := by simp [popResponders]
  have hrun : run sid snap (popResponders false res).1 = some s1 := by rw [hpop]; exact hs1
  have hsnap := flush_snap_run (c := false) hrun
  have hrem : (flush false false sid snap res).rem = (popAux [] [] res).2 := by rw [flush_rem, hpop]
  rw [hsnap, hrem]
  have h1 := (run_eq_some_iff false sid s1 sF _).mp hsF1
  have h2 := (run_eq_some_iff false sid snap sF _).mp hsF
  exact ⟨flush_result_not_err hrun, h2.1, h1.1, by simp only [replay]; rw [h1.2, h2.2]⟩

/-- **T3 — a `permitExpunge = false` flush at any point keeps the invariant** — if the session
    converges to `v` before the flush, it converges to the same `v` after it (snapshot after the
    flush + retained queue), and the flush does not fail. -/
theorem flush_false_keeps_invariant {sid : StateId} {snap : Snap} {res : List Responder} {v : View}
    (hinv : Snap.Inv snap) (h : Conv sid snap res v) (huid : UidsOk sid snap res) :
    Conv sid (flush false false sid snap res).snap (flush false false sid snap res).rem v ∧
    ∀ e, (flush false false sid snap res).result ≠ .err e := by
  obtain ⟨he, _, hok, heq⟩ := flush_false_replay_eq hinv huid
  exact ⟨⟨hok, by rw [heq]; exact h.2⟩, he⟩

/-- **The UID hypothesis is the database's contract, and it is needed**: if a UID is handed out
    twice (message 1 with UID 5 removed, message 2 added with UID 5 again — `UidsOk` fails), the
    session converges in queue order, but a FETCH-style flush pops the EXISTS while the old holder
    of UID 5 is still in the snapshot: `insertOutOfOrder` panics on the duplicate UID.  (Not
    reachable while `UIDNext` only grows; `converges` derives `UidsOk` from that.) -/
theorem flush_false_needs_fresh_uids :
    let snap : Snap := [Snap.mkMsg 1 5 []]
    let res : List Responder := [.expunge 1, .exists 2 5 [] 2 none]
    let v : View := [{ id := 2, uid := 5, flags := [] }]
    snap.invB = true ∧ Conv 1 snap res v ∧ ¬ UidsOk 1 snap res ∧
    (flush false false 1 snap res).result = .err .panic := by
  decide

/-- **The retained queue stays inside the hypothesis** — after a `permitExpunge = false` flush the
    snapshot it leaves and the queue it retains satisfy `UidsOk` again (a pop never lets a later
    EXISTS overtake a held-back one), so T3 can be applied flush after flush. -/
theorem flush_false_keeps_uidsOk {sid : StateId} {snap : Snap} {res : List Responder}
    (hinv : Snap.Inv snap) (huid : UidsOk sid snap res) :
    Snap.Inv (flush false false sid snap res).snap ∧
    UidsOk sid (flush false false sid snap res).snap (flush false false sid snap res).rem := by
  obtain ⟨s1, sF, hs1, _, _, huid1, _⟩ := flush_false_core sid hinv huid
  have hpop : popResponders false res = popAux [] [] res := by simp [popResponders]
  have hrun : run sid snap (popResponders false res).1 = some s1 := by rw [hpop]; exact hs1
  rw [flush_snap_run (c := false) hrun, flush_rem, hpop]
  exact ⟨run_inv hinv hs1, huid1⟩

/-- **The invariant holds along every history** — start from a session whose snapshot shows the
    mailbox and whose queue is empty; let any finite sequence of rounds happen: admissible changes
    by any party (responder appended to the queue) and flushes of the observer with either
    `permitExpunge`, outside CLOSE, placed anywhere (`RoundsOk` only asks that the changes are
    admissible and broadcast their responder).  Then at the end (hence at every point) the session
    still converges to the mailbox as changed by all the changes. -/
theorem history_invariant {sid : StateId} {snap0 : Snap} {mb0 : Mbox} (h0 : SameView snap0 mb0.view)
    (hwf : mb0.Wf) (rounds : List Round) (hok : RoundsOk sid { snap := snap0, res := [] } mb0 rounds) :
    Conv sid (runRounds sid { snap := snap0, res := [] } mb0 rounds).1.snap
      (runRounds sid { snap := snap0, res := [] } mb0 rounds).1.res
      (mb0.view.applyAll (changesOf rounds)) := by
  have := (HistInv.init (sid := sid) h0 hwf).rounds rounds hok
  rw [← runRounds_view sid]
  exact this.conv

/-- **T4 — C02 for a whole history** — for every initial snapshot that shows the mailbox, every
    finite history of admissible changes by other sessions, the connector or the session itself,
    and every placement of the observer's own flushes (before, between or after the other parties'
    steps, with either `permitExpunge`), a final `permitExpunge = true` flush (NOOP) does not fail,
    empties the queue and leaves the snapshot identical to the mailbox `v0` with all changes
    applied: the same messages with the same UIDs in the same order with the same flags (ignoring
    `\Recent`). -/
theorem converges {sid : StateId} {snap0 : Snap} {mb0 : Mbox} (h0 : SameView snap0 mb0.view)
    (hwf : mb0.Wf) (rounds : List Round) (hok : RoundsOk sid { snap := snap0, res := [] } mb0 rounds) :
    let st := (runRounds sid { snap := snap0, res := [] } mb0 rounds).1
    SameView (flush true false sid st.snap st.res).snap (mb0.view.applyAll (changesOf rounds)) ∧
    (flush true false sid st.snap st.res).rem = [] ∧
    ∀ e, (flush true false sid st.snap st.res).result ≠ .err e :=
  flush_true_converges (history_invariant h0 hwf rounds hok)

/-! ### Regression: the two histories on which T3 used to fail now converge -/

/-- (#10, repaired) message 1 is removed and re-added (UID 5) and then gets `\Seen` while the
    observer still shows the old instance: the FETCH-style flush now holds the flag change back
    together with the re-add, and the session converges — message 1 ends up seen. -/
example :
    let snap : Snap := [Snap.mkMsg 1 1 []]
    let res : List Responder := [.expunge 1, .exists 1 5 [] 2 none, .fetch 1 ["\\seen"] .add false false false]
    let v : View := [{ id := 1, uid := 5, flags := ["\\seen"] }]
    let f := flush false false 1 snap res
    Conv 1 snap res v ∧ UidsOk 1 snap res ∧
    f.result = .ok [] ∧ f.rem = res ∧ Conv 1 f.snap f.rem v ∧
    (flush true false 1 f.snap f.rem).snap = [Snap.mkMsg 1 5 ["\\seen"]] := by
  decide

/-- (#8, repaired) session 1 re-adds message 1 itself (UID 5) while the removal of the old instance
    is pending, then another party adds message 2 (UID 6): the FETCH-style flush now holds the
    foreign EXISTS back behind the session's own one, and the NOOP succeeds with both messages. -/
example :
    let snap : Snap := [Snap.mkMsg 1 1 []]
    let res : List Responder := [.expunge 1, .exists 1 5 [] 1 (some 1), .exists 2 6 [] 2 none]
    let v : View := [{ id := 1, uid := 5, flags := [] }, { id := 2, uid := 6, flags := [] }]
    let f := flush false false 1 snap res
    Conv 1 snap res v ∧ UidsOk 1 snap res ∧
    f.result = .ok [] ∧ f.rem = res ∧ Conv 1 f.snap f.rem v ∧
    (flush true false 1 f.snap f.rem).result = .ok [.expunge 1, .exists 2] ∧
    (flush true false 1 f.snap f.rem).snap = [Snap.mkMsg 1 5 [], Snap.mkMsg 2 6 []] := by
  decide

/-! ### Non-vacuity: concrete histories meeting the hypotheses -/

namespace Ex
def snap : Snap := [Snap.mkMsg 1 1 [], Snap.mkMsg 2 2 ["\\recent"]]
def res : List Responder :=
  [.expunge 1, .exists 1 5 [] 2 none, .fetch 2 ["\\seen"] .add false false false, .exists 3 6 ["\\recent"] 1 (some 1)]
def v : View := [{ id := 2, uid := 2, flags := ["\\seen"] }, { id := 1, uid := 5, flags := [] },
  { id := 3, uid := 6, flags := [] }]

def snap0 : Snap := [Snap.mkMsg 1 1 [], Snap.mkMsg 2 2 []]
def mb0 : Mbox := { view := [{ id := 1, uid := 1, flags := [] }, { id := 2, uid := 2, flags := [] }], uidNext := 3 }
def rounds : List Round :=
  [.change (.remove 1) (.expunge 1),
   .change (.add 1 5 []) (.exists 1 5 ["\\recent"] 2 none),
   .flush false,
   .change (.setFlags 2 .add ["\\seen"] false) (.fetch 2 ["\\seen"] .add true false false),
   .flush false,
   .change (.add 3 6 ["\\flagged"]) (.exists 3 6 ["\\flagged"] 7 (some 7)),
   .flush false]
end Ex

/-- a queue with a held-back removal + re-add of message 1, a flag change of message 2 and a new
    message 3 (the session's own): the hypotheses of T3 hold, the theorem applies, and the
    FETCH-style flush really splits the queue (the flag change goes out, both EXISTS wait) -/
example :
    Conv 1 (flush false false 1 Ex.snap Ex.res).snap (flush false false 1 Ex.snap Ex.res).rem Ex.v ∧
    (flush false false 1 Ex.snap Ex.res).rem =
      [.expunge 1, .exists 1 5 [] 2 none, .exists 3 6 ["\\recent"] 1 (some 1)] ∧
    (flush false false 1 Ex.snap Ex.res).result = .ok [.fetch 2 (some ["\\recent", "\\seen"]) none] :=
  ⟨(flush_false_keeps_invariant (v := Ex.v) ⟨by decide, by decide⟩ (by decide) (by decide)).1,
    by decide, by decide⟩

/-- a whole history: message 1 is moved out and back in (held back by the observer's FETCHes), message
    2 gets `\Seen`, message 3 is appended by the observer itself, the observer flushes in between;
    `converges` applies; the re-add and the later arrival are still held back when the final NOOP comes -/
example :
    (runRounds 7 { snap := Ex.snap0, res := [] } Ex.mb0 Ex.rounds).1.res
      = [.expunge 1, .exists 1 5 ["\\recent"] 2 none, .exists 3 6 ["\\flagged"] 7 (some 7)] ∧
    SameView (flush true false 7 (runRounds 7 { snap := Ex.snap0, res := [] } Ex.mb0 Ex.rounds).1.snap
        (runRounds 7 { snap := Ex.snap0, res := [] } Ex.mb0 Ex.rounds).1.res).snap
      [{ id := 2, uid := 2, flags := ["\\seen"] }, { id := 1, uid := 5, flags := [] },
       { id := 3, uid := 6, flags := ["\\flagged"] }] :=
  ⟨by decide,
   (converges (sid := 7) (snap0 := Ex.snap0) (mb0 := Ex.mb0) (by decide) ⟨⟨by decide, by decide⟩, by decide⟩
      Ex.rounds (by decide)).1⟩

end Gluon.C02
