/-
C08, full-strength statement about the SQL texts of the index.  NOT in `theorem_modules` of
checklib/props/C08.py while DESIGN.md section 9 #5 (`UpdateRemoteMessageID`: column name used as
table name) and #6 (`MailboxExistsWithID`: `SELEC`) are in the tree: `decide` evaluates to
`false` on today's regenerated table and names both.  After the repair, add
`"GluonModel.Theorems.C08Sql"` to `theorem_modules`; nothing else needs to change (the model and
the judge take both outcomes from `Facts.sqlOk`).
-/
import GluonModel.Generated.Facts.Chunk

namespace Gluon.C08

/-- **Every SQL text of the index is well-formed** — first word an SQL verb, every
    FROM/INTO/UPDATE/TABLE/JOIN followed by a table name; regenerated from the source. -/
theorem sql_texts_wellformed : ∀ q ∈ Facts.sqlStmts, q.verbOk = true ∧ q.tableOk = true := by decide

end Gluon.C08
