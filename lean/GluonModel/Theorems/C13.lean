/-
C13 — FETCH returns byte-exact message data for every section and partial.

Model: GluonModel/Model/Rfc822.lean (rfc822.Split / headerParser.next / NewHeader / Fields / FieldsNot /
SetHeaderValue(NoMemCopy) / ByteScanner / parse / load / Part, itemBodyLiteral.WithPartial / String,
mailbox_fetch.go).  All theorems are for all byte strings, all section paths, all field lists, all
offsets and all Content-Type oracles `ct` (the standard library's mime.ParseMediaType is a parameter).

Repaired in /repo and followed here: #15 (fix 1ac3d52: the entry of an empty-valued field covers its
colon and line break; `fields_exact` is now full strength) and #16/#16b (fix d71238c: ParseNumber rejects
numbers above 2^32-1, so no parsed command reaches the overflow or a negative begin;
`partial_no_panic_for_parsed`).  d28 (fix 047f712: field names are compared in the ASCII-only normal
form `foldKey`; a requested name with U+212A KELVIN SIGN no longer selects `Key`; `fields_case_insensitive` is
full strength, the old witness is a regression example).  WithPartial itself is unchanged: `partial_overflow_*` /
`partial_negative_begin_panics` remain as facts about the unexported function outside the parser's range.

Full-strength statements that are FALSE of the current code are proved false on a witness
(`*_witness`) and proved under a named hypothesis (`*_partial`):
  d24  BODY[HEADER]/BODY[TEXT] of a message whose own Content-Type is message/rfc822 are those of the
       embedded message                                           header_text_top_witness / header_text_top_partial
  anomaly  a numeric path below a part without children is ignored    part_leaf_ignores_path_witness
-/
import GluonModel.Lemmas.Rfc822
import GluonModel.Lemmas.LitCache
import GluonModel.Generated.Facts.Rfc822
import GluonModel.Generated.Facts.LitCache

namespace Gluon.C13
open Gluon.Rfc822

/-! ### the ID header line is spliced in, nothing else changes -/

/-- APPEND stores `SetHeaderValue(literal, key, id)`.  Whenever it succeeds the result is the literal with
    exactly the line `Canonical-Key: value CRLF` inserted at `insertPoint lit` — the start of the first
    header entry that has a key, or the end of the raw header (`Split`) when there is none; the insertion
    point is inside the header.  Every byte of the appended message is kept, in order. -/
theorem splice_exact {lit k v out : Bytes} {size : Nat} (h : setHeaderValue lit k v = .ok (out, size)) :
    ∃ i, insertPoint lit = .ok i ∧ i ≤ (split lit).1.length ∧
      out = lit.take i ++ joinLine (canonKey k) v ++ lit.drop i := by
  obtain ⟨i, h1, h2, h3, _⟩ := setHeaderValue_spec h
  exact ⟨i, h1, h2, h3⟩

/-- Removing the inserted line gives back the appended message byte for byte. -/
theorem splice_removable {lit k v out : Bytes} {size : Nat} (h : setHeaderValue lit k v = .ok (out, size)) :
    ∃ i, out.take i ++ out.drop (i + (joinLine (canonKey k) v).length) = lit := by
  obtain ⟨i, _, hi, h3, _⟩ := setHeaderValue_spec h
  have hlen : i ≤ lit.length := by
    have := split_fst_length lit; have := splitIndex_le lit; omega
  refine ⟨i, ?_⟩
  subst h3
  have h1 : (lit.take i).length = i := by rw [List.length_take]; omega
  rw [List.append_assoc, List.take_left' h1]
  have h2 : (lit.take i ++ joinLine (canonKey k) v).length = i + (joinLine (canonKey k) v).length := by
    rw [List.length_append, h1]
  rw [← List.append_assoc, List.drop_left' h2]
  exact List.take_append_drop i lit

/-- The size handed to the database (what RFC822.SIZE reports) is the length of the stored literal. -/
theorem size_is_length {lit k v out : Bytes} {size : Nat} (h : setHeaderValue lit k v = .ok (out, size)) :
    size = out.length := by
  obtain ⟨_, _, _, _, h4⟩ := setHeaderValue_spec h
  exact h4

/-- The key every call site passes (regenerated from the source) is `ids.InternalIDKey`, and that
    constant is already in canonical MIME form, so the inserted line starts with exactly these bytes. -/
theorem splice_sites_use_id_key :
    Facts.spliceSites ≠ [] ∧ Facts.spliceSites.all (fun s => s.key == "ids.InternalIDKey") = true ∧
    Facts.internalIDKey.map canonKey = Facts.internalIDKey ∧
    Facts.internalIDKey.any (fun k => !k.isEmpty) = true := by decide

/-! ### header ++ text = literal, for every section -/

/-- `Split` loses nothing: header ++ body is the input. -/
theorem split_lossless (b : Bytes) : (split b).1 ++ (split b).2 = b := split_concat b

/-- For every section `Part` can return, for every path and every Content-Type oracle:
    `Header() ++ Body() = Literal()`. -/
theorem header_text_concat (ct : Bytes → CT) (lit : Bytes) (path : List Int) (s : Section)
    (h : part ct lit (parseRoot lit) path = .ok s) :
    s.headerBytes lit ++ s.bodyBytes lit = s.literalBytes lit :=
  s.header_body lit (part_wf ct lit path _ s (parseRoot_wf lit) h).1

/-- BODY[p] (no section text) and BODY[p.MIME] are the body and the header of the section `Part`
    returns, so MIME ++ BODY[p] is that part's literal. -/
theorem mime_body_concat (ct : Bytes → CT) (lit : Bytes) (path : List Int) (m b : Bytes)
    (hm : fetchBodySection ct lit ⟨path, .mime⟩ = .ok m) (hb : fetchBodySection ct lit ⟨path, .none⟩ = .ok b) :
    ∃ s, part ct lit (parseRoot lit) path = .ok s ∧ m ++ b = s.literalBytes lit := by
  unfold fetchBodySection at hm hb
  cases hp : part ct lit (parseRoot lit) path with
  | error e => rw [hp] at hm; cases hm
  | ok s =>
    rw [hp] at hm hb
    simp only [Except.ok.injEq] at hm hb
    exact ⟨s, rfl, by rw [← hm, ← hb]; exact header_text_concat ct lit path s hp⟩

/-- BODY[p.HEADER] ++ BODY[p.TEXT], whenever both are served, are header and body of one well-formed
    section: either the section `Part` returned, or (when that section is a message/rfc822 part) the
    message embedded in its body — so the concatenation is that part's literal resp. that part's body. -/
theorem fetch_header_text_concat (ct : Bytes → CT) (lit : Bytes) (path : List Int) (hd tx : Bytes)
    (hh : fetchBodySection ct lit ⟨path, .header⟩ = .ok hd)
    (ht : fetchBodySection ct lit ⟨path, .text⟩ = .ok tx) :
    ∃ r, part ct lit (parseRoot lit) path = .ok r ∧
      (hd ++ tx = r.literalBytes lit ∨ hd ++ tx = r.bodyBytes lit) := by
  unfold fetchBodySection at hh ht
  cases hp : part ct lit (parseRoot lit) path with
  | error e => rw [hp] at hh; cases hh
  | ok r =>
    rw [hp] at hh ht
    have hwf := (part_wf ct lit path _ r (parseRoot_wf lit) hp).1
    refine ⟨r, rfl, ?_⟩
    simp only at hh ht
    unfold handleEmbedded at hh ht
    cases hc : contentType ct lit r with
    | error e => rw [hc] at hh; cases hh
    | ok c =>
      rw [hc] at hh ht
      cases c with
      | rfc822 =>
        simp only [Except.map] at hh ht
        cases hh; cases ht
        right
        have hw := parse_wf lit hwf.2.1 hwf.2.2
        rw [(parse lit r.body r.end).header_body lit hw]
        simp [Section.literalBytes, Section.bodyBytes, parse_header, parse_end]
      | multipart b =>
        simp only [Except.map] at hh ht
        cases hh; cases ht
        left; exact r.header_body lit hwf
      | other =>
        simp only [Except.map] at hh ht
        cases hh; cases ht
        left; exact r.header_body lit hwf

/-- EXPECTED FALSE at full strength: "BODY[HEADER] followed by BODY[TEXT] is BODY[]" fails for a message
    whose own Content-Type is message/rfc822: `handleEmbeddedParts` is applied to the top-level message
    as well, so HEADER and TEXT are those of the embedded message
    (`Content-Type: message/rfc822 CRLF CRLF A: b CRLF CRLF x` gives `A: b CRLF CRLF` and `x`). -/
theorem header_text_top_witness :
    let lit : Bytes := [67, 111, 110, 116, 101, 110, 116, 45, 84, 121, 112, 101, 58, 32, 109, 101, 115, 115, 97,
      103, 101, 47, 114, 102, 99, 56, 50, 50, 13, 10, 13, 10, 65, 58, 32, 98, 13, 10, 13, 10, 120]
    let ct : Bytes → CT := fun _ => .rfc822
    fetchBodySection ct lit ⟨[], .header⟩ = .ok [65, 58, 32, 98, 13, 10, 13, 10] ∧
    fetchBodySection ct lit ⟨[], .text⟩ = .ok [120] ∧
    ([65, 58, 32, 98, 13, 10, 13, 10] ++ [120] : Bytes) ≠ lit := by decide

/-- … and holds whenever the message's own Content-Type is not message/rfc822 (hypothesis
    `TopNotEmbedded`): BODY[HEADER] ++ BODY[TEXT] = BODY[] = the stored literal. -/
theorem header_text_top_partial (ct : Bytes → CT) (lit hd tx : Bytes)
    (TopNotEmbedded : contentType ct lit (parseRoot lit) ≠ .ok .rfc822)
    (hh : fetchBodySection ct lit ⟨[], .header⟩ = .ok hd)
    (ht : fetchBodySection ct lit ⟨[], .text⟩ = .ok tx) : hd ++ tx = lit := by
  unfold fetchBodySection at hh ht
  simp only [part] at hh ht
  unfold handleEmbedded at hh ht
  have hroot : (parseRoot lit).literalBytes lit = lit := by
    simp [Section.literalBytes, parseRoot, parse_header, parse_end, slice_zero]
  cases hc : contentType ct lit (parseRoot lit) with
  | error e => rw [hc] at hh; cases hh
  | ok c =>
    rw [hc] at hh ht
    cases c with
    | rfc822 => exact absurd hc TopNotEmbedded
    | multipart b =>
      simp only [Except.map] at hh ht
      cases hh; cases ht
      rw [(parseRoot lit).header_body lit (parseRoot_wf lit), hroot]
    | other =>
      simp only [Except.map] at hh ht
      cases hh; cases ht
      rw [(parseRoot lit).header_body lit (parseRoot_wf lit), hroot]

/-- BODY[] is the stored literal, RFC822 carries the same bytes, and RFC822.HEADER ++ RFC822.TEXT is the
    literal (these two do not look into embedded messages). -/
theorem rfc822_is_body (ct : Bytes → CT) (lit : Bytes) :
    fetchBodyLiteral ct lit ⟨[], .none⟩ = .ok (lit, []) ∧
    fetchRFC822 lit = renderRFC822 [82, 70, 67, 56, 50, 50] lit ∧
    (parseRoot lit).headerBytes lit ++ (parseRoot lit).bodyBytes lit = lit := by
  refine ⟨rfl, rfl, ?_⟩
  rw [(parseRoot lit).header_body lit (parseRoot_wf lit)]
  simp [Section.literalBytes, parseRoot, parse_header, parse_end, slice_zero]

/-! ### BODY[n.m] is a byte range of the stored literal -/

/-- Whatever `Part` returns, for any path (also paths with 0, negative or huge numbers), is a section
    whose ranges are ordered and inside the stored literal: BODY[n.m] and BODY[n.m.MIME] are the byte
    ranges `[body, end)` and `[header, body)` of the literal — nothing is copied, decoded or re-encoded. -/
theorem part_is_slice (ct : Bytes → CT) (lit : Bytes) (path : List Int) (s : Section)
    (h : part ct lit (parseRoot lit) path = .ok s) :
    s.header ≤ s.body ∧ s.body ≤ s.end ∧ s.end ≤ lit.length ∧
    s.literalBytes lit = (lit.drop s.header).take (s.end - s.header) ∧
    (s.literalBytes lit).length = s.end - s.header := by
  have hwf := (part_wf ct lit path _ s (parseRoot_wf lit) h).1
  exact ⟨hwf.1, hwf.2.1, hwf.2.2, rfl, slice_length lit (Nat.le_trans hwf.1 hwf.2.1) hwf.2.2⟩

/-- Parts nest: every child of a section (multipart part, or part of the message embedded in a
    message/rfc822 part) lies inside its parent's body, and so does every descendant `Part` returns. -/
theorem part_nested (ct : Bytes → CT) (lit : Bytes) (s : Section) (hs : s.header ≤ s.body ∧ s.body ≤ s.end ∧ s.end ≤ lit.length) :
    (∀ ch, children ct lit s = .ok ch → ∀ c ∈ ch, s.body ≤ c.header ∧ c.end ≤ s.end) ∧
    (∀ path r, part ct lit s path = .ok r → s.header ≤ r.header ∧ r.end ≤ s.end) :=
  ⟨fun _ hch c hc => (children_inside hs hch c hc).2, fun path r h => (part_wf ct lit path s r hs h).2⟩

/-- A valid index selects that child: for `1 ≤ i ≤ len(children)`, `Part(i, rest…)` is `Part(rest…)` of
    the i-th child. -/
theorem part_selects_child (ct : Bytes → CT) (lit : Bytes) (s c : Section) (ch : List Section) (i : Nat)
    (rest : List Int) (hch : children ct lit s = .ok ch) (hc : ch[i]? = some c) :
    part ct lit s (((i + 1 : Nat) : Int) :: rest) = part ct lit c rest := by
  have hlt : i < ch.length := by
    rcases List.getElem?_eq_some_iff.mp hc with ⟨h, _⟩; exact h
  rw [part]
  simp only [hch]
  have h1 : ¬ (((i + 1 : Nat) : Int) ≤ 0 ∨ ((i + 1 : Nat) : Int) - 1 > (ch.length : Int)) := by omega
  have h2 : (ch.length != 0) = true := by
    cases ch with
    | nil => simp at hlt
    | cons _ _ => simp
  have h3 : (((i + 1 : Nat) : Int) - 1).toNat = i := by omega
  simp only [Bool.or_eq_true, decide_eq_true_eq, h1, if_false, h2, if_true, h3]
  have h4 : ¬ (i ≥ ch.length) := by omega
  simp only [h4, if_false, hc]

/-- The off-by-one in `identifier[0]-1 > len(children)` never reaches the slice index: the index
    `len(children)+1` is caught by the second check ("invalid part index" instead of ErrNoSuchPart). -/
theorem part_off_by_one_is_an_error (ct : Bytes → CT) (lit : Bytes) (s : Section) (ch : List Section)
    (rest : List Int) (hch : children ct lit s = .ok ch) (hne : ch ≠ []) :
    part ct lit s (((ch.length + 1 : Nat) : Int) :: rest) = .error .invalidIndex := by
  rw [part]
  simp only [hch]
  have hpos : 0 < ch.length := List.length_pos_iff.mpr hne
  have h1 : ¬ (((ch.length + 1 : Nat) : Int) ≤ 0 ∨ ((ch.length + 1 : Nat) : Int) - 1 > (ch.length : Int)) := by omega
  have h2 : (ch.length != 0) = true := by
    cases ch with
    | nil => exact absurd rfl hne
    | cons _ _ => simp
  have h3 : (((ch.length + 1 : Nat) : Int) - 1).toNat = ch.length := by omega
  simp only [Bool.or_eq_true, decide_eq_true_eq, h1, if_false, h2, if_true, h3]
  simp

/-- `Part` never panics, for any literal, any path (0, negative, huge numbers) and any oracle: the
    scanner's slice expressions and `children[identifier[0]-1]` are always in range. -/
theorem part_never_panics (ct : Bytes → CT) (lit : Bytes) (s : Section) (path : List Int) :
    part ct lit s path ≠ .error .panic := part_no_panic ct lit path s

/-- The only panic on FETCH's byte path is the partial arithmetic: if `fetchAttributeBodySection`
    panics, a partial was requested, the section itself was computed without panic, and it is
    `WithPartial` on those bytes that panics. -/
theorem fetch_panics_only_in_partial (ct : Bytes → CT) (lit : Bytes) (sec : BodySection) (p : Option (Int × Int))
    (h : ∃ e, fetchAttributeBodySection ct lit sec p = .error e ∧ (e matches .panic | .part .panic)) :
    ∃ o n b name, p = some (o, n) ∧ fetchBodyLiteral ct lit sec = .ok (b, name) ∧ withPartial b o n = none := by
  obtain ⟨e, he, hm⟩ := h
  unfold fetchAttributeBodySection at he
  split at he
  · rename_i e' he'
    cases he
    have := fetchBodyLiteral_no_panic ct lit sec
    cases e' <;> simp_all
  · rename_i b name hb
    split at he
    · rename_i hn
      unfold bodyLiteralItem at hn
      split at hn
      · cases hn
      · rename_i o n
        split at hn
        · rename_i hw
          exact ⟨o, n, b, name, rfl, hb, hw⟩
        · cases hn
    · cases he

/-- ANOMALY (no byte is wrong, but a part that does not exist is served): below a section without
    children the rest of a path that starts with 1 is ignored — BODY[1.7.9] of a plain message is
    answered like BODY[1]. -/
theorem part_leaf_ignores_path_witness :
    let lit : Bytes := [65, 58, 32, 98, 13, 10, 13, 10, 98, 111, 100, 121]
    part (fun _ => .other) lit (parseRoot lit) [1, 7, 9] = .ok (parseRoot lit) := by decide

/-! ### partial -/

/-- `<o.n>`: for every literal and all `o, n ≥ 0` whose sum fits a Go int, `WithPartial(o, n)` leaves
    exactly `drop o |> take n` of the section's bytes (also when `o` or `o+n` are past the end). -/
theorem partial_is_slice (d : Bytes) (o n : Int) (ho : 0 ≤ o) (hn : 0 ≤ n) (NoOverflow : o + n ≤ maxInt64) :
    withPartial d o n = some ((d.drop o.toNat).take n.toNat) :=
  withPartial_in_range d ho hn NoOverflow

/-- … and so does the whole fetch: under the same hypothesis the item FETCH renders for
    `BODY[sec]<o.n>` carries `drop o |> take n` of the bytes `BODY[sec]` carries, tagged `<o>`. -/
theorem fetch_partial_is_slice (ct : Bytes → CT) (lit : Bytes) (sec : BodySection) (o n : Int) (b name : Bytes)
    (ho : 0 ≤ o) (hn : 0 ≤ n) (NoOverflow : o + n ≤ maxInt64)
    (hb : fetchBodyLiteral ct lit sec = .ok (b, name)) :
    fetchAttributeBodySection ct lit sec none = .ok (renderBodyLiteral name (-1) b) ∧
    fetchAttributeBodySection ct lit sec (some (o, n)) =
      .ok (renderBodyLiteral name o ((b.drop o.toNat).take n.toNat)) := by
  unfold fetchAttributeBodySection
  simp only [hb, bodyLiteralItem, withPartial_in_range b ho hn NoOverflow, and_self]

/-- For every partial a parsed command can carry — offset and count are read by ParseNumber /
    ParseNZNumber, which accept at most 2^32-1 (regenerated facts, `parsed_numbers_bounded`), the count is
    at least 1 — `WithPartial` does not panic and leaves exactly `drop begin |> take count`, for every
    literal. -/
theorem partial_no_panic_for_parsed (d : Bytes) (b c : Int) (hb0 : 0 ≤ b) (hb : b ≤ 4294967295)
    (hc1 : 1 ≤ c) (hc : c ≤ 4294967295) :
    withPartial d b c = some ((d.drop b.toNat).take c.toNat) :=
  withPartial_in_range d hb0 (by omega) (by unfold maxInt64; omega)

/-- … and the whole FETCH item for such a partial is rendered without panic. -/
theorem fetch_no_panic_for_parsed (ct : Bytes → CT) (lit : Bytes) (sec : BodySection) (b c : Int)
    (hb0 : 0 ≤ b) (hb : b ≤ 4294967295) (hc1 : 1 ≤ c) (hc : c ≤ 4294967295) :
    fetchAttributeBodySection ct lit sec (some (b, c)) ≠ .error .panic ∧
    fetchAttributeBodySection ct lit sec (some (b, c)) ≠ .error (.part .panic) ∧
    fetchAttributeBodySection ct lit sec none ≠ .error .panic ∧
    fetchAttributeBodySection ct lit sec none ≠ .error (.part .panic) := by
  have key : ∀ p, (p = none ∨ p = some (b, c)) →
      fetchAttributeBodySection ct lit sec p ≠ .error .panic ∧
      fetchAttributeBodySection ct lit sec p ≠ .error (.part .panic) := by
    intro p hp
    have hne : ¬ ∃ e, fetchAttributeBodySection ct lit sec p = .error e ∧ (e matches .panic | .part .panic) := by
      intro hex
      obtain ⟨o, n, bb, name, hpe, _, hw⟩ := fetch_panics_only_in_partial ct lit sec p hex
      rcases hp with hp | hp
      · rw [hp] at hpe; cases hpe
      · rw [hp] at hpe
        cases hpe
        rw [partial_no_panic_for_parsed bb b c hb0 hb hc1 hc] at hw
        cases hw
    exact ⟨fun h => hne ⟨_, h, rfl⟩, fun h => hne ⟨_, h, rfl⟩⟩
  exact ⟨(key _ (Or.inr rfl)).1, (key _ (Or.inr rfl)).2, (key _ (Or.inl rfl)).1, (key _ (Or.inl rfl)).2⟩

/-- The source says so (regenerated): ParseNumber leaves with an error as soon as the value exceeds
    math.MaxUint32; `<offset.count>` is read with ParseNumber and ParseNZNumber; ParseNZNumber is
    ParseNumber plus the rejection of 0. -/
theorem parsed_numbers_bounded :
    Facts.parseNumberMax = some 4294967295 ∧ Facts.partialOffsetParser = "ParseNumber" ∧
    Facts.partialCountParser = "ParseNZNumber" ∧ Facts.nzNumberUsesParseNumber = true ∧
    Facts.nzNumberRejectsZero = true := by decide

/-- Fact about the unexported `WithPartial` outside the parser's range (was #16, repaired at the parser):
    `WithPartial(1, 9223372036854775807)` on a three-byte literal: `begin+count` wraps to a negative
    number, the slice expression panics. -/
theorem partial_overflow_witness : withPartial [1, 2, 3] 1 9223372036854775807 = none := by decide

/-- … in general: every offset inside the literal together with a count that overflows the sum panics. -/
theorem partial_overflow_panics (d : Bytes) (o n : Int) (ho : 0 ≤ o) (hlt : o < d.length)
    (ho' : o ≤ maxInt64) (hn : n ≤ maxInt64) (Overflow : maxInt64 < o + n) : withPartial d o n = none :=
  withPartial_overflow d ho hlt ho' hn Overflow

/-- Likewise outside the parser's range (was #16b): a negative begin panics for every literal and every
    count. -/
theorem partial_negative_begin_panics (d : Bytes) (o n : Int) (ho : o < 0) (homin : minInt64 ≤ o)
    (hn0 : 0 ≤ n) (hn : n ≤ maxInt64) : withPartial d o n = none :=
  withPartial_negative d ho homin hn0 hn

/-! ### HEADER.FIELDS / HEADER.FIELDS.NOT -/

/-- Full strength, for every header, every parse and every field list: `Fields` and `FieldsNot` are the
    concatenations, in header order, of the entries they select; an entry with a key (that is not white
    space only) is selected by exactly one of the two; the white-space-only entries (the blank line) by
    both; a line without a colon by neither.  No entry is duplicated or reordered. -/
theorem fields_partition (h : Bytes) (es : List Entry) (want : List Bytes) :
    fields h es want = (es.filter (selects false want h)).flatMap (Entry.all h) ∧
    fieldsNot h es want = (es.filter (selects true want h)).flatMap (Entry.all h) ∧
    (∀ e ∈ es, e.hasKey = true → isSpaceOnly (e.all h) = false →
        selects false want h e = !selects true want h e) ∧
    (∀ e ∈ es, isSpaceOnly (e.all h) = true → selects false want h e = true ∧ selects true want h e = true) ∧
    (∀ e ∈ es, e.hasKey = false → isSpaceOnly (e.all h) = false →
        selects false want h e = false ∧ selects true want h e = false) :=
  ⟨rfl, rfl, fun e _ hk hs => selects_xor want h e hk hs,
   fun e _ hs => ⟨selects_blank false want h e hs, selects_blank true want h e hs⟩,
   fun e _ hk hs => ⟨selects_keyless false want h e hk hs, selects_keyless true want h e hk hs⟩⟩

/-- Full strength (since fix 1ac3d52; was #15): for every header `NewHeader` accepts, the entries tile
    the header — each begins where the previous one ended, the first at 0, the last ends at the end — so the
    entries' bytes concatenate to the header exactly and every byte of the header belongs to exactly one
    entry.  With `fields_partition`: HEADER.FIELDS and HEADER.FIELDS.NOT split the header's fields between
    them without loss or duplication, each field with its exact bytes. -/
theorem fields_exact (h : Bytes) (es : List Entry) (hp : parseEntries h = .ok es) :
    Tiling h.length 0 es ∧ es.flatMap (Entry.all h) = h := by
  have t := parseEntries_tiling hp
  exact ⟨t, by simpa using tiling_flatMap h es 0 t⟩

/-- … in particular asking for all keys gives back the whole header: if every keyed entry's key is
    requested, `Fields` is the header minus the lines without colon. -/
theorem fields_all_is_header (h : Bytes) (es : List Entry) (want : List Bytes) (hp : parseEntries h = .ok es)
    (hall : ∀ e ∈ es, selects false want h e = true) : fields h es want = h := by
  have hf : es.filter (selects false want h) = es := List.filter_eq_self.mpr hall
  unfold fields fieldsOf
  rw [hf]
  exact (fields_exact h es hp).2

/-! ### which side a field lands on: selection by name, case-insensitively -/

/-- Full strength (since fix 047f712; was d28), for every header, entry and requested list — any bytes, ASCII or
    not: a field (an entry with a key that is not white space only) is returned by `HEADER.FIELDS (names)` iff
    some requested name equals its name after mapping `A`–`Z` to `a`–`z` on both sides — byte for byte
    otherwise, for token and non-token names alike, nothing else about the name (punctuation, digits, bytes
    above 127) enters the decision — and by `HEADER.FIELDS.NOT (names)` iff none does. -/
theorem fields_case_insensitive (names : List Bytes) (h : Bytes) (e : Entry)
    (hk : e.hasKey = true) (hs : isSpaceOnly (e.all h) = false) :
    (selects false (names.map foldKey) h e = true ↔ ∃ n ∈ names, lowerBytes n = lowerBytes (e.key h)) ∧
    (selects true (names.map foldKey) h e = true ↔ ¬ ∃ n ∈ names, lowerBytes n = lowerBytes (e.key h)) := by
  constructor
  · rw [selects_iff false _ h e hk hs]; simp [Entry.mapKey, foldKey]
  · rw [selects_iff true _ h e hk hs]; simp [Entry.mapKey, foldKey]

/-- … so the letter case in which the client writes the names is not observable in the data: two request
    lists that agree up to ASCII letter case get the same bytes for every message, path and oracle. -/
theorem fields_case_variants (ct : Bytes → CT) (lit : Bytes) (path : List Int) (neg : Bool)
    (names names' : List Bytes) (hcase : names.map lowerBytes = names'.map lowerBytes) :
    fetchBodySection ct lit ⟨path, .fields neg names⟩ = fetchBodySection ct lit ⟨path, .fields neg names'⟩ := by
  have h1 : names.map foldKey = names.map lowerBytes := rfl
  have h2 : names'.map foldKey = names'.map lowerBytes := rfl
  unfold fetchBodySection
  simp only [h1, h2, hcase]

/-- The source says so (regenerated): the only name normalisation in `rfc822.NewHeader` (index key, `mapKey`) and
    in `Header.Fields` / `Header.FieldsNot` (requested names) is the package's own `foldKey` (`bytes.TrimSpace`
    is the white-space-only test `isSpaceOnly`, `newHeaderParser` the entry parser), and `foldKey` is: scan the
    bytes up to the first one in `'A'..'Z'`; if there is none return the string itself, else copy it and add
    `'a' - 'A'` to every byte in `'A'..'Z'` from there on — the range 65..90 shifted by 32, which is the model's
    `lowerByte`.  A change of the normal form (another function at a call site, another loop, range or offset in
    `foldKey`) changes these facts. -/
theorem name_fold_is_foldkey :
    Facts.headerNameCalls =
      [("Fields", ["bytes.TrimSpace", "foldKey"]), ("FieldsNot", ["bytes.TrimSpace", "foldKey"]),
       ("NewHeader", ["foldKey", "newHeaderParser"])] ∧
    Facts.foldKeyLoops = ["i := 0; i < len(key); i++", "j := i; j < len(b); j++"] ∧
    Facts.foldKeyConds = ["c := key[i]; 'A' <= c && c <= 'Z'", "'A' <= b[j] && b[j] <= 'Z'"] ∧
    Facts.foldKeyStmts = ["return key", "b := []byte(key)", "return string(b)", "b[j] += 'a' - 'A'"] ∧
    Facts.foldKeyRange = some (65, 90, 32) ∧
    (∀ c : UInt8, lowerByte c = if 65 ≤ c && c ≤ 90 then c + 32 else c) ∧
    (∀ b : Bytes, foldKey b = b.map lowerByte) :=
  ⟨by decide, by decide, by decide, by decide, by decide, fun _ => rfl, fun _ => rfl⟩

/-! ### literal framing -/

/-- Every literal-carrying item is `name SP {N} CRLF` followed by the data, and reading such a literal
    back (`{`, decimal N, `}` CRLF, N bytes) returns exactly the data and leaves exactly what followed:
    the announced length is the number of bytes that follow. -/
theorem literal_framing (name d rest : Bytes) (tag : Int) :
    Spec.unframe (frame d ++ rest) = some (d, rest) ∧
    (∃ pre, renderBodyLiteral name tag d = pre ++ frame d) ∧
    renderRFC822 name d = name ++ [32] ++ frame d :=
  ⟨unframe_frame d rest, ⟨_, rfl⟩, rfl⟩

/-! ### storage states: the cache file may be gone, FETCH answers the same bytes -/

open Gluon.LitCache in
/-- `getLiteral_stable`: whatever a successful `getLiteral` returned — the cache file's content, or, when the
    file was gone, the connector's copy with the id line spliced in and written back — the next read of that
    message returns the same bytes and changes nothing any more.  Every FETCH item and SEARCH key is a function
    of these bytes, so two consecutive FETCHes of one message agree, and both agree with the FETCH that
    restored the file. -/
theorem getLiteral_stable {env : Env} {st st' : St} {id : Nat} {b : Bytes}
    (h : getLiteral env st id = (.ok b, st')) :
    getLiteral env st' id = (.ok b, st') := by
  rcases getLiteral_ok_cases h with ⟨hs, hst⟩ | ⟨_, _, _, _, _, _, _, hst⟩
  · rw [hst]; exact getLiteral_hit env st id b hs
  · rw [hst]; exact getLiteral_hit env _ id b (lookup_put_self st.store id b)

open Gluon.LitCache in
/-- A message was created from `lit` (its cache file holds `SetHeaderValue lit key id = out`, the connector keeps
    `lit`).  Whether the file is still there or has disappeared, `getLiteral` returns `out` — the appended bytes
    with exactly the id line added (`splice_exact`), of the length RFC822.SIZE was recorded with
    (`size_is_length`) — and afterwards the cache file holds `out` again.  Named hypotheses: the message is not a
    "recovered" one (for those the connector is never asked) and the cache file can be written. -/
theorem getLiteral_restores_created (env : Env) (st : St) (id : Nat) (lit out : Bytes) (size : Nat)
    (hcreate : setHeaderValue lit env.key (env.idText id) = .ok (out, size))
    (hremote : st.remote.lookup id = some lit)
    (NotRecovered : env.recovered id = false) (SetSucceeds : env.setOk id = true)
    (hstore : st.store.lookup id = some out ∨ st.store.lookup id = none) :
    ∃ st', getLiteral env st id = (.ok out, st') ∧ st'.store.lookup id = some out ∧ st'.remote = st.remote ∧
      size = out.length := by
  have hsz := size_is_length hcreate
  rcases hstore with hs | hs
  · exact ⟨st, getLiteral_hit env st id out hs, hs, rfl, hsz⟩
  · refine ⟨{ st with store := put st.store id out }, ?_, lookup_put_self st.store id out, rfl, hsz⟩
    simp [getLiteral, hs, NotRecovered, hremote, hcreate, SetSucceeds]

open Gluon.LitCache in
/-- The life of one message through the storage states: created; read; the file removed behind the server's
    back; read (this one restores); read again.  All three reads return the same bytes `b`, and `b` is the
    created literal with the id line. -/
theorem created_dropped_restored_agree (env : Env) (st st1 : St) (id : Nat) (lit : Bytes)
    (hc : create env st id lit = some st1)
    (NotRecovered : env.recovered id = false) (SetSucceeds : env.setOk id = true) :
    ∃ b st2, setHeaderValue lit env.key (env.idText id) = .ok (b, b.length) ∧
      getLiteral env st1 id = (.ok b, st1) ∧
      getLiteral env (dropFile st1 id) id = (.ok b, st2) ∧
      getLiteral env st2 id = (.ok b, st2) := by
  unfold create at hc
  split at hc
  · simp at hc
  next out size hset =>
    simp only [Option.some.injEq] at hc
    subst hc
    have hsz := size_is_length hset
    subst hsz
    have h1 : getLiteral env ⟨put st.store id out, put st.remote id lit⟩ id = (.ok out, _) :=
      getLiteral_hit env _ id out (lookup_put_self _ _ _)
    obtain ⟨st2, h2, _, _, _⟩ := getLiteral_restores_created env
      (dropFile ⟨put st.store id out, put st.remote id lit⟩ id) id lit out out.length hset
      (by simp [dropFile, lookup_put_self]) NotRecovered SetSucceeds
      (Or.inr (by simp [dropFile, lookup_erase_self]))
    exact ⟨out, st2, hset, h1, h2, getLiteral_stable h2⟩

open Gluon.LitCache in
/-- Reading one message never touches the cache file of another one, nor the connector. -/
theorem getLiteral_frame {env : Env} {st st' : St} {id : Nat} {r : Except GErr Bytes}
    (h : getLiteral env st id = (r, st')) (j : Nat) (hj : j ≠ id) :
    st'.store.lookup j = st.store.lookup j ∧ st'.remote = st.remote := by
  unfold getLiteral at h
  split at h
  · simp only [Prod.mk.injEq] at h; rw [← h.2]; exact ⟨rfl, rfl⟩
  · split at h
    · simp only [Prod.mk.injEq] at h; rw [← h.2]; exact ⟨rfl, rfl⟩
    · split at h
      · simp only [Prod.mk.injEq] at h; rw [← h.2]; exact ⟨rfl, rfl⟩
      · split at h
        · simp only [Prod.mk.injEq] at h; rw [← h.2]; exact ⟨rfl, rfl⟩
        · split at h
          · simp only [Prod.mk.injEq] at h; rw [← h.2]; exact ⟨lookup_put_ne _ _ _ _ hj, rfl⟩
          · simp only [Prod.mk.injEq] at h; rw [← h.2]; exact ⟨rfl, rfl⟩

/-- Regenerated from the source: exactly the function(s) of internal/state that download a message from the
    connector (`GetMessageLiteral`) write to the cache, each such write passes a variable whose last assignment
    in front of the write is the result of `rfc822.SetHeaderValue*` with the key `ids.InternalIDKey` — the bytes
    WITH the id line go back into the cache, as in Model/LitCache.lean `getLiteral` (`put st.store id
    literalWithHeader`), which is what `getLiteral_stable` rests on. -/
theorem restore_writes_spliced_literal :
    Facts.literalDownloaders ≠ [] ∧ Facts.restoreWrites ≠ [] ∧
    Facts.restoreWrites.all (fun w => w.spliced && w.key == "ids.InternalIDKey" &&
      Facts.literalDownloaders.contains w.func) = true ∧
    Facts.literalDownloaders.all (fun f => Facts.restoreWrites.any (fun w => w.func == f)) = true := by decide

/-! ### non-vacuity: the hypotheses are satisfiable by non-trivial inputs -/

/-- splice: `A: b CRLF CRLF body` gets the line in front of `A`; a message without any header field
    (`CRLF body`) gets it after the blank line -/
example :
    setHeaderValue [65, 58, 32, 98, 13, 10, 13, 10, 98, 111, 100, 121] [120, 45, 112, 109, 45, 103, 108, 117, 111, 110, 45, 105, 100] [49] =
      .ok ([88, 45, 80, 109, 45, 71, 108, 117, 111, 110, 45, 73, 100, 58, 32, 49, 13, 10] ++
           [65, 58, 32, 98, 13, 10, 13, 10, 98, 111, 100, 121], 30) ∧
    insertPoint [13, 10, 98, 111, 100, 121] = .ok 2 := by decide

/-- sections: a two-part multipart; part 1 is `A: 1 CRLF CRLF one` (bytes 24..35 of the literal),
    there is no part 3, the off-by-one index 3 is "invalid part index" -/
example :
    let lit : Bytes := [67, 111, 110, 116, 101, 110, 116, 45, 84, 121, 112, 101, 58, 32, 109, 13, 10, 13, 10, 45, 45,
      98, 13, 10, 65, 58, 32, 49, 13, 10, 13, 10, 111, 110, 101, 13, 10, 45, 45, 98, 13, 10, 13, 10, 116, 119, 111, 13,
      10, 45, 45, 98, 45, 45, 13, 10]
    let ct : Bytes → CT := fun _ => .multipart [98]
    part ct lit (parseRoot lit) [1] = .ok ⟨24, 32, 35⟩ ∧
    (⟨24, 32, 35⟩ : Section).literalBytes lit = [65, 58, 32, 49, 13, 10, 13, 10, 111, 110, 101] ∧
    part ct lit (parseRoot lit) [2] = .ok ⟨42, 44, 47⟩ ∧
    part ct lit (parseRoot lit) [3] = .error .invalidIndex ∧
    part ct lit (parseRoot lit) [4] = .error .noSuchPart := by decide

/-- partial: `<1.2>` of `abc…` and a partial reaching past the end -/
example : withPartial [97, 98, 99, 100] 1 2 = some [98, 99] ∧ withPartial [97, 98, 99, 100] 3 9 = some [100] ∧
    withPartial [97, 98, 99, 100] 4 1 = some [] ∧
    bodyLiteralItem [84, 69, 88, 84] [97, 98, 99, 100] (some (1, 2)) =
      some [66, 79, 68, 89, 91, 84, 69, 88, 84, 93, 60, 49, 62, 32, 123, 50, 125, 13, 10, 98, 99] := by decide

/-- fields: a folded header; `Fields`/`FieldsNot` split it -/
example :
    let h : Bytes := [65, 58, 32, 98, 13, 10, 66, 58, 13, 10, 32, 99, 13, 10, 13, 10]   -- "A: b\r\nB:\r\n c\r\n\r\n"
    parseEntries h = .ok [⟨0, 1, 3, 6⟩, ⟨6, 7, 11, 14⟩, ⟨14, 14, 14, 16⟩] ∧
    fields h [⟨0, 1, 3, 6⟩, ⟨6, 7, 11, 14⟩, ⟨14, 14, 14, 16⟩] [[98]] = [66, 58, 13, 10, 32, 99, 13, 10, 13, 10] ∧
    fieldsNot h [⟨0, 1, 3, 6⟩, ⟨6, 7, 11, 14⟩, ⟨14, 14, 14, 16⟩] [[98]] = [65, 58, 32, 98, 13, 10, 13, 10] := by decide

/-- selection by name: `X-Spam/Score` (not a token) is found under `x-spam/SCORE`, not under `X-Spam-Score`
    nor under ``X-Spam/Score`` with `/` replaced by the byte 32 positions up (`O`) -/
example :
    let h : Bytes := [88, 45, 83, 112, 97, 109, 47, 83, 99, 111, 114, 101, 58, 32, 53, 13, 10, 13, 10]
    let es : List Entry := [⟨0, 12, 14, 17⟩, ⟨17, 17, 17, 19⟩]
    parseEntries h = .ok es ∧
    fields h es ([[120, 45, 115, 112, 97, 109, 47, 83, 67, 79, 82, 69]].map foldKey) = h ∧
    fieldsNot h es ([[120, 45, 115, 112, 97, 109, 47, 83, 67, 79, 82, 69]].map foldKey) = [13, 10] ∧
    fields h es ([[88, 45, 83, 112, 97, 109, 45, 83, 99, 111, 114, 101]].map foldKey) = [13, 10] ∧
    fields h es ([[88, 45, 83, 112, 97, 109, 79, 83, 99, 111, 114, 101]].map foldKey) = [13, 10] := by decide

/-- regression of d28 (fix 047f712): `HEADER.FIELDS (<U+212A>EY)` on `Key: v CRLF CRLF` no longer returns the
    field (it did while the names were folded with `strings.ToLower`); `HEADER.FIELDS.NOT` returns it; the ASCII
    variant `kEY` selects it -/
example :
    let h : Bytes := [75, 101, 121, 58, 32, 118, 13, 10, 13, 10]            -- "Key: v\r\n\r\n"
    let asked : Bytes := [0xE2, 0x84, 0xAA, 69, 89]                         -- U+212A "EY"
    parseEntries h = .ok [⟨0, 3, 5, 8⟩, ⟨8, 8, 8, 10⟩] ∧
    fields h [⟨0, 3, 5, 8⟩, ⟨8, 8, 8, 10⟩] ([asked].map foldKey) = [13, 10] ∧
    fieldsNot h [⟨0, 3, 5, 8⟩, ⟨8, 8, 8, 10⟩] ([asked].map foldKey) = h ∧
    fields h [⟨0, 3, 5, 8⟩, ⟨8, 8, 8, 10⟩] ([[107, 69, 89]].map foldKey) = h ∧
    foldKey asked = [0xE2, 0x84, 0xAA, 101, 121] := by decide

/-- regression of #15: `X-Empty: CRLF Subject: s CRLF CRLF`; `HEADER.FIELDS (X-Empty Subject)` is now the
    exact header (it was `X-EmptySubject: s CRLF CRLF`) -/
example :
    let h : Bytes := [88, 45, 69, 109, 112, 116, 121, 58, 13, 10, 83, 117, 98, 106, 101, 99, 116, 58, 32, 115, 13,
      10, 13, 10]
    parseEntries h = .ok [⟨0, 7, 10, 10⟩, ⟨10, 17, 19, 22⟩, ⟨22, 22, 22, 24⟩] ∧
    fields h [⟨0, 7, 10, 10⟩, ⟨10, 17, 19, 22⟩, ⟨22, 22, 22, 24⟩]
      [[120, 45, 101, 109, 112, 116, 121], [115, 117, 98, 106, 101, 99, 116]] = h ∧
    fieldsNot h [⟨0, 7, 10, 10⟩, ⟨10, 17, 19, 22⟩, ⟨22, 22, 22, 24⟩] [[115, 117, 98, 106, 101, 99, 116]] =
      [88, 45, 69, 109, 112, 116, 121, 58, 13, 10, 13, 10] := by decide

/-- parsed partials: the extreme values of the parser's range -/
example : withPartial [97, 98, 99, 100] 4294967295 4294967295 = some [] ∧
    withPartial [97, 98, 99, 100] 1 4294967295 = some [98, 99, 100] ∧
    withPartial [97, 98, 99, 100] 0 1 = some [97] := by decide

/-- framing: `{3}\r\nabc` -/
example : frame [97, 98, 99] = [123, 51, 125, 13, 10, 97, 98, 99] ∧
    Spec.unframe ([123, 51, 125, 13, 10, 97, 98, 99] ++ [41]) = some ([97, 98, 99], [41]) := by decide

/-- storage states: `A: b CRLF CRLF body` created as message 7 (id text `7`), the file dropped, read twice:
    both reads give the literal with the id line; the connector still holds the bare literal -/
example :
    let env : LitCache.Env := ⟨[88, 45, 80, 109, 45, 71, 108, 117, 111, 110, 45, 73, 100], fun _ => [55], fun _ => false, fun _ => true⟩
    let lit : Bytes := [65, 58, 32, 98, 13, 10, 13, 10, 98, 111, 100, 121]
    let out : Bytes := [88, 45, 80, 109, 45, 71, 108, 117, 111, 110, 45, 73, 100, 58, 32, 55, 13, 10] ++ lit
    (LitCache.create env ⟨[], []⟩ 7 lit).map (fun s => (s.store, s.remote)) = some ([(7, out)], [(7, lit)]) ∧
    (LitCache.getLiteral env ⟨[], [(7, lit)]⟩ 7).1 = .ok out ∧
    (LitCache.getLiteral env (LitCache.getLiteral env ⟨[], [(7, lit)]⟩ 7).2 7).1 = .ok out ∧
    (LitCache.getLiteral env ⟨[], [(7, lit)]⟩ 8).1 = .error .download := by decide

end Gluon.C13
