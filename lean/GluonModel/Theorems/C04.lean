/-
C04 — UIDs are strictly increasing, never reused; UIDVALIDITY only ever grows.

Property theorems only; helper lemmas live in `GluonModel/Lemmas/{UidValidity,UidSeq}.lean`.

* UIDVALIDITY: model `GluonModel/Model/UidValidity.lean` of `imap.EpochUIDValidityGenerator`
  (clock reading = input, `lastUID` = state, restart = fresh generator), tied to the real
  generator by the relational real-time oracle `uidv-rel` (harness/d_uidv.go, judge
  `judge-c04-uidv`).
* UIDs: model `GluonModel/Model/UidSeq.lean` of SQLite AUTOINCREMENT assignment (model only
  here; the tie to the real database is C08's component correspondence and the wire oracle).
-/
import GluonModel.Lemmas.UidValidity
import GluonModel.Lemmas.UidSeq
import GluonModel.Generated.Facts.Migrations

namespace Gluon.C04

open Gluon

/-! ## UIDVALIDITY -/

section UidValidity
open Gluon.UidV

/-- **Within one server process UIDVALIDITY values strictly increase** — for *every* sequence of
    clock readings (not assumed monotone, not assumed below 2^32: a clock that jumps backwards,
    stands still during a burst, or runs past the 32-bit range) and every uint32 generator state,
    the values successfully returned by successive `Generate` calls are strictly increasing and
    all greater than the state the process started from.  (Calls can fail — see
    `uidv_fails_only_at_capacity` — but a failing call returns no value and changes nothing.) -/
theorem uidv_mono_process (nows : List Nat) (last : Nat) (hl : last ≤ u32max) :
    (okVals (run nows last)).Pairwise (· < ·) ∧ ∀ v ∈ okVals (run nows last), last < v :=
  run_increasing nows last hl

/-- **What happens at the uint32 boundary, exactly as coded** — `Generate` fails iff the clock is
    more than 2^32-1 seconds past the epoch (this includes, on amd64, every clock more than one
    second *before* the epoch: `tsOfSecs` of a negative number is ≥ 2^63) or the last issued
    value is already 0xFFFFFFFF; it never wraps around to a small value. -/
theorem uidv_fails_only_at_capacity (ts last : Nat) (hl : last ≤ u32max) :
    (generate ts last).1 = .err ↔ (ts > u32max ∨ last = u32max) :=
  generate_err_iff ts last hl

/-- a clock before the epoch by a second or more is in the failing range (amd64 conversion) -/
theorem uidv_negative_elapsed_fails (s : Int) (hs : s < 0) (hb : -(2 : Int) ^ 63 ≤ s) (last : Nat) :
    (generate (tsOfSecs s) last).1 = .err := by
  have h : tsOfSecs s > u32max := by
    simp only [tsOfSecs, u32max]
    have : ¬ (0 ≤ s) := by omega
    simp only [this, if_false]
    omega
  simp [generate, h]

/-- **Across restarts, under the named hypothesis `ClockAhead`** (= `clockAtRestart >
    lastIssued`: the first `Generate` after each restart reads a clock beyond every value issued
    before the restart) — for every history of `Generate` calls and restarts, with arbitrary
    clock readings otherwise, the issued values are strictly increasing over the whole history
    and greater than everything issued before it (`hi`). -/
theorem uidv_mono_restart_partial (evs : List Ev) (last hi : Nat) (hlh : last ≤ hi) (hh : hi ≤ u32max)
    (hc : ClockAhead evs last hi) :
    (okVals (runH evs last)).Pairwise (· < ·) ∧ ∀ v ∈ okVals (runH evs last), hi < v :=
  runH_increasing evs last hi hlh hh hc

/-- the burst history of DESIGN §9 #12: six mailboxes created within second 115142600, server
    restarted, next creation three seconds after the burst began -/
def restartWitness : List Ev :=
  [.gen 115142600, .gen 115142600, .gen 115142600, .gen 115142600, .gen 115142600, .gen 115142600,
   .restart, .gen 115142603]

/-- **The hypothesis is needed** — `lastUID` is not persisted, so after a burst of `n` calls
    within one second and a restart less than `n` seconds later the generator hands out a value
    that is *smaller than* the last one issued before the restart and *equal to* one issued
    earlier (here 115142603 after 115142600…115142605).  Replayed on the real server (six
    CREATEs, restart, DELETE + CREATE). -/
theorem uidv_restart_witness :
    okVals (runH restartWitness fresh)
        = [115142600, 115142601, 115142602, 115142603, 115142604, 115142605, 115142603]
      ∧ strictlyIncreasing (okVals (runH restartWitness fresh)) = false
      ∧ ¬ ClockAhead restartWitness fresh 0 := by
  refine ⟨by decide, by decide, by decide⟩

/-- **Delete + re-create of a name yields a larger UIDVALIDITY** (corollary, same hypothesis) —
    a mailbox's UIDVALIDITY is the value `Generate` returned when it was created; if `v₁` was
    issued for the first creation and `v₂` for any later one in the same history, `v₁ < v₂`. -/
theorem recreate_greater (evs : List Ev) (last hi : Nat) (hlh : last ≤ hi) (hh : hi ≤ u32max)
    (hc : ClockAhead evs last hi) (pre mid post : List Nat) (v₁ v₂ : Nat)
    (hv : okVals (runH evs last) = pre ++ v₁ :: (mid ++ v₂ :: post)) : v₁ < v₂ := by
  have hp := (uidv_mono_restart_partial evs last hi hlh hh hc).1
  rw [hv, List.pairwise_append] at hp
  have := (List.pairwise_cons.mp hp.2.1).1
  exact this v₂ (by simp)

/-- without restarts the hypothesis is vacuous: `ClockAhead` holds for every restart-free history
    run by a generator that remembers the last value (non-vacuity of the partial theorem, and
    the reason `uidv_mono_process` needs no hypothesis) -/
theorem clockAhead_of_no_restart (nows : List Nat) (last : Nat) (hl : last ≤ u32max) :
    ClockAhead (nows.map Ev.gen) last last := by
  induction nows generalizing last with
  | nil => simp [ClockAhead]
  | cons now rest ih =>
    simp only [List.map_cons, ClockAhead]
    refine ⟨by omega, ?_⟩
    have hst := generate_state now last hl
    have : max last (generate now last).2 = (generate now last).2 := by omega
    rw [this]
    exact ih _ hst.2

/-- **A value generated for a command that then fails is dropped, and per name the values still
    strictly increase** — for every sequence of `Generate` calls of one process (arbitrary clock
    readings), each made by a command that either goes on to create a mailbox name under the
    returned value (`some name`) or fails after the call (`none`: the name exists or is
    malformed, the connector refuses, a limit is reached, the transaction rolls back — the value
    is thrown away with the command, as `State.Create` does), and for every name: the successive
    UIDVALIDITY values of that name strictly increase, whoever (which session, the connector)
    issued the commands in between.  The statement rests on each creation using the value of
    *its own* `Generate` call; the wire oracle `c04uids` checks that on the real server with
    histories failed command → other party's create + delete of the name → successful command
    (harness/o_uids_pattern.go), where a value kept over from a failed command shows up as
    `cause=uidvalidity-regress` / `model-uidv-process-order`. -/
theorem failed_commands_drop_values (nows : List Nat) (tags : List (Option String)) (last : Nat)
    (hl : last ≤ u32max) (name : String) :
    (valuesOf name (usedFor tags (run nows last))).Pairwise (· < ·) :=
  ((uidv_mono_process nows last hl).1.sublist (usedFor_sublist tags _)).sublist
    (valuesOf_sublist name _)

-- non-vacuity: a burst, a clock that jumps backwards, and the 32-bit boundary
example : okVals (run [100, 100, 100, 7, 200] fresh) = [100, 101, 102, 103, 200] := by decide
example : run [4294967294, 4294967294, 4294967294, 4294967290] fresh
    = [.ok 4294967294, .ok 4294967295, .err, .err] := by decide
example : (generate (tsOfSecs (-5)) fresh).1 = .err := by decide
-- a fresh generator whose clock reads second 0 cannot issue anything below 1: it spins to 1
example : generate (tsOfSecs 0) fresh = (.ok 1, 1) := by decide
-- session A's CREATE of an existing name (value 100 dropped), B creates and deletes "x" (101),
-- A creates "x" (102): the name's values are [101, 102]
example : valuesOf "x" (usedFor [none, some "x", some "x"] (run [100, 100, 100] fresh)) = [101, 102] := by decide
-- a history with a restart that satisfies the hypothesis
example : ClockAhead [.gen 100, .gen 100, .restart, .gen 102] fresh 0 := by decide

end UidValidity

/-! ## UIDs (AUTOINCREMENT) -/

section UidSeq
open Gluon.UidSeq

/-- **UIDs are handed out in strictly increasing order and never reused** — for every history of
    transactions (each a list of inserts, deletes of arbitrary UIDs and expunges of the highest
    UID; each committed or rolled back) on a mailbox table satisfying the representation
    invariant, the UIDs assigned by committed transactions are strictly increasing, and each is
    greater than `seq` at the start — hence greater than every UID present or ever assigned
    before.  In particular expunging the highest UID and adding again does not reuse it. -/
theorem uid_fresh (hist : List Tx) (m : Mbox) (h : WF m) :
    (runTxs hist m).2.Pairwise (· < ·) ∧ ∀ u ∈ (runTxs hist m).2, m.seq < u ∧ ∀ r ∈ m.rows, r < u := by
  obtain ⟨_, _, hp, hu⟩ := runTxs_good hist m h
  refine ⟨hp, fun u hu' => ⟨(hu u hu').1, fun r hr => ?_⟩⟩
  have := h r hr
  have := (hu u hu').1
  omega

/-- **UIDNEXT is greater than every UID ever assigned** — after every history, UIDNEXT exceeds
    every UID assigned by a committed transaction of the history and every UID in the table. -/
theorem uidnext_gt_all (hist : List Tx) (m : Mbox) (h : WF m) :
    (∀ u ∈ (runTxs hist m).2, u < uidNext (runTxs hist m).1) ∧
      ∀ r ∈ (runTxs hist m).1.rows, r < uidNext (runTxs hist m).1 := by
  obtain ⟨hi, _, _, hu⟩ := runTxs_good hist m h
  refine ⟨fun u hu' => ?_, fun r hr => ?_⟩
  · have := (hu u hu').2; simp only [uidNext]; omega
  · have := hi r hr; simp only [uidNext]; omega

/-- **UIDNEXT never decreases** — along every history: the value after any prefix is at most
    the value after the whole history (rolled-back transactions leave it as it was). -/
theorem uidnext_mono (h1 h2 : List Tx) (m : Mbox) (h : WF m) :
    uidNext (runTxs h1 m).1 ≤ uidNext (runTxs (h1 ++ h2) m).1 := by
  have g1 := runTxs_good h1 m h
  have g2 := runTxs_good h2 (runTxs h1 m).1 g1.1
  rw [runTxs_append]
  have := g2.2.1
  simp only [uidNext]
  omega

/-- the invariant holds initially and is kept by every history -/
theorem uidseq_inv (hist : List Tx) (m : Mbox) (h : WF m) : WF (runTxs hist m).1 :=
  (runTxs_good hist m h).1

-- non-vacuity: expunge of the highest UID, then add again: 3 is not reused
example : (runTxs [⟨[.insert, .insert, .insert], true⟩, ⟨[.deleteMax], true⟩, ⟨[.insert], true⟩] empty)
    = ({ rows := [1, 2, 4], seq := 4 }, [1, 2, 3, 4]) := by decide
-- a rolled-back transaction's UIDs were never announced and are handed out again
example : (runTxs [⟨[.insert], true⟩, ⟨[.insert, .insert], false⟩, ⟨[.insert], true⟩] empty).2 = [1, 2] := by
  decide
example : WF empty := by simp [WF, empty]

/-! ### Schema migrations (the restart that is an upgrade) -/

/-- **A table rebuilt by copying its rows forgets the UIDs that were expunged from its top** —
    witness: UIDs 1, 2, 3 were assigned and 3 expunged (UIDNEXT 4); after
    create-tmp / copy rows with their UIDs / drop / rename UIDNEXT is 3 and the next message gets
    UID 3 again, under the same UIDVALIDITY.  (This is why `uid_fresh` and `uidnext_mono` say
    nothing about a restart whose schema migration rebuilds the per-mailbox message tables, and why
    such a migration must be found by the obligations below and by the upgrade fixtures.) -/
theorem rebuild_copy_reuses_witness :
    WF { rows := [1, 2], seq := 3 } ∧
      uidNext (rebuildCopy { rows := [1, 2], seq := 3 }) < uidNext { rows := [1, 2], seq := 3 } ∧
      (applyOp (rebuildCopy { rows := [1, 2], seq := 3 }) .insert).2 = some 3 := by
  refine ⟨?_, by decide, by decide⟩
  intro u hu
  simp only [List.mem_cons, List.not_mem_nil, or_false] at hu
  show u ≤ 3
  omega

/-- **… and it is harmless exactly when the highest UID ever assigned is still present** — for every
    well-formed table a rebuild by copy never raises UIDNEXT, and keeps it iff the largest row
    equals `seq`. -/
theorem rebuild_copy_uidnext (m : Mbox) (h : WF m) :
    uidNext (rebuildCopy m) ≤ uidNext m ∧ (uidNext (rebuildCopy m) = uidNext m ↔ maxRow m.rows = m.seq) := by
  have := maxRow_le m.rows m.seq h
  simp only [uidNext, rebuildCopy]
  omega

/-- **A rebuild that restores the high-water mark changes nothing** — the repaired idiom is the
    identity on every well-formed table, so all theorems above carry over such a migration. -/
theorem rebuild_keep_seq_id (m : Mbox) (h : WF m) : rebuildKeepSeq m = m := by
  have := maxRow_le m.rows m.seq h
  cases m
  simp only [rebuildKeepSeq, Mbox.mk.injEq, true_and]
  simp only at this
  omega

/-- **The schema migrations are the reviewed ones** (regenerated from
    internal/db_impl/sqlite3/migrations.go on every run) — the UID theorems speak about tables that
    only see INSERT-without-UID and DELETE; a migration is code outside that model.  v0–v3 were read:
    only v1 touches the per-mailbox message tables (it creates them, under new UIDVALIDITY values).
    A new migration makes this obligation fail: the check then runs its search at thorough size
    (upgrade fixtures included) and reports the obligation until the migration has been reviewed. -/
theorem migrations_reviewed : Facts.migrationList.map (·.name) = ["v0", "v1", "v2", "v3"] := by decide

/-- **No migration rebuilds the per-mailbox message tables under the old UIDVALIDITY** — every
    migration whose source mentions those tables and drops/renames tables (or writes
    `sqlite_sequence`) also issues new UIDVALIDITY values (`Generate()`), which is what RFC 3501
    asks for when UIDs cannot be kept. -/
theorem migrations_keep_uid_tables :
    ∀ f ∈ Facts.migrationList, f.touchesUidTables = true → f.rebuildsTables = true → f.regeneratesUidValidity = true := by
  decide

-- non-vacuity: a table whose top is present survives the rebuild; the repaired idiom always does
example : rebuildCopy { rows := [1, 3], seq := 3 } = { rows := [1, 3], seq := 3 } := by decide
example : rebuildKeepSeq { rows := [1, 2], seq := 3 } = { rows := [1, 2], seq := 3 } := by decide
example : ∃ f ∈ Facts.migrationList, f.touchesUidTables = true ∧ f.rebuildsTables = true := by decide

end UidSeq

end Gluon.C04
