/-
C05 — No EXPUNGE during FETCH, STORE or SEARCH; removals are announced in order.

Property theorems only; helper lemmas live in `GluonModel/Lemmas`.  The model is
`GluonModel/Model/Responder.lean` (`flush` = `State.flushResponses`, `popResponders`,
`handle`), tied to the code by the `flush` correspondence dialect; which handler
flushes with which `permitExpunge` literal comes from the regenerated fact table
`GluonModel/Generated/Facts/Flush.lean` (theorem `flush_table` below).
-/
import GluonModel.Lemmas.Flush
import GluonModel.Generated.Facts.Flush

namespace Gluon.C05

open Gluon

/-- **No EXPUNGE with `permitExpunge = false`** — for every snapshot, every responder
    queue (= every history of other sessions' and connector changes delivered so far),
    every state id and both CLOSE / non-CLOSE contexts, the responses a
    `permitExpunge = false` flush sends contain no EXPUNGE. -/
theorem flush_false_no_expunge (close : Bool) (sid : StateId) (snap : Snap) (res : List Responder)
    (out : List Resp) (h : (flush false close sid snap res).result = .ok out) :
    ∀ x ∈ out, x.isExpunge = false := by
  obtain ⟨_, hm⟩ := flush_result_ok h
  rcases hm with ⟨_, rfl⟩ | ⟨_, hm⟩
  · simp
  have hpop : ∀ r ∈ (popResponders false res).1, r.isExpunge = false := by
    simpa [popResponders] using popAux_fst_no_expunge [] [] res
  exact merge_noexp _ out (handleAll_out_noexp close sid snap _ hpop) hm

/-- **Every removal stays queued until a flush that permits it** — a
    `permitExpunge = false` flush retains all expunge responders, in order. -/
theorem flush_false_retains_expunges (close : Bool) (sid : StateId) (snap : Snap) (res : List Responder) :
    (flush false close sid snap res).rem.filter (·.isExpunge) = res.filter (·.isExpunge) := by
  rw [flush_rem]
  simpa [popResponders] using popAux_snd_expunges [] [] res

/-- **The next command that permits it announces every removal** — a
    `permitExpunge = true` flush pops the whole queue (nothing is retained, so no
    removal can be held back beyond it). -/
theorem flush_true_empties_queue (close : Bool) (sid : StateId) (snap : Snap) (res : List Responder) :
    (flush true close sid snap res).rem = [] := by
  rw [flush_rem]; simp [popResponders]

/-- **[EXPUNGEISSUED] iff removals were held back** — after a `permitExpunge = false`
    flush, `ExpungeIssued()` is true exactly when the queue held an expunge responder. -/
theorem expungeIssued_iff (close : Bool) (sid : StateId) (snap : Snap) (res : List Responder) :
    expungeIssued (flush false close sid snap res).rem = res.any (·.isExpunge) := by
  have h := flush_false_retains_expunges close sid snap res
  simp only [expungeIssued]
  exact any_eq_of_filter_eq h

/-- **Queue order is preserved** — what a flush pops is a subsequence of the queue, verbatim; what
    it retains is a subsequence of the queue in which a retained flag change has lost its `.SILENT`
    mark (`Responder.unsilent`: it will be applied after the command that asked for silence, so it
    has to be announced).  No responder is reordered, duplicated or invented. -/
theorem pop_preserves_order (permit : Bool) (res : List Responder) :
    (popResponders permit res).1.Sublist res ∧
    (popResponders permit res).2.Sublist (res.map Responder.unsilent) := by
  cases permit
  · exact ⟨popAux_fst_sublist [] [] res, popAux_snd_sublist [] [] res⟩
  · simp [popResponders]

/-- **A re-add is held back behind its removal (queue level)** — if the queue is
    `a ++ [expunge id] ++ b ++ [exists id …] ++ c` (whatever `b` holds), a `permitExpunge = false`
    pop retains that `exists`, after the `expunge`, in queue order: the retained queue is
    `a' ++ [expunge id] ++ b' ++ [exists id …] ++ c'` with `a' b' c'` the retained parts of `a b c`. -/
theorem readd_retained (a b c : List Responder) (id : MsgId) (uid : UID) (fl : Flags) (t : StateId)
    (o : Option StateId) :
    ∃ a' b' c', a'.Sublist (a.map Responder.unsilent) ∧ b'.Sublist (b.map Responder.unsilent) ∧
      c'.Sublist (c.map Responder.unsilent) ∧
      (popResponders false (a ++ [.expunge id] ++ b ++ [.exists id uid fl t o] ++ c)).2
        = a' ++ [.expunge id] ++ b' ++ [.exists id uid fl t o] ++ c' := by
  simp only [popResponders, Bool.false_eq_true, if_false]
  rw [List.append_assoc, List.append_assoc, List.append_assoc, popAux_append]
  simp only [List.singleton_append]
  generalize hexpAfter [] a = e1
  generalize hexAfter [] [] a = x1
  rw [popAux_expunge, popAux_append]
  have hmem : id ∈ hexpAfter (id :: e1) b := hexpAfter_mem _ b id List.mem_cons_self
  generalize hexpAfter (id :: e1) b = e2 at hmem
  generalize hexAfter (id :: e1) x1 b = x2
  rw [popAux_exists_held (holdsExists_of_mem hmem)]
  refine ⟨(popAux [] [] a).2, (popAux (id :: e1) x1 b).2, (popAux e2 (id :: x2) c).2,
    popAux_snd_sublist _ _ _, popAux_snd_sublist _ _ _, popAux_snd_sublist _ _ _, ?_⟩
  simp

/-- **While a re-add is held back, later arrivals and its flag changes wait too (queue level)** —
    in the queue `a ++ [expunge id] ++ b ++ [exists id …] ++ c`, a `permitExpunge = false` pop
    retains every `exists` of `c` (it carries a higher UID: announcing it first would renumber
    without EXPUNGE when the held one is inserted below it), retains every flag change of `id` in
    `c` without its `.SILENT` mark (applied now it would hit the instance about to be expunged), and
    pops from `c` only flag changes of other messages. -/
theorem later_exists_retained (a b c : List Responder) (id : MsgId) (uid : UID) (fl : Flags) (t : StateId)
    (o : Option StateId) :
    let q := a ++ [.expunge id] ++ b ++ [.exists id uid fl t o] ++ c
    (∀ r ∈ c, r.isExists = true → r ∈ (popResponders false q).2) ∧
    (∀ r ∈ c, r.isExists = false → r.isExpunge = false → r.msgId = id →
      r.unsilent ∈ (popResponders false q).2) ∧
    (∃ pc, (popResponders false q).1 = (popResponders false (a ++ [.expunge id] ++ b)).1 ++ pc ∧
      pc.Sublist c ∧ ∀ r ∈ pc, r.isExists = false ∧ r.isExpunge = false ∧ r.msgId ≠ id) := by
  intro q
  have hq : q = (a ++ [.expunge id] ++ b) ++ (.exists id uid fl t o :: c) := by simp [q]
  simp only [popResponders, Bool.false_eq_true, if_false, hq]
  rw [popAux_append]
  have hmem : id ∈ hexpAfter [] (a ++ [.expunge id] ++ b) := by
    rw [hexpAfter_append, hexpAfter_append]
    exact hexpAfter_mem _ b id (by simp [hexpAfter])
  generalize hexpAfter [] (a ++ [.expunge id] ++ b) = e2 at hmem
  generalize hexAfter [] [] (a ++ [.expunge id] ++ b) = x2
  rw [popAux_exists_held (holdsExists_of_mem hmem)]
  simp only
  refine ⟨?_, ?_, (popAux e2 (id :: x2) c).1, rfl, popAux_fst_sublist _ _ _, ?_⟩
  · intro r hr he
    exact List.mem_append_right _ (List.mem_cons_of_mem _ (popAux_snd_exists e2 (id :: x2) c (List.cons_ne_nil _ _) r hr he))
  · intro r hr he hd hi
    exact List.mem_append_right _ (List.mem_cons_of_mem _
      (popAux_snd_fetch e2 (id :: x2) c id List.mem_cons_self r hr he hd hi))
  · intro r hr
    refine ⟨popAux_fst_no_exists e2 (id :: x2) c (List.cons_ne_nil _ _) r hr,
      popAux_fst_no_expunge e2 (id :: x2) c r hr, ?_⟩
    intro h
    exact popAux_fst_not_held e2 (id :: x2) c r hr (h ▸ List.mem_cons_self)

/-- **A message known to the client is never re-announced before its removal (client
    level)** — a `permitExpunge = false` flush keeps every message instance of the
    snapshot (same id, same UID: nothing is removed, so sequence numbers of known
    messages can only be affected by what `C01` covers), and never shows a *different*
    instance (another UID) of an id the snapshot already holds: the re-added copy of a
    message whose removal is still pending stays invisible. -/
theorem flush_false_keeps_known_instances (close : Bool) (sid : StateId) (snap : Snap) (res : List Responder) :
    (∀ m ∈ snap, ∃ m' ∈ (flush false close sid snap res).snap, m'.id = m.id ∧ m'.uid = m.uid) ∧
    (∀ m' ∈ (flush false close sid snap res).snap, snap.has m'.id = true →
        ∃ m ∈ snap, m.id = m'.id ∧ m.uid = m'.uid) := by
  have hpop := popAux_fst_no_expunge [] [] res
  have key : (flush false close sid snap res).snap = (handleAll close sid snap (popAux [] [] res).1).1 := by
    rw [flush_snap]; simp [popResponders]
  rw [key]
  constructor
  · intro m hm
    obtain ⟨m', hm', hs⟩ := handleAll_keeps close sid snap _ hpop m hm
    exact ⟨m', hm', hs.1.symm, hs.2.symm⟩
  · intro m' hm' hhas
    rcases handleAll_new close sid snap _ hpop m' hm' with ⟨m, hm, hs⟩ | hno
    · exact ⟨m, hm, hs.1, hs.2⟩
    · rw [hhas] at hno; exact absurd hno (by simp)

/-! ### The handler table (regenerated from internal/session/handle*.go on every run) -/

open Facts in
/-- **Which commands may announce removals** — in the current source, every `flush(...)`
    call in FETCH / STORE / SEARCH / COPY handlers and the trailing flush of
    `handleSelectedCommand` passes `permitExpunge = false`; the call sites passing `true`
    are exactly NOOP, CHECK, EXPUNGE, UID EXPUNGE, CLOSE, MOVE, STATUS and APPEND; and
    FETCH, STORE and SEARCH attach `[EXPUNGEISSUED]`. -/
theorem flush_table :
    (∀ s ∈ flushSites, s.func ∈ ["handleFetch", "handleStore", "handleSearch", "handleCopy", "handleSelectedCommand"]
        → s.permit = some false) ∧
    ((flushSites.filter (·.permit == some true)).map (·.func)).eraseDups =
      ["handleAppend", "handleCheck", "handleClose", "handleExpunge", "handleUIDExpunge", "handleMove", "handleNoop", "handleStatus"] ∧
    (∀ s ∈ flushSites, s.permit.isSome) ∧
    (∀ f ∈ ["handleFetch", "handleStore", "handleSearch"], f ∈ expungeIssuedSites) := by
  decide

/-! ### Non-vacuity: concrete states meeting the hypotheses -/

/-- a queue with a held-back removal + re-add; the FETCH-style flush announces nothing about them -/
example :
    (flush false false 1 [Snap.mkMsg 1 1 [], Snap.mkMsg 2 2 []]
      [.expunge 1, .exists 1 5 [] 2 none, .fetch 2 ["\\seen"] .add false false false]).result
      = .ok [.fetch 2 (some ["\\seen"]) none] := by decide

/-- while the re-add of message 1 is held back, the later EXISTS of message 3 and the `.SILENT` flag
    change of message 1 wait too (the latter un-silenced); the flag change of message 2 goes out -/
example :
    let f := flush false false 1 [Snap.mkMsg 1 1 [], Snap.mkMsg 2 2 []]
      [.expunge 1, .exists 1 5 [] 2 none, .exists 3 6 [] 2 none, .fetch 1 ["\\seen"] .add false true false,
       .fetch 2 ["\\seen"] .add false false false]
    f.result = .ok [.fetch 2 (some ["\\seen"]) none] ∧
    f.rem = [.expunge 1, .exists 1 5 [] 2 none, .exists 3 6 [] 2 none, .fetch 1 ["\\seen"] .add false false false] := by
  decide

example :
    (flush true false 1 [Snap.mkMsg 1 1 [], Snap.mkMsg 2 2 []]
      [.expunge 1, .exists 1 5 [] 2 none]).result = .ok [.expunge 1, .exists 2] := by decide

end Gluon.C05
