/-
C05 — No EXPUNGE during FETCH, STORE or SEARCH; removals are announced in order.

Property theorems only; helper lemmas live in `GluonModel/Lemmas`.  The model is
`GluonModel/Model/Responder.lean` (`flush` = `State.flushResponses`, `popResponders`,
`handle`), tied to the code by the `flush` correspondence dialect; which handler
flushes with which `permitExpunge` literal comes from the regenerated fact table
`GluonModel/Generated/Facts/Flush.lean` (theorem `flush_table` below).
-/
import GluonModel.Lemmas.Flush
import GluonModel.Generated.Facts.Flush

namespace Gluon.C05

open Gluon

/-- **No EXPUNGE with `permitExpunge = false`** — for every snapshot, every responder
    queue (= every history of other sessions' and connector changes delivered so far),
    every state id and both CLOSE / non-CLOSE contexts, the responses a
    `permitExpunge = false` flush sends contain no EXPUNGE. -/
theorem flush_false_no_expunge (close : Bool) (sid : StateId) (snap : Snap) (res : List Responder)
    (out : List Resp) (h : (flush false close sid snap res).result = .ok out) :
    ∀ x ∈ out, x.isExpunge = false := by
  obtain ⟨_, hm⟩ := flush_result_ok h
  rcases hm with ⟨_, rfl⟩ | ⟨_, hm⟩
  · simp
  have hpop : ∀ r ∈ (popResponders false res).1, r.isExpunge = false := by
    simpa [popResponders] using popAux_fst_no_expunge [] res
  exact merge_noexp _ out (handleAll_out_noexp close sid snap _ hpop) hm

/-- **Every removal stays queued until a flush that permits it** — a
    `permitExpunge = false` flush retains all expunge responders, in order. -/
theorem flush_false_retains_expunges (close : Bool) (sid : StateId) (snap : Snap) (res : List Responder) :
    (flush false close sid snap res).rem.filter (·.isExpunge) = res.filter (·.isExpunge) := by
  rw [flush_rem]
  simpa [popResponders] using popAux_snd_expunges [] res

/-- **The next command that permits it announces every removal** — a
    `permitExpunge = true` flush pops the whole queue (nothing is retained, so no
    removal can be held back beyond it). -/
theorem flush_true_empties_queue (close : Bool) (sid : StateId) (snap : Snap) (res : List Responder) :
    (flush true close sid snap res).rem = [] := by
  rw [flush_rem]; simp [popResponders]

/-- **[EXPUNGEISSUED] iff removals were held back** — after a `permitExpunge = false`
    flush, `ExpungeIssued()` is true exactly when the queue held an expunge responder. -/
theorem expungeIssued_iff (close : Bool) (sid : StateId) (snap : Snap) (res : List Responder) :
    expungeIssued (flush false close sid snap res).rem = res.any (·.isExpunge) := by
  have h := flush_false_retains_expunges close sid snap res
  simp only [expungeIssued]
  exact any_eq_of_filter_eq h

/-- **Queue order is preserved** — what a flush pops and what it retains are both
    subsequences of the queue (no responder is reordered, duplicated or invented). -/
theorem pop_preserves_order (permit : Bool) (res : List Responder) :
    (popResponders permit res).1.Sublist res ∧ (popResponders permit res).2.Sublist res := by
  cases permit
  · exact ⟨popAux_fst_sublist [] res, popAux_snd_sublist [] res⟩
  · simp [popResponders]

/-- **A re-add is held back behind its removal (queue level)** — if the queue is
    `a ++ [expunge id] ++ b ++ [exists id …] ++ c` and `b` holds no other `exists id`, a
    `permitExpunge = false` pop retains that `exists`, after the `expunge`, in queue order:
    the retained queue is `a' ++ [expunge id] ++ b' ++ [exists id …] ++ c'` with `a' b' c'` the
    retained parts of `a b c`. -/
theorem readd_retained (a b c : List Responder) (id : MsgId) (uid : UID) (fl : Flags) (t : StateId)
    (o : Option StateId) (hb : ∀ r ∈ b, ¬ (r.isExists = true ∧ r.msgId = id)) :
    ∃ a' b' c', a'.Sublist a ∧ b'.Sublist b ∧ c'.Sublist c ∧
      (popResponders false (a ++ [.expunge id] ++ b ++ [.exists id uid fl t o] ++ c)).2
        = a' ++ [.expunge id] ++ b' ++ [.exists id uid fl t o] ++ c' := by
  simp only [popResponders, Bool.false_eq_true, if_false]
  rw [List.append_assoc, List.append_assoc, List.append_assoc, popAux_append]
  simp only [List.singleton_append]
  -- after `a`, the expunge puts `id` into the skip set
  generalize hsa : skipAfter [] a = sa
  have hexp : popAux sa (.expunge id :: (b ++ .exists id uid fl t o :: c)) =
      ((popAux (if sa.contains id then sa else id :: sa) (b ++ .exists id uid fl t o :: c)).1,
       .expunge id :: (popAux (if sa.contains id then sa else id :: sa) (b ++ .exists id uid fl t o :: c)).2) := by
    simp [popAux]
  rw [hexp, popAux_append]
  generalize hsk : (if sa.contains id then sa else id :: sa) = sk
  have hid : id ∈ sk := by
    subst hsk
    split
    · next h => simpa using h
    · exact List.mem_cons_self
  have hmem : id ∈ skipAfter sk b := skipAfter_mem sk b id hid hb
  have hex : popAux (skipAfter sk b) (.exists id uid fl t o :: c) =
      ((popAux ((skipAfter sk b).filter (· != id)) c).1,
       .exists id uid fl t o :: (popAux ((skipAfter sk b).filter (· != id)) c).2) := by
    simp [popAux, hmem]
  rw [hex]
  refine ⟨(popAux [] a).2, (popAux sk b).2, (popAux ((skipAfter sk b).filter (· != id)) c).2,
    popAux_snd_sublist _ _, popAux_snd_sublist _ _, popAux_snd_sublist _ _, ?_⟩
  simp

/-- **A message known to the client is never re-announced before its removal (client
    level)** — a `permitExpunge = false` flush keeps every message instance of the
    snapshot (same id, same UID: nothing is removed, so sequence numbers of known
    messages can only be affected by what `C01` covers), and never shows a *different*
    instance (another UID) of an id the snapshot already holds: the re-added copy of a
    message whose removal is still pending stays invisible. -/
theorem flush_false_keeps_known_instances (close : Bool) (sid : StateId) (snap : Snap) (res : List Responder) :
    (∀ m ∈ snap, ∃ m' ∈ (flush false close sid snap res).snap, m'.id = m.id ∧ m'.uid = m.uid) ∧
    (∀ m' ∈ (flush false close sid snap res).snap, snap.has m'.id = true →
        ∃ m ∈ snap, m.id = m'.id ∧ m.uid = m'.uid) := by
  have hpop := popAux_fst_no_expunge [] res
  have key : (flush false close sid snap res).snap = (handleAll close sid snap (popAux [] res).1).1 := by
    rw [flush_snap]; simp [popResponders]
  rw [key]
  constructor
  · intro m hm
    obtain ⟨m', hm', hs⟩ := handleAll_keeps close sid snap _ hpop m hm
    exact ⟨m', hm', hs.1.symm, hs.2.symm⟩
  · intro m' hm' hhas
    rcases handleAll_new close sid snap _ hpop m' hm' with ⟨m, hm, hs⟩ | hno
    · exact ⟨m, hm, hs.1, hs.2⟩
    · rw [hhas] at hno; exact absurd hno (by simp)

/-! ### The handler table (regenerated from internal/session/handle*.go on every run) -/

open Facts in
/-- **Which commands may announce removals** — in the current source, every `flush(...)`
    call in FETCH / STORE / SEARCH / COPY handlers and the trailing flush of
    `handleSelectedCommand` passes `permitExpunge = false`; the call sites passing `true`
    are exactly NOOP, CHECK, EXPUNGE, UID EXPUNGE, CLOSE, MOVE, STATUS and APPEND; and
    FETCH, STORE and SEARCH attach `[EXPUNGEISSUED]`. -/
theorem flush_table :
    (∀ s ∈ flushSites, s.func ∈ ["handleFetch", "handleStore", "handleSearch", "handleCopy", "handleSelectedCommand"]
        → s.permit = some false) ∧
    ((flushSites.filter (·.permit == some true)).map (·.func)).eraseDups =
      ["handleAppend", "handleCheck", "handleClose", "handleExpunge", "handleUIDExpunge", "handleMove", "handleNoop", "handleStatus"] ∧
    (∀ s ∈ flushSites, s.permit.isSome) ∧
    (∀ f ∈ ["handleFetch", "handleStore", "handleSearch"], f ∈ expungeIssuedSites) := by
  decide

/-! ### Non-vacuity: concrete states meeting the hypotheses -/

/-- a queue with a held-back removal + re-add; the FETCH-style flush announces nothing about them -/
example :
    (flush false false 1 [Snap.mkMsg 1 1 [], Snap.mkMsg 2 2 []]
      [.expunge 1, .exists 1 5 [] 2 none, .fetch 2 ["\\seen"] .add false false false]).result
      = .ok [.fetch 2 (some ["\\seen"]) none] := by decide

example :
    (flush true false 1 [Snap.mkMsg 1 1 [], Snap.mkMsg 2 2 []]
      [.expunge 1, .exists 1 5 [] 2 none]).result = .ok [.expunge 1, .exists 2] := by decide

end Gluon.C05
