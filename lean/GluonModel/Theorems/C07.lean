/-
C07 - Acknowledged state survives restart, crashes and failing storage steps.

Model: GluonModel/Model/Crash.lean (durable state = database with atomic transactions + message
store; step lists of the operations; process death; failing step; start-up recovery).
The IMAP-visible state is abstracted by the log of committed visible statements (`DB.log`): equal
logs = equal mailboxes, UIDVALIDITY, UIDs, flags, subscriptions (SQLite atomicity and determinism of
the statements are trusted, not proved).

The generic theorems hold for EVERY step list and EVERY step boundary `i`; they use two structural
facts about the step list, both decidable and both evaluated (a) on the model's step lists here
(`modelled_oneVisibleTx`, `modelled_disciplined`) and (b) on the recorded trace of the real
operation by the judge `judge-c07-trace`:
  * `oneVisibleTx steps`  : at most one transaction of the operation commits statements that change
                            the acknowledged state (all others only touch \Recent bookkeeping);
  * `disciplined steps`   : cache files are deleted only for ids without a committed row, written only
                            for such ids or for rows that can be re-downloaded, and a transaction that
                            inserts a row commits only after the complete file is in the store.
  * `handlerOk steps handler i` : the operation's error handler, run after step `i` failed and the transaction was
                            rolled back, keeps the same store discipline (fail_listed_is_cached); decided for every
                            modelled instance and every `i` (`modelled_handlerOk`), evaluated on the recorded traces of
                            the runs with an injected error by the judge `judge-c07-fail`, and tied to the source of the
                            clean-up loop by `source_cleanup_ranges_over_new`.
That the model's step lists ARE the real ones is the trace correspondence (dialect `c07trace`).
-/
import GluonModel.Lemmas.Crash
import GluonModel.Generated.Facts.Crash

namespace Gluon.C07
open Gluon.Crash

/-- what a client can see of the account (everything acknowledged, as a function of the committed log) -/
abbrev abs (s : St) : List String := s.db.log

/-! ### process death -/

/-- **crash_atomic** (generic). For every step list with at most one visible transaction, every state
    and EVERY number `i` of completed steps: after the process died there and the server was
    restarted, the account is in the state before the operation or in the state after it. -/
theorem crash_atomic (steps : List Step) (s : St) (i : Nat)
    (hshape : oneVisibleTx steps = true) (htx : s.tx = none) :
    abs (recover (crashAfter i steps s)) = abs s ∨ abs (recover (crashAfter i steps s)) = abs (run steps s) := by
  simp only [abs, recover_log, crashAfter, crash_log, log_run, htx]
  rcases flatten_chunks_take steps i hshape with h | h
  · left; simp [h]
  · right; rw [h]

/-- structural fact 1 holds for the step list of every modelled operation instance -/
theorem modelled_oneVisibleTx : ∀ o ∈ modelled, oneVisibleTx (stepsOf! o) = true := by decide

/-- **crash_atomic** for APPEND, COPY, MOVE, EXPUNGE, CREATE, DELETE, RENAME, STORE, (UN)SUBSCRIBE,
    connector message created / flags updated / mailboxes updated / deleted / updated, and the release of
    a session (deletion pool): every boundary of every modelled instance. -/
theorem crash_atomic_ops (o : String × Nat) (ho : o ∈ modelled) (s : St) (i : Nat) (htx : s.tx = none) :
    abs (recover (crashAfter i (stepsOf! o) s)) = abs s ∨
    abs (recover (crashAfter i (stepsOf! o) s)) = abs (run (stepsOf! o) s) :=
  crash_atomic _ s i (modelled_oneVisibleTx o ho) htx

/-- without structural fact 1 the statement is false: two visible transactions, death between them -/
theorem crash_atomic_needs_oneVisibleTx :
    ∃ steps s i, s.tx = none ∧ abs (recover (crashAfter i steps s)) ≠ abs s ∧
      abs (recover (crashAfter i steps s)) ≠ abs (run steps s) :=
  ⟨txS [q "CreateMailbox"] ++ txS [q "SetMailboxSubscribed"], {}, 3, rfl, by decide, by decide⟩

/-! ### a failing step -/

/-- **fail_decompose** (generic): if step `i` returns an error, the account is in the before- or the
    after-state, followed by whatever visible statements the operation's error handler commits. -/
theorem fail_decompose (steps handler : List Step) (s : St) (i : Nat)
    (hshape : oneVisibleTx steps = true) (htx : s.tx = none) :
    ∃ base, (base = abs s ∨ base = abs (run steps s)) ∧
      abs (failAt i steps handler s) = base ++ (chunks handler none).flatten ∧
      abs (recover (failAt i steps handler s)) = base ++ (chunks handler none).flatten := by
  refine ⟨abs (crashAfter i steps s), ?_, ?_, ?_⟩
  · have := crash_atomic steps s i hshape htx
    simpa [abs, recover_log] using this
  · simp [abs, failAt, crashAfter, log_run, crash_tx]
  · simp [abs, failAt, crashAfter, log_run, crash_tx, recover_log]

/-- the named hypothesis of `fail_atomic_partial`: the error handler commits nothing visible -/
def HandlerInvisible (handler : List Step) : Prop := chunks handler none = []

instance (h : List Step) : Decidable (HandlerInvisible h) := by unfold HandlerInvisible; infer_instance

/-- **fail_atomic_partial** (generic): with an error handler that commits nothing visible, an injected
    error at ANY step leaves the account - live and after a restart - in the before- or the after-state. -/
theorem fail_atomic_partial (steps handler : List Step) (s : St) (i : Nat)
    (hshape : oneVisibleTx steps = true) (htx : s.tx = none) (hh : HandlerInvisible handler) :
    (abs (failAt i steps handler s) = abs s ∨ abs (failAt i steps handler s) = abs (run steps s)) ∧
    (abs (recover (failAt i steps handler s)) = abs s ∨ abs (recover (failAt i steps handler s)) = abs (run steps s)) := by
  obtain ⟨base, hb, h1, h2⟩ := fail_decompose steps handler s i hshape htx
  rw [h1, h2, hh]
  simp only [List.flatten_nil, List.append_nil]
  exact ⟨hb, hb⟩

theorem handler_invisible (op : String) (hne : op ≠ "append") (inst i : Nat) : HandlerInvisible (handlerOf op inst i) := by
  unfold handlerOf HandlerInvisible
  rw [if_neg hne]
  repeat' split
  all_goals rfl

/-- **fail_atomic** for every modelled operation except APPEND, at every step. -/
theorem fail_atomic_ops (o : String × Nat) (ho : o ∈ modelled) (hne : o.1 ≠ "append") (s : St) (i : Nat)
    (htx : s.tx = none) :
    (abs (failAt i (stepsOf! o) (handlerOf o.1 o.2 i) s) = abs s ∨
      abs (failAt i (stepsOf! o) (handlerOf o.1 o.2 i) s) = abs (run (stepsOf! o) s)) ∧
    (abs (recover (failAt i (stepsOf! o) (handlerOf o.1 o.2 i) s)) = abs s ∨
      abs (recover (failAt i (stepsOf! o) (handlerOf o.1 o.2 i) s)) = abs (run (stepsOf! o) s)) :=
  fail_atomic_partial _ _ s i (modelled_oneVisibleTx o ho) htx (handler_invisible o.1 hne o.2 i)

/-- **fail_atomic is FALSE for APPEND** (the full statement "before or after" does not hold): a step of
    `AppendRegular` fails AFTER its transaction committed (the second transaction of `stateDBWrite`, index
    15 of the step list); `Mailbox.Append` then also inserts the literal into the recovery mailbox, so the
    message is in the target mailbox AND in "Recovered Messages", and the client is told NO.
    Replayed on the real server by `vh oracle c07crash` (run append 0 err 13). -/
theorem fail_atomic_append_counterexample :
    let steps := stepsOf! ("append", 0)
    let s : St := {}
    abs (failAt 15 steps (handlerOf "append" 0 15) s) ≠ abs s ∧
    abs (failAt 15 steps (handlerOf "append" 0 15) s) ≠ abs (run steps s) ∧
    abs (failAt 15 steps (handlerOf "append" 0 15) s) = abs (run steps s) ++ ["CreateMessageAndAddToMailbox"] := by
  decide

/-- what does hold for a failing APPEND, at every step: the other mailboxes are in the before- or
    after-state, and the only extra effect is the one insertion into the recovery mailbox
    (none if the failure precedes `AppendRegular`). -/
theorem fail_append_recovered (inst : Nat) (hi : inst < 3) (s : St) (i : Nat) (htx : s.tx = none) :
    ∃ base, (base = abs s ∨ base = abs (run (stepsOf! ("append", inst)) s)) ∧
      (abs (recover (failAt i (stepsOf! ("append", inst)) (handlerOf "append" inst i) s)) = base ∨
       abs (recover (failAt i (stepsOf! ("append", inst)) (handlerOf "append" inst i) s)) = base ++ ["CreateMessageAndAddToMailbox"]) := by
  have hm : ("append", inst) ∈ modelled := by
    have : inst = 0 ∨ inst = 1 ∨ inst = 2 := by omega
    rcases this with h | h | h <;> subst h <;> decide
  obtain ⟨base, hb, _, h2⟩ := fail_decompose (stepsOf! ("append", inst)) (handlerOf "append" inst i) s i
    (modelled_oneVisibleTx _ hm) htx
  refine ⟨base, hb, ?_⟩
  rw [h2]
  unfold handlerOf
  simp only [if_true]
  split
  · right; rfl
  · left; simp [chunks]

/-! ### every listed message can be fetched -/

/-- **listed_is_fetchable** (generic). If every row was fetchable before (complete cache file with the
    acknowledged literal, or re-downloadable), the operation's step list keeps the store discipline, no row
    has an id the operation treats as new, and the rows it re-downloads (`redl`) are re-downloadable, then
    after death at ANY boundary - also inside `store.Set` - and restart every row is fetchable with its
    exact literal. -/
theorem listed_is_fetchable (steps : List Step) (redl : List MsgId) (s : St) (i : Nat)
    (hdisc : disciplined steps redl = true) (hfresh : FreshNew s) (htx : s.tx = none)
    (hredl : Redl s redl) (hinv : AllFetchable s) :
    AllFetchable (recover (crashAfter i steps s)) := by
  apply recover_fetchable
  apply crash_fetchable
  exact run_sound _ _ s (rel_init s redl hfresh htx hredl) hinv (disciplinedFrom_take steps _ i hdisc)

/-- structural fact 2 holds for the step list of every modelled operation instance (the re-download of a
    lost cache file included: it writes the store for the id of an existing row, which `getLiteral` only
    does for messages that are not recovered ones) -/
theorem modelled_disciplined : ∀ o ∈ modelled, disciplined (stepsOf! o) (redlOf o.1) = true := by decide

theorem listed_is_fetchable_ops (o : String × Nat) (ho : o ∈ modelled) (s : St) (i : Nat)
    (hfresh : FreshNew s) (htx : s.tx = none) (hredl : Redl s (redlOf o.1)) (hinv : AllFetchable s) :
    AllFetchable (recover (crashAfter i (stepsOf! o) s)) :=
  listed_is_fetchable _ _ s i (modelled_disciplined o ho) hfresh htx hredl hinv

/-- the same after an injected error at step `i` (state right after the rollback, and after a restart) -/
theorem fail_listed_is_fetchable (steps : List Step) (redl : List MsgId) (s : St) (i : Nat)
    (hdisc : disciplined steps redl = true) (hfresh : FreshNew s) (htx : s.tx = none)
    (hredl : Redl s redl) (hinv : AllFetchable s) :
    AllFetchable (failAt i steps [] s) ∧ AllFetchable (recover (failAt i steps [] s)) := by
  have h : AllFetchable (failAt i steps [] s) :=
    crash_fetchable _ (run_sound _ _ s (rel_init s redl hfresh htx hredl) hinv (disciplinedFrom_take steps _ i hdisc))
  exact ⟨h, recover_fetchable _ h⟩

/-- a state with one acknowledged, re-downloadable message whose cache file is gone -/
def lostCacheFile : St := { db := { rows := [{ id := .old 1, lit := litOf (.old 1) }] } }

/-- the re-download of a lost cache file (`State.getLiteral`), interrupted inside `store.Set` when the file
    holds header and nonce only (6 micro-steps done; DESIGN section 9 #23): since /repo ad3c4e0 `store.Get`
    reports the truncated file, so after restart the row is still fetchable (by another re-download); the
    start-up keeps the partial file (it has a row), the next FETCH overwrites it. Exercised on the real
    server by `vh oracle c07crash` (run redownload <inst> killnonce|killhalf|errhalf 5). -/
theorem listed_is_fetchable_redownload :
    Redl lostCacheFile (redlOf "redownload") ∧
    (recover (crashAfter 6 (stepsOf! ("redownload", 0)) lostCacheFile)).store (.old 1) = some .partialF ∧
    ∀ i, AllFetchable (recover (crashAfter i (stepsOf! ("redownload", 0)) lostCacheFile)) := by
  have hr : Redl lostCacheFile (redlOf "redownload") := by
    intro id hid r hr _
    simp only [lostCacheFile, List.mem_singleton] at hr
    subst hr
    simp only [redlOf, if_true, List.mem_singleton] at hid
    subst hid
    exact ⟨rfl, rfl⟩
  refine ⟨hr, by decide, fun i => ?_⟩
  exact listed_is_fetchable_ops ("redownload", 0) (by decide) lostCacheFile i (fun _ => rfl) rfl hr (by decide)

/-- the store discipline is needed: writing the cache file of an existing row that can NOT be re-downloaded
    (a recovered message) and dying inside the write leaves a listed message that cannot be fetched. The real
    code never does this (`getLiteral` returns before the re-download for recovered messages:
    `source_store_before_row`). -/
theorem listed_is_fetchable_needs_discipline :
    let s : St := { db := { rows := [{ id := .old 1, remote := false, lit := 7 }] },
                    store := fun id => if id = .old 1 then some (.complete 7) else none }
    AllFetchable s ∧ FreshNew s ∧ disciplined (setS (.old 1)) = false ∧
    ¬ AllFetchable (recover (crashAfter 1 (setS (.old 1)) s)) := by
  refine ⟨by decide, fun _ => rfl, by decide, ?_⟩
  intro h
  have := h { id := .old 1, remote := false, lit := 7 } (by decide)
  revert this; decide

/-! ### every listed message keeps its cache file (nothing is left to the connector) -/

/-- **listed_is_cached** (generic). For an operation that re-downloads nothing: if every row had its complete
    cache file with the acknowledged literal and the step list keeps the store discipline, then after death at ANY
    boundary and restart every row still has it - the bytes of a listed message never depend on what the connector
    can still serve. -/
theorem listed_is_cached (steps : List Step) (s : St) (i : Nat)
    (hdisc : disciplined steps [] = true) (hfresh : FreshNew s) (htx : s.tx = none) (hinv : AllCached s) :
    AllCached (recover (crashAfter i steps s)) := by
  apply recover_cached
  apply crash_cached
  exact (run_cached _ _ s (rel_init s [] hfresh htx (by intro id hid; simp at hid)) rfl hinv
    (disciplinedFrom_take steps _ i hdisc)).2

/-- **fail_listed_is_cached** (generic). The same when step `i` returns an error and the operation's error handler runs
    after the roll-back, PROVIDED the handler keeps the store discipline (`handlerOk`: it deletes / overwrites cache
    files only of ids without a committed row) - live and after a restart. -/
theorem fail_listed_is_cached (steps handler : List Step) (s : St) (i : Nat)
    (hdisc : disciplined steps [] = true) (hh : handlerOk steps handler i [] = true)
    (hfresh : FreshNew s) (htx : s.tx = none) (hinv : AllCached s) :
    AllCached (failAt i steps handler s) ∧ AllCached (recover (failAt i steps handler s)) := by
  have h := fail_cached steps handler s i hdisc hh hfresh htx hinv
  exact ⟨h, recover_cached _ h⟩

/-- structural fact 3 holds for every modelled operation instance, EVERY failing step and the handler the model
    gives the operation there (the recovery insertion of APPEND, the cache clean-up of connector-created messages -
    which ranges over the NEW messages of the update only) -/
theorem modelled_handlerOk : ∀ o ∈ modelled, ∀ i ∈ List.range ((stepsOf! o).length + 1),
    handlerOk (stepsOf! o) (handlerOf o.1 o.2 i) i (redlOf o.1) = true := by decide

/-- **fail_listed_is_cached** for every modelled operation instance (except the re-download itself), at every step:
    an injected error anywhere leaves every listed message with its complete cache file, also the messages the
    operation only NAMES (a connector update that mentions a message the server already had). -/
theorem fail_listed_is_cached_ops (o : String × Nat) (ho : o ∈ modelled) (hne : o.1 ≠ "redownload") (s : St) (i : Nat)
    (hi : i ≤ (stepsOf! o).length) (hfresh : FreshNew s) (htx : s.tx = none) (hinv : AllCached s) :
    AllCached (failAt i (stepsOf! o) (handlerOf o.1 o.2 i) s) ∧
    AllCached (recover (failAt i (stepsOf! o) (handlerOf o.1 o.2 i) s)) := by
  have hr : redlOf o.1 = [] := by simp [redlOf, hne]
  have hd := modelled_disciplined o ho
  have hh := modelled_handlerOk o ho i (List.mem_range.mpr (by omega))
  rw [hr] at hd hh
  exact fail_listed_is_cached _ _ s i hd hh hfresh htx hinv

theorem listed_is_cached_ops (o : String × Nat) (ho : o ∈ modelled) (hne : o.1 ≠ "redownload") (s : St) (i : Nat)
    (hfresh : FreshNew s) (htx : s.tx = none) (hinv : AllCached s) :
    AllCached (recover (crashAfter i (stepsOf! o) s)) := by
  have hr : redlOf o.1 = [] := by simp [redlOf, hne]
  have hd := modelled_disciplined o ho
  rw [hr] at hd
  exact listed_is_cached _ s i hd hfresh htx hinv

/-- the handler's discipline is needed: a clean-up that ranges over EVERY message named in a failed connector update
    (instead of the new ones) deletes the cache file of a message the server already had; the roll-back keeps its row,
    so the message stays listed and its bytes are gone. (`connector MessagesCreated c1 -> mb2` with c1 known, the
    look-up of the mailbox fails.) -/
theorem fail_listed_is_cached_needs_handlerOk :
    let s : St := { db := { rows := [{ id := .old 1, lit := litOf (.old 1) }] },
                    store := fun id => if id = .old 1 then some (.complete (litOf (.old 1))) else none }
    let steps := stepsOf! ("cknown", 0)
    AllCached s ∧ FreshNew s ∧ disciplined steps [] = true ∧
    handlerOk steps [.del [.old 1]] 2 [] = false ∧
    ¬ AllCached (failAt 2 steps [.del [.old 1]] s) ∧ ¬ AllCached (recover (failAt 2 steps [.del [.old 1]] s)) := by
  refine ⟨by decide, fun _ => rfl, by decide, by decide, by decide, by decide⟩

/-! ### left-overs -/

/-- **leftovers_removed**: after start-up, whatever the state the dead process (or a failed operation)
    left: no cache file without a message row, and no row marked for deletion. -/
theorem leftovers_removed (s : St) : NoLeftovers (recover s) := recover_noLeftovers s

theorem leftovers_removed_crash (steps : List Step) (s : St) (i : Nat) :
    NoLeftovers (recover (crashAfter i steps s)) := recover_noLeftovers _

theorem leftovers_removed_fail (steps handler : List Step) (s : St) (i : Nat) :
    NoLeftovers (recover (failAt i steps handler s)) := recover_noLeftovers _

/-- the cache files of the messages `lost` disappear between two runs of the server (a cache that was reset or partly
    lost: gluon keeps such rows and downloads the literal again) -/
def loseFiles (s : St) (lost : List MsgId) : St := { s with store := lost.foldl Store.remove s.store }

/-- **leftovers_removed_lost_cache**: start-up removes EVERY cache file without a message row, however many rows have
    lost their cache file in the meantime - the clean-up compares the two id SETS, not their sizes: a left-over of an
    unfinished operation is not "balanced out" by a message without a file. For every state, every set of lost files
    and every interruption point. -/
theorem leftovers_removed_lost_cache (s : St) (lost : List MsgId) :
    NoLeftovers (recover (loseFiles s lost)) ∧
    ∀ id, (recover (loseFiles s lost)).db.hasRow id = false → (recover (loseFiles s lost)).store id = none := by
  refine ⟨recover_noLeftovers _, fun id h => ?_⟩
  cases hs : (recover (loseFiles s lost)).store id with
  | none => rfl
  | some f =>
    have := (recover_noLeftovers (loseFiles s lost)).1 id (by rw [hs]; simp)
    rw [h] at this
    cases this

theorem leftovers_removed_lost_cache_crash (steps : List Step) (s : St) (i : Nat) (lost : List MsgId) :
    NoLeftovers (recover (loseFiles (crashAfter i steps s) lost)) := recover_noLeftovers _

/-- a second start-up changes nothing the client can see (recovery is not an operation of its own) -/
theorem recover_abs (s : St) : abs (recover s) = abs s := recover_log s

/-! ### the model's tables against /repo's source (facts regenerated by `vh facts`) -/

def callsOf (fn : String) : List String := (Gluon.Facts.crashCallOrder.lookup fn).getD ["missing"]

/-- index of the first occurrence -/
def posOf (x : String) (l : List String) : Option Nat :=
  let i := l.findIdx (· == x)
  if i < l.length then some i else none

def before (a b : String) (l : List String) : Bool :=
  match posOf a l, posOf b l with
  | some i, some j => i < j
  | _, _ => false

/-- the statement table's read-only methods are exactly the methods of `db.ReadOnly` in the source; every
    method whose row effect the model knows exists in `db.Transaction` -/
theorem source_statement_table :
    Gluon.Facts.crashRoMethods = roMethods ∧
    (∀ n ∈ recentMethods ++ ["CreateMessages", "CreateMessageAndAddToMailbox", "DeleteMessages", "MarkMessageAsDeleted",
        "MarkMessageAsDeletedAndAssignRandomRemoteID", "MarkMessageAsDeletedWithRemoteID"], n ∈ Gluon.Facts.crashTxMethods) := by
  decide

/-- start-up recovery in the source is what `recover` models: rows marked deleted are deleted in a
    transaction BEFORE their files, then files without a row are deleted; in that order in `newUser` -/
theorem source_recovery_order :
    callsOf "user.deleteAllMessagesMarkedDeleted" = ["tx.GetMessageIDsMarkedAsDelete", "tx.DeleteMessages", "store.Delete"] ∧
    callsOf "user.cleanupStaleStoreData" = ["store.List", "rd.GetAllMessagesIDsAsMap", "store.Delete"] ∧
    before "call.deleteAllMessagesMarkedDeleted" "call.cleanupStaleStoreData" (callsOf "newUser") = true := by
  decide

/-- the literal is stored before the row is created (APPEND, recovered message, connector-created
    messages); a session's release deletes rows before files; the re-download checks for a recovered message before it
    writes the store;
    `stateDBWrite` is two transactions, the second one for the state updates -/
theorem source_store_before_row :
    before "store.SetUnchecked" "tx.CreateMessageAndAddToMailbox" (callsOf "State.actionCreateMessage") = true ∧
    before "store.SetUnchecked" "tx.CreateMessageAndAddToMailbox" (callsOf "State.actionCreateRecoveredMessage") = true ∧
    before "store.SetUnchecked" "tx.CreateMessages" (callsOf "user.applyMessagesCreated") = true ∧
    before "tx.DeleteMessages" "store.Delete" (callsOf "user.removeState") = true ∧
    callsOf "State.getLiteral" = ["store.Get", "check.recovered", "store.Set"] ∧
    callsOf "Mailbox.Append" = ["call.AppendRegular", "call.actionCreateRecoveredMessage"] ∧
    callsOf "stateDBWrite" = ["db.Write", "db.Write", "call.QueueOrApplyStateUpdate"] := by
  decide

/-- the `return` statements of `fn` outside nested function literals: (guards, returned expressions) in source order -/
def returnsOf (fn : String) : List (List String × String) :=
  Gluon.Facts.crashStartupReturns.filterMap fun p => if p.1 == fn then some p.2 else none

/-- the two start-up clean-up passes are UNCONDITIONAL in the source, as `recover` models them: the only way to leave
    `deleteAllMessagesMarkedDeleted` / `cleanupStaleStoreData` before the `store.Delete` of the computed ids is a failed
    read (`if err != nil { return err }`), and the `store.Delete` itself stands under no condition - no shortcut that
    skips the comparison of the store's ids with the rows (by their number, a flag, ...) -/
theorem source_startup_cleanup_unconditional :
    returnsOf "user.deleteAllMessagesMarkedDeleted" = [(["err != nil"], "err"), ([], "user.store.Delete(ids...)")] ∧
    returnsOf "user.cleanupStaleStoreData" =
      [(["err != nil"], "err"), (["err != nil"], "err"), ([], "user.store.Delete(idsToDelete...)")] := by
  decide

/-- the collection the cache clean-up of `fn` ranges over (first such loop) -/
def cleanupColl (fn : String) : String := (Gluon.Facts.crashCleanupLoops.lookup fn).getD ""

/-- the if-conditions around every statement of `fn` that makes `coll` grow -/
def growthGuards (fn coll : String) : List (List String) :=
  Gluon.Facts.crashGrowthSites.filterMap fun p => if p.1 == fn && p.2.1 == coll then some p.2.2 else none

/-- the clean-up after a failed MessagesCreated transaction (`handlerOf "ccreate"` / `"cknown"`: delete the files of
    the NEW ids only) in the source: `applyMessagesCreated` has exactly one loop that deletes cache files, and the
    collection it ranges over grows only under `db.IsErrNotFound(err)` - i.e. it receives a message only when the
    database did not know its remote id. A clean-up over every message NAMED in the update does not pass
    (`fail_listed_is_cached_needs_handlerOk` is what it would do). -/
theorem source_cleanup_ranges_over_new :
    let fn := "user.applyMessagesCreated"
    (Gluon.Facts.crashCleanupLoops.filter (·.1 == fn)).length = 1 ∧
    growthGuards fn (cleanupColl fn) ≠ [] ∧
    ∀ g ∈ growthGuards fn (cleanupColl fn), "db.IsErrNotFound(err)" ∈ g := by
  decide

/-- the step list `startup` (tied to the real start-up by the trace dialect) computes `recover` on a
    state with a marked row, its file, and nothing stale -/
theorem startup_steps_are_recover :
    let s : St := { db := { rows := [{ id := .old 1, lit := 5 }, { id := .new 1, marked := true, lit := 6 }] },
                    store := fun id => if id = .old 1 then some (.complete 5) else if id = .new 1 then some (.complete 6) else none }
    (run (stepsOf! ("startup", 0)) s).db.rows = (recover s).db.rows ∧
    (∀ id ∈ [MsgId.old 1, .new 1, .new 2], (run (stepsOf! ("startup", 0)) s).store id = (recover s).store id) := by
  decide

/-! ### non-vacuity -/

/-- a non-trivial durable state: two mailboxes' worth of committed statements, two rows, one of them
    marked for deletion, their cache files complete, one stale cache file without a row -/
def sample : St :=
  { db := { log := ["CreateMailbox", "CreateMessageAndAddToMailbox"],
            rows := [{ id := .old 1, lit := litOf (.old 1) }, { id := .old 2, marked := true, lit := litOf (.old 2) }] },
    store := fun id => if id = .old 1 then some (.complete (litOf (.old 1)))
                       else if id = .old 2 then some (.complete (litOf (.old 2)))
                       else if id = .old 7 then some .partialF else none }

example : sample.tx = none ∧ FreshNew sample ∧ AllFetchable sample := ⟨rfl, fun _ => rfl, by decide⟩

/-- the hypotheses of the generic theorems are satisfiable by a non-trivial operation on a non-trivial
    state, and the two possible outcomes of `crash_atomic` both occur and differ -/
example :
    oneVisibleTx (stepsOf! ("append", 0)) = true ∧ disciplined (stepsOf! ("append", 0)) = true ∧
    abs (recover (crashAfter 14 (stepsOf! ("append", 0)) sample)) = abs sample ∧
    abs (recover (crashAfter 15 (stepsOf! ("append", 0)) sample)) = abs (run (stepsOf! ("append", 0)) sample) ∧
    abs sample ≠ abs (run (stepsOf! ("append", 0)) sample) := by decide

/-- recovery really removes something: the stale file, the marked row and its file -/
example : (recover sample).store (.old 7) = none ∧ (recover sample).store (.old 2) = none ∧
    (recover sample).db.rows.length = 1 ∧ (recover sample).store (.old 1) = some (.complete (litOf (.old 1))) := by decide

/-- `leftovers_removed_lost_cache` on a concrete restart state: two acknowledged messages have lost their cache files,
    one file has no row (as many rows as files, more rows without a file than files without a row): start-up removes
    the file without a row, keeps the rows and the remaining file, and every row is still fetchable -/
example :
    let s : St := { db := { rows := [{ id := .old 1, lit := litOf (.old 1) }, { id := .old 2, lit := litOf (.old 2) },
                                     { id := .old 3, lit := litOf (.old 3) }] },
                    store := fun id => if id = .old 1 ∨ id = .old 2 ∨ id = .old 3 then some (.complete (litOf id))
                                       else if id = .new 1 then some .partialF else none }
    let s' := loseFiles s [.old 2, .old 3]
    s'.store (.old 2) = none ∧ s'.store (.old 3) = none ∧ s'.store (.new 1) = some .partialF ∧
    (recover s').store (.new 1) = none ∧ (recover s').db.rows.length = 3 ∧
    (recover s').store (.old 1) = some (.complete (litOf (.old 1))) ∧ AllFetchable (recover s') := by decide

/-- death inside `store.Set` of APPEND (file partial, no row yet): recovery removes the file -/
example : (crashAfter 11 (stepsOf! ("append", 0)) sample).store (.new 1) = some .partialF ∧
    (recover (crashAfter 11 (stepsOf! ("append", 0)) sample)).store (.new 1) = none := by decide

example : HandlerInvisible (handlerOf "ccreate" 0 3) ∧ ¬ HandlerInvisible (handlerOf "append" 0 9) := by decide

/-- the clean-up after a failed connector update is a real handler in the model: it removes the file of the NEW message
    (and only that one), and only when the failing step lies inside the update's transaction -/
example : handlerOf "ccreate" 0 5 = [.del [.new 1]] ∧ handlerOf "ccreate" 0 1 = [] ∧ handlerOf "ccreate" 0 11 = [] ∧
    handlerOf "cknown" 1 6 = [.del [.new 1]] ∧ handlerOf "cknown" 0 3 = [] := by decide

/-- `fail_listed_is_cached` is not vacuous: a state with two acknowledged messages, both cached; after the failure of the
    store write of the batch's new message and the clean-up both are still cached, and the new file is gone -/
example :
    let s : St := { db := { rows := [{ id := .old 1, lit := litOf (.old 1) }, { id := .old 2, remote := false, lit := 9 }] },
                    store := fun id => if id = .old 1 then some (.complete (litOf (.old 1)))
                                       else if id = .old 2 then some (.complete 9) else none }
    AllCached s ∧ FreshNew s ∧
    (crashAfter 7 (stepsOf! ("cknown", 1)) s).store (.new 1) = some .partialF ∧
    (failAt 7 (stepsOf! ("cknown", 1)) (handlerOf "cknown" 1 7) s).store (.new 1) = none ∧
    AllCached (failAt 7 (stepsOf! ("cknown", 1)) (handlerOf "cknown" 1 7) s) := by
  refine ⟨by decide, fun _ => rfl, by decide, by decide, by decide⟩

end Gluon.C07
