/-
C14 — namespace operations (CREATE / DELETE / RENAME) against the reference hierarchy model.

Model: `GluonModel/Model/Namespace.lean` (names column of the `mailboxes` table under
`handleCreate/handleDelete/handleRename` + `State.Create/Delete/Rename`).  This model is NOT tied
to the code by a correspondence of this check (no database-free hook exists); its model side
`namespace` (Driver/DNamespace.lean) is meant for the wire-level oracle.  The theorems below say
what the *model* guarantees for every table state and every command; the `…_accepted` /
`…_skips_…` theorems are witnesses of behaviour that contradicts the reference model and were
reproduced on the real server over TCP (see the C14 report).
-/
import GluonModel.Lemmas.Namespace

namespace Gluon.C14

open Gluon Gluon.Match Gluon.NS

/-- **CREATE makes the missing parents, and only them** — if `CREATE raw` succeeds on any table
    `S`, then for the created name `n` (the decoded name without trailing delimiters): `n` was not
    in `S`, and the new table holds exactly the old names plus every hierarchy level of `n`
    (`n` itself and all its superiors); nothing is removed, names stay unique. -/
theorem create_makes_missing_parents (d : Char) (S S' : Names) (raw : Name)
    (h : create d S raw = .ok S') :
    ∃ n, n = normName d (decodeName d raw) ∧ n ∉ S ∧
      (∀ x, x ∈ S' ↔ x ∈ S ∨ x ∈ Spec.levels d n) ∧ (S.Nodup → S'.Nodup) := by
  simp only [create] at h
  split at h
  · cases h
  · split at h
    · cases h
    · split at h
      · cases h
      · split at h
        · cases h
        · split at h
          · cases h
          next hc =>
            cases h
            refine ⟨_, rfl, by simpa using hc, ?_, ?_⟩
            · intro x
              rw [← List.append_assoc, List.mem_append, mem_append_missing, Spec.levels, List.mem_append]
              simp [or_assoc]
            · intro hS
              rw [← List.append_assoc, List.nodup_append]
              refine ⟨nodup_append_missing d _ hS, by simp, ?_⟩
              intro a ha b hb e
              simp at hb
              subst hb
              subst e
              rw [mem_append_missing] at ha
              rcases ha with ha | ha
              · exact absurd ha (by simpa using hc)
              · rw [Spec.mem_superiors_iff] at ha
                obtain ⟨r, hr⟩ := ha
                have := congrArg List.length hr
                simp at this

/-- **INBOX cannot be created or deleted, in any spelling** — `CREATE`/`DELETE` of a name whose
    decoded form spells INBOX (any letter case) are refused, for every table. -/
theorem inbox_protected (d : Char) (S : Names) (raw : Name) (h : isInbox (decodeName d raw) = true) :
    create d S raw = .error .createInbox ∧ delete d S raw = .error .deleteInbox := by
  simp [create, delete, h]

/-- the command layer spells INBOX canonically: `inbox`, `Inbox/x` … -/
theorem decodeName_inbox (d : Char) (raw : Name) (h : isInbox (raw.takeWhile (· != d)) = true) :
    decodeName d raw = inboxName ++ raw.dropWhile (· != d) := by
  simp [decodeName, h]

/-- **DELETE removes exactly the named mailbox** — on success the name existed, is not INBOX, and
    the new table is the old one without it (inferiors stay; they make it a `\Noselect` parent in
    LIST, see `list_exact`). -/
theorem delete_exact (d : Char) (S S' : Names) (raw : Name) (h : delete d S raw = .ok S') :
    decodeName d raw ∈ S ∧ isInbox (decodeName d raw) = false ∧ S' = S.erase (decodeName d raw) ∧
      (S.Nodup → ∀ x, x ∈ S' ↔ x ∈ S ∧ x ≠ decodeName d raw) := by
  simp only [delete] at h
  split at h
  · cases h
  next hi =>
    split at h
    · cases h
    · split at h
      · cases h
      next hc =>
        cases h
        refine ⟨by simpa using hc, by simpa using hi, rfl, ?_⟩
        intro hS x
        rw [hS.mem_erase_iff]
        exact And.comm

/-- **RENAME of INBOX leaves INBOX (and everything else) in place** — it only adds the new name
    and its missing parents. -/
theorem rename_inbox_keeps_inbox (d : Char) (S S' : Names) (rawOld rawNew : Name)
    (ho : decodeName d rawOld = inboxName) (h : rename d S rawOld rawNew = .ok S') :
    (∀ x, x ∈ S' ↔ x ∈ S ∨ x ∈ Spec.levels d (decodeName d rawNew)) ∧ inboxName ∈ S' := by
  simp only [rename, ho] at h
  split at h
  · cases h
  · split at h
    · cases h
    next hin =>
      split at h
      · cases h
      · split at h
        · cases h
        · simp only [beq_self_eq_true, if_true] at h
          cases h
          have key : ∀ x, x ∈ S ++ List.filter (fun s => !S.contains s) (listSuperiors d (decodeName d rawNew)) ++
              [decodeName d rawNew] ↔ x ∈ S ∨ x ∈ Spec.levels d (decodeName d rawNew) := by
            intro x
            rw [List.mem_append, mem_append_missing, Spec.levels, List.mem_append]
            simp [or_assoc]
          refine ⟨key, (key _).mpr (Or.inl ?_)⟩
          simpa using hin

/-- **RENAME carries the inferiors along** — if `RENAME old new` (old ≠ INBOX) succeeds on a table
    with unique names, the new table is obtained from the old one by: adding the missing parents
    of `new`, renaming the row `old` to `new`, and renaming every row that has `old` as a
    superior level (`old ++ delimiter ++ rest`) to `new ++ delimiter ++ rest`; every other row is
    untouched and names stay unique. -/
theorem rename_carries_inferiors (d : Char) (S S' : Names) (rawOld rawNew : Name) (hS : S.Nodup)
    (ho : decodeName d rawOld ≠ inboxName) (h : rename d S rawOld rawNew = .ok S') :
    let o := decodeName d rawOld
    let n := decodeName d rawNew
    let S1 := S ++ (listSuperiors d n).filter (fun s => !S.contains s)
    o ∈ S ∧ n ∉ S1 ∧ o ∉ Spec.superiors d n ∧
    S' = (S1.map (fun z => if z = o then n else z)).map
          (fun z => if (Spec.superiors d z).contains o then n ++ z.drop o.length else z) ∧
    S'.Nodup := by
  intro o n S1
  simp only [rename] at h
  split at h
  · cases h
  · split at h
    · cases h
    next hin =>
      split at h
      · cases h
      · split at h
        · cases h
        · have hne : (decodeName d rawOld == inboxName) = false := by simpa using ho
          simp only [hne, Bool.false_eq_true, if_false] at h
          cases hr : renameRow S1 o n with
          | error e => simp only [S1, o, n] at hr; rw [hr] at h; cases h
          | ok S2 =>
            have hr' := hr
            simp only [S1, o, n] at hr'
            rw [hr'] at h
            simp only at h
            obtain ⟨hnew, e2⟩ := renameRow_ok hr
            have hS1 : S1.Nodup := nodup_append_missing d n hS
            have hS2 : S2.Nodup := e2 ▸ nodup_map_replace (old := o) hS1 hnew
            have hinf := inferiors_core d o S2
            obtain ⟨e, hnd⟩ := renameInferiors_ok o n (listInferiors d o S2) S2 S'
              (hinf.1.nodup_iff.mpr (hS2.filter _)) (fun x hx => ((hinf.2 x).mp hx).1) hS2 h
            refine ⟨by simpa using hin, hnew, ?_, ?_, hnd⟩
            · intro hsup
              rename_i _ _ hany
              apply hany
              rw [List.any_eq_true]
              exact ⟨o, by rw [listSuperiors_eq]; exact hsup, by simpa [o] using hin⟩
            rw [e, e2]
            apply List.map_congr_left
            intro z hz
            have : z ∈ listInferiors d o (S1.map fun z => if z = o then n else z) ↔
                (Spec.superiors d z).contains o = true := by
              rw [← e2, hinf.2 z, List.contains_iff_mem, Spec.mem_superiors_iff]
              constructor
              · rintro ⟨_, r, hr⟩; exact ⟨r, hr⟩
              · rintro ⟨r, hr⟩; exact ⟨e2 ▸ hz, r, hr⟩
            by_cases hc : o ∈ Spec.superiors d z
            · have hm := this.mpr (by simpa using hc)
              simp [hc, hm]
            · have h1 : z ∉ listInferiors d o (S1.map fun z => if z = o then n else z) :=
                fun hm => hc (by simpa using this.mp hm)
              simp [hc, h1]
/-- **The commands refine the reference namespace** — whenever a command succeeds on a table with
    unique names, the set of names changes exactly as the reference model `Spec.NS` prescribes:
    CREATE adds the name and its missing parents, DELETE removes the one name, RENAME of INBOX adds
    the new name (and parents) and keeps everything, any other RENAME moves the name and carries
    every inferior along (`old ++ d ++ rest ↦ new ++ d ++ rest`), creating the missing parents of
    the new name and touching nothing else. -/
theorem commands_refine_reference (d : Char) (S S' : Names) (hS : S.Nodup) :
    (∀ raw, create d S raw = .ok S' →
        Spec.NS.Create d (· ∈ S) (normName d (decodeName d raw)) (· ∈ S')) ∧
    (∀ raw, delete d S raw = .ok S' → Spec.NS.Delete (· ∈ S) (decodeName d raw) (· ∈ S')) ∧
    (∀ rawOld rawNew, decodeName d rawOld = inboxName → rename d S rawOld rawNew = .ok S' →
        Spec.NS.RenameInbox d (· ∈ S) (decodeName d rawNew) (· ∈ S')) ∧
    (∀ rawOld rawNew, decodeName d rawOld ≠ inboxName → rename d S rawOld rawNew = .ok S' →
        Spec.NS.Rename d (· ∈ S) (decodeName d rawOld) (decodeName d rawNew) (· ∈ S')) := by
  refine ⟨?_, ?_, ?_, ?_⟩
  · intro raw h
    obtain ⟨n, rfl, hn, hm, _⟩ := create_makes_missing_parents d S S' raw h
    exact ⟨hn, hm⟩
  · intro raw h
    obtain ⟨hin, _, _, hm⟩ := delete_exact d S S' raw h
    exact ⟨hin, hm hS⟩
  · intro rawOld rawNew ho h
    refine ⟨?_, (rename_inbox_keeps_inbox d S S' rawOld rawNew ho h).1⟩
    simp only [rename, ho] at h
    split at h
    · cases h
    · split at h
      · cases h
      · split at h
        · cases h
        next hnn => simpa using hnn
  · intro rawOld rawNew ho h
    obtain ⟨hoS, hnew, hsup, e, _⟩ := rename_carries_inferiors d S S' rawOld rawNew hS ho h
    generalize decodeName d rawOld = o at *
    generalize decodeName d rawNew = n at *
    have hnsup : ¬ Spec.IsSuperior d o n := fun hh => hsup ((Spec.mem_superiors_iff d n o).mpr hh)
    have hnS : n ∉ S := fun hh => hnew ((mem_append_missing d n n).mpr (Or.inl hh))
    refine ⟨hoS, hnS, hnsup, ?_⟩
    intro x
    have hcont : ∀ w, (Spec.superiors d w).contains o = true ↔ Spec.IsSuperior d o w := by
      intro w; rw [List.contains_iff_mem, Spec.mem_superiors_iff]
    have hmem : x ∈ S' ↔ ∃ z, (z ∈ S ∨ Spec.IsSuperior d z n) ∧
        (if (Spec.superiors d (if z = o then n else z)).contains o = true
          then n ++ (if z = o then n else z).drop o.length else (if z = o then n else z)) = x := by
      rw [e, List.map_map]
      simp only [List.mem_map, mem_append_missing, Function.comp, Spec.mem_superiors_iff]
    show x ∈ S' ↔ _
    rw [hmem]
    constructor
    · rintro ⟨z, hz, rfl⟩
      by_cases hzo : z = o
      · subst hzo
        rw [if_pos rfl, if_neg (fun hh => hnsup ((hcont n).mp hh))]
        exact Or.inr (Or.inl (Spec.self_mem_levels d n))
      · rw [if_neg hzo]
        by_cases hsz : Spec.IsSuperior d o z
        · rw [if_pos ((hcont z).mpr hsz)]
          obtain ⟨rest, rfl⟩ := hsz
          right; right
          refine ⟨rest, ?_, by simp⟩
          rcases hz with hz | hz
          · exact hz
          · exfalso
            obtain ⟨r2, hr2⟩ := hz
            exact hnsup ⟨rest ++ d :: r2, by simp [hr2]⟩
        · rw [if_neg (fun hh => hsz ((hcont z).mp hh))]
          rcases hz with hz | hz
          · exact Or.inl ⟨hz, hzo, hsz⟩
          · exact Or.inr (Or.inl (by simp [Spec.levels, (Spec.mem_superiors_iff d n z).mpr hz]))
    · rintro (⟨hx, hxo, hxs⟩ | hx | ⟨rest, hr, rfl⟩)
      · refine ⟨x, Or.inl hx, ?_⟩
        rw [if_neg hxo, if_neg (fun hh => hxs ((hcont x).mp hh))]
      · rw [Spec.mem_levels_iff] at hx
        rcases hx with hx | rfl
        · by_cases hxo : x = o
          · exact absurd (hxo ▸ hx) hnsup
          · by_cases hxs : Spec.IsSuperior d o x
            · exfalso
              obtain ⟨r1, rfl⟩ := hxs
              obtain ⟨r2, hr2⟩ := hx
              exact hnsup ⟨r1 ++ d :: r2, by simp [hr2]⟩
            · refine ⟨x, Or.inr hx, ?_⟩
              rw [if_neg hxo, if_neg (fun hh => hxs ((hcont x).mp hh))]
        · refine ⟨o, Or.inl hoS, ?_⟩
          rw [if_pos rfl, if_neg (fun hh => hnsup ((hcont x).mp hh))]
      · refine ⟨o ++ d :: rest, Or.inl hr, ?_⟩
        have h1 : ¬ (o ++ d :: rest = o) := by
          intro e
          have := congrArg List.length e
          simp at this
        have h2 : Spec.IsSuperior d o (o ++ d :: rest) := ⟨rest, rfl⟩
        rw [if_neg h1, if_pos ((hcont _).mpr h2)]
        simp

/-- **RENAME touches only the renamed hierarchy** — if `RENAME old new` (old ≠ INBOX) succeeds on a table
    with unique names then (1) every other name that does not have `old` as a superior level stays where
    it is, (2) every inferior `old ++ d ++ rest` is found at `new ++ d ++ rest`, and (3) nothing else
    appears: a name of the new table is an old name, a hierarchy level of `new`, or a moved inferior of
    `old`.  "Inferior" is exact string equality of the levels: no case folding, no pattern matching. -/
theorem rename_touches_only_own_hierarchy (d : Char) (S S' : Names) (rawOld rawNew : Name) (hS : S.Nodup)
    (ho : decodeName d rawOld ≠ inboxName) (h : rename d S rawOld rawNew = .ok S') :
    let o := decodeName d rawOld
    let n := decodeName d rawNew
    (∀ z, z ∈ S → z ≠ o → ¬ Spec.IsSuperior d o z → z ∈ S') ∧
    (∀ rest, o ++ d :: rest ∈ S → n ++ d :: rest ∈ S') ∧
    (∀ x, x ∈ S' → x ∈ S ∨ x ∈ Spec.levels d n ∨ ∃ rest, o ++ d :: rest ∈ S ∧ x = n ++ d :: rest) := by
  intro o n
  obtain ⟨_, _, _, hx⟩ := (commands_refine_reference d S S' hS).2.2.2 rawOld rawNew ho h
  refine ⟨fun z hz hzo hzs => (hx z).mpr (Or.inl ⟨hz, hzo, hzs⟩),
    fun rest hr => (hx _).mpr (Or.inr (Or.inr ⟨rest, hr, rfl⟩)), fun x hx' => ?_⟩
  rcases (hx x).mp hx' with ⟨h1, _, _⟩ | h2 | h3
  · exact Or.inl h1
  · exact Or.inr (Or.inl h2)
  · exact Or.inr (Or.inr h3)

/-- **RENAME leaves the sibling spellings alone** — a name `z ≠ old` of the same length as `old` (in
    particular one that differs from `old` only in the case of its letters: `Work` next to `work`) and every
    inferior of `z` are still there after a successful `RENAME old new`: mailbox names other than INBOX are
    compared exactly. -/
theorem rename_leaves_sibling_spellings (d : Char) (S S' : Names) (rawOld rawNew : Name) (hS : S.Nodup)
    (ho : decodeName d rawOld ≠ inboxName) (h : rename d S rawOld rawNew = .ok S')
    (z : Name) (hz : z ≠ decodeName d rawOld) (hl : z.length = (decodeName d rawOld).length) :
    (z ∈ S → z ∈ S') ∧ (∀ rest, z ++ d :: rest ∈ S → z ++ d :: rest ∈ S') := by
  obtain ⟨keep, _, _⟩ := rename_touches_only_own_hierarchy d S S' rawOld rawNew hS ho h
  refine ⟨fun hin => keep z hin hz ?_, fun rest hin => keep _ hin ?_ ?_⟩
  · rintro ⟨r, hr⟩
    have := congrArg List.length hr
    simp at this
    omega
  · intro e
    have := congrArg List.length e
    simp at this
    omega
  · rintro ⟨r, hr⟩
    exact hz (List.append_inj_left hr hl)

/-- **Names stay unique** — every command that succeeds keeps the `name` column duplicate-free
    (so does every failing one: it changes nothing). -/
theorem names_unique_step (d : Char) (S : Names) (c : Cmd) (hS : S.Nodup) : (apply d S c).Nodup := by
    simp only [apply]
    cases hc : step d S c with
    | error e => exact hS
    | ok S' =>
      cases c with
      | create raw =>
        obtain ⟨_, _, _, _, hnd⟩ := create_makes_missing_parents d S S' raw hc
        exact hnd hS
      | delete raw =>
        obtain ⟨_, _, e, _⟩ := delete_exact d S S' raw hc
        rw [e]; exact hS.erase _
      | rename o n =>
        by_cases ho : decodeName d o = inboxName
        · simp only [step, rename, ho] at hc
          split at hc
          · cases hc
          · split at hc
            · cases hc
            · split at hc
              · cases hc
              next hnn =>
                split at hc
                · cases hc
                · simp only [beq_self_eq_true, if_true] at hc
                  cases hc
                  rw [List.nodup_append]
                  refine ⟨nodup_append_missing d _ hS, by simp, ?_⟩
                  intro a ha b hb e
                  simp at hb
                  subst hb
                  subst e
                  rw [mem_append_missing] at ha
                  rcases ha with ha | ha
                  · exact absurd ha (by simpa using hnn)
                  · rw [Spec.mem_superiors_iff] at ha
                    obtain ⟨r, hr⟩ := ha
                    have := congrArg List.length hr
                    simp at this
        · exact (rename_carries_inferiors d S S' o n hS ho hc).2.2.2.2

/-- **Names are unique in every reachable table** — from a fresh account, after any sequence of
    CREATE / DELETE / RENAME commands (failed ones included). -/
theorem names_unique (d : Char) (cs : List Cmd) : (run d initial cs).Nodup := by
  have hstep := fun S c hS => names_unique_step d S c hS
  have : ∀ (S : Names), S.Nodup → (run d S cs).Nodup := by
    induction cs with
    | nil => intro S hS; exact hS
    | cons c cs ih => intro S hS; exact ih _ (hstep S c hS)
  exact this initial (by decide)

/-- **INBOX always exists** — for every delimiter that is not one of the letters of "INBOX", every
    command (successful or not) keeps the row `INBOX`: DELETE refuses it, RENAME of INBOX leaves it
    in place, and INBOX is nobody's inferior; hence it exists in every reachable table. -/
theorem inbox_always_exists (d : Char) (hd : d ∉ inboxName) (cs : List Cmd) : inboxName ∈ run d initial cs := by
  have hsup : Spec.superiors d inboxName = [] := by
    have : ∀ n : Name, d ∉ n → Spec.superiors d n = [] := by
      intro n
      induction n with
      | nil => intro _; rfl
      | cons c cs ih =>
        intro h
        simp only [List.mem_cons, not_or] at h
        have hc : ¬ c = d := fun e => h.1 e.symm
        simp [Spec.superiors, hc, ih h.2]
    exact this _ hd
  have hstep : ∀ (S : Names) (c : Cmd), S.Nodup → inboxName ∈ S → inboxName ∈ apply d S c := by
    intro S c hS hI
    simp only [apply]
    cases hc : step d S c with
    | error e => exact hI
    | ok S' =>
      cases c with
      | create raw =>
        obtain ⟨_, _, _, hm, _⟩ := create_makes_missing_parents d S S' raw hc
        exact (hm _).mpr (Or.inl hI)
      | delete raw =>
        obtain ⟨_, hni, _, hm⟩ := delete_exact d S S' raw hc
        refine (hm hS _).mpr ⟨hI, ?_⟩
        intro e
        rw [← e] at hni
        revert hni; decide
      | rename o n =>
        by_cases ho : decodeName d o = inboxName
        · exact (rename_inbox_keeps_inbox d S S' o n ho hc).2
        · obtain ⟨_, _, _, e, _⟩ := rename_carries_inferiors d S S' o n hS ho hc
          rw [e]
          refine List.mem_map.mpr ⟨inboxName, List.mem_map.mpr ⟨inboxName, by simp [hI], ?_⟩, ?_⟩
          · have : ¬ inboxName = decodeName d o := fun e => ho e.symm
            simp [this]
          · simp [hsup]
  have hnd : ∀ (S : Names) (c : Cmd), S.Nodup → (apply d S c).Nodup := by
    intro S c hS
    have := names_unique_step d S c hS
    exact this
  have : ∀ (S : Names), S.Nodup → inboxName ∈ S → inboxName ∈ run d S cs := by
    induction cs with
    | nil => intro S _ hI; exact hI
    | cons c cs ih => intro S hS hI; exact ih _ (hnd S c hS) (hstep S c hS hI)
  exact this initial (by decide) (by decide)

/-- witness — **`CREATE ""` is accepted**: a mailbox with the empty name is created (the reference
    model has no such name; LIST shows it as `(\Noselect) "/" ""`). -/
theorem create_empty_name_accepted : create '/' initial [] = .ok (initial ++ [[]]) := by decide

/-- witness — **RENAME skips the name validation of CREATE**: `RENAME a "x//y"` succeeds and
    creates the mailboxes `x`, `x/` and `x//y`, although `CREATE "x//y"` and `CREATE "/z"` are
    refused (adjacent / leading separator). -/
theorem rename_skips_name_validation :
    rename '/' (initial ++ [['a']]) ['a'] ['x', '/', '/', 'y']
      = .ok (initial ++ [['x', '/', '/', 'y'], ['x'], ['x', '/']]) ∧
    create '/' (initial ++ [['a']]) ['x', '/', '/', 'y'] = .error .adjacentSep ∧
    create '/' (initial ++ [['a']]) ['/', 'z'] = .error .beginsWithSep ∧
    rename '/' (initial ++ [['a']]) ['a'] ['/', 'z'] = .ok (initial ++ [['/', 'z'], []]) := by
  refine ⟨by decide, by decide, by decide, by decide⟩

/-- witness — **the recovery mailbox is protected against CREATE only**: a mailbox can be moved
    below `Recovered Messages` with RENAME although CREATE refuses every name with that prefix. -/
theorem rename_into_recovery_accepted :
    create '/' (initial ++ [['a']]) ("Recovered Messages/x".toList) = .error .notAllowed ∧
    rename '/' (initial ++ [['a']]) ['a'] ("Recovered Messages/x".toList)
      = .ok (initial ++ ["Recovered Messages/x".toList]) := by
  refine ⟨by decide, by decide⟩

/-! ### non-vacuity -/

/-- `create_makes_missing_parents` / `rename_carries_inferiors` on a concrete history. -/
example : run '/' initial [.create ['a', '/', 'b', '/', 'c'], .create ['a', '/', 'b', 'b'], .rename ['a'] ['z'],
      .delete ['z', '/', 'b']]
    = [inboxName, recoveryName, ['z'], ['z', '/', 'b', '/', 'c'], ['z', '/', 'b', 'b']] := by decide

example : run '/' initial [.create ['i', 'n', 'b', 'o', 'x', '/', 'x'], .rename ['I', 'n', 'b', 'o', 'x'] ['o', 'l', 'd']]
    = [inboxName, recoveryName, inboxName ++ ['/', 'x'], ['o', 'l', 'd']] := by decide

/-- `rename_touches_only_own_hierarchy` / `rename_leaves_sibling_spellings` on sibling hierarchies whose names
    a loose comparison would confuse with `work`: another letter case, `work` as a prefix without delimiter,
    LIKE / glob metacharacters that would match it. -/
example : run '/' initial [.create "Work/reports".toList, .create "work/todo".toList, .create "workshop/x".toList,
      .create "wor_/x".toList, .create "w%/x".toList, .create "wor*/x".toList, .rename "work".toList "archive".toList]
    = [inboxName, recoveryName, "Work".toList, "Work/reports".toList, "archive".toList, "archive/todo".toList,
       "workshop".toList, "workshop/x".toList, "wor_".toList, "wor_/x".toList, "w%".toList, "w%/x".toList,
       "wor*".toList, "wor*/x".toList] := by decide

/-- renaming onto the other spelling of an existing name is an ordinary rename (no collision), below the first
    level also for the spellings of INBOX -/
example : run '/' initial [.create "Work/reports".toList, .create "a/inbox/x".toList, .rename "Work/reports".toList "work".toList,
      .rename "a/inbox".toList "a/INBOX".toList]
    = [inboxName, recoveryName, "Work".toList, "work".toList, "a".toList, "a/INBOX".toList, "a/INBOX/x".toList] := by decide

end Gluon.C14
