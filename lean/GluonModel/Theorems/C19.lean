/-
C19 — concurrent sessions, updates and shutdown: no race, no deadlock, no leak.   PARTIAL BY NATURE.

What is proved here (over the transition systems of Model/Conc.lean, for every step sequence =
every interleaving, any number of threads / sessions / items):
  * QueuedChannel: FIFO, nothing duplicated, nothing lost except by CloseAndDiscardQueued; no lost
    wake-up; when its consumer goroutine terminates — and when it does not (finding #13a).
  * generic Mutex/RWMutex semantics: a lock order excludes lock-only deadlocks; a lockset discipline
    excludes conflicting concurrent accesses.
  * the lock facts regenerated from /repo's source satisfy both disciplines (`decide`).
  * teardown protocol of internal/backend (as repaired by 630a898): Close / RemoveUser return, under
    the one named assumption that session loops observe Done; the former hang (cancelled Serve context)
    and the unclosed state after a failing DB write (repaired by 0873710) are kept as regression runs
    that now complete / are clean.
  * which close the code uses is a regenerated fact: State.Close discards (7b5e762), so its queue's
    consumer always terminates (`state_close_consumer_exits`); so does Server.Close on serveErrCh
    (214c4ac, `server_errch_close_classified`). `queue_close_leak_witness` stays as the statement about
    plain Close, which no teardown path uses any more.
  * the goroutines a session starts per command / per IDLE / per connection (Model/ConcCmd.lean): the
    command goroutine always finishes because a failed write keeps draining its response channel
    (`command_drained_completes`; without the drain it blocks for ever, `command_undrained_stuck`), the
    per-IDLE forwarder exits on every way out of IDLE because `endIdle` is deferred
    (`idle_forwarder_exits`; `idle_not_deferred_leak_witness`); both shapes, and the list of goroutine
    starts, are regenerated facts (`session_goroutines_classified`).
What is NOT decided by theorem (search only, see checklib/props/C19.py): data races on fields that
no lock guards (a State's snapshot read from a foreign goroutine, finding #13b), liveness that
depends on the Go scheduler, blocking on channels / WaitGroups while holding a lock other than in
the teardown protocol, everything the models abstract from.
-/
import GluonModel.Lemmas.ConcQueue
import GluonModel.Lemmas.ConcLocks
import GluonModel.Lemmas.ConcTeardown
import GluonModel.Generated.Facts.Locks
import GluonModel.Generated.Facts.CloseVariant
import GluonModel.Lemmas.ConcCmd
import GluonModel.Generated.Facts.GoStop
import GluonModel.Generated.Facts.GoLoops

namespace Gluon.C19
open Gluon.Conc

/-! ## async.QueuedChannel -/

/-- For every interleaving of any number of `Enqueue` calls, `Close`, `CloseAndDiscardQueued`, the
consumer goroutine and readers (= every step sequence from the initial state, any buffer size):
what readers received so far, followed by the channel buffer, the item in the consumer's hand, the
item discarded at `stopCh` (if any) and the queue, is exactly the sequence of items accepted by
`Enqueue` calls that saw the queue open, in the order they were appended. Hence the received
sequence is a prefix of the accepted sequence — in order, nothing duplicated, nothing skipped — and
an item is discarded only after `CloseAndDiscardQueued`. -/
theorem queue_fifo_lossfree {α : Type} (cap : Nat) (steps : List (QStep α)) :
    let s := (QState.init cap : QState α).run steps
    s.received ++ s.buf ++ s.held ++ s.dropped ++ s.items = s.accepted ∧
    s.received <+: s.accepted ∧
    (s.dropped ≠ [] → s.stopped = true) := by
  intro s
  have h := qinv_run _ steps (qinv_init (α := α) cap)
  refine ⟨h.cons, ?_, h.dropStop⟩
  refine ⟨s.buf ++ s.held ++ s.dropped ++ s.items, ?_⟩
  have := h.cons
  simpa [List.append_assoc] using this

/-- Once `closed` is set and the `Enqueue` calls that raced with `Close` (they had read
`closed == false` before) have appended, nothing is accepted any more, whatever happens: "enqueued
before close" is a fixed sequence from then on. -/
theorem queue_sealed_after_close {α : Type} (s : QState α) (steps : List (QStep α))
    (hclosed : s.closed = true) (hNoRacingEnqueue : s.pendingEnq = []) :
    (s.run steps).accepted = s.accepted :=
  sealed_run s steps hclosed hNoRacingEnqueue

/-- No lost wake-up: in every reachable state, a consumer that sleeps in `cond.Wait()` has an empty
queue, and if `closed` is already set then the `Broadcast` of that `Close` is still to come (it
needs the lock the consumer released atomically with going to sleep). So the consumer never sleeps
forever with work or with a close notification pending. -/
theorem queue_no_lost_wakeup {α : Type} (cap : Nat) (steps : List (QStep α)) :
    let s := (QState.init cap : QState α).run steps
    s.consumer = .sleeping → s.items = [] ∧ (s.closed = true → 0 < s.pendingBcast) := by
  intro s hs
  have h := qinv_run _ steps (qinv_init (α := α) cap)
  exact ⟨h.sleepEmpty hs, fun hc => h.wake hc hs⟩

/-- When does the consumer goroutine terminate? (`_partial`: "after Close it terminates" is false in
general, see `queue_close_leak_witness`.) In every reachable state:
(1) after `CloseAndDiscardQueued` has returned (`stopped`, `closed`, its broadcast done) the consumer
    can terminate by its own steps alone — at most two — whatever the buffer, the queue and the
    readers do;
(2) after plain `Close` (named hypothesis `hReaderDrains`: the schedule may use reader steps) there
    is a schedule of consumer and reader steps only after which the consumer has terminated. -/
theorem queue_consumer_exits_partial {α : Type} (cap : Nat) (steps : List (QStep α)) :
    let s := (QState.init cap : QState α).run steps
    (s.stopped = true → s.closed = true → s.pendingBcast = 0 →
      ∃ own : List (QStep α), own.length ≤ 2 ∧ (∀ st ∈ own, st.isConsumer = true) ∧
        (s.run own).consumer = .exited) ∧
    (s.closed = true → s.pendingBcast = 0 →
      ∃ hReaderDrains : List (QStep α), (∀ st ∈ hReaderDrains, st.isConsumerOrRecv = true) ∧
        (s.run hReaderDrains).consumer = .exited) := by
  intro s
  have h := qinv_run _ steps (qinv_init (α := α) cap)
  refine ⟨fun hst hcl hb => cdq_exit s h hst hcl hb, fun hcl hb => ?_⟩
  refine drain_exit _ s (Nat.le_refl _) hcl h.bufLe ?_
  intro hsl
  have h0 : 0 < s.pendingBcast := h.wake hcl hsl
  omega

/-- The other half of (2): without a reader and without `close(stopCh)`, a consumer that has more
items in the machinery (buffer + hand + queue) than the channel buffer holds never terminates,
whatever else happens (more `Enqueue`, any number of `Close`). `Close` therefore leaks the goroutine
when nobody drains. -/
theorem queue_close_blocks_without_reader {α : Type} (s : QState α) (steps : List (QStep α))
    (hbuf : s.buf.length ≤ s.cap) (hstop : s.stopped = false) (halive : s.consumer ≠ .exited)
    (hload : s.cap < s.load) (hNoReaderNoStop : ∀ st ∈ steps, st.noReaderNoStop = true) :
    (s.run steps).consumer ≠ .exited :=
  (pinned_run s steps hNoReaderNoStop ⟨hbuf, hstop, halive, hload⟩).2.2.1

/-- the state of DESIGN #13a: buffer 32 (as in `state.NewState`), 33 updates queued, then `Close` -/
def leakState : QState Nat :=
  (QState.init 32).run [.enqCheck (List.range 33), .enqAppend 0, .closeStore, .closeBcast]

/-- Finding #13a (`state.Close` → `closeUpdateQueue` uses plain `Close`): buffer 32, 33 pending
updates, no reader, `Close`: the consumer moves 32 items into the channel, takes the 33rd, and is
then blocked on `ch <- item` for ever — after its 66 moves no consumer step is enabled, and no
continuation without a reader ever lets it exit. -/
theorem queue_close_leak_witness :
    (∀ steps : List (QStep Nat), (∀ st ∈ steps, st.noReaderNoStop = true) →
      (leakState.run steps).consumer ≠ .exited) ∧
    ((leakState.run (List.replicate 66 .consume)).consumerEnabled = false ∧
     (leakState.run (List.replicate 66 .consume)).consumer = .holding 32 ∧
     (leakState.run (List.replicate 66 .consume)).closed = true) := by
  refine ⟨fun steps h => queue_close_blocks_without_reader leakState steps (by decide) (by decide)
    (by decide) (by decide) h, by decide⟩

/-- In every interleaving in which a `CloseAndDiscardQueued` call has completed — its three actions
`close(stopCh)`, `closed.store(true)`, Broadcast occur in this order, with anything whatsoever
before, between and after them (more Enqueue, other Close calls, consumer and reader steps or none)
— the consumer goroutine of the queue terminates by at most two steps of its own: no reader needed,
no bound on what is pending. -/
theorem queue_discard_consumer_exits {α : Type} (cap : Nat) (before mid1 mid2 after : List (QStep α)) :
    let s := (QState.init cap : QState α).run
      (before ++ [.stop] ++ mid1 ++ [.closeStore] ++ mid2 ++ [.closeBcast] ++ after)
    ∃ own : List (QStep α), own.length ≤ 2 ∧ (∀ st ∈ own, st.isConsumer = true) ∧
      (s.run own).consumer = .exited := by
  intro s
  -- state right before the Broadcast of this call
  let s1 := (QState.init cap : QState α).run (before ++ [.stop] ++ mid1 ++ [.closeStore] ++ mid2)
  have hs : s = ((s1.step .closeBcast).run after) := by
    simp only [s, s1, QState.run, List.foldl_append, List.foldl_cons, List.foldl_nil]
  have inv1 : QInv s1 := qinv_run _ _ (qinv_init (α := α) cap)
  have hst1 : s1.stopped = true := by
    have : s1 = (((QState.init cap : QState α).run before).step .stop).run (mid1 ++ [.closeStore] ++ mid2) := by
      simp only [s1, QState.run, List.foldl_append, List.foldl_cons, List.foldl_nil]
    rw [this]
    apply run_stopped
    simp only [QState.step]; split <;> simp_all
  have hcl1 : s1.closed = true := by
    have : s1 = (((QState.init cap : QState α).run (before ++ [.stop] ++ mid1)).step .closeStore).run mid2 := by
      simp only [s1, QState.run, List.foldl_append, List.foldl_cons, List.foldl_nil]
    rw [this]
    apply run_closed
    simp [QState.step]
  have hawake : (s1.step .closeBcast).consumer ≠ .sleeping := bcast_awake s1 inv1 hcl1
  rw [hs]
  exact cdq_exit' _ (run_stopped _ _ (step_stopped _ _ hst1)) (run_closed _ _ (step_closed _ _ hcl1))
    (awake_run _ _ (step_closed _ _ hcl1) hawake)

/-- What `State.Close` relies on, at full strength. Regenerated fact: `State.Close` (through
`closeUpdateQueue`) calls exactly `updatesQueue.CloseAndDiscardQueued()`; with
`queue_discard_consumer_exits`: closing a state never leaves its update-queue goroutine behind, however
many updates are unread (finding #13a, repaired by 7b5e762; reverting it breaks this theorem). -/
theorem state_close_consumer_exits :
    Facts.stateCloseDiscards = some true ∧
    ∀ {α : Type} (cap : Nat) (before mid1 mid2 after : List (QStep α)),
      let s := (QState.init cap : QState α).run
        (before ++ [.stop] ++ mid1 ++ [.closeStore] ++ mid2 ++ [.closeBcast] ++ after)
      ∃ own : List (QStep α), own.length ≤ 2 ∧ (∀ st ∈ own, st.isConsumer = true) ∧
        (s.run own).consumer = .exited :=
  ⟨by decide, fun cap before mid1 mid2 after => queue_discard_consumer_exits cap before mid1 mid2 after⟩

/-- The same for the server's error channel, at full strength. Regenerated fact: `Server.Close` calls
exactly `serveErrCh.CloseAndDiscardQueued()`; hence the `server-err-ch` consumer goroutine terminates
after `Server.Close` even if session errors are queued and nobody reads `GetErrorCh` (finding
#13a-errch, repaired by 214c4ac; reverting it breaks this theorem). -/
theorem server_errch_close_classified :
    Facts.serverErrChDiscards = some true ∧
    ∀ {α : Type} (cap : Nat) (before mid1 mid2 after : List (QStep α)),
      let s := (QState.init cap : QState α).run
        (before ++ [.stop] ++ mid1 ++ [.closeStore] ++ mid2 ++ [.closeBcast] ++ after)
      ∃ own : List (QStep α), own.length ≤ 2 ∧ (∀ st ∈ own, st.isConsumer = true) ∧
        (s.run own).consumer = .exited :=
  ⟨by decide, fun cap before mid1 mid2 after => queue_discard_consumer_exits cap before mid1 mid2 after⟩

/-! ## locks -/

/-- Generic lock semantics (Mutex and RWMutex, any number of threads, non-reentrant, writers may
block readers): if every thread requests a lock only while everything it holds is below it in one
strict partial order `lt`, then no reachable state contains a lock-only deadlock — a non-empty set of
threads each waiting for a lock that a member of the set holds. -/
theorem acyclic_no_deadlock (lt : Nat → Nat → Prop) (irr : ∀ a, ¬ lt a a)
    (tr : ∀ a b c, lt a b → lt b c → lt a c) (g : Guard) (s : LSys) (h : LReach lt g s) :
    ¬ Deadlocked s := by
  have inv := linv_reach h
  rintro ⟨D, hne, hD⟩
  let key : Nat → Nat := fun t => match (s t).want with | some (l, _) => l | none => 0
  obtain ⟨t, ht, hmax⟩ := exists_maximal lt irr tr key D hne
  obtain ⟨l, m, hw, u, hu, m', hheld⟩ := hD t ht
  obtain ⟨l', m'', hw', _⟩ := hD u hu
  have hlt : lt l l' := inv.order u l' m'' hw' (l, m') hheld
  apply hmax u hu
  simp only [key, hw, hw']
  exact hlt

/-- Lockset discipline: if every access to a field `f` guarded by lock `L` begins with `L` held —
exclusively for a write — and `L` is not released during the access, then in no reachable state two
different threads are inside conflicting accesses (one of them a write) to `f`. -/
theorem lockset_no_conflict (lt : Nat → Nat → Prop) (g : Guard) (s : LSys) (h : LReach lt g s)
    (f L : Nat) (hguard : g f = some L) : ¬ ConflictOn s f := by
  have inv := linv_reach h
  rintro ⟨t, u, k, k', hne, ha, ha', hk⟩
  have et := inv.ent t f k ha
  have eu := inv.ent u f k' ha'
  rw [hguard] at et eu
  cases hk with
  | inl hk =>
    subst hk
    have hu : holdsLock (s u) L := by
      cases k' with
      | write => exact ⟨Mode.w, eu⟩
      | read => exact eu
    exact inv.excl t u L hne et hu
  | inr hk =>
    subst hk
    have ht : holdsLock (s t) L := by
      cases k with
      | write => exact ⟨Mode.w, et⟩
      | read => exact et
    exact inv.excl u t L (fun e => hne e.symm) eu ht

/-! ## the regenerated lock facts -/

/-- one evaluation of the checker over the regenerated table (both theorems below read it off) -/
theorem lock_facts_checked :
    (LF.checkOrder Facts.lockTab && LF.checkAccess Facts.lockTab) = true := by
  decide +kernel

/-- The lock-order graph of the code as it is now has no cycle: the regenerated events of every
function of internal/backend, store, async, sqlite3/client.go (and of the gluon functions they reach)
were replayed; whenever a lock is, or may be, acquired while another is held — directly, in a callee,
in a function literal, or in a callback that a callee runs under its own locks — the rank of the held
lock is strictly smaller (`Facts.lockRank` is the certificate; a cycle admits none). The same pass
checks that the call summaries over-approximate the events, that only held locks are released, and
that no unknown code runs and no unclassified lock operation happens under a lock. -/
theorem lockorder_acyclic : LF.checkOrder Facts.lockTab = true := by
  have h := lock_facts_checked
  simp only [Bool.and_eq_true] at h
  exact h.1

/-- Every access to `user.states`, `Backend.users`, `WriteControlledStore.entryTable` and
`QueuedChannel.items` in the scanned code happens with its guard lexically held (`statesLock`,
`usersLock`, `WriteControlledStore.lock`, `cond.L`), exclusively for writes; locks held by all
callers count only for unexported functions all of whose call sites were checked. -/
theorem guarded_access : LF.checkAccess Facts.lockTab = true := by
  have h := lock_facts_checked
  simp only [Bool.and_eq_true] at h
  exact h.2

/-- `acyclic_no_deadlock` for the order the certificate induces: threads that acquire locks the way
the facts say (rank of everything held below the rank of the requested lock) cannot reach a lock-only
deadlock. -/
theorem facts_lockorder_no_deadlock (g : Guard) (s : LSys)
    (h : LReach (LF.rankLt Facts.lockTab) g s) : ¬ Deadlocked s :=
  acyclic_no_deadlock (LF.rankLt Facts.lockTab) (fun _ => Nat.lt_irrefl _)
    (fun _ _ _ h1 h2 => Nat.lt_trans h1 h2) g s h

/-! ## teardown protocol -/

/-- Every run of the protocol keeps the WaitGroup accounting (`statesWG` = number of sessions that
still owe a `Done`; every state ever created is either still counted or has notified), never touches
the database or the store after `user.close` closed them, and whoever notified the WaitGroup has
closed its state (after 0873710 on every path, also when the DB write of `removeState` fails). Hence
when `RemoveUser`/`Close` has returned successfully every state that was ever created has been closed
— with `state_close_consumer_exits`: no update-queue goroutine is left. For any number of sessions,
any interleaving of logins, logouts, disconnects, failures and `RemoveUser`/`Close`; no assumption. -/
theorem teardown_safe (n : Nat) (observes readFails writeFails connCloseFails : Bool) (steps : List TStep) :
    let s := (TState.init n observes readFails writeFails connCloseFails).run steps
    s.useAfterClose = false ∧ s.wg = s.sess.countP TState.owes ∧
    s.wg + s.dones = s.logins ∧ s.statesClosed = s.dones ∧
    (s.closer = .returned true → s.statesClosed = s.logins) := by
  intro s
  have h := tinv_run _ steps (tinv_init n observes readFails writeFails connCloseFails)
  refine ⟨h.noUse, h.wgEq, h.cntOk, h.closedOk, fun hr => ?_⟩
  have hz : s.wg = 0 := h.wgZero (by rw [hr]; rfl)
  have h1 : s.wg + s.dones = s.logins := h.cntOk
  have h2 : s.statesClosed = s.dones := h.closedOk
  omega

/-- `RemoveUser` / `Backend.Close` (hence `Server.Close`) return: from every reachable state in which
the closer holds `usersLock`, every maximal run reaches `returned` after finitely many steps and is
never stuck before, whatever the sessions do meanwhile (log out, disconnect, stay) and whichever of
the DB read / DB write of `removeState` or `connector.Close` fail. One named assumption:
`hObservesDone` — each session loop takes `case <-state.Done()` once it is closed. -/
theorem teardown_completes (n : Nat) (readFails writeFails connCloseFails : Bool) (steps : List TStep) :
    let hObservesDone := true
    let s := (TState.init n hObservesDone readFails writeFails connCloseFails).run steps
    closing s.closer = true → Completes s := by
  intro hO s hc
  have h := tinv_run _ steps (tinv_init n hO readFails writeFails connCloseFails)
  have cfg : ∀ (st : List TStep) (s0 : TState), (s0.run st).observes = s0.observes := by
    intro st
    induction st with
    | nil => intro s0; rfl
    | cons x xs ih =>
      intro s0
      have hx : (s0.step x).observes = s0.observes := by
        unfold TState.step; split
        · exact (cfg_apply s0 x).1
        · rfl
      simpa [TState.run] using (ih (s0.step x)).trans hx
  exact completes_of_measure _ s (Nat.le_refl _) h (Or.inl hc) (by rw [cfg]; rfl)

/-- REGRESSION for the repaired hang (630a898): one logged-in session, the context passed to
`Server.Serve` is cancelled, the session ends, the DB read at the top of `removeState` fails (and the
DB write after it as well); then `Close` up to `statesWG.Wait()` -/
def ctxCancelRun : TState :=
  (TState.init 1 true true true false).run
    [.login 0, .leave 0, .readFail 0, .beginClose, .closeQuit, .updaterExit, .updaterWaited, .connOk, .signalAll]

/-- The run that used to hang now completes: the failed read no longer skips `statesWG.Done()`;
`Close` returns (concretely: `lockDelete`, failing write, then the closer's remaining steps). -/
theorem teardown_ctxcancel_now_completes :
    ctxCancelRun.closer = .waitStates ∧ Completes ctxCancelRun ∧
    (ctxCancelRun.run [.lockDelete 0, .finishFail 0, .waitDone, .storeClosed, .dbClosed]).closer = .returned true := by
  refine ⟨by decide, ?_, by decide⟩
  exact teardown_completes 1 true true false _ (by decide)

/-- REGRESSION for #13d (repaired by 0873710): in that same run the DB write of `removeState` fails
too (`context canceled`); `removeState` now closes the state before returning the error: `Close`
returns, the WaitGroup is at zero and the one state that was created has been closed. -/
theorem teardown_writefail_now_clean :
    let s := ctxCancelRun.run [.lockDelete 0, .finishFail 0, .waitDone, .storeClosed, .dbClosed]
    s.closer = .returned true ∧ s.wg = 0 ∧ s.logins = 1 ∧ s.statesClosed = 1 := by decide

/-- one logged-in session that never looks at `Done` (and does not leave by itself); then `Close` -/
def noObserve : TState :=
  (TState.init 1 false false false false).run
    [.login 0, .beginClose, .closeQuit, .updaterExit, .updaterWaited, .connOk, .signalAll]

/-- The assumption `hObservesDone` is needed: a session whose loop does not observe `Done` (stuck in
a command, say) leaves the closer in `statesWG.Wait()` with no step that must happen. -/
theorem teardown_stuck_without_observe_witness :
    noObserve.closer = .waitStates ∧ (∀ st, st.must = true → noObserve.enabled st = false) ∧
    ¬ Completes noObserve := by
  have hs : ∀ i, noObserve.sessAt i = if i = 0 then .running else .gone := by
    intro i
    have : noObserve.sess = [.running] := by decide
    unfold TState.sessAt; rw [this]
    cases i <;> rfl
  have h1 : noObserve.closer = .waitStates := by decide
  have h2 : noObserve.wg = 1 := by decide
  have h3 : noObserve.updaterRunning = false := by decide
  have h4 : noObserve.observes = false := by decide
  have hstuck : ∀ st, st.must = true → noObserve.enabled st = false := by
    intro st hm
    cases st <;> simp [TStep.must] at hm <;> simp [TState.enabled, hs, h1, h2, h3, h4] <;>
      (try split) <;> simp
  refine ⟨h1, hstuck, ?_⟩
  intro hc
  cases hc with
  | done h => rw [h1] at h; cases h
  | step h _ => obtain ⟨st, hm, hen⟩ := h; rw [hstuck st hm] at hen; cases hen

/-! ## goroutines per command, per IDLE, per connection -/

/-- A command always runs to its end, whatever the client does. Regenerated facts: in `Session.serve`
the failed-`Send` branch of `for res := range respCh` starts a goroutine that keeps receiving until the
channel is closed, the command goroutine closes the channel by `defer`, the channel has 8 slots.
Model: for every channel capacity > 0, every number of responses, every interleaving of producers,
command goroutine and receiver, with a write failing at any point (any step sequence): from the state
reached there is a continuation of at most `measure` steps after which the command goroutine has finished
(`handleWG.Wait()` in `Session.Serve` returns, so `Session.done` releases the state and `RemoveUser` /
`Close` are not held up) and the receiver has gone too. Every enabled step uses up measure
(`cmd_progress`), so this is every maximal run, not a lucky one. -/
theorem command_drained_completes :
    Facts.sendFailDrains = some true ∧ Facts.commandClosesRespCh = some true ∧ Facts.respChCap = some 8 ∧
    ∀ (cap n : Nat) (steps : List CmdStep), 0 < cap →
      let s := (CmdState.init cap n true).run steps
      (¬ s.done → ∃ st, (s.step st).measure < s.measure) ∧
      ∃ more : List CmdStep, more.length ≤ s.measure ∧ (s.run more).done := by
  refine ⟨by decide, by decide, by decide, ?_⟩
  intro cap n steps hcap s
  have inv : CmdInv s := cmdinv_run _ steps (cmdinv_init cap n hcap)
  exact ⟨cmd_progress s inv, cmd_finishes_aux s.measure s inv (Nat.le_refl _)⟩

/-- Why the drain is needed (what a `cancel()` in its place does not give, the producers' sends being
plain `ch <- response`): once nothing receives and more responses are outstanding than the channel
takes, the command goroutine never finishes, on any continuation - `Session.Serve` stays in
`handleWG.Wait()`, the state is never released, `RemoveUser` / `Close` never return. -/
theorem command_undrained_stuck (s : CmdState) (steps : List CmdStep) (hgone : s.consumer = .gone)
    (hopen : s.closed = false) (hmany : s.cap < s.toProduce + s.buf) (hbuf : s.buf ≤ s.cap) :
    (s.run steps).closed = false ∧ 0 < (s.run steps).toProduce :=
  cmd_stuck_run s steps hgone hopen hmany hbuf

/-- ... and such a state is reached as soon as one write fails early in a command with more than
capacity + 1 responses (8 slots, 10 responses, the first write fails). -/
theorem command_undrained_stuck_witness :
    let s := (CmdState.init 8 10 false).run [.push, .recv true]
    s.consumer = .gone ∧ ∀ steps, (s.run steps).closed = false ∧ 0 < (s.run steps).toProduce := by
  intro s
  refine ⟨by decide, fun steps => ?_⟩
  exact cmd_stuck_run s steps (by decide) (by decide) (by decide) (by decide)

/-- IDLE leaves no goroutine behind, however it ends. Regenerated facts: `State.Idle` is
`beginIdle; if err return; defer endIdle(); fn(.., idleCh)` with no other `endIdle`; `endIdle` closes
`idleCh`; every branch of the forwarder goroutine (started by the first statement of the callback) ends
when its channel is closed. Model: for every interleaving and every result of the callback (nil after
DONE, an error after a malformed line / a cancelled context / a failed write): once `Idle` has returned,
the forwarder is at most one own step from its exit. -/
theorem idle_forwarder_exits :
    Facts.idleEndDeferred = some true ∧ Facts.endIdleClosesCh = some true ∧
    Facts.idleForwarderStopsOnClose = some true ∧
    ∀ steps : List IdleStep,
      let s := (IdleState.init true).run steps
      s.returned = true → (s.run [.fwdPoll]).fwd = .exited ∨ s.fwd = .exited := by
  refine ⟨by decide, by decide, by decide, ?_⟩
  intro steps s hret
  obtain ⟨_, h⟩ := idle_deferred_inv steps
  obtain ⟨hcl, hns⟩ := h hret
  cases hf : s.fwd with
  | notStarted => exact absurd hf hns
  | exited => exact Or.inr rfl
  | running =>
    left
    have hcl' : s.chClosed = true := hcl
    simp [IdleState.run, IdleState.step, hf, hcl']

/-- Why the `defer` is needed: with `endIdle()` only behind the error check, an IDLE that ends with an
error (malformed line) leaves its forwarder running for ever - past the session, `RemoveUser` and
`Server.Close`. -/
theorem idle_not_deferred_leak_witness :
    let s := (IdleState.init false).run [.start, .fnReturn true]
    s.returned = true ∧ ∀ steps, (s.run steps).fwd = .running := by
  intro s
  refine ⟨by decide, fun steps => ?_⟩
  have hfix : ∀ st, s.step st = s := by
    intro st
    cases st with
    | start => decide
    | fwdPoll => decide
    | fnReturn err => cases err <;> decide
  rw [idle_fixed_run s steps hfix]
  decide

/-- The goroutine starts of internal/session and internal/state are exactly the four the models and the
teardown model speak about (forwarder, command goroutine, drainer, command reader): a new `go` /
`async.Go*` / `WaitGroup.Go` there, or a lost one, breaks this theorem until it has a stop obligation.
The command reader stops (serve defers `cancel()`, the reader's hand-over selects on `ctx.Done()`,
`Session.done` closes the connection) and `Session.Serve` defers `done` and `handleWG.Wait()`. -/
theorem session_goroutines_classified :
    Facts.unknownSpawns = [] ∧ Facts.missingSpawns = [] ∧ Facts.sessionSpawns.length = 4 ∧
    Facts.readerStops = some true ∧ Facts.serveDefersDoneAndWait = some true := by
  decide

/-- The long-lived goroutines of internal/backend are exactly the update injector's forwarder and the
user's update goroutine, and EVERY blocking channel send / receive reachable from their bodies (helper
methods such as `updateInjector.send` included) sits in a `select` that also has a returning case on
the goroutine's own quit channel - the field its `Close` / `close` closes (`forwardQuitCh`,
`updateQuitCh`). A case on `ctx.Done()` does not count: both goroutines run on `context.Background()`.
A new goroutine, an unreadable one, a bare send or a select without the quit case breaks this theorem. -/
theorem backend_loops_watch_quit :
    Facts.backendLoopsUnknown = [] ∧
    Facts.backendLoops = ["internal/backend/update_injector.go:newUpdateInjector:async.GoAnnotated",
      "internal/backend/user.go:newUser:async.GoAnnotated"] ∧
    loopWatched Facts.backendLoopOps "internal/backend/update_injector.go:newUpdateInjector:async.GoAnnotated" "forwardQuitCh" = true ∧
    loopWatched Facts.backendLoopOps "internal/backend/user.go:newUser:async.GoAnnotated" "updateQuitCh" = true ∧
    Facts.backendLoopOps.all (fun o => o.2.2.2) = true := by
  decide

/-- `updateInjector.Close` - hence `user.close`, `RemoveUser`, `Server.Close` - returns while connector
updates are in flight. The model's forwarder watches `forwardQuitCh` in its selects exactly as far as the
regenerated facts say (`loopWatched`). For every interleaving of connector publishes, deliveries and the
teardown steps in `user.close`'s order (the reader of `updatesCh` is stopped FIRST): once `forwardQuitCh`
is closed, the forwarder is one own step from its exit whatever it holds, and `forwardWG.Wait()` returns. -/
theorem forwarder_close_returns :
    ∀ steps : List InjStep,
      let w := loopWatched Facts.backendLoopOps "internal/backend/update_injector.go:newUpdateInjector:async.GoAnnotated" "forwardQuitCh"
      let s := (InjState.init w w).run steps
      s.quit = true → (s.run [.fwdPoll, .waitReturn]).closeReturned = true := by
  intro steps w s hq
  have hw : w = true := by decide
  obtain ⟨ho, hi⟩ := inj_cfg_run (InjState.init w w) steps
  have ho' : s.watchOuter = true := by rw [show s.watchOuter = w from ho, hw]
  have hi' : s.watchInner = true := by rw [show s.watchInner = w from hi, hw]
  cases hf : s.fwd <;> simp [InjState.run, InjState.step, hf, hq, ho', hi']

/-- Why the hand-over select must watch `forwardQuitCh` (and `ctx.Done()` of a background context is no
substitute): the connector publishes one update, `user.close` stops the update goroutine, then closes the
injector - the forwarder holds the update with no receiver left, and no step ever lets `Close` return. -/
theorem forwarder_unwatched_send_stuck_witness :
    let s := (InjState.init true false).run [.publish, .closeReaderQuit, .readerPoll, .closeQuit]
    s.quit = true ∧ ∀ steps, (s.run steps).fwd = .holding ∧ (s.run steps).closeReturned = false := by
  intro s
  refine ⟨by decide, fun steps => ?_⟩
  have hfix : ∀ st, s.step st = s := by
    intro st
    cases st <;> decide
  rw [inj_fixed_run s steps hfix]
  decide

/-! ## non-vacuity -/

/-- a run that exercises the queue: two racing producers, a reader, CloseAndDiscardQueued -/
example :
    let s := (QState.init 1 : QState Nat).run
      [.enqCheck [1, 2], .enqCheck [3], .enqAppend 1, .enqAppend 0, .consume, .consume, .consume,
       .recv, .stop, .closeStore, .closeBcast, .consumeStop]
    s.accepted = [3, 1, 2] ∧ s.received = [3] ∧ s.dropped = [1] ∧ s.items = [2] ∧ s.consumer = .exited := by
  decide

/-- the hypotheses of `queue_close_blocks_without_reader` hold in `leakState` -/
example : leakState.buf.length ≤ leakState.cap ∧ leakState.stopped = false ∧
    leakState.consumer ≠ .exited ∧ leakState.cap < leakState.load := by decide

/-- with a reader the same queue drains and the consumer exits (33 items, buffer 32) -/
example : (leakState.run ((List.replicate 40 [QStep.consume, .consume, .recv]).flatten)).consumer = .exited ∧
    (leakState.run ((List.replicate 40 [QStep.consume, .consume, .recv]).flatten)).received = List.range 33 := by
  decide +kernel

/-- the lock semantics is not empty: two threads, a reader and a writer of lock 1 after lock 0 -/
example : ∃ s, LReach (· < ·) (fun _ => some 1) s ∧ (s 0).held = [(1, Mode.w), (0, Mode.r)] ∧
    (s 0).acc = some (7, AKind.write) := by
  let s0 := LSys.init
  let s1 := s0.set 0 { s0 0 with want := some (0, Mode.r) }
  let s2 := s1.set 0 { s1 0 with want := none, held := (0, Mode.r) :: (s1 0).held }
  let s3 := s2.set 0 { s2 0 with want := some (1, Mode.w) }
  let s4 := s3.set 0 { s3 0 with want := none, held := (1, Mode.w) :: (s3 0).held }
  let s5 := s4.set 0 { s4 0 with acc := some (7, AKind.write) }
  have r1 : LReach (· < ·) (fun _ => some 1) s1 :=
    .step .init (.request s0 0 0 .r rfl (by intro h hh; simp [s0, LSys.init] at hh))
  have r2 : LReach (· < ·) (fun _ => some 1) s2 :=
    .step r1 (.grant s1 0 0 .r (by simp [s1, LSys.set]) (by intro u hu; simp [s1, s0, LSys.set, LSys.init, hu]))
  have r3 : LReach (· < ·) (fun _ => some 1) s3 :=
    .step r2 (.request s2 0 1 .w (by simp [s2, LSys.set]) (by
      intro h hh; simp [s2, s1, s0, LSys.set, LSys.init] at hh; subst hh; decide))
  have r4 : LReach (· < ·) (fun _ => some 1) s4 :=
    .step r3 (.grant s3 0 1 .w (by simp [s3, LSys.set]) (by
      intro u hu; simp [s3, s2, s1, s0, LSys.set, LSys.init, hu, holdsLock]))
  have r5 : LReach (· < ·) (fun _ => some 1) s5 :=
    .step r4 (.beginAcc s4 0 7 .write (by simp [s4, s3, s2, s1, s0, LSys.set, LSys.init]) (by
      simp [entitled, s4, LSys.set]))
  exact ⟨s5, r5, by simp [s5, s4, s3, s2, s1, s0, LSys.set, LSys.init], by simp [s5, LSys.set]⟩

/-- the facts table is not empty and contains the functions the property is anchored in -/
example : Facts.lockTab.fns.length > 100 ∧
    (Facts.fns.any fun f => f.name == "backend.user.removeState") = true ∧
    (Facts.fns.any fun f => f.name == "async.QueuedChannel.Enqueue") = true := by
  decide +kernel

/-- a teardown with three sessions in different phases completes (hypotheses of
`teardown_completes` are satisfiable by a non-trivial state) -/
example :
    let s := (TState.init 3 true true true false).run [.login 0, .login 1, .leave 1, .beginClose, .closeQuit]
    closing s.closer = true ∧ s.wg = 2 ∧ s.sess = [.running, .relRead, .preauth] := by decide

/-- a FETCH of 20 responses through 8 slots whose 3rd write fails: drained, the command goroutine finishes -/
example :
    let s := (CmdState.init 8 20 true).run
      ([.push, .push, .push, .recv false, .recv false, .recv true] ++
        (List.replicate 20 [CmdStep.push, .recv false]).flatten ++ [.close, .recv false])
    s.closed = true ∧ s.consumer = .finished ∧ s.toProduce = 0 ∧ s.buf = 0 := by decide +kernel

/-- the IDLE model takes both exits: DONE (nil) and a malformed line (error), forwarder gone in both -/
example : ((IdleState.init true).run [.start, .fnReturn false, .fwdPoll]).fwd = .exited ∧
    ((IdleState.init true).run [.start, .fnReturn true, .fwdPoll]).fwd = .exited ∧
    ((IdleState.init false).run [.start, .fnReturn false, .fwdPoll]).fwd = .exited := by decide

/-- the forwarder model delivers updates and takes both exits: idle at Close, and holding an update at Close -/
example : ((InjState.init true true).run [.publish, .deliver, .publish, .deliver, .closeReaderQuit, .readerPoll, .closeQuit, .fwdPoll, .waitReturn]).closeReturned = true ∧
    ((InjState.init true true).run [.publish, .deliver, .publish, .deliver]).delivered = 2 ∧
    ((InjState.init true true).run [.publish, .deliver, .publish, .closeReaderQuit, .readerPoll, .closeQuit, .fwdPoll, .waitReturn]).closeReturned = true ∧
    Facts.backendLoopOps.length ≥ 8 := by decide

end Gluon.C19
