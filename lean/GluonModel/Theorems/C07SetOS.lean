/-
C07, below the store interface — "Set returned nil ⇒ the bytes are durably in the file" as a NAMED hypothesis.

Every theorem of `Theorems/C07.lean` reads a `store.Set` that returned nil as `setOpen, setMid, setEnd`: the file is
complete.  `Model/CrashSetOS.lean` makes that reading explicit (`SetFaithful`) and this file shows

* with it, the execution with the REAL outcomes of the `Set` calls IS the model's (`real_is_model_partial`), so every
  listed message keeps its complete cache file through death at any boundary and restart
  (`listed_is_cached_real_partial`, from `listed_is_cached`);
* without it the property fails: an APPEND whose `Set` returned nil although the kernel had refused the writes (full
  disk, file left empty) is acknowledged, listed after the restart, and has no bytes
  (`listed_is_cached_needs_SetFaithful`).

Tie to the source: the oracle `c07os` runs APPEND / connector MessageCreated / MessagesCreated / MessageUpdated on the real
server with the real on-disk store while the kernel fails the writes of the cache file (/dev/full behind the file's path;
RLIMIT_FSIZE at the last byte, in the middle, inside the header), for cache files on both sides of 64 KiB and of the
store's block size; `judge-c07os` (Driver/DC07OS.lean) evaluates `SetFaithful` on what every real `Set` call returned and
left, and the conclusion (every listed message fetched with its exact bytes, live and after a restart with a connector
that serves nothing).
-/
import GluonModel.Model.CrashSetOS
import GluonModel.Theorems.C07

namespace Gluon.C07
open Gluon.Crash

theorem execReal_eq_exec (R : SetResults) (s : St) (st : Step)
    (h : ∀ id l, st = .setEnd id l → ∀ r, R id = some r → r.returnedNil = true ∧ SetFaithful l r) :
    execReal R s st = exec s st := by
  cases st with
  | setEnd id l =>
    simp only [execReal]
    cases hr : R id with
    | none => rfl
    | some r =>
      obtain ⟨hn, hf⟩ := h id l rfl r hr
      have := hf hn
      simp only [Store.afterSet, this, exec]
  | _ => rfl

theorem runReal_eq_run (R : SetResults) (steps : List Step) : ∀ (s : St), SetsFaithful R steps → runReal R steps s = run steps s := by
  induction steps with
  | nil => intro s _; rfl
  | cons st rest ih =>
    intro s h
    simp only [runReal, run, List.foldl_cons]
    rw [execReal_eq_exec R s st (fun id l e r hr => h id l (by rw [e]; exact List.mem_cons_self) r hr)]
    exact ih (exec s st) (fun id l hm r hr => h id l (List.mem_cons_of_mem _ hm) r hr)

/-- **With `SetFaithful`, what really happened is what the model says** — for every step list, every boundary and
    every outcome of the real `Set` calls the operation went on after: the durable state after death at boundary `i` is
    the model's.  (`_partial`: `SetsFaithful`.) -/
theorem real_is_model_partial (R : SetResults) (steps : List Step) (s : St) (i : Nat) (hF : SetsFaithful R steps) :
    crashAfterReal R i steps s = crashAfter i steps s := by
  unfold crashAfterReal crashAfter
  rw [runReal_eq_run R (steps.take i) s (fun id l hm r hr => hF id l (List.mem_of_mem_take hm) r hr)]

/-- **Every listed message keeps its complete cache file, whatever the operating system did to the writes** — for an
    operation that keeps the store discipline, death at any boundary, restart: provided every `Set` the operation went on
    after was faithful.  (`_partial`: `SetsFaithful`; false without it: `listed_is_cached_needs_SetFaithful`.) -/
theorem listed_is_cached_real_partial (R : SetResults) (steps : List Step) (s : St) (i : Nat) (hF : SetsFaithful R steps)
    (hdisc : disciplined steps [] = true) (hfresh : FreshNew s) (htx : s.tx = none) (hinv : AllCached s) :
    AllCached (recover (crashAfterReal R i steps s)) := by
  rw [real_is_model_partial R steps s i hF]
  exact listed_is_cached steps s i hdisc hfresh htx hinv

/-- … in particular for every modelled operation instance -/
theorem listed_is_cached_real_ops (R : SetResults) (o : String × Nat) (ho : o ∈ modelled) (hne : o.1 ≠ "redownload") (s : St)
    (i : Nat) (hF : SetsFaithful R (stepsOf! o)) (hfresh : FreshNew s) (htx : s.tx = none) (hinv : AllCached s) :
    AllCached (recover (crashAfterReal R i (stepsOf! o) s)) := by
  rw [real_is_model_partial R _ s i hF]
  exact listed_is_cached_ops o ho hne s i hfresh htx hinv

/-- a `Set` that returned nil although the kernel refused every write: the file is there (open(2) succeeded) and empty -/
def swallowed : SetResults := fun id => if id = .new 1 then some { returnedNil := true, file := some .partialF } else none

/-- **`SetFaithful` is needed** — APPEND on a full disk with a store that swallows the write error: `Set` returns nil, the
    row is committed, the command runs to its end (OK); after the restart the message is listed (its row is there), its
    cache file is not complete, and `swallowed` is indeed not faithful.  The acknowledged state is NOT fetchable from the
    cache — with a connector that cannot serve the literal again the bytes are gone. -/
theorem listed_is_cached_needs_SetFaithful :
    let steps := stepsOf! ("append", 0)
    let s' := recover (crashAfterReal swallowed steps.length steps sample)
    AllCached (recover sample) ∧ disciplined steps [] = true ∧
      s'.db.hasRow (.new 1) = true ∧ s'.store (.new 1) = some .partialF ∧ ¬ AllCached s' ∧
      ¬ SetFaithful (litOf (.new 1)) { returnedNil := true, file := some .partialF } := by
  decide

/-- the hypothesis is satisfiable, and by BOTH honest outcomes: a complete file with nil, an error with whatever is left -/
example : SetFaithful 5 { returnedNil := true, file := some (.complete 5) } ∧
    SetFaithful 5 { returnedNil := false, file := some .partialF } ∧ SetFaithful 5 { returnedNil := false, file := none } := by
  decide

/-- with a faithful outcome the same APPEND leaves the message cached -/
example :
    let R : SetResults := fun id => if id = .new 1 then some { returnedNil := true, file := some (.complete (litOf (.new 1))) } else none
    let steps := stepsOf! ("append", 0)
    AllCached (recover (crashAfterReal R steps.length steps (recover sample))) := by
  decide

end Gluon.C07
