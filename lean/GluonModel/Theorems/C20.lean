/-
C20 — A message handed to APPEND is never silently lost.

Property theorems only; helper lemmas live in `GluonModel/Lemmas/Append*.lean`, the vocabulary
(`Holds`, `inRecovery`, `OkVia`, the named hypotheses) in `GluonModel/Spec/AppendSpec.lean`.
Model: `GluonModel/Model/Append.lean` — `handleAppend` / `Mailbox.Append` / `AppendRegular`, the
actions behind APPEND, COPY, MOVE and EXPUNGE, `MessageHashesMap`, the recovery-mailbox rules of
`State.Create/Delete/Rename/List`, `stateDBWrite` as database rollback, and `newUser`'s rebuild of
the hash map; the connector, the message store and the database insert fail on an arbitrary script
(`Script`).  `Reachable H s`: `s` is reached from a fresh user under *some* script by *some*
sequence of commands (APPEND — also of the same bytes again —, COPY, MOVE, EXPUNGE, CREATE,
DELETE, RENAME, LIST, restart), so a theorem about reachable states is a statement "for every
pattern of remote failures across every command sequence".  `H` is the content hash as an arbitrary
function of the hashed part of a literal.  The model is tied to the real server by the oracle
`c20append` (harness/o_append.go), which runs generated sequences with a failing connector and
compares every answer and every mailbox with `Gluon.Append.run`.

What is partial, and why (each with a witness below, replayed on the real server, corpus/C20):
* OK ⇒ exact bytes holds unless the literal carries the X-Pm-Gluon-Id of a live message
  (`ok_exact_needs_no_gluon_id`);
* rejected ⇒ kept in "Recovered Messages" needs `NoStorageFaultAfterHashInsert` (#19: the hash is
  inserted before the store and database writes succeed), and "kept, as this very message" needs
  `HashInjectiveOn` (the hash ignores Date, Message-Id, …: a different message is dropped as known);
* at most once needs `NoFaultAfterHashErase` (MOVE out of the recovery mailbox erases the hashes
  before the destination is written), and speaks about hashable literals only: a literal whose
  hash cannot be computed (`Lit.hashOk = false`, `leavesHashOk`) is kept on EVERY rejection
  (`append_reject_unhashable_recovered`, `unhashable_recovered_each_time`).

Message shapes.  `Lit.hashOk` is what `rfc822.GetMessageHash` answers; `Model/Append.lean`
(`Leaf.hashOk`, `leavesHashOk`) says when it fails, the oracle compares that with the real function
on one literal per MIME shape (`c20-shape`), and sends every shape through the rejection path.
-/
import GluonModel.Lemmas.AppendCan
import GluonModel.Generated.Facts.Append

namespace Gluon.C20

open Gluon Gluon.Append

/-! ## the source the model was written for -/

/-- **The facts regenerated from /repo's source are the ones the model assumes**: the recovery
    mailbox names; `GetMessageHash` reads neither Date nor Message-Id; `actionCreateRecoveredMessage`
    inserts the hash before the store and database writes (#19, `storeRecovered` after `hmInsert` in
    the model); MOVE out of the recovery mailbox erases the hashes before writing the destination;
    the expunge path erases before removing; which functions guard the name and how; size is the
    only error `Mailbox.Append` exempts from the recovery insert; which connector-update handlers
    refuse the recovery mailbox's ID (that protection "by remote ID" is tracked here, not modelled); the
    control-flow skeleton of the recovery path (which errors are swallowed, no shortcut in the import
    loops, no rewriting of a guarded name).  A source change that touches any
    of these changes `Generated/Facts/Append.lean` and breaks this theorem: the model has to be
    looked at again. -/
theorem source_facts_today :
    Facts.Append.recoveryMailboxName = recName ∧ Facts.Append.recoveryMailboxNameLower = recNameLower ∧
    Facts.Append.internalIDKey = "X-Pm-Gluon-Id" ∧
    Facts.Append.hashedHeaderFields = ["Subject", "From", "To", "Cc", "Reply-To", "In-Reply-To", "Content-Type",
      "Content-Disposition", "Content-Transfer-Encoding"] ∧
    "Date" ∉ Facts.Append.hashedHeaderFields ∧ "Message-Id" ∉ Facts.Append.hashedHeaderFields ∧
    Facts.Append.createRecoveredCalls = ["NewParsedMessage", "Insert", "SetUnchecked", "CreateMessageAndAddToMailbox"] ∧
    Facts.Append.createMessageCalls = ["CreateMessage", "GetMessageIDFromRemoteID", "actionAddMessagesToMailbox",
      "NewParsedMessage", "SetUnchecked", "CreateMessageAndAddToMailbox"] ∧
    Facts.Append.moveOutCalls = ["actionImportRecoveredMessage", "MarkMessageAsDeleted", "RemoveMessagesFromMailbox", "Erase",
      "actionAddRecoveredMessagesToMailbox"] ∧
    Facts.Append.copyOutCalls = ["actionImportRecoveredMessage", "actionAddRecoveredMessagesToMailbox"] ∧
    Facts.Append.removeUncheckedCalls = ["RemoveMessagesFromMailbox", "Erase", "RemoveMessagesFromMailbox"] ∧
    Facts.Append.recoveryNameGuards = [("Mailbox.Copy", "EqualFold"), ("Mailbox.Move", "EqualFold"),
      ("State.AppendOnlyMailbox", "EqualFold"), ("State.Create", "HasPrefix-ToLower"), ("State.Delete", "EqualFold"),
      ("State.Rename", "EqualFold"), ("State.Rename", "EqualFold")] ∧
    Facts.Append.appendExemptErrors = ["connector.ErrMessageSizeExceedsLimits"] ∧
    Facts.Append.backendRecoveryGuards = ["DBIMAPStateWrite.CreateMailbox", "user.applyMailboxCreated",
      "user.applyMailboxDeleted", "user.applyMailboxIDChanged", "user.applyMailboxUpdated",
      "user.applyMessageMailboxesUpdated", "user.applyMessagesCreated"] ∧
    -- the control flow the model transcribes: the error of `Insert` is not returned (`err == nil && alreadyKnown` is the
    -- only test on it: an unhashable literal is stored anyway, `actionCreateRecovered`); the import loops of COPY / MOVE
    -- out have no `continue` (a de-duplicated message is handed to `actionAddRecoveredMessagesToMailbox` like any other,
    -- `importAll` / `addRecovered`); `State.Delete` does not rewrite the name it has guarded
    Facts.Append.controlSkeleton = [
      ("State.actionCreateRecoveredMessage", ["if err != nil", "if err == nil && alreadyKnown", "if err != nil", "if err != nil"]),
      ("State.actionImportRecoveredMessage", ["if err != nil", "if err != nil", "if err != nil",
        "if err != nil && !db.IsErrNotFound(err)", "if err == nil", "if err != nil", "if err != nil", "if err != nil", "if err != nil"]),
      ("State.actionCopyMessagesOutOfRecoveryMailbox", ["for", "if err != nil", "if err != nil"]),
      ("State.actionMoveMessagesOutOfRecoveryMailbox", ["for", "if err != nil", "if !deduped", "if err != nil", "if err != nil", "if err != nil"]),
      ("State.actionAddRecoveredMessagesToMailbox", ["if err != nil", "if err != nil"]),
      ("State.Delete", ["if strings.EqualFold(name, ids.GluonRecoveryMailboxName)", "if err != nil",
        "if errors.Is(err, db.ErrNotFound)", "if err != nil", "if err != nil"])] := by
  decide

/-! ## OK ⇒ present under the announced UID -/

/-- **An APPEND answered OK [APPENDUID v uid] leaves a message under `uid` in the target
    mailbox** — for every state (reachable or not), every script, every literal. -/
theorem append_ok_present (H : Nat → Nat) (s s' : St) (n : String) (l : Lit) (uid : Nat)
    (h : append H s n l = (.ok uid, s')) :
    ∃ b id, getBox s'.db n = some b ∧ (uid, id) ∈ b.msgs :=
  append_ok h

/-- **Which message that is** — the complete case analysis: the bytes handed over were written
    in this step (`OkVia.stored`, with gluon's own X-Pm-Gluon-Id line), or the literal carried the
    X-Pm-Gluon-Id of a live message and *that* message was put there (`gluonId`), or the connector
    answered with a remote ID the database already knows (`remoteDup`). -/
theorem append_ok_via (H : Nat → Nat) (s s' : St) (n : String) (l : Lit) (uid : Nat)
    (h : append H s n l = (.ok uid, s')) : OkVia s s' n l uid :=
  append_via h

/-- **OK ⇒ the bytes handed over are under the announced UID** (up to the X-Pm-Gluon-Id line) —
    if the literal carries no X-Pm-Gluon-Id header, the connector does not report a duplicate, and
    the connector's next remote ID is new to the database (`IdsFresh`: UUIDs do not collide). -/
theorem append_ok_exact (H : Nat → Nat) (s s' : St) (n : String) (l : Lit) (uid : Nat)
    (h : append H s n l = (.ok uid, s')) (hg : l.gid = .none) (hd : s.sc.create.head? ≠ some .dup)
    (hf : IdsFresh s) : ∃ l0, l0.sameBytes l ∧ Holds s' n uid l0 := by
  cases append_via h with
  | stored l0 hb hh => exact ⟨l0, hb, hh⟩
  | gluonId g hg' _ _ => rw [hg] at hg'; cases hg'
  | remoteDup known rid hk hrid _ =>
    rcases hrid with e | ⟨e, _⟩
    · rw [e, hf.1] at hk; cases hk
    · exact absurd e hd

/-- the X-Pm-Gluon-Id hypothesis of `append_ok_exact` is needed: a client that appends an edited
    copy of a message it fetched (the fetched bytes carry the header) is answered OK, and the UID
    it is told holds the *old* message; the edited bytes are nowhere.
    Replayed on the real server: corpus/C20/gluon-id-copy.txt. -/
theorem ok_exact_needs_no_gluon_id :
    let old : Lit := { hv := 1, uv := 1 }
    let edited : Lit := { hv := 2, uv := 2, gid := .id 0 }
    let r := run id (init {}) [.append "INBOX" old, .append "INBOX" edited]
    r.1 = [.append (.ok 1), .append (.ok 2)] ∧
    (getBox r.2.db "INBOX").map (·.msgs) = some [(2, 0)] ∧ r.2.store.lookup 0 = some { old with gid := .id 0 } ∧
    r.2.store.all (fun p => p.2.hv != 2) = true := by
  decide

/-! ## rejected ⇒ kept in "Recovered Messages" -/

/-- **An APPEND the mailbox refused for a reason other than size leaves a message with the same
    content hash in the recovery mailbox** — for every reachable state, hence every failure script
    and every history (including earlier APPENDs of the same bytes), provided the literal can be
    parsed and hashed and no store/database write failed after a hash insert (#19).  The message
    found is the one handed over or one that was there before. -/
theorem append_reject_recovered_partial (H : Nat → Nat) (s s' : St) (n : String) (l : Lit) (e : Err) (known : Bool)
    (hr : Reachable H s) (h : append H s n l = (.rejected e known, s')) (hd : Digestible l)
    (hs : NoStorageFaultAfterHashInsert s') :
    ∃ l', inRecovery s' l' = true ∧ H l'.hv = H l.hv ∧ (l' = l ∨ l' ∈ recLits s) :=
  reject_recovered_partial (reachable_inv hr) h hd hs

/-- **… and it is this very message, byte for byte**, if in addition the hash tells the handed
    message apart from the ones already recovered (`HashInjectiveOn`). -/
theorem append_reject_recovered (H : Nat → Nat) (s s' : St) (n : String) (l : Lit) (e : Err) (known : Bool)
    (hr : Reachable H s) (h : append H s n l = (.rejected e known, s')) (hd : Digestible l)
    (hs : NoStorageFaultAfterHashInsert s') (hi : HashInjectiveOn H (l :: recLits s)) :
    inRecovery s' l = true := by
  obtain ⟨l', h1, h2, h3⟩ := append_reject_recovered_partial H s s' n l e known hr h hd hs
  rcases h3 with rfl | h3
  · exact h1
  · have := hi l' (List.mem_cons_of_mem _ h3) l List.mem_cons_self h2
    rw [← this]; exact h1

/-- **… and also when the content hash cannot be computed** (`l.hashOk = false`: some text part
    declares base64 / quoted-printable and its body does not decode — such a literal passes
    `rfcvalidation` and `imap.NewParsedMessage`): `actionCreateRecoveredMessage` ignores the error
    of `MessageHashesMap.Insert` and stores the message without a hash.  For every state and script:
    a rejected, parsable, unhashable message is never answered "known", and it is in the recovery
    mailbox afterwards as this very message — unless the recovery insert's own store / database
    write failed (which `Mailbox.Append` only logs).  Together with `append_reject_recovered` this
    is "rejected ⇒ recovered" for every message shape. -/
theorem append_reject_unhashable_recovered (H : Nat → Nat) (s s' : St) (n : String) (l : Lit) (e : Err) (known : Bool)
    (h : append H s n l = (.rejected e known, s')) (hp : l.parseOk = true) (hh : l.hashOk = false) :
    known = false ∧ (inRecovery s' l = true ∨
      ∃ x e2, appendRegular s n l = (.error e, x) ∧ (withTx x (fun s => actionCreateRecovered H s l)).1 = .error e2) :=
  reject_unhashable h hp hh

/-- which literals cannot be hashed: exactly those with a text leaf whose declared base64 /
    quoted-printable body does not decode; a broken body under any other type or encoding is hashed
    as it is -/
theorem unhashable_iff (ps : List Leaf) :
    leavesHashOk ps = false ↔ ∃ p ∈ ps, p.text = true ∧ (p.cte = .base64 ∨ p.cte = .qp) ∧ p.decodes = false := by
  induction ps with
  | nil => simp [leavesHashOk]
  | cons p r ih =>
    have hc : leavesHashOk (p :: r) = (p.hashOk && leavesHashOk r) := by simp [leavesHashOk]
    rw [hc, Bool.and_eq_false_iff, ih]
    have hp : p.hashOk = false ↔ (p.text = true ∧ (p.cte = .base64 ∨ p.cte = .qp) ∧ p.decodes = false) := by
      unfold Leaf.hashOk
      cases p.text <;> cases p.decodes <;> cases p.cte <;> simp
    rw [hp]
    constructor
    · rintro (h | ⟨q, hq, h⟩)
      · exact ⟨p, List.mem_cons_self, h⟩
      · exact ⟨q, List.mem_cons_of_mem _ hq, h⟩
    · rintro ⟨q, hq, h⟩
      rcases List.mem_cons.mp hq with rfl | hq
      · exact Or.inl h
      · exact Or.inr ⟨q, hq, h⟩

/-- an unhashable message is recovered on every rejection (there is no hash to recognise it by):
    the same bytes rejected twice are in the recovery mailbox twice; the hash map stays empty, also
    across a restart.  Replayed on the real server: corpus/C20/unhashable.txt. -/
theorem unhashable_recovered_each_time :
    let m : Lit := { hv := 201, uv := 1, hashOk := false }
    let r := run id (init { create := [.fail, .fail, .ok, .fail] })
      [.append "INBOX" m, .append "INBOX" m, .restart, .append "INBOX" m, .append "INBOX" m]
    r.1 = [.append (.rejected .remote false), .append (.rejected .remote false), .done, .append (.ok 1),
           .append (.rejected .remote false)] ∧
    recLits r.2 = [m, m, m] ∧ r.2.hashes = [] ∧ r.2.staleHash = false := by
  decide

/-- the storage proviso of `append_reject_unhashable_recovered` is needed: when the store write of
    the recovery insert fails the message is nowhere (and, unlike #19, nothing remembers it). -/
theorem unhashable_needs_storage :
    let m : Lit := { hv := 201, uv := 1, hashOk := false }
    let r := run id (init { create := [.fail], storeSet := [true] }) [.append "INBOX" m]
    r.1 = [.append (.rejected .remote false)] ∧ recMsgs r.2 = [] ∧ r.2.staleHash = false := by
  decide

/-- **Once per distinct content hash**: two entries of the recovery mailbox whose (hashable)
    literals have the same hash are the same entry — in every reachable state in which no
    transaction rolled back after erasing a hash. -/
theorem recovery_once_per_hash (H : Nat → Nat) (s : St) (hr : Reachable H s) (hl : NoFaultAfterHashErase s)
    (p q : Nat × Nat) (hp : p ∈ recMsgs s) (hq : q ∈ recMsgs s) (lp lq : Lit)
    (h1 : s.store.lookup p.2 = some lp) (h2 : s.store.lookup q.2 = some lq) (o1 : lp.hashOk = true) (o2 : lq.hashOk = true)
    (e : H lp.hv = H lq.hv) : p = q :=
  Append.recovery_once_per_hash (reachable_inv hr) hl p q hp hq lp lq h1 h2 o1 o2 e

/-- **The bytes of every message in the recovery mailbox are in the store**, in every reachable
    state (the literal is written before the database row; rollback does not remove it). -/
theorem recovery_bytes_kept (H : Nat → Nat) (s : St) (hr : Reachable H s) (p : Nat × Nat) (hp : p ∈ recMsgs s) :
    ∃ l, s.store.lookup p.2 = some l :=
  (reachable_inv hr).stored p hp

/-- `HashInjectiveOn` is needed: the hash reads neither Date nor Message-Id, so the second of two
    messages that differ only there is answered "known recovered message" and dropped.
    Replayed on the real server: corpus/C20/near-duplicate.txt. -/
theorem reject_needs_hash_injective :
    let m1 : Lit := { hv := 1, uv := 1 }
    let m2 : Lit := { hv := 1, uv := 2 }
    let r := run id (init { create := [.fail, .fail] }) [.append "INBOX" m1, .append "INBOX" m2]
    r.1 = [.append (.rejected .remote false), .append (.rejected .remote true)] ∧
    inRecovery r.2 m2 = false ∧ r.2.staleHash = false ∧ recLits r.2 = [m1] := by
  decide

/-- `NoStorageFaultAfterHashInsert` is needed (#19): the store write of the recovery insert fails
    after the hash went into the map; the same bytes appended again are answered "known recovered
    message" although the recovery mailbox is empty.  A restart forgets the stale hash.
    Replayed on the real server: corpus/C20/stale-hash.txt. -/
theorem reject_needs_no_storage_fault :
    let m : Lit := { hv := 1, uv := 1 }
    let r := run id (init { create := [.fail, .fail, .fail], storeSet := [true] })
      [.append "INBOX" m, .append "INBOX" m, .restart, .append "INBOX" m]
    r.1 = [.append (.rejected .remote false), .append (.rejected .remote true), .done, .append (.rejected .remote false)] ∧
    inRecovery (run id (init { create := [.fail, .fail], storeSet := [true] }) [.append "INBOX" m, .append "INBOX" m]).2 m = false ∧
    inRecovery r.2 m = true := by
  decide

/-- `NoFaultAfterHashErase` is needed: a MOVE out of the recovery mailbox whose remote "add" call
    fails is rolled back, but the hash is already erased — the next rejected APPEND of the same
    bytes is stored a second time.  Replayed on the real server: corpus/C20/erased-hash.txt. -/
theorem once_needs_no_fault_after_erase :
    let m : Lit := { hv := 1, uv := 1 }
    let r := run id (init { create := [.fail, .ok, .fail], add := [.fail] })
      [.append "INBOX" m, .move recName [1] "INBOX", .append "INBOX" m]
    r.1 = [.append (.rejected .remote false), .copy (.no .remote), .append (.rejected .remote false)] ∧
    recLits r.2 = [m, m] ∧ r.2.lostHash = true := by
  decide

/-- `Digestible` is needed: a literal `imap.NewParsedMessage` rejects is not kept. -/
theorem reject_needs_parsable :
    let m : Lit := { hv := 1, uv := 1, parseOk := false }
    let r := run id (init { create := [.fail] }) [.append "INBOX" m]
    r.1 = [.append (.rejected .remote false)] ∧ recMsgs r.2 = [] := by
  decide

/-- not only remote rejections end in the recovery mailbox: an APPEND refused because the
    mailbox is full (`limits.ErrMaxMailboxMessageCountReached`, answered NO) is stored there too.
    Replayed on the real server: corpus/C20/limit-refusal.txt. -/
theorem limit_refusal_is_recovered :
    let r := run id (init {} (Limits.newIMAPLimits 4294967295 1 4294967295 4294967295))
      [.append "INBOX" { hv := 1, uv := 1 }, .append "INBOX" { hv := 2, uv := 1 }]
    r.1 = [.append (.ok 1), .append (.rejected .limit false)] ∧ inRecovery r.2 { hv := 2, uv := 1 } = true := by
  decide

/-- a size rejection keeps nothing (that is the excepted case of the property) -/
theorem size_rejection_keeps_nothing :
    let r := run id (init { create := [.failSize] }) [.append "INBOX" { hv := 1, uv := 1 }]
    r.1 = [.append .tooLarge] ∧ recMsgs r.2 = [] := by
  decide

/-! ## listed exactly while non-empty -/

/-- **LIST shows "Recovered Messages" iff the recovery mailbox holds a message**, in every reachable state. -/
theorem recovery_listed_iff_nonempty (H : Nat → Nat) (s : St) (hr : Reachable H s) :
    recName ∈ list s ↔ recMsgs s ≠ [] :=
  listed_iff s (reachable_recCount hr)

/-! ## protected -/

/-- **The recovery mailbox cannot be appended to, created, deleted, renamed (from or to), or be the
    destination of COPY/MOVE, under its name in any letter case**: the command is refused and
    the state is unchanged — for every state. -/
theorem recovery_protected (H : Nat → Nat) (s : St) (n : String) (hn : isRecName n = true) :
    (∀ l, append H s n l = (.refused .notAllowed, s)) ∧
    create s n = (some .notAllowed, s) ∧
    delete s n = (some .notAllowed, s) ∧
    (∀ o, rename s o n = (some .notAllowed, s) ∧ rename s n o = (some .notAllowed, s)) ∧
    (∀ src uids, (copy s src uids n).2 = s ∧ (move s src uids n).2 = s ∧
      (∀ a b, (copy s src uids n).1 ≠ .ok a b) ∧ (∀ a b, (move s src uids n).1 ≠ .ok a b)) :=
  ⟨fun l => protected_append H s n l hn, protected_create s n hn, protected_delete s n hn,
   fun o => ⟨protected_rename s o n (Or.inr hn), protected_rename s n o (Or.inl hn)⟩,
   fun src uids => protected_copy_into s src uids n hn⟩

/-- the name matching is by letter case folding: these are all the recovery mailbox -/
theorem recovery_names_any_case :
    isRecName "Recovered Messages" = true ∧ isRecName "recovered messages" = true ∧
    isRecName "RECOVERED MESSAGES" = true ∧ isRecName "ReCoVeReD mEsSaGeS" = true ∧ isRecName "Recovered Message" = false := by
  decide

/-- **The recovery mailbox exists, exactly once, in every reachable state** (no command sequence
    removes, renames or doubles it). -/
theorem recovery_exists_once (H : Nat → Nat) (s : St) (hr : Reachable H s) :
    (∃ b, getBox s.db recName = some b) ∧ (names s).count recName = 1 :=
  ⟨recovery_exists_of_count s (reachable_recCount hr), reachable_recCount hr⟩

/-! ## out of the recovery mailbox -/

/-- **COPY out of the recovery mailbox**: whatever the answer, the recovery mailbox is unchanged;
    answered OK, every announced destination UID is in the destination mailbox. -/
theorem recovery_copy_out (s s' : St) (uids : List Nat) (dst : String) (r : CopyRes)
    (h : copy s recName uids dst = (r, s')) :
    recMsgs s' = recMsgs s ∧
    ∀ su du, r = .ok su du → ∃ b', getBox s'.db dst = some b' ∧ ∀ u ∈ du, ∃ id, (u, id) ∈ b'.msgs :=
  copy_out_spec h

/-- **MOVE out of the recovery mailbox**: answered OK, every announced destination UID is in the
    destination and exactly the selected messages left the recovery mailbox; otherwise the recovery
    mailbox is unchanged (a failed MOVE loses nothing: the rollback restores it).  The COPYUID
    carries all selected source UIDs — or there is none at all (a plain OK) when not every selected
    message got a destination UID because some were already in the destination (`copyUidItem`,
    witness `move_out_partly_deduped_no_copyuid`). -/
theorem recovery_move_out (s s' : St) (uids : List Nat) (dst : String) (r : CopyRes)
    (h : move s recName uids dst = (r, s')) :
    ((∀ su du, r ≠ .ok su du) → recMsgs s' = recMsgs s) ∧
    ∀ su du, r = .ok su du →
      (∃ b', getBox s'.db dst = some b' ∧ ∀ u ∈ du, ∃ id, (u, id) ∈ b'.msgs) ∧
      ∃ bs, getBox s.db recName = some bs ∧
        (su = (selectUids bs uids).map (·.1) ∨ (su = [] ∧ du = [])) ∧
        recMsgs s' = (recMsgs s).filter (fun p => !((selectUids bs uids).map (·.2)).contains p.2) :=
  move_out_spec h

/-- **Answered OK means "is in the destination" — whether or not the remote de-duplicated.**
    COPY out of the recovery mailbox answered OK: every selected message was imported
    (`actionImportRecoveredMessage`: as a new message, or — `deduped` — as the message the database
    already has for the remote ID the connector answered with), as many as were selected, and EVERY
    one of them is in the destination mailbox afterwards.  `deduped` only says the message exists
    somewhere; the code labels it in the destination unless it already is there
    (`actionAddRecoveredMessagesToMailbox`), and this theorem is what a "nothing to do for a
    de-duplicated message" shortcut breaks.  For every state, script and UID set. -/
theorem recovery_copy_out_arrives (s s' : St) (uids : List Nat) (dst : String) (su du : List Nat)
    (h : copy s recName uids dst = (.ok su du, s')) :
    ∃ bs nids s1, getBox s.db recName = some bs ∧
      importAll { s with txIns := false, txErase := false } ((selectUids bs uids).map (·.2)) false = (.ok nids, s1) ∧
      nids.length = (selectUids bs uids).length ∧
      ∃ b', getBox s'.db dst = some b' ∧ ∀ i ∈ nids, boxHas b' i = true :=
  copy_out_arrives h

/-- **… and the same for MOVE** (where the selected messages also leave the recovery mailbox,
    `recovery_move_out`: were one of them not to arrive it would be nowhere the user put it). -/
theorem recovery_move_out_arrives (s s' : St) (uids : List Nat) (dst : String) (su du : List Nat)
    (h : move s recName uids dst = (.ok su du, s')) :
    ∃ bs nids s1, getBox s.db recName = some bs ∧
      importAll { s with txIns := false, txErase := false } ((selectUids bs uids).map (·.2)) true = (.ok nids, s1) ∧
      nids.length = (selectUids bs uids).length ∧
      ∃ b', getBox s'.db dst = some b' ∧ ∀ i ∈ nids, boxHas b' i = true :=
  move_out_arrives h

/-- de-duplicated and carried into a THIRD mailbox: message 1 is rejected (recovered), then the
    same bytes are accepted into INBOX; COPY and MOVE out of the recovery mailbox into `other`, the
    remote answering with the remote ID it already has (`dup`): both are answered OK and `other`
    holds the message (internal ID 1, the one INBOX holds) afterwards, once.
    Replayed on the real server: corpus/C20/dedup-third-mailbox.txt. -/
theorem deduped_into_third_mailbox_arrives :
    let m : Lit := { hv := 1, uv := 1 }
    let r := run id (init { create := [.fail, .ok, .dup, .dup] })
      [.create "other", .append "INBOX" m, .append "INBOX" m, .copy recName [1] "other", .move recName [1] "INBOX",
       .append "other" { hv := 2, uv := 1 }]
    r.1 = [.status none, .append (.rejected .remote false), .append (.ok 1), .copy (.ok [1] [1]), .copy (.ok [] []),
           .append (.ok 2)] ∧
    (getBox r.2.db "other").map (·.msgs) = some [(1, 1), (2, 4)] ∧ (getBox r.2.db "INBOX").map (·.msgs) = some [(1, 1)] ∧
    recMsgs r.2 = [] := by
  decide

/-- MOVE and COPY out of the recovery mailbox of two messages of which one is already in the
    destination (de-duplicated): source and destination UIDs cannot be paired, the answer is a plain
    OK without COPYUID (`copyUidItem`) — and both messages are in the destination.
    Replayed on the real server: corpus/C20/move-partly-deduped.txt. -/
theorem move_out_partly_deduped_no_copyuid :
    let m (n : Nat) : Lit := { hv := n, uv := 1 }
    let r := run id (init { create := [.fail, .fail, .ok, .dup, .ok, .dup, .ok, .fail, .fail, .ok, .dup, .ok] })
      [.create "other", .append "INBOX" (m 1), .append "INBOX" (m 2), .append "INBOX" (m 1), .copy recName [1, 2] "INBOX",
       .move recName [1, 2] "other", .append "INBOX" (m 3), .append "INBOX" (m 4), .append "other" (m 3),
       .move recName [3, 4] "other"]
    r.1 = [.status none, .append (.rejected .remote false), .append (.rejected .remote false), .append (.ok 1),
           .copy (.ok [] []), .copy (.ok [1, 2] [1, 2]), .append (.rejected .remote false), .append (.rejected .remote false),
           .append (.ok 3), .copy (.ok [] [])] ∧
    ((getBox r.2.db "INBOX").map (·.msgs)).map (·.length) = some 2 ∧
    ((getBox r.2.db "other").map (·.msgs)).map (·.length) = some 4 ∧ recMsgs r.2 = [] := by
  decide

/-- **A recovered message can be copied out**: if the remote and the storage accept the next calls,
    COPY of a message of the recovery mailbox into a normal mailbox with room answers OK
    [COPYUID … u uidNext], the destination then holds the recovered bytes (with a new
    X-Pm-Gluon-Id line) under that UID, and the recovery mailbox is unchanged.  `IdsFresh`: the
    freshly generated UUIDs collide with nothing. -/
theorem recovery_copy_out_can (s : St) (bs bd : Mbox) (u id : Nat) (l : Lit) (dst : String)
    (hb : getBox s.db recName = some bs) (hsel : bs.msgs.find? (·.1 == u) = some (u, id))
    (hst : s.store.lookup id = some l) (hp : l.parseOk = true) (hrn : isRecName dst = false)
    (hd : getBox s.db dst = some bd) (hlim : checkLimits s bd 1 = true) (hf : IdsFresh s) (hc : NextCallsOk s.sc) :
    ∃ s', copy s recName [u] dst = (.ok [u] [bd.uidNext], s') ∧
      Holds s' dst bd.uidNext { l with gid := .id s.nextId } ∧ recMsgs s' = recMsgs s :=
  copy_can hb hsel hst hp hrn hd hlim hf hc

/-- **A recovered message can be moved out**: likewise for MOVE; afterwards the message is gone
    from the recovery mailbox (and only it). -/
theorem recovery_move_out_can (s : St) (bs bd : Mbox) (u id : Nat) (l : Lit) (dst : String)
    (hb : getBox s.db recName = some bs) (hsel : bs.msgs.find? (·.1 == u) = some (u, id))
    (hst : s.store.lookup id = some l) (hp : l.parseOk = true) (hrn : isRecName dst = false)
    (hd : getBox s.db dst = some bd) (hlim : checkLimits s bd 1 = true) (hf : IdsFresh s) (hc : NextCallsOk s.sc) :
    ∃ s', move s recName [u] dst = (.ok [u] [bd.uidNext], s') ∧
      Holds s' dst bd.uidNext { l with gid := .id s.nextId } ∧
      recMsgs s' = (recMsgs s).filter (fun p => !([id].contains p.2)) :=
  move_can hb hsel hst hp hrn hd hlim hf hc

/-! ## non-vacuity: the hypotheses above are satisfiable by non-trivial states -/

section NonVacuity

/-- one message rejected by the remote, recovered -/
def exState : St := (run id (init { create := [.fail, .fail] }) [.append "INBOX" { hv := 1, uv := 1 }]).2

/-- the same, and the remote accepts the next calls -/
def exState2 : St := (run id (init { create := [.fail] }) [.append "INBOX" { hv := 1, uv := 1 }]).2

/-- `append_ok_present`, `append_ok_exact`: a plain APPEND on a fresh user -/
example : ∃ l0 : Lit, l0.sameBytes { hv := 7, uv := 3 } ∧
    Holds (append id (init {}) "INBOX" { hv := 7, uv := 3 }).2 "INBOX" 1 l0 :=
  append_ok_exact id (init {}) _ "INBOX" { hv := 7, uv := 3 } 1 (Prod.ext (by decide) rfl) rfl (by decide) ⟨by decide, by decide⟩

/-- `append_reject_recovered`: a second, different message rejected in a state that already holds one -/
example : inRecovery (append id exState "INBOX" { hv := 2, uv := 1 }).2 { hv := 2, uv := 1 } = true :=
  append_reject_recovered id exState _ "INBOX" { hv := 2, uv := 1 } .remote false (reachable_run _ _ (Reachable.init _ _)) (Prod.ext (by decide) rfl)
    ⟨rfl, rfl⟩ (by unfold NoStorageFaultAfterHashInsert; decide) (by
      have : recLits exState = [{ hv := 1, uv := 1 }] := by decide
      intro a ha b hb e
      rw [this] at ha hb
      simp at ha hb
      rcases ha with rfl | rfl <;> rcases hb with rfl | rfl <;> first | rfl | (exact absurd e (by decide)))

/-- `append_reject_recovered_partial`: the same bytes again: answered "known", still there once -/
example : ∃ l', inRecovery (append id exState "INBOX" { hv := 1, uv := 1 }).2 l' = true ∧ id l'.hv = id 1 ∧
    (l' = { hv := 1, uv := 1 } ∨ l' ∈ recLits exState) :=
  append_reject_recovered_partial id exState _ "INBOX" { hv := 1, uv := 1 } .remote true (reachable_run _ _ (Reachable.init _ _))
    (Prod.ext (by decide) rfl) ⟨rfl, rfl⟩ (by unfold NoStorageFaultAfterHashInsert; decide)

/-- `append_reject_unhashable_recovered`: an unhashable message rejected in a state that already holds a recovered one -/
example : (append id exState "INBOX" { hv := 201, uv := 1, hashOk := false }).1 = .rejected .remote false ∧
    inRecovery (append id exState "INBOX" { hv := 201, uv := 1, hashOk := false }).2 { hv := 201, uv := 1, hashOk := false } = true := by
  decide

/-- recovered, then the same bytes accepted into INBOX: the remote holds them -/
def exDedup : St := (run id (init { create := [.fail, .ok, .dup, .dup] })
  [.create "other", .append "INBOX" { hv := 1, uv := 1 }, .append "INBOX" { hv := 1, uv := 1 }]).2

/-- `recovery_copy_out_arrives` / `recovery_move_out_arrives`: COPY and MOVE of a de-duplicated message into a third mailbox are answered OK -/
example : (copy exDedup recName [1] "other").1 = .ok [1] [1] ∧ (move exDedup recName [1] "other").1 = .ok [1] [1] := by
  decide

/-- `recovery_once_per_hash`, `recovery_listed_iff_nonempty`, `recovery_exists_once`: hypotheses hold in `exState` -/
example : NoFaultAfterHashErase exState ∧ recMsgs exState = [(1, 0)] ∧ (recName ∈ list exState) := by
  refine ⟨by unfold NoFaultAfterHashErase; decide, by decide, (recovery_listed_iff_nonempty id exState (reachable_run _ _ (Reachable.init _ _))).mpr (by decide)⟩

/-- `recovery_copy_out_can` / `recovery_move_out_can`: the recovered message of `exState` into INBOX -/
example : ∃ s', copy exState2 recName [1] "INBOX" = (.ok [1] [1], s') ∧
    Holds s' "INBOX" 1 { hv := 1, uv := 1, gid := .id 1 } ∧ recMsgs s' = recMsgs exState2 :=
  recovery_copy_out_can exState2 { name := recName, uidNext := 2, msgs := [(1, 0)] } { name := "INBOX" } 1 0
    { hv := 1, uv := 1 } "INBOX" (by decide) (by decide) (by decide) rfl (by decide) (by decide) (by decide)
    ⟨by decide, by decide⟩ ⟨by decide, by decide, by decide, by decide⟩

end NonVacuity

end Gluon.C20
