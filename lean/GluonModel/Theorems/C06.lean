/-
C06 — connector updates: applied as described, acknowledged once, idempotent on replay.

Property theorems only.  Model: `GluonModel/Model/ConnUpdates.lean` (`user.apply` and every
`apply*` of internal/backend/connector_updates.go, the update loop of `newUser`, the one-shot waiter
of imap/update_waiter.go); what "as described / restates / unknown or protected" mean:
`GluonModel/Spec/ConnUpdates.lean`; helper lemmas: `GluonModel/Lemmas/Conn*.lean`;
regenerated source facts: `GluonModel/Generated/Facts/Ack.lean`.  The model is tied to the real
server by oracle `c06updates` (judge `judge-c06-stream`, Driver/DConnUpd.lean), which also evaluates
the predicates of the Spec on what the server did.
-/
import GluonModel.Lemmas.ConnAck
import GluonModel.Lemmas.ConnInvalid
import GluonModel.Lemmas.ConnMsgID
import GluonModel.Lemmas.ConnMapOrder
import GluonModel.Lemmas.ConnSpelling
import GluonModel.Lemmas.ConnPrepared
import GluonModel.Generated.Facts.Ack

namespace Gluon.C06

open Gluon Gluon.ConnUpd

/-! ## acknowledged exactly once, the pipeline goes on -/

/-- the loop shape read off the source: `update.Done(…)` statements executed by `user.apply`, and
    whether the error branch of the loop in `newUser` leaves the loop (unknown counts as "leaves") -/
def sourceShape : LoopShape :=
  { doneCalls := Facts.Ack.applyDoneCount, exitsOnError := Facts.Ack.loopErrorBranchExits.getD true }

/-- **What the source says today (regenerated on every run, decided)** — in internal/backend the
    only call `<x>.Done(<arg>)` is `update.Done(err)` in `user.apply`; it is a top-level statement of
    that function's body (the body is: log call, `err := func() error { switch … }()`, `Done`,
    `return err`), so it runs exactly once on every path and nothing at the top level can return or
    panic before it; no `apply*` helper acknowledges on its own.  The goroutine of `newUser` calls
    `user.apply` once per received update, its error branch only reports (no return / break / goto
    / panic), and the only other exit of the receive case is guarded by `!ok` (channel closed).  The
    waiter's channel has capacity 1 and `Done` is `if err != nil { waitCh <- err }; close(waitCh)`. -/
theorem ack_source_facts :
    Facts.Ack.doneSites = [("internal/backend/connector_updates.go", "user.apply", "update", "err")] ∧
    Facts.Ack.applyBody = ["Call", "AssignFromClosure", "Done", "ReturnStmt"] ∧
    Facts.Ack.applyDoneCount = 1 ∧ Facts.Ack.applyExitBeforeDone = some false ∧
    Facts.Ack.loopApplyCalls = 1 ∧ Facts.Ack.loopErrorBranchExits = some false ∧
    Facts.Ack.loopReturnGuards = ["!ok"] ∧ Facts.Ack.waiterBuffer = some 1 ∧
    Facts.Ack.waiterDoneBody = "{ if err != nil { w.waitCh <- err } close(w.waitCh) }" ∧
    sourceShape = shapeOK := by
  refine ⟨by decide, by decide, by decide, by decide, by decide, by decide, by decide, by decide, by decide, by decide⟩

/-- **The type switch of `user.apply` is the one the model dispatches on** — twelve update types,
    each routed to its own `apply*` (Noop returns nil), anything else is an error. -/
theorem dispatch_source_facts :
    Facts.Ack.applyDispatch =
      [("*imap.MailboxCreated", "user.applyMailboxCreated"), ("*imap.MailboxDeleted", "user.applyMailboxDeleted"),
       ("*imap.MailboxUpdated", "user.applyMailboxUpdated"), ("*imap.MailboxIDChanged", "user.applyMailboxIDChanged"),
       ("*imap.MessagesCreated", "user.applyMessagesCreated"),
       ("*imap.MessageMailboxesUpdated", "user.applyMessageMailboxesUpdated"),
       ("*imap.MessageFlagsUpdated", "user.applyMessageFlagsUpdated"), ("*imap.MessageIDChanged", "user.applyMessageIDChanged"),
       ("*imap.MessageDeleted", "user.applyMessageDeleted"), ("*imap.MessageUpdated", "user.applyMessageUpdated"),
       ("*imap.UIDValidityBumped", "user.applyUIDValidityBumped"), ("*imap.Noop", "nil")] ∧
    Facts.Ack.applyDefaultErrors = some true := by
  refine ⟨by decide, by decide⟩

/-- **Every update is acknowledged exactly once** — for every configuration, every index state and
    every sequence of updates of every kind (valid, unknown ids, protected mailbox, duplicates,
    unknown type), run through the loop with the shape the source has (`ack_source_facts`): the
    `k`-th update taken from the channel gets exactly one `Done`, and no `Done` is ever issued for
    anything else. -/
theorem ack_once (cfg : Cfg) (db : DB) (us : List Update) (i0 j : Nat) :
    countDone j (runLoop sourceShape cfg db i0 us).1 = (if i0 ≤ j ∧ j < i0 + us.length then 1 else 0) := by
  rw [ack_source_facts.2.2.2.2.2.2.2.2.2]
  exact (runLoop_counts cfg us db i0 j).1

/-- **…and that one `Done` is what the connector's waiter delivers** — the waiter of the `k`-th
    update ends in the state of a fresh waiter after a single `Done(err_k)`: closed, holding
    `err_k` if the update failed; so `Wait` returns once with `(err_k, true)` or `(nil, false)`,
    and a second `Wait` returns `(nil, false)` (closed) — never a second result. -/
theorem ack_once_waiter (cfg : Cfg) (db : DB) (us : List Update) (i0 k : Nat) (hk : k < us.length) :
    ∃ e, nthErr cfg db us k = some e ∧
      feedWaiter (i0 + k) (runLoop sourceShape cfg db i0 us).1 (.ok Waiter.new) = Waiter.new.done e ∧
      Waiter.new.done e = .ok { buf := e, closed := true } := by
  obtain ⟨e, he⟩ := nthErr_isSome cfg us db k hk
  refine ⟨e, he, ?_, ?_⟩
  · rw [ack_source_facts.2.2.2.2.2.2.2.2.2]
    exact feedWaiter_run cfg us db i0 k e he
  · cases e <;> simp [Waiter.done, Waiter.new]

/-- what the connector reads from a waiter that got one `Done e`: first the result, then "closed" -/
theorem waiter_reads_once (e : Option Err) :
    let w : Waiter := { buf := e, closed := true }
    (w.wait).1 = some (e, e.isSome) ∧ ((w.wait).2.wait).1 = some (none, false) ∧
    (w.wait).2.done none = .panicClosed := by
  cases e <;> simp [Waiter.wait, Waiter.done]

/-- **How a violation of "exactly once" shows at the connector (what oracle `c06updates` watches
    for under its per-update watchdog)** — no `Done` at all: `Wait` on the fresh waiter blocks
    (`none`; the oracle reports `cause=update-never-acknowledged`); a second `Done`, with any result
    after any first result: "send on / close of a closed channel", i.e. a panic of the goroutine that
    applies the updates (`cause=update-acknowledged-twice`; nothing is taken from the connector
    afterwards). -/
theorem ack_violations_observable (e e' : Option Err) :
    (Waiter.new.wait).1 = none ∧
    (∀ w, Waiter.new.done e = .ok w → w.done e' = .panicClosed) := by
  refine ⟨by simp [Waiter.wait, Waiter.new], ?_⟩
  intro w h
  cases e <;> simp [Waiter.done, Waiter.new] at h <;> subst h <;> simp [Waiter.done]

/-- …and the loop shapes that produce them: an `apply` that calls `Done` twice ends the waiter of
    its update in that panic, one that calls it never leaves the waiter as it was created -/
example :
    feedWaiter 0 (runLoop { doneCalls := 2, exitsOnError := false } (Cfg.default true) DB.initial 0 [.noop]).1 (.ok Waiter.new) = .panicClosed ∧
    feedWaiter 0 (runLoop { doneCalls := 0, exitsOnError := false } (Cfg.default true) DB.initial 0 [.noop]).1 (.ok Waiter.new) = .ok Waiter.new := by
  decide

/-- **The pipeline continues whatever came before** — every update of the sequence is taken from
    the channel exactly once, in particular those after a failing one, and the index the loop ends
    with is `apply` folded over *all* updates (a failed update contributes its rolled-back state). -/
theorem pipeline_continues (cfg : Cfg) (db : DB) (us : List Update) (i0 j : Nat) :
    countTaken j (runLoop sourceShape cfg db i0 us).1 = (if i0 ≤ j ∧ j < i0 + us.length then 1 else 0) ∧
    (runLoop sourceShape cfg db i0 us).2 = applyAll cfg db us := by
  rw [ack_source_facts.2.2.2.2.2.2.2.2.2]
  exact ⟨(runLoop_counts cfg us db i0 j).2, runLoop_final cfg us db i0⟩

/-- non-vacuity: a stream with failing updates in the middle; all four are taken and acknowledged -/
example :
    let us := [Update.messageFlagsUpdated "nobody" [], .unknown, .mailboxCreated recoveryRemoteID "x", .noop]
    let r := runLoop sourceShape (Cfg.default false) DB.initial 0 us
    (List.range 4).map (fun j => (countDone j r.1, countTaken j r.1)) = [(1, 1), (1, 1), (1, 1), (1, 1)] := by
  decide

/-! ## a valid update is applied as described

`Applied u db r` = `r.err = none ∧ effectOK u db r.db`; `Valid`, `effectOK`, `Inv` are the executable
predicates of `Spec/ConnUpdates.lean` (the judge evaluates the same predicates on the real server).
`Inv db` is what the SQLite schema guarantees: unique ids / remote ids / names, ascending UIDs below
the sequence value, rows that point at existing messages. -/

/-- a small index used for the non-vacuity examples: INBOX (UIDs 1, 2) and `mb1` (UID 1), two live
    messages `a`, `b` and one marked deleted -/
def sampleDB : DB :=
  { mboxes := [ { iid := 1, rid := recoveryRemoteID, name := "Recovered Messages", uidv := 1, subscribed := true, seq := 0, rows := [] },
                { iid := 2, rid := "0", name := "INBOX", uidv := 2, subscribed := true, seq := 2,
                  rows := [ { uid := 1, msg := 0, rid := "a", deleted := false }, { uid := 2, msg := 1, rid := "b", deleted := true } ] },
                { iid := 3, rid := "mb1", name := "mb1", uidv := 3, subscribed := true, seq := 1,
                  rows := [ { uid := 1, msg := 0, rid := "a", deleted := false } ] } ],
    msgs := [ { iid := 0, rid := "a", flags := ["seen"], deleted := false, lit := "l1" },
              { iid := 1, rid := "b", flags := [], deleted := false, lit := "l1" },
              { iid := 2, rid := "gone", flags := ["flagged"], deleted := true, lit := "l1" } ],
    delSubs := [], nextMbox := 4, nextMsg := 3, gen := 3 }

/-- the configuration of today's source: limits of `limits.DefaultLimits()`, the regenerated fact -/
def cfgToday : Cfg := Cfg.default Facts.Ack.updateRemoteMessageIDOnMessagesTable
def cfgFixed : Cfg := Cfg.default true

/-- **MailboxCreated** — an unknown remote id with an unused name (not the protected id, limits not
    reached): success; exactly one mailbox is added, with that id and name, subscribed, empty, with
    the next internal id and a fresh UIDVALIDITY; every other mailbox, every message and the
    deleted-subscription table are untouched. -/
theorem apply_effect_MailboxCreated (cfg : Cfg) (db : DB) (rid : RID) (name : String) (hi : Inv db = true)
    (hv : Valid cfg db (.mailboxCreated rid name) = true) :
    Applied (.mailboxCreated rid name) db (apply cfg db (.mailboxCreated rid name)) :=
  eff_MC cfg db ((inv_iff db).1 hi) rid name hv

/-- **MailboxDeleted** — a known, unprotected mailbox: success; that mailbox (and its UIDs) is
    gone, nothing else changed; messages stay in the message table. -/
theorem apply_effect_MailboxDeleted (cfg : Cfg) (db : DB) (rid : RID) (hi : Inv db = true)
    (hv : Valid cfg db (.mailboxDeleted rid) = true) :
    Applied (.mailboxDeleted rid) db (apply cfg db (.mailboxDeleted rid)) :=
  eff_MD cfg db ((inv_iff db).1 hi) rid hv

/-- **MailboxUpdated** — a known, unprotected mailbox and a new name nobody uses (not a spelling
    of INBOX): success; only the name of that mailbox changes (same id, UIDVALIDITY, UIDs, rows). -/
theorem apply_effect_MailboxUpdated (cfg : Cfg) (db : DB) (rid : RID) (name : String) (hi : Inv db = true)
    (hv : Valid cfg db (.mailboxUpdated rid name) = true) :
    Applied (.mailboxUpdated rid name) db (apply cfg db (.mailboxUpdated rid name)) :=
  eff_MU cfg db ((inv_iff db).1 hi) rid name hv

/-- **MailboxIDChanged** — a known internal id (not the recovery mailbox) and an unused remote id:
    success; only the remote id of that mailbox changes. -/
theorem apply_effect_MailboxIDChanged (cfg : Cfg) (db : DB) (iid : Nat) (rid : RID) (hi : Inv db = true)
    (hv : Valid cfg db (.mailboxIDChanged iid rid) = true) :
    Applied (.mailboxIDChanged iid rid) db (apply cfg db (.mailboxIDChanged iid rid)) :=
  eff_MI cfg db ((inv_iff db).1 hi) iid rid hv

/-- `NoGhost`: none of the batch's remote ids belongs to a message that is marked deleted but not
    yet collected -/
def NoGhost (db : DB) (ms : List NewMsg) : Prop := ∀ m ∈ ms, db.ghost m.rid = false

/-- **MessagesCreated, under the named hypothesis `NoGhost`** — for every batch (any length,
    repeated ids, messages listed in several mailboxes, `IgnoreUnknownMailboxIDs` on or off as long
    as the listed mailboxes are known when it is off), nothing protected, limits not reached:
    success; afterwards every listed message exists — a new one with the flags of its first
    occurrence, a known one unchanged — and is in every listed mailbox the server knows; every
    mailbox only *gained* rows, each for a listed (message, mailbox) pair not there before, with
    the next UIDs in sequence, pairwise different; no mailbox was added or removed, no other
    message changed.  The hypothesis is needed: `apply_effect_MessagesCreated_counterexample`. -/
theorem apply_effect_MessagesCreated_partial (cfg : Cfg) (db : DB) (ignore : Bool) (ms : List NewMsg)
    (hi : Inv db = true) (hv : Valid cfg db (.messagesCreated ignore ms) = true) (hg : NoGhost db ms) :
    Applied (.messagesCreated ignore ms) db (apply cfg db (.messagesCreated ignore ms)) :=
  eff_MSC cfg db ((inv_iff db).1 hi) ignore ms hv hg

/-- **Without `NoGhost` the statement is false** (defect found by the oracle, replayed on the real
    server): `MessageDeleted gone` leaves the row of `gone` in `messages_v2` marked deleted until a
    session ends; a `MessagesCreated` for `gone` in between finds that row
    (`GetMessageIDFromRemoteID` does not look at the mark), creates nothing, and adds the *old* row —
    old flags (`flagged`, not `seen`), still marked deleted — to the mailbox.  The update is valid
    and acknowledged with success, but the message does not exist with the described flags.  (And
    from then on `DeleteMessages` at every session end fails on the NOT NULL reference from the
    mailbox table: no deleted message is collected any more — `Model.gc`.) -/
theorem apply_effect_MessagesCreated_counterexample :
    let u := Update.messagesCreated false [{ rid := "gone", flags := ["seen"], lit := "l1", mboxes := ["0"] }]
    Inv sampleDB = true ∧ Valid cfgToday sampleDB u = true ∧ (apply cfgToday sampleDB u).err = none ∧
    effectOK u sampleDB (apply cfgToday sampleDB u).db = false ∧
    (apply cfgToday sampleDB u).db.liveMsg "gone" = none ∧
    (apply cfgToday sampleDB u).db.inMbox "0" "gone" = true ∧
    gc (apply cfgToday sampleDB u).db [] = (apply cfgToday sampleDB u).db := by
  decide

/-! ### MessagesCreated: the Go map iteration over `messageForMBox`

`applyMessagesCreated` ends with `for mboxID, msgList := range messageForMBox { … }` — a Go *map*:
the order of the visits is unspecified and differs from run to run.  The model
(`applyMessagesCreated`, `assignAll`) visits the mailboxes in insertion order, as one representative
schedule; `applyMessagesCreatedIn ord` is the same function with the visits in the order `ord`
picks.  The theorems below say that the choice is immaterial except for *which* of the failing
mailboxes' errors is acknowledged, and not even for that when the index is inside its invariant. -/

/-- **The order in which Go walks `messageForMBox` does not matter for the index nor for success** —
    for every configuration, every index (no invariant assumed), every batch and every order `ord`
    (any function that returns a permutation of its argument; the map has one entry per mailbox:
    `mscLoop_keys_nodup`): the index afterwards is the same as under the model's insertion order
    (the transaction either commits the same rows, with the same UIDs, or is rolled back), the update
    is refused under the one order iff it is refused under the other, and the error that is
    acknowledged is one of `mscPossibleErrs` — the errors the individual mailboxes raise, each by
    itself, against the index as it was (a visit only reads and writes its own mailbox). -/
theorem messagesCreated_map_order (cfg : Cfg) (db : DB) (ignore : Bool) (msgs : List NewMsg)
    (ord : List (Nat × List (Nat × RID)) → List (Nat × List (Nat × RID))) (hperm : ∀ l, (ord l).Perm l) :
    (applyMessagesCreatedIn ord cfg db ignore msgs).db = (applyMessagesCreated cfg db ignore msgs).db ∧
    ((applyMessagesCreatedIn ord cfg db ignore msgs).err.isSome = (applyMessagesCreated cfg db ignore msgs).err.isSome) ∧
    ∀ e, (applyMessagesCreatedIn ord cfg db ignore msgs).err = some e → e ∈ mscPossibleErrs cfg db ignore msgs :=
  applyMessagesCreatedIn_spec ord hperm cfg db ignore msgs

/-- **…in particular the error the model acknowledges is one of the possible ones** (the identity
    order), and `mscPossibleErrs` is empty exactly when the update succeeds: so "the server
    acknowledged an error of `mscPossibleErrs`" is what can be demanded of an implementation whose
    iteration order is not known. -/
theorem messagesCreated_err_possible (cfg : Cfg) (db : DB) (ignore : Bool) (msgs : List NewMsg) (e : Err)
    (h : (applyMessagesCreated cfg db ignore msgs).err = some e) : e ∈ mscPossibleErrs cfg db ignore msgs :=
  (applyMessagesCreatedIn_spec id (fun l => List.Perm.refl l) cfg db ignore msgs).2.2 e h

/-- **The update fails iff some error is possible** — `mscPossibleErrs` is not a superset that is
    only sometimes tight: it is empty iff `applyMessagesCreated` succeeds. -/
theorem messagesCreated_fails_iff_possible (cfg : Cfg) (db : DB) (ignore : Bool) (msgs : List NewMsg) :
    (applyMessagesCreated cfg db ignore msgs).err.isSome = !(mscPossibleErrs cfg db ignore msgs).isEmpty := by
  unfold applyMessagesCreated mscPossibleErrs
  cases hl : mscLoop cfg db ignore { toCreate := [], forMbox := [] } msgs with
  | error e0 => rfl
  | ok acc =>
    simp only
    split
    · rfl
    · have h := errOf_assignAll_isSome cfg acc.forMbox
        { db with msgs := db.msgs ++ acc.toCreate, nextMsg := db.nextMsg + acc.toCreate.length }
        (mscLoop_keys_nodup cfg db ignore msgs acc hl)
      rw [← h]
      cases assignAll cfg { db with msgs := db.msgs ++ acc.toCreate, nextMsg := db.nextMsg + acc.toCreate.length }
        acc.forMbox with
      | error e => rfl
      | ok r => rfl

/-- **With an index inside its invariant the acknowledged error does not depend on the order
    either** — under `Inv db` the UNIQUE constraints of a mailbox table cannot fire and every listed
    mailbox exists, so a mailbox can only refuse its messages with a limit error: every order
    acknowledges the same result, and the only errors possible at all are "not found" (an unknown
    mailbox id in the batch, detected by the first loop, which ranges over a slice) and a limit. -/
theorem messagesCreated_map_order_inv (cfg : Cfg) (db : DB) (ignore : Bool) (msgs : List NewMsg) (hi : Inv db = true)
    (ord : List (Nat × List (Nat × RID)) → List (Nat × List (Nat × RID))) (hperm : ∀ l, (ord l).Perm l) :
    (applyMessagesCreatedIn ord cfg db ignore msgs).db = (applyMessagesCreated cfg db ignore msgs).db ∧
    (applyMessagesCreatedIn ord cfg db ignore msgs).err = (applyMessagesCreated cfg db ignore msgs).err ∧
    ∀ e ∈ mscPossibleErrs cfg db ignore msgs, e = .notFound ∨ e = .limit :=
  ⟨(applyMessagesCreatedIn_spec ord hperm cfg db ignore msgs).1,
   applyMessagesCreatedIn_err_of_inv ord hperm cfg db ((inv_iff db).1 hi) ignore msgs,
   mscPossibleErrs_of_inv cfg db ((inv_iff db).1 hi) ignore msgs⟩

/-- small limits for the witness below: at most 4 messages per mailbox, UIDs up to 9 -/
def orderCfg : Cfg :=
  { maxMailboxes := 9, maxMessages := 4, maxUID := 9, maxUIDValidity := 99, msgIDTableOK := true,
    recoveryRID := recoveryRemoteID, recoveryIID := 1 }

/-- an index as the known defect `row-remote-id-copy` leaves it (`messageIDChanged_stale_row_copies_counterexample`):
    message 2 was renamed `m3` → `mi4`, the rows of `mb1` and `mb2` still carry `m3`; `mb2` is full -/
def orderDB : DB :=
  { mboxes := [ { iid := 1, rid := recoveryRemoteID, name := "Recovered Messages", uidv := 1, subscribed := true, seq := 0, rows := [] },
                { iid := 3, rid := "mb1", name := "mb1", uidv := 2, subscribed := true, seq := 4,
                  rows := [ { uid := 2, msg := 1, rid := "m2", deleted := false }, { uid := 4, msg := 2, rid := "m3", deleted := false } ] },
                { iid := 4, rid := "mb2", name := "mb2", uidv := 3, subscribed := true, seq := 4,
                  rows := [ { uid := 1, msg := 0, rid := "m1", deleted := false }, { uid := 2, msg := 1, rid := "m2", deleted := false },
                            { uid := 3, msg := 2, rid := "m3", deleted := false }, { uid := 4, msg := 3, rid := "m5", deleted := false } ] } ],
    msgs := [ { iid := 0, rid := "m1", flags := [], deleted := false, lit := "l1" },
              { iid := 1, rid := "m2", flags := [], deleted := false, lit := "l1" },
              { iid := 2, rid := "mi4", flags := [], deleted := false, lit := "l1" },
              { iid := 3, rid := "m5", flags := [], deleted := false, lit := "l1" } ],
    delSubs := [], nextMbox := 5, nextMsg := 4, gen := 3 }

/-- `m1` (known) goes to `mb1`; `m3` (unknown since the rename: a new message) goes to `mb1` and `mb2` -/
def orderBatch : List NewMsg :=
  [ { rid := "m1", flags := [], lit := "l1", mboxes := ["mb1"] },
    { rid := "m3", flags := [], lit := "l1", mboxes := ["mb1", "mb2"] } ]

/-- **The order is visible in the acknowledged error when two mailboxes fail differently** (observed
    on the real server as a run-to-run difference: `err:limit` where the model said
    `err:constraint`; the witness needs an index outside its invariant — here the stale remote-id
    copies of the known defect `row-remote-id-copy` — see `messagesCreated_map_order_inv`): `mb1`
    refuses `m3` with a UNIQUE-constraint error (the stale row copy), `mb2` refuses it with a limit
    error (a fifth message where four are allowed).  Visiting `mb1` first (insertion order, the
    model) acknowledges the constraint error, visiting `mb2` first (`List.reverse`) the limit error;
    both are in `mscPossibleErrs`, and the index is unchanged either way. -/
theorem messagesCreated_map_order_witness :
    Inv orderDB = false ∧
    (applyMessagesCreated orderCfg orderDB true orderBatch).err = some .constraint ∧
    (applyMessagesCreatedIn List.reverse orderCfg orderDB true orderBatch).err = some .limit ∧
    (applyMessagesCreated orderCfg orderDB true orderBatch).db = orderDB ∧
    (applyMessagesCreatedIn List.reverse orderCfg orderDB true orderBatch).db = orderDB ∧
    mscPossibleErrs orderCfg orderDB true orderBatch = [.constraint, .limit] := by
  decide

/-- non-vacuity of `messagesCreated_map_order`: `List.reverse` is an order (and so is the identity) -/
example : ∀ l : List (Nat × List (Nat × RID)), (List.reverse l).Perm l := fun l => List.reverse_perm l

/-- non-vacuity of `messagesCreated_map_order_inv`: a sane index, two mailboxes visited, both orders
    succeed with the same index -/
example :
    let ms : List NewMsg := [{ rid := "c", flags := ["seen"], lit := "l1", mboxes := ["0", "mb1"] }]
    Inv sampleDB = true ∧
    (applyMessagesCreatedIn List.reverse cfgToday sampleDB false ms).err = none ∧
    (applyMessagesCreatedIn List.reverse cfgToday sampleDB false ms).db = (applyMessagesCreated cfgToday sampleDB false ms).db ∧
    (applyMessagesCreatedIn List.reverse cfgToday sampleDB false ms).evs ≠ (applyMessagesCreated cfgToday sampleDB false ms).evs := by
  decide

/-- **MessageMailboxesUpdated** — a live message, no protected id in the list, room in every
    mailbox: success; the message is afterwards in exactly the listed mailboxes the server knows
    (unknown ids in the list are ignored by `MailboxTranslateRemoteIDs`): where it already was it
    keeps its UID, where it enters it gets the next UID, elsewhere its row is gone; its flags are
    exactly the given ones; nothing else changed. -/
theorem apply_effect_MessageMailboxesUpdated (cfg : Cfg) (db : DB) (rid : RID) (mbs : List RID) (flags : List Flag)
    (hi : Inv db = true) (hv : Valid cfg db (.messageMailboxesUpdated rid mbs flags) = true) :
    Applied (.messageMailboxesUpdated rid mbs flags) db (apply cfg db (.messageMailboxesUpdated rid mbs flags)) :=
  eff_MMU cfg db ((inv_iff db).1 hi) rid mbs flags hv

/-- **MessageFlagsUpdated** — a live message: success; its flags are exactly the given ones, no
    mailbox row and no other message changed. -/
theorem apply_effect_MessageFlagsUpdated (cfg : Cfg) (db : DB) (rid : RID) (flags : List Flag)
    (hi : Inv db = true) (hv : Valid cfg db (.messageFlagsUpdated rid flags) = true) :
    Applied (.messageFlagsUpdated rid flags) db (apply cfg db (.messageFlagsUpdated rid flags)) :=
  eff_MFU cfg db ((inv_iff db).1 hi) rid flags hv

/-- **MessageDeleted** — a live message: success; it is in no mailbox any more (every other row
    and every UID counter untouched) and no longer live (its row stays, marked, until collected). -/
theorem apply_effect_MessageDeleted (cfg : Cfg) (db : DB) (rid : RID)
    (hi : Inv db = true) (hv : Valid cfg db (.messageDeleted rid) = true) :
    Applied (.messageDeleted rid) db (apply cfg db (.messageDeleted rid)) :=
  eff_MSD cfg db ((inv_iff db).1 hi) rid hv

/-- **MessageUpdated** — nothing protected, room in every mailbox, and either (a) the message is
    unknown and `AllowCreate` is set: it is created as by `MessagesCreated`; or (b) it is live, the
    listed mailboxes exist and are pairwise different, the literal is the stored one: flags and
    membership become the given ones (as for `MessageMailboxesUpdated`); or (c) as (b) with another
    literal: the old instance leaves all its mailboxes, a new instance with the same remote id and
    the given flags gets the next UID in exactly the listed mailboxes, the old row is kept marked
    deleted under a `DELETED-…` remote id.  Success in all three cases, nothing else changed. -/
theorem apply_effect_MessageUpdated (cfg : Cfg) (db : DB) (m : NewMsg) (allowCreate : Bool)
    (hi : Inv db = true) (hv : Valid cfg db (.messageUpdated m allowCreate) = true) :
    Applied (.messageUpdated m allowCreate) db (apply cfg db (.messageUpdated m allowCreate)) :=
  eff_MSU cfg db ((inv_iff db).1 hi) m allowCreate hv

/-- **UIDValidityBumped** — always succeeds; every mailbox gets a UIDVALIDITY greater than any
    issued before, pairwise different, and keeps everything else (UIDs, rows, sequence). -/
theorem apply_effect_UIDValidityBumped (cfg : Cfg) (db : DB) (hi : Inv db = true) :
    Applied .uidValidityBumped db (apply cfg db .uidValidityBumped) :=
  eff_UVB db ((inv_iff db).1 hi)

/-- **Noop** — succeeds and changes nothing. -/
theorem apply_effect_Noop (cfg : Cfg) (db : DB) (hi : Inv db = true) : Applied .noop db (apply cfg db .noop) :=
  eff_noop db ((inv_iff db).1 hi)

/-! ### MessageIDChanged (DESIGN §9 #5) -/

/-- **The source fact (regenerated, decided)** — `UpdateRemoteMessageID` now passes
    `v1.MessagesTableName` to `fmt.Sprintf("UPDATE %v SET …")` (repaired by the `fix:` commit
    "UpdateRemoteMessageID updates the messages table"; before, the column name `id` stood there and
    the statement failed for every input); the model's configuration for today's source therefore
    has `msgIDTableOK = true`. -/
theorem messageIDChanged_source_fact :
    Facts.Ack.updateRemoteMessageIDTableExpr = "v1.MessagesTableName" ∧ cfgToday.msgIDTableOK = true := by
  refine ⟨by decide, by decide⟩

/-- what the defect was: with the column name in place of the table name the update is refused
    (SQLite: "no such table: id") for *every* index and *every* argument -/
theorem messageIDChanged_unfixed_always_fails (cfg : Cfg) (h : cfg.msgIDTableOK = false) (db : DB) (iid : Nat) (rid : RID) :
    apply cfg db (.messageIDChanged iid rid) = Res.fail db .sql := by
  simp [apply, applyMessageIDChanged, h]

/-- **MessageIDChanged** (for every configuration whose statement addresses `messages_v2`, in
    particular today's: `messageIDChanged_source_fact`) — a live message and an unused remote id:
    success; the message is afterwards found under the new remote id with unchanged flags, no
    longer under the old one, and nothing else changed. -/
theorem apply_effect_MessageIDChanged (cfg : Cfg) (db : DB) (iid : Nat) (rid : RID)
    (hfix : cfg.msgIDTableOK = true) (hi : Inv db = true) (hv : Valid cfg db (.messageIDChanged iid rid) = true) :
    Applied (.messageIDChanged iid rid) db (apply cfg db (.messageIDChanged iid rid)) :=
  eff_MSI cfg db ((inv_iff db).1 hi) iid rid hfix hv

/-- **…but it leaves the index outside its invariant when the message is in a mailbox** (defect
    found by the oracle on the repaired code, class `invariant`; replayed on the real server:
    `U MSC 1 m4:…:mb1`, `U MSI @m4 mi5` → row `1.m4.mi5`): the per-mailbox tables keep their own
    copy of the remote id (`message_remote_id`, UNIQUE) and `applyMessageIDChanged` does not update
    it.  Here message `a` (in INBOX and `mb1`) becomes `a2`; the rows still say `a`, `Inv` no longer
    holds, and the next valid update that re-creates a message `a` in INBOX is refused with a
    UNIQUE-constraint error instead of being applied. -/
theorem messageIDChanged_stale_row_copies_counterexample :
    let db1 := (apply cfgToday sampleDB (.messageIDChanged 0 "a2")).db
    let u2 := Update.messagesCreated false [{ rid := "a", flags := [], lit := "l1", mboxes := ["0"] }]
    Inv sampleDB = true ∧ Valid cfgToday sampleDB (.messageIDChanged 0 "a2") = true ∧
    (apply cfgToday sampleDB (.messageIDChanged 0 "a2")).err = none ∧ Inv db1 = false ∧
    db1.inMbox "0" "a" = true ∧ (db1.msgByRid "a").isNone = true ∧
    (apply cfgToday db1 u2).err = some .constraint := by
  decide

/-- **…and under the named hypothesis `InNoMailbox`** (the message is in no mailbox when its id
    changes) the index stays inside its invariant. -/
theorem messageIDChanged_keeps_invariant_partial (cfg : Cfg) (db : DB) (iid : Nat) (rid : RID)
    (hfix : cfg.msgIDTableOK = true) (hi : Inv db = true) (hv : Valid cfg db (.messageIDChanged iid rid) = true)
    (hno : ∀ m ∈ db.mboxes, m.has iid = false) :
    Inv (apply cfg db (.messageIDChanged iid rid)).db = true := by
  have hp := (inv_iff db).1 hi
  simp only [Valid] at hv
  cases hm : db.msgByIid iid with
  | none => simp [hm] at hv
  | some g =>
    simp only [hm, Bool.and_eq_true, Bool.not_eq_true'] at hv
    have hfree : ∀ x ∈ db.msgs, x.rid ≠ rid := by
      intro x hx
      have := (List.any_eq_false.1 hv.2) x hx
      simpa using this
    have hclash : (db.msgs.any (fun m => m.iid != iid && m.rid == rid)) = false := by
      rw [List.any_eq_false]
      intro x hx
      have := hfree x hx
      simp [this]
    simp only [apply, applyMessageIDChanged, hfix, Bool.not_true, Bool.false_eq_true, if_false, hm, hclash, Res.ok]
    exact (inv_iff _).2 (invP_MSI db hp iid rid hfree hno)

/-! ## an update that restates the current state changes nothing a client can observe

`NoEffect db r` = success ∧ `r.db = db` (the whole index, in particular every UID counter: no new
UID) ∧ no queued state update is an EXISTS / EXPUNGE / FETCH.  `Restates` per kind: the mailbox
already exists with that name / is already gone / already has that remote id; every listed message
exists and is already in every listed (known) mailbox; the message already has exactly those
mailboxes and flags (and that literal); the message is already deleted. -/

/-- **Idempotence for every kind of update** — echo of the server's own action or duplicate
    delivery: acknowledged with success, index unchanged, nothing observable queued. -/
theorem apply_idempotent (cfg : Cfg) (db : DB) (u : Update) (hi : Inv db = true) (hr : Restates cfg db u = true) :
    NoEffect db (apply cfg db u) := by
  have hp := (inv_iff db).1 hi
  cases u with
  | mailboxCreated rid name => exact idem_MC cfg db rid name hr
  | mailboxDeleted rid => exact idem_MD cfg db rid hr
  | mailboxUpdated rid name => exact idem_MU cfg db hp rid name hr
  | mailboxIDChanged iid rid => exact idem_MI cfg db hp iid rid hr
  | messagesCreated ig ms => exact idem_MSC cfg db hp ig ms hr
  | messageMailboxesUpdated rid mbs fl => exact idem_MMU cfg db hp rid mbs fl hr
  | messageFlagsUpdated rid fl => exact idem_MFU db hp cfg rid fl hr
  | messageIDChanged iid rid => exact idem_MSI cfg db hp iid rid hr
  | messageDeleted rid => exact idem_MSD db hp cfg rid hr
  | messageUpdated m ac => exact idem_MSU cfg db hp m ac hr
  | uidValidityBumped => simp [Restates] at hr
  | noop => exact noEffect_ok db
  | unknown => simp [Restates] at hr

/-- MailboxCreated for a mailbox that exists under that name -/
theorem apply_idempotent_MailboxCreated (cfg : Cfg) (db : DB) (rid : RID) (name : String) (hi : Inv db = true)
    (hr : Restates cfg db (.mailboxCreated rid name) = true) : NoEffect db (apply cfg db (.mailboxCreated rid name)) :=
  apply_idempotent cfg db _ hi hr

/-- MailboxDeleted for a mailbox that is already gone -/
theorem apply_idempotent_MailboxDeleted (cfg : Cfg) (db : DB) (rid : RID) (hi : Inv db = true)
    (hr : Restates cfg db (.mailboxDeleted rid) = true) : NoEffect db (apply cfg db (.mailboxDeleted rid)) :=
  apply_idempotent cfg db _ hi hr

/-- MailboxUpdated with the name the mailbox already has -/
theorem apply_idempotent_MailboxUpdated (cfg : Cfg) (db : DB) (rid : RID) (name : String) (hi : Inv db = true)
    (hr : Restates cfg db (.mailboxUpdated rid name) = true) : NoEffect db (apply cfg db (.mailboxUpdated rid name)) :=
  apply_idempotent cfg db _ hi hr

/-- MailboxIDChanged to the remote id the mailbox already has (a snapshot-field update is queued: not observable) -/
theorem apply_idempotent_MailboxIDChanged (cfg : Cfg) (db : DB) (iid : Nat) (rid : RID) (hi : Inv db = true)
    (hr : Restates cfg db (.mailboxIDChanged iid rid) = true) : NoEffect db (apply cfg db (.mailboxIDChanged iid rid)) :=
  apply_idempotent cfg db _ hi hr

/-- MessagesCreated (any batch) whose messages all exist and are in all their listed mailboxes: no
    message created, no UID assigned, no EXISTS -/
theorem apply_idempotent_MessagesCreated (cfg : Cfg) (db : DB) (ig : Bool) (ms : List NewMsg) (hi : Inv db = true)
    (hr : Restates cfg db (.messagesCreated ig ms) = true) : NoEffect db (apply cfg db (.messagesCreated ig ms)) :=
  apply_idempotent cfg db _ hi hr

/-- MessageMailboxesUpdated with the mailboxes and flags the message has -/
theorem apply_idempotent_MessageMailboxesUpdated (cfg : Cfg) (db : DB) (rid : RID) (mbs : List RID) (fl : List Flag)
    (hi : Inv db = true) (hr : Restates cfg db (.messageMailboxesUpdated rid mbs fl) = true) :
    NoEffect db (apply cfg db (.messageMailboxesUpdated rid mbs fl)) :=
  apply_idempotent cfg db _ hi hr

/-- MessageFlagsUpdated with the flags the message has -/
theorem apply_idempotent_MessageFlagsUpdated (cfg : Cfg) (db : DB) (rid : RID) (fl : List Flag) (hi : Inv db = true)
    (hr : Restates cfg db (.messageFlagsUpdated rid fl) = true) : NoEffect db (apply cfg db (.messageFlagsUpdated rid fl)) :=
  apply_idempotent cfg db _ hi hr

/-- MessageDeleted for a message that is unknown or already deleted -/
theorem apply_idempotent_MessageDeleted (cfg : Cfg) (db : DB) (rid : RID) (hi : Inv db = true)
    (hr : Restates cfg db (.messageDeleted rid) = true) : NoEffect db (apply cfg db (.messageDeleted rid)) :=
  apply_idempotent cfg db _ hi hr

/-- MessageUpdated with the literal, mailboxes and flags the message has -/
theorem apply_idempotent_MessageUpdated (cfg : Cfg) (db : DB) (m : NewMsg) (ac : Bool) (hi : Inv db = true)
    (hr : Restates cfg db (.messageUpdated m ac) = true) : NoEffect db (apply cfg db (.messageUpdated m ac)) :=
  apply_idempotent cfg db _ hi hr

/-- applying a restating update any number of times: still nothing (so `apply` twice = `apply` once) -/
theorem apply_idempotent_twice (cfg : Cfg) (db : DB) (u : Update) (hi : Inv db = true) (hr : Restates cfg db u = true) :
    (apply cfg (apply cfg db u).db u).db = db := by
  have h1 := (apply_idempotent cfg db u hi hr).2.1
  rw [h1]; exact h1

/-! ## the spelling of flags

The model above speaks of flag *names* (lower-cased).  The code holds *spellings*: `imap.FlagSet` maps
`strings.ToLower(flag)` to the flag as first given, `message_flags_v2` stores that spelling, and
`user.setMessageFlags` asks `Contains` (lower-cases first) in both directions.
`Model/ConnFlagSpelling.lean` has `FlagSet` and `setMessageFlags` on spellings; `keysOf` takes the
names.  The oracle sends flags in every letter case relative to what the index holds, in other orders
and repeated, and compares the stored spellings after every update with `setMessageFlagsSp`. -/

/-- **A `FlagSet` is a set of flag names** — whatever the spelling, order and repeats of the list it
    is built from: it holds a flag iff the list names it, and never one flag in two spellings. -/
theorem flagset_is_set_of_names (l : List String) :
    fsNodup (fsOf l) = true ∧ ∀ k, k ∈ keysOf (fsOf l) ↔ k ∈ keysOf l :=
  ⟨fsNodup_fsOf l, mem_keysOf_fsOf l⟩

/-- **Restating the flags of a message in other letters, in another order, or more than once removes
    nothing and adds nothing** — if the update names exactly the flags the message has (by name), then
    `user.setMessageFlags` calls neither `removeMessageFlags` nor `addMessageFlags`: no row of
    `message_flags_v2` is touched (the stored spelling stays) and no `RemoteRemove/AddMessageFlags`
    state update is queued — no FETCH for any session. -/
theorem restating_flags_any_spelling (stored target : List String)
    (h : sameSet (keysOf stored) (keysOf target) = true) :
    setMessageFlagsSp stored target = (stored, [], []) :=
  setMessageFlagsSp_restating stored target h

/-- the statement is about spellings that differ: `\seen $Kw` stored, the connector says
    `$KW \Seen \SEEN`; a comparison of the spellings as strings would remove and add both flags -/
example :
    setMessageFlagsSp ["\\seen", "$Kw"] ["$KW", "\\Seen", "\\SEEN"] = (["\\seen", "$Kw"], [], []) ∧
    (diffByString ["\\seen", "$Kw"] ["$KW", "\\Seen", "\\SEEN"]).2 = (["\\seen", "$Kw"], ["$KW", "\\Seen"]) ∧
    sameSet (keysOf ["\\seen", "$Kw"]) (keysOf ["$KW", "\\Seen", "\\SEEN"]) = true := by
  decide

/-- **What `user.setMessageFlags` does to spellings is what the model says about names** — for every
    stored flag set and every list of flags in the update: the model's `setMessageFlags` on the names
    succeeds with flags `F`, removals `R`, additions `A`, and on the spellings the flags removed are
    exactly `R` (same order, each in its stored spelling), the flags added are exactly the names `A`
    (as a set: a Go map is iterated), and the flags afterwards are `F` (as a set).  So every theorem
    of this file about `MessageFlagsUpdated`, `MessageMailboxesUpdated` and `MessageUpdated` holds
    for updates spelled in any letter case. -/
theorem setMessageFlags_spelling_abstraction (db : DB) (iid : Nat) (m : Msg) (hm : db.msgByIid iid = some m)
    (stored target : List String) (hs : m.flags = keysOf stored) :
    ∃ (F R A : List Flag), setMessageFlags db iid (keysOf target) =
        .ok (db.updMsg iid (fun x => { x with flags := F }), R.map (Ev.fetchRem iid) ++ A.map (Ev.fetchAdd iid)) ∧
      keysOf (setMessageFlagsSp stored target).2.1 = R ∧
      (∀ k, k ∈ keysOf (setMessageFlagsSp stored target).2.2 ↔ k ∈ A) ∧
      sameSet (keysOf (setMessageFlagsSp stored target).1) F = true := by
  refine ⟨_, _, _, setMessageFlags_eq_names db iid m hm (keysOf target), ?_, ?_, ?_⟩
  · rw [hs]; exact removed_names stored target
  · intro k; rw [hs]; exact added_names stored target k
  · rw [hs]; exact after_names stored target

/-- **`MessageFlagsUpdated` that restates the flags in any spelling: nothing a client can observe** —
    the two halves together: on names the update is `Restates` (so `apply_idempotent`: success, same
    index, no EXISTS / EXPUNGE / FETCH queued), and on spellings nothing is removed or added. -/
theorem restating_MessageFlagsUpdated_any_spelling (cfg : Cfg) (db : DB) (rid : RID) (g : Msg)
    (stored target : List String) (hi : Inv db = true) (hg : db.liveMsg rid = some g)
    (hs : g.flags = keysOf stored) (h : sameSet (keysOf stored) (keysOf target) = true) :
    NoEffect db (apply cfg db (.messageFlagsUpdated rid (keysOf target))) ∧
    setMessageFlagsSp stored target = (stored, [], []) := by
  refine ⟨apply_idempotent cfg db _ hi ?_, setMessageFlagsSp_restating stored target h⟩
  simp only [Restates, hg, hs, h]

example : Inv sampleDB = true ∧ sampleDB.liveMsg "a" = some { iid := 0, rid := "a", flags := ["seen"], deleted := false, lit := "l1" } ∧
    ["seen"] = keysOf ["SEEN"] ∧ sameSet (keysOf ["SEEN"]) (keysOf ["seen", "SeEn"]) = true := by decide

/-! ## updates naming unknown or protected objects -/

/-- **No effect** — for every update that names the protected recovery mailbox (create, delete,
    rename, change id, move a message into it), an unknown internal mailbox id, an unknown message,
    an unknown mailbox (where unknown mailboxes are not tolerated), or that is of an unknown type —
    and for the cases the code skips instead of refusing (rename of an unknown mailbox, a batch whose
    messages all name the protected mailbox, `MessageUpdated` of an unknown message without
    `AllowCreate`): no state update is queued and the index is exactly as before, except that the
    UIDVALIDITY generator (which is not part of the transaction) may have advanced. -/
theorem invalid_update_no_effect (cfg : Cfg) (db : DB) (u : Update) (h : Invalid cfg db u = true) :
    RolledBack db (apply cfg db u) := by
  simp only [Invalid, Bool.or_eq_true] at h
  rcases h with h | h
  · exact apply_err_rollback cfg db u (invalidErr_rejected cfg db u h)
  · rw [invalidSkip_ok cfg db u h]
    exact ⟨rfl, rfl⟩

/-- **…and it is refused with an error** where the update names a protected or unknown object
    (`InvalidErr`); the acknowledgement carries that error (`ack_once_waiter`). -/
theorem invalid_update_rejected (cfg : Cfg) (db : DB) (u : Update) (h : InvalidErr cfg db u = true) :
    (apply cfg db u).err ≠ none ∧ RolledBack db (apply cfg db u) :=
  ⟨invalidErr_rejected cfg db u h, apply_err_rollback cfg db u (invalidErr_rejected cfg db u h)⟩

/-- **A failing update of any kind — whatever the reason — leaves the index as it was** (the
    transaction is rolled back; only the UIDVALIDITY generator may have advanced). -/
theorem failed_update_rolled_back (cfg : Cfg) (db : DB) (u : Update) (h : (apply cfg db u).err ≠ none) :
    RolledBack db (apply cfg db u) :=
  apply_err_rollback cfg db u h

/-- **The protected mailbox is not protected against `MessageUpdated`** (found by the oracle,
    replayed on the real server: `U MSU 0 m1:seen:l1:0+@REC` → `ok`, the message appears in
    "Recovered Messages"): `applyMessageUpdated` has no recovery-mailbox check for a known message;
    here message `a` is put into the recovery mailbox with a new UID and success is acknowledged —
    while the same request through `MessageMailboxesUpdated` is refused. -/
theorem protected_mailbox_MessageUpdated_counterexample :
    let m : NewMsg := { rid := "a", flags := ["seen"], lit := "l1", mboxes := ["0", "mb1", recoveryRemoteID] }
    ProtectedViaMessageUpdated cfgToday sampleDB (.messageUpdated m false) = true ∧
    (apply cfgToday sampleDB (.messageUpdated m false)).err = none ∧
    (apply cfgToday sampleDB (.messageUpdated m false)).db.inMbox recoveryRemoteID "a" = true ∧
    sampleDB.inMbox recoveryRemoteID "a" = false ∧
    (apply cfgToday sampleDB (.messageMailboxesUpdated "a" m.mboxes ["seen"])).err = some .protectedMbox := by
  decide

/-- **…under the named hypothesis `NotViaMessageUpdated` the protection holds**: every update that
    names the recovery mailbox (`NamesProtected`), other than a `MessageUpdated` of a known message,
    is refused or skipped without touching the index and without queueing anything. -/
theorem protected_mailbox_partial (cfg : Cfg) (db : DB) (u : Update) (hprot : NamesProtected cfg u = true)
    (hnot : ProtectedViaMessageUpdated cfg db u = false) : RolledBack db (apply cfg db u) := by
  apply invalid_update_no_effect
  simp only [Invalid, Bool.or_eq_true]
  cases u with
  | mailboxCreated rid name => left; simpa [InvalidErr, NamesProtected] using hprot
  | mailboxDeleted rid => left; simpa [InvalidErr, NamesProtected] using hprot
  | mailboxUpdated rid name => left; simpa [InvalidErr, NamesProtected] using hprot
  | mailboxIDChanged iid rid =>
    left
    simp only [NamesProtected] at hprot
    simp only [InvalidErr, hprot, Bool.true_or]
  | messagesCreated ig ms => right; simpa [InvalidSkip, NamesProtected] using hprot
  | messageMailboxesUpdated rid mbs fl =>
    left
    simp only [NamesProtected] at hprot
    simp only [InvalidErr, hprot, Bool.true_or]
  | messageUpdated m ac =>
    right
    simp only [NamesProtected] at hprot
    simp only [ProtectedViaMessageUpdated, hprot, Bool.and_true, Option.isSome_eq_false_iff,
      Option.isNone_iff_eq_none] at hnot
    simp only [InvalidSkip, hnot, Option.isNone_none, hprot, Bool.or_true, Bool.and_self]
  | messageFlagsUpdated _ _ => simp [NamesProtected] at hprot
  | messageIDChanged _ _ => simp [NamesProtected] at hprot
  | messageDeleted _ => simp [NamesProtected] at hprot
  | uidValidityBumped => simp [NamesProtected] at hprot
  | noop => simp [NamesProtected] at hprot
  | unknown => simp [NamesProtected] at hprot

/-! ## the states client commands prepare before the update arrives

The theorems above quantify over every index inside `Inv` — so over every state a client can have put a
mailbox or a message into.  The ones below say so explicitly for the subscription tables, the part of
the index only clients write (`UNSUBSCRIBE`, `DELETE` of a subscribed mailbox; modelled in
Model/NamespaceSubs.lean (C14) and run on this index by `clientStep`, Model/ConnClientSubs.lean): the oracle
walks through kind × client-prepared state (`prep.<Kind>.<state>`) on the real server. -/

/-- **MailboxDeleted does not depend on the subscription** — a known, unprotected mailbox that no
    client is subscribed to (nothing is recorded in `deleted_subscriptions` when its row is deleted, so
    nothing of it is there to be taken out again): the update is valid, succeeds with exactly the
    described effect, every session that has the mailbox selected is told, and `deleted_subscriptions`
    only loses what it had under that name. -/
theorem mailboxDeleted_unsubscribed (cfg : Cfg) (db : DB) (rid : RID) (mb : Mbox) (hi : Inv db = true)
    (hr : rid ≠ cfg.recoveryRID) (hm : db.mboxByRid rid = some mb) (hs : mb.subscribed = false) :
    Valid cfg db (.mailboxDeleted rid) = true ∧
    Applied (.mailboxDeleted rid) db (apply cfg db (.mailboxDeleted rid)) ∧
    (apply cfg db (.mailboxDeleted rid)).evs = [.mailboxDeleted mb.iid] ∧
    (apply cfg db (.mailboxDeleted rid)).db.delSubs = db.delSubs.filter (fun e => e.1 != mb.name) := by
  have hv := valid_mailboxDeleted_unsubscribed cfg db rid mb hr hm hs
  refine ⟨hv, eff_MD cfg db ((inv_iff db).1 hi) rid hv, ?_, ?_⟩ <;>
    simp [apply, applyMailboxDeleted_unsubscribed cfg db rid mb hr hm hs, Res.ok]

/-- **A successful MailboxDeleted leaves nothing under the mailbox's name** — whatever the
    subscription was and whatever `deleted_subscriptions` held: afterwards no mailbox and no deleted
    subscription carries the name (LIST and LSUB no longer show it). -/
theorem mailboxDeleted_frees_the_name (cfg : Cfg) (db : DB) (rid : RID) (mb : Mbox) (hi : Inv db = true)
    (hm : db.mboxByRid rid = some mb) (hok : (apply cfg db (.mailboxDeleted rid)).err = none) :
    (∀ e ∈ (apply cfg db (.mailboxDeleted rid)).db.delSubs, e.1 ≠ mb.name) ∧
    (apply cfg db (.mailboxDeleted rid)).db.mboxes.any (fun m => m.name == mb.name) = false :=
  ⟨mailboxDeleted_no_subscription_left cfg db rid mb hm hok,
   mailboxDeleted_name_free cfg db ((inv_iff db).1 hi) rid mb hm hok⟩

/-- **…so the name can be used again** — after a successful MailboxDeleted a MailboxCreated that
    gives the name to a new mailbox (under the old remote id or one the index does not know) is a valid
    update (and therefore applied as described: `apply_effect_MailboxCreated`). -/
theorem mailboxCreated_valid_after_mailboxDeleted (cfg : Cfg) (db : DB) (rid rid' : RID) (mb : Mbox)
    (hi : Inv db = true) (hm : db.mboxByRid rid = some mb)
    (hok : (apply cfg db (.mailboxDeleted rid)).err = none)
    (hp : rid' ≠ cfg.recoveryRID) (hnew : rid' = rid ∨ db.known rid' = false)
    (hv : db.gen + 1 < cfg.maxUIDValidity) (hn : db.mboxes.length < cfg.maxMailboxes) :
    Valid cfg (apply cfg db (.mailboxDeleted rid)).db (.mailboxCreated rid' mb.name) = true := by
  have hfree := mailboxDeleted_name_free cfg db ((inv_iff db).1 hi) rid mb hm hok
  obtain ⟨hgen, hmb⟩ := mailboxDeleted_ok_fields cfg db rid mb hm hok
  simp only [apply] at hok ⊢
  simp only [Valid, Bool.and_eq_true, bne_iff_ne, ne_eq, Bool.not_eq_true', decide_eq_true_eq]
  refine ⟨⟨⟨⟨hp, ?_⟩, hfree⟩, by rw [hgen]; exact hv⟩, ?_⟩
  · simp only [DB.known, DB.mboxByRid, hmb, Option.isSome_eq_false_iff, Option.isNone_iff_eq_none,
      List.find?_eq_none, List.mem_filter, bne_iff_ne, ne_eq, beq_iff_eq, and_imp]
    intro m hmm hne heq
    rcases hnew with h | h
    · exact hne (heq.trans h)
    · simp only [DB.known, DB.mboxByRid, Option.isSome_eq_false_iff, Option.isNone_iff_eq_none,
        List.find?_eq_none, beq_iff_eq] at h
      exact h m hmm heq
  · rw [hmb]
    exact Nat.lt_of_le_of_lt (List.length_filter_le _ _) hn

/-- non-vacuity, and the chain on a concrete index: a client unsubscribes from `mb1` (the C14 model of
    UNSUBSCRIBE run on this index), the connector deletes it (applied, nothing of the name left), and the
    name is given to a new mailbox; a client deletes the subscribed `mb1` instead (the deleted subscription
    outlives the mailbox), and the connector creates a mailbox of that name again and deletes that one -/
example :
    (match clientStep sampleDB (.unsubscribe "mb1") with
     | .ok db1 =>
       (db1.mboxByRid "mb1").map (·.subscribed) == some false && Inv db1 &&
       (apply cfgToday db1 (.mailboxDeleted "mb1")).err == none &&
       !(apply cfgToday db1 (.mailboxDeleted "mb1")).db.known "mb1" &&
       (apply cfgToday (apply cfgToday db1 (.mailboxDeleted "mb1")).db (.mailboxCreated "mb9" "mb1")).err == none
     | .error _ => false) = true ∧
    (match clientStep sampleDB (.delete "mb1") with
     | .ok db1 =>
       db1.delSubs == [("mb1", "mb1")] && !db1.known "mb1" && Inv db1 &&
       (let db2 := (apply cfgToday db1 (.mailboxCreated "mb9" "mb1")).db
        db2.known "mb9" && db2.delSubs == [("mb1", "mb1")] &&
        (apply cfgToday db2 (.mailboxDeleted "mb9")).err == none &&
        (apply cfgToday db2 (.mailboxDeleted "mb9")).db.delSubs == [])
     | .error _ => false) = true := by
  decide


/-! ## non-vacuity: the hypotheses are satisfiable on a non-trivial index

`sampleDB` satisfies the invariant, and for every kind there is an update that is `Valid`, one that
`Restates`, and one that is `Invalid` in it. -/

example : Inv sampleDB = true ∧ Inv DB.initial = true := by decide

example :
    Valid cfgToday sampleDB (.mailboxCreated "mb2" "Archive") = true ∧
    Valid cfgToday sampleDB (.mailboxDeleted "mb1") = true ∧
    Valid cfgToday sampleDB (.mailboxUpdated "mb1" "Renamed") = true ∧
    Valid cfgToday sampleDB (.mailboxIDChanged 3 "mb1-new") = true ∧
    Valid cfgToday sampleDB (.messagesCreated false
      [{ rid := "c", flags := ["seen"], lit := "l1", mboxes := ["0", "mb1"] },
       { rid := "a", flags := [], lit := "l1", mboxes := ["mb1", "0"] },
       { rid := "c", flags := ["flagged"], lit := "l2", mboxes := ["mb1"] }]) = true ∧
    Valid cfgToday sampleDB (.messageMailboxesUpdated "b" ["mb1", "nowhere"] ["flagged"]) = true ∧
    Valid cfgToday sampleDB (.messageFlagsUpdated "a" ["seen", "answered"]) = true ∧
    Valid cfgToday sampleDB (.messageDeleted "a") = true ∧
    Valid cfgToday sampleDB (.messageUpdated { rid := "a", flags := ["draft"], lit := "l1", mboxes := ["0"] } false) = true ∧
    Valid cfgToday sampleDB (.messageUpdated { rid := "a", flags := ["draft"], lit := "l2", mboxes := ["mb1"] } false) = true ∧
    Valid cfgToday sampleDB (.messageUpdated { rid := "z", flags := [], lit := "l1", mboxes := ["0", "nowhere"] } true) = true ∧
    Valid cfgFixed sampleDB (.messageIDChanged 1 "b2") = true := by
  decide

example : NoGhost sampleDB [{ rid := "c", flags := ["seen"], lit := "l1", mboxes := ["0", "mb1"] },
    { rid := "a", flags := [], lit := "l1", mboxes := ["mb1", "0"] }] := by
  unfold NoGhost; decide

example :
    Restates cfgToday sampleDB (.mailboxCreated "mb1" "mb1") = true ∧
    Restates cfgToday sampleDB (.mailboxDeleted "never") = true ∧
    Restates cfgToday sampleDB (.mailboxUpdated "0" "INBOX") = true ∧
    Restates cfgToday sampleDB (.mailboxIDChanged 3 "mb1") = true ∧
    Restates cfgToday sampleDB (.messagesCreated true
      [{ rid := "a", flags := ["draft"], lit := "l9", mboxes := ["0", "mb1", "nowhere"] },
       { rid := "b", flags := [], lit := "l1", mboxes := ["0"] }]) = true ∧
    Restates cfgToday sampleDB (.messageMailboxesUpdated "a" ["mb1", "0", "nowhere"] ["seen"]) = true ∧
    Restates cfgToday sampleDB (.messageFlagsUpdated "a" ["seen"]) = true ∧
    Restates cfgToday sampleDB (.messageDeleted "gone") = true ∧
    Restates cfgToday sampleDB (.messageUpdated { rid := "a", flags := ["seen"], lit := "l1", mboxes := ["mb1", "0"] } false) = true ∧
    Restates cfgFixed sampleDB (.messageIDChanged 0 "a") = true := by
  decide

example :
    Invalid cfgToday sampleDB (.mailboxCreated recoveryRemoteID "x") = true ∧
    Invalid cfgToday sampleDB (.mailboxIDChanged 77 "x") = true ∧
    Invalid cfgToday sampleDB (.messagesCreated false [{ rid := "c", flags := [], lit := "l1", mboxes := ["nowhere"] }]) = true ∧
    Invalid cfgToday sampleDB (.messageMailboxesUpdated "nobody" ["0"] []) = true ∧
    Invalid cfgToday sampleDB (.messageFlagsUpdated "nobody" []) = true ∧
    Invalid cfgToday sampleDB (.messageUpdated { rid := "a", flags := [], lit := "l1", mboxes := ["nowhere"] } false) = true ∧
    Invalid cfgToday sampleDB (.messageUpdated { rid := "nobody", flags := [], lit := "l1", mboxes := ["0"] } false) = true ∧
    Invalid cfgToday sampleDB .unknown = true ∧
    NamesProtected cfgToday (.messageMailboxesUpdated "a" [recoveryRemoteID] []) = true := by
  decide

end Gluon.C06
