/-
C08 — the SQLite message index behaves like a plain relational model: the part of the statement that is about
the *client* around the statements (`internal/db_impl/sqlite3/client.go`, `utils/tracer.go`, `utils/wrappers.go`).

`Model/DB.lean` has one function per `db.ReadOnly` / `db.Transaction` method and gives every statement SQLite's
semantics *with foreign keys enforced*.  That is a model of "the index behind the db interface" only if

* foreign keys are enforced on every connection the statements can run on (the client owns a connection POOL;
  overlapping `Client.Read` calls make it open further connections, and a later, sequential `Client.Write`
  runs on whichever connection the pool hands out), and
* every way the public constructor can build the client — `sqlite3.NewBuilder(Debug(), Trace())` — reaches those
  same functions: the decorators of `utils/` pass every call through to its namesake, arguments and results
  unchanged.

Both are facts about the source; they are regenerated on every run (`harness/facts_dbclient.go` →
`Generated/Facts/DbClient.lean`) and decided here.  A source whose shape the translator does not understand
produces facts that fail these theorems.  The `db` correspondence exercises the same two things on the real
client: sessions run against all four variants, and `grow:<k>` makes the pool grow before and in the middle of
sessions (`harness/d_db_client.go`).
-/
import GluonModel.Model.DBClientSite
import GluonModel.Generated.Facts.DbClient

namespace Gluon.C08

open Gluon.DB

/-- **Foreign keys are enforced on every connection of the pool** — the assumption under every `.fk` error,
    every ON DELETE CASCADE and every ON DELETE SET NULL of the model (`deleteMailboxWithRemoteID`,
    `deleteMessagesChunk`, `insertMsgFlags`, `addMessagesToMailbox` …): the connection string every connection is
    opened with switches `foreign_keys` on (or the pool is a single connection that `Client.Init` configures, or a
    per-connection hook does it).  `PRAGMA foreign_keys = ON` in `Client.Init` alone does not count: it reaches
    one connection of the pool. -/
theorem foreign_keys_on_every_connection : Facts.dbConn.fkEveryConnection = true := by decide

/-- the condition is not satisfied by the pragma in `Client.Init`: the same facts without the connection-string
    option fail it (what a sequential test can never see) -/
example : ({ Facts.dbConn with dsnOptions := Facts.dbConn.dsnOptions.filter (·.1 != "_fk") }).fkEveryConnection = false := by
  decide

set_option maxRecDepth 8192 in -- `decide` walks a table of ~85 rows; room for three times as many
/-- **Every decorator method is its namesake** — each method of `ReadTracer`, `WriteTracer` (what `Trace()` puts
    around `db.ReadOnly` / `db.Transaction`) and of `DBWrapper`, `TXWrapper`, `DebugQueryWrapper`,
    `DebugStmtWrapper` (what every statement goes through, `Debug()` adding the last two) consists of logging and
    exactly one call: the method of the same name on the wrapped value, with the method's own parameters in their
    order, and it returns what that call returns.  So the model's function for a method is the model of that
    method for every client variant. -/
theorem decorators_delegate_to_namesake :
    ∀ d ∈ Facts.dbDelegations, d.faithful delegationAliases Facts.dbWrapperTypes = true := by decide

/-- all six decorator types are in the table, with every method of both interfaces (a table that lost its rows
    would make the theorem above vacuous): 40 read methods, 29 more write methods, 4 statement methods each -/
example :
    (Facts.dbDelegations.filter (·.recv == "ReadTracer")).length = 40 ∧
    (Facts.dbDelegations.filter (·.recv == "WriteTracer")).length = 29 ∧
    ∀ w ∈ ["DBWrapper", "TXWrapper", "DebugQueryWrapper", "DebugStmtWrapper"],
      (Facts.dbDelegations.filter (·.recv == w)).length = 4 := by decide

/-- **`Client.Read` / `Client.Write` decorate what they built** — where `client.go` assigns a `ReadTracer`,
    `WriteTracer` (with its embedded `ReadTracer`) or `DebugQueryWrapper` to a variable, the decorated value is
    that variable's previous value: the tracer of a transaction reads through the same transaction it writes
    through, the debug wrapper logs the statements of the same connection / transaction. -/
theorem decorators_wrap_what_they_replace : ∀ w ∈ Facts.dbWirings, w.wrapsTarget = true := by decide

/-- both decorations are really in `Client.Read` and `Client.Write` -/
example : (Facts.dbWirings.filter fun w => w.type == "ReadTracer" && w.fn == "Client.Read").length ≥ 1 ∧
    (Facts.dbWirings.filter fun w => w.type == "WriteTracer" && w.fn == "Client.Write").length ≥ 1 ∧
    (Facts.dbWirings.filter fun w => w.type == "WriteTracer.ReadTracer" && w.field == "RD").length ≥ 1 ∧
    (Facts.dbWirings.filter fun w => w.type == "DebugQueryWrapper" && w.field == "QW").length ≥ 2 := by decide

/-- a forwarding slip is seen: a `WriteTracer` method that calls a look-alike of the same signature fails `faithful` -/
example : Delegation.slipExample.faithful delegationAliases Facts.dbWrapperTypes = false := by decide

end Gluon.C08
