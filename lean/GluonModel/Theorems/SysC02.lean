/-
C02 at SYSTEM level — at quiescence every session's view converges to the authoritative mailbox, for the whole
multi-session system: how updates travel between sessions.

The model is `Gluon.Sys` (Model/System.lean): the authoritative index (mailbox rows with UID counters, one flag
list per message) and a list of sessions, each with its snapshot, the responders applied but not yet flushed
(`state.res`) and its update queue (`inbox`: delivered, not yet applied).  `step` runs one op: a command of session
`i` (APPEND, STORE ±FLAGS / FLAGS incl. `.SILENT`, EXPUNGE, COPY, MOVE — the issuer applies its own updates AT ONCE,
everybody else gets them queued; then the command's flushes), a connector-originated change (queued to everybody),
`drain i k` (the session goroutine takes `k` updates from its queue: the schedule, the hold/release hook),
`flush i permit` (NOOP / any FETCH-class command), `select`, `unselect`.  Update filters are evaluated when the update
is applied (`internal/state/filters.go`).  Tied to the real server by the `sys` correspondence dialect.

The session side (snapshot, `popResponders`, `flushResponses`) is the session-level model of `Theorems/C02.lean`, whose
theorems are reused: the system invariant `SysInv` says that the index is well formed and that EVERY session with a
selected mailbox satisfies the session-level history invariant against the index, where the session's queue of
responders is `res ++ pendOf inbox` (what is applied, then what the update queue will contribute).

* at full strength the invariant is FALSE of the code: `own_update_overtakes_foreign` (the r3a history of
  corpus/C02, reproduced on the real server by the `sys` dialect);
* `invariant_along_trace_partial` proves it for every trace under the named hypothesis `NoOvertake`
  (Lemmas/SysInv.lean), and `converges_partial` derives convergence at quiescence.

Property theorems only; lemmas live in `Lemmas/Sys*.lean`.
-/
import GluonModel.Lemmas.SysConverge

namespace Gluon.C02Sys

open Gluon Gluon.Sys

/-- **The invariant holds initially** — any number of logged-in sessions, none selected, any number of empty
    mailboxes. -/
theorem init_invariant (nsess nbox : Nat) : SysInv (Sys.init nsess nbox) := init_inv nsess nbox

/-- **(a) One step keeps the invariant** (partial: `OpNoOvertake`) — for EVERY system state satisfying the
    invariant and EVERY op (command of any session, connector change, drain of any number of updates, flush with
    either `permitExpunge`, select, unselect) with well-formed arguments: if the step does not let an own update
    overtake a queued one (`OpNoOvertake`: trivially true of drain / flush / unselect / connector changes), the
    invariant holds afterwards — the index is well formed and every selected session still satisfies the
    session-level history invariant against the NEW index. -/
theorem step_keeps_invariant_partial {s : Sys} (h : SysInv s) (op : SysOp) (hv : op.Valid) (hno : OpNoOvertake s op) :
    SysInv (step s op).1 := step_inv h op hv hno

/-- **(a) The invariant along every trace** (partial: `NoOvertake`) — induction over arbitrary op sequences.
    Excluded are exactly the schedules in which a session runs a mutating command (or SELECT) while an update
    addressed to its mailbox is still in its update queue and the command hands responders to its own state. -/
theorem invariant_along_trace_partial {s : Sys} (h : SysInv s) (ops : List SysOp) (hv : ∀ op ∈ ops, op.Valid)
    (hno : NoOvertake s ops) : SysInv (exec s ops) := exec_inv h ops hv hno

/-- **What the invariant says about one session** — handling first the responders the session has applied but not
    flushed, then what its queued updates will contribute, fails nowhere and ends in a snapshot identical to the
    authoritative view of its mailbox (same messages, same UIDs, same order, same flags ignoring `\Recent`). -/
theorem session_replay_is_view {s : Sys} (h : SysInv s) {i : Nat} {me : Sys.Sess} {mb : Nat} (hi : s.sess[i]? = some me)
    (hs : me.sel = some mb) :
    Conv (sidOf i) me.snap (me.res ++ pendOf (sidOf i) mb me.inbox) (s.idx.view mb) := by
  have := h.sess i me hi
  unfold SessInv at this
  rw [hs] at this
  exact this.2.1.conv

/-- **Reachable states** (partial) — from the initial state, along every well-formed `NoOvertake` trace, every
    session's replay of responders-then-queue yields the authoritative view. -/
theorem reachable_replay_is_view_partial (nsess nbox : Nat) (ops : List SysOp) (hv : ∀ op ∈ ops, op.Valid)
    (hno : NoOvertake (Sys.init nsess nbox) ops) {i : Nat} {me : Sys.Sess} {mb : Nat}
    (hi : (exec (Sys.init nsess nbox) ops).sess[i]? = some me) (hs : me.sel = some mb) :
    Conv (sidOf i) me.snap (me.res ++ pendOf (sidOf i) mb me.inbox) ((exec (Sys.init nsess nbox) ops).idx.view mb) :=
  session_replay_is_view (invariant_along_trace_partial (init_invariant nsess nbox) ops hv hno) hi hs

/-- **The schedules of the history runner are covered** — if every session's queue is EMPTY whenever it runs a command
    or SELECTs (what the runner's barrier before every session step establishes; connector changes, drains and
    flushes are unconstrained), the trace satisfies `NoOvertake`. -/
theorem queueEmpty_is_noOvertake {s : Sys} {ops : List SysOp} (h : QueueEmpty s ops) : NoOvertake s ops :=
  h.noOvertake

/-- **(b) Convergence at quiescence, one system state** — in a state satisfying the invariant, let every session in
    turn apply its whole queue (`drain i k`, `k` at least the queue length) and answer a NOOP (`flush i true`), with
    no further commands: the index is unchanged, and every session that has a mailbox selected ends with a
    snapshot identical to the authoritative view of that mailbox — what a newly opened session sees
    (`snapOf (view)`) — with nothing pending. -/
theorem settle_converges {s : Sys} (h : SysInv s) (k : Nat) (hk : ∀ me ∈ s.sess, me.inbox.length ≤ k) :
    (settleAll k s).idx = s.idx ∧
    ∀ (i : Nat) (me : Sys.Sess) (mb : Nat), (settleAll k s).sess[i]? = some me → me.sel = some mb →
      SameView me.snap (s.idx.view mb) ∧ me.res = [] ∧ me.inbox = [] := by
  obtain ⟨e, _, hs⟩ := settleAll_spec h (fun i me hi => hk me (List.mem_of_getElem? hi))
  exact ⟨e, fun i me mb hi hsel => hs i me hi mb hsel⟩

/-- **(b) C02 for the system** (partial: `NoOvertake`) — from the initial state, after ANY well-formed trace of
    commands of any sessions, connector changes, drains, flushes, selects and unselects that satisfies `NoOvertake`,
    quiescence makes every session's snapshot identical to the authoritative mailbox. -/
theorem converges_partial (nsess nbox : Nat) (ops : List SysOp) (hv : ∀ op ∈ ops, op.Valid)
    (hno : NoOvertake (Sys.init nsess nbox) ops) (k : Nat)
    (hk : ∀ me ∈ (exec (Sys.init nsess nbox) ops).sess, me.inbox.length ≤ k) :
    let s := exec (Sys.init nsess nbox) ops
    ∀ (i : Nat) (me : Sys.Sess) (mb : Nat), (settleAll k s).sess[i]? = some me → me.sel = some mb →
      SameView me.snap ((settleAll k s).idx.view mb) ∧ me.res = [] ∧ me.inbox = [] := by
  intro s i me mb hi hsel
  obtain ⟨e, hs⟩ := settle_converges (invariant_along_trace_partial (init_invariant nsess nbox) ops hv hno) k hk
  rw [e]
  exact hs i me mb hi hsel

/-! ### The full statement is false of the code as it stands -/

/-- the r3a history (corpus/C02/r3a-own-store-overtakes-held-foreign-store.hist): session 0 appends a message;
    session 1 selects and stores `+FLAGS (\Seen)` — the update sits in session 0's queue (`X HOLD 0`); session 0
    stores `FLAGS (\Flagged)`: its own update is applied at once, BEFORE the queued one -/
def r3a : List SysOp :=
  [ .select 0 0, .cmd 0 (.append 0 []), .drain 1 9, .select 1 0,
    .cmd 1 (.store [1] .add ["\\seen"] false),
    .cmd 0 (.store [1] .set ["\\flagged"] false) ]

/-- **Own update overtakes an earlier foreign update** — a reachable state (all arguments well formed) in which the
    invariant is false and stays false: after quiescence session 0 shows message 1 with `\Flagged \Seen`, the
    authoritative mailbox (and session 1, and any newly opened session) shows `\Flagged` only, and no further
    drain or NOOP repairs it.  The trace violates `NoOvertake` at its last command, and only there. -/
theorem own_update_overtakes_foreign :
    let s := exec (Sys.init 2 3) r3a
    let q := settleAll 9 s
    (∀ op ∈ r3a, op.Valid) ∧
    (q.sess[0]?).map (·.snap) = some [Snap.mkMsg 1 1 ["\\flagged", "\\seen"]] ∧
    (q.sess[1]?).map (·.snap) = some [Snap.mkMsg 1 1 ["\\flagged"]] ∧
    q.idx.view 0 = [{ id := 1, uid := 1, flags := ["\\flagged"] }] ∧
    ¬ SameView [Snap.mkMsg 1 1 ["\\flagged", "\\seen"]] (q.idx.view 0) ∧
    NoOvertake (Sys.init 2 3) (r3a.take 5) ∧ ¬ NoOvertake (Sys.init 2 3) r3a := by
  decide

/-- … hence the invariant does not hold in that reachable state: `invariant_along_trace_partial` cannot be stated
    without a hypothesis on the schedule. -/
theorem invariant_false_without_hypothesis : ¬ SysInv (exec (Sys.init 2 3) r3a) := by
  intro h
  have hk : ∀ me ∈ (exec (Sys.init 2 3) r3a).sess, me.inbox.length ≤ 9 := by decide
  obtain ⟨_, hs⟩ := settle_converges h 9 hk
  have h0 : (settleAll 9 (exec (Sys.init 2 3) r3a)).sess[0]? =
      some { sel := some 0, snap := [Snap.mkMsg 1 1 ["\\flagged", "\\seen"]], res := [], inbox := [] } := by decide
  have := (hs 0 _ 0 h0 rfl).1
  revert this
  decide

/-! ### Non-vacuity -/

namespace Ex
/-- three sessions on two mailboxes: appends, a connector-created message, flag changes from the connector and from
    two sessions (one `.SILENT`), a copy, a move, an expunge; session 2 is "held" (it drains only at the very end,
    its queue holds seven updates meanwhile) but runs no command while held; sessions 0 and 1 drain before each of
    their commands, flush with updates still queued elsewhere -/
def ops : List SysOp :=
  [ .select 0 0, .select 1 0, .select 2 0,
    .cmd 0 (.append 0 ["\\seen"]), .conn (.create 0 []), .drain 1 9,
    .flush 0 false, .drain 0 9,
    .cmd 1 (.store [1, 2] .add ["\\flagged", "\\deleted"] false),
    .conn (.setFlag 2 "\\seen" true), .drain 0 1, .flush 0 false, .drain 0 9,
    .cmd 0 (.copy [2] 1), .cmd 0 (.store [1] .rem ["\\deleted"] true),
    .drain 1 9, .cmd 1 (.move [2] 1), .cmd 1 .expunge,
    .flush 2 false, .drain 0 9, .flush 0 true ]
end Ex

/-- the hypotheses of `converges_partial` are satisfiable by a non-trivial trace: it is well formed, satisfies
    `NoOvertake` (though not `QueueEmpty`-free of pending work: session 2's queue holds 8 updates at the end), and
    after quiescence all three sessions show the authoritative INBOX (message 1, `\Seen`), mailbox 1 holds the copy
    and the moved message -/
example :
    (∀ op ∈ Ex.ops, op.Valid) ∧ NoOvertake (Sys.init 3 2) Ex.ops ∧
    ((exec (Sys.init 3 2) Ex.ops).sess[2]?).map (·.inbox.length) = some 8 ∧
    (settleAll 9 (exec (Sys.init 3 2) Ex.ops)).idx.view 0 = [{ id := 1, uid := 1, flags := ["\\seen"] }] ∧
    ((settleAll 9 (exec (Sys.init 3 2) Ex.ops)).idx.view 1).map (·.uid) = [2] := by
  decide

/-- `converges_partial` applied to it: session 2, which never drained before, ends with the authoritative view -/
example : ∀ (me : Sys.Sess), (settleAll 9 (exec (Sys.init 3 2) Ex.ops)).sess[2]? = some me → me.sel = some 0 →
    SameView me.snap ((settleAll 9 (exec (Sys.init 3 2) Ex.ops)).idx.view 0) ∧ me.res = [] ∧ me.inbox = [] :=
  fun me hi hs => converges_partial 3 2 Ex.ops (by decide) (by decide) 9 (by decide) 2 me 0 hi hs

/-- `step_keeps_invariant_partial` / `invariant_along_trace_partial` apply at every prefix, e.g. in the state where
    session 0 flushes (`permitExpunge = false`) while one update is applied-but-unflushed and one is still queued -/
example : SysInv (exec (Sys.init 3 2) (Ex.ops.take 12)) :=
  invariant_along_trace_partial (init_invariant 3 2) _ (by decide) (by decide)

/-- the queue-empty schedules of the history runner: a trace in which every session drains right before each of its
    commands -/
example : QueueEmpty (Sys.init 2 2)
    [ .select 0 0, .select 1 0, .cmd 0 (.append 0 []), .drain 1 9, .cmd 1 (.store [1] .add ["\\seen"] false),
      .drain 0 9, .cmd 0 .expunge ] := by
  decide

end Gluon.C02Sys
