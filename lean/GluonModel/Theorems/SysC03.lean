/-
C03 at SYSTEM level — EXPUNGE / UID EXPUNGE / CLOSE remove what is `\Deleted` IN THE MAILBOX, because a session's
knowledge of `\Deleted` is the `\Deleted` column of ITS mailbox, whatever mailbox a flag change was made in.

`Theorems/C03.lean` proves the action level: `Mailbox.Expunge` removes the messages it is handed (`expunge_ref`), and
that is the reference's EXPUNGE *if* the list it is handed is the `\Deleted` entries of the authoritative mailbox
(`expunge_ref_in_sync`).  The code takes that list from the session's SNAPSHOT (`snapMsg.toExpunge`,
`getAllMessagesIDsMarkedDelete`), and the snapshot is kept up to date by the flag updates of every session: flags are
shared per message, so a STORE made in mailbox *b* is broadcast to the sessions that have mailbox *a* selected, and
`(*fetch).handle` has to leave their `\Deleted` alone (`cameFromDifferentMailbox`) — for additions, removals and
replacements alike.  This file closes that gap on the multi-session model `Gluon.Sys` (Model/System.lean: index with
per-mailbox `\Deleted` rows and per-message flag lists, sessions with snapshot / responders / update queue, STORE of
either mailbox broadcast with `otherMbox = (selected ≠ mailbox of the STORE)`), tied to the real server by the
`c03-sys` correspondence dialect (cross-mailbox histories) and the `sys` dialect of C02:

* `marks_follow_flags`        along EVERY trace (no hypothesis) each snapshot entry's expunge mark is "its flags hold
                              `\Deleted`";
* `settled_marks_are_deleted_column`   in a state satisfying the system invariant, a session with nothing pending
                              marks exactly the `\Deleted` rows of its own mailbox;
* `expunge_in_sync_is_reference`       its EXPUNGE is the reference EXPUNGE of that mailbox (`Box.expunged`, which is
                              `MailboxRef.refExpunge` on the table: `expunged_is_refExpunge`) and touches nothing else;
* `expunge_after_settle_partial`       … in every state reachable by a `NoOvertake` trace, after quiescence;
* `expunge_removes_undeleted_when_overtaken`   without `NoOvertake` it is FALSE of the code: kernel-checked witness in
                              which EXPUNGE removes a message no row marks `\Deleted` (replayed on the real server).

Property theorems only; lemmas live in `Lemmas/SysMarked.lean`.
-/
import GluonModel.Lemmas.SysMarked

namespace Gluon.C03Sys

open Gluon Gluon.Sys

/-- **The expunge marks follow the flags, along every trace** — from the initial state, after ANY sequence of
    commands of any sessions (STORE in any mailbox, `.SILENT` or not, APPEND, COPY, MOVE, EXPUNGE), connector
    changes, drains, flushes, selects and unselects, with NO hypothesis on the schedule: in every session's snapshot
    `toExpunge` (what EXPUNGE / UID EXPUNGE / CLOSE go by) of an entry is exactly "the entry's flags hold
    `\Deleted`". -/
theorem marks_follow_flags (nsess nbox : Nat) (ops : List SysOp) : Sys.Marked (exec (Sys.init nsess nbox) ops) :=
  exec_marked (init_marked nsess nbox) ops

/-- **A session with nothing pending marks exactly the `\Deleted` rows of ITS mailbox** — in a state satisfying the
    system invariant, for a session that has applied and flushed everything (no responder waiting, nothing in its
    update queue addressed to its mailbox): the messages its EXPUNGE would take are the messages of the rows of the
    selected mailbox whose `deleted` column is set, in table order — whatever the `\Deleted` columns of the OTHER
    mailboxes holding the same messages say, and whatever mailbox the flag changes it has seen were made in. -/
theorem settled_marks_are_deleted_column {s : Sys} (h : SysInv s) (hm : Sys.Marked s) {i : Nat} {me : Sys.Sess}
    {mb : Nat} (hi : s.sess[i]? = some me) (hs : me.sel = some mb) (hres : me.res = [])
    (hq : pendOf (sidOf i) mb me.inbox = []) :
    (me.snap.filter (·.toExpunge)).map (·.id) = ((s.idx.box mb).rows.filter (·.deleted)).map (·.id) := by
  have hS := h.sess i me hi
  unfold SessInv at hS
  rw [hs] at hS
  have hconv := hS.2.1.conv
  simp only [Sess.virt, hres, hq, List.append_nil, Index.mbox] at hconv
  obtain ⟨s', hrun, hsv⟩ := conv_iff.mp hconv
  simp only [run, Option.some.injEq] at hrun
  subst hrun
  exact marks_of_sameView h.wf.noDel _ _ (hm me (List.mem_of_getElem? hi)) hsv

/-- **EXPUNGE of a session in sync is the reference EXPUNGE** — same hypotheses: after the command the selected
    mailbox has lost exactly its `\Deleted` rows (order, UIDs and UIDNEXT kept), every other mailbox — in particular
    the other mailboxes holding the same messages, with their own `\Deleted` — is unchanged, and so are all message
    flags. -/
theorem expunge_in_sync_is_reference {s : Sys} (h : SysInv s) (hm : Sys.Marked s) {i : Nat} {me : Sys.Sess}
    {mb : Nat} (hi : s.sess[i]? = some me) (hs : me.sel = some mb) (hres : me.res = [])
    (hq : pendOf (sidOf i) mb me.inbox = []) :
    (step s (.cmd i .expunge)).1.idx.box mb = (s.idx.box mb).expunged ∧
    (∀ mb', mb' ≠ mb → (step s (.cmd i .expunge)).1.idx.box mb' = s.idx.box mb') ∧
    (step s (.cmd i .expunge)).1.idx.flags = s.idx.flags ∧ (step s (.cmd i .expunge)).1.idx.nextId = s.idx.nextId := by
  have hS := h.sess i me hi
  unfold SessInv at hS
  rw [hs] at hS
  exact expunge_of_marks h.wf hi hs hS.1 hres (settled_marks_are_deleted_column h hm hi hs hres hq)

/-- `Box.expunged` is `MailboxRef.refExpunge` read on one mailbox table: the entries whose message is among the
    messages of the `\Deleted` entries are removed -/
theorem expunged_is_refExpunge {s : Sys} (h : SysInv s) (mb : Nat) :
    (s.idx.box mb).expunged.abs =
      (s.idx.box mb).abs.remove (((s.idx.box mb).abs.entries.filter (·.deleted)).map (·.msg)) := by
  apply abs_expunged
  have := (h.wf.box mb).view.nodup
  rwa [Index.mbox, Index.view_ids] at this

/-- **C03, EXPUNGE, for the system** (partial: `NoOvertake`, the named hypothesis of `Theorems/SysC02.lean`) — from
    the initial state, after ANY well-formed `NoOvertake` trace — any number of sessions selected in any mailboxes,
    messages copied into several mailboxes, STORE ±FLAGS / FLAGS naming `\Deleted` alone or with other flags, `.SILENT`
    or not, issued in ANY of the mailboxes that hold a message — once every session has applied its queue and
    answered a NOOP, the EXPUNGE of any session removes exactly the `\Deleted` rows of its selected mailbox and
    changes nothing else. -/
theorem expunge_after_settle_partial (nsess nbox : Nat) (ops : List SysOp) (hv : ∀ op ∈ ops, op.Valid)
    (hno : NoOvertake (Sys.init nsess nbox) ops) (k : Nat)
    (hk : ∀ me ∈ (exec (Sys.init nsess nbox) ops).sess, me.inbox.length ≤ k) :
    let q := settleAll k (exec (Sys.init nsess nbox) ops)
    ∀ (i : Nat) (me : Sys.Sess) (mb : Nat), q.sess[i]? = some me → me.sel = some mb →
      (step q (.cmd i .expunge)).1.idx.box mb = (q.idx.box mb).expunged ∧
      (∀ mb', mb' ≠ mb → (step q (.cmd i .expunge)).1.idx.box mb' = q.idx.box mb') ∧
      (step q (.cmd i .expunge)).1.idx.flags = q.idx.flags := by
  intro q i me mb hi hs
  have hinv : SysInv (exec (Sys.init nsess nbox) ops) := exec_inv (init_inv nsess nbox) ops hv hno
  obtain ⟨_, hinvq, hset⟩ := settleAll_spec hinv (k := k) (fun i me hi => hk me (List.mem_of_getElem? hi))
  have hmq : Sys.Marked q := settleAll_marked (exec_marked (init_marked nsess nbox) ops) k
  obtain ⟨_, hres, hin⟩ := hset i me hi mb hs
  have hq : pendOf (sidOf i) mb me.inbox = [] := by rw [hin]; rfl
  obtain ⟨h1, h2, h3, _⟩ := expunge_in_sync_is_reference hinvq hmq hi hs hres hq
  exact ⟨h1, h2, h3⟩

/-! ### Without the schedule hypothesis the statement is false of the code -/

/-- session 0 appends two messages; session 1 selects the mailbox and stores `+FLAGS (\Deleted)` on message 1 — the
    update sits in session 0's queue (`X HOLD 0`); session 0 stores `FLAGS (\Flagged)` on message 1: the index clears
    the row's `\Deleted`, session 0 applies its own update at once, BEFORE the queued `+FLAGS (\Deleted)` -/
def overtake : List SysOp :=
  [ .select 0 0, .cmd 0 (.append 0 []), .cmd 0 (.append 0 []), .drain 1 9, .select 1 0,
    .cmd 1 (.store [1] .add ["\\deleted"] false),
    .cmd 0 (.store [1] .set ["\\flagged"] false) ]

/-- **On an overtaking schedule EXPUNGE removes a message that is not `\Deleted`** — `expunge_after_settle_partial`
    cannot be stated without `NoOvertake`: after the trace above and quiescence NO row of the mailbox is `\Deleted`
    (any newly opened session sees message 1 with `\Flagged` only), session 0's snapshot nevertheless shows message 1
    as `\Deleted`, and its EXPUNGE removes the message.  The trace is well formed and violates `NoOvertake` (at its last
    command).  Reproduced on the real server: corpus/C03/sys-overtake-expunge.ops (the C03 face of the known finding
    K-own-update-overtakes-foreign of C02). -/
theorem expunge_removes_undeleted_when_overtaken :
    let q := settleAll 9 (exec (Sys.init 2 1) overtake)
    (∀ op ∈ overtake, op.Valid) ∧ ¬ NoOvertake (Sys.init 2 1) overtake ∧
    q.idx.box 0 = { rows := [⟨1, 1, false⟩, ⟨2, 2, false⟩], uidNext := 3 } ∧
    (q.sess[0]?).map (fun me => (me.snap.filter (·.toExpunge)).map (·.id)) = some [1] ∧
    (step q (.cmd 0 .expunge)).1.idx.box 0 = { rows := [⟨2, 2, false⟩], uidNext := 3 } := by
  decide

/-! ### Non-vacuity: `\Deleted` of one message in two mailboxes, changed from either side -/

namespace Ex
/-- two messages appended to mailbox 0 and copied to mailbox 1; session 0 stays in mailbox 0, session 1 in mailbox 1.
    Session 0 marks message 2 `\Deleted` in mailbox 0; session 1 then runs `-FLAGS (\Deleted \Seen)` on message 2 and
    `+FLAGS.SILENT (\Deleted)` on message 1 IN MAILBOX 1 -/
def ops : List SysOp :=
  [ .select 0 0, .cmd 0 (.append 0 []), .cmd 0 (.append 0 ["\\seen"]), .cmd 0 (.copy [1, 2] 1), .drain 1 9, .select 1 1,
    .cmd 0 (.store [2] .add ["\\deleted"] false), .drain 1 9,
    .cmd 1 (.store [2] .rem ["\\deleted", "\\seen"] false),
    .cmd 1 (.store [1] .add ["\\deleted"] true) ]
end Ex

/-- the trace satisfies the hypotheses; after quiescence session 0 — which saw a `-FLAGS (\Deleted …)` on message 2 and
    a `+FLAGS (\Deleted)` on message 1, both made in mailbox 1 — still marks message 2 and only message 2 (its `\Seen`,
    a shared flag, is gone), and session 1 marks message 1 only -/
example :
    (∀ op ∈ Ex.ops, op.Valid) ∧ NoOvertake (Sys.init 2 2) Ex.ops ∧
    ((settleAll 9 (exec (Sys.init 2 2) Ex.ops)).sess[0]?).map (·.snap) =
      some [Snap.mkMsg 1 1 [], Snap.mkMsg 2 2 ["\\deleted"]] ∧
    ((settleAll 9 (exec (Sys.init 2 2) Ex.ops)).sess[1]?).map (fun me => (me.snap.filter (·.toExpunge)).map (·.id)) =
      some [1] := by
  decide

/-- `expunge_after_settle_partial` applied to it: session 0's EXPUNGE removes message 2 from mailbox 0 and leaves
    mailbox 1 — where message 1 is `\Deleted` and message 2 is not — alone -/
example :
    let q := settleAll 9 (exec (Sys.init 2 2) Ex.ops)
    (step q (.cmd 0 .expunge)).1.idx.box 0 = { rows := [⟨1, 1, false⟩], uidNext := 3 } ∧
    (step q (.cmd 0 .expunge)).1.idx.box 1 = { rows := [⟨1, 1, true⟩, ⟨2, 2, false⟩], uidNext := 3 } := by
  decide

example : ∀ (me : Sys.Sess), (settleAll 9 (exec (Sys.init 2 2) Ex.ops)).sess[0]? = some me → me.sel = some 0 →
    (step (settleAll 9 (exec (Sys.init 2 2) Ex.ops)) (.cmd 0 .expunge)).1.idx.box 0 =
      ((settleAll 9 (exec (Sys.init 2 2) Ex.ops)).idx.box 0).expunged :=
  fun me hi hs => (expunge_after_settle_partial 2 2 Ex.ops (by decide) (by decide) 9 (by decide) 0 me 0 hi hs).1

end Gluon.C03Sys
