/-
C15 — SEARCH returns exactly the messages of the session's view that match.

Property theorems only; helper lemmas live in `GluonModel/Lemmas/Search.lean`.  The model is
`GluonModel/Model/Search.lean` (`search` = `Mailbox.Search`, `build` = `buildSearchOp`, `handleSearch`), the
RFC 3501 reference semantics is `GluonModel/Spec/SearchSpec.lean` (`sat`, `expected`).  The model is tied
to the real server by the wire-level oracle `c15search` (harness/o_search.go) whose verdicts come from
`GluonModel/Driver/DSearch.lean`.  Which header `MsgData.hdr` a stored literal has is `GluonModel/Model/SearchHeader.lean`
(`hdrOfLiteral`: C13's entry parser + `unfold` = `mergeMultiline`; correspondence `c15-unfold`, judge-c15-hdr).

Every theorem is for every key tree (any depth), every snapshot and every message data.  `u` is the UID
flag of the command (`false`: SEARCH, `true`: UID SEARCH), `dec` the charset decoder of the command.
`Snap.Inv` (strictly ascending UIDs) is the snapshot invariant of C01/C05; `UidsPos` (no UID 0) is needed
for UID SEARCH only, because `Mailbox.Search` drops zero entries of its result array.

The current code is NOT the RFC for every input.  Each difference has a witness theorem here (replayed on
the real server by the oracle, scenario of the same name) and the main theorem `search_is_filter_partial`
carries the corresponding named hypothesis (`Search.LeafOK`, one clause per kind of key):

  SINCE                ZoneFree      — `convertToDateWithoutTZ(date)` reads the day in the zone the internal date
                                       was stored with, BEFORE / ON (and FETCH INTERNALDATE) read it in UTC
  HEADER FROM TO CC    FieldOK       — `Header.Get` looks at the first field of that name only, and answers ""
  BCC SUBJECT                          for an absent field ("" contains ""): an empty key matches messages
                                       without the field
  SENTBEFORE/ON/SINCE  SentParsable  — a Date header `rfc5322.ParseDateTime` rejects fails the whole SEARCH
  UID                  s ≠ [], SetSmall, NoStarAbove — `resolveUID` fails on an empty mailbox; `n:*` above the
                                       highest UID selects nothing (C16 leaves this case unjudged); `SetSmall`
                                       (numbers < 2^32) is what the command parser guarantees
  sequence set         SetSmall, NoStarAbove — `n:*` above the count selects nothing
(A CHARSET that x/text knows by name only used to panic; repaired in /repo, see `charset_unsupported_refused`.)
-/
import GluonModel.Lemmas.Search
import GluonModel.Lemmas.SearchSched
import GluonModel.Lemmas.SearchHeader

namespace Gluon.C15

open Gluon Gluon.Search Gluon.SearchSpec

/-! ## Shape of every answer -/

/-- **Ascending, duplicate-free, from the view** — whatever the keys, an answer lists numbers of the
    session's own view (sequence numbers `1..n`, or the UIDs of the snapshot), strictly ascending (hence
    without duplicates), in view order. -/
theorem search_ascending_nodup (u : Bool) (s : Snap) (data : MsgId → MsgData) (dec : Bytes → Option Bytes)
    (keys : List Key) (hinv : Snap.Inv s) (hpos : u = true → UidsPos s) {r : List Nat}
    (h : search u s data dec keys = .ok r) :
    r.Pairwise (· < ·) ∧ r.Nodup ∧ r.Sublist (nums u 0 s) := by
  obtain ⟨h1, h2⟩ := search_ascending u s data dec keys hinv hpos h
  exact ⟨h1, h1.imp (fun h => Nat.ne_of_lt h), h2⟩

/-! ## SEARCH is the filter of the view by the RFC predicate -/

/-- **search_is_filter (partial)** — if every key of the command satisfies the named hypothesis of its
    kind (`Conforming`: `LeafOK` for every leaf; nothing is asked of flag, size, BEFORE, ON, BODY/TEXT keys
    beyond a decodable string), the answer is exactly `expected`: the messages of the view that satisfy the
    RFC predicate `satAll`, in view order, as sequence numbers or UIDs. -/
theorem search_is_filter_partial (u : Bool) (s : Snap) (data : MsgId → MsgData) (dec : Bytes → Option Bytes)
    (keys : List Key) (hpos : u = true → UidsPos s) (hc : Conforming s data dec keys) :
    search u s data dec keys = .ok (expected u s data dec keys) :=
  search_conforming u s data dec keys hpos hc

/-! ### witness data (bytes written out: the kernel evaluates these by `decide`) -/

def bReceived : Bytes := [82, 101, 99, 101, 105, 118, 101, 100]
def bFirst : Bytes := [102, 105, 114, 115, 116]
def bSecond : Bytes := [115, 101, 99, 111, 110, 100]
def bXNope : Bytes := [88, 45, 78, 111, 112, 101]

/-- one message, INTERNALDATE "05-Jan-2020 01:00:00 +0500" (= 04-Jan-2020 20:00:00 UTC), two Received fields,
    Date header unparsable -/
def wData : MsgData :=
  { size := 100, date := ⟨1578168000, 18000⟩, hdr := some [(bReceived, bFirst), (bReceived, bSecond)],
    sent := none, body := [], text := [] }
def wSnap : Snap := [Snap.mkMsg 1 1 ["\\seen"]]
/-- 5-Jan-2020 as a day number -/
def jan5 : Int := 18266

/-- **search_is_filter is false of the current code** — SINCE 5-Jan-2020 selects the message above, which the
    server itself dates 4-Jan-2020 (FETCH INTERNALDATE "04-Jan-2020 20:00:00 +0000"). Oracle scenario `since-zone`. -/
theorem search_is_filter_witness :
    search false wSnap (fun _ => wData) some [.leaf (.since jan5)] = .ok [1] ∧
    expected false wSnap (fun _ => wData) some [.leaf (.since jan5)] = [] := by decide

/-! ## Boolean structure -/

/-- **NOT is the complement within the mailbox** — `NOT k` fails exactly when `k` fails, and otherwise
    answers the numbers of the view that `k` does not answer (in view order). -/
theorem not_complement (u : Bool) (s : Snap) (data : MsgId → MsgData) (dec : Bytes → Option Bytes) (k : Key)
    (hinv : Snap.Inv s) (hpos : u = true → UidsPos s) :
    search u s data dec [.not k] =
      (search u s data dec [k]).map (fun r => (nums u 0 s).filter (fun n => !r.contains n)) :=
  search_not u s data dec k hinv hpos

/-- **OR is the union** — when both operands have an answer, `OR a b` answers the numbers of the view that
    are in either answer. -/
theorem or_union (u : Bool) (s : Snap) (data : MsgId → MsgData) (dec : Bytes → Option Bytes) (a b : Key)
    (hinv : Snap.Inv s) (hpos : u = true → UidsPos s) {ra rb : List Nat}
    (ha : search u s data dec [a] = .ok ra) (hb : search u s data dec [b] = .ok rb) :
    search u s data dec [.or a b] = .ok ((nums u 0 s).filter (fun n => ra.contains n || rb.contains n)) :=
  search_or u s data dec a b hinv hpos ha hb

/-- **A parenthesised list is the juxtaposition of its keys** (answers and failures alike). -/
theorem list_is_juxtaposition (u : Bool) (s : Snap) (data : MsgId → MsgData) (dec : Bytes → Option Bytes)
    (ks : List Key) : search u s data dec [.list ks] = search u s data dec ks :=
  search_list u s data dec ks

/-- **Juxtaposition is the intersection** — when every key has an answer on its own (`res k`), the keys side
    by side answer the numbers of the view that are in all of them. -/
theorem juxtaposition_intersection (u : Bool) (s : Snap) (data : MsgId → MsgData) (dec : Bytes → Option Bytes)
    (hinv : Snap.Inv s) (hpos : u = true → UidsPos s) (ks : List Key) (res : Key → List Nat)
    (h : ∀ k ∈ ks, search u s data dec [k] = .ok (res k)) :
    search u s data dec ks = .ok ((nums u 0 s).filter (fun n => ks.all (fun k => (res k).contains n))) :=
  search_all u s data dec hinv hpos ks res h

/-- **list_intersection** — the same for a parenthesised list. -/
theorem list_intersection (u : Bool) (s : Snap) (data : MsgId → MsgData) (dec : Bytes → Option Bytes)
    (hinv : Snap.Inv s) (hpos : u = true → UidsPos s) (ks : List Key) (res : Key → List Nat)
    (h : ∀ k ∈ ks, search u s data dec [k] = .ok (res k)) :
    search u s data dec [.list ks] = .ok ((nums u 0 s).filter (fun n => ks.all (fun k => (res k).contains n))) := by
  rw [search_list]; exact search_all u s data dec hinv hpos ks res h

/-- **The intersection is evaluated left to right and stops at the first key that does not match** — so a
    failing key (here SENTON on a message whose Date header is unparsable) fails the command in one order and
    is never reached in the other: `1 SENTON d` would be answered for a message 2 with a bad Date, `SENTON d 1`
    not.  (Witness on one message with `2` as the non-matching key.) -/
theorem juxtaposition_order_witness :
    search false wSnap (fun _ => wData) some [.leaf (.seqSet [⟨2, 2⟩]), .leaf (.sentOn jan5)] = .ok [] ∧
    search false wSnap (fun _ => wData) some [.leaf (.sentOn jan5), .leaf (.seqSet [⟨2, 2⟩])] = .error .date := by
  decide

/-! ## Serial and parallel evaluation -/

/-- **Serial and parallel evaluation agree** — `searchPar order` is `Mailbox.Search` with the per-message calls made
    in the order `order` by the goroutines of `parallel.DoContext` (each call writes its own slot of the result
    array); `search` is the loop of `parallelism == 1` (gluon.WithDisableParallelism).  For EVERY schedule that hands
    out exactly the indices of the view (`Covers`: any interleaving, any number of workers), every key tree, view and
    message data: the same answer, or both fail (which of several errors is reported is not compared). -/
theorem parallel_agrees_with_serial (order : List Nat) (u : Bool) (s : Snap) (data : MsgId → MsgData)
    (dec : Bytes → Option Bytes) (keys : List Key) (hc : Covers order s.length) :
    (searchPar order u s data dec keys).toOption = (search u s data dec keys).toOption := by
  simp only [searchPar, search]
  cases buildList s dec keys with
  | error e => rfl
  | ok op =>
    simp only [bind, Except.bind]
    cases hsl : searchLoop (fun seq m => applySearch (COp.needsList op) op seq m (data m.id))
        (fun seq m => if u then m.uid else seq) 0 s with
    | ok r => rw [searchSched_ok _ _ s order hc r hsl]
    | error e =>
      obtain ⟨e', he'⟩ := searchSched_error _ _ s order hc e hsl
      rw [he']; rfl

/-- the same, for an answered search: the parallel evaluation gives that very answer -/
theorem parallel_same_answer (order : List Nat) (u : Bool) (s : Snap) (data : MsgId → MsgData)
    (dec : Bytes → Option Bytes) (keys : List Key) (hc : Covers order s.length) {r : List Nat}
    (h : search u s data dec keys = .ok r) : searchPar order u s data dec keys = .ok r := by
  have := parallel_agrees_with_serial order u s data dec keys hc
  rw [h] at this
  cases hp : searchPar order u s data dec keys with
  | error e => rw [hp] at this; simp [Except.toOption] at this
  | ok r' => rw [hp] at this; simp [Except.toOption] at this; rw [this]

/-- **`Covers` is needed: a schedule that stops short of the view loses the newest messages** — three messages,
    two workers with one contiguous batch of `3 / 2 = 1` message each (schedule `[0, 1]`): `ALL` answers `1 2`,
    and `NOT FLAGGED` is no longer the complement of `FLAGGED` within the view.  (The oracle runs views of 131, 257, …
    messages — sizes no number of workers divides — on the server with parallel evaluation, scenario `big`.) -/
theorem schedule_must_cover_witness :
    let s3 : Snap := [Snap.mkMsg 1 1 [], Snap.mkMsg 2 2 [], Snap.mkMsg 3 3 ["\\flagged"]]
    search false s3 (fun _ => wData) some [.leaf .all] = .ok [1, 2, 3] ∧
    searchPar [0, 1] false s3 (fun _ => wData) some [.leaf .all] = .ok [1, 2] ∧
    searchPar [2, 0, 1] false s3 (fun _ => wData) some [.leaf .all] = .ok [1, 2, 3] ∧
    searchPar [0, 1] false s3 (fun _ => wData) some [.leaf .flagged] = .ok [] ∧
    searchPar [0, 1] false s3 (fun _ => wData) some [.not (.leaf .flagged)] = .ok [1, 2] := by decide

/-! ## UID SEARCH -/

/-- **UID SEARCH returns the UIDs of the same messages** — same failures, and otherwise the answer of SEARCH
    with every sequence number replaced by the UID of that message of the view. -/
theorem uid_search_same_set (s : Snap) (data : MsgId → MsgData) (dec : Bytes → Option Bytes) (keys : List Key)
    (hpos : UidsPos s) :
    search true s data dec keys = (search false s data dec keys).map (fun r => r.map (uidAt s)) :=
  search_uid_eq s data dec keys hpos

/-! ## Per-key lemmas -/

/-- a single key whose `LeafOK` hypothesis holds is answered as the RFC says -/
theorem single_key (u : Bool) (s : Snap) (data : MsgId → MsgData) (dec : Bytes → Option Bytes) (l : Leaf)
    (hpos : u = true → UidsPos s) (hl : LeafOK s data dec l) :
    search u s data dec [.leaf l] = .ok (expected u s data dec [.leaf l]) :=
  search_conforming u s data dec _ hpos (by
    intro l' hl'
    simp [Key.leavesAll, Key.leaves] at hl'
    subst hl'; exact hl)

/-- what `expected` contains, spelled out for one key -/
theorem mem_expected_single (u : Bool) (s : Snap) (data : MsgId → MsgData) (dec : Bytes → Option Bytes) (l : Leaf)
    (n : Nat) :
    n ∈ expected u s data dec [.leaf l] ↔
      ∃ m ∈ view s data, satLeaf (boxOf s) dec m l = true ∧ n = (if u then m.uid else m.seq) := by
  simp only [expected, List.mem_map, List.mem_filter, satAll, sat, Bool.and_true]
  constructor
  · rintro ⟨m, ⟨hm, hs⟩, rfl⟩; exact ⟨m, hm, hs, rfl⟩
  · rintro ⟨m, hm, hs, rfl⟩; exact ⟨m, ⟨hm, hs⟩, rfl⟩

/-- **Flag keys** (ALL ANSWERED DELETED DRAFT FLAGGED NEW OLD RECENT SEEN UN… KEYWORD UNKEYWORD) select by the
    flags of the session's view, unconditionally; KEYWORD atoms are compared case-insensitively. -/
theorem flag_keys (u : Bool) (s : Snap) (data : MsgId → MsgData) (dec : Bytes → Option Bytes) (l : Leaf)
    (hpos : u = true → UidsPos s) (hl : l.isFlagKey = true) :
    search u s data dec [.leaf l] = .ok (expected u s data dec [.leaf l]) :=
  single_key u s data dec l hpos (by cases l <;> simp [Leaf.isFlagKey] at hl <;> trivial)

/-- **SEEN**, spelled out: `n` is answered iff the view's message number `n` carries `\Seen`. -/
theorem seen_key (s : Snap) (data : MsgId → MsgData) (dec : Bytes → Option Bytes) (n : Nat) :
    (∃ r, search false s data dec [.leaf .seen] = .ok r ∧
      (n ∈ r ↔ ∃ m ∈ view s data, m.flags.contains "\\seen" = true ∧ n = m.seq)) := by
  refine ⟨_, flag_keys false s data dec .seen (fun h => by cases h) rfl, ?_⟩
  rw [mem_expected_single]; simp [satLeaf]

/-- **LARGER / SMALLER** compare RFC822.SIZE strictly, unconditionally (the number is the Go `int` the parser
    produced). -/
theorem size_keys (u : Bool) (s : Snap) (data : MsgId → MsgData) (dec : Bytes → Option Bytes) (k : Int)
    (hpos : u = true → UidsPos s) :
    search u s data dec [.leaf (.larger k)] = .ok (expected u s data dec [.leaf (.larger k)]) ∧
    search u s data dec [.leaf (.smaller k)] = .ok (expected u s data dec [.leaf (.smaller k)]) :=
  ⟨single_key u s data dec _ hpos trivial, single_key u s data dec _ hpos trivial⟩

/-- **BEFORE / ON** select by the calendar day of the internal date in UTC — the day FETCH INTERNALDATE
    shows — unconditionally: `date.Before(midnight UTC)` and the two `Truncate(24h)` are UTC-day comparisons. -/
theorem before_on_keys (u : Bool) (s : Snap) (data : MsgId → MsgData) (dec : Bytes → Option Bytes) (d : Int)
    (hpos : u = true → UidsPos s) :
    search u s data dec [.leaf (.before d)] = .ok (expected u s data dec [.leaf (.before d)]) ∧
    search u s data dec [.leaf (.on d)] = .ok (expected u s data dec [.leaf (.on d)]) :=
  ⟨single_key u s data dec _ hpos trivial, single_key u s data dec _ hpos trivial⟩

/-- **SINCE (partial)** — under `ZoneFree` (every internal date names the same day in its stored zone and in
    UTC, e.g. all stored with +0000) SINCE selects by that day. -/
theorem since_key_partial (u : Bool) (s : Snap) (data : MsgId → MsgData) (dec : Bytes → Option Bytes) (d : Int)
    (hpos : u = true → UidsPos s) (hz : ZoneFree s data) :
    search u s data dec [.leaf (.since d)] = .ok (expected u s data dec [.leaf (.since d)]) :=
  single_key u s data dec _ hpos hz

/-- **ON d = NOT BEFORE d ∧ BEFORE d+1** — for every view, every message data (any instant, any stored zone) and
    every day: `ON d` answers exactly what `NOT BEFORE d BEFORE d+1` answers; a message dated exactly midnight UTC of
    day `d` belongs to day `d`, one dated a second earlier to day `d-1`.  The oracle asks the real server both
    commands on views whose internal dates sit on and next to midnight (`ident` lines, judge-c15-dayident). -/
theorem on_is_day_interval (u : Bool) (s : Snap) (data : MsgId → MsgData) (dec : Bytes → Option Bytes) (d : Int)
    (hpos : u = true → UidsPos s) :
    search u s data dec [.leaf (.on d)] =
      search u s data dec [.not (.leaf (.before d)), .leaf (.before (d + 1))] := by
  rw [search_is_filter_partial u s data dec _ hpos (by
        intro l hl; simp [Key.leavesAll, Key.leaves] at hl; subst hl; trivial),
      search_is_filter_partial u s data dec _ hpos (by
        intro l hl; simp [Key.leavesAll, Key.leaves] at hl; rcases hl with rfl | rfl <;> trivial)]
  congr 1
  simp only [expected]
  congr 1
  apply List.filter_congr
  intro m _
  simp only [satAll, sat, satLeaf, Bool.and_true]
  rw [Bool.eq_iff_iff]
  simp only [decide_eq_true_eq, Bool.and_eq_true, Bool.not_eq_true', decide_eq_false_iff_not]
  omega

/-- **ON d = SINCE d ∧ BEFORE d+1 (partial)** — the same with SINCE in the place of NOT BEFORE, under `ZoneFree`
    (SINCE reads the day in the stored zone: witness `since_before_overlap_witness`). -/
theorem on_is_since_before_partial (u : Bool) (s : Snap) (data : MsgId → MsgData) (dec : Bytes → Option Bytes) (d : Int)
    (hpos : u = true → UidsPos s) (hz : ZoneFree s data) :
    search u s data dec [.leaf (.on d)] =
      search u s data dec [.leaf (.since d), .leaf (.before (d + 1))] := by
  rw [search_is_filter_partial u s data dec _ hpos (by
        intro l hl; simp [Key.leavesAll, Key.leaves] at hl; subst hl; trivial),
      search_is_filter_partial u s data dec _ hpos (by
        intro l hl; simp [Key.leavesAll, Key.leaves] at hl; rcases hl with rfl | rfl
        · exact hz
        · trivial)]
  congr 1
  simp only [expected]
  congr 1
  apply List.filter_congr
  intro m _
  simp only [satAll, sat, satLeaf, Bool.and_true]
  rw [Bool.eq_iff_iff]
  simp only [decide_eq_true_eq, Bool.and_eq_true]
  omega

/-- the midnight message itself: INTERNALDATE "05-Jan-2020 00:00:00 +0000" is answered by ON 5-Jan-2020, not by
    ON 4-Jan-2020, and is not BEFORE 5-Jan-2020; one second earlier it is the other way round -/
theorem on_midnight_witness :
    let dated (t : Int) : MsgId → MsgData := fun _ => { wData with date := ⟨t, 0⟩ }
    search false wSnap (dated 1578182400) some [.leaf (.on jan5)] = .ok [1] ∧
    search false wSnap (dated 1578182400) some [.leaf (.on (jan5 - 1))] = .ok [] ∧
    search false wSnap (dated 1578182400) some [.leaf (.before jan5)] = .ok [] ∧
    search false wSnap (dated 1578182399) some [.leaf (.on jan5)] = .ok [] ∧
    search false wSnap (dated 1578182399) some [.leaf (.on (jan5 - 1))] = .ok [1] ∧
    search false wSnap (dated 1578182399) some [.leaf (.before jan5)] = .ok [1] := by decide

/-- **SINCE and BEFORE overlap** — RFC 3501: SINCE d is the complement of BEFORE d whatever "the date" of a
    message is.  For INTERNALDATE "05-Jan-2020 01:00:00 +0500" both `SINCE 5-Jan-2020` and `BEFORE 5-Jan-2020`
    select the message (and `ON 5-Jan-2020` does not, although SINCE does).  Oracle scenario `since-zone`. -/
theorem since_before_overlap_witness :
    search false wSnap (fun _ => wData) some [.leaf (.since jan5)] = .ok [1] ∧
    search false wSnap (fun _ => wData) some [.leaf (.before jan5)] = .ok [1] ∧
    search false wSnap (fun _ => wData) some [.leaf (.on jan5)] = .ok [] ∧
    search false wSnap (fun _ => wData) some [.leaf (.since jan5), .leaf (.before jan5)] = .ok [1] := by decide

/-- no reading of "the date of the message" (`day`) explains both answers -/
theorem since_before_no_day_reading (day : Int) (rs rb : List Nat)
    (hs : search false wSnap (fun _ => wData) some [.leaf (.since jan5)] = .ok rs)
    (hb : search false wSnap (fun _ => wData) some [.leaf (.before jan5)] = .ok rb) :
    ¬ ((1 ∈ rs ↔ day ≥ jan5) ∧ (1 ∈ rb ↔ day < jan5)) := by
  have h := since_before_overlap_witness
  rw [h.1] at hs; rw [h.2.1] at hb
  cases hs; cases hb
  simp

/-- **SENTBEFORE / SENTON / SENTSINCE (partial)** — when every message of the view has a Date header the
    parser accepts (`SentParsable`, and the header block parses), they select by the calendar day the Date header
    names in its own zone. -/
theorem sent_keys_partial (u : Bool) (s : Snap) (data : MsgId → MsgData) (dec : Bytes → Option Bytes) (d : Int)
    (hpos : u = true → UidsPos s) (hp : SentParsable s data) (hh : HeadersOk s data) :
    search u s data dec [.leaf (.sentBefore d)] = .ok (expected u s data dec [.leaf (.sentBefore d)]) ∧
    search u s data dec [.leaf (.sentOn d)] = .ok (expected u s data dec [.leaf (.sentOn d)]) ∧
    search u s data dec [.leaf (.sentSince d)] = .ok (expected u s data dec [.leaf (.sentSince d)]) :=
  ⟨single_key u s data dec _ hpos ⟨hp, hh⟩, single_key u s data dec _ hpos ⟨hp, hh⟩,
   single_key u s data dec _ hpos ⟨hp, hh⟩⟩

/-- **One unparsable Date header fails every SENT* search of the mailbox** (RFC: that message does not
    match).  Oracle scenario `sent-unparsable`. -/
theorem sent_unparsable_witness :
    search false wSnap (fun _ => wData) some [.leaf (.sentBefore jan5)] = .error .date ∧
    handleSearch .absent false wSnap (fun _ => wData) [.leaf (.sentBefore jan5)] = .no ∧
    expected false wSnap (fun _ => wData) some [.not (.leaf (.sentBefore jan5))] = [1] := by decide

/-- **UID key (partial)** — on a non-empty view, for 32-bit numbers and no `n:*` with `n` above the highest
    UID, `UID set` selects the messages whose UID lies in the set (`*` = highest UID, ranges in either order). -/
theorem uid_key_partial (u : Bool) (s : Snap) (data : MsgId → MsgData) (dec : Bytes → Option Bytes)
    (set : List SeqRange) (hpos : u = true → UidsPos s) (hne : s ≠ []) (hsmall : SetSmall set)
    (hstar : NoStarAbove (boxOf s).maxUid set) :
    search u s data dec [.leaf (.uid set)] = .ok (expected u s data dec [.leaf (.uid set)]) :=
  single_key u s data dec _ hpos ⟨hne, hsmall, hstar⟩

/-- **UID key on an empty mailbox fails** (tagged NO; RFC: an empty answer) — wherever it stands in the
    tree, the build phase fails.  Oracle scenario `uid-empty-mailbox`. -/
theorem uid_empty_mailbox_witness :
    search false [] (fun _ => wData) some [.not (.leaf (.uid [⟨1, 1⟩]))] = .error .noSuchMessage ∧
    expected false [] (fun _ => wData) some [.not (.leaf (.uid [⟨1, 1⟩]))] = [] := by decide

/-- **`UID 9:*` with highest UID 1 selects nothing** (RFC 3501: `n:*` always includes the last message; the
    property text of C16 leaves this case unjudged).  Oracle scenario `uid-star-above`. -/
theorem uid_star_above_witness :
    search false wSnap (fun _ => wData) some [.leaf (.uid [⟨9, 0⟩])] = .ok [] ∧
    expected false wSnap (fun _ => wData) some [.leaf (.uid [⟨9, 0⟩])] = [1] := by decide

/-- **Sequence-set key (partial)** — for 32-bit numbers and no `n:*` with `n` above the message count, a
    sequence set selects the messages whose sequence number lies in it. -/
theorem seqset_key_partial (u : Bool) (s : Snap) (data : MsgId → MsgData) (dec : Bytes → Option Bytes)
    (set : List SeqRange) (hpos : u = true → UidsPos s) (hlen : s.length < 4294967296) (hsmall : SetSmall set)
    (hstar : NoStarAbove s.length set) :
    search u s data dec [.leaf (.seqSet set)] = .ok (expected u s data dec [.leaf (.seqSet set)]) :=
  single_key u s data dec _ hpos ⟨hlen, hsmall, hstar⟩

/-- **`SetSmall` is needed at the level of the model** — `imap.SeqID(number)` truncates: a parsed sequence
    number 4294967297 would select message 1.  Since the fix "numbers in commands must fit into 32 bits"
    `rfcparser.ParseNumber` refuses such a number (tagged BAD), so every parsed command satisfies `SetSmall`
    and this case cannot be reached from the wire any more (oracle scenario `num-too-big` checks the BAD). -/
theorem setsmall_needed_witness :
    search false wSnap (fun _ => wData) some [.leaf (.seqSet [⟨4294967297, 4294967297⟩])] = .ok [1] ∧
    expected false wSnap (fun _ => wData) some [.leaf (.seqSet [⟨4294967297, 4294967297⟩])] = [] := by decide

/-- **A sequence number above the count is answered OK with no match** (RFC 3501 section 9 asks for BAD;
    `seqValidAll` is that requirement).  Oracle scenario `seq-beyond-count`. -/
theorem seq_beyond_count_witness :
    search false wSnap (fun _ => wData) some [.leaf (.seqSet [⟨7, 7⟩])] = .ok [] ∧
    seqValidAll wSnap.length [.leaf (.seqSet [⟨7, 7⟩])] = false := by decide

/-- **HEADER and the envelope keys (partial)** — under `FieldOK` (the key decodes, each message has at most one
    field of that name, and the key is non-empty or the field is present everywhere) they select the messages
    with a field of that name (case-insensitive) whose unfolded text contains the key, case-insensitively. -/
theorem header_keys_partial (u : Bool) (s : Snap) (data : MsgId → MsgData) (dec : Bytes → Option Bytes)
    (f v : Bytes) (hpos : u = true → UidsPos s) (hf : FieldOK s data dec f v) :
    search u s data dec [.leaf (.header f v)] = .ok (expected u s data dec [.leaf (.header f v)]) :=
  single_key u s data dec _ hpos hf

/-- the envelope keys are HEADER keys with a fixed field name, in model and specification alike -/
theorem envelope_keys_are_header_keys (u : Bool) (s : Snap) (data : MsgId → MsgData) (dec : Bytes → Option Bytes)
    (v : Bytes) :
    search u s data dec [.leaf (.subject v)] = search u s data dec [.leaf (.header (hName "Subject") v)] ∧
    search u s data dec [.leaf (.from v)] = search u s data dec [.leaf (.header (hName "From") v)] ∧
    search u s data dec [.leaf (.to v)] = search u s data dec [.leaf (.header (hName "To") v)] ∧
    search u s data dec [.leaf (.cc v)] = search u s data dec [.leaf (.header (hName "Cc") v)] ∧
    search u s data dec [.leaf (.bcc v)] = search u s data dec [.leaf (.header (hName "Bcc") v)] := by
  refine ⟨?_, ?_, ?_, ?_, ?_⟩ <;> simp [search, buildList, build, buildLeaf]

/-- **Only the first field of a name is searched** — `HEADER Received second` misses a message whose second
    Received field contains "second".  Oracle scenario `header-dup`. -/
theorem header_first_only_witness :
    search false wSnap (fun _ => wData) some [.leaf (.header bReceived bSecond)] = .ok [] ∧
    expected false wSnap (fun _ => wData) some [.leaf (.header bReceived bSecond)] = [1] := by decide

/-- **An empty key matches messages that do not have the field** — `HEADER X-Nope ""` selects a message
    without X-Nope (RFC: all messages that HAVE the field).  Oracle scenario `header-empty`. -/
theorem header_empty_key_witness :
    search false wSnap (fun _ => wData) some [.leaf (.header bXNope [])] = .ok [1] ∧
    expected false wSnap (fun _ => wData) some [.leaf (.header bXNope [])] = [] := by decide

/-- **BODY / TEXT** select the messages whose body / entire text contains the decoded key,
    case-insensitively; only a decodable key is asked for. -/
theorem body_text_keys (u : Bool) (s : Snap) (data : MsgId → MsgData) (dec : Bytes → Option Bytes) (v : Bytes)
    (hpos : u = true → UidsPos s) (hd : (dec v).isSome = true) :
    search u s data dec [.leaf (.body v)] = .ok (expected u s data dec [.leaf (.body v)]) ∧
    search u s data dec [.leaf (.text v)] = .ok (expected u s data dec [.leaf (.text v)]) :=
  ⟨single_key u s data dec _ hpos hd, single_key u s data dec _ hpos hd⟩

/-- **The string test of the model is the case-insensitive substring test of the specification**
    (`strings.Contains(strings.ToLower(x), strings.ToLower(key))`, ASCII letters). -/
theorem string_match_is_ci_substring (hay key : Bytes) :
    Search.contains (lower hay) (lower key) = containsCI hay key :=
  contains_lower hay key

/-- … and that test means: somewhere in the field there is a block equal to the key up to ASCII case. -/
theorem ci_substring_meaning (hay key : Bytes) :
    containsCI hay key = true ↔
      ∃ pre mid post, hay = pre ++ mid ++ post ∧ mid.map foldByte = key.map foldByte :=
  containsCI_iff hay key

/-! ## The header-string keys look at the UNFOLDED field value

`MsgData.hdr` is `rfc822.NewHeader` + `getMerged`: `Search.hdrOfLiteral` (Model/SearchHeader.lean: C13's entry parser, then
`Search.unfold` = `mergeMultiline`, tied to the real `Header.Entries` by the correspondence `c15-unfold`; the oracle
checks the header it claims for every message against `hdrOfLiteral` of the stored literal, judge-c15-hdr). -/

/-- **A header-string key tests the unfolded value of the first field of its name, and nothing else of the header** —
    for a message whose header block has the fields `fs` (name, RAW value with its folds): BCC CC FROM SUBJECT TO HEADER
    answer whether `unfold` of that raw value contains the (lower-cased) key.  Neither the raw bytes of the field nor
    any other field enter. -/
theorem header_key_on_unfolded (field k : Bytes) (x : SData) (fs : List (Bytes × Bytes))
    (hx : x.d.hdr = some (unfoldFields fs)) :
    (Op.header field k).eval x =
      .ok (Search.contains (lower (((fs.find? (fun f => lower f.1 == lower field)).map (fun f => unfold f.2)).getD [])) k) := by
  have e : ((fun e : Bytes × Bytes => lower e.1 == lower field) ∘ fun f : Bytes × Bytes => (f.1, unfold f.2)) =
      (fun f => lower f.1 == lower field) := rfl
  simp only [Op.eval, hx, Option.getD_some, hdrGet, unfoldFields, List.find?_map, e]
  cases fs.find? (fun f => lower f.1 == lower field) <;> rfl

/-- … so two mailboxes whose messages differ only in HOW their header fields are folded (same names, same unfolded
    values) get the same answer to every SEARCH, whatever the key tree. -/
theorem search_on_unfolded (u : Bool) (s : Snap) (base : MsgId → MsgData) (raw raw' : MsgId → List (Bytes × Bytes))
    (dec : Bytes → Option Bytes) (keys : List Key) (h : ∀ id, unfoldFields (raw id) = unfoldFields (raw' id)) :
    search u s (fun id => { base id with hdr := some (unfoldFields (raw id)) }) dec keys =
    search u s (fun id => { base id with hdr := some (unfoldFields (raw' id)) }) dec keys := by
  have e : (fun id => ({ base id with hdr := some (unfoldFields (raw id)) } : MsgData)) =
      (fun id => { base id with hdr := some (unfoldFields (raw' id)) }) := funext fun id => by rw [h id]
  rw [e]

/-- **A line break with the white space around it reads as ONE space, wherever it stands** — a value written as the
    lines `a`, `l₁`, `l₂`, … (each starting and ending with a printable ASCII character, anything in between), with any
    blanks / tabs before each CRLF and after it, unfolds to `a l₁ l₂ …` joined by single spaces. -/
theorem unfold_folded (a : Bytes) (rest : List (Bytes × Bytes × Bytes)) (ha : Clean a)
    (hr : ∀ x ∈ rest, isWSPs x.1 ∧ isWSPs x.2.1 ∧ Clean x.2.2) :
    unfold (foldedRaw a rest) = foldedVal a rest := by
  have := unfoldGo_folded [] a rest (fun _ h => by cases h) ha hr
  simpa [unfold] using this

/-- **Fold placement is irrelevant** — the folded value reads exactly as the same text on one line. -/
theorem fold_placement_irrelevant (a : Bytes) (rest : List (Bytes × Bytes × Bytes)) (ha : Clean a)
    (hr : ∀ x ∈ rest, isWSPs x.1 ∧ isWSPs x.2.1 ∧ Clean x.2.2) :
    unfold (foldedRaw a rest) = unfold (foldedRaw (foldedVal a rest) []) := by
  rw [unfold_folded a rest ha hr,
    unfold_folded _ [] (clean_foldedVal a rest ha (fun x hx => (hr x hx).2.2)) (fun _ h => by cases h)]
  simp [foldedVal]

/-- `Subject: a b` CRLF SP `c d` CRLF, then the empty line -/
def wFoldedLit : Bytes :=
  [83, 117, 98, 106, 101, 99, 116, 58, 32, 97, 32, 98, 13, 10, 32, 99, 32, 100, 13, 10, 13, 10]
def bSubject : Bytes := [83, 117, 98, 106, 101, 99, 116]
/-- `b c`: spans the fold -/
def bSpan : Bytes := [98, 32, 99]

/-- **A string that spans a fold is found, although it does not occur in the raw header block** — the message
    `Subject: a b` CRLF SP `c d` has the Subject `a b c d`; `HEADER Subject "b c"` (= `SUBJECT "b c"`, `envelope_keys_are_header_keys`) selects it and its NOT does not,
    while the bytes `b c` occur nowhere in the literal (there the two letters are separated by CR LF SP).  So "no search
    string occurs in the header block" does NOT imply "no header-string key matches": a pre-filter on the raw block
    would drop this message from `SUBJECT "b c"` and add it to `NOT SUBJECT "b c"`.  Oracle scenario `folds`. -/
theorem folded_subject_witness :
    hdrOfLiteral wFoldedLit = some [(bSubject, [97, 32, 98, 32, 99, 32, 100])] ∧
    (let d : MsgId → MsgData := fun _ => MsgData.ofLiteral { wData with text := wFoldedLit }
     search false wSnap d some [.leaf (.header bSubject bSpan)] = .ok [1] ∧
     search false wSnap d some [.not (.leaf (.header bSubject bSpan))] = .ok [] ∧
     expected false wSnap d some [.leaf (.header bSubject bSpan)] = [1]) ∧
    Search.contains (lower wFoldedLit) (lower bSpan) = false := by decide

/-! ## CHARSET -/

/-- **A charset golang.org/x/text knows by name only (UTF-7, UTF-32, GB2312, ISO-2022-KR, …) is refused, not
    dereferenced** — `ianaindex.IANA.Encoding` returns `(nil, nil)` for it; `handleSearch` answers NO [BADCHARSET]
    for every mailbox and every key, and nothing is searched (before fix 3279020 this was a nil pointer panic).
    Oracle scenario `charset-unsupported` (regression). -/
theorem charset_unsupported_refused (u : Bool) (s : Snap) (data : MsgId → MsgData) (keys : List Key) :
    handleSearch .unsupported u s data keys = .badCharset := rfl

/-- **`handleSearch` never panics** — whatever the charset lookup gives, whatever the mailbox and the keys. -/
theorem handleSearch_no_panic (cs : Charset) (u : Bool) (s : Snap) (data : MsgId → MsgData) (keys : List Key) :
    handleSearch cs u s data keys ≠ .panic := by
  cases cs <;> simp only [handleSearch] <;> (try split) <;> simp

/-- an unknown charset is refused with NO [BADCHARSET], before anything is searched -/
theorem charset_unknown_refused (u : Bool) (s : Snap) (data : MsgId → MsgData) (keys : List Key) :
    handleSearch .unknown u s data keys = .badCharset := rfl

/-- without a CHARSET argument the keys are taken as they are, and the reply is the answer of `search` -/
theorem handleSearch_absent (u : Bool) (s : Snap) (data : MsgId → MsgData) (keys : List Key) (r : List Nat)
    (h : search u s data some keys = .ok r) : handleSearch .absent u s data keys = .results r := by
  simp [handleSearch, h]

/-! ## Non-vacuity: the hypotheses are satisfiable by non-trivial states -/

def exData : MsgId → MsgData
  | 1 => { size := 300, date := ⟨1578186000, 0⟩, hdr := some [(bReceived, bFirst)], sent := some ⟨1578186000, 3600⟩,
           body := bSecond, text := bFirst ++ bSecond }
  | _ => { size := 120, date := ⟨1578272400, 0⟩, hdr := some [(bReceived, bSecond)], sent := some ⟨1578272400, 0⟩,
           body := bFirst, text := bSecond ++ bFirst }
def exSnap : Snap := [Snap.mkMsg 1 4 ["\\seen"], Snap.mkMsg 2 7 ["\\recent"], Snap.mkMsg 3 9 []]

/-- a depth-3 tree over three messages: `OR SEEN (NOT LARGER 200) 1:* SINCE 5-Jan-2020 HEADER Received second` -/
def exKeys : List Key :=
  [.or (.leaf .seen) (.not (.leaf (.larger 200))), .leaf (.seqSet [⟨1, 0⟩]), .list [.leaf (.since jan5), .leaf (.sentSince jan5)],
   .leaf (.header bReceived bSecond)]

example : Snap.Inv exSnap := ⟨by decide, by decide⟩
example : UidsPos exSnap := by
  intro m hm; simp [exSnap, Snap.mkMsg] at hm; rcases hm with rfl | rfl | rfl <;> decide
theorem exConforming : Conforming exSnap exData some exKeys := by
  intro l hl
  simp [exKeys, Key.leavesAll, Key.leaves] at hl
  rcases hl with rfl | rfl | rfl | rfl | rfl | rfl
  · trivial
  · trivial
  · refine ⟨by decide, ?_, ?_⟩ <;> (intro r hr; simp at hr; subst hr; decide)
  · intro m hm; simp [exSnap, Snap.mkMsg] at hm; rcases hm with rfl | rfl | rfl <;> decide
  · refine ⟨?_, ?_⟩ <;> (intro m hm; simp [exSnap, Snap.mkMsg] at hm; rcases hm with rfl | rfl | rfl <;> decide)
  · refine ⟨bSecond, rfl, ?_⟩
    intro m hm; simp [exSnap, Snap.mkMsg] at hm
    rcases hm with rfl | rfl | rfl
    · exact ⟨_, rfl, by decide, Or.inl (by decide)⟩
    · exact ⟨_, rfl, by decide, Or.inl (by decide)⟩
    · exact ⟨_, rfl, by decide, Or.inl (by decide)⟩
/-- … and its answer is a proper, non-empty part of the view -/
example : search false exSnap exData some exKeys = .ok [2, 3] := by decide
example : search true exSnap exData some exKeys = .ok [7, 9] := by decide
example : expected false exSnap exData some exKeys = [2, 3] := by decide
example : search false exSnap exData some [.not (.list exKeys)] = .ok [1] := by decide

/-- the hypotheses of `unfold_folded` / `fold_placement_irrelevant`: `a b` SP CRLF TAB `c d` CRLF reads `a b c d` -/
example : Clean [97, 32, 98] := ⟨⟨97, [32, 98], rfl, by decide⟩, ⟨98, [97, 32], rfl, by decide⟩, by decide⟩
example : foldedRaw [97, 32, 98] [([32], [9], [99, 32, 100])] = [97, 32, 98, 32, 13, 10, 9, 99, 32, 100, 13, 10] := by decide
example : unfold (foldedRaw [97, 32, 98] [([32], [9], [99, 32, 100])]) = [97, 32, 98, 32, 99, 32, 100] := by decide
/-- outside `Clean`: a continuation line of white space only leaves two spaces (`a` CRLF SP CRLF SP `b` CRLF reads `a  b`),
    U+00A0 before the break is trimmed like a blank -/
example : unfold [97, 13, 10, 32, 13, 10, 32, 98, 13, 10] = [97, 32, 32, 98] := by decide
example : unfold [97, 0xC2, 0xA0, 13, 10, 32, 98, 13, 10] = [97, 32, 98] := by decide
/-- `header_key_on_unfolded` on a header with a folded Subject and a second field -/
example : (Op.header bSubject bSpan).eval ⟨1, Snap.mkMsg 1 1 [], { wData with hdr := some (unfoldFields
    [(bReceived, bFirst), (bSubject, [97, 32, 98, 13, 10, 32, 99, 32, 100, 13, 10])]) }⟩ = .ok true := by decide

/-- `Covers` is satisfiable by a schedule that is not the sequential order -/
example : Covers [2, 0, 1] exSnap.length := by intro j; simp [List.mem_cons, exSnap]; omega
example : searchPar [2, 0, 1] false exSnap exData some exKeys = .ok [2, 3] := by decide

end Gluon.C15
