/-
C01 / C05 — what the session-level theorem `C01.flush_close_silent` leaves to the source: a flush under the CLOSE
context applies every pending responder to the snapshot and announces nothing ("The mailbox is deselected right
after, so the client's reconstruction ends there").  That is sound only if nothing that can fail stands between that
silent flush and the deselection: a handler that returns an error in between answers NO, `handleSelectedCommand` keeps
the mailbox selected, and the client was never told what the flush did to the count, the sequence numbers and the
flags (C01), including removals that no later command will announce (C05).

Property theorem only; the table `Facts.closeCtxFns` is regenerated from internal/session on every run
(harness/facts_hfc.go).  The same error path is exercised on the real server by the wire-level oracle `hist`
(harness/hfc_hist.go: a connector whose next call fails, CLOSE answered NO, probes against the client mirror).
-/
import GluonModel.Generated.Facts.CloseCtx

namespace Gluon.C01

/-- what may follow the silent flush: the deselection itself and the construction of the tagged OK -/
def afterSilentFlush : List String := ["mailbox.Close", "_.WithMessage", "response.Ok"]

/-- what precedes it: steps whose failure leaves the snapshot and the pending responders untouched (anything else,
    in particular an `unknown: …` step such as a helper that is handed the marked context, is not accepted) -/
def beforeSilentFlush : List String := ["mailbox.ReadOnly", "mailbox.Expunge"]

/-- a handler that marks its context as CLOSE: it flushes, what comes before its FIRST flush under that context is
    known, and everything after it is the deselection `mailbox.Close` and the tagged OK -/
def CloseCtxOk (f : Facts.CloseCtxFn) : Bool :=
  f.steps.contains "flush" &&
  (f.steps.takeWhile (· != "flush")).all (beforeSilentFlush.contains ·) &&
  ((f.steps.dropWhile (· != "flush")).drop 1).contains "mailbox.Close" &&
  ((f.steps.dropWhile (· != "flush")).drop 1).all (afterSilentFlush.contains ·)

/-- **The silent flush of CLOSE is followed by deselection only** — in the current source exactly one session
    handler (`handleClose`) marks its context as CLOSE, and after the first `flush` it performs under that context
    (the flush that changes the snapshot without announcing anything) it calls nothing but `mailbox.Close` and the
    builders of the tagged OK: every step that can fail for outside reasons (`mailbox.Expunge`: database, connector)
    comes BEFORE the silent flush, where a failure leaves the snapshot and the pending responders as they were and
    the trailing flush of `handleSelectedCommand` announces them in the ordinary way. -/
theorem silent_flush_then_deselect :
    Facts.closeCtxFns.map (·.func) = ["handleClose"] ∧
    ∀ f ∈ Facts.closeCtxFns, CloseCtxOk f = true := by
  decide

/-! ### Non-vacuity: the predicate tells the orders apart -/

/-- expunge, silent flush, deselect: accepted -/
example : CloseCtxOk ⟨"", "handleClose",
    ["mailbox.ReadOnly", "mailbox.Expunge", "flush", "mailbox.Close", "_.WithMessage", "response.Ok"]⟩ = true := by
  decide

/-- silent flush first, then a step that can fail: rejected (a failing `mailbox.Expunge` would leave the mailbox
    selected with a silently changed snapshot) -/
example : CloseCtxOk ⟨"", "handleClose",
    ["flush", "mailbox.ReadOnly", "mailbox.Expunge", "mailbox.Close", "_.WithMessage", "response.Ok"]⟩ = false := by
  decide

/-- a second flush after the fallible step does not repair it -/
example : CloseCtxOk ⟨"", "handleClose",
    ["flush", "mailbox.ReadOnly", "mailbox.Expunge", "flush", "mailbox.Close", "_.WithMessage", "response.Ok"]⟩ = false := by
  decide

/-- no deselection after the silent flush: rejected -/
example : CloseCtxOk ⟨"", "handleClose", ["mailbox.Expunge", "flush", "response.Ok"]⟩ = false := by
  decide

/-- the marked context handed to a helper whose calls the table does not show: rejected -/
example : CloseCtxOk ⟨"", "handleClose",
    ["unknown: session function closeHelper", "flush", "mailbox.Close", "_.WithMessage", "response.Ok"]⟩ = false := by
  decide

end Gluon.C01
