/-
C01 at SYSTEM level — what a session announces to its client is explicable, along whole multi-session traces.

The system model is `Gluon.Sys` (Model/System.lean; see Theorems/SysC02.lean).  The client is the mirror of
Spec/Mirror.lean: what an IMAP client can reconstruct from untagged EXISTS / EXPUNGE / FETCH alone; `Agree m snap` =
everything the client believes is true of the snapshot the session answers from (count, learnt UIDs, learnt flags).
`observe i` feeds the client of session `i` with the answers to that session's own ops: a successful SELECT resets
the mirror to the announced count, UNSELECT empties it, the untagged responses of a command / NOOP are applied one
by one (`none` = a response cannot be explained by any mailbox evolution).

* `flush_explicable_partial`, `announcements_explicable_partial`: the session-level theorems of Theorems/C01.lean
  (`flush_explicable_of_uidsAsc`) lifted to every flush of every reachable system state, under the named hypotheses
  `NoOvertake` (Lemmas/SysInv.lean: no own update overtakes a queued one) and `NoSilent` (no own `.SILENT` store,
  whose flag change is by definition not announced — `C01.handle_silent_fetch` covers it at session level);
* `own_append_overtakes_foreign`: without `NoOvertake` the statement is false (the k1 history of corpus/C01,
  reproduced on the real server by the `sys` dialect).
-/
import GluonModel.Lemmas.SysExplicable

namespace Gluon.C01Sys

open Gluon Gluon.Sys

/-- **Every flush in a state satisfying the system invariant is explicable** (partial: no own-`.SILENT` responder
    pending) — for every session with a selected mailbox, every client mirror that agrees with its snapshot, either
    `permitExpunge`: the flush does not fail, `Merge` does not panic, and what is sent leads the mirror to the
    snapshot the session answers from afterwards.  The system invariant holds along every `NoOvertake` trace
    (`C02Sys.invariant_along_trace_partial`), also in the middle of a command (between the issuer's
    `QueueOrApplyStateUpdate` and its flushes: `announcements_explicable_partial`). -/
theorem flush_explicable_partial {s : Sys} (h : SysInv s) {i : Nat} {me : Sys.Sess} {mb : Nat} {m : Mirror}
    (hi : s.sess[i]? = some me) (hs : me.sel = some mb) (hsf : ∀ r ∈ me.res, r.isSilent = false)
    (hag : Agree m me.snap) (p : Bool) :
    ∃ out m', (me.flush (sidOf i) p).2 = .ok out ∧ m.applyAll out = some m' ∧ Agree m' (me.flush (sidOf i) p).1.snap :=
  sess_flush_explicable (h.sess i me hi) hs hsf hag p

/-- **One step, seen by a client** (partial: `OpNoOvertake`, `NoSilent`) — whatever op the system runs, the client of
    session `i` can explain every response it is sent, and its mirror agrees with the session's snapshot afterwards.
    All system states satisfying the invariant without pending own-`.SILENT` responders, all ops of all parties. -/
theorem step_explicable_partial {s : Sys} (h : SysInv s) (hsf : SilentFree s) (op : SysOp) (hv : op.Valid)
    (hns : op.NoSilent) (hno : OpNoOvertake s op) (i : Nat) {m : Mirror} (hm : Seen i s m) :
    ∃ m', observe i m op (step s op).2 = some m' ∧ Seen i (step s op).1 m' :=
  observe_step h hsf op hv hns hno i hm

/-- **C01 for the system** (partial: `NoOvertake`, `NoSilent`) — from the initial state, along ANY well-formed trace of
    commands of any sessions, connector changes, drains (any schedule of the update queues that satisfies
    `NoOvertake`), flushes, selects and unselects, the client of every session `i` can explain every untagged
    response it receives, and at the end (hence at every point) its mirror agrees with the snapshot session `i`
    answers from: the count never shrinks except by an announced EXPUNGE, no sequence number changes its UID
    without EXPUNGE, learnt flags are the snapshot's. -/
theorem announcements_explicable_partial (nsess nbox : Nat) (ops : List SysOp) (hv : ∀ op ∈ ops, op.Valid)
    (hns : ∀ op ∈ ops, op.NoSilent) (hno : NoOvertake (Sys.init nsess nbox) ops) (i : Nat) :
    ∃ m', observeAll i (Mirror.ofCount 0) (Sys.init nsess nbox) ops = some m' ∧
      Seen i (exec (Sys.init nsess nbox) ops) m' :=
  observeAll_explicable (init_inv nsess nbox) (silentFree_init nsess nbox) ops hv hns hno i (seen_init nsess nbox i _)

/-- … from any state satisfying the invariant, for any mirror that agrees with the session's snapshot (e.g. one that
    has learnt every UID and every flag by FETCH). -/
theorem announcements_explicable_from_partial {s : Sys} (h : SysInv s) (hsf : SilentFree s) (ops : List SysOp)
    (hv : ∀ op ∈ ops, op.Valid) (hns : ∀ op ∈ ops, op.NoSilent) (hno : NoOvertake s ops) (i : Nat) {m : Mirror}
    (hm : Seen i s m) : ∃ m', observeAll i m s ops = some m' ∧ Seen i (exec s ops) m' :=
  observeAll_explicable h hsf ops hv hns hno i hm

/-! ### The full statement is false of the code as it stands -/

/-- the k1 history (corpus/C01/k1-held-exists-inserted-below.hist) up to session 0's own APPEND: session 1 appends a
    message (UID 1) — the update sits in session 0's queue (`X HOLD 0`) — then session 0 appends (UID 2): its own
    EXISTS is applied and announced at once -/
def k1 : List SysOp := [ .select 0 0, .cmd 1 (.append 0 []), .cmd 0 (.append 0 []) ]

/-- **Own APPEND overtakes an earlier foreign APPEND** — a reachable state (no `.SILENT` store, all arguments well
    formed) in which the client of session 0 has learnt by FETCH that sequence number 1 is UID 2; when session 0
    then takes the queued update and answers a NOOP, all it is sent is `EXISTS 2`, while the server now answers UID 1
    for sequence number 1: the message the client knows was renumbered without EXPUNGE.  `NoOvertake` fails at the
    last command of `k1`, and only there. -/
theorem own_append_overtakes_foreign :
    let s := exec (Sys.init 2 3) k1
    let m : Mirror := { msgs := [{ uid := some 2, flags := some [] }] }
    let ops : List SysOp := [.drain 0 9, .flush 0 true]
    (∀ op ∈ k1 ++ ops, op.Valid ∧ op.NoSilent) ∧
    (s.sess[0]?).map (·.snap) = some [Snap.mkMsg 2 2 []] ∧ m.agree [Snap.mkMsg 2 2 []] = true ∧
    (step (step s (.drain 0 9)).1 (.flush 0 true)).2.resps = [.exists 2] ∧
    ((exec s ops).sess[0]?).map (·.snap) = some [Snap.mkMsg 1 1 [], Snap.mkMsg 2 2 []] ∧
    (observeAll 0 m s ops).map (·.agree [Snap.mkMsg 1 1 [], Snap.mkMsg 2 2 []]) = some false ∧
    NoOvertake (Sys.init 2 3) (k1.take 2) ∧ ¬ NoOvertake (Sys.init 2 3) k1 := by
  decide

/-! ### Non-vacuity -/

namespace Ex
/-- two sessions on INBOX and a connector: appends, flag changes from both sessions and the connector, an expunge, a move;
    session 1 flushes (`permitExpunge = false`) while the removal is pending, every session drains before its commands -/
def ops : List SysOp :=
  [ .select 0 0, .select 1 0, .cmd 0 (.append 0 ["\\seen"]), .conn (.create 0 []), .drain 1 9, .flush 1 false,
    .drain 0 9, .flush 0 true, .cmd 0 (.store [1, 2] .add ["\\deleted"] false), .cmd 0 .expunge,
    .drain 1 1, .flush 1 false, .drain 1 9, .flush 1 false, .flush 1 true,
    .conn (.create 0 ["\\flagged"]), .drain 0 9, .drain 1 9, .flush 1 true, .cmd 1 (.move [1] 1), .flush 0 true ]
end Ex

/-- the hypotheses of `announcements_explicable_partial` are satisfiable by a non-trivial trace, and the theorem
    applies: the client of session 1 can explain everything it was sent (two EXISTS, FETCHes, held-back EXPUNGEs
    announced by the NOOP, the EXPUNGE of its own MOVE) -/
example : ∃ m', observeAll 1 (Mirror.ofCount 0) (Sys.init 2 2) Ex.ops = some m' ∧ Seen 1 (exec (Sys.init 2 2) Ex.ops) m' :=
  announcements_explicable_partial 2 2 Ex.ops (by decide) (by decide) (by decide) 1

/-- … and the trace really announces things: the number of untagged responses per op (session 1 is sent `EXISTS 2`, the
    two FETCHes of session 0's STORE while the EXPUNGEs are held back, then both EXPUNGEs with its NOOP, `EXISTS 1`, and
    the EXPUNGE of its own MOVE) -/
example : (Sys.run (Sys.init 2 2) Ex.ops).2.map (·.resps.length) =
    [1, 1, 1, 0, 0, 1, 0, 1, 2, 2, 0, 2, 0, 0, 2, 0, 0, 0, 1, 1, 1] := by
  decide

end Gluon.C01Sys
