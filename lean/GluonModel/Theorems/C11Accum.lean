/-
C11 — "… nor grows without bound": the ACCUMULATION dimension, the session loop's own share.

A single byte stream is covered by the parser theorems (`Theorems/C11.lean`: fuel linear in the input, nesting
capped, `string_retained_le_consumed`) and by oracle `c11session` (resident set per stream). What a LONG RUN of
commands leaves behind is a different question: is there anything whose size grows with the number of lines a
client has sent? For the loop itself (`startCommandReader` + `serve`, `Model/SessionLoop.lean`) the answer is a
theorem: from one line to the next `serve` carries three things —

* the error counter: always below `maxSessionError` (`loop_counter_bounded`);
* the mode: normal, or idling under the tag of the line that started the IDLE (`idle_tag_is_the_lines_tag`) — one
  tag, replaced, never collected;
* the backend's state (session state, database, connector, every cache behind a handler): changed by NOTHING but a
  handler that was given a parsed command (`only_handlers_touch_the_backend`) — lines that do not parse, unknown
  commands, TLS replies, IDLE / DONE cannot leave anything behind, however many of them are sent; and the reader
  carries nothing at all (`reader_forgets_history`, `Theorems/C11Session.lean`).

So whatever accumulates, accumulates BEHIND a command handler: in structures the model abstracts into `Backend.exec`
(the model says nothing about their size — that is the modelling gap named in the check's coverage note). That
part is observed on the real process, per kind of command, by oracle `c11accum` (harness/o_session_accum.go: N
pairwise distinct commands per kind, live heap after a forced collection at 0, N/2, N and after the session is
closed). The theorems say where NOT to look, the oracle looks where they do not reach.
-/
import GluonModel.Lemmas.SessionBounded
import GluonModel.Theorems.C11Session

namespace Gluon.C11
open Gluon.Parse Gluon.SessionLoop

/-- **`loop_counter_bounded`**: in every state `serve` goes through while it works off ANY sequence of reader
results — any byte stream, any backend — the error counter is below `maxSessionError`: the counter is the only
number the loop keeps, and it does not grow with the length of the session. -/
theorem loop_counter_bounded (cfg : Cfg) (B : Backend σ) (b0 : σ) (hpos : 0 < cfg.maxErr) (rs : List ReadRes) :
    ∀ s ∈ statesAlong cfg B (SState.init b0) rs, s.errs < cfg.maxErr :=
  statesAlong_errs_lt cfg B rs (SState.init b0) hpos

/-- … on the model of the current source, for the lines the reader finds in a byte stream: no hypothesis left -/
theorem loop_counter_bounded_now (tls : Bool) (B : Backend σ) (b0 : σ) (input : Bytes) :
    ∀ s ∈ statesAlong (sessionCfg tls) B (SState.init b0)
        ((readAll (sessionCfg tls) (fuelFor input) (iterFor input) (PState.init input)).1.map (·.res)),
      s.errs < (sessionCfg tls).maxErr :=
  loop_counter_bounded (sessionCfg tls) B b0 (session_max_errors_positive tls) _

/-- **`only_handlers_touch_the_backend`**: one step of `serve` leaves the backend's state exactly as it was unless
the reader handed it a PARSED command outside IDLE, and then the new state is what the handler made of it
(`Backend.exec`). A line that does not parse (BAD), a TLS reply, an IDLE being started or ended, DONE, LOGOUT: none
of them can add to anything the server keeps. Whatever grows with the number of commands grows inside a handler. -/
theorem only_handlers_touch_the_backend (cfg : Cfg) (B : Backend σ) (st : SState σ) (r : ReadRes)
    (out : List Completion) (st' : SState σ) (h : serveStep cfg B st r = (out, .cont st')) :
    st'.bk = st.bk ∨ ∃ c, r = .cmd c ∧ st.mode = .normal ∧ st'.bk = (B.exec st.bk c).2 :=
  serveStep_bk cfg B st r out st' h

/-- **`idle_tag_is_the_lines_tag`**: the only bytes of the client the loop itself holds on to between two lines are
ONE tag — the tag of the line that started the IDLE it is in; a step keeps the mode, returns to normal, or
replaces it by the tag of the line just read. Nothing is appended to anything. -/
theorem idle_tag_is_the_lines_tag (cfg : Cfg) (B : Backend σ) (st : SState σ) (r : ReadRes)
    (out : List Completion) (st' : SState σ) (h : serveStep cfg B st r = (out, .cont st')) :
    st'.mode = st.mode ∨ st'.mode = .normal ∨ ∃ c, r = .cmd c ∧ st'.mode = .idle c.tag :=
  serveStep_mode cfg B st r out st' h

/-- non-vacuity: 19 erroneous lines, a well-formed one, 19 erroneous lines: `serve` goes through 40 states, the
counter climbs to 19 twice and is never 20; the backend (here: a counter of handled commands) has moved once -/
example :
    let bad (n : Nat) := (List.replicate n (kw "t FOO\r\n")).flatten
    let input := bad 19 ++ kw "z NOOP\r\n" ++ bad 19
    let counting : Backend Nat := ⟨fun n _ => (.ok, n + 1), fun _ => false, fun _ => false⟩
    let ss := statesAlong (sessionCfg false) counting (SState.init 0)
      ((readAll (sessionCfg false) (fuelFor input) (iterFor input) (PState.init input)).1.map (·.res))
    ss.length = 40 ∧ (ss.map (·.errs)).foldl max 0 = 19 ∧ ss.all (·.errs < 20) = true ∧ (ss.map (·.bk)).getLast? = some 1 := by
  decide +kernel

end Gluon.C11
