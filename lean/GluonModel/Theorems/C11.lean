/-
C11 — arbitrary client bytes never crash, hang or bloat the server: the parser part.

Theorems over the parser model `GluonModel/Model/Parse/*.lean` (tied to `rfcparser` and
`imap/command` by the `parse`/`parsebad` correspondence dialects). The session-loop part of C11 (one
completion result per line, 20 errors close the session) is in its own section below the parser part.
-/
import GluonModel.Lemmas.ParsePrim

namespace Gluon.C11
open Gluon.Parse

/-- `true` iff the outcome is "loop did not stop within its fuel" -/
def isFuel : Res α → Bool
  | .fuel => true
  | _ => false

/-! ## parser part -/

/-- Every byte value is classified by `ScanToken`: its final `fmt.Errorf("unexpected character")`
return is unreachable, the scanner never fails on a byte. -/
theorem scanner_total (b : UInt8) : (scanByte? b).isSome = true := scanByte_total b

/-- The loop of `ParseQuoted` at end of input never stops: `IsQuotedChar(TokenTypeEOF)` is true, every
iteration "matches" the EOF token, advances (to EOF again) and appends a byte. Whatever the fuel, the
model runs out of it (DESIGN section 9, #7: infinite loop allocating memory). -/
theorem quotedLoop_eof_diverges (fuel : Nat) (c : Ctx) : quotedLoop fuel (load c []) = .fuel := by
  induction fuel generalizing c with
  | zero => rfl
  | succ n ih =>
    have hadv : ∀ c : Ctx, advance (load c []) = .ok () (load ⟨Tok.eof, c.cb, c.n⟩ []) := fun _ => rfl
    have hm : matchesWith isQuotedChar (load c []) = .ok true (load ⟨Tok.eof, c.cb, c.n⟩ []) := by
      unfold matchesWith
      simp [isQuotedChar, isQuotedSpecial, bind_ok (hadv c)]
    unfold quotedLoop
    rw [bind_ok hm]
    simp only [if_true, bind_prevVal]
    rw [bind_def, ih]

/-- `parse_terminates` is false of the current code. Witness: the input `a LOGIN "abc` (connection
closed inside a quoted string). With the linear fuel `fuelFor` — and with any other fuel up to 100 — the
model does not terminate; the real parser loops forever (replayed by the `parsebad` corpus). -/
theorem parseQuoted_eof_witness :
    isFuel (parse (fuelFor (kw "a LOGIN \"abc")) (kw "a LOGIN \"abc")) = true
    ∧ ∀ f, f ≤ 100 → isFuel (parse f (kw "a LOGIN \"abc")) = true := by
  constructor <;> decide +kernel

/-- Quoted strings swallow CRLF: after `a LOGIN "foo` CRLF `b NOOP` CRLF the first command is still
not complete — the parser is inside the quoted string at end of input (and loops there). -/
theorem quoted_swallows_crlf_witness :
    isFuel (parse (fuelFor (kw "a LOGIN \"foo\r\nb NOOP\r\n")) (kw "a LOGIN \"foo\r\nb NOOP\r\n")) = true := by
  decide +kernel

/-- `{0}` and literals at or above the size cap make `ParseLiteral` return a plain error — not a
`*rfcparser.Error` — so the session's command reader exits instead of answering BAD (#17). -/
theorem literal_plain_error_witness :
    (match parse 100 (kw "a LOGIN {0}\r\n") with | .err .litZero _ => true | _ => false) = true
    ∧ (match parse 100 (kw "a LOGIN {31457280}\r\n") with | .err .litBig _ => true | _ => false) = true := by
  constructor <;> decide +kernel

end Gluon.C11
