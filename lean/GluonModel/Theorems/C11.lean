/-
C11 — arbitrary client bytes never crash, hang or bloat the server: the parser part.

Theorems over the parser model `GluonModel/Model/Parse/*.lean` (tied to `rfcparser` and
`imap/command` by the `parse`/`parsebad` correspondence dialects). Every Go `for` loop and the recursion
of `parseSearchKey` take explicit fuel in the model, so termination is a theorem about the model, not an
assumption of it. The session-loop part of C11 (one completion result per line, 20 errors close the
session) has its own section at the end of this file.

History: before commit c30e930 the recursion depth of `parseSearchKey` was bounded by the input length only
(`depth_unbounded`, #18); before commits 18609dc / e5f2a7d the statements `parse_terminates` and "errors are parser
errors" were false (end of input inside a quoted string looped forever, #7; `{0}` and oversize literals
returned plain errors, #17); the former witnesses are kept below as regression theorems about the
repaired code, and as `corpus/C11/*.ops` on the real parser.
-/
import GluonModel.Lemmas.ParseTerm
import GluonModel.Lemmas.ParseNoPanic
import GluonModel.Lemmas.ParseRetain

namespace Gluon.C11
open Gluon.Parse

/-- `true` iff the outcome is "a loop did not stop within its fuel" -/
def isFuel : Res α → Bool
  | .fuel => true
  | _ => false

/-- `true` iff the outcome is a `*rfcparser.Error` (which the session answers with a tagged BAD) -/
def isParseError : Res α → Bool
  | .err (.parse _) _ => true
  | _ => false

/-! ## parser part -/

/-- Every byte value is classified by `ScanToken`: its final `fmt.Errorf("unexpected character")`
return is unreachable, the scanner never fails on a byte. -/
theorem scanner_total (b : UInt8) : (scanByte? b).isSome = true := scanByte_total b

/-! ### termination -/

/-- **`parse_terminates`**, full strength: for EVERY byte string, `Parse` run with any fuel above the input
length — in particular with the linear `fuelFor input = 2·|input| + 16` the driver uses — does not run out
of fuel: every loop of the scanner-driven parser (`CollectBytesWhile…`, `ParseNumber`, `ParseQuoted`, the
list loops, the ID loop, …) and the recursion of `parseSearchKey` consume at least one byte per iteration
or stop. No hypothesis on the input: malformed, truncated, 8-bit, NUL, bare CR/LF all included. -/
theorem parse_terminates (input : Bytes) (fuel : Nat) (hf : input.length < fuel) :
    parse fuel input ≠ .fuel :=
  parse_total fuel input hf

/-- the same with the driver's fuel -/
theorem parse_terminates_fuelFor (input : Bytes) : parse (fuelFor input) input ≠ .fuel :=
  parse_total _ input (by unfold fuelFor; omega)

/-- Regression of #7: the connection closed inside a quoted string (`a LOGIN "abc`) is a parser error
now, with every fuel that exceeds the input length; it used to be the witness of non-termination. -/
theorem quoted_eof_regression :
    isParseError (parse (fuelFor (kw "a LOGIN \"abc")) (kw "a LOGIN \"abc")) = true := by
  decide +kernel

/-- Regression of #7, second half: a quoted string no longer swallows CRLF — `a LOGIN "foo` CRLF is a
parser error at the CR, the next line is not eaten. -/
theorem quoted_crlf_regression :
    (match parse (fuelFor (kw "a LOGIN \"foo\r\nb NOOP\r\n")) (kw "a LOGIN \"foo\r\nb NOOP\r\n") with
      | .err (.parse _) s => s.rest == kw "\nb NOOP\r\n"
      | _ => false) = true := by
  decide +kernel

/-! ### no panic, and errors are parser errors -/

/-- No Go runtime panic in the parser, for any input and any fuel: the two panic sites
(`make([]byte, literalSize)` and `dst[0]` in `Scanner.ConsumeBytes`) are guarded by the literal size
checks, and there is no other slice / index / conversion site (the default panic handler is a no-op, so a
panic would kill the whole server, not one session). -/
theorem parse_no_panic (fuel : Nat) (input : Bytes) (s : PState) : parse fuel input ≠ .err .panic s :=
  parse_noPanic fuel input s

/-- Hence every outcome of `Parse` (with enough fuel) is: a command, a `*rfcparser.Error` (tagged BAD,
the session continues), or `io.EOF` from inside a literal (the client went away while sending literal
data). -/
theorem parse_outcomes (input : Bytes) :
    (∃ c s, parse (fuelFor input) input = .ok c s) ∨
    (∃ t s, parse (fuelFor input) input = .err (.parse t) s) ∨
    (∃ s, parse (fuelFor input) input = .err .ioEOF s) := by
  cases h : parse (fuelFor input) input with
  | ok c s => exact Or.inl ⟨c, s, rfl⟩
  | fuel => exact absurd h (parse_terminates_fuelFor input)
  | err e s =>
    cases e with
    | parse t => exact Or.inr (Or.inl ⟨t, s, rfl⟩)
    | ioEOF => exact Or.inr (Or.inr ⟨s, rfl⟩)
    | panic => exact absurd h (parse_no_panic _ input s)

/-- Regression of #17: `{0}` is an (empty) literal, and a literal at or above the size cap is a parser
error — both used to be plain errors that made the command reader exit without a reply. -/
theorem literal_regression :
    (match parse 100 (kw "a LOGIN {0}\r\n {1}\r\nx\r\n") with
      | .ok ⟨_, .login u p⟩ _ => u == [] && p == kw "x"
      | _ => false) = true
    ∧ isParseError (parse 100 (kw "a LOGIN {31457280}\r\n")) = true := by
  constructor <;> decide +kernel

/-! ### retained memory -/

/-- **`retained_le_consumed`**, for the string arguments (where the bytes of a command are): the value
`ParseAString` returns — atom, quoted string or literal — is never longer than the bytes it consumed, plus
one: the slack is the end-of-input corner `{1}` CRLF EOF, where `Scanner.ConsumeBytes` copies the LF it
still holds as `currentByte` into the literal. A literal is allocated (`make`) before its bytes arrive,
but only below the 30 MB cap (`parseLiteral`: `size ≥ literalCap` is a parser error). The whole-command
form (sum over all arguments) is not proved; it follows the same accounting. -/
theorem string_retained_le_consumed (fuel : Nat) (s : PState) (r : Bytes) (s' : PState) (hl : Loaded s)
    (h : parseAString fuel s = .ok r s') : r.length + s'.input.length ≤ s.input.length + 1 :=
  parseAString_len fuel s r s' hl h

/-! ### recursion depth (#18, repaired by /repo c30e930) -/

/-- **`depth_bounded`**, now at full strength: the recursion of `parseSearchKey` / `parseSearchKeyList` / NOT / OR is
bounded by the CONSTANT `searchBudget = maxSearchKeyDepth + 1` (regenerated from the source), whatever the
input: with loop fuel above the number of bytes left `parseSearchKey d fuel` never runs out of fuel, for
every `d` — the first argument only counts down the levels still allowed and ends in a parser error, not in
deeper recursion. (Before c30e930 the statement needed `d` above the input length: `depth_le_input`.) -/
theorem depth_bounded (d fuel : Nat) (s : PState) (hl : Loaded s)
    (hs : s.input.length < fuel) : parseSearchKey d fuel s ≠ .fuel :=
  (tot_parseSearchKey fuel d).tot s hl hs

/-- the cap the current source has: 65 levels (depths 0 … 64) -/
theorem search_budget_known : searchDepthShapeKnown = true ∧ 0 < searchBudget := by decide

/-- **`depth_capped`** (was `depth_unbounded`: "for every budget `d` there is an input of `d` bytes that exhausts it, no
constant bounds the recursion depth" — the stack of the real process overflowed at 2·10^7 levels): `d` opening
parentheses against a budget of `d` levels are a PARSER ERROR (answered BAD by the session); with
`d = searchBudget` that is every SEARCH nested deeper than `maxSearchKeyDepth`. -/
theorem depth_capped (d fuel : Nat) (c : Ctx) (rest : Bytes) :
    ∃ t s', parseSearchKey d fuel (load c (List.replicate d 40 ++ rest)) = .err (.parse t) s' :=
  parseSearchKey_parens d fuel c rest

/-- regression of #18 on whole command lines: 64 levels of nesting parse, 65 are a parser error -/
theorem search_nesting_regression :
    (match parse 600 (kw "a SEARCH " ++ List.replicate 64 40 ++ kw "ALL" ++ List.replicate 64 41 ++ kw "\r\n") with
      | .ok _ _ => true | _ => false) = true ∧
    isParseError (parse 600 (kw "a SEARCH " ++ List.replicate 65 40 ++ kw "ALL" ++ List.replicate 65 41 ++ kw "\r\n")) = true := by
  constructor <;> decide +kernel

/-! ## session loop (added by the lead / the session-loop model) -/

end Gluon.C11
