/-
C14 — Mailbox namespace and LIST/LSUB follow the reference hierarchy model
(pattern matching, hierarchy and LIST/LSUB name-selection part).

Property theorems only; helper lemmas live in `GluonModel/Lemmas/{Wildcard,MatchPaths,MatchRun,MatchList}`.
Model: `GluonModel/Model/Match.lean` (`matchName` = `match`, `matchRoot`, `canon`, `listSuperiors`,
`listInferiors`, `getMatchesOrd` = `getMatches` with the map iteration order as a parameter,
`prepareMatch`), tied to /repo/internal/state/{match,paths}.go by the dialects `match`,
`match-small`, `match-baddelim`, `superiors`, `inferiors`, `getmatches`.  Reference semantics:
`GluonModel/Spec/Wildcard.lean` (RFC 3501 wildcard relation `Wild`, hierarchy `levels`,
`MatchSpec`, `ListSel`, `LsubSel`) — no regular expressions there.

After the repairs 8bd06a6 (delimiter quoted inside the character class), 3aa1f7a (`regexp.Compile`,
no panic), 5fbe268 (`(?s)`) and 7e1a030 (`canon` looks at the first hierarchy level only) the
theorems hold at full strength: no hypothesis on the delimiter, on newlines in names or on INBOX
spellings remains.  The former counter-examples are kept as regression `example`s at the end.
-/
import GluonModel.Lemmas.MatchList
import GluonModel.Generated.Facts.Match

namespace Gluon.C14

open Gluon Gluon.Match

/-- **`match` is the RFC 3501 matcher** — for every reference, every pattern (with `*` and `%` in
    any position), every delimiter character and every mailbox name (unbounded length and
    depth, any characters including newline and regular-expression metacharacters), the answer of
    `match` is the one `Spec.MatchSpec` prescribes: the root of the reference for the empty
    pattern; the name itself iff the canonical `reference ++ pattern` matches it under "`*` =
    anything, `%` = anything but the delimiter"; for a pattern ending in `%`, the longest
    hierarchy level of the name that matches (the name itself whenever it matches), nothing iff no
    level matches.  (`match` has no panicking path: its result type has no such outcome.) -/
theorem match_eq_spec (ref pat : Name) (d : Char) (name : Name) :
    ∃ res ok, matchName ref pat d name = .ret res ok ∧ Spec.MatchSpec d ref pat name res ok :=
  matchName_spec ref pat d name

/-- **Whole-name matches are never truncated** — if the canonical pattern matches the whole
    name, `match` returns that name (also for patterns ending in `%`, where the regular
    expression is not anchored at the end). -/
theorem match_whole (ref pat : Name) (d : Char) (name : Name) (hp : pat ≠ [])
    (hw : Spec.Wild d (Spec.canon d (ref ++ pat)) name) : matchName ref pat d name = .ret name true :=
  match_reach_complete hp hw

/-- **INBOX spelling** — `canon` is the reference spelling `Spec.canon`: the first hierarchy
    segment becomes `INBOX` iff it spells INBOX in any letter case, nothing else changes (as the
    command layer stores names), for every name and delimiter. -/
theorem canon_spec (d : Char) (n : Name) : canon d n = Spec.canon d n := canon_eq d n

/-- **Empty pattern** — `matchRoot` returns the reference up to and including its first
    delimiter, or the empty string if the reference contains no delimiter (RFC 3501 §6.3.8). -/
theorem matchRoot_spec (d : Char) (ref : Name) : matchRoot d ref = Spec.root d ref := matchRoot_eq d ref

/-- **`listSuperiors` returns exactly the superior levels, in order** — the result is the list of
    the proper prefixes of the name that end right before an occurrence of the delimiter: every
    such prefix and nothing else, shortest first (strictly increasing length, hence no
    duplicates); for every name (leading, trailing, doubled delimiters included). -/
theorem superiors_spec (d : Char) (n : Name) :
    listSuperiors d n = Spec.superiors d n ∧
    (∀ p, p ∈ listSuperiors d n ↔ ∃ rest, n = p ++ d :: rest) ∧
    (listSuperiors d n).Pairwise (fun a b => a.length < b.length) := by
  refine ⟨listSuperiors_eq d n, ?_, ?_⟩
  · intro p; rw [listSuperiors_eq]; exact Spec.mem_superiors_iff d n p
  · rw [listSuperiors_eq]; exact Spec.superiors_sorted d n

/-- **`listInferiors` returns exactly the inferiors, deepest-sorting first** — the result is a
    permutation of the given names that have `parent` as a superior level (`name = parent ++
    delimiter ++ rest`; multiplicities kept, names that merely share a string prefix excluded),
    in descending byte order (what RENAME relies on to move children before parents). -/
theorem inferiors_spec (d : Char) (parent : Name) (names : List Name) :
    (listInferiors d parent names).Perm (names.filter fun n => (Spec.superiors d n).contains parent) ∧
    (∀ n, n ∈ listInferiors d parent names ↔ n ∈ names ∧ ∃ rest, n = parent ++ d :: rest) ∧
    (listInferiors d parent names).Pairwise (fun a b => ltName a b = false) := by
  have hf : (names.filter fun n => (listSuperiors d n).contains parent) =
      (names.filter fun n => (Spec.superiors d n).contains parent) := by
    congr 1; funext n; rw [listSuperiors_eq]
  have hperm : (listInferiors d parent names).Perm (names.filter fun n => (Spec.superiors d n).contains parent) := by
    simp only [listInferiors]
    rw [hf]
    exact (List.reverse_perm _).trans (sortNames_perm _)
  refine ⟨hperm, ?_, ?_⟩
  · intro n
    rw [hperm.mem_iff]
    simp only [List.mem_filter, List.contains_iff_mem, Spec.mem_superiors_iff, Spec.IsSuperior]
  · simp only [listInferiors]
    rw [List.pairwise_reverse]
    exact sortNames_sorted _

/-- **LIST returns exactly the names the RFC selects, `\Noselect` for pure parents** — for every
    set of mailboxes, every reference and non-empty pattern, every delimiter and *every*
    iteration order of Go's map: `getMatches` in LIST mode lists every name at most once, and lists
    `p` with attribute class `s` iff `Spec.ListSel` holds: `p` is a hierarchy level of some mailbox
    (the mailbox itself or one of its superiors), the canonical `reference ++ pattern` matches `p`
    under RFC 3501's wildcard rules, and `s` is `\Noselect` exactly when `p` is not itself a
    selectable mailbox (exists only as a parent).  A listed mailbox carries its own stored
    attributes. -/
theorem list_exact (all : List MBox) (order : List Name) (ref pat : Name) (d : Char) (hp : pat ≠ []) :
    let ms := getMatchesOrd all order ref pat d false
    (ms.map (·.1)).Nodup ∧
    (∀ p a, (p, a) ∈ ms → a = attOf all p) ∧
    ∀ p s, (∃ a, (p, a) ∈ ms ∧ a.sel = s) ↔
      Spec.ListSel d (Spec.canon d (ref ++ pat)) order (selectable all) p s := by
  intro ms
  have hI := getMatchesOrd_inv all order ref pat d false
  have fwd : ∀ p a, (p, a) ∈ ms → a = attOf all p ∧ (∃ m ∈ order, p ∈ Spec.levels d m) ∧
      Spec.Wild d (Spec.canon d (ref ++ pat)) p := by
    intro p a h
    obtain ⟨m, q, hc, hm, hpm⟩ := hI.sound p a h
    rw [mem_cands] at hc
    rw [prepareMatch_list] at hpm
    simp at hpm
    obtain ⟨hl, hw⟩ := match_reach_sound hp hc.2 hm
    exact ⟨hpm.symm, ⟨m, hc.1, hl⟩, hw⟩
  refine ⟨hI.nodup, fun p a h => (fwd p a h).1, ?_⟩
  intro p s
  simp only [Spec.ListSel]
  constructor
  · rintro ⟨a, h, rfl⟩
    obtain ⟨ha, hl, hw⟩ := fwd p a h
    exact ⟨hl, hw, by rw [ha, attOf_sel]⟩
  · rintro ⟨⟨m, hm, hl⟩, hw, rfl⟩
    have hmp := match_reach_complete (ref := ref) hp hw
    rcases hI.complete m p p ((mem_cands d order m p).mpr ⟨hm, hl⟩) hmp with ⟨a, ha⟩ | h
    · exact ⟨a, ha, by rw [(fwd p a ha).1, attOf_sel]⟩
    · rw [prepareMatch_list] at h; cases h

/-- **LSUB returns exactly the subscribed names the RFC selects** — `State.List` calls
    `getMatches` in LSUB mode with the subscribed names only (hypothesis `hsub`, regenerated fact
    `lsub_input_fact`; `order` = those names in any map order).  Then a name `p` is listed with
    class `s` iff `Spec.LsubSel` holds: the pattern matches `p` and either `p` is subscribed, or
    the pattern ends in `%`, `p` is not subscribed but is a superior level of a subscribed name —
    then it is listed `\Noselect` (RFC 3501 §6.3.9). -/
theorem lsub_exact (all : List MBox) (order : List Name) (ref pat : Name) (d : Char) (hp : pat ≠ [])
    (horder : ∀ n, n ∈ order ↔ ∃ mb ∈ all, mb.name = n) (hsub : ∀ mb ∈ all, mb.subscribed = true) :
    let ms := getMatchesOrd all order ref pat d true
    (ms.map (·.1)).Nodup ∧
    ∀ p s, (∃ a, (p, a) ∈ ms ∧ a.sel = s) ↔
      Spec.LsubSel d (Spec.canon d (ref ++ pat)) (endsPct pat) order (selectable all) p s := by
  intro ms
  have hI := getMatchesOrd_inv all order ref pat d true
  -- membership in `order` versus the map lookup
  have hlook : ∀ p, p ∈ order ↔ (lookupMBox all p).isSome = true := by
    intro p; rw [horder, lookupMBox_isSome_iff]
  have hlsub : ∀ p mb, lookupMBox all p = some mb → mb.subscribed = true := by
    intro p mb h
    exact hsub mb (by
      have := List.mem_of_find?_eq_some h
      simpa using this)
  have fwd : ∀ p a, (p, a) ∈ ms → (∃ m ∈ order, p ∈ Spec.levels d m) ∧
      Spec.Wild d (Spec.canon d (ref ++ pat)) p ∧
      ((p ∈ order ∧ a = attOf all p) ∨ (p ∉ order ∧ endsPct pat = true ∧ a = .noselect)) := by
    intro p a h
    obtain ⟨m, q, hc, hm, hpm⟩ := hI.sound p a h
    rw [mem_cands] at hc
    obtain ⟨hl, hw⟩ := match_reach_sound hp hc.2 hm
    refine ⟨⟨m, hc.1, hl⟩, hw, ?_⟩
    cases hlk : lookupMBox all p with
    | some mb =>
      left
      rw [prepareMatch_lsub_some all p pat _ mb hlk (hlsub p mb hlk)] at hpm
      simp at hpm
      exact ⟨(hlook p).mpr (by simp [hlk]), hpm.symm⟩
    | none =>
      right
      have hpo : p ∉ order := by rw [hlook]; simp [hlk]
      have hmp : (m == p) = false := by
        simp only [beq_eq_false_iff_ne, ne_eq]
        intro e; exact hpo (e ▸ hc.1)
      rw [hmp, prepareMatch_lsub_none all p pat hlk] at hpm
      cases he : endsPct pat with
      | true => simp [he] at hpm; exact ⟨hpo, rfl, hpm.symm⟩
      | false => simp [he] at hpm
  refine ⟨hI.nodup, ?_⟩
  intro p s
  simp only [Spec.LsubSel]
  constructor
  · rintro ⟨a, h, rfl⟩
    obtain ⟨⟨m, hm, hl⟩, hw, hcase⟩ := fwd p a h
    refine ⟨hw, ?_⟩
    rcases hcase with ⟨hpo, ha⟩ | ⟨hpo, he, ha⟩
    · exact Or.inl ⟨hpo, by rw [ha, attOf_sel]⟩
    · refine Or.inr ⟨he, hpo, ⟨m, hm, ?_⟩, by rw [ha]; rfl⟩
      rw [Spec.levels, List.mem_append] at hl
      rcases hl with hl | hl
      · exact hl
      · simp at hl; exact absurd (hl ▸ hm) hpo
  · rintro ⟨hw, ⟨hpo, rfl⟩ | ⟨he, hpo, ⟨m, hm, hl⟩, rfl⟩⟩
    · have hl : p ∈ Spec.levels d p := Spec.self_mem_levels d p
      have hmp := match_reach_complete (ref := ref) hp hw
      obtain ⟨mb, hlk⟩ := Option.isSome_iff_exists.mp ((hlook p).mp hpo)
      rcases hI.complete p p p ((mem_cands d order p p).mpr ⟨hpo, hl⟩) hmp with ⟨a, ha⟩ | h
      · refine ⟨a, ha, ?_⟩
        rcases (fwd p a ha).2.2 with ⟨_, e⟩ | ⟨hno, _⟩
        · rw [e, attOf_sel]
        · exact absurd hpo hno
      · rw [prepareMatch_lsub_some all p pat _ mb hlk (hlsub p mb hlk)] at h; cases h
    · have hl' : p ∈ Spec.levels d m := by simp [Spec.levels, hl]
      have hmp := match_reach_complete (ref := ref) hp hw
      have hlk : lookupMBox all p = none := by
        cases h : lookupMBox all p with
        | none => rfl
        | some mb => exact absurd ((hlook p).mpr (by simp [h])) hpo
      have hmne : (m == p) = false := by
        simp only [beq_eq_false_iff_ne, ne_eq]
        intro e; exact hpo (e ▸ hm)
      rcases hI.complete m p p ((mem_cands d order m p).mpr ⟨hm, hl'⟩) hmp with ⟨a, ha⟩ | h
      · refine ⟨a, ha, ?_⟩
        rcases (fwd p a ha).2.2 with ⟨hin, _⟩ | ⟨_, _, e⟩
        · exact absurd hin hpo
        · rw [e]; rfl
      · rw [hmne, prepareMatch_lsub_none all p pat hlk, he] at h; simp at h

/-- **`getMatches` as called by LIST** — `list_exact` for the concrete map `State.List` builds
    (`order` = the distinct names of `all`). -/
theorem getMatches_list_exact (all : List MBox) (ref pat : Name) (d : Char) (hp : pat ≠ []) :
    let ms := getMatches all ref pat d false
    (ms.map (·.1)).Nodup ∧
    ∀ p s, (∃ a, (p, a) ∈ ms ∧ a.sel = s) ↔
      Spec.ListSel d (Spec.canon d (ref ++ pat)) (all.map (·.name)) (selectable all) p s := by
  intro ms
  have hk : ∀ n, n ∈ keys all ↔ n ∈ all.map (·.name) := fun n => List.mem_eraseDups
  obtain ⟨hnd, _, h⟩ := list_exact all (keys all) ref pat d hp
  refine ⟨hnd, ?_⟩
  intro p s
  show (∃ a, (p, a) ∈ getMatchesOrd all (keys all) ref pat d false ∧ a.sel = s) ↔ _
  rw [h p s]
  simp only [Spec.ListSel, hk]

/-- **Empty pattern lists the root** — `LIST ref ""` over a non-empty set of mailboxes answers
    exactly one line: the root of the reference (`Spec.root`), with the attributes
    `prepareMatch` gives that name (`\Noselect` unless a mailbox is named exactly like the
    root); over an empty set it answers nothing. -/
theorem list_root (all : List MBox) (order : List Name) (ref : Name) (d : Char) :
    let ms := getMatchesOrd all order ref [] d false
    (ms.map (·.1)).Nodup ∧
    ∀ p a, (p, a) ∈ ms ↔ (order ≠ [] ∧ p = Spec.root d ref ∧ a = attOf all p) := by
  intro ms
  have hm : ∀ q, matchName ref [] d q = .ret (Spec.root d ref) true := by
    intro q; simp [matchName, matchRoot_eq]
  have hI := getMatchesOrd_inv all order ref [] d false
  have fwd : ∀ p a, (p, a) ∈ ms → order ≠ [] ∧ p = Spec.root d ref ∧ a = attOf all p := by
    intro p a h
    obtain ⟨m, q, hc, hmq, hpm⟩ := hI.sound p a h
    rw [mem_cands] at hc
    rw [hm] at hmq
    cases hmq
    rw [prepareMatch_list] at hpm
    simp at hpm
    exact ⟨List.ne_nil_of_mem hc.1, rfl, hpm.symm⟩
  refine ⟨hI.nodup, ?_⟩
  intro p a
  constructor
  · exact fwd p a
  · rintro ⟨hne, rfl, rfl⟩
    obtain ⟨m, hmo⟩ := List.exists_mem_of_ne_nil order hne
    rcases hI.complete m m _ ((mem_cands d order m m).mpr ⟨hmo, Spec.self_mem_levels d m⟩) (hm m) with ⟨a, ha⟩ | h
    · rw [(fwd _ a ha).2.2] at ha; exact ha
    · rw [prepareMatch_list] at h; cases h

/-- **The expression `match` compiles is built from the pieces the model assumes** (regenerated
    from the source by `vh facts`): `"(?s)^%v"` of `regexp.QuoteMeta(canon(…))`, `"$"` unless
    `strings.HasSuffix(pattern, "%")`, `ReplaceAll` of `\*` by `.*`, then of `%` by `[^%v]*` of the
    `regexp.QuoteMeta`-quoted delimiter, `regexp.Compile` (an error returns `"", false`),
    `FindAllString`.  Any edit of these pieces breaks this theorem, so the model cannot silently
    drift from the code. -/
theorem match_shape :
    Facts.matchPieces = ["lit:", "call:matchRoot", "call:fmt.Sprintf", "lit:(?s)^%v", "call:regexp.QuoteMeta",
      "call:canon", "call:strings.HasSuffix", "lit:%", "lit:$", "call:strings.ReplaceAll", "lit:\\*", "lit:.*",
      "call:strings.ReplaceAll", "lit:%", "call:fmt.Sprintf", "lit:[^%v]*", "call:regexp.QuoteMeta",
      "call:regexp.Compile", "lit:", "call:compiled.FindAllString", "call:len", "lit:"] := by
  decide

/-- **`canon` looks at the first hierarchy level only** (regenerated from the source): one
    `strings.Split`, one `strings.EqualFold` on `split[0]`, an assignment to `split[0]`, one
    `strings.Join`; no loop and no closure over the other levels. -/
theorem canon_shape :
    Facts.canonPieces = ["call:strings.Split", "call:strings.EqualFold", "index:split[0]", "index:split[0]",
      "call:strings.Join"] := by
  decide

/-- **LSUB hands only subscribed names to `getMatches`** (regenerated from `State.List`): the
    existing mailboxes are skipped when `lsub && !mbox.Subscribed` and get `Subscribed: lsub`, the
    deleted-but-subscribed ones get `Subscribed: true` — the hypothesis `hsub` of `lsub_exact`. -/
theorem lsub_input_fact :
    Facts.listSkipsUnsubscribedInLsub = some true ∧ Facts.listSubscribedExprs = ["lsub", "true"] := by
  decide

/-! ### non-vacuity and regression examples (the former counter-examples, now per the reference) -/

/-- `match_eq_spec` on a real case: `LIST "inbox/" "%"` style query, nested name. -/
example : matchName ['i', 'n', 'b', 'o', 'x', '/'] ['%'] '/' ['I', 'N', 'B', 'O', 'X', '/', 'a', '.', 'b', '/', 'c']
    = .ret ['I', 'N', 'B', 'O', 'X', '/', 'a', '.', 'b'] true := by decide

/-- regression (8bd06a6): delimiter backslash with `%` in the pattern no longer panics and follows the
    reference: `%` stops at the delimiter, `a\%` lists the children of `a`. -/
example : matchName [] ['%'] '\\' ['a'] = .ret ['a'] true ∧
    matchName [] ['%'] '\\' ['a', '\\', 'b'] = .ret ['a'] true ∧
    matchName ['a', '\\'] ['%'] '\\' ['a', '\\', 'b'] = .ret ['a', '\\', 'b'] true ∧
    Spec.Wild '\\' (Spec.canon '\\' ['a', '\\', '%']) ['a', '\\', 'b'] := by
  refine ⟨by decide, by decide, by decide, by decide⟩

/-- regression (5fbe268): a name that contains a newline is matched by `*` and by `%`. -/
example : matchName [] ['*'] '/' ['a', '\n', 'b'] = .ret ['a', '\n', 'b'] true ∧
    matchName [] ['a', '%'] '/' ['a', '\n', 'b'] = .ret ['a', '\n', 'b'] true := by decide

/-- regression (7e1a030): `foo/inbox` is an ordinary name: the pattern `foo/inbox` matches it and not
    `foo/INBOX`; the first level is still case-insensitive. -/
example : matchName [] ['f', 'o', 'o', '/', 'i', 'n', 'b', 'o', 'x'] '/' ['f', 'o', 'o', '/', 'i', 'n', 'b', 'o', 'x']
      = .ret ['f', 'o', 'o', '/', 'i', 'n', 'b', 'o', 'x'] true ∧
    matchName [] ['f', 'o', 'o', '/', 'i', 'n', 'b', 'o', 'x'] '/' ['f', 'o', 'o', '/', 'I', 'N', 'B', 'O', 'X']
      = .ret [] false ∧
    matchName [] ['i', 'n', 'b', 'o', 'x', '/', '%'] '/' ['I', 'N', 'B', 'O', 'X', '/', 'x'] = .ret ['I', 'N', 'B', 'O', 'X', '/', 'x'] true ∧
    canon '/' ['f', 'o', 'o', '/', 'i', 'n', 'b', 'o', 'x'] = ['f', 'o', 'o', '/', 'i', 'n', 'b', 'o', 'x'] := by decide

/-- regression: the mailbox `a\nb` is listed by `LIST "" *`. -/
example : getMatchesOrd [⟨['a', '\n', 'b'], false, some []⟩] [['a', '\n', 'b']] [] ['*'] '/' false
    = [(['a', '\n', 'b'], .real [])] := by decide

/-- regex metacharacters in names are literal: `a.b` does not match `axb`, `(a)` matches `(a)`. -/
example : matchName [] ['a', '.', 'b'] '/' ['a', 'x', 'b'] = .ret [] false ∧
    matchName [] ['(', 'a', ')', '*'] '/' ['(', 'a', ')', '/', '[', '^', ']'] = .ret ['(', 'a', ')', '/', '[', '^', ']'] true := by
  decide

/-- `superiors_spec` / `inferiors_spec` on a name with doubled and trailing delimiters. -/
example : listSuperiors '/' ['a', '/', '/', 'b', '/'] = [['a'], ['a', '/'], ['a', '/', '/', 'b']] := by decide

example : listInferiors '/' ['a'] [['a'], ['a', 'b'], ['a', '/', 'b'], ['a', '/', 'b', '/', 'c'], ['b']]
    = [['a', '/', 'b', '/', 'c'], ['a', '/', 'b']] := by decide

/-- `list_exact` on a tree with a deleted parent: `a/b` exists, `a` does not → `a` is listed `\Noselect`. -/
example : getMatchesOrd [⟨['a', '/', 'b'], false, some []⟩] [['a', '/', 'b']] [] ['*'] '/' false
    = [(['a', '/', 'b'], .real []), (['a'], .noselect)] := by decide

/-- `lsub_exact`: `LSUB "" "%"` with only `a/b` subscribed lists `a` `\Noselect`; `LSUB "" "*"` lists `a/b` only. -/
example : getMatchesOrd [⟨['a', '/', 'b'], true, some []⟩] [['a', '/', 'b']] [] ['%'] '/' true
      = [(['a'], .noselect)] ∧
    getMatchesOrd [⟨['a', '/', 'b'], true, some []⟩] [['a', '/', 'b']] [] ['*'] '/' true
      = [(['a', '/', 'b'], .real [])] := by decide

end Gluon.C14
